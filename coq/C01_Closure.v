(* C01_Closure.v - SPECIFICATION side: the operations whose documented precondition holds keep the abstract complex
   closed under faces and the filtration monotone (so [ok_history] only has to ask it of lone insert_simplex and
   insert_graph, whose monotonicity depends on the inserted values). *)
From Coq Require Import ZArith List Lia Bool ZifyBool.
Import ListNotations.
Require Import Simplex Trie C01_Model C01_Proofs.
Local Open Scope Z_scope.

Definition goodP (K : cplx) : Prop :=
  forall t w, lookup K t = Some w -> forall t', t' <> [] -> subseq t' t = true -> exists w', lookup K t' = Some w' /\ w' <= w.

Lemma good_elim K : good K = true -> goodP K.
Proof.
  intros Hg t w Ht t' Hne Hsub.
  assert (Hc : cmem K t' = true) by (eapply good_closed; eauto; unfold cmem; rewrite Ht; auto).
  unfold cmem in Hc. destruct (lookup K t') as [w'|] eqn:E; [|discriminate].
  exists w'. split; auto. eapply good_mono; eauto.
Qed.
Lemma in_lookup_nodup K t w : NoDup (keys K) -> In (t, w) K -> lookup K t = Some w.
Proof.
  induction K as [|[u x] K IH]; cbn [keys map fst In lookup]; [tauto|].
  intros Hnd [H|H].
  - inversion H; subst. rewrite seqb_refl. reflexivity.
  - inversion Hnd; subst. destruct (seqb u t) eqn:E; [|apply IH; auto].
    apply seqb_eq in E; subst. exfalso. apply H2. unfold keys. apply in_map_iff. exists (t, w). auto.
Qed.
Lemma good_intro K : NoDup (keys K) -> goodP K -> good K = true.
Proof.
  intros Hnd Hg. unfold good. apply andb_true_iff. split.
  - unfold closedb. apply forallb_forall. intros [t w] Hin. cbn [fst]. apply forallb_forall. intros t' Hf.
    apply in_faces in Hf as [Hne Hsub]. apply in_lookup_nodup in Hin; auto.
    destruct (Hg t w Hin t' Hne Hsub) as (w' & Hw' & _). unfold cmem. rewrite Hw'. reflexivity.
  - unfold monob. apply forallb_forall. intros [t w] Hin. cbn [fst snd]. apply forallb_forall. intros t' Hf.
    apply in_faces in Hf as [Hne Hsub]. apply in_lookup_nodup in Hin; auto.
    destruct (Hg t w Hin t' Hne Hsub) as (w' & Hw' & Hle). rewrite Hw'. lia.
Qed.

Lemma subseq_trans : forall c a b, subseq a b = true -> subseq b c = true -> subseq a c = true.
Proof.
  induction c as [|z c IH]; intros a b Hab Hbc.
  - rewrite subseq_nil_r in Hbc. destruct b; [|discriminate]. exact Hab.
  - destruct b as [|y b]; [rewrite subseq_nil_r in Hab; destruct a; [reflexivity | discriminate]|].
    destruct a as [|x a]; [reflexivity|].
    rewrite subseq_cons in Hbc. rewrite subseq_cons in Hab. rewrite subseq_cons.
    destruct (y =? z) eqn:Eyz.
    + apply Z.eqb_eq in Eyz; subst z. destruct (x =? y) eqn:Exy.
      * apply (IH a b); auto.
      * apply (IH (x :: a) b); auto.
    + pose proof (IH (x :: a) (y :: b)) as H. rewrite subseq_cons in H. specialize (H Hab Hbc).
      destruct (x =? z); auto. eapply subseq_tail; eauto.
Qed.
Lemma subseq_single t' x : t' <> [] -> subseq t' [x] = true -> t' = [x].
Proof.
  intros Hne H. destruct t' as [|y t'']; [congruence|]. rewrite subseq_cons in H. destruct (y =? x) eqn:E.
  - apply Z.eqb_eq in E; subst. rewrite subseq_nil_r in H. destruct t''; [reflexivity | discriminate].
  - rewrite subseq_nil_r in H. discriminate.
Qed.

(* ---- keys stay duplicate free ---- *)
Lemma keys_cset K s v : keys (cset K s v) = if cmem K s then keys K else keys K ++ [s].
Proof.
  unfold cmem. induction K as [|[t w] K IH]; cbn [cset keys map fst lookup]; auto.
  destruct (seqb t s) eqn:E; cbn [map fst is_some]; auto.
  fold (keys (cset K s v)). rewrite IH. fold (keys K). destruct (is_some (lookup K s)); reflexivity.
Qed.
Lemma cmem_keys K s : cmem K s = true <-> In s (keys K).
Proof.
  unfold cmem. split.
  - destruct (lookup K s) as [w|] eqn:E; [|discriminate]. intros _. apply lookup_in in E.
    unfold keys. apply in_map_iff. exists (s, w). auto.
  - intro H. unfold keys in H. apply in_map_iff in H as ([t w] & <- & Hin). cbn [fst]. apply in_lookup in Hin.
    destruct (lookup K t); [reflexivity | congruence].
Qed.
Lemma nodup_cset K s v : NoDup (keys K) -> NoDup (keys (cset K s v)).
Proof.
  intro H. rewrite keys_cset. destruct (cmem K s) eqn:E; auto.
  apply NoDup_app_disjoint; auto.
  - constructor; [intros [] | constructor].
  - intros a Ha [<-|[]]. apply cmem_keys in Ha. congruence.
Qed.
Lemma nodup_spec_insert K s v : NoDup (keys K) -> NoDup (keys (spec_insert K s v)).
Proof. intro H. unfold spec_insert. destruct (lookup K s); apply nodup_cset; auto. Qed.
Lemma nodup_filter (f : simplex * V -> bool) K : NoDup (keys K) -> NoDup (keys (filter f K)).
Proof.
  induction K as [|[t w] K IH]; cbn [filter keys map fst]; auto. intro H. inversion H; subst.
  destruct (f (t, w)); cbn [keys map fst]; [|apply IH; auto]. constructor; [|apply IH; auto].
  intro Hin. apply H2. unfold keys in *. apply in_map_iff in Hin as (p & Hp & Hin). apply filter_In in Hin as [Hin _].
  apply in_map_iff. exists p. auto.
Qed.
Lemma nodup_spec_step K o : NoDup (keys K) -> refined_op o = true -> NoDup (keys (spec_step K o)).
Proof.
  intros H Hr. destruct o; try discriminate; cbn [spec_step]; auto.
  - apply nodup_spec_insert; auto.
  - unfold spec_insert_closure. generalize (faces (norm s)). intro L. revert K H.
    induction L as [|u L IH]; intros K H; cbn [fold_left]; auto. apply IH. apply nodup_spec_insert; auto.
  - unfold spec_batch. clear Hr. revert K H. induction vs as [|x vs IH]; intros K H; cbn [fold_left]; auto.
    apply IH. destruct (lookup K [x]); auto. apply nodup_cset; auto.
  - destruct vw as [|w0 vw']; auto. unfold spec_graph.
    assert (Hv : forall vw K i, NoDup (keys K) -> NoDup (keys (spec_graph_vertices K i vw))).
    { induction vw as [|w r IH]; intros K0 i H0; cbn [spec_graph_vertices]; auto.
      apply IH. destruct (lookup K0 [i]); auto. apply nodup_cset; auto. }
    generalize (Hv (w0 :: vw') [] 0 (NoDup_nil _)). generalize (spec_graph_vertices [] 0 (w0 :: vw')). clear.
    induction es as [|[[u v] w] es IH]; intros K H; cbn [fold_left]; auto.
    apply IH. destruct (lookup K (edge_key u v)); auto. apply nodup_cset; auto.
  - apply nodup_filter; auto.
  - apply nodup_filter; auto.
  - apply nodup_filter; auto.
  - constructor.
Qed.

(* the operations that keep "closed and monotone" on their own *)
Definition closure_op (o : op) : bool :=
  match o with
  | OInsertSub _ _ | OBatch _ _ | ORemove _ | OPruneF _ | OPruneD _ | OClear | ODim | OCount => true
  | _ => false
  end.

Theorem closed_step K o :
  good K = true -> NoDup (keys K) -> pre_op K o = true -> closure_op o = true -> good (spec_step K o) = true.
Proof.
  intros Hg Hnd Hpre Hc.
  assert (Hr : refined_op o = true) by (destruct o; try discriminate; reflexivity).
  apply good_intro; [apply nodup_spec_step; auto|]. apply good_elim in Hg.
  destruct o; try discriminate; cbn [spec_step]; auto.
  - (* insert_simplex_and_subfaces *)
    intros t w Ht t' Hne Hsub. destruct t as [|z tt]; [rewrite subseq_nil_r in Hsub; destruct t'; [congruence | discriminate]|].
    rewrite lookup_insert_closure in Ht by congruence. rewrite lookup_insert_closure by auto.
    destruct (subseq (z :: tt) (norm s)) eqn:E.
    + rewrite (subseq_trans _ _ _ Hsub E). inversion Ht; subst. eexists; split; [reflexivity|].
      destruct (lookup K (z :: tt)) as [w0|] eqn:E0; cbn [min_opt].
      * destruct (Hg _ _ E0 t' Hne Hsub) as (w' & Hw' & Hle). rewrite Hw'. cbn [min_opt]. lia.
      * destruct (lookup K t'); cbn [min_opt]; lia.
    + destruct (Hg _ _ Ht t' Hne Hsub) as (w' & Hw' & Hle). rewrite Hw'.
      destruct (subseq t' (norm s)); eexists; split; try reflexivity; cbn [min_opt]; lia.
  - (* insert_batch_vertices *)
    intros t w Ht t' Hne Hsub. rewrite lookup_batch in Ht.
    assert (Hsingle : forall x, t = [x] -> exists w', lookup (spec_batch K vs v) t' = Some w' /\ w' <= w).
    { intros x ->. apply subseq_single in Hsub; auto. subst t'. rewrite lookup_batch. rewrite Ht. eexists; split; [reflexivity | lia]. }
    destruct t as [|z [|z' tt]]; [rewrite subseq_nil_r in Hsub; destruct t'; [congruence | discriminate] | eapply Hsingle; eauto |].
    destruct (Hg _ _ Ht t' Hne Hsub) as (w' & Hw' & Hle). rewrite lookup_batch.
    destruct t' as [|y [|y' t'']]; [congruence| |]; rewrite Hw'; [|eauto].
    destruct (existsb (Z.eqb y) vs); eexists; split; try reflexivity; cbn [min_opt]; lia.
  - (* remove_maximal_simplex *)
    cbn [pre_op] in Hpre. apply andb_true_iff in Hpre as [Hmem Hcof]. apply negb_true_iff in Hcof.
    intros t w Ht t' Hne Hsub.
    destruct (list_eq_dec Z.eq_dec t (norm s)) as [->|Hts]; [rewrite spec_remove_same in Ht; discriminate|].
    rewrite spec_remove_other in Ht by auto. destruct (Hg _ _ Ht t' Hne Hsub) as (w' & Hw' & Hle).
    exists w'. split; auto. rewrite spec_remove_other; auto. intro; subst t'.
    unfold has_coface in Hcof.
    assert (existsb (fun t0 => subseq (norm s) t0 && negb (seqb (norm s) t0)) (keys K) = true); [|congruence].
    apply existsb_exists. exists t. split.
    + apply cmem_keys. unfold cmem. rewrite Ht. reflexivity.
    + rewrite Hsub. rewrite seqb_neq by congruence. reflexivity.
  - (* prune_above_filtration *)
    intros t w Ht t' Hne Hsub. rewrite spec_prune_filt_lookup in *.
    destruct (lookup K t) as [w0|] eqn:E0; [|discriminate]. destruct (f <? w0) eqn:Ef; [discriminate|]. inversion Ht; subst.
    destruct (Hg _ _ E0 t' Hne Hsub) as (w' & Hw' & Hle). rewrite Hw'.
    assert (f <? w' = false) as -> by lia. eauto.
  - (* prune_above_dimension *)
    intros t w Ht t' Hne Hsub. rewrite spec_prune_dim_lookup in *.
    destruct (sdim t <=? Z.max d (-1)) eqn:Ed; [|discriminate].
    destruct (Hg _ _ Ht t' Hne Hsub) as (w' & Hw' & Hle). apply subseq_length in Hsub.
    assert (sdim t' <=? Z.max d (-1) = true) as -> by (unfold sdim in *; lia). eauto.
Qed.

(* documented preconditions only: closedness / monotonicity after the step is asked only of the operations that do not
   guarantee it themselves (lone insert_simplex, insert_graph) *)
Fixpoint pre_from (K : cplx) (ops : list op) : bool :=
  match ops with
  | [] => true
  | o :: r => pre_op K o && (closure_op o || good (spec_step K o)) && pre_from (spec_step K o) r
  end.
Definition pre_history (ops : list op) : bool := pre_from [] ops.

Lemma pre_from_ok : forall ops K,
  NoDup (keys K) -> good K = true -> forallb refined_op ops = true -> pre_from K ops = true -> ok_from K ops = true.
Proof.
  induction ops as [|o ops IH]; intros K Hnd Hg Hp H; auto.
  cbn [forallb] in Hp. apply andb_true_iff in Hp as [Hp1 Hp2].
  cbn [pre_from] in H. apply andb_true_iff in H as [H H3]. apply andb_true_iff in H as [H1 H2].
  assert (Hg' : good (spec_step K o) = true).
  { apply orb_true_iff in H2 as [H2|H2]; auto. apply closed_step; auto. }
  cbn [ok_from]. rewrite H1, Hg'. cbn [andb]. apply IH; auto. apply nodup_spec_step; auto.
Qed.
Theorem pre_history_ok ops : forallb refined_op ops = true -> pre_history ops = true -> ok_history ops = true.
Proof. intros Hp H. apply pre_from_ok; auto. constructor. Qed.

(* lone insert_simplex keeps the complex closed and monotone when, as documented, the faces are there and the value
   "preserves the monotonicity of the filtration" (is not below the value of a face) *)
Theorem closed_step_insert K s v :
  good K = true -> NoDup (keys K) -> norm s <> [] ->
  (forall t', t' <> [] -> t' <> norm s -> subseq t' (norm s) = true -> exists w', lookup K t' = Some w' /\ w' <= v) ->
  good (spec_step K (OInsert s v)) = true.
Proof.
  intros Hg Hnd Hs Hfaces. apply good_intro; [apply nodup_spec_step; auto|]. apply good_elim in Hg.
  cbn [spec_step]. intros t w Ht t' Hne Hsub.
  destruct (list_eq_dec Z.eq_dec t (norm s)) as [->|Hts].
  - rewrite spec_insert_same in Ht. inversion Ht; subst.
    destruct (list_eq_dec Z.eq_dec t' (norm s)) as [->|Hts'].
    + rewrite spec_insert_same. eexists; split; [reflexivity | lia].
    + rewrite spec_insert_other by auto. destruct (Hfaces t' Hne Hts' Hsub) as (w' & Hw' & Hle).
      exists w'. split; auto. destruct (lookup K (norm s)) as [w0|] eqn:E0; auto.
      destruct (Hg _ _ E0 t' Hne Hsub) as (w'' & Hw'' & Hle''). rewrite Hw' in Hw''. inversion Hw''; subst. lia.
  - rewrite spec_insert_other in Ht by auto. destruct (Hg _ _ Ht t' Hne Hsub) as (w' & Hw' & Hle).
    destruct (list_eq_dec Z.eq_dec t' (norm s)) as [->|Hts'].
    + rewrite spec_insert_same, Hw'. eexists; split; [reflexivity | lia].
    + rewrite spec_insert_other by auto. eauto.
Qed.
