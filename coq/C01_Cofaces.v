(* C01_Cofaces.v - the coface walk rec_coface (Simplex_tree.h line 1374) returns exactly the cofaces of the requested size. *)
From Coq Require Import ZArith List Lia Bool ZifyBool Permutation.
Import ListNotations.
Require Import Simplex Trie C01_Model C01_Proofs.
Local Open Scope Z_scope.

Fixpoint rc_sibs (star : bool) (nb : Z) (vs : list Z) (cur : Z) (pre : list Z) (l : sibs) : list simplex :=
  match l with
  | [] => []
  | (x, w, c) :: r =>
      match vs with
      | [] =>
          let add := star || (cur =? nb) in
          (if add then [rev (x :: pre)] else [])
            ++ (if negb add || star then rec_coface star nb c [] (cur + 1) (x :: pre) else [])
            ++ rc_sibs star nb vs cur pre r
      | b :: vs' =>
          if x =? b then
            let add := is_nil vs' && (star || (cur =? nb)) in
            (if add then [rev (x :: pre)] else [])
              ++ (if negb add || star then rec_coface star nb c vs' (cur + 1) (x :: pre) else [])
              ++ rc_sibs star nb vs cur pre r
          else if b <? x then []
          else rec_coface star nb c vs (cur + 1) (x :: pre) ++ rc_sibs star nb vs cur pre r
      end
  end.
Lemma rec_coface_node star nb l vs cur pre :
  rec_coface star nb (Node l) vs cur pre =
  if negb (star || (cur <=? nb)) then [] else rc_sibs star nb vs cur pre l.
Proof.
  cbn [rec_coface]. destruct (negb (star || (cur <=? nb))); auto.
  induction l as [|[[x w] c] r IH]; auto.
  cbn [rc_sibs]. rewrite <- IH. destruct vs; reflexivity.
Qed.

(* the simplices below the Siblings l (reached through the path pre) that contain vs and have the requested size *)
Definition sem (star : bool) (nb : Z) (l : sibs) (vs : list Z) (cur : Z) (pre : list Z) (t : simplex) : Prop :=
  exists t', t = rev pre ++ t' /\ t' <> [] /\ find_val t' l <> None /\ subseq vs t' = true /\
             (star = true \/ cur + Z.of_nat (length t') - 1 = nb).
(* every stored word is strictly increasing *)
Definition keys_sorted (l : sibs) : Prop := forall t, find_val t l <> None -> ssorted t.

Lemma key_cons x w c0 r t' : wf ((x, w, Node c0) :: r) -> t' <> [] ->
  (find_val t' ((x, w, Node c0) :: r) <> None <->
   t' = [x] \/ (exists t'', t'' <> [] /\ t' = x :: t'' /\ find_val t'' c0 <> None) \/ find_val t' r <> None).
Proof.
  intros Hwf Ht. apply wf_cons in Hwf as (Hlb & Hc & Hr). destruct t' as [|z tt]; [congruence|]. split.
  - intro H. destruct (Z.compare_spec z x) as [E|E|E].
    + subst z. destruct tt as [|y tt']; [left; auto|]. right; left.
      rewrite find_val_cons_eq_deep in H. exists (y :: tt'). repeat split; auto; congruence.
    + rewrite find_val_cons_lt in H by auto. congruence.
    + rewrite find_val_cons_gt in H by auto. right; right; auto.
  - intros [H|[(t'' & Hne & Heq & Hf)|H]].
    + inversion H; subst. rewrite find_val_cons_eq_one. congruence.
    + inversion Heq; subst. destruct t'' as [|y t3]; [congruence|]. rewrite find_val_cons_eq_deep. exact Hf.
    + assert (x < z).
      { apply lb_sibs_get_some with (r := r); auto. apply find_val_head_get with (t := tt). exact H. }
      rewrite find_val_cons_gt by auto. exact H.
Qed.

Lemma keys_sorted_child x w c0 r : wf ((x, w, Node c0) :: r) -> keys_sorted ((x, w, Node c0) :: r) -> keys_sorted c0.
Proof.
  intros Hwf Hk t Hf. destruct t as [|y t']; [constructor|].
  assert (H : ssorted (x :: y :: t')).
  { apply Hk. apply key_cons; auto; [congruence|]. right; left. exists (y :: t'). repeat split; auto; congruence. }
  inversion H; auto.
Qed.
Lemma keys_sorted_tail x w c0 r : wf ((x, w, Node c0) :: r) -> keys_sorted ((x, w, Node c0) :: r) -> keys_sorted r.
Proof.
  intros Hwf Hk t Hf. destruct t as [|y t']; [constructor|].
  apply Hk. apply key_cons; auto; congruence.
Qed.
Lemma key_child_gt x w c0 r y t' : wf ((x, w, Node c0) :: r) -> keys_sorted ((x, w, Node c0) :: r) ->
  find_val (y :: t') c0 <> None -> Forall (Z.lt x) (y :: t').
Proof.
  intros Hwf Hk Hf.
  assert (H : ssorted (x :: y :: t')).
  { apply Hk. apply key_cons; auto; [congruence|]. right; left. exists (y :: t'). repeat split; auto; congruence. }
  inversion H; auto.
Qed.


Definition S1 (star : bool) (nb : Z) x vs cur pre (t : simplex) : Prop :=
  t = rev pre ++ [x] /\ subseq vs [x] = true /\ (star = true \/ cur = nb).
Definition S2 (star : bool) (nb : Z) x (c0 : sibs) vs cur pre (t : simplex) : Prop :=
  exists t'', t'' <> [] /\ t = rev pre ++ x :: t'' /\ find_val t'' c0 <> None /\ subseq vs (x :: t'') = true /\
              (star = true \/ cur + 1 + Z.of_nat (length t'') - 1 = nb).

Lemma sem_split star nb x w c0 r vs cur pre t : wf ((x, w, Node c0) :: r) ->
  (sem star nb ((x, w, Node c0) :: r) vs cur pre t <-> S1 star nb x vs cur pre t \/ S2 star nb x c0 vs cur pre t \/ sem star nb r vs cur pre t).
Proof.
  intro Hwf. unfold sem, S1, S2. split.
  - intros (t' & Heq & Hne & Hf & Hsub & Hsz). apply key_cons in Hf as [H|[(t'' & Hne'' & Heq'' & Hf'')|H]]; auto.
    + subst t'. left. repeat split; auto. destruct Hsz; [left; auto | right; cbn [length] in *; lia].
    + subst t'. right; left. exists t''. repeat split; auto. destruct Hsz; [left; auto | right; cbn [length] in *; lia].
    + right; right. exists t'. repeat split; auto.
  - intros [(Heq & Hsub & Hsz)|[(t'' & Hne'' & Heq & Hf & Hsub & Hsz)|(t' & Heq & Hne & Hf & Hsub & Hsz)]].
    + exists [x]. repeat split; auto; try congruence.
      * apply key_cons; auto; congruence.
      * destruct Hsz; [left; auto | right; cbn [length]; lia].
    + exists (x :: t''). repeat split; auto; try congruence.
      * apply key_cons; auto; [congruence|]. right; left. exists t''. auto.
      * destruct Hsz; [left; auto | right; cbn [length]; lia].
    + exists t'. repeat split; auto. apply key_cons; auto.
Qed.
Lemma sem_child star nb x c0 vs' cur pre t :
  sem star nb c0 vs' (cur + 1) (x :: pre) t <->
  exists t'', t'' <> [] /\ t = rev pre ++ x :: t'' /\ find_val t'' c0 <> None /\ subseq vs' t'' = true /\
              (star = true \/ cur + 1 + Z.of_nat (length t'') - 1 = nb).
Proof.
  unfold sem. cbn [rev]. split; intros (t'' & H1 & H2 & H3 & H4 & H5); exists t''; repeat split; auto.
  - rewrite H1, <- app_assoc. reflexivity.
  - rewrite H2, <- app_assoc. reflexivity.
Qed.
Lemma in_if_single (b : bool) (p t : simplex) : In t (if b then [p] else []) <-> b = true /\ t = p.
Proof. destruct b; cbn; split; intuition; discriminate. Qed.
Lemma in_if_list (b : bool) (L : list simplex) t : In t (if b then L else []) <-> b = true /\ In t L.
Proof. destruct b; cbn; split; intuition; discriminate. Qed.

Theorem rc_sibs_correct star nb : forall l vs cur pre, wf l -> keys_sorted l -> ssorted vs -> (star = true \/ cur <= nb) ->
  forall t, In t (rc_sibs star nb vs cur pre l) <-> sem star nb l vs cur pre t.
Proof.
  apply (sibs_trie_ind
           (fun c => forall vs cur pre, wf_t c -> keys_sorted (kids c) -> ssorted vs ->
                     forall t, In t (rec_coface star nb c vs cur pre) <-> sem star nb (kids c) vs cur pre t)
           (fun l => forall vs cur pre, wf l -> keys_sorted l -> ssorted vs -> (star = true \/ cur <= nb) ->
                     forall t, In t (rc_sibs star nb vs cur pre l) <-> sem star nb l vs cur pre t)).
  - (* a node: the guard *)
    intros l H vs cur pre Hwf Hk Hvs t. rewrite rec_coface_node. cbn [kids] in *.
    destruct (negb (star || (cur <=? nb))) eqn:G.
    + split; [intros []|]. intros (t' & _ & Hne & _ & _ & Hsz).
      destruct star; [discriminate|]. destruct Hsz as [Hs|Hs]; [discriminate|].
      destruct t'; [congruence|]. cbn [length] in Hs. cbn [orb] in G. lia.
    + apply H; auto. destruct star; [left; auto | right; cbn [orb] in G; lia].
  - (* no sibling *)
    intros vs cur pre _ _ _ _ t. cbn. split; [intros [] | intros (t' & _ & Hne & Hf & _)].
    rewrite find_val_nil_l in Hf. congruence.
  - (* a sibling x and the rest *)
    intros x w c r IHc IHr vs cur pre Hwf Hk Hvs Hg t. destruct c as [c0].
    pose proof Hwf as Hwf0. apply wf_cons in Hwf as (Hlb & Hc & Hr).
    assert (Hkc : keys_sorted c0) by (eapply keys_sorted_child; eauto).
    assert (Hkr : keys_sorted r) by (eapply keys_sorted_tail; eauto).
    rewrite sem_split by auto. cbn [rc_sibs].
    destruct vs as [|b vs'].
    + (* nothing left to match *)
      rewrite !in_app_iff, in_if_single, in_if_list.
      rewrite (IHc [] (cur + 1) (x :: pre)) by auto. cbn [kids]. rewrite sem_child.
      rewrite (IHr [] cur pre) by auto.
      unfold S1, S2. cbn [rev].
      split.
      * intros [[Ha Ht]|[[Hb Hs]|H]]; auto.
        -- left. repeat split; auto. destruct star; [left; auto | right; cbn [orb] in Ha; lia].
        -- right; left. destruct Hs as (t'' & ? & ? & ? & ? & ?). exists t''. repeat split; auto.
      * intros [(Ht & _ & Hsz)|[(t'' & Hne & Heq & Hf & _ & Hsz)|H]]; auto.
        -- left. split; auto. destruct Hsz as [-> | ->]; [reflexivity | rewrite Z.eqb_refl; apply orb_true_r].
        -- right; left. split.
           ++ destruct star; [apply orb_true_r|]. cbn [orb]. destruct Hsz as [Hs|Hs]; [discriminate|].
              destruct t''; [congruence|]. cbn [length] in Hs. assert (cur =? nb = false) as -> by lia. reflexivity.
           ++ exists t''. repeat split; auto. destruct t''; reflexivity.
    + (* b is the next vertex to match *)
      assert (Hvs' : ssorted vs') by (inversion Hvs; auto).
      destruct (x =? b) eqn:Exb.
      * apply Z.eqb_eq in Exb; subst b.
        rewrite !in_app_iff, in_if_single, in_if_list.
        rewrite (IHc vs' (cur + 1) (x :: pre)) by auto. cbn [kids]. rewrite sem_child.
        rewrite (IHr (x :: vs') cur pre) by auto.
        unfold S1, S2. cbn [rev].
        assert (Hs1 : subseq (x :: vs') [x] = is_nil vs').
        { rewrite subseq_cons, Z.eqb_refl. apply subseq_nil_r. }
        split.
        -- intros [[Ha Ht]|[[Hb Hs]|H]]; auto.
           ++ apply andb_true_iff in Ha as [Ha1 Ha2]. left. repeat split; auto; [rewrite Hs1; auto|].
              destruct star; [left; auto | right; cbn [orb] in Ha2; lia].
           ++ right; left. destruct Hs as (t'' & ? & ? & ? & ? & ?). exists t''. repeat split; auto.
              rewrite subseq_cons, Z.eqb_refl. auto.
        -- intros [(Ht & Hsub & Hsz)|[(t'' & Hne & Heq & Hf & Hsub & Hsz)|H]]; auto.
           ++ left. split; auto. rewrite Hs1 in Hsub. rewrite Hsub. cbn [andb].
              destruct Hsz as [-> | ->]; [reflexivity | rewrite Z.eqb_refl; apply orb_true_r].
           ++ right; left. rewrite subseq_cons, Z.eqb_refl in Hsub. split.
              ** destruct star; [apply orb_true_r|]. rewrite orb_false_r. apply negb_true_iff.
                 destruct Hsz as [Hs|Hs]; [discriminate|].
                 destruct t''; [congruence|]. cbn [length] in Hs. cbn [orb].
                 assert (cur =? nb = false) as -> by lia. apply andb_false_r.
              ** exists t''. repeat split; auto.
      * apply Z.eqb_neq in Exb. destruct (b <? x) eqn:Ebx.
        -- (* return: every remaining word starts above b *)
           split; [intros []|]. intro H. exfalso.
           assert (Hno : forall t', t' <> [] -> find_val t' ((x, w, Node c0) :: r) <> None -> subseq (b :: vs') t' = false).
           { intros t' Hne Hf. pose proof (Hk t' Hf) as Hst.
             destruct t' as [|z tt]; [congruence|].
             assert (x <= z).
             { apply key_cons in Hf as [Hf|[(t'' & _ & Heq & _)|Hf]]; auto; try congruence.
               - inversion Hf; lia.
               - inversion Heq; lia.
               - assert (x < z); [|lia]. apply lb_sibs_get_some with (r := r); auto.
                 apply find_val_head_get with (t := tt). exact Hf. }
             apply subseq_head_lt. apply Sorted.StronglySorted_inv in Hst as [_ Hall]. constructor; [lia|].
             rewrite Forall_forall in *. intros u Hu. specialize (Hall u Hu). lia. }
           destruct H as [(Ht & Hsub & _)|[(t'' & Hne & Heq & Hf & Hsub & _)|(t' & Heq & Hne & Hf & Hsub & _)]].
           ++ rewrite Hno in Hsub; [discriminate | congruence |]. rewrite find_val_cons_eq_one. congruence.
           ++ rewrite Hno in Hsub; [discriminate | congruence |].
              apply key_cons; auto; [congruence|]. right; left. exists t''. auto.
           ++ rewrite Hno in Hsub; [discriminate | auto |]. apply key_cons; auto.
        -- (* x < b: x is not one of the searched vertices *)
           rewrite in_app_iff.
           rewrite (IHc (b :: vs') (cur + 1) (x :: pre)) by auto. cbn [kids]. rewrite sem_child.
           rewrite (IHr (b :: vs') cur pre) by auto.
           unfold S1, S2.
           assert (Hbx : b =? x = false) by lia.
           split.
           ++ intros [Hs|H]; auto. right; left. destruct Hs as (t'' & ? & ? & ? & ? & ?). exists t''. repeat split; auto.
              rewrite subseq_cons, Hbx. auto.
           ++ intros [(Ht & Hsub & _)|[(t'' & Hne & Heq & Hf & Hsub & Hsz)|H]]; auto.
              ** rewrite subseq_cons, Hbx in Hsub. cbn in Hsub. discriminate.
              ** left. rewrite subseq_cons, Hbx in Hsub. exists t''. repeat split; auto.
Qed.

(* ---- cofaces_simplex_range without label links (repaired early exit) = the set definition ---- *)
Theorem cofaces_unlinked_correct st s c :
  wf (tree st) -> keys_sorted (tree st) -> ub_valid st -> ssorted s -> s <> [] -> 0 <= c ->
  forall t, In t (cofaces_unlinked true st s c) <->
            (find_val t (tree st) <> None /\ subseq s t = true /\ (c = 0 \/ sdim t = sdim s + c)).
Proof.
  intros Hwf Hk Hub Hs Hne Hc t. unfold cofaces_unlinked. cbn [negb andb]. rewrite orb_false_r.
  assert (Hlen : (1 <= length s)%nat) by (destruct s; [congruence | cbn; lia]).
  destruct (dim_ub st + 1 <? c + Z.of_nat (length s)) eqn:G.
  - split; [intros []|]. intros (Hf & Hsub & Hsz). exfalso.
    assert (Ht : t <> []). { intro; subst. rewrite subseq_nil_r in Hsub. destruct s; [congruence | discriminate]. }
    pose proof (Hub t Ht Hf) as Hd. apply subseq_length in Hsub. unfold sdim in *. destruct Hsz; lia.
  - rewrite rec_coface_node.
    assert (negb ((c =? 0) || (1 <=? c + Z.of_nat (length s))) = false) as -> by lia.
    rewrite rc_sibs_correct; auto; [|right; lia].
    unfold sem. cbn [rev app]. split.
    + intros (t' & -> & Ht' & Hf & Hsub & Hsz). repeat split; auto. unfold sdim. destruct Hsz as [Hz|Hz]; [left; lia | right; lia].
    + intros (Hf & Hsub & Hsz). exists t. repeat split; auto.
      * intro; subst. rewrite subseq_nil_r in Hsub. destruct s; [congruence | discriminate].
      * unfold sdim in Hsz. destruct Hsz as [Hz|Hz]; [left; lia | right; lia].
Qed.

(* ---- stored words are strictly increasing: invariant of the specification run, transferred by agreement ---- *)
Definition KS (K : cplx) : Prop := forall t, lookup K t <> None -> ssorted t.
Lemma subseq_sorted : forall b a, ssorted b -> subseq a b = true -> ssorted a.
Proof.
  unfold ssorted. induction b as [|y b IH]; intros a Hb H.
  - rewrite subseq_nil_r in H. destruct a; [constructor | discriminate].
  - destruct a as [|x a]; [constructor|]. apply Sorted.StronglySorted_inv in Hb as [Hb Hall].
    rewrite subseq_cons in H. destruct (x =? y) eqn:E; [|apply IH; auto].
    apply Z.eqb_eq in E; subst. constructor; [apply IH; auto|].
    rewrite Forall_forall in *. intros u Hu. apply Hall. apply (subseq_incl _ _ H u Hu).
Qed.
Lemma spec_step_KS K o : KS K -> refined_op o = true -> KS (spec_step K o).
Proof.
  intros Hk Hr t. destruct o; try discriminate; cbn [spec_step].
  - destruct (list_eq_dec Z.eq_dec t (norm s)) as [->|Hne]; [intros _; apply norm_sorted|].
    rewrite spec_insert_other by auto. apply Hk.
  - destruct t as [|z t']; [intros _; constructor|].
    rewrite lookup_insert_closure by congruence.
    destruct (subseq (z :: t') (norm s)) eqn:E; [intros _; eapply subseq_sorted; eauto; apply norm_sorted | apply Hk].
  - rewrite lookup_batch. destruct t as [|z [|z' t']]; try apply Hk.
    intros _. constructor; constructor.
  - destruct (list_eq_dec Z.eq_dec t (norm s)) as [->|Hne]; [rewrite spec_remove_same; congruence|].
    rewrite spec_remove_other by auto. apply Hk.
  - rewrite spec_prune_filt_lookup. destruct (lookup K t) eqn:E; [|congruence]. intros _. apply Hk. congruence.
  - rewrite spec_prune_dim_lookup. destruct (_ <=? _); [apply Hk | congruence].
  - cbn. congruence.
  - apply Hk.
Qed.
Lemma spec_run_KS : forall ops K, KS K -> forallb refined_op ops = true -> KS (fold_left spec_step ops K).
Proof.
  induction ops as [|o ops IH]; intros K Hk Hp; cbn [fold_left]; auto.
  cbn [forallb] in Hp. apply andb_true_iff in Hp as [Hp1 Hp2]. apply IH; auto. apply spec_step_KS; auto.
Qed.

Lemma in_keys_lookup K t : In t (keys K) <-> lookup K t <> None.
Proof.
  unfold keys. rewrite in_map_iff. split.
  - intros ([u v] & <- & Hin). eapply in_lookup; eauto.
  - intro H. destruct (lookup K t) as [v|] eqn:E; [|congruence]. exists (t, v). split; auto. apply lookup_in; auto.
Qed.

(* ---- star_simplex_range and cofaces_simplex_range (unlinked option sets, repaired) report exactly the star and
        the cofaces of the abstract complex of the history, for every stored simplex and every codimension ---- *)
Theorem cofaces_history ops s c :
  forallb refined_op ops = true -> ok_history ops = true -> s <> [] -> cmem (spec_run ops) s = true -> 0 <= c ->
  forall t, In t (cofaces_unlinked true (run true ops) s c) <->
            In t (if c =? 0 then star (spec_run ops) s else cofaces (spec_run ops) s c).
Proof.
  intros Hp Hok Hne Hmem Hc t.
  assert (H0 : inv empty_state []).
  { split; [split; [apply wf_nil|] |]; intros u _; cbn [tree empty_state]; rewrite find_val_nil_l; [reflexivity | congruence]. }
  destruct (run_inv true ops empty_state [] H0 eq_refl Hp Hok) as [[Hwf Ha] Hub].
  assert (Hks : KS (spec_run ops)) by (apply spec_run_KS; auto; intros u Hu; cbn in Hu; congruence).
  fold (run true ops) in *. fold (spec_run ops) in *.
  set (st := run true ops) in *. set (K := spec_run ops) in *.
  assert (Hkt : keys_sorted (tree st)).
  { intros u Hu. destruct u as [|z u']; [constructor|]. apply Hks. rewrite <- Ha by congruence. exact Hu. }
  assert (Hs : ssorted s). { apply Hks. unfold cmem in Hmem. destruct (lookup K s); [congruence | discriminate]. }
  rewrite cofaces_unlinked_correct by auto.
  assert (Hpres : forall u, subseq s u = true -> (find_val u (tree st) <> None <-> In u (keys K))).
  { intros u Hsub. rewrite in_keys_lookup. rewrite Ha; [tauto|].
    intro; subst. rewrite subseq_nil_r in Hsub. destruct s; [congruence | discriminate]. }
  destruct (c =? 0) eqn:Ec.
  - unfold star. rewrite filter_In. split.
    + intros (Hf & Hsub & _). split; auto. apply Hpres; auto.
    + intros (Hin & Hsub). repeat split; auto; [apply Hpres; auto | left; lia].
  - unfold cofaces. rewrite filter_In, andb_true_iff. split.
    + intros (Hf & Hsub & Hsz). split; [apply Hpres; auto|]. split; auto. destruct Hsz; lia.
    + intros (Hin & Hsub & Hsz). repeat split; auto; [apply Hpres; auto | right; lia].
Qed.
