(* C01_Cofaces.v - the coface walk rec_coface (Simplex_tree.h line 1374) returns exactly the cofaces of the requested size. *)
From Coq Require Import ZArith List Lia Bool ZifyBool Permutation.
Import ListNotations.
Require Import Simplex Trie C01_Model C01_Proofs.
Local Open Scope Z_scope.

Fixpoint rc_sibs (star : bool) (nb : Z) (vs : list Z) (cur : Z) (pre : list Z) (l : sibs) : list simplex :=
  match l with
  | [] => []
  | (x, w, c) :: r =>
      match vs with
      | [] =>
          let add := star || (cur =? nb) in
          (if add then [rev (x :: pre)] else [])
            ++ (if negb add || star then rec_coface star nb c [] (cur + 1) (x :: pre) else [])
            ++ rc_sibs star nb vs cur pre r
      | b :: vs' =>
          if x =? b then
            let add := is_nil vs' && (star || (cur =? nb)) in
            (if add then [rev (x :: pre)] else [])
              ++ (if negb add || star then rec_coface star nb c vs' (cur + 1) (x :: pre) else [])
              ++ rc_sibs star nb vs cur pre r
          else if b <? x then []
          else rec_coface star nb c vs (cur + 1) (x :: pre) ++ rc_sibs star nb vs cur pre r
      end
  end.
Lemma rec_coface_node star nb l vs cur pre :
  rec_coface star nb (Node l) vs cur pre =
  if negb (star || (cur <=? nb)) then [] else rc_sibs star nb vs cur pre l.
Proof.
  cbn [rec_coface]. destruct (negb (star || (cur <=? nb))); auto.
  induction l as [|[[x w] c] r IH]; auto.
  cbn [rc_sibs]. rewrite <- IH. destruct vs; reflexivity.
Qed.

(* the simplices below the Siblings l (reached through the path pre) that contain vs and have the requested size *)
Definition sem (star : bool) (nb : Z) (l : sibs) (vs : list Z) (cur : Z) (pre : list Z) (t : simplex) : Prop :=
  exists t', t = rev pre ++ t' /\ t' <> [] /\ find_val t' l <> None /\ subseq vs t' = true /\
             (star = true \/ cur + Z.of_nat (length t') - 1 = nb).
(* every stored word is strictly increasing *)
Definition keys_sorted (l : sibs) : Prop := forall t, find_val t l <> None -> ssorted t.

Lemma keys_sorted_child x w c0 r : wf ((x, w, Node c0) :: r) -> keys_sorted ((x, w, Node c0) :: r) -> keys_sorted c0.
Proof.
  intros Hwf Hk t Hf. destruct t as [|y t']; [constructor|].
  assert (H : ssorted (x :: y :: t')).
  { apply Hk. apply key_cons; auto; [congruence|]. right; left. exists (y :: t'). repeat split; auto; congruence. }
  inversion H; auto.
Qed.
Lemma keys_sorted_tail x w c0 r : wf ((x, w, Node c0) :: r) -> keys_sorted ((x, w, Node c0) :: r) -> keys_sorted r.
Proof.
  intros Hwf Hk t Hf. destruct t as [|y t']; [constructor|].
  apply Hk. apply key_cons; auto; congruence.
Qed.
Lemma key_child_gt x w c0 r y t' : wf ((x, w, Node c0) :: r) -> keys_sorted ((x, w, Node c0) :: r) ->
  find_val (y :: t') c0 <> None -> Forall (Z.lt x) (y :: t').
Proof.
  intros Hwf Hk Hf.
  assert (H : ssorted (x :: y :: t')).
  { apply Hk. apply key_cons; auto; [congruence|]. right; left. exists (y :: t'). repeat split; auto; congruence. }
  inversion H; auto.
Qed.


Definition S1 (star : bool) (nb : Z) x vs cur pre (t : simplex) : Prop :=
  t = rev pre ++ [x] /\ subseq vs [x] = true /\ (star = true \/ cur = nb).
Definition S2 (star : bool) (nb : Z) x (c0 : sibs) vs cur pre (t : simplex) : Prop :=
  exists t'', t'' <> [] /\ t = rev pre ++ x :: t'' /\ find_val t'' c0 <> None /\ subseq vs (x :: t'') = true /\
              (star = true \/ cur + 1 + Z.of_nat (length t'') - 1 = nb).

Lemma sem_split star nb x w c0 r vs cur pre t : wf ((x, w, Node c0) :: r) ->
  (sem star nb ((x, w, Node c0) :: r) vs cur pre t <-> S1 star nb x vs cur pre t \/ S2 star nb x c0 vs cur pre t \/ sem star nb r vs cur pre t).
Proof.
  intro Hwf. unfold sem, S1, S2. split.
  - intros (t' & Heq & Hne & Hf & Hsub & Hsz). apply key_cons in Hf as [H|[(t'' & Hne'' & Heq'' & Hf'')|H]]; auto.
    + subst t'. left. repeat split; auto. destruct Hsz; [left; auto | right; cbn [length] in *; lia].
    + subst t'. right; left. exists t''. repeat split; auto. destruct Hsz; [left; auto | right; cbn [length] in *; lia].
    + right; right. exists t'. repeat split; auto.
  - intros [(Heq & Hsub & Hsz)|[(t'' & Hne'' & Heq & Hf & Hsub & Hsz)|(t' & Heq & Hne & Hf & Hsub & Hsz)]].
    + exists [x]. repeat split; auto; try congruence.
      * apply key_cons; auto; congruence.
      * destruct Hsz; [left; auto | right; cbn [length]; lia].
    + exists (x :: t''). repeat split; auto; try congruence.
      * apply key_cons; auto; [congruence|]. right; left. exists t''. auto.
      * destruct Hsz; [left; auto | right; cbn [length]; lia].
    + exists t'. repeat split; auto. apply key_cons; auto.
Qed.
Lemma sem_child star nb x c0 vs' cur pre t :
  sem star nb c0 vs' (cur + 1) (x :: pre) t <->
  exists t'', t'' <> [] /\ t = rev pre ++ x :: t'' /\ find_val t'' c0 <> None /\ subseq vs' t'' = true /\
              (star = true \/ cur + 1 + Z.of_nat (length t'') - 1 = nb).
Proof.
  unfold sem. cbn [rev]. split; intros (t'' & H1 & H2 & H3 & H4 & H5); exists t''; repeat split; auto.
  - rewrite H1, <- app_assoc. reflexivity.
  - rewrite H2, <- app_assoc. reflexivity.
Qed.
Lemma in_if_single (b : bool) (p t : simplex) : In t (if b then [p] else []) <-> b = true /\ t = p.
Proof. destruct b; cbn; split; intuition; discriminate. Qed.
Lemma in_if_list (b : bool) (L : list simplex) t : In t (if b then L else []) <-> b = true /\ In t L.
Proof. destruct b; cbn; split; intuition; discriminate. Qed.

Theorem rc_sibs_correct star nb : forall l vs cur pre, wf l -> keys_sorted l -> ssorted vs -> (star = true \/ cur <= nb) ->
  forall t, In t (rc_sibs star nb vs cur pre l) <-> sem star nb l vs cur pre t.
Proof.
  apply (sibs_trie_ind
           (fun c => forall vs cur pre, wf_t c -> keys_sorted (kids c) -> ssorted vs ->
                     forall t, In t (rec_coface star nb c vs cur pre) <-> sem star nb (kids c) vs cur pre t)
           (fun l => forall vs cur pre, wf l -> keys_sorted l -> ssorted vs -> (star = true \/ cur <= nb) ->
                     forall t, In t (rc_sibs star nb vs cur pre l) <-> sem star nb l vs cur pre t)).
  - (* a node: the guard *)
    intros l H vs cur pre Hwf Hk Hvs t. rewrite rec_coface_node. cbn [kids] in *.
    destruct (negb (star || (cur <=? nb))) eqn:G.
    + split; [intros []|]. intros (t' & _ & Hne & _ & _ & Hsz).
      destruct star; [discriminate|]. destruct Hsz as [Hs|Hs]; [discriminate|].
      destruct t'; [congruence|]. cbn [length] in Hs. cbn [orb] in G. lia.
    + apply H; auto. destruct star; [left; auto | right; cbn [orb] in G; lia].
  - (* no sibling *)
    intros vs cur pre _ _ _ _ t. cbn. split; [intros [] | intros (t' & _ & Hne & Hf & _)].
    rewrite find_val_nil_l in Hf. congruence.
  - (* a sibling x and the rest *)
    intros x w c r IHc IHr vs cur pre Hwf Hk Hvs Hg t. destruct c as [c0].
    pose proof Hwf as Hwf0. apply wf_cons in Hwf as (Hlb & Hc & Hr).
    assert (Hkc : keys_sorted c0) by (eapply keys_sorted_child; eauto).
    assert (Hkr : keys_sorted r) by (eapply keys_sorted_tail; eauto).
    rewrite sem_split by auto. cbn [rc_sibs].
    destruct vs as [|b vs'].
    + (* nothing left to match *)
      rewrite !in_app_iff, in_if_single, in_if_list.
      rewrite (IHc [] (cur + 1) (x :: pre)) by auto. cbn [kids]. rewrite sem_child.
      rewrite (IHr [] cur pre) by auto.
      unfold S1, S2. cbn [rev].
      split.
      * intros [[Ha Ht]|[[Hb Hs]|H]]; auto.
        -- left. repeat split; auto. destruct star; [left; auto | right; cbn [orb] in Ha; lia].
        -- right; left. destruct Hs as (t'' & ? & ? & ? & ? & ?). exists t''. repeat split; auto.
      * intros [(Ht & _ & Hsz)|[(t'' & Hne & Heq & Hf & _ & Hsz)|H]]; auto.
        -- left. split; auto. destruct Hsz as [-> | ->]; [reflexivity | rewrite Z.eqb_refl; apply orb_true_r].
        -- right; left. split.
           ++ destruct star; [apply orb_true_r|]. cbn [orb]. destruct Hsz as [Hs|Hs]; [discriminate|].
              destruct t''; [congruence|]. cbn [length] in Hs. assert (cur =? nb = false) as -> by lia. reflexivity.
           ++ exists t''. repeat split; auto. destruct t''; reflexivity.
    + (* b is the next vertex to match *)
      assert (Hvs' : ssorted vs') by (inversion Hvs; auto).
      destruct (x =? b) eqn:Exb.
      * apply Z.eqb_eq in Exb; subst b.
        rewrite !in_app_iff, in_if_single, in_if_list.
        rewrite (IHc vs' (cur + 1) (x :: pre)) by auto. cbn [kids]. rewrite sem_child.
        rewrite (IHr (x :: vs') cur pre) by auto.
        unfold S1, S2. cbn [rev].
        assert (Hs1 : subseq (x :: vs') [x] = is_nil vs').
        { rewrite subseq_cons, Z.eqb_refl. apply subseq_nil_r. }
        split.
        -- intros [[Ha Ht]|[[Hb Hs]|H]]; auto.
           ++ apply andb_true_iff in Ha as [Ha1 Ha2]. left. repeat split; auto; [rewrite Hs1; auto|].
              destruct star; [left; auto | right; cbn [orb] in Ha2; lia].
           ++ right; left. destruct Hs as (t'' & ? & ? & ? & ? & ?). exists t''. repeat split; auto.
              rewrite subseq_cons, Z.eqb_refl. auto.
        -- intros [(Ht & Hsub & Hsz)|[(t'' & Hne & Heq & Hf & Hsub & Hsz)|H]]; auto.
           ++ left. split; auto. rewrite Hs1 in Hsub. rewrite Hsub. cbn [andb].
              destruct Hsz as [-> | ->]; [reflexivity | rewrite Z.eqb_refl; apply orb_true_r].
           ++ right; left. rewrite subseq_cons, Z.eqb_refl in Hsub. split.
              ** destruct star; [apply orb_true_r|]. rewrite orb_false_r. apply negb_true_iff.
                 destruct Hsz as [Hs|Hs]; [discriminate|].
                 destruct t''; [congruence|]. cbn [length] in Hs. cbn [orb].
                 assert (cur =? nb = false) as -> by lia. apply andb_false_r.
              ** exists t''. repeat split; auto.
      * apply Z.eqb_neq in Exb. destruct (b <? x) eqn:Ebx.
        -- (* return: every remaining word starts above b *)
           split; [intros []|]. intro H. exfalso.
           assert (Hno : forall t', t' <> [] -> find_val t' ((x, w, Node c0) :: r) <> None -> subseq (b :: vs') t' = false).
           { intros t' Hne Hf. pose proof (Hk t' Hf) as Hst.
             destruct t' as [|z tt]; [congruence|].
             assert (x <= z).
             { apply key_cons in Hf as [Hf|[(t'' & _ & Heq & _)|Hf]]; auto; try congruence.
               - inversion Hf; lia.
               - inversion Heq; lia.
               - assert (x < z); [|lia]. apply lb_sibs_get_some with (r := r); auto.
                 apply find_val_head_get with (t := tt). exact Hf. }
             apply subseq_head_lt. apply Sorted.StronglySorted_inv in Hst as [_ Hall]. constructor; [lia|].
             rewrite Forall_forall in *. intros u Hu. specialize (Hall u Hu). lia. }
           destruct H as [(Ht & Hsub & _)|[(t'' & Hne & Heq & Hf & Hsub & _)|(t' & Heq & Hne & Hf & Hsub & _)]].
           ++ rewrite Hno in Hsub; [discriminate | congruence |]. rewrite find_val_cons_eq_one. congruence.
           ++ rewrite Hno in Hsub; [discriminate | congruence |].
              apply key_cons; auto; [congruence|]. right; left. exists t''. auto.
           ++ rewrite Hno in Hsub; [discriminate | auto |]. apply key_cons; auto.
        -- (* x < b: x is not one of the searched vertices *)
           rewrite in_app_iff.
           rewrite (IHc (b :: vs') (cur + 1) (x :: pre)) by auto. cbn [kids]. rewrite sem_child.
           rewrite (IHr (b :: vs') cur pre) by auto.
           unfold S1, S2.
           assert (Hbx : b =? x = false) by lia.
           split.
           ++ intros [Hs|H]; auto. right; left. destruct Hs as (t'' & ? & ? & ? & ? & ?). exists t''. repeat split; auto.
              rewrite subseq_cons, Hbx. auto.
           ++ intros [(Ht & Hsub & _)|[(t'' & Hne & Heq & Hf & Hsub & Hsz)|H]]; auto.
              ** rewrite subseq_cons, Hbx in Hsub. cbn in Hsub. discriminate.
              ** left. rewrite subseq_cons, Hbx in Hsub. exists t''. repeat split; auto.
Qed.

(* ---- cofaces_simplex_range without label links (repaired early exit) = the set definition ---- *)
Theorem cofaces_unlinked_correct st s c :
  wf (tree st) -> keys_sorted (tree st) -> ub_valid st -> ssorted s -> s <> [] -> 0 <= c ->
  forall t, In t (cofaces_unlinked true st s c) <->
            (find_val t (tree st) <> None /\ subseq s t = true /\ (c = 0 \/ sdim t = sdim s + c)).
Proof.
  intros Hwf Hk Hub Hs Hne Hc t. unfold cofaces_unlinked. cbn [negb andb]. rewrite orb_false_r.
  assert (Hlen : (1 <= length s)%nat) by (destruct s; [congruence | cbn; lia]).
  destruct (dim_ub st + 1 <? c + Z.of_nat (length s)) eqn:G.
  - split; [intros []|]. intros (Hf & Hsub & Hsz). exfalso.
    assert (Ht : t <> []). { intro; subst. rewrite subseq_nil_r in Hsub. destruct s; [congruence | discriminate]. }
    pose proof (Hub t Ht Hf) as Hd. apply subseq_length in Hsub. unfold sdim in *. destruct Hsz; lia.
  - rewrite rec_coface_node.
    assert (negb ((c =? 0) || (1 <=? c + Z.of_nat (length s))) = false) as -> by lia.
    rewrite rc_sibs_correct; auto; [|right; lia].
    unfold sem. cbn [rev app]. split.
    + intros (t' & -> & Ht' & Hf & Hsub & Hsz). repeat split; auto. unfold sdim. destruct Hsz as [Hz|Hz]; [left; lia | right; lia].
    + intros (Hf & Hsub & Hsz). exists t. repeat split; auto.
      * intro; subst. rewrite subseq_nil_r in Hsub. destruct s; [congruence | discriminate].
      * unfold sdim in Hsz. destruct Hsz as [Hz|Hz]; [left; lia | right; lia].
Qed.

(* ---- stored words are strictly increasing: invariant of the specification run, transferred by agreement ---- *)
Definition KS (K : cplx) : Prop := forall t, lookup K t <> None -> ssorted t.
Lemma subseq_sorted : forall b a, ssorted b -> subseq a b = true -> ssorted a.
Proof.
  unfold ssorted. induction b as [|y b IH]; intros a Hb H.
  - rewrite subseq_nil_r in H. destruct a; [constructor | discriminate].
  - destruct a as [|x a]; [constructor|]. apply Sorted.StronglySorted_inv in Hb as [Hb Hall].
    rewrite subseq_cons in H. destruct (x =? y) eqn:E; [|apply IH; auto].
    apply Z.eqb_eq in E; subst. constructor; [apply IH; auto|].
    rewrite Forall_forall in *. intros u Hu. apply Hall. apply (subseq_incl _ _ H u Hu).
Qed.
Lemma spec_step_KS K o : KS K -> refined_op o = true -> pre_op K o = true -> KS (spec_step K o).
Proof.
  intros Hk Hr Hpre t. destruct o; try discriminate; cbn [spec_step].
  - destruct (list_eq_dec Z.eq_dec t (norm s)) as [->|Hne]; [intros _; apply norm_sorted|].
    rewrite spec_insert_other by auto. apply Hk.
  - destruct t as [|z t']; [intros _; constructor|].
    rewrite lookup_insert_closure by congruence.
    destruct (subseq (z :: t') (norm s)) eqn:E; [intros _; eapply subseq_sorted; eauto; apply norm_sorted | apply Hk].
  - rewrite lookup_batch. destruct t as [|z [|z' t']]; try apply Hk.
    intros _. constructor; constructor.
  - destruct vw as [|w0 vw']; [apply Hk|].
    cbn [pre_op] in Hpre. apply andb_true_iff in Hpre as [_ Hok].
    intro Hf. apply (spec_graph_klen (w0 :: vw') es Hok t Hf).
  - destruct (list_eq_dec Z.eq_dec t (norm s)) as [->|Hne]; [rewrite spec_remove_same; congruence|].
    rewrite spec_remove_other by auto. apply Hk.
  - rewrite spec_prune_filt_lookup. destruct (lookup K t) eqn:E; [|congruence]. intros _. apply Hk. congruence.
  - rewrite spec_prune_dim_lookup. destruct (_ <=? _); [apply Hk | congruence].
  - cbn. congruence.
  - apply Hk.
  - apply Hk.
Qed.
Lemma spec_run_KS : forall ops K, KS K -> forallb refined_op ops = true -> ok_from K ops = true -> KS (fold_left spec_step ops K).
Proof.
  induction ops as [|o ops IH]; intros K Hk Hp Hok; cbn [fold_left]; auto.
  cbn [forallb] in Hp. apply andb_true_iff in Hp as [Hp1 Hp2].
  cbn [ok_from] in Hok. apply andb_true_iff in Hok as [Hok Hok3]. apply andb_true_iff in Hok as [Hok1 Hok2].
  apply IH; auto. apply spec_step_KS; auto.
Qed.

Lemma in_keys_lookup K t : In t (keys K) <-> lookup K t <> None.
Proof.
  unfold keys. rewrite in_map_iff. split.
  - intros ([u v] & <- & Hin). eapply in_lookup; eauto.
  - intro H. destruct (lookup K t) as [v|] eqn:E; [|congruence]. exists (t, v). split; auto. apply lookup_in; auto.
Qed.

(* ---- star_simplex_range and cofaces_simplex_range (unlinked option sets, repaired) report exactly the star and
        the cofaces of the abstract complex of the history, for every stored simplex and every codimension ---- *)
Theorem cofaces_history ops s c :
  forallb refined_op ops = true -> ok_history ops = true -> s <> [] -> cmem (spec_run ops) s = true -> 0 <= c ->
  forall t, In t (cofaces_unlinked true (run true ops) s c) <->
            In t (if c =? 0 then star (spec_run ops) s else cofaces (spec_run ops) s c).
Proof.
  intros Hp Hok Hne Hmem Hc t.
  assert (H0 : inv empty_state []).
  { split; [split; [apply wf_nil|] |]; intros u _; cbn [tree empty_state]; rewrite find_val_nil_l; [reflexivity | congruence]. }
  destruct (run_inv true ops empty_state [] H0 eq_refl Hp Hok) as [[Hwf Ha] Hub].
  assert (Hks : KS (spec_run ops)) by (apply spec_run_KS; auto; intros u Hu; cbn in Hu; congruence).
  fold (run true ops) in *. fold (spec_run ops) in *.
  set (st := run true ops) in *. set (K := spec_run ops) in *.
  assert (Hkt : keys_sorted (tree st)).
  { intros u Hu. destruct u as [|z u']; [constructor|]. apply Hks. rewrite <- Ha by congruence. exact Hu. }
  assert (Hs : ssorted s). { apply Hks. unfold cmem in Hmem. destruct (lookup K s); [congruence | discriminate]. }
  rewrite cofaces_unlinked_correct by auto.
  assert (Hpres : forall u, subseq s u = true -> (find_val u (tree st) <> None <-> In u (keys K))).
  { intros u Hsub. rewrite in_keys_lookup. rewrite Ha; [tauto|].
    intro; subst. rewrite subseq_nil_r in Hsub. destruct s; [congruence | discriminate]. }
  destruct (c =? 0) eqn:Ec.
  - unfold star. rewrite filter_In. split.
    + intros (Hf & Hsub & _). split; auto. apply Hpres; auto.
    + intros (Hin & Hsub). repeat split; auto; [apply Hpres; auto | left; lia].
  - unfold cofaces. rewrite filter_In, andb_true_iff. split.
    + intros (Hf & Hsub & Hsz). split; [apply Hpres; auto|]. split; auto. destruct Hsz; lia.
    + intros (Hin & Hsub & Hsz). repeat split; auto; [apply Hpres; auto | right; lia].
Qed.

(* ------------------------------------------------------------------------------------------------ label-linked search *)
Lemma find_app : forall a b l, a <> [] -> b <> [] ->
  find (a ++ b) l = match find a l with Some (_, Node c) => find b c | None => None end.
Proof.
  induction a as [|x [|y a'] IH]; intros b l Ha Hb; [congruence| |].
  - destruct b as [|z b']; [congruence|]. cbn [app]. rewrite find_cons2, find_one. reflexivity.
  - change ((x :: y :: a') ++ b) with (x :: (y :: a') ++ b). cbn [app]. rewrite !find_cons2.
    destruct (get x l) as [[w [c]]|]; auto. apply (IH b c); congruence.
Qed.
Lemma find_val_app a b l w c : a <> [] -> b <> [] -> find a l = Some (w, Node c) -> find_val (a ++ b) l = find_val b c.
Proof. intros Ha Hb H. unfold find_val. rewrite find_app, H by auto. reflexivity. Qed.
Lemma find_prefix a b l : a <> [] -> find_val (a ++ b) l <> None -> exists w c, find a l = Some (w, c).
Proof.
  intros Ha H. destruct b as [|z b'].
  - rewrite app_nil_r in H. unfold find_val in H. destruct (find a l) as [[w c]|]; [eauto | cbn in H; congruence].
  - unfold find_val in H. rewrite find_app in H by (auto; congruence).
    destruct (find a l) as [[w c]|]; [eauto | cbn in H; congruence].
Qed.

Lemma descend_cons x w c r pre : descend (Node ((x, w, c) :: r)) pre = (rev (x :: pre) :: descend c (x :: pre)) ++ descend (Node r) pre.
Proof. reflexivity. Qed.
Lemma label_nodes_cons m x w c r pre :
  label_nodes m (Node ((x, w, c) :: r)) pre =
  ((if x =? m then [(rev (x :: pre), c)] else []) ++ label_nodes m c (x :: pre)) ++ label_nodes m (Node r) pre.
Proof. reflexivity. Qed.

Lemma find_cons_eq_one x w c r : find [x] ((x, w, c) :: r) = Some (w, c).
Proof. rewrite find_one. cbn [get]. rewrite Z.compare_refl. reflexivity. Qed.
Lemma find_cons_eq_deep x y t w c r : find (x :: y :: t) ((x, w, Node c) :: r) = find (y :: t) c.
Proof. rewrite find_cons2. cbn [get]. rewrite Z.compare_refl. reflexivity. Qed.
Lemma find_cons_gt z t x w c r : x < z -> find (z :: t) ((x, w, c) :: r) = find (z :: t) r.
Proof. intro H. apply find_head. cbn [get]. destruct (Z.compare_spec z x); auto; lia. Qed.
Lemma find_cons_lt z t x w c r : z < x -> find (z :: t) ((x, w, c) :: r) = None.
Proof.
  intro H. assert (get z ((x, w, c) :: r) = None) as Hg by (cbn [get]; destruct (Z.compare_spec z x); auto; lia).
  destruct t; [rewrite find_one, Hg | rewrite find_cons2, Hg]; reflexivity.
Qed.
Lemma find_head_get z t l : find (z :: t) l <> None -> get z l <> None.
Proof. intros H Hg. apply H. destruct t; [rewrite find_one, Hg | rewrite find_cons2, Hg]; reflexivity. Qed.

(* nodes found through find, with their subtrie: the three kinds of words of (x,w,c) :: r *)
Lemma node_cons x w c0 r t' q : wf ((x, w, Node c0) :: r) -> t' <> [] ->
  (find t' ((x, w, Node c0) :: r) = Some q <->
   (t' = [x] /\ q = (w, Node c0)) \/ (exists t'', t'' <> [] /\ t' = x :: t'' /\ find t'' c0 = Some q) \/ find t' r = Some q).
Proof.
  intros Hwf Ht. apply wf_cons in Hwf as (Hlb & Hc & Hr). destruct t' as [|z tt]; [congruence|]. split.
  - intro H. destruct (Z.compare_spec z x) as [E|E|E].
    + subst z. destruct tt as [|y tt'].
      * rewrite find_cons_eq_one in H. left. split; congruence.
      * right; left. rewrite find_cons_eq_deep in H. exists (y :: tt'). repeat split; auto; congruence.
    + rewrite find_cons_lt in H by auto. congruence.
    + rewrite find_cons_gt in H by auto. right; right; auto.
  - intros [[H1 H2]|[(t'' & Hne & Heq & Hf)|H]].
    + inversion H1; subst. apply find_cons_eq_one.
    + inversion Heq; subst. destruct t'' as [|y t3]; [congruence|]. rewrite find_cons_eq_deep. exact Hf.
    + assert (x < z).
      { apply lb_sibs_get_some with (r := r); auto. apply find_head_get with (t := tt). congruence. }
      rewrite find_cons_gt by auto. exact H.
Qed.

Lemma descend_correct : forall l pre, wf l ->
  forall t, In t (descend (Node l) pre) <-> exists t', t' <> [] /\ t = rev pre ++ t' /\ find_val t' l <> None.
Proof.
  apply (sibs_trie_ind
           (fun c => forall pre, wf_t c -> forall t, In t (descend c pre) <-> exists t', t' <> [] /\ t = rev pre ++ t' /\ find_val t' (kids c) <> None)
           (fun l => forall pre, wf l -> forall t, In t (descend (Node l) pre) <-> exists t', t' <> [] /\ t = rev pre ++ t' /\ find_val t' l <> None)).
  - intros l H pre Hw t. cbn [kids]. apply H. rewrite <- wf_t_node; auto.
  - intros pre _ t. cbn. split; [intros [] | intros (t' & _ & _ & Hf)]. rewrite find_val_nil_l in Hf. congruence.
  - intros x w c r IHc IHr pre Hwf t. destruct c as [c0]. pose proof Hwf as Hwf0. apply wf_cons in Hwf as (Hlb & Hc & Hr).
    rewrite descend_cons, in_app_iff. cbn [In]. rewrite (IHc (x :: pre)) by auto. rewrite (IHr pre) by auto. cbn [kids rev].
    split.
    + intros [[H|(t'' & Hne & Heq & Hf)]|(t' & Hne & Heq & Hf)].
      * exists [x]. repeat split; auto; try congruence. rewrite find_val_cons_eq_one. congruence.
      * exists (x :: t''). repeat split; try congruence.
        -- rewrite Heq, <- app_assoc. reflexivity.
        -- apply key_cons; auto; [congruence|]. right; left. exists t''. auto.
      * exists t'. repeat split; auto. apply key_cons; auto.
    + intros (t' & Hne & Heq & Hf). apply key_cons in Hf as [H|[(t'' & Hne'' & Heq'' & Hf'')|H]]; auto.
      * subst. left; left. reflexivity.
      * subst. left; right. exists t''. repeat split; auto. rewrite <- app_assoc. reflexivity.
      * right. exists t'. auto.
Qed.

Lemma label_nodes_correct m : forall l pre, wf l ->
  forall tau c, In (tau, c) (label_nodes m (Node l) pre) <->
                exists tau' w, tau' <> [] /\ tau = rev pre ++ tau' /\ last tau' 0 = m /\ find tau' l = Some (w, c).
Proof.
  apply (sibs_trie_ind
           (fun c0 => forall pre, wf_t c0 -> forall tau c, In (tau, c) (label_nodes m c0 pre) <->
                        exists tau' w, tau' <> [] /\ tau = rev pre ++ tau' /\ last tau' 0 = m /\ find tau' (kids c0) = Some (w, c))
           (fun l => forall pre, wf l -> forall tau c, In (tau, c) (label_nodes m (Node l) pre) <->
                        exists tau' w, tau' <> [] /\ tau = rev pre ++ tau' /\ last tau' 0 = m /\ find tau' l = Some (w, c))).
  - intros l H pre Hw tau c. cbn [kids]. apply H. rewrite <- wf_t_node; auto.
  - intros pre _ tau c. cbn. split; [intros [] | intros (t' & w & _ & _ & _ & Hf)]. rewrite find_nil_l in Hf. congruence.
  - intros x w c1 r IHc IHr pre Hwf tau c. destruct c1 as [c0]. pose proof Hwf as Hwf0. apply wf_cons in Hwf as (Hlb & Hc & Hr).
    rewrite label_nodes_cons, !in_app_iff. rewrite (IHc (x :: pre)) by auto. rewrite (IHr pre) by auto. cbn [kids rev].
    split.
    + intros [[H|(t'' & w' & Hne & Heq & Hl & Hf)]|(t' & w' & Hne & Heq & Hl & Hf)].
      * destruct (x =? m) eqn:E; [|destruct H]. destruct H as [H|[]]. inversion H; subst.
        exists [x], w. repeat split; auto; try congruence; [cbn; lia | apply find_cons_eq_one].
      * exists (x :: t''), w'. repeat split; try congruence.
        -- rewrite Heq, <- app_assoc. reflexivity.
        -- destruct t''; [congruence | exact Hl].
        -- apply node_cons; auto; [congruence|]. right; left. exists t''. auto.
      * exists t', w'. repeat split; auto. apply node_cons; auto.
    + intros (t' & w' & Hne & Heq & Hl & Hf). apply node_cons in Hf as [[H1 H2]|[(t'' & Hne'' & Heq'' & Hf'')|H]]; auto.
      * subst. left; left. cbn [last]. inversion H2; subst. rewrite Z.eqb_refl. left. reflexivity.
      * subst. left; right. exists t'', w'. repeat split; auto; [rewrite <- app_assoc; reflexivity|].
        destruct t''; [congruence | reflexivity].
      * right. exists t', w'. auto.
Qed.

Lemma wf_find : forall tau l w c, wf l -> find tau l = Some (w, c) -> wf_t c.
Proof.
  induction tau as [|x [|y t] IH]; intros l w c Hwf H; [discriminate| |].
  - rewrite find_one in H. eapply wf_get; eauto.
  - rewrite find_cons2 in H. destruct (get x l) as [[w' [c']]|] eqn:E; [|discriminate].
    apply (IH c' w c); auto. rewrite <- wf_t_node. eapply wf_get; eauto.
Qed.
Lemma subseq_nil_l b : subseq [] b = true.
Proof. destruct b; reflexivity. Qed.
Lemma subseq_app_r c : forall b d, subseq c d = true -> subseq c (b ++ d) = true.
Proof. induction b as [|y b IH]; intros d H; cbn [app]; auto. apply subseq_cons_r. apply IH; auto. Qed.
Lemma subseq_app : forall b a c d, subseq a b = true -> subseq c d = true -> subseq (a ++ c) (b ++ d) = true.
Proof.
  induction b as [|y b IH]; intros a c d H1 H2.
  - rewrite subseq_nil_r in H1. destruct a; [exact H2 | discriminate].
  - destruct a as [|x a].
    + cbn [app]. apply subseq_cons_r. apply subseq_app_r; auto.
    + rewrite subseq_cons in H1. cbn [app]. rewrite subseq_cons. destruct (x =? y).
      * apply IH; auto.
      * apply (IH (x :: a) c d); auto.
Qed.
Lemma ssorted_mid m : forall a b, ssorted (a ++ m :: b) -> ~ In m a /\ ~ In m b.
Proof.
  unfold ssorted. induction a as [|x a IH]; intros b H; cbn [app] in H.
  - apply Sorted.StronglySorted_inv in H as [_ Hall]. split; [intros []|].
    intro Hin. rewrite Forall_forall in Hall. specialize (Hall m Hin). lia.
  - apply Sorted.StronglySorted_inv in H as [Hs Hall]. destruct (IH b Hs) as [H1 H2]. split; auto.
    intros [->|Hin]; auto. rewrite Forall_forall in Hall. assert (Hmi : In m (a ++ m :: b)) by (apply in_or_app; right; left; reflexivity). specialize (Hall m Hmi). lia.
Qed.
Lemma subseq_split_at m t' : ~ In m t' ->
  forall tau0 s0, ~ In m s0 -> subseq (s0 ++ [m]) (tau0 ++ m :: t') = true -> subseq s0 tau0 = true.
Proof.
  intro Hm. induction tau0 as [|y tau0 IH]; intros s0 Hs H.
  - destruct s0 as [|a s0']; auto. exfalso. cbn [app] in H. rewrite subseq_cons in H.
    destruct (a =? m) eqn:E; [apply Z.eqb_eq in E; subst; apply Hs; left; auto|].
    apply subseq_incl in H. apply Hm. apply H. right. apply in_or_app. right. left. auto.
  - destruct s0 as [|a s0']; [apply subseq_nil_l|]. cbn [app] in H. rewrite subseq_cons in *.
    destruct (a =? y) eqn:E.
    + apply IH; auto. intro Hin. apply Hs. right; auto.
    + apply (IH (a :: s0')); auto.
Qed.

Theorem star_linked_correct l s : wf l -> keys_sorted l -> ssorted s -> s <> [] ->
  forall t, In t (star_linked l s) <-> (find_val t l <> None /\ subseq s t = true).
Proof.
  intros Hwf Hk Hs Hne t.
  pose proof (app_removelast_last 0 Hne) as Es.
  unfold star_linked. set (s0 := removelast s) in *. set (m := last s 0) in *.
  assert (Hms0 : ~ In m s0). { rewrite Es in Hs. apply (ssorted_mid m s0 []) in Hs. tauto. }
  rewrite in_flat_map. split.
  - intros ([tau c] & Hin & Ht). apply filter_In in Hin as [Hin Hsub]. cbn [fst snd] in *.
    apply (label_nodes_correct m l [] Hwf) in Hin as (tau' & w & Hne' & Heq & Hl & Hf). cbn [rev app] in Heq. subst tau'.
    pose proof (app_removelast_last 0 Hne') as Et. rewrite Hl in Et. set (tau0 := removelast tau) in *.
    assert (Hst : subseq s tau = true).
    { rewrite Es, Et. apply subseq_app; auto. rewrite subseq_cons, Z.eqb_refl. reflexivity. }
    destruct Ht as [<-|Ht].
    + split; auto. unfold find_val. rewrite Hf. cbn. congruence.
    + destruct c as [c0]. assert (Hc0 : wf c0) by (rewrite <- wf_t_node; eapply wf_find; eauto).
      apply (descend_correct c0 (rev tau) Hc0) in Ht as (t' & Hne'' & Heq & Hft). rewrite rev_involutive in Heq. subst t.
      split.
      * rewrite (find_val_app tau t' l w c0); auto.
      * rewrite <- (app_nil_r s). apply subseq_app; auto. apply subseq_nil_l.
  - intros [Hf Hsub].
    assert (Hmt : In m t). { apply (subseq_incl _ _ Hsub). rewrite Es. apply in_or_app. right. left. auto. }
    apply in_split in Hmt as (tau0 & t' & Heq).
    pose proof (Hk t Hf) as Hst. rewrite Heq in Hst. destruct (ssorted_mid m tau0 t' Hst) as [_ Hmt'].
    set (tau := tau0 ++ [m]).
    assert (Htt : t = tau ++ t') by (unfold tau; rewrite <- app_assoc; exact Heq).
    assert (Htau : tau <> []) by (unfold tau; destruct tau0; discriminate).
    rewrite Htt in Hf. destruct (find_prefix tau t' l Htau Hf) as (w & c & Hfc).
    exists (tau, c). split.
    + apply filter_In. split.
      * apply (label_nodes_correct m l [] Hwf). exists tau, w. repeat split; auto. unfold tau. apply last_last.
      * cbn [fst]. unfold tau. rewrite removelast_last. apply (subseq_split_at m t' Hmt'); auto.
        rewrite <- Es, <- Heq. exact Hsub.
    + cbn [fst snd]. destruct t' as [|z t''].
      * left. rewrite Htt, app_nil_r. reflexivity.
      * right. destruct c as [c0]. assert (Hc0 : wf c0) by (rewrite <- wf_t_node; eapply wf_find; eauto).
        apply (descend_correct c0 (rev tau) Hc0). exists (z :: t''). rewrite rev_involutive. repeat split; auto; [congruence|].
        rewrite (find_val_app tau (z :: t'') l w c0) in Hf; auto. congruence.
Qed.

Theorem cofaces_linked_correct st s c :
  wf (tree st) -> keys_sorted (tree st) -> ssorted s -> s <> [] -> 0 <= c ->
  forall t, In t (cofaces_linked st s c) <->
            (find_val t (tree st) <> None /\ subseq s t = true /\ (c = 0 \/ sdim t = sdim s + c)).
Proof.
  intros Hwf Hk Hs Hne Hc t. unfold cofaces_linked. rewrite filter_In, star_linked_correct by auto.
  split.
  - intros [[H1 H2] H3]. repeat split; auto. lia.
  - intros (H1 & H2 & H3). repeat split; auto. lia.
Qed.

(* the two storage strategies answer the same *)
Theorem linked_equals_unlinked st s c :
  wf (tree st) -> keys_sorted (tree st) -> ub_valid st -> ssorted s -> s <> [] -> 0 <= c ->
  forall t, In t (cofaces_unlinked true st s c) <-> In t (cofaces_linked st s c).
Proof.
  intros. rewrite cofaces_unlinked_correct, cofaces_linked_correct by auto. tauto.
Qed.

Theorem cofaces_history_linked ops s c :
  forallb refined_op ops = true -> ok_history ops = true -> s <> [] -> cmem (spec_run ops) s = true -> 0 <= c ->
  forall t, In t (cofaces_linked (run true ops) s c) <->
            In t (if c =? 0 then star (spec_run ops) s else cofaces (spec_run ops) s c).
Proof.
  intros Hp Hok Hne Hmem Hc t. rewrite <- (cofaces_history ops s c Hp Hok Hne Hmem Hc).
  assert (H0 : inv empty_state []).
  { split; [split; [apply wf_nil|] |]; intros u _; cbn [tree empty_state]; rewrite find_val_nil_l; [reflexivity | congruence]. }
  destruct (run_inv true ops empty_state [] H0 eq_refl Hp Hok) as [[Hwf Ha] Hub].
  assert (Hks : KS (spec_run ops)) by (apply spec_run_KS; auto; intros u Hu; cbn in Hu; congruence).
  fold (run true ops) in *. fold (spec_run ops) in *.
  assert (Hkt : keys_sorted (tree (run true ops))).
  { intros u Hu. destruct u as [|z u']; [constructor|]. apply Hks. rewrite <- Ha by congruence. exact Hu. }
  assert (Hs : ssorted s). { apply Hks. unfold cmem in Hmem. destruct (lookup (spec_run ops) s); [congruence | discriminate]. }
  symmetry. apply linked_equals_unlinked; auto.
Qed.

(* ------------------------------------------------------------------------------------------------ boundary *)
Lemma drop_each_spec : forall s f o, In (f, o) (drop_each s) <-> exists a b, s = a ++ o :: b /\ f = a ++ b.
Proof.
  induction s as [|x r IH]; intros f o; cbn [drop_each].
  - split; [intros [] | intros (a & b & H & _); destruct a; discriminate].
  - rewrite in_app_iff, in_map_iff. cbn [In]. split.
    + intros [([f' o'] & Heq & Hin)|[H|[]]].
      * cbn [fst snd] in Heq. inversion Heq; subst. apply IH in Hin as (a & b & -> & ->).
        exists (x :: a), b. split; reflexivity.
      * inversion H; subst. exists [], f. split; reflexivity.
    + intros (a & b & Hs & Hf). destruct a as [|y a'].
      * cbn [app] in *. inversion Hs; subst. right. left. reflexivity.
      * cbn [app] in *. inversion Hs; subst. left. exists (a' ++ b, o). split; auto.
        apply IH. exists a', b. split; reflexivity.
Qed.
Lemma drop_each_length s : length (drop_each s) = length s.
Proof. induction s as [|x r IH]; cbn [drop_each]; auto. rewrite app_length, map_length. cbn [length]. rewrite Nat.add_1_r. f_equal. exact IH. Qed.

(* boundary_simplex_range / boundary_opposite_vertex_simplex_range of a stored simplex s of a closed complex:
   exactly the |s| facets (none for a vertex), each stored, each paired with the vertex it lacks *)
Theorem boundary_correct l s :
  (forall t, In t (faces s) -> find_val t l <> None) ->
  length (boundary_t l s) = (if (length s =? 1)%nat then 0 else length s)%nat /\
  forall f o v, In (f, o, v) (boundary_t l s) <->
                ((2 <= length s)%nat /\ v = find_val f l /\ v <> None /\ exists a b, s = a ++ o :: b /\ f = a ++ b).
Proof.
  intro Hcl. unfold boundary_t, boundary. split.
  - rewrite map_length. destruct s as [|x [|y r]]; auto. rewrite drop_each_length. reflexivity.
  - intros f o v. rewrite in_map_iff. split.
    + intros ([f' o'] & Heq & Hin). cbn [fst snd] in Heq. inversion Heq; subst.
      assert (Hlen : (2 <= length s)%nat).
      { destruct s as [|x [|y r]]; [destruct Hin | destruct Hin | cbn [length]; lia]. }
      assert (Hd : In (f, o) (drop_each s)) by (destruct s as [|x [|y r]]; auto; destruct Hin).
      apply drop_each_spec in Hd as (a & b & Hs & Hf).
      split; auto. split; auto. split; [|eauto].
      apply Hcl. apply in_faces. split.
      * intro; subst. destruct a; destruct b; try discriminate. cbn [app length] in Hlen. lia.
      * rewrite Hs, Hf. apply subseq_app; [apply subseq_refl | apply subseq_cons_r, subseq_refl].
    + intros (Hlen & -> & _ & a & b & Hs & Hf). exists (f, o). split; auto.
      assert (Hd : In (f, o) (drop_each s)) by (apply drop_each_spec; eauto).
      destruct s as [|x [|y r]]; auto. cbn [length] in Hlen. lia.
Qed.

(* ------------------------------------------------------------------------------------------------ skeleton *)
Lemma skel_cons x w c r k :
  skel_t (Node ((x, w, c) :: r)) k =
  ((match k with O => [] | S k' => map (fun p => (x :: fst p, snd p)) (skel_t c k') end) ++ [([x], w)]) ++ skel_t (Node r) k.
Proof. reflexivity. Qed.
Theorem skeleton_correct : forall l, wf l -> forall k t v,
  In (t, v) (skel_t (Node l) k) <-> (t <> [] /\ (length t <= S k)%nat /\ find_val t l = Some v).
Proof.
  apply (sibs_trie_ind (fun c => wf_t c -> forall k t v, In (t, v) (skel_t c k) <-> (t <> [] /\ (length t <= S k)%nat /\ find_val t (kids c) = Some v))
                       (fun l => wf l -> forall k t v, In (t, v) (skel_t (Node l) k) <-> (t <> [] /\ (length t <= S k)%nat /\ find_val t l = Some v))).
  - intros l H Hw k t v. cbn [kids]. apply H. rewrite <- wf_t_node. exact Hw.
  - intros _ k t v. cbn. rewrite find_val_nil_l. split; [tauto | intros (_ & _ & H); discriminate].
  - intros x w c r IHc IHr Hwf k t v. apply wf_cons in Hwf as (Hlb & Hc & Hr).
    rewrite skel_cons, !in_app_iff. cbn [In]. rewrite (IHr Hr k). split.
    + intros [[H|[H|[]]]|H].
      * destruct k as [|k']; [destruct H|]. apply in_map_iff in H as ([t' v'] & Heq & Hin). cbn [fst snd] in Heq.
        inversion Heq; subst. apply (IHc Hc k') in Hin as (Hne & Hlen & Hf).
        split; [congruence|]. split; [cbn [length]; lia|].
        destruct c as [c0]. destruct t' as [|y t'']; [congruence|]. rewrite find_val_cons_eq_deep. exact Hf.
      * inversion H; subst. split; [congruence|]. split; [cbn; lia | apply find_val_cons_eq_one].
      * destruct H as (Hne & Hlen & Hf). split; auto. split; auto.
        destruct t as [|z t']; [congruence|].
        assert (x < z).
        { apply lb_sibs_get_some with (r := r); auto. apply find_val_head_get with (t := t'). congruence. }
        rewrite find_val_cons_gt by auto. exact Hf.
    + intros (Hne & Hlen & Hf). destruct t as [|z t']; [congruence|].
      destruct (Z.compare_spec z x) as [E|E|E].
      * subst z. left. destruct t' as [|y t''].
        -- right. left. rewrite find_val_cons_eq_one in Hf. inversion Hf; subst. reflexivity.
        -- left. destruct c as [c0]. rewrite find_val_cons_eq_deep in Hf.
           destruct k as [|k']; [cbn [length] in Hlen; lia|].
           apply in_map_iff. exists (y :: t'', v). split; auto. apply (IHc Hc k'). cbn [kids].
           split; [congruence|]. split; [cbn [length] in *; lia | exact Hf].
      * rewrite find_val_cons_lt in Hf by auto. discriminate.
      * rewrite find_val_cons_gt in Hf by auto. right. auto.
Qed.

(* ------------------------------------------------------------------------------------------------ counts, equality *)
Theorem size_abs : forall t, size_t t = Z.of_nat (length (abs_t t)).
Proof.
  apply (trie_sibs_ind (fun t => size_t t = Z.of_nat (length (abs_t t)))
                       (fun l => size_t (Node l) = Z.of_nat (length (abs_t (Node l))))); auto.
  intros x w c r Hc Hr. rewrite size_node_cons, Hc, Hr.
  change (abs_t (Node ((x, w, c) :: r))) with ((([x], w) :: map (fun p => (x :: fst p, snd p)) (abs_t c)) ++ abs_t (Node r)).
  rewrite app_length. cbn [length]. rewrite map_length, Nat2Z.inj_add, Nat2Z.inj_succ.
  replace (1 + Z.of_nat (length (abs_t c))) with (Z.succ (Z.of_nat (length (abs_t c)))) by lia. reflexivity.
Qed.

Lemma height_is_cdim l K : agree l K -> height_t (Node l) = cdim K.
Proof.
  intros [Hwf Ha].
  apply (attained_is_cdim (mk l (height_t (Node l)) false) K).
  - split; [split; auto|]. intros t Ht Hf. cbn [tree dim_ub] in *. apply find_height; auto.
  - unfold lb_ok. cbn [dim_ub]. apply height_lb.
  - unfold dim_attained. cbn [tree dim_ub]. destruct l as [|e l'] eqn:E; [left; split; reflexivity|].
    right. rewrite <- E in *. apply height_witness; auto. rewrite E; congruence.
Qed.

(* operator== against a tree rebuilt from the enumeration is true after every refined history (repaired), and
   against an empty tree exactly when the abstract complex is empty *)
Theorem equality_over_histories ops :
  forallb refined_op ops = true -> ok_history ops = true ->
  eq_rebuilt (run true ops) = true /\
  (eq_empty (run true ops) = true <-> forall t, t <> [] -> lookup (spec_run ops) t = None).
Proof.
  intros Hp Hok.
  destruct (dimension_exact ops Hp Hok) as [_ Hd].
  destruct (history_refines true ops Hp Hok) as (Hwf & Ha & _).
  pose proof (height_is_cdim _ _ (conj Hwf Ha)) as Hh.
  set (st := run true ops) in *. set (K := spec_run ops) in *.
  assert (Heq : eq_rebuilt st = true).
  { unfold eq_rebuilt, exact_dim. destruct (dirty st) eqn:Ed; [cbn; rewrite andb_false_r; reflexivity|].
    rewrite Hd, Hh by auto. rewrite Z.eqb_refl. reflexivity. }
  split; auto. unfold eq_empty. split.
  - intros H t Ht. apply andb_true_iff in H as [_ Hn]. rewrite <- Ha by auto.
    destruct (tree st); [apply find_val_nil_l | discriminate].
  - intro Hnone.
    assert (Hnil : tree st = []).
    { destruct (tree st) as [|e l'] eqn:E; auto. exfalso.
      destruct (nonnil_vertex (tree st)) as (x & Hx); [rewrite E; congruence|].
      rewrite E in Hx. rewrite Ha in Hx by congruence. apply Hx. apply Hnone. congruence. }
    rewrite Hnil. cbn [is_nil]. rewrite andb_true_r.
    destruct (dirty st) eqn:Ed; [cbn; rewrite andb_false_r; reflexivity|].
    rewrite Hd by auto.
    assert (cdim K = -1).
    { apply Z.le_antisymm; [|apply cdim_lb]. apply cdim_le; [lia|]. intros t v Hin.
      destruct t as [|z t']; [unfold sdim; cbn; lia|]. exfalso.
      apply in_lookup in Hin. apply Hin. apply Hnone. congruence. }
    rewrite H. reflexivity.
Qed.

(* num_simplices = number of simplices of the abstract complex of the tree *)
Theorem num_simplices_is_cardinal l : wf l -> size_t (Node l) = Z.of_nat (length (keys (abs l))) /\ NoDup (keys (abs l)).
Proof. intro H. split; [unfold keys, abs; rewrite map_length; apply size_abs | apply nodup_abs; auto]. Qed.
