(* C01_Counts.v - num_simplices_by_dimension returns the exact number of simplices of every dimension. *)
From Coq Require Import ZArith List Lia Bool ZifyBool.
Import ListNotations.
Require Import Simplex Trie C01_Model C01_Proofs.
Local Open Scope Z_scope.

Definition cnt_list (K : cplx) (k : nat) : Z := Z.of_nat (length (filter (fun p => (length (fst p) =? S k)%nat) K)).
Definition cnt (l : sibs) (k : nat) : Z := cnt_list (abs l) k.

Lemma abs_keys_nonnil : forall t p, In p (abs_t t) -> fst p <> [].
Proof.
  apply (trie_sibs_ind (fun t => forall p, In p (abs_t t) -> fst p <> [])
                       (fun l => forall p, In p (abs_t (Node l)) -> fst p <> [])); auto.
  intros x w c r Hc Hr p Hin.
    change (abs_t (Node ((x, w, c) :: r))) with ((([x], w) :: map (fun p => (x :: fst p, snd p)) (abs_t c)) ++ abs_t (Node r)) in Hin.
    apply in_app_iff in Hin as [[<-|Hin]|Hin]; [cbn; congruence | | apply Hr; auto].
    apply in_map_iff in Hin as (q & <- & _). cbn. congruence.
Qed.
Lemma cnt_list_app A B k : cnt_list (A ++ B) k = cnt_list A k + cnt_list B k.
Proof. unfold cnt_list. rewrite filter_app, app_length, Nat2Z.inj_add. reflexivity. Qed.
Lemma filter_map_length {A B} (f : A -> bool) (g : B -> A) (h : B -> bool) (L : list B) :
  (forall b, f (g b) = h b) -> length (filter f (map g L)) = length (filter h L).
Proof.
  intro H. induction L as [|b L IH]; [reflexivity|]. cbn [map filter]. rewrite H.
  destruct (h b); cbn [length]; rewrite IH; reflexivity.
Qed.
Lemma filter_none {A} (f : A -> bool) (L : list A) : (forall a, In a L -> f a = false) -> filter f L = [].
Proof.
  induction L as [|a L IH]; intro H; [reflexivity|]. cbn [filter]. rewrite (H a) by (left; auto).
  apply IH. intros b Hb. apply H. right; auto.
Qed.
Lemma cnt_list_map_cons x A k :
  cnt_list (map (fun p : simplex * V => (x :: fst p, snd p)) A) (S k) = cnt_list A k.
Proof.
  unfold cnt_list. f_equal. apply filter_map_length. intros [t v]. reflexivity.
Qed.
Lemma cnt_list_map_cons_0 x A : (forall p, In p A -> fst p <> []) ->
  cnt_list (map (fun p : simplex * V => (x :: fst p, snd p)) A) 0 = 0.
Proof.
  unfold cnt_list. intro H.
  rewrite (filter_map_length _ _ (fun p : simplex * V => is_nil (fst p))).
  - rewrite filter_none; [reflexivity|]. intros a Ha. specialize (H a Ha). destruct a as [t v]. cbn [fst] in *.
    destruct t; [congruence | reflexivity].
  - intros [t v]. cbn [fst length]. destruct t; reflexivity.
Qed.
Lemma cnt_nil k : cnt [] k = 0.
Proof. reflexivity. Qed.
Lemma cnt_cons x w c0 r k :
  cnt ((x, w, Node c0) :: r) k = (match k with O => 1 | S k' => cnt c0 k' end) + cnt r k.
Proof.
  unfold cnt. rewrite abs_cons, cnt_list_app. f_equal.
  change (([x], w) :: map (fun p => (x :: fst p, snd p)) (abs_t (Node c0))) with ([([x], w)] ++ map (fun p => (x :: fst p, snd p)) (abs_t (Node c0))).
  rewrite cnt_list_app. destruct k as [|k'].
  - rewrite cnt_list_map_cons_0 by (apply abs_keys_nonnil). reflexivity.
  - rewrite cnt_list_map_cons. reflexivity.
Qed.

Definition counts_exact (d : nat) (l : sibs) (acc res : list Z) : Prop :=
  length res = length acc /\
  forall i, nth i res 0 = nth i acc 0 + (if (d <=? i)%nat then cnt l (i - d) else 0).

Theorem counts_are_exact : forall l d acc res, counts_sibs d l acc = Some res -> counts_exact d l acc res.
Proof.
  apply (sibs_trie_ind (fun c => forall d acc res, counts_t c d acc = Some res -> counts_exact d (kids c) acc res)
                       (fun l => forall d acc res, counts_sibs d l acc = Some res -> counts_exact d l acc res)).
  - intros l H d acc res Hc. cbn [kids]. apply H; auto.
  - intros d acc res H. rewrite counts_sibs_nil in H. inversion H; subst. split; auto.
    intro i. rewrite cnt_nil. destruct (d <=? i)%nat; lia.
  - intros x w c r IHc IHr d acc res H. destruct c as [c0].
    rewrite counts_sibs_cons in H. destruct (d <? length acc)%nat eqn:Ed; [|discriminate].
    apply Nat.ltb_lt in Ed.
    destruct (counts_t (Node c0) (S d) (incr d acc)) as [a2|] eqn:E2; [|discriminate].
    destruct (IHc (S d) (incr d acc) a2 E2) as (L1 & X1). cbn [kids] in *.
    destruct (IHr d a2 res H) as (L2 & X2).
    split; [rewrite L2, L1; apply incr_length; auto|].
    intro i. rewrite X2, X1, cnt_cons.
    destruct (Nat.eq_dec i d) as [->|Hi].
    + rewrite incr_nth_same by auto. rewrite Nat.leb_refl, Nat.sub_diag.
      assert ((S d <=? d)%nat = false) as -> by (apply Nat.leb_gt; lia). lia.
    + rewrite incr_nth_other by auto.
      destruct (d <=? i)%nat eqn:E1.
      * apply Nat.leb_le in E1. assert ((S d <=? i)%nat = true) as -> by (apply Nat.leb_le; lia).
        destruct (i - d)%nat as [|k'] eqn:Ek; [lia|]. replace (i - S d)%nat with k' by lia. lia.
      * apply Nat.leb_gt in E1. assert ((S d <=? i)%nat = false) as -> by (apply Nat.leb_gt; lia). lia.
Qed.

(* the vector is large enough exactly when no simplex is deeper than it *)
Theorem counts_succeed : forall l, wf l -> forall d acc,
  (forall t', t' <> [] -> find_val t' l <> None -> (d + length t' <= length acc)%nat) ->
  exists res, counts_sibs d l acc = Some res.
Proof.
  apply (sibs_trie_ind (fun c => wf_t c -> forall d acc,
                          (forall t', t' <> [] -> find_val t' (kids c) <> None -> (d + length t' <= length acc)%nat) ->
                          exists res, counts_t c d acc = Some res)
                       (fun l => wf l -> forall d acc,
                          (forall t', t' <> [] -> find_val t' l <> None -> (d + length t' <= length acc)%nat) ->
                          exists res, counts_sibs d l acc = Some res)).
  - intros l H Hw d acc Hk. cbn [kids] in *. rewrite counts_t_node. apply H; auto; try (rewrite <- wf_t_node; auto).
  - intros _ d acc _. exists acc. apply counts_sibs_nil.
  - intros x w c r IHc IHr Hwf d acc Hk. destruct c as [c0].
    pose proof Hwf as Hwf0. apply wf_cons in Hwf as (Hlb & Hc & Hr).
    rewrite counts_sibs_cons.
    assert (Hd : (d < length acc)%nat).
    { assert (H := Hk [x]). cbn [length] in H. assert ((d + 1 <= length acc)%nat); [|lia].
      apply H; [congruence|]. rewrite find_val_cons_eq_one. congruence. }
    assert ((d <? length acc)%nat = true) as -> by (apply Nat.ltb_lt; auto).
    destruct (IHc Hc (S d) (incr d acc)) as (a2 & Ha2).
    { intros t' Hne Hf. cbn [kids] in Hf. rewrite incr_length by auto.
      assert (H := Hk (x :: t')). cbn [length] in H. assert ((d + S (length t') <= length acc)%nat); [|lia].
      apply H; [congruence|]. apply key_cons; auto; [congruence|]. right; left. exists t'. auto. }
    rewrite Ha2. apply IHr; auto.
    intros t' Hne Hf. destruct (counts_are_exact _ _ _ _ Ha2) as [L _]. cbn [kids] in L.
    rewrite L, incr_length by auto. apply Hk; auto. apply key_cons; auto.
Qed.

Lemma cnt_count_dim l i : cnt l i = count_dim (abs l) (Z.of_nat i).
Proof.
  unfold cnt, cnt_list, count_dim. f_equal. f_equal. apply filter_ext. intros [t v]. cbn [fst]. unfold sdim.
  destruct (length t =? S i)%nat eqn:E.
  - apply Nat.eqb_eq in E. lia.
  - apply Nat.eqb_neq in E. lia.
Qed.

(* num_simplices_by_dimension: for a state whose cached dimension is a valid bound below 41, the call succeeds and
   entry i of the returned vector is the number of simplices of dimension i; no simplex has a dimension beyond it *)
Theorem count_by_dim_correct st :
  wf (tree st) -> ub_valid st -> dim_ub st < 41 ->
  exists r, snd (count_by_dim st) = Some r /\
            (forall i, (i < length r)%nat -> nth i r 0 = count_dim (abs (tree st)) (Z.of_nat i)) /\
            (forall i, (length r <= i)%nat -> count_dim (abs (tree st)) (Z.of_nat i) = 0).
Proof.
  intros Hwf Hub H41. unfold count_by_dim. destruct (is_empty st) eqn:Ee.
  - exists []. cbn [snd]. split; auto. split; [intros i Hi; cbn in Hi; lia|].
    intros i _. unfold is_empty in Ee. destruct (tree st); [reflexivity | discriminate].
  - set (n := Z.to_nat (Z.min (dim_ub st + 1) 41)).
    assert (Hfit : forall t', t' <> [] -> find_val t' (tree st) <> None -> (0 + length t' <= length (repeat 0%Z n))%nat).
    { intros t' Hne Hf. rewrite repeat_length. specialize (Hub t' Hne Hf). unfold sdim in Hub. unfold n. lia. }
    destruct (counts_succeed _ Hwf 0%nat (repeat 0 n) Hfit) as (res & Hres).
    rewrite counts_t_node, Hres.
    destruct (counts_are_exact _ _ _ _ Hres) as (L & X).
    assert (Hx : forall i, nth i res 0 = count_dim (abs (tree st)) (Z.of_nat i)).
    { intro i. rewrite X, nth_repeat0. cbn [Nat.leb]. rewrite Nat.sub_0_r, cnt_count_dim. lia. }
    assert (Hbeyond : forall i, (length res <= i)%nat -> count_dim (abs (tree st)) (Z.of_nat i) = 0).
    { intros i Hi. rewrite <- Hx. apply nth_overflow. auto. }
    destruct (dirty st); cbn [snd].
    + destruct (strip_back_spec res) as (zs & Hsplit & Hz & _).
      set (res' := rev (strip_zeros (rev res))) in *.
      exists res'. split; auto. split.
      * intros i Hi. rewrite <- Hx. rewrite Hsplit. rewrite app_nth1 by auto. reflexivity.
      * intros i Hi. rewrite <- Hx. rewrite Hsplit. rewrite app_nth2 by auto. apply nth_zeros; auto.
    + exists res. auto.
Qed.

(* complex_vertex_range = the labels of the root Siblings: exactly the vertices of the complex, ascending, once *)
Theorem vertex_range_correct : forall l, wf l ->
  (forall x, In x (map label l) <-> find_val [x] l <> None) /\ Sorted.StronglySorted Z.lt (map label l).
Proof.
  induction l as [|[[x w] c] r IH]; intro Hwf.
  - split; [|constructor]. intro x. rewrite find_val_nil_l. cbn. tauto.
  - apply wf_cons in Hwf as (Hlb & Hc & Hr). destruct (IH Hr) as [IH1 IH2]. cbn [map label fst]. split.
    + intro z. cbn [In]. rewrite IH1. destruct (Z.compare_spec z x) as [E|E|E].
      * subst. rewrite find_val_cons_eq_one. split; [congruence | auto].
      * rewrite find_val_cons_lt by auto. split; [|congruence]. intros [H|H]; [lia|].
        exfalso. rewrite find_val_one in H. apply H. rewrite (lb_sibs_get_lt x z r) by (auto; lia). reflexivity.
      * rewrite find_val_cons_gt by auto. split; [intros [H|H]; [lia | auto] | auto].
    + constructor; auto. rewrite Forall_forall. intros z Hz. apply IH1 in Hz.
      apply lb_sibs_get_some with (r := r); auto. rewrite find_val_one in Hz. destruct (get z r); [congruence | cbn in Hz; congruence].
Qed.

(* ------------------------------------------------------------------------------------------------ DFS pre-order = lexicographic order *)
Fixpoint lex_ltb (a b : simplex) : bool :=
  match a, b with
  | [], _ :: _ => true
  | x :: a', y :: b' => (x <? y) || ((x =? y) && lex_ltb a' b')
  | _, [] => false
  end.
Definition lex_lt (a b : simplex) : Prop := lex_ltb a b = true.

Lemma ss_app {A} (R : A -> A -> Prop) (l1 l2 : list A) :
  Sorted.StronglySorted R l1 -> Sorted.StronglySorted R l2 -> (forall a b, In a l1 -> In b l2 -> R a b) ->
  Sorted.StronglySorted R (l1 ++ l2).
Proof.
  induction 1 as [|a l1 Hs IH Hall]; intros H2 Hx; cbn [app]; auto.
  constructor.
  - apply IH; auto. intros u v Hu Hv. apply Hx; [right; auto | auto].
  - rewrite Forall_forall in *. intros u Hu. apply in_app_iff in Hu as [Hu|Hu]; [apply Hall; auto | apply Hx; [left; auto | auto]].
Qed.
Lemma ss_map_cons x (ks : list simplex) :
  Sorted.StronglySorted lex_lt ks -> Sorted.StronglySorted lex_lt (map (cons x) ks).
Proof.
  induction 1 as [|k ks Hs IH Hall]; cbn [map]; constructor; auto.
  rewrite Forall_forall in *. intros u Hu. apply in_map_iff in Hu as (k' & <- & Hk').
  unfold lex_lt. cbn [lex_ltb]. rewrite Z.eqb_refl, Z.ltb_irrefl. cbn [orb andb]. apply Hall; auto.
Qed.

(* the abstraction lists the words in strictly increasing lexicographic order (prefixes first) *)
Theorem abs_sorted : forall l, wf l -> Sorted.StronglySorted lex_lt (keys (abs l)).
Proof.
  apply (sibs_trie_ind (fun c => wf_t c -> Sorted.StronglySorted lex_lt (keys (abs_t c)))
                       (fun l => wf l -> Sorted.StronglySorted lex_lt (keys (abs l)))).
  - intros l H Hw. apply H. rewrite <- wf_t_node. exact Hw.
  - intros _. constructor.
  - intros x w c r IHc IHr Hwf. pose proof Hwf as Hwf0. apply wf_cons in Hwf as (Hlb & Hc & Hr).
    rewrite abs_cons. unfold keys. rewrite map_app. cbn [map fst]. rewrite map_map. cbn [fst].
    assert (Hmm : map (fun p : simplex * V => x :: fst p) (abs_t c) = map (cons x) (keys (abs_t c))).
    { unfold keys. rewrite map_map. reflexivity. }
    change (Sorted.StronglySorted lex_lt (([x] :: map (fun p : simplex * V => x :: fst p) (abs_t c)) ++ keys (abs r))).
    rewrite Hmm.
    apply (ss_app lex_lt ([x] :: map (cons x) (keys (abs_t c))) (keys (abs r))).
    + constructor; [apply ss_map_cons; apply IHc; auto|].
      rewrite Forall_forall. intros u Hu. apply in_map_iff in Hu as (k & <- & Hk).
      unfold lex_lt. cbn [lex_ltb]. rewrite Z.eqb_refl, Z.ltb_irrefl. cbn [orb andb].
      unfold keys in Hk. apply in_map_iff in Hk as (p & <- & Hp). apply abs_keys_nonnil in Hp.
      destruct (fst p); [congruence | reflexivity].
    + apply IHr; auto.
    + intros a b Ha Hb.
      assert (Hax : exists a', a = x :: a').
      { destruct Ha as [<-|Ha]; [eexists; reflexivity|]. apply in_map_iff in Ha as (k & <- & _). eexists; reflexivity. }
      destruct Hax as (a' & ->).
      unfold keys in Hb. apply in_map_iff in Hb as ([k v] & Hk & Hb). cbn in Hk; subst k.
      apply in_abs in Hb as [Hne Hf]; auto. destruct b as [|z b']; [congruence|].
      assert (x < z).
      { apply lb_sibs_get_some with (r := r); auto. apply find_val_head_get with (t := b'). congruence. }
      unfold lex_lt. cbn [lex_ltb]. assert (x <? z = true) as -> by lia. reflexivity.
Qed.
