(* C01_Model.v - ALGORITHM model of Gudhi::Simplex_tree (src/Simplex_tree/include/gudhi/Simplex_tree.h and
   Simplex_tree/*.h) on the tries of Trie.v, transcribed function by function, plus the cached dimension pair
   (dimension_, dimension_to_be_lowered_), the operation histories and their SPECIFICATION run on Simplex.cplx.
   Where the unrepaired code is known to deviate from the property (F1 star of a top-dimensional simplex,
   F2 dimension after removing the last vertex, F3 expansion of the empty tree) a boolean [fx] selects the
   repaired (true) or the original (false) behaviour; the oracle runs with fx = true (the repaired /repo). *)
From Coq Require Import ZArith List Lia Bool.
Import ListNotations.
Require Import Simplex Trie.
Local Open Scope Z_scope.

(* ---- insert_node_<update_fil = true, update_children = false, set_to_null = true> on the last vertex:
        returns the new siblings and "the returned handle is not null" ---- *)
Definition ins_leaf (x : Z) (v : V) (l : sibs) : sibs * bool :=
  match get x l with
  | None => (put x v leaf l, true)
  | Some (w, c) => if v <? w then (put x v c l, true) else (l, false)
  end.
(* "inserted" flag (pair.second) of the same call *)
Definition is_new (x : Z) (l : sibs) : bool := negb (is_some (get x l)).

(* ---- insert_simplex_raw (line 1036): inner vertices by insert_node_<false,true,false> (value kept when present,
        children created), last vertex by insert_node_<true,false,true> ---- *)
Fixpoint ins_raw (s : simplex) (v : V) (l : sibs) : sibs :=
  match s with
  | [] => l
  | x :: rest =>
      match rest with
      | [] => fst (ins_leaf x v l)
      | _ :: _ =>
          match get x l with
          | None => put x v (Node (ins_raw rest v [])) l
          | Some (w, Node c) => put x w (Node (ins_raw rest v c)) l
          end
      end
  end.

(* ---- rec_insert_simplex_and_subfaces_sorted (line 1143): the double recursion.  Result: new siblings and
        "res.first != null_simplex()" of the call ---- *)
Fixpoint ins_sub (s : simplex) (v : V) (l : sibs) : sibs * bool :=
  match s with
  | [] => (l, false)
  | x :: rest =>
      match rest with
      | [] => ins_leaf x v l
      | _ :: _ =>
          (* insert_node_<true, true, false>: value lowered to the min, children created if absent *)
          let '(w, c) := match get x l with
                         | None => (v, [])
                         | Some (w, Node c) => (Z.min w v, c)
                         end in
          let '(c', res) := ins_sub rest v c in
          let l1 := put x w (Node c') l in
          if res then (fst (ins_sub rest v l1), res) else (l1, res)
      end
  end.

(* ---- insert_batch_vertices (line 1552): flat_map::insert(range) leaves present keys alone ---- *)
Definition ins_batch (vs : list Z) (v : V) (l : sibs) : sibs :=
  fold_left (fun l x => match get x l with None => put x v leaf l | Some _ => l end) vs l.

(* ---- insert_graph (line 1491) on an empty tree: vertices 0..nv-1, then edges by insert_node_<false,false,false> ---- *)
Fixpoint graph_vertices (i : Z) (vw : list V) (l : sibs) : sibs :=
  match vw with [] => l | w :: r => graph_vertices (i + 1) r (match get i l with None => put i w leaf l | Some _ => l end) end.
Definition graph_edge (l : sibs) (e : Z * Z * V) : sibs :=
  let '(u0, v0, w) := e in
  let u := Z.min u0 v0 in let v := Z.max u0 v0 in
  match get u l with
  | None => l                                         (* find_vertex of an absent vertex: excluded by the precondition *)
  | Some (wu, Node c) => match get v c with
                         | None => put u wu (Node (put v w leaf c)) l
                         | Some _ => l
                         end
  end.
Definition ins_graph (vw : list V) (es : list (Z * Z * V)) : sibs :=
  fold_left graph_edge es (graph_vertices 0 vw []).

(* ---- remove_maximal_simplex (line 2311): the word must be present and a leaf.  Second component:
        "a non-root Siblings was emptied and deleted" (sets dimension_to_be_lowered_) ---- *)
Fixpoint rm_max (s : simplex) (l : sibs) (at_root : bool) : sibs * bool :=
  match s with
  | [] => (l, false)
  | x :: rest =>
      match rest with
      | [] => (del x l, negb at_root && (Z.of_nat (length l) <=? 1))
      | _ :: _ =>
          match get x l with
          | None => (l, false)
          | Some (w, Node c) => let '(c', e) := rm_max rest c false in (put x w (Node c') l, e)
          end
      end
  end.

(* ---- rec_prune_above_filtration (line 2171): a node with value > f (or NaN, absent here) goes with its subtree ---- *)
Fixpoint prune_f (f : V) (t : trie) : trie :=
  match t with
  | Node l => Node ((fix go (l : sibs) : sibs :=
                       match l with
                       | [] => []
                       | (x, w, c) :: r => if f <? w then go r else (x, w, prune_f f c) :: go r
                       end) l)
  end.
(* ---- rec_prune_above_dimension (line 2230): nodes at depth d lose their children ---- *)
Fixpoint trunc (t : trie) (k : nat) : trie :=
  match t with
  | Node l => Node (map (fun e => let '(x, w, c) := e in
                                  (x, w, match k with O => leaf | S k' => trunc c k' end)) l)
  end.

(* ---- rec_coface (line 1374).  vs = vertices still to be matched, ascending (vertices.back() is the head);
        cur = curr_nbVertices; nb = nbVertices; pre = labels on the path so far, reversed ---- *)
Fixpoint rec_coface (star : bool) (nb : Z) (t : trie) (vs : list Z) (cur : Z) (pre : list Z) {struct t} : list simplex :=
  match t with
  | Node l =>
      if negb (star || (cur <=? nb)) then [] else
        (fix go (l : sibs) : list simplex :=
           match l with
           | [] => []
           | (x, w, c) :: r =>
               match vs with
               | [] =>
                   let add := star || (cur =? nb) in
                   (if add then [rev (x :: pre)] else [])
                     ++ (if negb add || star then rec_coface star nb c [] (cur + 1) (x :: pre) else [])
                     ++ go r
               | b :: vs' =>
                   if x =? b then
                     let add := is_nil vs' && (star || (cur =? nb)) in
                     (if add then [rev (x :: pre)] else [])
                       ++ (if negb add || star then rec_coface star nb c vs' (cur + 1) (x :: pre) else [])
                       ++ go r
                   else if b <? x then []                          (* return: later siblings are not visited *)
                   else rec_coface star nb c vs (cur + 1) (x :: pre) ++ go r
               end
           end) l
  end.

(* ---- the label-linked search (Simplex_tree_star_simplex_iterators.h): all nodes labelled max(s), those whose path
        to the root contains s, and below each of them the whole subtree ---- *)
Fixpoint label_nodes (m : Z) (t : trie) (pre : list Z) : list (simplex * trie) :=
  match t with
  | Node l => flat_map (fun e => let '(x, w, c) := e in
                                 (if x =? m then [(rev (x :: pre), c)] else []) ++ label_nodes m c (x :: pre)) l
  end.
Fixpoint descend (t : trie) (pre : list Z) : list simplex :=
  match t with
  | Node l => flat_map (fun e => let '(x, w, c) := e in rev (x :: pre) :: descend c (x :: pre)) l
  end.
Definition star_linked (l : sibs) (s : simplex) : list simplex :=
  flat_map (fun p => fst p :: descend (snd p) (rev (fst p)))
           (filter (fun p => subseq (removelast s) (removelast (fst p))) (label_nodes (last s 0) (Node l) [])).

(* ---- state of the object ---- *)
Record state := mk { tree : sibs; dim_ub : Z; dirty : bool }.
Definition empty_state : state := mk [] (-1) false.

Definition cofaces_unlinked (fx : bool) (st : state) (s : simplex) (codim : Z) : list simplex :=
  let sz := Z.of_nat (length s) in
  if (dim_ub st + 1 <? codim + sz) || (negb fx && (codim =? 0) && (dim_ub st <? sz)) then []
  else rec_coface (codim =? 0) (codim + sz) (Node (tree st)) s 1 [].
Definition cofaces_linked (st : state) (s : simplex) (codim : Z) : list simplex :=
  filter (fun t => (codim =? 0) || (sdim t =? codim + sdim s)) (star_linked (tree st) s).

(* boundary iterators: the faces are looked up by find from the ancestors' Siblings *)
Definition boundary_t (l : sibs) (s : simplex) : list (simplex * Z * option V) :=
  map (fun p => (fst p, snd p, find_val (fst p) l)) (boundary s).

(* ---- operations ---- *)
Inductive op :=
| OInsert (s : list Z) (v : V)            (* insert_simplex *)
| OInsertSub (s : list Z) (v : V)         (* insert_simplex_and_subfaces *)
| OBatch (vs : list Z) (v : V)
| OGraph (vw : list V) (es : list (Z * Z * V))
| ORemove (s : list Z)
| OPruneF (f : V)
| OPruneD (d : Z)
| OClear
| OExpand (d : Z)                        (* specification level only: the algorithm belongs to C04 *)
| ODim                                    (* a call of dimension() *)
| OCount.                                 (* a call of num_simplices_by_dimension() *)

Definition is_empty (st : state) : bool := is_nil (tree st).
Definition exact_dim (st : state) : Z := height_t (Node (tree st)).

(* lower_upper_bound_dimension (line 2278) *)
Definition lower_ub (st : state) : state :=
  let m := exact_dim st in
  mk (tree st) (if dim_ub st <=? m then dim_ub st else m) false.
Definition dimension (st : state) : state * Z :=
  let st' := if dirty st then lower_ub st else st in (st', dim_ub st').

(* num_simplices_by_dimension (line 839); None = out-of-bounds write (cached bound below the real dimension) *)
Fixpoint counts_t (t : trie) (d : nat) (acc : list Z) : option (list Z) :=
  match t with
  | Node l => fold_left (fun o e => let '(x, w, c) := e in
                                    match o with
                                    | None => None
                                    | Some a => if (d <? length a)%nat
                                                then counts_t c (S d) (firstn d a ++ [nth d a 0 + 1] ++ skipn (S d) a)
                                                else None
                                    end) l (Some acc)
  end.
Fixpoint strip_zeros (r : list Z) : list Z :=      (* r reversed: pop_back while back() == 0 *)
  match r with 0 :: r' => strip_zeros r' | _ => r end.
Definition count_by_dim (st : state) : state * option (list Z) :=
  if is_empty st then (st, Some [])
  else
    match counts_t (Node (tree st)) 0 (repeat 0 (Z.to_nat (Z.min (dim_ub st + 1) 41))) with
    | None => (st, None)
    | Some res =>
        if dirty st then
          let res' := rev (strip_zeros (rev res)) in
          (mk (tree st) (Z.of_nat (length res') - 1) false, Some res')
        else (st, Some res)
    end.

Definition trie_of_cplx (K : cplx) : sibs := fold_left (fun l p => ins_raw (fst p) (snd p) l) K [].

Definition step (fx : bool) (st : state) (o : op) : state :=
  match o with
  | OInsert s0 v =>
      let s := norm s0 in
      let newly := negb (is_some (find s (tree st))) in
      mk (ins_raw s v (tree st)) (if newly && (dim_ub st <? sdim s) then sdim s else dim_ub st) (dirty st)
  | OInsertSub s0 v =>
      let s := norm s0 in
      match s with
      | [] => st
      | _ => mk (fst (ins_sub s v (tree st))) (Z.max (dim_ub st) (sdim s)) (dirty st)
      end
  | OBatch vs v =>
      let t := ins_batch vs v (tree st) in
      mk t (if (dim_ub st <? 0) && negb (is_nil t) then 0 else dim_ub st) (dirty st)
  | OGraph vw es =>
      match vw with
      | [] => st
      | _ => mk (ins_graph vw es) (if is_nil es then 0 else 1) (dirty st)
      end
  | ORemove s0 =>
      let s := norm s0 in
      let '(t, e) := rm_max s (tree st) true in
      mk t (if fx && is_nil t then -1 else dim_ub st) (dirty st || e)
  | OPruneF f =>
      let t := kids (prune_f f (Node (tree st))) in
      mk t (dim_ub st) (dirty st || negb (size_t (Node t) =? size_t (Node (tree st))))
  | OPruneD d =>
      if dim_ub st <=? d then st
      else if d <? 0 then
             (if is_nil (tree st) then st else mk [] (-1) (dirty st))
           else
             let t := kids (trunc (Node (tree st)) (Z.to_nat d)) in
             if size_t (Node t) =? size_t (Node (tree st)) then st else mk t d (dirty st)
  | OClear => mk [] (-1) false
  | OExpand d =>
      if d <=? 1 then st
      else if fx && is_nil (tree st) then st
      else
        let t := trie_of_cplx (spec_expand (abs (tree st)) d) in
        mk t (if is_nil t then 0 else height_t (Node t)) (dirty st)
  | ODim => fst (dimension st)
  | OCount => fst (count_by_dim st)
  end.
Definition run (fx : bool) (ops : list op) : state := fold_left (step fx) ops empty_state.

(* return values of the mutating calls: (pair.second, handle not null) for the insertions, "modified" for prunings *)
Definition ret_insert (st : state) (s0 : list Z) (v : V) : bool * bool :=
  let s := norm s0 in
  match find s (tree st) with
  | None => (true, true)
  | Some (w, _) => (false, v <? w)
  end.
Definition ret_modified (st st' : state) : bool := negb (size_t (Node (tree st)) =? size_t (Node (tree st'))).

(* operator== against a tree rebuilt from the enumeration: the rebuilt tree has the exact dimension and is not dirty *)
Definition eq_rebuilt (st : state) : bool := negb (negb (dim_ub st =? exact_dim st) && negb (dirty st)).
Definition eq_empty (st : state) : bool := negb (negb (dim_ub st =? -1) && negb (dirty st)) && is_nil (tree st).

(* ---- the specification run ---- *)
Definition spec_step (K : cplx) (o : op) : cplx :=
  match o with
  | OInsert s v => spec_insert K (norm s) v
  | OInsertSub s v => spec_insert_closure K (norm s) v
  | OBatch vs v => spec_batch K vs v
  | OGraph vw es => match vw with [] => K | _ => spec_graph vw es end
  | ORemove s => spec_remove K (norm s)
  | OPruneF f => spec_prune_filt K f
  | OPruneD d => spec_prune_dim K (Z.max d (-1))
  | OClear => []
  | OExpand d => if d <=? 1 then K else spec_expand K d
  | ODim => K
  | OCount => K
  end.
Definition spec_run (ops : list op) : cplx := fold_left spec_step ops [].

(* documented preconditions of one operation in the abstract state K, and the invariant "closed and monotone" *)
Definition good (K : cplx) : bool := closedb K && monob K.
Definition has_coface (K : cplx) (s : simplex) : bool := existsb (fun t => subseq s t && negb (seqb s t)) (keys K).
Definition pre_op (K : cplx) (o : op) : bool :=
  match o with
  | OInsert s v => negb (is_nil s) && (Z.of_nat (length (norm s)) =? Z.of_nat (length s)) && negb (existsb (Z.eqb (-1)) s)
  | OInsertSub s v => negb (existsb (Z.eqb (-1)) s)
  | OBatch vs v => negb (existsb (Z.eqb (-1)) vs)
  | OGraph vw es => is_nil K && forallb (fun e => let '(u, v, _) := e in
                                                  negb (u =? v) && (0 <=? u) && (0 <=? v)
                                                  && (u <? Z.of_nat (length vw)) && (v <? Z.of_nat (length vw))) es
  | ORemove s => cmem K (norm s) && negb (has_coface K (norm s))
  | OExpand d => cdim K <=? 1
  | _ => true
  end.
(* a history is ok when every operation meets its precondition and leaves a closed, monotone complex *)
Fixpoint ok_from (K : cplx) (ops : list op) : bool :=
  match ops with
  | [] => true
  | o :: r => pre_op K o && good (spec_step K o) && ok_from (spec_step K o) r
  end.
Definition ok_history (ops : list op) : bool := ok_from [] ops.
