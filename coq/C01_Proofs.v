(* C01_Proofs.v - facts about the trie model (Trie.v, C01_Model.v) and its refinement of the abstract complex. *)
From Coq Require Import ZArith List Lia Bool ZifyBool Permutation.
Import ListNotations.
Require Import Simplex Trie C01_Model.
Local Open Scope Z_scope.

(* ------------------------------------------------------------------------------------------------ one Siblings *)
Ltac zcmp x y := let E := fresh "E" in destruct (Z.compare_spec x y) as [E|E|E].
Lemma get_put_same x w c l : get x (put x w c l) = Some (w, c).
Proof.
  induction l as [|[[y w'] c'] r IH]; cbn [put get].
  - rewrite Z.compare_refl; reflexivity.
  - zcmp x y; cbn [get]; rewrite ?Z.compare_refl; auto. zcmp x y; auto; lia.
Qed.
Lemma get_put_other x y w c l : y <> x -> get y (put x w c l) = get y l.
Proof.
  intro Hne. induction l as [|[[z w'] c'] r IH]; cbn [put get].
  - zcmp y x; auto; lia.
  - zcmp x z; cbn [get].
    + subst z. zcmp y x; auto; lia.
    + zcmp y x; try lia; zcmp y z; auto; lia.
    + zcmp y z; auto.
Qed.

Lemma lb_sibs_get_none x l : lb_sibs x l -> get x l = None.
Proof.
  destruct l as [|[[y w] c] r]; cbn; auto. intros [H _]. unfold label in H; cbn in H.
  assert (x ?= y = Lt) as -> by (apply Z.compare_lt_iff; lia). reflexivity.
Qed.
Lemma lb_sibs_weaken x y l : x <= y -> lb_sibs y l -> lb_sibs x l.
Proof. induction l as [|e r IH]; cbn; auto. intros H [H1 H2]; split; [lia | auto]. Qed.

Lemma wf_nil : wf [].
Proof. exact I. Qed.
Lemma wf_cons x w c r : wf ((x, w, c) :: r) <-> lb_sibs x r /\ wf_t c /\ wf r.
Proof. unfold wf; cbn; tauto. Qed.
Lemma wf_t_node l : wf_t (Node l) = wf l.
Proof. reflexivity. Qed.
Global Opaque wf.

Lemma lb_sibs_tail x w c r : wf ((x, w, c) :: r) -> forall y, y <= x -> lb_sibs y r.
Proof. intros H y Hy. apply wf_cons in H as (H & _ & _). eapply lb_sibs_weaken; eauto. Qed.

Lemma get_del_same x l : wf l -> get x (del x l) = None.
Proof.
  induction l as [|[[y w] c] r IH]; intro H; cbn [del get]; auto.
  apply wf_cons in H as (Hlb & Hc & Hr).
  zcmp x y; cbn [get].
  - subst. apply lb_sibs_get_none; auto.
  - zcmp x y; auto; lia.
  - zcmp x y; auto; lia.
Qed.

Lemma lb_sibs_get_lt x y l : lb_sibs x l -> y <= x -> get y l = None.
Proof. intros H Hy. apply lb_sibs_get_none. eapply lb_sibs_weaken; eauto. Qed.

Lemma get_del_other x y l : wf l -> y <> x -> get y (del x l) = get y l.
Proof.
  intros Hwf Hne. induction l as [|[[z w] c] r IH]; cbn [del get]; auto.
  apply wf_cons in Hwf as (Hlb & Hc & Hr).
  zcmp x z; cbn [get]; auto.
  - subst z. zcmp y x; auto; try lia.
    apply lb_sibs_get_lt with (x := x); auto; lia.
  - zcmp y z; auto.
Qed.

Lemma lb_sibs_put y x w c l : y < x -> lb_sibs y l -> lb_sibs y (put x w c l).
Proof.
  intros Hy. induction l as [|[[z w'] c'] r IH]; cbn [put lb_sibs]; unfold label; cbn [fst].
  - auto.
  - intros [H1 H2]. zcmp x z; cbn [lb_sibs]; unfold label; cbn [fst]; auto.
Qed.
Lemma lb_sibs_del y x l : lb_sibs y l -> lb_sibs y (del x l).
Proof.
  induction l as [|[[z w'] c'] r IH]; cbn [del lb_sibs]; auto.
  intros [H1 H2]. zcmp x z; cbn [lb_sibs]; auto.
Qed.

Lemma wf_put x w c l : wf l -> wf_t c -> wf (put x w c l).
Proof.
  intros Hwf Hc. induction l as [|[[z w'] c'] r IH]; cbn [put].
  - apply wf_cons. split; [|split]; auto; try apply wf_nil; exact I.
  - pose proof Hwf as Hwf0. apply wf_cons in Hwf as (Hlb & Hc' & Hr).
    zcmp x z.
    + subst z. apply wf_cons; auto.
    + apply wf_cons. split; [|split]; auto.
      cbn [lb_sibs]; unfold label; cbn [fst]. split; [lia|]. eapply lb_sibs_weaken; [|eauto]. lia.
    + apply wf_cons. split; [|split]; auto. apply lb_sibs_put; auto.
Qed.
Lemma wf_del x l : wf l -> wf (del x l).
Proof.
  induction l as [|[[z w'] c'] r IH]; intro Hwf; cbn [del]; auto.
  pose proof Hwf as Hwf0. apply wf_cons in Hwf as (Hlb & Hc' & Hr).
  zcmp x z; auto. apply wf_cons. split; [|split]; auto. apply lb_sibs_del; auto.
Qed.
Lemma wf_get x l w c : wf l -> get x l = Some (w, c) -> wf_t c.
Proof.
  induction l as [|[[z w'] c'] r IH]; cbn [get]; [discriminate|].
  intros Hwf. apply wf_cons in Hwf as (Hlb & Hc' & Hr).
  zcmp x z; [intro H; inversion H; subst; auto | discriminate | auto].
Qed.

(* ------------------------------------------------------------------------------------------------ find *)
Definition min_opt (o : option V) (v : V) : V := match o with None => v | Some w => Z.min w v end.
Fixpoint prefixb (p s : simplex) : bool :=
  match p, s with
  | [], _ => true
  | x :: p', y :: s' => (x =? y) && prefixb p' s'
  | _ :: _, [] => false
  end.

Lemma find_one x l : find [x] l = get x l.
Proof. reflexivity. Qed.
Lemma find_cons2 x y r l :
  find (x :: y :: r) l = match get x l with Some (_, Node c) => find (y :: r) c | None => None end.
Proof. reflexivity. Qed.
Lemma find_head y t l1 l2 : get y l1 = get y l2 -> find (y :: t) l1 = find (y :: t) l2.
Proof. intro H. destruct t; [exact H | rewrite !find_cons2, H; reflexivity]. Qed.
Lemma find_put_other x y t w c l : y <> x -> find (y :: t) (put x w c l) = find (y :: t) l.
Proof. intro H. apply find_head. apply get_put_other; exact H. Qed.
Lemma find_put_same_one x w c l : find [x] (put x w c l) = Some (w, c).
Proof. rewrite find_one. apply get_put_same. Qed.
Lemma find_put_same_deep x y t w c l : find (x :: y :: t) (put x w (Node c) l) = find (y :: t) c.
Proof. rewrite find_cons2, get_put_same. reflexivity. Qed.
Lemma find_nil_l t : find t [] = None.
Proof. destruct t as [|x [|y r]]; reflexivity. Qed.
Lemma find_val_nil_l t : find_val t [] = None.
Proof. unfold find_val; rewrite find_nil_l; reflexivity. Qed.
(* value of a word below the node x, in terms of the children c of x *)
Lemma find_val_deep x y t l :
  find_val (x :: y :: t) l = match get x l with Some (_, Node c) => find_val (y :: t) c | None => None end.
Proof. unfold find_val. rewrite find_cons2. destruct (get x l) as [[w [c]]|]; reflexivity. Qed.

(* ---- ins_leaf ---- *)
Lemma ins_leaf_get_same x v l :
  get x (fst (ins_leaf x v l)) =
  Some (min_opt (option_map fst (get x l)) v, match get x l with Some (_, c) => c | None => leaf end).
Proof.
  unfold ins_leaf. destruct (get x l) as [[w c]|] eqn:E; cbn [option_map fst min_opt].
  - destruct (v <? w) eqn:Ev; cbn [fst].
    + rewrite get_put_same. f_equal. f_equal. lia.
    + rewrite E. f_equal. f_equal. lia.
  - cbn [fst]. apply get_put_same.
Qed.
Lemma ins_leaf_get_other x y v l : y <> x -> get y (fst (ins_leaf x v l)) = get y l.
Proof.
  intro H. unfold ins_leaf. destruct (get x l) as [[w c]|]; [destruct (v <? w)|]; cbn [fst]; auto using get_put_other.
Qed.
Lemma ins_leaf_res x v l :
  snd (ins_leaf x v l) = false <-> exists w c, get x l = Some (w, c) /\ w <= v.
Proof.
  unfold ins_leaf. destruct (get x l) as [[w c]|].
  - destruct (v <? w) eqn:E; cbn [snd]; split.
    + discriminate.
    + intros (w' & c' & H & Hle). inversion H; subst. lia.
    + intros _. exists w, c. split; auto. lia.
    + reflexivity.
  - cbn [snd]; split; [discriminate | intros (w & c & H & _); discriminate].
Qed.
Lemma wf_ins_leaf x v l : wf l -> wf (fst (ins_leaf x v l)).
Proof.
  intro H. unfold ins_leaf. destruct (get x l) as [[w c]|] eqn:E; [destruct (v <? w)|]; cbn [fst]; auto.
  - apply wf_put; auto. eapply wf_get; eauto.
  - apply wf_put; auto. exact I.
Qed.

(* ---- insert_simplex_raw ---- *)
Lemma ins_raw_one x v l : ins_raw [x] v l = fst (ins_leaf x v l).
Proof. reflexivity. Qed.
Lemma ins_raw_cons2 x y r v l :
  ins_raw (x :: y :: r) v l =
  match get x l with
  | None => put x v (Node (ins_raw (y :: r) v [])) l
  | Some (w, Node c) => put x w (Node (ins_raw (y :: r) v c)) l
  end.
Proof. reflexivity. Qed.

Lemma wf_ins_raw s v : forall l, wf l -> wf (ins_raw s v l).
Proof.
  induction s as [|x [|y r] IH]; intros l H; auto.
  - rewrite ins_raw_one. apply wf_ins_leaf; auto.
  - rewrite ins_raw_cons2. destruct (get x l) as [[w [c]]|] eqn:E.
    + apply wf_put; auto. rewrite wf_t_node. apply IH. rewrite <- wf_t_node. eapply wf_get; eauto.
    + apply wf_put; auto. rewrite wf_t_node. apply IH. apply wf_nil.
Qed.

Lemma prefixb_refl s : prefixb s s = true.
Proof. induction s; cbn; auto. rewrite Z.eqb_refl; auto. Qed.

Theorem find_ins_raw s v : forall l t, s <> [] -> t <> [] ->
  find_val t (ins_raw s v l) =
  if seqb t s then Some (min_opt (find_val t l) v)
  else if prefixb t s && negb (is_some (find_val t l)) then Some v
  else find_val t l.
Proof.
  induction s as [|x [|y r] IH]; intros l t Hs Ht; [congruence| |].
  - (* s = [x] *)
    rewrite ins_raw_one. destruct t as [|z [|z' t']]; [congruence| |].
    + unfold find_val. rewrite !find_one. cbn [seqb prefixb]. rewrite andb_true_r.
      destruct (z =? x) eqn:E.
      * apply Z.eqb_eq in E; subst z. rewrite ins_leaf_get_same. cbn [option_map fst].
        destruct (get x l) as [[w c]|]; reflexivity.
      * apply Z.eqb_neq in E. rewrite ins_leaf_get_other by auto. cbn [andb]. reflexivity.
    + assert (seqb (z :: z' :: t') [x] = false) as -> by (cbn; apply andb_false_r).
      assert (prefixb (z :: z' :: t') [x] = false) as -> by (cbn; apply andb_false_r).
      cbn [andb]. rewrite !find_val_deep.
      destruct (Z.eq_dec z x) as [->|Hne].
      * rewrite ins_leaf_get_same. destruct (get x l) as [[w [c]]|]; cbn [leaf]; auto.
        rewrite find_val_nil_l; reflexivity.
      * rewrite ins_leaf_get_other by auto. reflexivity.
  - (* s = x :: y :: r *)
    rewrite ins_raw_cons2.
    destruct t as [|z [|z' t']]; [congruence| |].
    + (* t = [z] *)
      assert (seqb [z] (x :: y :: r) = false) as -> by (cbn; apply andb_false_r).
      unfold find_val. rewrite !find_one. cbn [prefixb]. rewrite andb_true_r.
      destruct (z =? x) eqn:E.
      * apply Z.eqb_eq in E; subst z.
        destruct (get x l) as [[w [c]]|]; rewrite get_put_same; reflexivity.
      * apply Z.eqb_neq in E. cbn [andb].
        destruct (get x l) as [[w [c]]|]; rewrite get_put_other by auto; reflexivity.
    + (* t = z :: z' :: t' *)
      cbn [seqb prefixb]. destruct (z =? x) eqn:E.
      * apply Z.eqb_eq in E; subst z. cbn [andb].
        rewrite !find_val_deep.
        destruct (get x l) as [[w [c]]|] eqn:Eg; rewrite get_put_same.
        -- rewrite IH by congruence. reflexivity.
        -- rewrite IH by congruence. rewrite find_val_nil_l. reflexivity.
      * apply Z.eqb_neq in E. cbn [andb]. rewrite !find_val_deep.
        destruct (get x l) as [[w [c]]|]; rewrite get_put_other by auto; reflexivity.
Qed.

(* ------------------------------------------------------------------------------------------------ insert_simplex_and_subfaces *)
Definition le_present (l : sibs) (t : simplex) (v : V) : Prop := exists w, find_val t l = Some w /\ w <= v.
(* inserting s at v would change nothing *)
Definition sat (l : sibs) (s : simplex) (v : V) : Prop :=
  forall t, t <> [] -> subseq t s = true -> le_present l t v.
(* what the early exit of rec_insert_simplex_and_subfaces_sorted relies on: among the faces of s, being present with a
   value <= v is inherited by faces.  Holds for every s and v when the complex is closed and the filtration monotone. *)
Definition exit_ok (l : sibs) (s : simplex) (v : V) : Prop :=
  forall t, t <> [] -> subseq t s = true -> le_present l t v -> sat l t v.

Lemma ins_sub_one x v l : ins_sub [x] v l = ins_leaf x v l.
Proof. reflexivity. Qed.
Lemma ins_sub_cons2 x y r v l :
  ins_sub (x :: y :: r) v l =
  let '(w, c) := match get x l with None => (v, []) | Some (w, Node c) => (Z.min w v, c) end in
  let '(c', res) := ins_sub (y :: r) v c in
  let l1 := put x w (Node c') l in
  if res then (fst (ins_sub (y :: r) v l1), res) else (l1, res).
Proof. reflexivity. Qed.

Lemma subseq_nil_r a : subseq a [] = is_nil a.
Proof. destruct a; reflexivity. Qed.
Lemma subseq_cons a x b y :
  subseq (x :: a) (y :: b) = if x =? y then subseq a b else subseq (x :: a) b.
Proof. reflexivity. Qed.
Lemma subseq_incl a : forall b, subseq a b = true -> incl a b.
Proof.
  intros b; revert a; induction b as [|y b IH]; intros a H.
  - rewrite subseq_nil_r in H. destruct a; [intros z [] | discriminate].
  - destruct a as [|x a]; [intros z []|]. rewrite subseq_cons in H.
    destruct (x =? y) eqn:E.
    + apply Z.eqb_eq in E; subst. intros z [<-|Hz]; [left; auto | right; apply (IH a H z Hz)].
    + intros z Hz. right. apply (IH _ H z Hz).
Qed.
Lemma subseq_refl a : subseq a a = true.
Proof. induction a as [|x a IH]; auto. rewrite subseq_cons, Z.eqb_refl; auto. Qed.
Lemma subseq_head_lt x a b : Forall (Z.lt x) b -> subseq (x :: a) b = false.
Proof.
  intro H. destruct (subseq (x :: a) b) eqn:E; auto.
  apply subseq_incl in E. specialize (E x (or_introl eq_refl)).
  rewrite Forall_forall in H. specialize (H x E). lia.
Qed.
Lemma subseq_head_in z t b : subseq (z :: t) b = true -> In z b.
Proof. intro H. apply subseq_incl in H. apply H; left; auto. Qed.

Lemma find_val_one x l : find_val [x] l = option_map fst (get x l).
Proof. reflexivity. Qed.

Theorem find_ins_sub s v : forall l, ssorted s -> s <> [] -> exit_ok l s v ->
  (snd (ins_sub s v l) = false <-> le_present l s v) /\
  (forall t, t <> [] ->
     find_val t (fst (ins_sub s v l)) = if subseq t s then Some (min_opt (find_val t l) v) else find_val t l).
Proof.
  induction s as [|x rest IH]; intros l Hs Hne Hex; [congruence|].
  destruct rest as [|y r].
  - (* s = [x] *)
    rewrite ins_sub_one. split.
    + rewrite ins_leaf_res. unfold le_present. rewrite find_val_one. split.
      * intros (w & c & -> & Hle). exists w; auto.
      * intros (w & H & Hle). destruct (get x l) as [[w' c]|]; [|discriminate]. inversion H; subst. eauto.
    + intros t Ht. destruct t as [|z [|z' t']]; [congruence| |].
      * rewrite subseq_cons, !find_val_one. cbn [subseq].
        destruct (z =? x) eqn:E.
        -- apply Z.eqb_eq in E; subst z. rewrite ins_leaf_get_same. reflexivity.
        -- apply Z.eqb_neq in E. rewrite ins_leaf_get_other by auto. reflexivity.
      * assert (subseq (z :: z' :: t') [x] = false) as ->.
        { rewrite subseq_cons. destruct (z =? x); reflexivity. }
        rewrite !find_val_deep. destruct (Z.eq_dec z x) as [->|Hzx].
        -- rewrite ins_leaf_get_same. destruct (get x l) as [[w [c]]|]; cbn [leaf]; auto.
           rewrite find_val_nil_l; reflexivity.
        -- rewrite ins_leaf_get_other by auto. reflexivity.
  - (* s = x :: y :: r *)
    set (rest := y :: r) in *.
    assert (Hrest : ssorted rest) by (inversion Hs; auto).
    assert (Hall : Forall (Z.lt x) rest) by (inversion Hs; auto).
    assert (Hrne : rest <> []) by (unfold rest; congruence).
    unfold rest. rewrite ins_sub_cons2. fold rest.
    (* the node x: value w, children c *)
    set (wc := match get x l with None => (v, []) | Some (w, Node c) => (Z.min w v, c) end).
    destruct wc as [w c] eqn:Ewc.
    assert (Hdeep : forall t, t <> [] -> find_val (x :: t) l = find_val t c).
    { intros [|z t] Ht; [congruence|]. rewrite find_val_deep. unfold wc in Ewc.
      destruct (get x l) as [[w0 [c0]]|]; inversion Ewc; subst; auto. rewrite find_val_nil_l; auto. }
    assert (Hw : w = min_opt (find_val [x] l) v).
    { rewrite find_val_one. unfold wc in Ewc. destruct (get x l) as [[w0 [c0]]|]; inversion Ewc; subst; reflexivity. }
    assert (Hlp : forall t, t <> [] -> (le_present c t v <-> le_present l (x :: t) v)).
    { intros t Ht. unfold le_present. rewrite Hdeep by auto. tauto. }
    assert (Hexc : exit_ok c rest v).
    { intros t Ht Hsub Hp t' Ht' Hsub'. apply Hlp; auto.
      apply (Hex (x :: t)); [congruence | rewrite subseq_cons, Z.eqb_refl; auto | apply Hlp; auto | congruence |].
      rewrite subseq_cons, Z.eqb_refl; auto. }
    destruct (IH c Hrest Hrne Hexc) as [IHres IHfind].
    destruct (ins_sub rest v c) as [c' res] eqn:Esub. cbn [fst snd] in IHres, IHfind.
    cbv zeta.
    set (l1 := put x w (Node c') l).
    (* faces of rest do not start with x, so they are untouched by the update of node x *)
    assert (Hl1 : forall z t, z <> x -> find_val (z :: t) l1 = find_val (z :: t) l).
    { intros z t Hz. unfold find_val, l1. rewrite find_put_other by auto. reflexivity. }
    assert (Hhead : forall z t, subseq (z :: t) rest = true -> z <> x).
    { intros z t H. apply subseq_head_in in H. rewrite Forall_forall in Hall. specialize (Hall z H). lia. }
    assert (Hxl1 : find_val [x] l1 = Some w).
    { unfold l1. rewrite find_val_one, get_put_same. reflexivity. }
    assert (Hxdeep : forall t, t <> [] -> find_val (x :: t) l1 = find_val t c').
    { intros [|z t] Ht; [congruence|]. unfold l1. rewrite find_val_deep, get_put_same. reflexivity. }
    split.
    + (* the returned handle *)
      assert (snd (if res then (fst (ins_sub rest v l1), res) else (l1, res)) = res) as -> by (destruct res; reflexivity).
      rewrite IHres. apply Hlp; auto.
    + intros t Ht.
      destruct res.
      * (* the simplex was new or lowered: second recursive call on the updated siblings *)
        cbn [fst].
        assert (Hex1 : exit_ok l1 rest v).
        { intros t0 Ht0 Hsub0 Hp0 t1 Ht1 Hsub1.
          destruct t0 as [|z0 t0']; [congruence|]. destruct t1 as [|z1 t1']; [congruence|].
          assert (Hz0 : z0 <> x) by (eapply Hhead; eauto).
          assert (Hz1 : z1 <> x).
          { apply subseq_head_in in Hsub1. apply subseq_incl in Hsub0. specialize (Hsub0 z1 Hsub1).
            rewrite Forall_forall in Hall. specialize (Hall z1 Hsub0). lia. }
          unfold le_present in *. rewrite Hl1 in * by auto.
          apply (Hex (z0 :: t0')); auto; try congruence.
          rewrite subseq_cons. destruct (z0 =? x) eqn:E; [apply Z.eqb_eq in E; congruence | auto]. }
        destruct (IH l1 Hrest Hrne Hex1) as [_ IH2]. rewrite IH2 by auto.
        destruct t as [|z t']; [congruence|]. rewrite subseq_cons.
        destruct (z =? x) eqn:E.
        -- apply Z.eqb_eq in E; subst z. rewrite (subseq_head_lt x t' rest Hall).
           destruct t' as [|z' t''].
           ++ rewrite Hxl1, Hw. reflexivity.
           ++ rewrite Hxdeep, IHfind, Hdeep by congruence. reflexivity.
        -- apply Z.eqb_neq in E. rewrite Hl1 by auto. reflexivity.
      * (* early exit: the full simplex was there with a value <= v *)
        cbn [fst].
        assert (Hsat : sat l (x :: rest) v).
        { apply Hex; [congruence | apply subseq_refl |]. apply Hlp; auto. apply IHres; reflexivity. }
        destruct t as [|z t']; [congruence|]. rewrite subseq_cons.
        destruct (z =? x) eqn:E.
        -- apply Z.eqb_eq in E; subst z. destruct t' as [|z' t''].
           ++ rewrite Hxl1, Hw. reflexivity.
           ++ rewrite Hxdeep, IHfind, Hdeep by congruence. reflexivity.
        -- apply Z.eqb_neq in E. rewrite Hl1 by auto.
           destruct (subseq (z :: t') rest) eqn:Esr; auto.
           destruct (Hsat (z :: t')) as (w' & Hw' & Hle'); [congruence | |].
           { rewrite subseq_cons. destruct (z =? x) eqn:E2; [apply Z.eqb_eq in E2; congruence | auto]. }
           rewrite Hw'. cbn [min_opt]. f_equal. lia.
Qed.
