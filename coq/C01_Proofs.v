(* C01_Proofs.v - facts about the trie model (Trie.v, C01_Model.v) and its refinement of the abstract complex. *)
From Coq Require Import ZArith List Lia Bool ZifyBool Permutation.
Import ListNotations.
Require Import Simplex Trie C01_Model.
Local Open Scope Z_scope.

(* ------------------------------------------------------------------------------------------------ one Siblings *)
Ltac zcmp x y := let E := fresh "E" in destruct (Z.compare_spec x y) as [E|E|E].
Lemma get_put_same x w c l : get x (put x w c l) = Some (w, c).
Proof.
  induction l as [|[[y w'] c'] r IH]; cbn [put get].
  - rewrite Z.compare_refl; reflexivity.
  - zcmp x y; cbn [get]; rewrite ?Z.compare_refl; auto. zcmp x y; auto; lia.
Qed.
Lemma get_put_other x y w c l : y <> x -> get y (put x w c l) = get y l.
Proof.
  intro Hne. induction l as [|[[z w'] c'] r IH]; cbn [put get].
  - zcmp y x; auto; lia.
  - zcmp x z; cbn [get].
    + subst z. zcmp y x; auto; lia.
    + zcmp y x; try lia; zcmp y z; auto; lia.
    + zcmp y z; auto.
Qed.

Lemma lb_sibs_get_none x l : lb_sibs x l -> get x l = None.
Proof.
  destruct l as [|[[y w] c] r]; cbn; auto. intros [H _]. unfold label in H; cbn in H.
  assert (x ?= y = Lt) as -> by (apply Z.compare_lt_iff; lia). reflexivity.
Qed.
Lemma lb_sibs_weaken x y l : x <= y -> lb_sibs y l -> lb_sibs x l.
Proof. induction l as [|e r IH]; cbn; auto. intros H [H1 H2]; split; [lia | auto]. Qed.

Lemma wf_nil : wf [].
Proof. exact I. Qed.
Lemma wf_cons x w c r : wf ((x, w, c) :: r) <-> lb_sibs x r /\ wf_t c /\ wf r.
Proof. unfold wf; cbn; tauto. Qed.
Lemma wf_t_node l : wf_t (Node l) = wf l.
Proof. reflexivity. Qed.
Global Opaque wf.

Lemma lb_sibs_tail x w c r : wf ((x, w, c) :: r) -> forall y, y <= x -> lb_sibs y r.
Proof. intros H y Hy. apply wf_cons in H as (H & _ & _). eapply lb_sibs_weaken; eauto. Qed.

Lemma get_del_same x l : wf l -> get x (del x l) = None.
Proof.
  induction l as [|[[y w] c] r IH]; intro H; cbn [del get]; auto.
  apply wf_cons in H as (Hlb & Hc & Hr).
  zcmp x y; cbn [get].
  - subst. apply lb_sibs_get_none; auto.
  - zcmp x y; auto; lia.
  - zcmp x y; auto; lia.
Qed.

Lemma lb_sibs_get_lt x y l : lb_sibs x l -> y <= x -> get y l = None.
Proof. intros H Hy. apply lb_sibs_get_none. eapply lb_sibs_weaken; eauto. Qed.

Lemma get_del_other x y l : wf l -> y <> x -> get y (del x l) = get y l.
Proof.
  intros Hwf Hne. induction l as [|[[z w] c] r IH]; cbn [del get]; auto.
  apply wf_cons in Hwf as (Hlb & Hc & Hr).
  zcmp x z; cbn [get]; auto.
  - subst z. zcmp y x; auto; try lia.
    apply lb_sibs_get_lt with (x := x); auto; lia.
  - zcmp y z; auto.
Qed.

Lemma lb_sibs_put y x w c l : y < x -> lb_sibs y l -> lb_sibs y (put x w c l).
Proof.
  intros Hy. induction l as [|[[z w'] c'] r IH]; cbn [put lb_sibs]; unfold label; cbn [fst].
  - auto.
  - intros [H1 H2]. zcmp x z; cbn [lb_sibs]; unfold label; cbn [fst]; auto.
Qed.
Lemma lb_sibs_del y x l : lb_sibs y l -> lb_sibs y (del x l).
Proof.
  induction l as [|[[z w'] c'] r IH]; cbn [del lb_sibs]; auto.
  intros [H1 H2]. zcmp x z; cbn [lb_sibs]; auto.
Qed.

Lemma wf_put x w c l : wf l -> wf_t c -> wf (put x w c l).
Proof.
  intros Hwf Hc. induction l as [|[[z w'] c'] r IH]; cbn [put].
  - apply wf_cons. split; [|split]; auto; try apply wf_nil; exact I.
  - pose proof Hwf as Hwf0. apply wf_cons in Hwf as (Hlb & Hc' & Hr).
    zcmp x z.
    + subst z. apply wf_cons; auto.
    + apply wf_cons. split; [|split]; auto.
      cbn [lb_sibs]; unfold label; cbn [fst]. split; [lia|]. eapply lb_sibs_weaken; [|eauto]. lia.
    + apply wf_cons. split; [|split]; auto. apply lb_sibs_put; auto.
Qed.
Lemma wf_del x l : wf l -> wf (del x l).
Proof.
  induction l as [|[[z w'] c'] r IH]; intro Hwf; cbn [del]; auto.
  pose proof Hwf as Hwf0. apply wf_cons in Hwf as (Hlb & Hc' & Hr).
  zcmp x z; auto. apply wf_cons. split; [|split]; auto. apply lb_sibs_del; auto.
Qed.
Lemma wf_get x l w c : wf l -> get x l = Some (w, c) -> wf_t c.
Proof.
  induction l as [|[[z w'] c'] r IH]; cbn [get]; [discriminate|].
  intros Hwf. apply wf_cons in Hwf as (Hlb & Hc' & Hr).
  zcmp x z; [intro H; inversion H; subst; auto | discriminate | auto].
Qed.

(* ------------------------------------------------------------------------------------------------ find *)
Definition min_opt (o : option V) (v : V) : V := match o with None => v | Some w => Z.min w v end.
Fixpoint prefixb (p s : simplex) : bool :=
  match p, s with
  | [], _ => true
  | x :: p', y :: s' => (x =? y) && prefixb p' s'
  | _ :: _, [] => false
  end.

Lemma find_one x l : find [x] l = get x l.
Proof. reflexivity. Qed.
Lemma find_cons2 x y r l :
  find (x :: y :: r) l = match get x l with Some (_, Node c) => find (y :: r) c | None => None end.
Proof. reflexivity. Qed.
Lemma find_head y t l1 l2 : get y l1 = get y l2 -> find (y :: t) l1 = find (y :: t) l2.
Proof. intro H. destruct t; [exact H | rewrite !find_cons2, H; reflexivity]. Qed.
Lemma find_put_other x y t w c l : y <> x -> find (y :: t) (put x w c l) = find (y :: t) l.
Proof. intro H. apply find_head. apply get_put_other; exact H. Qed.
Lemma find_put_same_one x w c l : find [x] (put x w c l) = Some (w, c).
Proof. rewrite find_one. apply get_put_same. Qed.
Lemma find_put_same_deep x y t w c l : find (x :: y :: t) (put x w (Node c) l) = find (y :: t) c.
Proof. rewrite find_cons2, get_put_same. reflexivity. Qed.
Lemma find_nil_l t : find t [] = None.
Proof. destruct t as [|x [|y r]]; reflexivity. Qed.
Lemma find_val_nil_l t : find_val t [] = None.
Proof. unfold find_val; rewrite find_nil_l; reflexivity. Qed.
(* value of a word below the node x, in terms of the children c of x *)
Lemma find_val_deep x y t l :
  find_val (x :: y :: t) l = match get x l with Some (_, Node c) => find_val (y :: t) c | None => None end.
Proof. unfold find_val. rewrite find_cons2. destruct (get x l) as [[w [c]]|]; reflexivity. Qed.

(* ---- ins_leaf ---- *)
Lemma ins_leaf_get_same x v l :
  get x (fst (ins_leaf x v l)) =
  Some (min_opt (option_map fst (get x l)) v, match get x l with Some (_, c) => c | None => leaf end).
Proof.
  unfold ins_leaf. destruct (get x l) as [[w c]|] eqn:E; cbn [option_map fst min_opt].
  - destruct (v <? w) eqn:Ev; cbn [fst].
    + rewrite get_put_same. f_equal. f_equal. lia.
    + rewrite E. f_equal. f_equal. lia.
  - cbn [fst]. apply get_put_same.
Qed.
Lemma ins_leaf_get_other x y v l : y <> x -> get y (fst (ins_leaf x v l)) = get y l.
Proof.
  intro H. unfold ins_leaf. destruct (get x l) as [[w c]|]; [destruct (v <? w)|]; cbn [fst]; auto using get_put_other.
Qed.
Lemma ins_leaf_res x v l :
  snd (ins_leaf x v l) = false <-> exists w c, get x l = Some (w, c) /\ w <= v.
Proof.
  unfold ins_leaf. destruct (get x l) as [[w c]|].
  - destruct (v <? w) eqn:E; cbn [snd]; split.
    + discriminate.
    + intros (w' & c' & H & Hle). inversion H; subst. lia.
    + intros _. exists w, c. split; auto. lia.
    + reflexivity.
  - cbn [snd]; split; [discriminate | intros (w & c & H & _); discriminate].
Qed.
Lemma wf_ins_leaf x v l : wf l -> wf (fst (ins_leaf x v l)).
Proof.
  intro H. unfold ins_leaf. destruct (get x l) as [[w c]|] eqn:E; [destruct (v <? w)|]; cbn [fst]; auto.
  - apply wf_put; auto. eapply wf_get; eauto.
  - apply wf_put; auto. exact I.
Qed.

(* ---- insert_simplex_raw ---- *)
Lemma ins_raw_one x v l : ins_raw [x] v l = fst (ins_leaf x v l).
Proof. reflexivity. Qed.
Lemma ins_raw_cons2 x y r v l :
  ins_raw (x :: y :: r) v l =
  match get x l with
  | None => put x v (Node (ins_raw (y :: r) v [])) l
  | Some (w, Node c) => put x w (Node (ins_raw (y :: r) v c)) l
  end.
Proof. reflexivity. Qed.

Lemma wf_ins_raw s v : forall l, wf l -> wf (ins_raw s v l).
Proof.
  induction s as [|x [|y r] IH]; intros l H; auto.
  - rewrite ins_raw_one. apply wf_ins_leaf; auto.
  - rewrite ins_raw_cons2. destruct (get x l) as [[w [c]]|] eqn:E.
    + apply wf_put; auto. rewrite wf_t_node. apply IH. rewrite <- wf_t_node. eapply wf_get; eauto.
    + apply wf_put; auto. rewrite wf_t_node. apply IH. apply wf_nil.
Qed.

Lemma prefixb_refl s : prefixb s s = true.
Proof. induction s; cbn; auto. rewrite Z.eqb_refl; auto. Qed.

Theorem find_ins_raw s v : forall l t, s <> [] -> t <> [] ->
  find_val t (ins_raw s v l) =
  if seqb t s then Some (min_opt (find_val t l) v)
  else if prefixb t s && negb (is_some (find_val t l)) then Some v
  else find_val t l.
Proof.
  induction s as [|x [|y r] IH]; intros l t Hs Ht; [congruence| |].
  - (* s = [x] *)
    rewrite ins_raw_one. destruct t as [|z [|z' t']]; [congruence| |].
    + unfold find_val. rewrite !find_one. cbn [seqb prefixb]. rewrite andb_true_r.
      destruct (z =? x) eqn:E.
      * apply Z.eqb_eq in E; subst z. rewrite ins_leaf_get_same. cbn [option_map fst].
        destruct (get x l) as [[w c]|]; reflexivity.
      * apply Z.eqb_neq in E. rewrite ins_leaf_get_other by auto. cbn [andb]. reflexivity.
    + assert (seqb (z :: z' :: t') [x] = false) as -> by (cbn; apply andb_false_r).
      assert (prefixb (z :: z' :: t') [x] = false) as -> by (cbn; apply andb_false_r).
      cbn [andb]. rewrite !find_val_deep.
      destruct (Z.eq_dec z x) as [->|Hne].
      * rewrite ins_leaf_get_same. destruct (get x l) as [[w [c]]|]; cbn [leaf]; auto.
        rewrite find_val_nil_l; reflexivity.
      * rewrite ins_leaf_get_other by auto. reflexivity.
  - (* s = x :: y :: r *)
    rewrite ins_raw_cons2.
    destruct t as [|z [|z' t']]; [congruence| |].
    + (* t = [z] *)
      assert (seqb [z] (x :: y :: r) = false) as -> by (cbn; apply andb_false_r).
      unfold find_val. rewrite !find_one. cbn [prefixb]. rewrite andb_true_r.
      destruct (z =? x) eqn:E.
      * apply Z.eqb_eq in E; subst z.
        destruct (get x l) as [[w [c]]|]; rewrite get_put_same; reflexivity.
      * apply Z.eqb_neq in E. cbn [andb].
        destruct (get x l) as [[w [c]]|]; rewrite get_put_other by auto; reflexivity.
    + (* t = z :: z' :: t' *)
      cbn [seqb prefixb]. destruct (z =? x) eqn:E.
      * apply Z.eqb_eq in E; subst z. cbn [andb].
        rewrite !find_val_deep.
        destruct (get x l) as [[w [c]]|] eqn:Eg; rewrite get_put_same.
        -- rewrite IH by congruence. reflexivity.
        -- rewrite IH by congruence. rewrite find_val_nil_l. reflexivity.
      * apply Z.eqb_neq in E. cbn [andb]. rewrite !find_val_deep.
        destruct (get x l) as [[w [c]]|]; rewrite get_put_other by auto; reflexivity.
Qed.

(* ------------------------------------------------------------------------------------------------ insert_simplex_and_subfaces *)
Definition le_present (l : sibs) (t : simplex) (v : V) : Prop := exists w, find_val t l = Some w /\ w <= v.
(* inserting s at v would change nothing *)
Definition sat (l : sibs) (s : simplex) (v : V) : Prop :=
  forall t, t <> [] -> subseq t s = true -> le_present l t v.
(* what the early exit of rec_insert_simplex_and_subfaces_sorted relies on: among the faces of s, being present with a
   value <= v is inherited by faces.  Holds for every s and v when the complex is closed and the filtration monotone. *)
Definition exit_ok (l : sibs) (s : simplex) (v : V) : Prop :=
  forall t, t <> [] -> subseq t s = true -> le_present l t v -> sat l t v.

Lemma ins_sub_one x v l : ins_sub [x] v l = ins_leaf x v l.
Proof. reflexivity. Qed.
Lemma ins_sub_cons2 x y r v l :
  ins_sub (x :: y :: r) v l =
  let '(w, c) := match get x l with None => (v, []) | Some (w, Node c) => (Z.min w v, c) end in
  let '(c', res) := ins_sub (y :: r) v c in
  let l1 := put x w (Node c') l in
  if res then (fst (ins_sub (y :: r) v l1), res) else (l1, res).
Proof. reflexivity. Qed.

Lemma subseq_nil_r a : subseq a [] = is_nil a.
Proof. destruct a; reflexivity. Qed.
Lemma subseq_cons a x b y :
  subseq (x :: a) (y :: b) = if x =? y then subseq a b else subseq (x :: a) b.
Proof. reflexivity. Qed.
Lemma subseq_incl a : forall b, subseq a b = true -> incl a b.
Proof.
  intros b; revert a; induction b as [|y b IH]; intros a H.
  - rewrite subseq_nil_r in H. destruct a; [intros z [] | discriminate].
  - destruct a as [|x a]; [intros z []|]. rewrite subseq_cons in H.
    destruct (x =? y) eqn:E.
    + apply Z.eqb_eq in E; subst. intros z [<-|Hz]; [left; auto | right; apply (IH a H z Hz)].
    + intros z Hz. right. apply (IH _ H z Hz).
Qed.
Lemma subseq_refl a : subseq a a = true.
Proof. induction a as [|x a IH]; auto. rewrite subseq_cons, Z.eqb_refl; auto. Qed.
Lemma subseq_head_lt x a b : Forall (Z.lt x) b -> subseq (x :: a) b = false.
Proof.
  intro H. destruct (subseq (x :: a) b) eqn:E; auto.
  apply subseq_incl in E. specialize (E x (or_introl eq_refl)).
  rewrite Forall_forall in H. specialize (H x E). lia.
Qed.
Lemma subseq_head_in z t b : subseq (z :: t) b = true -> In z b.
Proof. intro H. apply subseq_incl in H. apply H; left; auto. Qed.

Lemma find_val_one x l : find_val [x] l = option_map fst (get x l).
Proof. reflexivity. Qed.

Theorem find_ins_sub s v : forall l, ssorted s -> s <> [] -> exit_ok l s v ->
  (snd (ins_sub s v l) = false <-> le_present l s v) /\
  (forall t, t <> [] ->
     find_val t (fst (ins_sub s v l)) = if subseq t s then Some (min_opt (find_val t l) v) else find_val t l).
Proof.
  induction s as [|x rest IH]; intros l Hs Hne Hex; [congruence|].
  destruct rest as [|y r].
  - (* s = [x] *)
    rewrite ins_sub_one. split.
    + rewrite ins_leaf_res. unfold le_present. rewrite find_val_one. split.
      * intros (w & c & -> & Hle). exists w; auto.
      * intros (w & H & Hle). destruct (get x l) as [[w' c]|]; [|discriminate]. inversion H; subst. eauto.
    + intros t Ht. destruct t as [|z [|z' t']]; [congruence| |].
      * rewrite subseq_cons, !find_val_one. cbn [subseq].
        destruct (z =? x) eqn:E.
        -- apply Z.eqb_eq in E; subst z. rewrite ins_leaf_get_same. reflexivity.
        -- apply Z.eqb_neq in E. rewrite ins_leaf_get_other by auto. reflexivity.
      * assert (subseq (z :: z' :: t') [x] = false) as ->.
        { rewrite subseq_cons. destruct (z =? x); reflexivity. }
        rewrite !find_val_deep. destruct (Z.eq_dec z x) as [->|Hzx].
        -- rewrite ins_leaf_get_same. destruct (get x l) as [[w [c]]|]; cbn [leaf]; auto.
           rewrite find_val_nil_l; reflexivity.
        -- rewrite ins_leaf_get_other by auto. reflexivity.
  - (* s = x :: y :: r *)
    set (rest := y :: r) in *.
    assert (Hrest : ssorted rest) by (inversion Hs; auto).
    assert (Hall : Forall (Z.lt x) rest) by (inversion Hs; auto).
    assert (Hrne : rest <> []) by (unfold rest; congruence).
    unfold rest. rewrite ins_sub_cons2. fold rest.
    (* the node x: value w, children c *)
    set (wc := match get x l with None => (v, []) | Some (w, Node c) => (Z.min w v, c) end).
    destruct wc as [w c] eqn:Ewc.
    assert (Hdeep : forall t, t <> [] -> find_val (x :: t) l = find_val t c).
    { intros [|z t] Ht; [congruence|]. rewrite find_val_deep. unfold wc in Ewc.
      destruct (get x l) as [[w0 [c0]]|]; inversion Ewc; subst; auto. rewrite find_val_nil_l; auto. }
    assert (Hw : w = min_opt (find_val [x] l) v).
    { rewrite find_val_one. unfold wc in Ewc. destruct (get x l) as [[w0 [c0]]|]; inversion Ewc; subst; reflexivity. }
    assert (Hlp : forall t, t <> [] -> (le_present c t v <-> le_present l (x :: t) v)).
    { intros t Ht. unfold le_present. rewrite Hdeep by auto. tauto. }
    assert (Hexc : exit_ok c rest v).
    { intros t Ht Hsub Hp t' Ht' Hsub'. apply Hlp; auto.
      apply (Hex (x :: t)); [congruence | rewrite subseq_cons, Z.eqb_refl; auto | apply Hlp; auto | congruence |].
      rewrite subseq_cons, Z.eqb_refl; auto. }
    destruct (IH c Hrest Hrne Hexc) as [IHres IHfind].
    destruct (ins_sub rest v c) as [c' res] eqn:Esub. cbn [fst snd] in IHres, IHfind.
    cbv zeta.
    set (l1 := put x w (Node c') l).
    (* faces of rest do not start with x, so they are untouched by the update of node x *)
    assert (Hl1 : forall z t, z <> x -> find_val (z :: t) l1 = find_val (z :: t) l).
    { intros z t Hz. unfold find_val, l1. rewrite find_put_other by auto. reflexivity. }
    assert (Hhead : forall z t, subseq (z :: t) rest = true -> z <> x).
    { intros z t H. apply subseq_head_in in H. rewrite Forall_forall in Hall. specialize (Hall z H). lia. }
    assert (Hxl1 : find_val [x] l1 = Some w).
    { unfold l1. rewrite find_val_one, get_put_same. reflexivity. }
    assert (Hxdeep : forall t, t <> [] -> find_val (x :: t) l1 = find_val t c').
    { intros [|z t] Ht; [congruence|]. unfold l1. rewrite find_val_deep, get_put_same. reflexivity. }
    split.
    + (* the returned handle *)
      assert (snd (if res then (fst (ins_sub rest v l1), res) else (l1, res)) = res) as -> by (destruct res; reflexivity).
      rewrite IHres. apply Hlp; auto.
    + intros t Ht.
      destruct res.
      * (* the simplex was new or lowered: second recursive call on the updated siblings *)
        cbn [fst].
        assert (Hex1 : exit_ok l1 rest v).
        { intros t0 Ht0 Hsub0 Hp0 t1 Ht1 Hsub1.
          destruct t0 as [|z0 t0']; [congruence|]. destruct t1 as [|z1 t1']; [congruence|].
          assert (Hz0 : z0 <> x) by (eapply Hhead; eauto).
          assert (Hz1 : z1 <> x).
          { apply subseq_head_in in Hsub1. apply subseq_incl in Hsub0. specialize (Hsub0 z1 Hsub1).
            rewrite Forall_forall in Hall. specialize (Hall z1 Hsub0). lia. }
          unfold le_present in *. rewrite Hl1 in * by auto.
          apply (Hex (z0 :: t0')); auto; try congruence.
          rewrite subseq_cons. destruct (z0 =? x) eqn:E; [apply Z.eqb_eq in E; congruence | auto]. }
        destruct (IH l1 Hrest Hrne Hex1) as [_ IH2]. rewrite IH2 by auto.
        destruct t as [|z t']; [congruence|]. rewrite subseq_cons.
        destruct (z =? x) eqn:E.
        -- apply Z.eqb_eq in E; subst z. rewrite (subseq_head_lt x t' rest Hall).
           destruct t' as [|z' t''].
           ++ rewrite Hxl1, Hw. reflexivity.
           ++ rewrite Hxdeep, IHfind, Hdeep by congruence. reflexivity.
        -- apply Z.eqb_neq in E. rewrite Hl1 by auto. reflexivity.
      * (* early exit: the full simplex was there with a value <= v *)
        cbn [fst].
        assert (Hsat : sat l (x :: rest) v).
        { apply Hex; [congruence | apply subseq_refl |]. apply Hlp; auto. apply IHres; reflexivity. }
        destruct t as [|z t']; [congruence|]. rewrite subseq_cons.
        destruct (z =? x) eqn:E.
        -- apply Z.eqb_eq in E; subst z. destruct t' as [|z' t''].
           ++ rewrite Hxl1, Hw. reflexivity.
           ++ rewrite Hxdeep, IHfind, Hdeep by congruence. reflexivity.
        -- apply Z.eqb_neq in E. rewrite Hl1 by auto.
           destruct (subseq (z :: t') rest) eqn:Esr; auto.
           destruct (Hsat (z :: t')) as (w' & Hw' & Hle'); [congruence | |].
           { rewrite subseq_cons. destruct (z =? x) eqn:E2; [apply Z.eqb_eq in E2; congruence | auto]. }
           rewrite Hw'. cbn [min_opt]. f_equal. lia.
Qed.

Lemma wf_ins_sub s v : forall l, wf l -> wf (fst (ins_sub s v l)).
Proof.
  induction s as [|x rest IH]; intros l H; auto.
  destruct rest as [|y r].
  - rewrite ins_sub_one. apply wf_ins_leaf; auto.
  - rewrite ins_sub_cons2.
    assert (Hc : exists w c, match get x l with None => (v, []) | Some (w, Node c) => (Z.min w v, c) end = (w, c) /\ wf c).
    { destruct (get x l) as [[w0 [c0]]|] eqn:E; eexists _, _; split; eauto.
      - rewrite <- wf_t_node. eapply wf_get; eauto.
      - apply wf_nil. }
    destruct Hc as (w & c & -> & Hwc).
    pose proof (IH c Hwc) as Hc'. destruct (ins_sub (y :: r) v c) as [c' res]. cbn [fst] in Hc'. cbv zeta.
    assert (Hl1 : wf (put x w (Node c') l)) by (apply wf_put; auto).
    destruct res; cbn [fst]; auto.
Qed.

(* ---- insert_batch_vertices ---- *)
Lemma wf_ins_batch vs v : forall l, wf l -> wf (ins_batch vs v l).
Proof.
  unfold ins_batch. induction vs as [|x vs IH]; intros l H; cbn [fold_left]; auto.
  apply IH. destruct (get x l); auto. apply wf_put; auto. exact I.
Qed.
Lemma find_ins_batch vs v : forall l t, t <> [] ->
  find_val t (ins_batch vs v l) =
  match t with
  | [x] => if existsb (Z.eqb x) vs then Some (min_opt None (match find_val t l with Some w => w | None => v end)) else find_val t l
  | _ => find_val t l
  end.
Proof.
  unfold ins_batch. induction vs as [|x vs IH]; intros l t Ht; cbn [fold_left existsb].
  - destruct t as [|z [|z' t']]; reflexivity.
  - rewrite IH by auto. destruct t as [|z [|z' t']]; [congruence| |].
    + rewrite !find_val_one. cbn [min_opt].
      destruct (z =? x) eqn:E.
      * apply Z.eqb_eq in E; subst z. cbn [orb].
        destruct (get x l) as [[w c]|] eqn:Eg.
        -- rewrite Eg. cbn [option_map fst]. destruct (existsb (Z.eqb x) vs); reflexivity.
        -- rewrite get_put_same. cbn [option_map fst]. destruct (existsb (Z.eqb x) vs); reflexivity.
      * apply Z.eqb_neq in E. cbn [orb].
        destruct (get x l) as [[w c]|] eqn:Eg; [reflexivity|]. rewrite get_put_other by auto. reflexivity.
    + destruct (get x l) as [[w c]|] eqn:Eg; [reflexivity|].
      rewrite !find_val_deep. destruct (Z.eq_dec z x) as [->|Hzx].
      * rewrite get_put_same, Eg. cbn [leaf]. apply find_val_nil_l.
      * rewrite get_put_other by auto. reflexivity.
Qed.

(* ---- remove_maximal_simplex ---- *)
Lemma rm_max_one x l a : rm_max [x] l a = (del x l, negb a && (Z.of_nat (length l) <=? 1)).
Proof. reflexivity. Qed.
Lemma rm_max_cons2 x y r l a :
  rm_max (x :: y :: r) l a =
  match get x l with
  | None => (l, false)
  | Some (w, Node c) => let '(c', e) := rm_max (y :: r) c false in (put x w (Node c') l, e)
  end.
Proof. reflexivity. Qed.
Lemma wf_rm_max s : forall l a, wf l -> wf (fst (rm_max s l a)).
Proof.
  induction s as [|x [|y r] IH]; intros l a H; auto.
  - rewrite rm_max_one. cbn [fst]. apply wf_del; auto.
  - rewrite rm_max_cons2. destruct (get x l) as [[w [c]]|] eqn:E; auto.
    assert (Hc : wf c) by (rewrite <- wf_t_node; eapply wf_get; eauto).
    specialize (IH c false Hc). destruct (rm_max (y :: r) c false) as [c' e]. cbn [fst] in *.
    apply wf_put; auto.
Qed.
(* the node of s goes away with everything below it; nothing else changes *)
Theorem find_rm_max s : forall l a t, wf l -> s <> [] -> t <> [] -> find_val s l <> None ->
  find_val t (fst (rm_max s l a)) = if prefixb s t then None else find_val t l.
Proof.
  induction s as [|x [|y r] IH]; intros l a t Hwf Hs Ht Hin; [congruence| |].
  - rewrite rm_max_one. cbn [fst]. destruct t as [|z [|z' t']]; [congruence| |].
    + rewrite !find_val_one. cbn [prefixb]. rewrite andb_true_r. destruct (x =? z) eqn:E.
      * apply Z.eqb_eq in E; subst z. rewrite get_del_same; auto.
      * apply Z.eqb_neq in E. rewrite get_del_other by auto. reflexivity.
    + rewrite !find_val_deep. cbn [prefixb]. rewrite andb_true_r. destruct (x =? z) eqn:E.
      * apply Z.eqb_eq in E; subst z. rewrite get_del_same; auto.
      * apply Z.eqb_neq in E. rewrite get_del_other by auto. reflexivity.
  - rewrite rm_max_cons2. rewrite find_val_deep in Hin.
    destruct (get x l) as [[w [c]]|] eqn:E; [|congruence].
    assert (Hc : wf c) by (rewrite <- wf_t_node; eapply wf_get; eauto).
    specialize (IH c false).
    destruct (rm_max (y :: r) c false) as [c' e]. cbn [fst] in *.
    destruct t as [|z [|z' t']]; [congruence| |].
    + cbn [prefixb]. rewrite andb_false_r. rewrite !find_val_one.
      destruct (Z.eq_dec z x) as [->|Hzx].
      * rewrite get_put_same, E. reflexivity.
      * rewrite get_put_other by auto. reflexivity.
    + cbn [prefixb]. rewrite !find_val_deep.
      destruct (x =? z) eqn:Exz.
      * apply Z.eqb_eq in Exz; subst z. rewrite get_put_same, E. cbn [andb].
        rewrite IH by (auto; congruence). reflexivity.
      * apply Z.eqb_neq in Exz. rewrite get_put_other by auto. reflexivity.
Qed.

(* ------------------------------------------------------------------------------------------------ specification side *)
Lemma nil_in_sublists b : In [] (sublists b).
Proof. induction b as [|y b IH]; cbn [sublists]; [left; auto | apply in_or_app; right; auto]. Qed.
Lemma subseq_tail : forall b x a, subseq (x :: a) b = true -> subseq a b = true.
Proof.
  induction b as [|y b IH]; intros x a H; [discriminate|].
  rewrite subseq_cons in H. destruct a as [|z a']; auto. rewrite subseq_cons.
  destruct (x =? y).
  - destruct (z =? y); [apply (IH _ _ H) | exact H].
  - pose proof (IH _ _ H) as H1. destruct (z =? y); [apply (IH _ _ H1) | exact H1].
Qed.
Lemma subseq_cons_r a b y : subseq a b = true -> subseq a (y :: b) = true.
Proof.
  intro H. destruct a as [|z a']; auto. rewrite subseq_cons. destruct (z =? y); auto.
  eapply subseq_tail; eauto.
Qed.
Lemma subseq_sublists : forall b a, subseq a b = true <-> In a (sublists b).
Proof.
  induction b as [|y b IH]; intros a.
  - rewrite subseq_nil_r. destruct a; cbn; split; auto; try discriminate. intros [H|[]]; discriminate.
  - cbn [sublists]. rewrite in_app_iff, in_map_iff. split.
    + destruct a as [|x a']; [intros _; right; apply nil_in_sublists|].
      rewrite subseq_cons. destruct (x =? y) eqn:E.
      * apply Z.eqb_eq in E; subst. intro H. left. exists a'. split; auto. apply IH; auto.
      * intro H. right. apply IH; auto.
    + intros [(a' & <- & H)|H].
      * rewrite subseq_cons, Z.eqb_refl. apply IH; auto.
      * apply subseq_cons_r. apply IH; auto.
Qed.
Lemma in_faces t s : In t (faces s) <-> t <> [] /\ subseq t s = true.
Proof.
  unfold faces. rewrite filter_In, <- subseq_sublists. destruct t; cbn; split; intros [H1 H2]; split; auto; congruence.
Qed.
Lemma prefixb_subseq : forall p s, prefixb p s = true -> subseq p s = true.
Proof.
  induction p as [|x p IH]; intros [|y s] H; auto; try discriminate.
  cbn [prefixb] in H. apply andb_true_iff in H as [H1 H2]. rewrite subseq_cons, H1. auto.
Qed.

Lemma lookup_in K t w : lookup K t = Some w -> In (t, w) K.
Proof.
  induction K as [|[u x] r IH]; cbn [lookup]; [discriminate|].
  destruct (seqb u t) eqn:E.
  - apply seqb_eq in E; subst. intro H; inversion H; left; auto.
  - intro H; right; auto.
Qed.

Lemma lookup_fold_insert v L : forall K t,
  lookup (fold_left (fun K t => spec_insert K t v) L K) t =
  if existsb (seqb t) L then Some (min_opt (lookup K t) v) else lookup K t.
Proof.
  induction L as [|u L IH]; intros K t; cbn [fold_left existsb]; auto.
  rewrite IH. destruct (seqb t u) eqn:E.
  - apply seqb_eq in E; subst u. cbn [orb]. rewrite spec_insert_same.
    destruct (existsb (seqb t) L); destruct (lookup K t); cbn [min_opt]; f_equal; lia.
  - cbn [orb]. rewrite spec_insert_other; auto. intro; subst; rewrite seqb_refl in E; discriminate.
Qed.
Lemma existsb_faces t s : existsb (seqb t) (faces s) = negb (is_nil t) && subseq t s.
Proof.
  destruct (existsb (seqb t) (faces s)) eqn:E.
  - apply existsb_exists in E as (u & Hu & Heq). apply seqb_eq in Heq; subst u.
    apply in_faces in Hu as [H1 H2]. rewrite H2. destruct t; [congruence | reflexivity].
  - destruct t as [|x t']; auto. cbn [is_nil negb andb].
    destruct (subseq (x :: t') s) eqn:E2; auto.
    assert (In (x :: t') (faces s)) by (apply in_faces; split; [congruence | auto]).
    assert (existsb (seqb (x :: t')) (faces s) = true) by (apply existsb_exists; eexists; split; eauto; apply seqb_refl).
    congruence.
Qed.
Theorem lookup_insert_closure K s v t : t <> [] ->
  lookup (spec_insert_closure K s v) t = if subseq t s then Some (min_opt (lookup K t) v) else lookup K t.
Proof.
  intro Ht. unfold spec_insert_closure. rewrite lookup_fold_insert, existsb_faces.
  destruct t; [congruence | reflexivity].
Qed.
Lemma lookup_batch vs v : forall K t,
  lookup (spec_batch K vs v) t =
  match t with
  | [x] => if existsb (Z.eqb x) vs then Some (min_opt None (match lookup K t with Some w => w | None => v end)) else lookup K t
  | _ => lookup K t
  end.
Proof.
  unfold spec_batch. induction vs as [|x vs IH]; intros K t; cbn [fold_left existsb].
  - destruct t as [|z [|z' t']]; reflexivity.
  - rewrite IH. destruct t as [|z [|z' t']].
    + destruct (lookup K [x]); auto. apply lookup_cset_other; congruence.
    + cbn [min_opt]. destruct (z =? x) eqn:E.
      * apply Z.eqb_eq in E; subst z. cbn [orb]. destruct (lookup K [x]) eqn:El.
        -- rewrite El. destruct (existsb (Z.eqb x) vs); reflexivity.
        -- rewrite lookup_cset_same. destruct (existsb (Z.eqb x) vs); reflexivity.
      * apply Z.eqb_neq in E. cbn [orb]. destruct (lookup K [x]); auto.
        rewrite lookup_cset_other by congruence. reflexivity.
    + destruct (lookup K [x]); auto. apply lookup_cset_other; congruence.
Qed.

(* ---- norm = std::sort + std::unique ---- *)
Lemma sins_in x y s : In y (sins x s) <-> y = x \/ In y s.
Proof.
  induction s as [|z s IH]; cbn [sins].
  - cbn; intuition.
  - zcmp x z; cbn [In]; [subst | | rewrite IH]; intuition.
Qed.
Lemma sins_sorted x s : ssorted s -> ssorted (sins x s).
Proof.
  unfold ssorted. induction 1 as [|z s Hs IH Hall]; cbn [sins].
  - constructor; constructor.
  - zcmp x z.
    + constructor; auto.
    + constructor; [constructor; auto|]. constructor; auto.
      rewrite Forall_forall in *. intros u Hu. specialize (Hall u Hu). lia.
    + constructor; auto. rewrite Forall_forall in *. intros u Hu. apply sins_in in Hu as [->|Hu]; auto; try lia.
Qed.
Lemma norm_sorted l : ssorted (norm l).
Proof. induction l; cbn; [constructor | apply sins_sorted; auto]. Qed.
Lemma sins_nonnil x s : sins x s <> [].
Proof. destruct s as [|z s]; cbn [sins]; [congruence|]. destruct (x ?= z); congruence. Qed.
Lemma norm_nonnil l : l <> [] -> norm l <> [].
Proof. destruct l; [congruence|]. intros _. cbn. apply sins_nonnil. Qed.

(* ---- closed and monotone, as used by the proofs ---- *)
Lemma good_closed K t t' : good K = true -> cmem K t = true -> t' <> [] -> subseq t' t = true -> cmem K t' = true.
Proof.
  unfold good. intros Hg Ht Hne Hsub. apply andb_true_iff in Hg as [Hc _].
  unfold cmem in Ht. destruct (lookup K t) as [w|] eqn:E; [|discriminate].
  apply lookup_in in E. unfold closedb in Hc. rewrite forallb_forall in Hc. specialize (Hc _ E). cbn [fst] in Hc.
  rewrite forallb_forall in Hc. apply Hc. apply in_faces; auto.
Qed.
Lemma good_mono K t t' w w' :
  good K = true -> lookup K t = Some w -> t' <> [] -> subseq t' t = true -> lookup K t' = Some w' -> w' <= w.
Proof.
  unfold good. intros Hg Ht Hne Hsub Ht'. apply andb_true_iff in Hg as [_ Hm].
  apply lookup_in in Ht. unfold monob in Hm. rewrite forallb_forall in Hm. specialize (Hm _ Ht). cbn [fst snd] in Hm.
  rewrite forallb_forall in Hm. assert (Hin : In t' (faces t)) by (apply in_faces; auto).
  specialize (Hm _ Hin). rewrite Ht' in Hm. lia.
Qed.

Definition agree (l : sibs) (K : cplx) : Prop := wf l /\ forall t, t <> [] -> find_val t l = lookup K t.

Lemma good_exit_ok K l s v : good K = true -> agree l K -> exit_ok l s v.
Proof.
  intros Hg [_ Ha] t Ht Hsub (w & Hw & Hle) t' Ht' Hsub'.
  rewrite Ha in Hw by auto.
  assert (Hc : cmem K t' = true) by (eapply good_closed; eauto; unfold cmem; rewrite Hw; auto).
  unfold cmem in Hc. destruct (lookup K t') as [w'|] eqn:E; [|discriminate].
  exists w'. rewrite Ha by auto. split; auto.
  assert (w' <= w) by (eapply good_mono; eauto). lia.
Qed.

(* the operations whose refinement is proved here (pruning, graph insertion and expansion are compared only) *)
Definition proved_op (o : op) : bool :=
  match o with
  | OInsert _ _ | OInsertSub _ _ | OBatch _ _ | ORemove _ | OClear | ODim | OCount => true
  | _ => false
  end.

Lemma has_coface_false K s t :
  has_coface K s = false -> prefixb s t = true -> lookup K t <> None -> t = s.
Proof.
  intros Hc Hp Hl. destruct (lookup K t) as [w|] eqn:E; [|congruence].
  apply lookup_in in E. unfold has_coface in Hc.
  assert (Hin : In t (keys K)) by (unfold keys; apply in_map_iff; exists (t, w); auto).
  destruct (seqb s t) eqn:Es; [apply seqb_eq in Es; auto|].
  assert (existsb (fun t0 => subseq s t0 && negb (seqb s t0)) (keys K) = true).
  { apply existsb_exists. exists t. split; auto. rewrite prefixb_subseq, Es; auto. }
  congruence.
Qed.

Lemma step_agree fx st K o :
  agree (tree st) K -> good K = true -> proved_op o = true -> pre_op K o = true -> good (spec_step K o) = true ->
  agree (tree (step fx st o)) (spec_step K o).
Proof.
  intros [Hwf Ha] Hg Hp Hpre Hg'. destruct o; try discriminate; cbn [step spec_step tree].
  - (* insert_simplex *)
    cbn [pre_op] in Hpre. apply andb_true_iff in Hpre as [Hpre _]. apply andb_true_iff in Hpre as [Hne _].
    assert (Hs : norm s <> []) by (apply norm_nonnil; destruct s; [discriminate | congruence]).
    split; [apply wf_ins_raw; auto|]. intros t Ht. rewrite find_ins_raw by auto.
    cbn [spec_step] in Hg'.
    destruct (seqb t (norm s)) eqn:E.
    + apply seqb_eq in E; subst t. rewrite spec_insert_same, Ha by auto. destruct (lookup K (norm s)); reflexivity.
    + assert (Htn : t <> norm s) by (intro; subst; rewrite seqb_refl in E; discriminate).
      rewrite spec_insert_other by auto.
      destruct (prefixb t (norm s)) eqn:Ep; cbn [andb]; [|apply Ha; auto].
      assert (Hc : cmem (spec_insert K (norm s) v) t = true).
      { apply (good_closed _ (norm s) t Hg'); auto; [|apply prefixb_subseq; auto].
        unfold cmem. rewrite spec_insert_same. reflexivity. }
      unfold cmem in Hc. rewrite spec_insert_other in Hc by auto. rewrite Ha by auto.
      destruct (lookup K t); [reflexivity | discriminate].
  - (* insert_simplex_and_subfaces *)
    destruct (norm s) as [|x r] eqn:En; cbn [tree].
    + split; auto.
    + rewrite <- En in *. assert (Hs : norm s <> []) by congruence.
      split; [apply wf_ins_sub; auto|]. intros t Ht.
      pose proof (find_ins_sub (norm s) v (tree st) (norm_sorted s) Hs (good_exit_ok K _ _ _ Hg (conj Hwf Ha))) as [_ Hf].
      rewrite Hf, lookup_insert_closure, Ha by auto. reflexivity.
  - (* insert_batch_vertices *)
    split; [apply wf_ins_batch; auto|]. intros t Ht. rewrite find_ins_batch, lookup_batch by auto.
    destruct t as [|z [|z' t']]; rewrite ?Ha by congruence; reflexivity.
  - (* remove_maximal_simplex *)
    cbn [pre_op] in Hpre. apply andb_true_iff in Hpre as [Hmem Hcof]. apply negb_true_iff in Hcof.
    destruct (rm_max (norm s) (tree st) true) as [t0 e] eqn:Er. cbn [tree].
    assert (Ht0 : t0 = fst (rm_max (norm s) (tree st) true)) by (rewrite Er; reflexivity). subst t0.
    destruct (norm s) as [|x r] eqn:En.
    + cbn [rm_max fst]. split; auto. intros t Ht. rewrite spec_remove_other by auto. apply Ha; auto.
    + rewrite <- En in *. assert (Hs : norm s <> []) by congruence.
      split; [apply wf_rm_max; auto|]. intros t Ht.
      assert (Hin : find_val (norm s) (tree st) <> None).
      { rewrite Ha by auto. unfold cmem in Hmem. destruct (lookup K (norm s)); [congruence | discriminate]. }
      rewrite find_rm_max by auto.
      destruct (prefixb (norm s) t) eqn:Ep.
      * destruct (list_eq_dec Z.eq_dec t (norm s)) as [->|Hne].
        -- rewrite spec_remove_same; reflexivity.
        -- rewrite spec_remove_other by auto.
           destruct (lookup K t) eqn:El; auto. exfalso. apply Hne.
           eapply has_coface_false; eauto. congruence.
      * rewrite spec_remove_other; [apply Ha; auto|]. intro; subst. rewrite prefixb_refl in Ep; discriminate.
  - (* clear *)
    split; [apply wf_nil|]. intros t Ht. rewrite find_val_nil_l. reflexivity.
  - (* dimension() *)
    unfold dimension. destruct (dirty st); cbn [fst lower_ub tree]; split; auto.
  - (* num_simplices_by_dimension() *)
    unfold count_by_dim. destruct (is_empty st); cbn [fst]; [split; auto|].
    destruct (counts_t _ _ _); cbn [fst]; [|split; auto].
    destruct (dirty st); cbn [fst tree]; split; auto.
Qed.

Lemma run_agree fx : forall ops st K,
  agree (tree st) K -> good K = true -> forallb proved_op ops = true -> ok_from K ops = true ->
  agree (tree (fold_left (step fx) ops st)) (fold_left spec_step ops K).
Proof.
  induction ops as [|o ops IH]; intros st K Ha Hg Hp Hok; cbn [fold_left]; auto.
  cbn [forallb] in Hp. apply andb_true_iff in Hp as [Hp1 Hp2].
  cbn [ok_from] in Hok. apply andb_true_iff in Hok as [Hok Hok3]. apply andb_true_iff in Hok as [Hok1 Hok2].
  apply IH; auto. apply step_agree; auto.
Qed.

Theorem history_refines_proved fx ops :
  forallb proved_op ops = true -> ok_history ops = true ->
  wf (tree (run fx ops)) /\
  forall t, t <> [] -> find_val t (tree (run fx ops)) = lookup (spec_run ops) t.
Proof.
  intros Hp Hok. apply (run_agree fx ops empty_state []); auto.
  split; [apply wf_nil|]. intros t _. rewrite find_val_nil_l. reflexivity.
Qed.

(* ------------------------------------------------------------------------------------------------ abstraction *)
Lemma lookup_app A B t : lookup (A ++ B) t = match lookup A t with Some v => Some v | None => lookup B t end.
Proof.
  induction A as [|[u w] A IH]; cbn [app lookup]; auto. destruct (seqb u t); auto.
Qed.
Lemma lookup_map_cons x A t :
  lookup (map (fun p => (x :: fst p, snd p)) A) t =
  match t with
  | z :: t' => if z =? x then lookup A t' else None
  | [] => None
  end.
Proof.
  induction A as [|[u w] A IH]; cbn [map lookup fst snd].
  - destruct t as [|z t']; auto. destruct (z =? x); auto.
  - destruct t as [|z t']; cbn [seqb]; auto.
    rewrite IH. rewrite Z.eqb_sym. destruct (z =? x) eqn:E; cbn [andb]; auto.
Qed.
Lemma abs_cons x w c r :
  abs ((x, w, c) :: r) = (([x], w) :: map (fun p => (x :: fst p, snd p)) (abs_t c)) ++ abs r.
Proof. reflexivity. Qed.
Lemma find_val_cons_lt z t x w c r : z < x -> find_val (z :: t) ((x, w, c) :: r) = None.
Proof.
  intro H. unfold find_val. assert (get z ((x, w, c) :: r) = None) as Hg.
  { cbn [get]. zcmp z x; auto; lia. }
  destruct t; [rewrite find_one, Hg | rewrite find_cons2, Hg]; reflexivity.
Qed.
Lemma find_val_cons_gt z t x w c r : x < z -> find_val (z :: t) ((x, w, c) :: r) = find_val (z :: t) r.
Proof.
  intro H. unfold find_val. f_equal. apply find_head. cbn [get]. zcmp z x; auto; lia.
Qed.
Lemma find_val_cons_eq_one x w c r : find_val [x] ((x, w, c) :: r) = Some w.
Proof. rewrite find_val_one. cbn [get]. rewrite Z.compare_refl. reflexivity. Qed.
Lemma find_val_cons_eq_deep x y t w c r : find_val (x :: y :: t) ((x, w, Node c) :: r) = find_val (y :: t) c.
Proof. rewrite find_val_deep. cbn [get]. rewrite Z.compare_refl. reflexivity. Qed.

Theorem find_abs : forall l, wf l -> forall t, lookup (abs l) t = find_val t l.
Proof.
  apply (sibs_trie_ind (fun t => wf_t t -> forall s, lookup (abs_t t) s = find_val s (kids t))
                       (fun l => wf l -> forall s, lookup (abs l) s = find_val s l)).
  - intros l H Hw s. cbn [kids]. apply H. rewrite <- wf_t_node. exact Hw.
  - intros _ s. cbn. rewrite find_val_nil_l. reflexivity.
  - intros x w c r IHc IHr Hwf s. apply wf_cons in Hwf as (Hlb & Hc & Hr).
    rewrite abs_cons, lookup_app. cbn [lookup]. rewrite lookup_map_cons.
    destruct s as [|z t'].
    + cbn [seqb]. rewrite IHr by auto. reflexivity.
    + destruct (Z.compare_spec z x) as [E|E|E].
      * subst z. destruct t' as [|z' t''].
        -- cbn [seqb]. rewrite Z.eqb_refl. cbn [andb]. rewrite find_val_cons_eq_one. reflexivity.
        -- assert (seqb [x] (x :: z' :: t'') = false) as -> by (cbn [seqb]; rewrite Z.eqb_refl; reflexivity).
           rewrite Z.eqb_refl. rewrite IHc by auto. destruct c as [c0]. cbn [kids].
           rewrite find_val_cons_eq_deep.
           destruct (find_val (z' :: t'') c0) eqn:Ef; auto.
           (* absent below x: also absent in the later siblings, whose labels are larger *)
           rewrite IHr by auto. unfold find_val. rewrite find_cons2, lb_sibs_get_none by auto. reflexivity.
      * assert (seqb [x] (z :: t') = false) as ->.
        { cbn [seqb]. destruct (x =? z) eqn:E2; [apply Z.eqb_eq in E2; lia | reflexivity]. }
        assert (z =? x = false) as -> by (apply Z.eqb_neq; lia).
        rewrite find_val_cons_lt by auto. rewrite IHr by auto.
        unfold find_val. assert (get z r = None) as Hg by (apply lb_sibs_get_lt with (x := x); auto; lia).
        destruct t'; [rewrite find_one, Hg | rewrite find_cons2, Hg]; reflexivity.
      * assert (seqb [x] (z :: t') = false) as ->.
        { cbn [seqb]. destruct (x =? z) eqn:E2; [apply Z.eqb_eq in E2; lia | reflexivity]. }
        assert (z =? x = false) as -> by (apply Z.eqb_neq; lia).
        rewrite find_val_cons_gt by auto. apply IHr; auto.
Qed.

(* the abstract complex of the tree after a history = the specification run, as finite maps *)
Theorem history_refines_abs fx ops :
  forallb proved_op ops = true -> ok_history ops = true ->
  forall t, t <> [] -> lookup (abs (tree (run fx ops))) t = lookup (spec_run ops) t.
Proof.
  intros Hp Hok t Ht. destruct (history_refines_proved fx ops Hp Hok) as [Hwf H].
  rewrite find_abs by auto. apply H; auto.
Qed.

(* ------------------------------------------------------------------------------------------------ prune_above_filtration *)
Definition prune_sibs (f : V) (l : sibs) : sibs := kids (prune_f f (Node l)).
Lemma prune_sibs_nil f : prune_sibs f [] = [].
Proof. reflexivity. Qed.
Lemma prune_sibs_cons f x w c r :
  prune_sibs f ((x, w, c) :: r) = if f <? w then prune_sibs f r else (x, w, prune_f f c) :: prune_sibs f r.
Proof. unfold prune_sibs. cbn. destruct (f <? w); reflexivity. Qed.
Lemma prune_f_node f c : prune_f f (Node c) = Node (prune_sibs f c).
Proof. reflexivity. Qed.
Global Opaque prune_sibs.

Lemma lb_sibs_prune f y r : lb_sibs y r -> lb_sibs y (prune_sibs f r).
Proof.
  induction r as [|[[x w] c] r IH]; [rewrite prune_sibs_nil; auto|].
  rewrite prune_sibs_cons. cbn [lb_sibs]. intros [H1 H2]. destruct (f <? w); cbn [lb_sibs]; auto.
Qed.
Lemma wf_prune f : forall l, wf l -> wf (prune_sibs f l).
Proof.
  apply (sibs_trie_ind (fun t => wf_t t -> wf_t (prune_f f t)) (fun l => wf l -> wf (prune_sibs f l))).
  - intros l H Hw. rewrite prune_f_node, wf_t_node. apply H. rewrite <- wf_t_node; auto.
  - intros _. rewrite prune_sibs_nil. apply wf_nil.
  - intros x w c r IHc IHr Hwf. apply wf_cons in Hwf as (Hlb & Hc & Hr). rewrite prune_sibs_cons.
    destruct (f <? w); auto. apply wf_cons. split; [|split]; auto. apply lb_sibs_prune; auto.
Qed.
Lemma get_prune f x : forall l, wf l ->
  get x (prune_sibs f l) = match get x l with Some (w, c) => if f <? w then None else Some (w, prune_f f c) | None => None end.
Proof.
  induction l as [|[[y w] c] r IH]; intro Hwf; [rewrite prune_sibs_nil; reflexivity|].
  apply wf_cons in Hwf as (Hlb & Hc & Hr). rewrite prune_sibs_cons. cbn [get].
  destruct (f <? w) eqn:Ef.
  - zcmp x y.
    + subst. rewrite Ef. apply lb_sibs_get_none. apply lb_sibs_prune; auto.
    + apply lb_sibs_get_lt with (x := y); [apply lb_sibs_prune; auto | lia].
    + apply IH; auto.
  - cbn [get]. zcmp x y; auto. subst. rewrite Ef. reflexivity.
Qed.
(* every node on the path of t (t included) that exists has a value <= f *)
Fixpoint path_le (f : V) (t : simplex) (l : sibs) : bool :=
  match t with
  | [] => true
  | x :: t' => match get x l with
               | None => true
               | Some (w, Node c) => negb (f <? w) && path_le f t' c
               end
  end.
Lemma path_le_cons f x t' l :
  path_le f (x :: t') l = match get x l with None => true | Some (w, Node c) => negb (f <? w) && path_le f t' c end.
Proof. reflexivity. Qed.
Theorem find_prune f : forall t l, wf l -> t <> [] ->
  find_val t (prune_sibs f l) = if path_le f t l then find_val t l else None.
Proof.
  induction t as [|x [|y t'] IH]; intros l Hwf Ht; [congruence| |].
  - rewrite !find_val_one, get_prune by auto. rewrite path_le_cons.
    destruct (get x l) as [[w [c]]|]; auto. destruct (f <? w); reflexivity.
  - rewrite !find_val_deep, get_prune by auto. rewrite path_le_cons.
    destruct (get x l) as [[w [c]]|] eqn:E; auto.
    assert (Hc : wf c) by (rewrite <- wf_t_node; eapply wf_get; eauto).
    destruct (f <? w); cbn [negb andb]; auto.
    rewrite prune_f_node. apply IH; auto; congruence.
Qed.
Lemma path_le_false f : forall t l w, find_val t l = Some w -> f < w -> path_le f t l = false.
Proof.
  induction t as [|x [|y t'] IH]; intros l w Hf Hlt; [discriminate| |].
  - rewrite find_val_one in Hf. rewrite path_le_cons. destruct (get x l) as [[w' [c]]|]; [|discriminate].
    cbn in Hf. inversion Hf; subst. assert (f <? w = true) as -> by lia. reflexivity.
  - rewrite find_val_deep in Hf. rewrite path_le_cons. destruct (get x l) as [[w' [c]]|]; [|discriminate].
    rewrite (IH c w) by auto. apply andb_false_r.
Qed.
Lemma path_le_true f : forall t l,
  (forall p w, p <> [] -> prefixb p t = true -> find_val p l = Some w -> w <= f) -> path_le f t l = true.
Proof.
  induction t as [|x t' IH]; intros l H; auto.
  rewrite path_le_cons. destruct (get x l) as [[w [c]]|] eqn:E; auto.
  apply andb_true_iff; split.
  - assert (w <= f); [|lia]. apply (H [x] w); [congruence | cbn; rewrite Z.eqb_refl; auto |].
    rewrite find_val_one, E. reflexivity.
  - apply IH. intros p w' Hp Hpre Hf. apply (H (x :: p) w'); [congruence | cbn; rewrite Z.eqb_refl; auto |].
    destruct p as [|z p']; [congruence|]. rewrite find_val_deep, E. exact Hf.
Qed.

Lemma step_agree_prune_f fx st K f :
  agree (tree st) K -> good K = true -> agree (tree (step fx st (OPruneF f))) (spec_step K (OPruneF f)).
Proof.
  intros [Hwf Ha] Hg. cbn [step spec_step tree]. change (kids (prune_f f (Node (tree st)))) with (prune_sibs f (tree st)).
  split; [apply wf_prune; auto|]. intros t Ht.
  rewrite find_prune, spec_prune_filt_lookup by auto. rewrite <- Ha by auto.
  destruct (find_val t (tree st)) as [w|] eqn:E; [|destruct (path_le f t (tree st)); reflexivity].
  destruct (f <? w) eqn:Ef.
  - rewrite (path_le_false f t _ w) by (auto; lia). reflexivity.
  - rewrite path_le_true; auto. intros p w' Hp Hpre Hfp.
    assert (w' <= w); [|lia].
    rewrite Ha in E, Hfp by auto. eapply good_mono; eauto. apply prefixb_subseq; auto.
Qed.

(* ------------------------------------------------------------------------------------------------ prune_above_dimension *)
Definition cut (k : nat) (c : trie) : trie := match k with O => leaf | S k' => trunc c k' end.
Definition trunc_sibs (l : sibs) (k : nat) : sibs := map (fun e => let '(x, w, c) := e in (x, w, cut k c)) l.
Lemma trunc_node l k : trunc (Node l) k = Node (trunc_sibs l k).
Proof. destruct k; reflexivity. Qed.
Lemma get_trunc x k : forall l, get x (trunc_sibs l k) = option_map (fun p => (fst p, cut k (snd p))) (get x l).
Proof.
  induction l as [|[[y w] c] r IH]; cbn [trunc_sibs map get]; auto.
  zcmp x y; auto.
Qed.
Lemma lb_sibs_trunc y k r : lb_sibs y r -> lb_sibs y (trunc_sibs r k).
Proof.
  induction r as [|[[x w] c] r IH]; cbn [trunc_sibs map lb_sibs]; auto.
  intros [H1 H2]. split; auto.
Qed.
Lemma wf_trunc : forall l, wf l -> forall k, wf (trunc_sibs l k).
Proof.
  apply (sibs_trie_ind (fun t => wf_t t -> forall k, wf_t (trunc t k)) (fun l => wf l -> forall k, wf (trunc_sibs l k))).
  - intros l H Hw k. rewrite trunc_node, wf_t_node. apply H. rewrite <- wf_t_node; auto.
  - intros _ k. apply wf_nil.
  - intros x w c r IHc IHr Hwf k. apply wf_cons in Hwf as (Hlb & Hc & Hr).
    cbn [trunc_sibs map]. apply wf_cons. split; [|split].
    + apply lb_sibs_trunc; auto.
    + destruct k; cbn [cut]; [exact I | apply IHc; auto].
    + apply IHr; auto.
Qed.
Theorem find_trunc : forall t l k, t <> [] ->
  find_val t (trunc_sibs l k) = if (length t <=? S k)%nat then find_val t l else None.
Proof.
  induction t as [|x [|y t'] IH]; intros l k Ht; [congruence| |].
  - rewrite !find_val_one, get_trunc. cbn [length Nat.leb]. destruct (get x l) as [[w c]|]; reflexivity.
  - rewrite !find_val_deep, get_trunc.
    destruct (get x l) as [[w [c]]|]; cbn [option_map fst snd]; [|destruct (_ <=? _)%nat; reflexivity].
    destruct k as [|k']; cbn [cut].
    + cbn [leaf]. rewrite find_val_nil_l. reflexivity.
    + rewrite trunc_node. rewrite IH by congruence. reflexivity.
Qed.

Lemma size_node_cons x w c r : size_t (Node ((x, w, c) :: r)) = 1 + size_t c + size_t (Node r).
Proof. reflexivity. Qed.
Lemma size_nonneg : forall t, 0 <= size_t t.
Proof.
  apply (trie_sibs_ind (fun t => 0 <= size_t t) (fun l => 0 <= size_t (Node l))); auto.
  - cbn; lia.
  - intros x w c r Hc Hr. rewrite size_node_cons. lia.
Qed.
Lemma size_zero_leaf t : size_t t = 0 -> t = leaf.
Proof.
  destruct t as [[|[[x w] c] r]]; auto. rewrite size_node_cons.
  pose proof (size_nonneg c). pose proof (size_nonneg (Node r)). lia.
Qed.
Lemma trunc_size : forall l k,
  size_t (Node (trunc_sibs l k)) <= size_t (Node l) /\
  (size_t (Node (trunc_sibs l k)) = size_t (Node l) -> trunc_sibs l k = l).
Proof.
  apply (sibs_trie_ind (fun t => forall k, size_t (trunc t k) <= size_t t /\ (size_t (trunc t k) = size_t t -> trunc t k = t))
                       (fun l => forall k, size_t (Node (trunc_sibs l k)) <= size_t (Node l) /\
                                           (size_t (Node (trunc_sibs l k)) = size_t (Node l) -> trunc_sibs l k = l))).
  - intros l H k. rewrite trunc_node. destruct (H k) as [H1 H2]. split; auto. intro E. f_equal. auto.
  - intros k. split; auto. cbn; lia.
  - intros x w c r IHc IHr k. cbn [trunc_sibs map]. fold (trunc_sibs r k). rewrite !size_node_cons.
    destruct (IHr k) as [Hr1 Hr2].
    assert (Hc : size_t (cut k c) <= size_t c /\ (size_t (cut k c) = size_t c -> cut k c = c)).
    { destruct k as [|k']; cbn [cut].
      - split; [cbn; apply size_nonneg|]. intro E. symmetry. apply size_zero_leaf. cbn in E. lia.
      - apply IHc. }
    destruct Hc as [Hc1 Hc2]. split; [lia|]. intro E.
    rewrite Hc2 by lia. rewrite Hr2 by lia. reflexivity.
Qed.

(* the cached dimension bounds the dimension of every stored simplex *)
Definition ub_valid (st : state) : Prop :=
  forall t, t <> [] -> find_val t (tree st) <> None -> sdim t <= dim_ub st.

Lemma step_agree_prune_d fx st K d :
  agree (tree st) K -> ub_valid st -> agree (tree (step fx st (OPruneD d))) (spec_step K (OPruneD d)).
Proof.
  intros [Hwf Ha] Hub. cbn [step spec_step].
  assert (Hsd : forall t : simplex, t <> [] -> 0 <= sdim t).
  { intros [|z t] Ht; [congruence|]. unfold sdim. cbn [length]. lia. }
  destruct (dim_ub st <=? d) eqn:E1.
  - split; auto. intros t Ht. rewrite spec_prune_dim_lookup, Ha by auto.
    destruct (sdim t <=? Z.max d (-1)) eqn:E2; auto.
    destruct (lookup K t) eqn:El; auto. exfalso.
    assert (sdim t <= dim_ub st) by (apply Hub; auto; rewrite Ha by auto; congruence). lia.
  - destruct (d <? 0) eqn:E2.
    + assert (Hnone : forall t, t <> [] -> lookup (spec_prune_dim K (Z.max d (-1))) t = None).
      { intros t Ht. rewrite spec_prune_dim_lookup. specialize (Hsd t Ht).
        assert (sdim t <=? Z.max d (-1) = false) as -> by lia. reflexivity. }
      destruct (is_nil (tree st)) eqn:En.
      * split; auto. intros t Ht. rewrite Hnone by auto. destruct (tree st); [apply find_val_nil_l | discriminate].
      * cbn [tree]. split; [apply wf_nil|]. intros t Ht. rewrite Hnone by auto. apply find_val_nil_l.
    + change (kids (trunc (Node (tree st)) (Z.to_nat d))) with (kids (trunc (Node (tree st)) (Z.to_nat d))).
      rewrite trunc_node. cbn [kids].
      assert (Hfind : forall t, t <> [] ->
                find_val t (trunc_sibs (tree st) (Z.to_nat d)) = lookup (spec_prune_dim K (Z.max d (-1))) t).
      { intros t Ht. rewrite find_trunc, spec_prune_dim_lookup, Ha by auto.
        unfold sdim. destruct (length t <=? S (Z.to_nat d))%nat eqn:E3; destruct (Z.of_nat (length t) - 1 <=? Z.max d (-1)) eqn:E4; auto; lia. }
      destruct (size_t (Node (trunc_sibs (tree st) (Z.to_nat d))) =? size_t (Node (tree st))) eqn:E3.
      * split; auto. intros t Ht. rewrite <- Hfind by auto.
        destruct (trunc_size (tree st) (Z.to_nat d)) as [_ Hid]. rewrite Hid by lia. reflexivity.
      * cbn [tree]. split; [apply wf_trunc; auto | auto].
Qed.

(* ------------------------------------------------------------------------------------------------ insert_graph *)
Definition spec_vertex (K : cplx) (i : Z) (w : V) : cplx := match lookup K [i] with None => cset K [i] w | Some _ => K end.
Definition model_vertex (l : sibs) (i : Z) (w : V) : sibs := match get i l with None => put i w leaf l | Some _ => l end.
Definition spec_edge (K : cplx) (e : Z * Z * V) : cplx :=
  let '(u, v, w) := e in match lookup K (edge_key u v) with None => cset K (edge_key u v) w | Some _ => K end.

Lemma spec_graph_vertices_step K i w r : spec_graph_vertices K i (w :: r) = spec_graph_vertices (spec_vertex K i w) (i + 1) r.
Proof. reflexivity. Qed.
Lemma graph_vertices_step i w r l : graph_vertices i (w :: r) l = graph_vertices (i + 1) r (model_vertex l i w).
Proof. reflexivity. Qed.

Lemma vertex_agree l K i w : agree l K -> agree (model_vertex l i w) (spec_vertex K i w).
Proof.
  intros [Hwf Ha]. unfold model_vertex, spec_vertex.
  rewrite <- (Ha [i]) by congruence. rewrite find_val_one.
  destruct (get i l) as [[w0 c0]|] eqn:E; cbn [option_map]; [split; auto|].
  split; [apply wf_put; auto; exact I|]. intros t Ht.
  destruct t as [|z [|z' t']]; [congruence| |].
  - rewrite find_val_one. destruct (Z.eq_dec z i) as [->|Hz].
    + rewrite get_put_same, lookup_cset_same. reflexivity.
    + rewrite get_put_other, lookup_cset_other by congruence. rewrite <- Ha by congruence. reflexivity.
  - rewrite lookup_cset_other by congruence. rewrite <- Ha by congruence. rewrite !find_val_deep.
    destruct (Z.eq_dec z i) as [->|Hz].
    + rewrite get_put_same, E. cbn [leaf]. apply find_val_nil_l.
    + rewrite get_put_other by auto. reflexivity.
Qed.
Lemma vertices_agree : forall vw i l K, agree l K -> agree (graph_vertices i vw l) (spec_graph_vertices K i vw).
Proof.
  induction vw as [|w r IH]; intros i l K H; auto.
  rewrite graph_vertices_step, spec_graph_vertices_step. apply IH. apply vertex_agree; auto.
Qed.

(* presence is never lost by the vertex and edge steps *)
Lemma model_vertex_keeps l i w t : find_val t l <> None -> find_val t (model_vertex l i w) <> None.
Proof.
  unfold model_vertex. destruct (get i l) as [[w0 c0]|] eqn:E; auto. intro H.
  destruct t as [|z [|z' t']]; [cbn in H; congruence| |].
  - rewrite find_val_one in *. destruct (Z.eq_dec z i) as [->|Hz]; [rewrite E in H; cbn in H; congruence|].
    rewrite get_put_other by auto. exact H.
  - rewrite find_val_deep in *. destruct (Z.eq_dec z i) as [->|Hz]; [rewrite E in H; congruence|].
    rewrite get_put_other by auto. exact H.
Qed.
Lemma model_vertex_has l i w : find_val [i] (model_vertex l i w) <> None.
Proof.
  unfold model_vertex. rewrite find_val_one. destruct (get i l) as [[w0 c0]|] eqn:E; [rewrite E; cbn; congruence|].
  rewrite get_put_same. cbn. congruence.
Qed.
Lemma graph_vertices_keeps : forall vw i l t, find_val t l <> None -> find_val t (graph_vertices i vw l) <> None.
Proof.
  induction vw as [|w r IH]; intros i l t H; auto.
  rewrite graph_vertices_step. apply IH. apply model_vertex_keeps; auto.
Qed.
Lemma graph_vertices_has : forall vw i l x, i <= x < i + Z.of_nat (length vw) -> find_val [x] (graph_vertices i vw l) <> None.
Proof.
  induction vw as [|w r IH]; intros i l x Hx; [cbn [length] in Hx; lia|].
  rewrite graph_vertices_step. destruct (Z.eq_dec x i) as [->|Hne].
  - apply graph_vertices_keeps. apply model_vertex_has.
  - apply IH. cbn [length] in Hx. lia.
Qed.

Lemma edge_key_minmax u0 v0 : u0 <> v0 -> edge_key u0 v0 = [Z.min u0 v0; Z.max u0 v0].
Proof. intro H. unfold edge_key. destruct (u0 <? v0) eqn:E; f_equal; try f_equal; lia. Qed.

Lemma graph_edge_unfold l u0 v0 w :
  graph_edge l (u0, v0, w) =
  match get (Z.min u0 v0) l with
  | None => l
  | Some (wu, Node c) => match get (Z.max u0 v0) c with
                         | None => put (Z.min u0 v0) wu (Node (put (Z.max u0 v0) w leaf c)) l
                         | Some _ => l
                         end
  end.
Proof. reflexivity. Qed.

Lemma edge_agree l K u0 v0 w :
  agree l K -> u0 <> v0 -> find_val [Z.min u0 v0] l <> None ->
  agree (graph_edge l (u0, v0, w)) (spec_edge K (u0, v0, w)).
Proof.
  intros [Hwf Ha] Hne Hu. rewrite graph_edge_unfold. unfold spec_edge. rewrite edge_key_minmax by auto.
  set (u := Z.min u0 v0) in *. set (v := Z.max u0 v0) in *.
  rewrite find_val_one in Hu. destruct (get u l) as [[wu [c]]|] eqn:Eu; [|cbn in Hu; congruence].
  assert (Hc : wf c) by (rewrite <- wf_t_node; eapply wf_get; eauto).
  rewrite <- (Ha [u; v]) by congruence. rewrite find_val_deep, Eu, find_val_one.
  destruct (get v c) as [[wv cv]|] eqn:Ev; cbn [option_map]; [split; auto|].
  split.
  - apply wf_put; auto. rewrite wf_t_node. apply wf_put; auto. exact I.
  - intros t Ht. destruct t as [|z [|y t']]; [congruence| |].
    + rewrite lookup_cset_other by congruence. rewrite <- Ha by congruence. rewrite !find_val_one.
      destruct (Z.eq_dec z u) as [->|Hz]; [rewrite get_put_same, Eu; reflexivity | rewrite get_put_other by auto; reflexivity].
    + rewrite find_val_deep. destruct (Z.eq_dec z u) as [->|Hz].
      * rewrite get_put_same. destruct (Z.eq_dec y v) as [->|Hy].
        -- destruct t' as [|y' t''].
           ++ rewrite find_val_one, get_put_same, lookup_cset_same. reflexivity.
           ++ rewrite lookup_cset_other by congruence. rewrite <- Ha by congruence.
              rewrite find_val_deep, get_put_same. cbn [leaf]. rewrite find_val_nil_l.
              rewrite !find_val_deep, Eu. rewrite find_val_deep, Ev. reflexivity.
        -- rewrite lookup_cset_other by congruence. rewrite <- Ha by congruence.
           rewrite (find_val_deep u), Eu. unfold find_val. rewrite find_put_other by auto. reflexivity.
      * rewrite get_put_other by auto. rewrite lookup_cset_other by congruence. rewrite <- Ha by congruence.
        rewrite find_val_deep. reflexivity.
Qed.

Lemma graph_edge_keeps l e t : wf l -> find_val t l <> None -> find_val t (graph_edge l e) <> None.
Proof.
  destruct e as [[u0 v0] w]. intros Hwf H. rewrite graph_edge_unfold.
  set (u := Z.min u0 v0). set (v := Z.max u0 v0).
  destruct (get u l) as [[wu [c]]|] eqn:Eu; auto. destruct (get v c) as [[wv cv]|] eqn:Ev; auto.
  destruct t as [|z [|y t']]; [cbn in H; congruence| |].
  - rewrite find_val_one in *. destruct (Z.eq_dec z u) as [->|Hz]; [rewrite get_put_same; cbn; congruence|].
    rewrite get_put_other by auto. exact H.
  - rewrite find_val_deep in *. destruct (Z.eq_dec z u) as [->|Hz].
    + rewrite get_put_same. rewrite Eu in H.
      destruct (Z.eq_dec y v) as [->|Hy].
      * exfalso. apply H. unfold find_val. destruct t'; [rewrite find_one, Ev | rewrite find_cons2, Ev]; reflexivity.
      * unfold find_val in *. rewrite find_put_other by auto. exact H.
    + rewrite get_put_other by auto. exact H.
Qed.
Lemma graph_edge_has l u0 v0 w : wf l -> find_val [Z.min u0 v0] l <> None ->
  find_val [Z.min u0 v0; Z.max u0 v0] (graph_edge l (u0, v0, w)) <> None.
Proof.
  intros Hwf Hu. rewrite graph_edge_unfold. set (u := Z.min u0 v0) in *. set (v := Z.max u0 v0) in *.
  rewrite find_val_one in Hu. destruct (get u l) as [[wu [c]]|] eqn:Eu; [|cbn in Hu; congruence].
  destruct (get v c) as [[wv cv]|] eqn:Ev.
  - rewrite find_val_deep, Eu, find_val_one, Ev. cbn. congruence.
  - rewrite find_val_deep, get_put_same, find_val_one, get_put_same. cbn. congruence.
Qed.
Lemma wf_graph_edge l e : wf l -> wf (graph_edge l e).
Proof.
  destruct e as [[u0 v0] w]. intro Hwf. rewrite graph_edge_unfold.
  destruct (get (Z.min u0 v0) l) as [[wu [c]]|] eqn:Eu; auto. destruct (get (Z.max u0 v0) c); auto.
  assert (Hc : wf c) by (rewrite <- wf_t_node; eapply wf_get; eauto).
  apply wf_put; auto. rewrite wf_t_node. apply wf_put; auto. exact I.
Qed.

Definition edge_ok (n : Z) (e : Z * Z * V) : bool :=
  let '(u, v, _) := e in negb (u =? v) && (0 <=? u) && (0 <=? v) && (u <? n) && (v <? n).

Lemma edges_agree n : forall es l K,
  agree l K -> (forall x, 0 <= x < n -> find_val [x] l <> None) -> forallb (edge_ok n) es = true ->
  agree (fold_left graph_edge es l) (fold_left spec_edge es K) /\
  (forall t, find_val t l <> None -> find_val t (fold_left graph_edge es l) <> None).
Proof.
  induction es as [|[[u0 v0] w] es IH]; intros l K Ha Hv Hok; cbn [fold_left]; [split; auto|].
  cbn [forallb] in Hok. apply andb_true_iff in Hok as [He Hok]. unfold edge_ok in He.
  assert (Hne : u0 <> v0) by lia.
  assert (Hu : find_val [Z.min u0 v0] l <> None) by (apply Hv; lia).
  destruct (IH (graph_edge l (u0, v0, w)) (spec_edge K (u0, v0, w))) as [H1 H2]; auto.
  - apply edge_agree; auto.
  - intros x Hx. apply graph_edge_keeps; [apply Ha | apply Hv; auto].
  - split; auto. intros t Ht. apply H2. apply graph_edge_keeps; [apply Ha | auto].
Qed.

Lemma spec_graph_unfold vw es : spec_graph vw es = fold_left spec_edge es (spec_graph_vertices [] 0 vw).
Proof. reflexivity. Qed.

Theorem graph_agree vw es :
  forallb (edge_ok (Z.of_nat (length vw))) es = true ->
  agree (ins_graph vw es) (spec_graph vw es) /\
  (forall x, 0 <= x < Z.of_nat (length vw) -> find_val [x] (ins_graph vw es) <> None) /\
  (forall u0 v0 w es', es = (u0, v0, w) :: es' -> find_val [Z.min u0 v0; Z.max u0 v0] (ins_graph vw es) <> None).
Proof.
  intro Hok. unfold ins_graph. rewrite spec_graph_unfold.
  assert (H0 : agree [] []) by (split; [apply wf_nil | intros t _; rewrite find_val_nil_l; reflexivity]).
  pose proof (vertices_agree vw 0 [] [] H0) as Hv.
  assert (Hhas : forall x, 0 <= x < Z.of_nat (length vw) -> find_val [x] (graph_vertices 0 vw []) <> None).
  { intros x Hx. apply graph_vertices_has. lia. }
  destruct (edges_agree _ es _ _ Hv Hhas Hok) as [H1 H2].
  split; auto. split; [intros x Hx; apply H2; auto|].
  intros u0 v0 w es' ->. cbn [fold_left].
  cbn [forallb] in Hok. apply andb_true_iff in Hok as [He Hok']. unfold edge_ok in He.
  assert (Hu : find_val [Z.min u0 v0] (graph_vertices 0 vw []) <> None) by (apply Hhas; lia).
  destruct (edges_agree (Z.of_nat (length vw)) es' (graph_edge (graph_vertices 0 vw []) (u0, v0, w)) (spec_edge (spec_graph_vertices [] 0 vw) (u0, v0, w))) as [_ H3]; auto.
  - apply edge_agree; auto. lia.
  - intros x Hx. apply graph_edge_keeps; [apply Hv | apply Hhas; auto].
  - apply H3. apply graph_edge_has; auto. apply Hv.
Qed.

(* keys of the graph complex: vertices, and edges u < v *)
Definition klen (K : cplx) (n : nat) : Prop := forall t, lookup K t <> None -> (length t <= n)%nat /\ ssorted t.
Lemma spec_vertex_klen K i w n : (1 <= n)%nat -> klen K n -> klen (spec_vertex K i w) n.
Proof.
  intros Hn Hk t. unfold spec_vertex. destruct (lookup K [i]) eqn:E; [apply Hk|].
  destruct (list_eq_dec Z.eq_dec t [i]) as [->|Hne].
  - intros _. split; [cbn; lia | constructor; constructor].
  - rewrite lookup_cset_other by auto. apply Hk.
Qed.
Lemma spec_vertices_klen : forall vw K i n, (1 <= n)%nat -> klen K n -> klen (spec_graph_vertices K i vw) n.
Proof.
  induction vw as [|w r IH]; intros K i n Hn Hk; auto.
  rewrite spec_graph_vertices_step. apply IH; auto. apply spec_vertex_klen; auto.
Qed.
Lemma spec_edge_klen K u0 v0 w : u0 <> v0 -> klen K 2 -> klen (spec_edge K (u0, v0, w)) 2.
Proof.
  intros Hne Hk t. unfold spec_edge. rewrite edge_key_minmax by auto.
  destruct (lookup K [Z.min u0 v0; Z.max u0 v0]) eqn:E; [apply Hk|].
  destruct (list_eq_dec Z.eq_dec t [Z.min u0 v0; Z.max u0 v0]) as [->|Hne'].
  - intros _. split; [cbn; lia|]. constructor; [constructor; constructor|]. constructor; [lia | constructor].
  - rewrite lookup_cset_other by auto. apply Hk.
Qed.
Lemma spec_graph_klen vw es :
  forallb (edge_ok (Z.of_nat (length vw))) es = true -> klen (spec_graph vw es) (if is_nil es then 1 else 2).
Proof.
  intro Hok. rewrite spec_graph_unfold.
  assert (H1 : klen (spec_graph_vertices [] 0 vw) 1).
  { apply spec_vertices_klen; auto. intros t H. cbn in H. congruence. }
  destruct es as [|e es']; [exact H1|]. cbn [is_nil].
  assert (H2 : klen (spec_graph_vertices [] 0 vw) 2) by (intros t Ht; destruct (H1 t Ht); split; auto).
  revert H2 Hok. generalize (spec_graph_vertices [] 0 vw). generalize (e :: es'). clear.
  induction l as [|[[u0 v0] w] es IH]; intros K Hk Hok; auto. cbn [fold_left].
  cbn [forallb] in Hok. apply andb_true_iff in Hok as [He Hok]. unfold edge_ok in He.
  apply IH; auto. apply spec_edge_klen; auto. lia.
Qed.

Lemma step_agree_graph fx st K vw es :
  agree (tree st) K -> pre_op K (OGraph vw es) = true ->
  agree (tree (step fx st (OGraph vw es))) (spec_step K (OGraph vw es)).
Proof.
  intros Ha Hpre. cbn [step spec_step]. destruct vw as [|w0 vw']; auto. cbn [tree].
  cbn [pre_op] in Hpre. apply andb_true_iff in Hpre as [_ Hok].
  apply graph_agree. exact Hok.
Qed.

(* ------------------------------------------------------------------------------------------------ the cached dimension is an upper bound *)
Lemma prefixb_length : forall p s, prefixb p s = true -> (length p <= length s)%nat.
Proof.
  induction p as [|x p IH]; intros [|y s] H; cbn [length]; try lia; try discriminate.
  cbn [prefixb] in H. apply andb_true_iff in H as [_ H]. apply IH in H. lia.
Qed.
Lemma subseq_length : forall b a, subseq a b = true -> (length a <= length b)%nat.
Proof.
  induction b as [|y b IH]; intros a H.
  - rewrite subseq_nil_r in H. destruct a; [cbn; lia | discriminate].
  - destruct a as [|x a]; [cbn; lia|]. rewrite subseq_cons in H. destruct (x =? y).
    + apply IH in H. cbn [length]. lia.
    + apply IH in H. cbn [length] in *. lia.
Qed.
Lemma height_node_cons x w c r : height_t (Node ((x, w, c) :: r)) = Z.max (1 + height_t c) (height_t (Node r)).
Proof. reflexivity. Qed.
Lemma height_lb : forall t, -1 <= height_t t.
Proof.
  apply (trie_sibs_ind (fun t => -1 <= height_t t) (fun l => -1 <= height_t (Node l))); auto.
  - cbn; lia.
  - intros x w c r Hc Hr. rewrite height_node_cons. lia.
Qed.
Lemma get_height x : forall l w c, get x l = Some (w, c) -> 1 + height_t c <= height_t (Node l).
Proof.
  induction l as [|[[y w'] c'] r IH]; intros w c H; [discriminate|].
  rewrite height_node_cons. cbn [get] in H. zcmp x y.
  - inversion H; subst. lia.
  - discriminate.
  - specialize (IH _ _ H). lia.
Qed.
Theorem find_height : forall t l, find_val t l <> None -> sdim t <= height_t (Node l).
Proof.
  induction t as [|x [|y t'] IH]; intros l H.
  - cbn in H. congruence.
  - rewrite find_val_one in H. destruct (get x l) as [[w c]|] eqn:E; [|cbn in H; congruence].
    apply get_height in E. pose proof (height_lb c). unfold sdim; cbn [length]. lia.
  - rewrite find_val_deep in H. destruct (get x l) as [[w [c]]|] eqn:E; [|congruence].
    apply get_height in E. specialize (IH c H). unfold sdim in *. cbn [length] in *. lia.
Qed.

Lemma lb_sibs_get_some x z r : lb_sibs x r -> get z r <> None -> x < z.
Proof. intros H Hg. destruct (Z_lt_le_dec x z); auto. exfalso. apply Hg. eapply lb_sibs_get_lt; eauto. Qed.
Lemma find_val_head_get z t l : find_val (z :: t) l <> None -> get z l <> None.
Proof.
  intros H Hg. apply H. unfold find_val. destruct t; [rewrite find_one, Hg | rewrite find_cons2, Hg]; reflexivity.
Qed.

Lemma nonnil_vertex (l : sibs) : l <> [] -> exists x, find_val [x] l <> None.
Proof.
  destruct l as [|[[x w] c] r]; [congruence|]. intros _. exists x. rewrite find_val_cons_eq_one. congruence.
Qed.
(* the three kinds of words of (x,w,c) :: r *)
Lemma key_cons x w c0 r t' : wf ((x, w, Node c0) :: r) -> t' <> [] ->
  (find_val t' ((x, w, Node c0) :: r) <> None <->
   t' = [x] \/ (exists t'', t'' <> [] /\ t' = x :: t'' /\ find_val t'' c0 <> None) \/ find_val t' r <> None).
Proof.
  intros Hwf Ht. apply wf_cons in Hwf as (Hlb & Hc & Hr). destruct t' as [|z tt]; [congruence|]. split.
  - intro H. destruct (Z.compare_spec z x) as [E|E|E].
    + subst z. destruct tt as [|y tt']; [left; auto|]. right; left.
      rewrite find_val_cons_eq_deep in H. exists (y :: tt'). repeat split; auto; congruence.
    + rewrite find_val_cons_lt in H by auto. congruence.
    + rewrite find_val_cons_gt in H by auto. right; right; auto.
  - intros [H|[(t'' & Hne & Heq & Hf)|H]].
    + inversion H; subst. rewrite find_val_cons_eq_one. congruence.
    + inversion Heq; subst. destruct t'' as [|y t3]; [congruence|]. rewrite find_val_cons_eq_deep. exact Hf.
    + assert (x < z).
      { apply lb_sibs_get_some with (r := r); auto. apply find_val_head_get with (t := tt). exact H. }
      rewrite find_val_cons_gt by auto. exact H.
Qed.


(* ------------------------------------------------------------------------------------------------ num_simplices_by_dimension *)
Definition incr (d : nat) (a : list Z) : list Z := firstn d a ++ [nth d a 0 + 1] ++ skipn (S d) a.
Lemma incr_0 x a : incr 0 (x :: a) = (x + 1) :: a.
Proof. reflexivity. Qed.
Lemma incr_S d x a : incr (S d) (x :: a) = x :: incr d a.
Proof. reflexivity. Qed.
Lemma incr_length : forall d a, (d < length a)%nat -> length (incr d a) = length a.
Proof.
  induction d as [|d IH]; intros [|x a] H; cbn [length] in *; try lia.
  - reflexivity.
  - rewrite incr_S. cbn [length]. rewrite IH by lia. reflexivity.
Qed.
Lemma incr_nth_same : forall d a, (d < length a)%nat -> nth d (incr d a) 0 = nth d a 0 + 1.
Proof.
  induction d as [|d IH]; intros [|x a] H; cbn [length] in *; try lia.
  - reflexivity.
  - rewrite incr_S. cbn [nth]. apply IH. lia.
Qed.
Lemma incr_nth_other : forall d a i, (d < length a)%nat -> i <> d -> nth i (incr d a) 0 = nth i a 0.
Proof.
  induction d as [|d IH]; intros [|x a] i H Hi; cbn [length] in *; try lia.
  - rewrite incr_0. destruct i; [congruence | reflexivity].
  - rewrite incr_S. destruct i; [reflexivity|]. cbn [nth]. apply IH; lia.
Qed.

Definition counts_sibs (d : nat) (l : sibs) (acc : list Z) : option (list Z) := counts_t (Node l) d acc.
Lemma counts_t_node l d acc : counts_t (Node l) d acc = counts_sibs d l acc.
Proof. reflexivity. Qed.
Lemma counts_fold_none d : forall l,
  fold_left (fun (o : option (list Z)) (e : Z * V * trie) =>
               let '(_, _, c) := e in
               match o with
               | None => None
               | Some a => if (d <? length a)%nat then counts_t c (S d) (firstn d a ++ [nth d a 0 + 1] ++ skipn (S d) a) else None
               end) l None = None.
Proof. induction l as [|[[x w] c] r IH]; cbn [fold_left]; auto. Qed.
Lemma counts_sibs_nil d acc : counts_sibs d [] acc = Some acc.
Proof. reflexivity. Qed.
Lemma counts_sibs_cons d x w c r acc :
  counts_sibs d ((x, w, c) :: r) acc =
  if (d <? length acc)%nat then
    match counts_t c (S d) (incr d acc) with Some a' => counts_sibs d r a' | None => None end
  else None.
Proof.
  unfold counts_sibs. cbn [counts_t fold_left]. fold (incr d acc).
  destruct (d <? length acc)%nat; [|apply counts_fold_none].
  destruct (counts_t c (S d) (incr d acc)); [reflexivity | apply counts_fold_none].
Qed.
Global Opaque counts_sibs.

(* res = acc + (number of words of l per depth), as far as positivity is concerned *)
Definition counts_rel (d : nat) (l : sibs) (acc res : list Z) : Prop :=
  length res = length acc /\
  (forall i, nth i acc 0 <= nth i res 0) /\
  (forall t', t' <> [] -> find_val t' l <> None ->
              nth (d + length t' - 1) acc 0 < nth (d + length t' - 1) res 0) /\
  (forall i, nth i acc 0 < nth i res 0 ->
             exists t', t' <> [] /\ find_val t' l <> None /\ (d + length t' - 1 = i)%nat).

Theorem counts_correct : forall l, wf l -> forall d acc res, counts_sibs d l acc = Some res -> counts_rel d l acc res.
Proof.
  apply (sibs_trie_ind (fun c => wf_t c -> forall d acc res, counts_t c d acc = Some res -> counts_rel d (kids c) acc res)
                       (fun l => wf l -> forall d acc res, counts_sibs d l acc = Some res -> counts_rel d l acc res)).
  - intros l H Hw d acc res Hc. cbn [kids]. apply H; auto; try (rewrite <- wf_t_node; auto).
  - intros _ d acc res H. rewrite counts_sibs_nil in H. inversion H; subst. unfold counts_rel.
    split; auto. split; [intros; lia|]. split.
    + intros t' _ Hf. rewrite find_val_nil_l in Hf. congruence.
    + intros i Hi. lia.
  - intros x w c r IHc IHr Hwf d acc res H. destruct c as [c0].
    pose proof Hwf as Hwf0. apply wf_cons in Hwf as (Hlb & Hc & Hr).
    rewrite counts_sibs_cons in H. destruct (d <? length acc)%nat eqn:Ed; [|discriminate].
    apply Nat.ltb_lt in Ed.
    destruct (counts_t (Node c0) (S d) (incr d acc)) as [a2|] eqn:E2; [|discriminate].
    destruct (IHc Hc (S d) (incr d acc) a2 E2) as (L1 & M1 & K1 & C1). cbn [kids] in *.
    destruct (IHr Hr d a2 res H) as (L2 & M2 & K2 & C2).
    assert (M0 : forall i, nth i acc 0 <= nth i (incr d acc) 0).
    { intro i. destruct (Nat.eq_dec i d) as [->|Hi]; [rewrite incr_nth_same by auto; lia | rewrite incr_nth_other by auto; lia]. }
    unfold counts_rel. split; [rewrite L2, L1; apply incr_length; auto|]. split.
    { intro i. specialize (M0 i). specialize (M1 i). specialize (M2 i). lia. } split.
    + intros t' Hne Hf. apply key_cons in Hf as [Hf|[(t'' & Hne'' & Heq & Hf)|Hf]]; auto.
      * subst t'. cbn [length]. replace (d + 1 - 1)%nat with d by lia.
        pose proof (incr_nth_same d acc Ed). specialize (M1 d). specialize (M2 d). lia.
      * subst t'. cbn [length]. replace (d + S (length t'') - 1)%nat with (S d + length t'' - 1)%nat by lia.
        specialize (K1 t'' Hne'' Hf). specialize (M0 (S d + length t'' - 1)%nat). specialize (M2 (S d + length t'' - 1)%nat). lia.
      * specialize (K2 t' Hne Hf). specialize (M0 (d + length t' - 1)%nat). specialize (M1 (d + length t' - 1)%nat). lia.
    + intros i Hi.
      destruct (Z_lt_ge_dec (nth i a2 0) (nth i res 0)) as [H3|H3].
      * destruct (C2 i H3) as (t' & Hne & Hf & Hidx). exists t'. repeat split; auto. apply key_cons; auto.
      * destruct (Z_lt_ge_dec (nth i (incr d acc) 0) (nth i a2 0)) as [H2|H2].
        -- destruct (C1 i H2) as (t'' & Hne & Hf & Hidx). exists (x :: t''). split; [congruence|]. split.
           ++ apply key_cons; auto; [congruence|]. right; left. exists t''. auto.
           ++ cbn [length]. lia.
        -- assert (Hid : i = d).
           { destruct (Nat.eq_dec i d); auto. rewrite incr_nth_other in H2 by auto. lia. }
           subst i. exists [x]. split; [congruence|]. split; [rewrite find_val_cons_eq_one; congruence | cbn [length]; lia].
Qed.

(* pop_back while back() == 0 *)
Lemma strip_zeros_spec : forall r, exists zs, r = zs ++ strip_zeros r /\ Forall (eq 0) zs /\
                                              (strip_zeros r = [] \/ hd 0 (strip_zeros r) <> 0).
Proof.
  induction r as [|y r IH].
  - exists []. cbn. auto.
  - destruct (Z.eq_dec y 0) as [->|Hy].
    + destruct IH as (zs & H1 & H2 & H3). exists (0 :: zs). cbn [strip_zeros app]. split; [f_equal; auto|]. split; auto.
    + exists []. assert (strip_zeros (y :: r) = y :: r) as -> by (destruct y; try reflexivity; congruence).
      cbn [app hd]. auto.
Qed.
Lemma strip_back_spec res : let res' := rev (strip_zeros (rev res)) in
  exists zs, res = res' ++ zs /\ Forall (eq 0) zs /\ (res' = [] \/ nth (length res' - 1) res' 0 <> 0).
Proof.
  intro res'. destruct (strip_zeros_spec (rev res)) as (zs & H1 & H2 & H3).
  exists (rev zs). split; [|split].
  - unfold res'. rewrite <- rev_app_distr, <- H1, rev_involutive. reflexivity.
  - rewrite Forall_forall in *. intros u Hu. apply H2. apply in_rev; auto.
  - unfold res'. destruct (strip_zeros (rev res)) as [|y q]; [left; reflexivity|]. right. cbn [hd] in H3.
    destruct H3 as [H3|H3]; [discriminate|]. cbn [rev]. rewrite app_length. cbn [length].
    replace (length (rev q) + 1 - 1)%nat with (length (rev q)) by lia. rewrite app_nth2 by lia.
    rewrite Nat.sub_diag. exact H3.
Qed.
Lemma nth_zeros zs k : Forall (eq 0) zs -> nth k zs 0 = 0.
Proof.
  intro H. destruct (Nat.lt_ge_cases k (length zs)) as [Hk|Hk]; [|apply nth_overflow; auto].
  rewrite Forall_forall in H. symmetry. apply H. apply nth_In; auto.
Qed.
Lemma nth_repeat0 n k : nth k (repeat 0 n) 0 = 0.
Proof. apply nth_zeros. rewrite Forall_forall. intros u Hu. apply repeat_spec in Hu. auto. Qed.

(* the write-back of num_simplices_by_dimension when a recomputation was pending *)
Lemma count_by_dim_dirty st res :
  wf (tree st) -> tree st <> [] ->
  counts_t (Node (tree st)) 0 (repeat 0 (Z.to_nat (Z.min (dim_ub st + 1) 41))) = Some res ->
  let res' := rev (strip_zeros (rev res)) in
  (forall t, t <> [] -> find_val t (tree st) <> None -> sdim t <= Z.of_nat (length res') - 1) /\
  (exists t, t <> [] /\ find_val t (tree st) <> None /\ sdim t = Z.of_nat (length res') - 1).
Proof.
  intros Hwf Hne Hc res'. rewrite counts_t_node in Hc.
  destruct (counts_correct _ Hwf _ _ _ Hc) as (L & M & Kp & Cv).
  destruct (strip_back_spec res) as (zs & Hres & Hz & Hlast). fold res' in Hres, Hlast.
  assert (Hpos : forall t, t <> [] -> find_val t (tree st) <> None -> (length t - 1 < length res')%nat).
  { intros t Ht Hf. specialize (Kp t Ht Hf). cbn [Nat.add] in Kp. rewrite nth_repeat0 in Kp.
    destruct (Nat.lt_ge_cases (length t - 1) (length res')) as [Hk|Hk]; auto. exfalso.
    rewrite Hres, app_nth2, nth_zeros in Kp by auto. lia. }
  split.
  - intros t Ht Hf. specialize (Hpos t Ht Hf). unfold sdim. destruct t; [congruence|]. cbn [length] in *. lia.
  - destruct Hlast as [Hnil|Hnz].
    + exfalso. destruct (nonnil_vertex _ Hne) as (x & Hx). specialize (Hpos [x]). rewrite Hnil in Hpos. cbn [length] in Hpos.
      assert ((0 < 0)%nat); [apply Hpos; [congruence | exact Hx] | lia].
    + assert (Hl : (0 < length res')%nat).
      { destruct res'; [cbn in Hnz; congruence | cbn; lia]. }
      assert (Hgt : nth (length res' - 1) (repeat 0 (Z.to_nat (Z.min (dim_ub st + 1) 41))) 0 < nth (length res' - 1) res 0).
      { rewrite nth_repeat0. rewrite Hres, app_nth1 by lia.
        specialize (M (length res' - 1)%nat). rewrite nth_repeat0, Hres, app_nth1 in M by lia. lia. }
      destruct (Cv _ Hgt) as (t & Ht & Hf & Hidx). exists t. split; auto. split; auto.
      unfold sdim. cbn [Nat.add] in Hidx. destruct t; [congruence|]. cbn [length] in *. lia.
Qed.

Definition refined_op (o : op) : bool :=
  match o with
  | OInsert _ _ | OInsertSub _ _ | OBatch _ _ | OGraph _ _ | ORemove _ | OPruneF _ | OPruneD _ | OClear | ODim | OCount => true
  | _ => false
  end.

Lemma is_some_find_val t l : is_some (find t l) = is_some (find_val t l).
Proof. unfold find_val. destruct (find t l); reflexivity. Qed.
Lemma sdim_nonneg (t : simplex) : t <> [] -> 0 <= sdim t.
Proof. destruct t; [congruence|]. intros _. unfold sdim. cbn [length]. lia. Qed.

Lemma step_ub_valid fx st K o :
  agree (tree st) K -> ub_valid st -> good K = true -> refined_op o = true -> pre_op K o = true ->
  ub_valid (step fx st o).
Proof.
  intros [Hwf Ha] Hub Hg Hr Hpre. destruct o; try discriminate; cbn [step].
  - (* insert_simplex *)
    cbn [pre_op] in Hpre. apply andb_true_iff in Hpre as [Hpre _]. apply andb_true_iff in Hpre as [Hne _].
    assert (Hs : norm s <> []) by (apply norm_nonnil; destruct s; [discriminate | congruence]).
    set (ub' := if negb (is_some (find (norm s) (tree st))) && (dim_ub st <? sdim (norm s)) then sdim (norm s) else dim_ub st).
    assert (H1 : dim_ub st <= ub' /\ sdim (norm s) <= ub').
    { unfold ub'. rewrite is_some_find_val. destruct (find_val (norm s) (tree st)) eqn:E; cbn [is_some negb andb].
      - split; [lia|]. apply Hub; auto. congruence.
      - destruct (dim_ub st <? sdim (norm s)) eqn:E2; lia. }
    intros t Ht. cbn [tree dim_ub]. fold ub'. rewrite find_ins_raw by auto.
    destruct (seqb t (norm s)) eqn:E.
    + apply seqb_eq in E; subst. lia.
    + destruct (prefixb t (norm s)) eqn:Ep; cbn [andb].
      * intros _. apply prefixb_length in Ep. unfold sdim in *. lia.
      * intro H. specialize (Hub t Ht H). lia.
  - (* insert_simplex_and_subfaces *)
    destruct (norm s) as [|x r] eqn:En; auto.
    rewrite <- En in *. assert (Hs : norm s <> []) by congruence.
    intros t Ht. cbn [tree dim_ub].
    pose proof (find_ins_sub (norm s) v (tree st) (norm_sorted s) Hs (good_exit_ok K _ _ _ Hg (conj Hwf Ha))) as [_ Hf].
    rewrite Hf by auto. destruct (subseq t (norm s)) eqn:E.
    + intros _. apply subseq_length in E. unfold sdim. lia.
    + intro H. specialize (Hub t Ht H). lia.
  - (* insert_batch_vertices *)
    intros t Ht. cbn [tree dim_ub]. intro H.
    assert (Hnn : is_nil (ins_batch vs v (tree st)) = false).
    { destruct (ins_batch vs v (tree st)); auto. rewrite find_val_nil_l in H. congruence. }
    rewrite Hnn. cbn [negb]. rewrite andb_true_r.
    rewrite find_ins_batch in H by auto.
    assert (Hcase : t = [hd 0 t] \/ find_val t (tree st) <> None).
    { destruct t as [|z [|z' t']]; [congruence | left; reflexivity | right; exact H]. }
    destruct Hcase as [Ht1|Hold].
    + rewrite Ht1. unfold sdim; cbn [length]. destruct (dim_ub st <? 0) eqn:E; lia.
    + specialize (Hub t Ht Hold). pose proof (sdim_nonneg t Ht). destruct (dim_ub st <? 0) eqn:E; lia.
  - (* insert_graph *)
    destruct vw as [|w0 vw']; auto.
    pose proof (step_agree_graph fx st K (w0 :: vw') es (conj Hwf Ha) Hpre) as [_ Hag].
    cbn [step spec_step tree] in Hag.
    cbn [pre_op] in Hpre. apply andb_true_iff in Hpre as [_ Hok].
    pose proof (spec_graph_klen (w0 :: vw') es Hok) as Hkl.
    intros t Ht Hf. cbn [tree dim_ub] in *. rewrite Hag in Hf by auto. destruct (Hkl t Hf) as [Hlen _].
    unfold sdim. destruct (is_nil es); lia.
  - (* remove_maximal_simplex *)
    cbn [pre_op] in Hpre. apply andb_true_iff in Hpre as [Hmem Hcof].
    destruct (rm_max (norm s) (tree st) true) as [t0 e] eqn:Er.
    assert (Ht0 : t0 = fst (rm_max (norm s) (tree st) true)) by (rewrite Er; reflexivity).
    intros t Ht. cbn [tree dim_ub]. intro H.
    assert (Hnn : is_nil t0 = false).
    { destruct t0; auto. rewrite find_val_nil_l in H. congruence. }
    rewrite Hnn, andb_false_r. subst t0.
    destruct (norm s) as [|x r] eqn:En.
    + cbn [rm_max fst] in H. apply Hub; auto.
    + rewrite <- En in *. assert (Hs : norm s <> []) by congruence.
      assert (Hin : find_val (norm s) (tree st) <> None).
      { rewrite Ha by auto. unfold cmem in Hmem. destruct (lookup K (norm s)); [congruence | discriminate]. }
      rewrite find_rm_max in H by auto. destruct (prefixb (norm s) t); [congruence|]. apply Hub; auto.
  - (* prune_above_filtration *)
    intros t Ht. cbn [tree dim_ub]. change (kids (prune_f f (Node (tree st)))) with (prune_sibs f (tree st)).
    rewrite find_prune by auto. destruct (path_le f t (tree st)); [|congruence]. apply Hub; auto.
  - (* prune_above_dimension *)
    destruct (dim_ub st <=? d) eqn:E1; auto.
    destruct (d <? 0) eqn:E2.
    + destruct (is_nil (tree st)); auto. intros t Ht. cbn [tree]. rewrite find_val_nil_l. congruence.
    + rewrite trunc_node. cbn [kids].
      destruct (size_t (Node (trunc_sibs (tree st) (Z.to_nat d))) =? size_t (Node (tree st))); auto.
      intros t Ht. cbn [tree dim_ub]. rewrite find_trunc by auto.
      destruct (length t <=? S (Z.to_nat d))%nat eqn:E3; [|congruence]. intros _. unfold sdim. lia.
  - (* clear *)
    intros t Ht. cbn [tree]. rewrite find_val_nil_l. congruence.
  - (* dimension() *)
    unfold dimension. destruct (dirty st); cbn [fst]; auto.
    intros t Ht. cbn [lower_ub tree dim_ub]. intro H. specialize (Hub t Ht H).
    pose proof (find_height t (tree st) H). unfold exact_dim. destruct (dim_ub st <=? height_t (Node (tree st))); lia.
  - (* num_simplices_by_dimension() *)
    unfold count_by_dim. destruct (is_empty st) eqn:Ee; cbn [fst]; auto.
    destruct (counts_t (Node (tree st)) 0 (repeat 0 (Z.to_nat (Z.min (dim_ub st + 1) 41)))) as [res|] eqn:Ec; cbn [fst]; auto.
    destruct (dirty st); cbn [fst]; auto.
    assert (Hne : tree st <> []) by (unfold is_empty in Ee; destruct (tree st); [discriminate | congruence]).
    destruct (count_by_dim_dirty st res Hwf Hne Ec) as [H1 _].
    intros t Ht Hf. cbn [tree dim_ub] in *. apply H1; auto.
Qed.

Definition inv (st : state) (K : cplx) : Prop := agree (tree st) K /\ ub_valid st.

Lemma step_inv fx st K o :
  inv st K -> good K = true -> refined_op o = true -> pre_op K o = true -> good (spec_step K o) = true ->
  inv (step fx st o) (spec_step K o).
Proof.
  intros [Ha Hub] Hg Hr Hpre Hg'. split; [|eapply step_ub_valid; eauto].
  destruct o; try discriminate.
  - apply step_agree; auto.
  - apply step_agree; auto.
  - apply step_agree; auto.
  - apply step_agree_graph; auto.
  - apply step_agree; auto.
  - apply step_agree_prune_f; auto.
  - apply step_agree_prune_d; auto.
  - apply step_agree; auto.
  - apply step_agree; auto.
  - apply step_agree; auto.
Qed.

Lemma run_inv fx : forall ops st K,
  inv st K -> good K = true -> forallb refined_op ops = true -> ok_from K ops = true ->
  inv (fold_left (step fx) ops st) (fold_left spec_step ops K).
Proof.
  induction ops as [|o ops IH]; intros st K Ha Hg Hp Hok; cbn [fold_left]; auto.
  cbn [forallb] in Hp. apply andb_true_iff in Hp as [Hp1 Hp2].
  cbn [ok_from] in Hok. apply andb_true_iff in Hok as [Hok Hok3]. apply andb_true_iff in Hok as [Hok1 Hok2].
  apply IH; auto. apply step_inv; auto.
Qed.

(* insertions (alone / with all faces), batch vertices, maximal-simplex removals, both prunings, clear, dimension():
   after any history that respects the documented preconditions the tree is well formed, holds exactly the
   specification's finite map, and the cached dimension bounds the dimension of every stored simplex *)
Theorem history_refines fx ops :
  forallb refined_op ops = true -> ok_history ops = true ->
  wf (tree (run fx ops)) /\
  (forall t, t <> [] -> find_val t (tree (run fx ops)) = lookup (spec_run ops) t) /\
  (forall t, t <> [] -> lookup (spec_run ops) t <> None -> sdim t <= dim_ub (run fx ops)).
Proof.
  intros Hp Hok.
  assert (H0 : inv empty_state []).
  { split; [split; [apply wf_nil|] |]; intros t _; cbn [tree empty_state]; rewrite find_val_nil_l; [reflexivity | congruence]. }
  destruct (run_inv fx ops empty_state [] H0 eq_refl Hp Hok) as [[Hwf Ha] Hub].
  split; [exact Hwf|]. split; [exact Ha|]. intros t Ht Hl. apply Hub; auto. unfold run. rewrite Ha by auto. exact Hl.
Qed.

(* ------------------------------------------------------------------------------------------------ witnesses *)
(* F1: the unrepaired cofaces_simplex_range (fx = false) returns no star for a simplex of maximal dimension *)
Lemma star_top_dim_refuted_lemma :
  exists ops s, ok_history ops = true /\ cmem (spec_run ops) s = true /\
                cofaces_unlinked false (run false ops) s 0 = [] /\ In s (star (spec_run ops) s) /\
                cofaces_linked (run false ops) s 0 = [s].
Proof. exists [OInsertSub [0] 3], [0]. repeat split; try reflexivity. left; reflexivity. Qed.
(* F2: removing the last vertex leaves the cached dimension at 0 with no recomputation pending *)
Lemma dimension_after_emptying_refuted_lemma :
  exists ops, ok_history ops = true /\ spec_run ops = [] /\
              snd (dimension (run false ops)) <> cdim (spec_run ops) /\ eq_empty (run false ops) = false.
Proof. exists [OInsertSub [0] 3; ORemove [0]]. repeat split; try reflexivity. cbn. lia. Qed.
(* F3: expansion of the empty tree *)
Lemma expansion_empty_dimension_refuted_lemma :
  exists ops, ok_history ops = true /\ spec_run ops = [] /\ snd (dimension (run false ops)) = 0 /\ cdim (spec_run ops) = -1.
Proof. exists [OExpand 3]. repeat split; reflexivity. Qed.
(* the repaired model on the same three histories *)
Lemma repaired_on_witnesses :
  cofaces_unlinked true (run true [OInsertSub [0] 3]) [0] 0 = [[0]] /\
  snd (dimension (run true [OInsertSub [0] 3; ORemove [0]])) = -1 /\
  snd (dimension (run true [OExpand 3])) = -1.
Proof. repeat split; reflexivity. Qed.

(* non-vacuity: a history over 5 vertices that uses every refined operation and satisfies the hypotheses *)
Definition example_history : list op :=
  [OBatch [4; 0] 1; OInsertSub [3; 1; 2] 2; OInsertSub [0; 1] 3; OInsert [0; 2] 5; ODim; OInsertSub [2; 1; 3] 1;
   ORemove [1; 2; 3]; OPruneD 1; OInsertSub [0; 1; 2] 7; OPruneF 5; ORemove [4]; ODim; OInsertSub [1; 2; 3; 4] 0;
   OPruneD 2; OCount; OClear; OGraph [0; 0; 1] [(0, 1, 2); (2, 1, 2); (1, 0, 5)]; OInsert [7] 0].
Lemma example_history_ok :
  forallb refined_op example_history = true /\ ok_history example_history = true /\
  length (spec_run (firstn 14 example_history)) = 17%nat.
Proof. repeat split; vm_compute; reflexivity. Qed.

(* ------------------------------------------------------------------------------------------------ enumeration *)
Theorem in_abs : forall l, wf l -> forall t v, In (t, v) (abs l) <-> (t <> [] /\ find_val t l = Some v).
Proof.
  apply (sibs_trie_ind (fun c => wf_t c -> forall t v, In (t, v) (abs_t c) <-> (t <> [] /\ find_val t (kids c) = Some v))
                       (fun l => wf l -> forall t v, In (t, v) (abs l) <-> (t <> [] /\ find_val t l = Some v))).
  - intros l H Hw t v. cbn [kids]. apply H. rewrite <- wf_t_node. exact Hw.
  - intros _ t v. cbn. rewrite find_val_nil_l. split; [tauto | intros [_ H]; discriminate].
  - intros x w c r IHc IHr Hwf t v. apply wf_cons in Hwf as (Hlb & Hc & Hr).
    rewrite abs_cons, in_app_iff. cbn [In]. rewrite in_map_iff. split.
    + intros [[H|H]|H].
      * inversion H; subst. split; [congruence | apply find_val_cons_eq_one].
      * destruct H as ([k v'] & Heq & Hin). cbn [fst snd] in Heq. inversion Heq; subst.
        apply IHc in Hin as [Hk Hf]; auto. split; [congruence|].
        destruct c as [c0]. destruct k as [|y k']; [congruence|]. rewrite find_val_cons_eq_deep. exact Hf.
      * apply IHr in H as [Ht Hf]; auto. split; auto.
        destruct t as [|z t']; [congruence|].
        assert (x < z).
        { apply lb_sibs_get_some with (r := r); auto. apply find_val_head_get with (t := t'). congruence. }
        rewrite find_val_cons_gt by auto. exact Hf.
    + intros [Ht Hf]. destruct t as [|z t']; [congruence|].
      destruct (Z.compare_spec z x) as [E|E|E].
      * subst z. left. destruct t' as [|y t''].
        -- left. rewrite find_val_cons_eq_one in Hf. inversion Hf; subst; reflexivity.
        -- right. destruct c as [c0]. rewrite find_val_cons_eq_deep in Hf.
           exists (y :: t'', v). split; auto. apply IHc; auto. split; [congruence | exact Hf].
      * rewrite find_val_cons_lt in Hf by auto. discriminate.
      * rewrite find_val_cons_gt in Hf by auto. right. apply IHr; auto.
Qed.

Lemma NoDup_app_disjoint {A} (l1 l2 : list A) :
  NoDup l1 -> NoDup l2 -> (forall a, In a l1 -> ~ In a l2) -> NoDup (l1 ++ l2).
Proof.
  induction l1 as [|a l1 IH]; intros H1 H2 Hd; cbn [app]; auto.
  inversion H1; subst. constructor.
  - rewrite in_app_iff. intros [H|H]; [contradiction | apply (Hd a); [left; auto | auto]].
  - apply IH; auto. intros b Hb. apply Hd. right; auto.
Qed.
Lemma NoDup_map_cons (x : Z) (ks : list simplex) : NoDup ks -> NoDup (map (cons x) ks).
Proof.
  induction 1 as [|k ks Hk Hnd IH]; cbn [map]; constructor; auto.
  rewrite in_map_iff. intros (k' & Heq & Hin). inversion Heq; subst. contradiction.
Qed.

Theorem nodup_abs : forall l, wf l -> NoDup (keys (abs l)).
Proof.
  apply (sibs_trie_ind (fun c => wf_t c -> NoDup (keys (abs_t c))) (fun l => wf l -> NoDup (keys (abs l)))).
  - intros l H Hw. apply H. rewrite <- wf_t_node. exact Hw.
  - intros _. constructor.
  - intros x w c r IHc IHr Hwf. pose proof Hwf as Hwf0. apply wf_cons in Hwf as (Hlb & Hc & Hr).
    rewrite abs_cons. unfold keys. rewrite map_app. cbn [map fst]. rewrite map_map. cbn [fst].
    change (NoDup (([x] :: map (fun p : simplex * V => x :: fst p) (abs_t c)) ++ keys (abs r))).
    assert (Hmm : map (fun p : simplex * V => x :: fst p) (abs_t c) = map (cons x) (keys (abs_t c))).
    { unfold keys. rewrite map_map. reflexivity. }
    rewrite Hmm. apply NoDup_app_disjoint.
    + constructor.
      * rewrite in_map_iff. intros (k & Heq & Hin). inversion Heq; subst.
        unfold keys in Hin. apply in_map_iff in Hin as ([k v] & Hk & Hin). cbn in Hk; subst.
        destruct c as [c0]. apply (in_abs c0) in Hin as [Hne _]; [congruence | rewrite <- wf_t_node; auto].
      * apply NoDup_map_cons. apply IHc; auto.
    + apply IHr; auto.
    + intros t Hin1 Hin2.
      assert (Hx : exists t', t = x :: t').
      { destruct Hin1 as [<-|Hin1]; [eexists; reflexivity|]. apply in_map_iff in Hin1 as (k & <- & _). eexists; reflexivity. }
      destruct Hx as (t' & ->).
      unfold keys in Hin2. apply in_map_iff in Hin2 as ([k v] & Hk & Hin2). cbn in Hk; subst.
      apply in_abs in Hin2 as [_ Hf]; auto.
      assert (x < x); [|lia].
      apply lb_sibs_get_some with (r := r); auto. apply find_val_head_get with (t := t'). congruence.
Qed.

Theorem enum_perm : forall t, Permutation (enum_t t) (abs_t t).
Proof.
  apply (trie_sibs_ind (fun t => Permutation (enum_t t) (abs_t t))
                       (fun l => Permutation (enum_t (Node l)) (abs_t (Node l)))); auto.
  intros x w c r Hc Hr.
    change (Permutation ((map (fun p => (x :: fst p, snd p)) (enum_t c) ++ [([x], w)]) ++ enum_t (Node r))
                        ((([x], w) :: map (fun p => (x :: fst p, snd p)) (abs_t c)) ++ abs_t (Node r))).
    apply Permutation_app; auto.
    eapply Permutation_trans; [apply Permutation_sym, Permutation_cons_append|].
    constructor. apply Permutation_map. exact Hc.
Qed.

(* complex_simplex_range: every stored simplex exactly once, with its value *)
Theorem enumeration_is_keys : forall l, wf l ->
  NoDup (map fst (enum_t (Node l))) /\
  forall t v, In (t, v) (enum_t (Node l)) <-> (t <> [] /\ find_val t l = Some v).
Proof.
  intros l Hwf. pose proof (enum_perm (Node l)) as Hp. split.
  - eapply Permutation_NoDup; [apply Permutation_sym, Permutation_map, Hp|]. apply (nodup_abs l Hwf).
  - intros t v. rewrite <- (in_abs l Hwf). split; intro H.
    + eapply Permutation_in; eauto.
    + eapply Permutation_in; [apply Permutation_sym|]; eauto.
Qed.

(* ------------------------------------------------------------------------------------------------ exact dimension *)
(* when no recomputation is pending the cached dimension is attained (or the tree is empty and it is -1) *)
Definition dim_attained (st : state) : Prop :=
  (tree st = [] /\ dim_ub st = -1) \/ (exists t, t <> [] /\ find_val t (tree st) <> None /\ sdim t = dim_ub st).
Definition dim_exact (st : state) : Prop := dirty st = false -> dim_attained st.

Lemma height_nil : height_t (Node []) = -1.
Proof. reflexivity. Qed.
Lemma height_witness : forall l, wf l -> l <> [] ->
  exists t, t <> [] /\ find_val t l <> None /\ sdim t = height_t (Node l).
Proof.
  apply (sibs_trie_ind (fun c => wf_t c -> kids c <> [] -> exists t, t <> [] /\ find_val t (kids c) <> None /\ sdim t = height_t c)
                       (fun l => wf l -> l <> [] -> exists t, t <> [] /\ find_val t l <> None /\ sdim t = height_t (Node l))).
  - intros l H Hw Hne. cbn [kids] in *. apply H; auto; try (rewrite <- wf_t_node; auto).
  - intros _ H; congruence.
  - intros x w c r IHc IHr Hwf _. apply wf_cons in Hwf as (Hlb & Hc & Hr). rewrite height_node_cons.
    destruct (Z_le_gt_dec (height_t (Node r)) (1 + height_t c)) as [Hle|Hgt].
    + rewrite Z.max_l by lia. destruct c as [[|e c0]].
      * exists [x]. split; [congruence|]. split; [rewrite find_val_cons_eq_one; congruence | reflexivity].
      * destruct IHc as (t & Ht & Hf & Hd); auto; [cbn; congruence|]. cbn [kids] in Hf.
        exists (x :: t). split; [congruence|]. split.
        -- destruct t as [|y t']; [congruence|]. rewrite find_val_cons_eq_deep. exact Hf.
        -- unfold sdim in *. cbn [length]. lia.
    + rewrite Z.max_r by lia.
      assert (Hrne : r <> []). { intro; subst. rewrite height_nil in Hgt. pose proof (height_lb c). lia. }
      destruct (IHr Hr Hrne) as (t & Ht & Hf & Hd). exists t. split; auto. split; auto.
      destruct t as [|z t']; [congruence|].
      assert (x < z).
      { apply lb_sibs_get_some with (r := r); auto. apply find_val_head_get with (t := t'). exact Hf. }
      rewrite find_val_cons_gt by auto. exact Hf.
Qed.

(* rm_max: when no Siblings was emptied, a simplex of the same dimension is left *)
Lemma del_length x : forall l, (length l <= S (length (del x l)))%nat.
Proof.
  induction l as [|[[y w] c] r IH]; cbn [del length]; auto.
  zcmp x y; cbn [length]; lia.
Qed.
Lemma rm_max_nonnil s : forall l, s <> [] -> find_val s l <> None -> snd (rm_max s l false) = false ->
  fst (rm_max s l false) <> [].
Proof.
  destruct s as [|x [|y r]]; intros l Hs Hf He; [congruence| |].
  - rewrite rm_max_one in *. cbn [fst snd negb andb] in *.
    pose proof (del_length x l). destruct (del x l); [cbn [length] in *; lia | congruence].
  - rewrite rm_max_cons2 in *. rewrite find_val_deep in Hf.
    destruct (get x l) as [[w [c]]|] eqn:E; [|congruence].
    destruct (rm_max (y :: r) c false) as [c' e]. cbn [fst].
    intro Hn. assert (get x (put x w (Node c') l) = Some (w, Node c')) by apply get_put_same.
    rewrite Hn in H. discriminate.
Qed.
Lemma rm_max_witness s : forall l a, wf l -> s <> [] -> find_val s l <> None ->
  snd (rm_max s l a) = false -> fst (rm_max s l a) <> [] ->
  exists t, length t = length s /\ find_val t (fst (rm_max s l a)) <> None.
Proof.
  induction s as [|x [|y r] IH]; intros l a Hwf Hs Hf He Hne; [congruence| |].
  - rewrite rm_max_one in *. cbn [fst] in *. destruct (nonnil_vertex _ Hne) as (z & Hz). exists [z]. auto.
  - rewrite rm_max_cons2 in *. rewrite find_val_deep in Hf.
    destruct (get x l) as [[w [c]]|] eqn:E; [|congruence].
    assert (Hc : wf c) by (rewrite <- wf_t_node; eapply wf_get; eauto).
    pose proof (rm_max_nonnil (y :: r) c) as Hnn. specialize (IH c false Hc).
    destruct (rm_max (y :: r) c false) as [c' e]. cbn [fst snd] in *.
    assert (Hyr : y :: r <> []) by congruence.
    destruct (IH Hyr Hf He (Hnn Hyr Hf He)) as (t & Hlen & Hft).
    exists (x :: t). split; [cbn [length] in *; lia|].
    destruct t as [|z t']; [cbn in Hlen; lia|]. rewrite find_val_deep, get_put_same. exact Hft.
Qed.

(* prune_above_filtration that removes nothing is the identity *)
Lemma prune_size f : forall l,
  size_t (Node (prune_sibs f l)) <= size_t (Node l) /\
  (size_t (Node (prune_sibs f l)) = size_t (Node l) -> prune_sibs f l = l).
Proof.
  apply (sibs_trie_ind (fun t => size_t (prune_f f t) <= size_t t /\ (size_t (prune_f f t) = size_t t -> prune_f f t = t))
                       (fun l => size_t (Node (prune_sibs f l)) <= size_t (Node l) /\
                                 (size_t (Node (prune_sibs f l)) = size_t (Node l) -> prune_sibs f l = l))).
  - intros l [H1 H2]. rewrite prune_f_node. split; auto. intro E. f_equal. auto.
  - rewrite prune_sibs_nil. split; auto. lia.
  - intros x w c r [Hc1 Hc2] [Hr1 Hr2]. rewrite prune_sibs_cons.
    pose proof (size_nonneg c). destruct (f <? w).
    + rewrite size_node_cons. split; [lia|]. intro E. lia.
    + rewrite !size_node_cons. split; [lia|]. intro E. rewrite Hc2 by lia. rewrite Hr2 by lia. reflexivity.
Qed.

(* prune_above_dimension that removes something leaves a simplex of the new dimension *)
Lemma trunc_witness : forall l, wf l -> forall k,
  size_t (Node (trunc_sibs l k)) <> size_t (Node l) ->
  exists t, length t = S k /\ find_val t l <> None.
Proof.
  apply (sibs_trie_ind (fun c => wf_t c -> forall k, size_t (trunc c k) <> size_t c ->
                                 exists t, length t = S k /\ find_val t (kids c) <> None)
                       (fun l => wf l -> forall k, size_t (Node (trunc_sibs l k)) <> size_t (Node l) ->
                                 exists t, length t = S k /\ find_val t l <> None)).
  - intros l H Hw k Hs. rewrite trunc_node in Hs. cbn [kids]. apply H; auto; try (rewrite <- wf_t_node; auto).
  - intros _ k H. cbn in H. congruence.
  - intros x w c r IHc IHr Hwf k Hs. apply wf_cons in Hwf as (Hlb & Hc & Hr).
    cbn [trunc_sibs map] in Hs. fold (trunc_sibs r k) in Hs. rewrite !size_node_cons in Hs.
    destruct (Z.eq_dec (size_t (cut k c)) (size_t c)) as [Ec|Ec].
    + destruct (IHr Hr k) as (t & Hlen & Hf); [lia|]. exists t. split; auto.
      destruct t as [|z t']; [discriminate|].
      assert (x < z).
      { apply lb_sibs_get_some with (r := r); auto. apply find_val_head_get with (t := t'). exact Hf. }
      rewrite find_val_cons_gt by auto. exact Hf.
    + destruct k as [|k']; cbn [cut] in Ec.
      * exists [x]. split; auto. rewrite find_val_cons_eq_one. congruence.
      * destruct (IHc Hc k' Ec) as (t & Hlen & Hf). exists (x :: t). split; [cbn [length]; lia|].
        destruct c as [c0]. cbn [kids] in Hf. destruct t as [|y t']; [discriminate|].
        rewrite find_val_cons_eq_deep. exact Hf.
Qed.

Definition lb_ok (st : state) : Prop := -1 <= dim_ub st.
Lemma sdim_lb (t : simplex) : -1 <= sdim t.
Proof. unfold sdim. lia. Qed.

Lemma step_lb fx st o : lb_ok st -> refined_op o = true -> lb_ok (step fx st o).
Proof.
  unfold lb_ok. intros H Hr. destruct o; try discriminate; cbn [step].
  - cbn [dim_ub]. pose proof (sdim_lb (norm s)). destruct (_ && _); lia.
  - destruct (norm s) eqn:E; auto. cbn [dim_ub]. lia.
  - cbn [dim_ub]. destruct (_ && _); lia.
  - destruct vw; auto. cbn [dim_ub]. destruct (is_nil es); lia.
  - destruct (rm_max (norm s) (tree st) true) as [t e]. cbn [dim_ub]. destruct (_ && _); lia.
  - cbn [dim_ub]. lia.
  - destruct (dim_ub st <=? d) eqn:E1; auto. destruct (d <? 0) eqn:E2.
    + destruct (is_nil (tree st)); auto. cbn [dim_ub]. lia.
    + destruct (_ =? _); auto. cbn [dim_ub]. lia.
  - unfold dimension. destruct (dirty st); cbn [fst]; auto. cbn [lower_ub dim_ub].
    pose proof (height_lb (Node (tree st))). unfold exact_dim. destruct (_ <=? _); lia.
  - unfold count_by_dim. destruct (is_empty st); cbn [fst]; auto.
    destruct (counts_t _ _ _); cbn [fst]; auto. destruct (dirty st); cbn [fst]; auto. cbn [dim_ub]. lia.
Qed.

Lemma present_ins_raw s v l t : s <> [] -> t <> [] -> find_val t l <> None -> find_val t (ins_raw s v l) <> None.
Proof.
  intros Hs Ht H. rewrite find_ins_raw by auto.
  destruct (seqb t s); [congruence|]. destruct (prefixb t s && negb (is_some (find_val t l))); congruence.
Qed.

Lemma step_dim_exact st K o :
  inv st K -> good K = true -> lb_ok st -> dim_exact st -> refined_op o = true -> pre_op K o = true ->
  dim_exact (step true st o).
Proof.
  intros [[Hwf Ha] Hub] Hg Hlb Hex Hr Hpre. unfold dim_exact in *. destruct o; try discriminate; cbn [step].
  - (* insert_simplex *)
    cbn [pre_op] in Hpre. apply andb_true_iff in Hpre as [Hpre _]. apply andb_true_iff in Hpre as [Hne _].
    assert (Hs : norm s <> []) by (apply norm_nonnil; destruct s; [discriminate | congruence]).
    cbn [dirty]. intro Hd. specialize (Hex Hd). unfold dim_attained. cbn [tree dim_ub].
    assert (Hsp : find_val (norm s) (ins_raw (norm s) v (tree st)) <> None).
    { rewrite find_ins_raw by auto. rewrite seqb_refl. congruence. }
    rewrite is_some_find_val.
    destruct (negb (is_some (find_val (norm s) (tree st))) && (dim_ub st <? sdim (norm s))) eqn:E.
    + right. exists (norm s). auto.
    + destruct Hex as [[Hnil Hm1]|(t & Ht & Hf & Hdm)].
      * exfalso. rewrite Hnil, find_val_nil_l, Hm1 in E. cbn [is_some negb andb] in E.
        pose proof (sdim_nonneg _ Hs). lia.
      * right. exists t. split; auto. split; auto. apply present_ins_raw; auto.
  - (* insert_simplex_and_subfaces *)
    destruct (norm s) as [|x r] eqn:En; auto.
    rewrite <- En in *. assert (Hs : norm s <> []) by congruence.
    cbn [dirty]. intro Hd. specialize (Hex Hd). unfold dim_attained. cbn [tree dim_ub]. right.
    pose proof (find_ins_sub (norm s) v (tree st) (norm_sorted s) Hs (good_exit_ok K _ _ _ Hg (conj Hwf Ha))) as [_ Hf].
    destruct (Z_le_gt_dec (dim_ub st) (sdim (norm s))) as [Hle|Hgt].
    + exists (norm s). split; auto. split; [|lia]. rewrite Hf by auto. rewrite subseq_refl. congruence.
    + destruct Hex as [[Hnil Hm1]|(t & Ht & Hft & Hdm)].
      * pose proof (sdim_nonneg _ Hs). lia.
      * exists t. split; auto. split; [|lia]. rewrite Hf by auto. destruct (subseq t (norm s)); congruence.
  - (* insert_batch_vertices *)
    cbn [dirty]. intro Hd. specialize (Hex Hd). unfold dim_attained. cbn [tree dim_ub].
    destruct Hex as [[Hnil Hm1]|(t & Ht & Hft & Hdm)].
    + rewrite Hm1. destruct (ins_batch vs v (tree st)) as [|e l'] eqn:Eb.
      * left. auto.
      * right. cbn [is_nil negb andb]. destruct (nonnil_vertex (e :: l')) as (z & Hz); [congruence|].
        exists [z]. split; [congruence|]. split; auto.
    + right. pose proof (sdim_nonneg _ Ht). assert (dim_ub st <? 0 = false) as -> by lia. cbn [andb].
      exists t. split; auto. split; auto. rewrite find_ins_batch by auto.
      destruct t as [|z [|z' t']]; auto. destruct (existsb (Z.eqb z) vs); congruence.
  - (* insert_graph *)
    destruct vw as [|w0 vw']; auto.
    cbn [pre_op] in Hpre. apply andb_true_iff in Hpre as [_ Hok].
    destruct (graph_agree (w0 :: vw') es Hok) as (_ & Hvs & Hed).
    cbn [dirty]. intros _. right. cbn [tree dim_ub].
    destruct es as [|[[u0 v0] w] es']; cbn [is_nil].
    + exists [0]. split; [congruence|]. split; [apply Hvs; cbn [length]; lia | reflexivity].
    + exists [Z.min u0 v0; Z.max u0 v0]. split; [congruence|]. split; [eapply Hed; reflexivity | reflexivity].
  - (* remove_maximal_simplex *)
    cbn [pre_op] in Hpre. apply andb_true_iff in Hpre as [Hmem Hcof]. apply negb_true_iff in Hcof.
    destruct (rm_max (norm s) (tree st) true) as [t0 e] eqn:Er.
    assert (Ht0 : t0 = fst (rm_max (norm s) (tree st) true)) by (rewrite Er; reflexivity).
    assert (He0 : e = snd (rm_max (norm s) (tree st) true)) by (rewrite Er; reflexivity).
    cbn [dirty]. intro Hd. apply orb_false_iff in Hd as [Hd He]. specialize (Hex Hd).
    unfold dim_attained. cbn [tree dim_ub]. cbn [andb].
    destruct t0 as [|e0 l0] eqn:Et0; [left; auto|]. right. cbn [is_nil].
    assert (Hne0 : e0 :: l0 <> []) by congruence.
    set (T := e0 :: l0) in *. clearbody T. clear Et0 t0.
    destruct (norm s) as [|x r] eqn:En.
    + cbn [rm_max fst] in Ht0. subst T. destruct Hex as [[Hnil _]|Hex]; [congruence | exact Hex].
    + rewrite <- En in *. assert (Hs : norm s <> []) by congruence.
      assert (Hin : find_val (norm s) (tree st) <> None).
      { rewrite Ha by auto. unfold cmem in Hmem. destruct (lookup K (norm s)); [congruence | discriminate]. }
      destruct Hex as [[Hnil _]|(t & Ht & Hft & Hdm)]; [rewrite Hnil, find_val_nil_l in Hin; congruence|].
      destruct (prefixb (norm s) t) eqn:Ep.
      * assert (t = norm s).
        { eapply has_coface_false; eauto. rewrite <- Ha by auto. exact Hft. }
        subst t.
        destruct (rm_max_witness (norm s) (tree st) true Hwf Hs Hin) as (t' & Hlen & Hft').
        { rewrite <- He0. exact He. }
        { rewrite <- Ht0. exact Hne0. }
        exists t'. split; [destruct t'; [destruct (norm s); [congruence | discriminate] | congruence]|].
        split; [rewrite Ht0; exact Hft' | unfold sdim in *; lia].
      * exists t. split; auto. split; auto. rewrite Ht0, find_rm_max by auto. rewrite Ep. exact Hft.
  - (* prune_above_filtration *)
    cbn [dirty]. intro Hd. apply orb_false_iff in Hd as [Hd Hsz]. specialize (Hex Hd).
    apply negb_false_iff in Hsz. apply Z.eqb_eq in Hsz.
    change (kids (prune_f f (Node (tree st)))) with (prune_sibs f (tree st)) in *.
    destruct (prune_size f (tree st)) as [_ Hid]. rewrite Hid in * by auto.
    unfold dim_attained in *. cbn [tree dim_ub]. exact Hex.
  - (* prune_above_dimension *)
    destruct (dim_ub st <=? d) eqn:E1; auto.
    destruct (d <? 0) eqn:E2.
    + destruct (is_nil (tree st)); auto. cbn [dirty]. intros _. left. auto.
    + rewrite trunc_node. cbn [kids].
      destruct (size_t (Node (trunc_sibs (tree st) (Z.to_nat d))) =? size_t (Node (tree st))) eqn:E3; auto.
      cbn [dirty]. intros _. right. cbn [tree dim_ub].
      destruct (trunc_witness (tree st) Hwf (Z.to_nat d)) as (t & Hlen & Hft); [lia|].
      assert (Ht : t <> []) by (destruct t; [discriminate | congruence]).
      exists t. split; auto. split.
      * rewrite find_trunc by auto. rewrite Hlen, Nat.leb_refl. exact Hft.
      * unfold sdim. lia.
  - (* clear *)
    intros _. left. auto.
  - (* dimension() *)
    unfold dimension. destruct (dirty st) eqn:Ed; cbn [fst]; [|rewrite Ed; auto].
    intros _. unfold dim_attained. cbn [lower_ub tree dim_ub]. unfold exact_dim.
    destruct (tree st) as [|e0 l0] eqn:Et.
    + left. split; auto. rewrite height_nil. unfold lb_ok in Hlb. destruct (dim_ub st <=? -1) eqn:E; lia.
    + right. rewrite <- Et in *.
      destruct (height_witness (tree st) Hwf) as (t & Ht & Hft & Hh); [rewrite Et; congruence|].
      exists t. split; auto. split; auto.
      assert (sdim t <= dim_ub st) by (apply Hub; auto).
      destruct (dim_ub st <=? height_t (Node (tree st))) eqn:E; lia.
  - (* num_simplices_by_dimension() *)
    unfold count_by_dim. destruct (is_empty st) eqn:Ee; cbn [fst]; auto.
    destruct (counts_t (Node (tree st)) 0 (repeat 0 (Z.to_nat (Z.min (dim_ub st + 1) 41)))) as [res|] eqn:Ec; cbn [fst]; auto.
    destruct (dirty st) eqn:Ed; cbn [fst]; [|rewrite Ed; auto].
    assert (Hne : tree st <> []) by (unfold is_empty in Ee; destruct (tree st); [discriminate | congruence]).
    destruct (count_by_dim_dirty st res Hwf Hne Ec) as [_ (t & Ht & Hf & Hd)].
    intros _. right. cbn [tree dim_ub]. exists t. auto.
Qed.

Lemma in_lookup K t v : In (t, v) K -> lookup K t <> None.
Proof.
  induction K as [|[u w] K IH]; cbn [In lookup]; [tauto|].
  intros [H|H].
  - inversion H; subst. rewrite seqb_refl. congruence.
  - destruct (seqb u t); [congruence | auto].
Qed.
Lemma cdim_ge K t v : In (t, v) K -> sdim t <= cdim K.
Proof.
  unfold cdim. induction K as [|[u w] K IH]; cbn [In fold_right fst]; [tauto|].
  intros [H|H]; [inversion H; subst; lia | specialize (IH H); lia].
Qed.
Lemma cdim_le K d : -1 <= d -> (forall t v, In (t, v) K -> sdim t <= d) -> cdim K <= d.
Proof.
  unfold cdim. intros Hd. induction K as [|[u w] K IH]; intros H; cbn [fold_right fst]; [lia|].
  assert (sdim u <= d) by (apply (H u w); left; auto).
  assert (fold_right (fun p m => Z.max (sdim (fst p)) m) (-1) K <= d) by (apply IH; intros t v Hin; apply (H t v); right; auto).
  lia.
Qed.
Lemma cdim_lb K : -1 <= cdim K.
Proof. unfold cdim. induction K as [|p K IH]; cbn [fold_right]; lia. Qed.

Lemma run_full_inv : forall ops st K,
  inv st K -> good K = true -> lb_ok st -> dim_exact st -> forallb refined_op ops = true -> ok_from K ops = true ->
  inv (fold_left (step true) ops st) (fold_left spec_step ops K) /\
  good (fold_left spec_step ops K) = true /\
  lb_ok (fold_left (step true) ops st) /\ dim_exact (fold_left (step true) ops st).
Proof.
  induction ops as [|o ops IH]; intros st K Hi Hg Hlb Hex Hp Hok; cbn [fold_left]; auto.
  cbn [forallb] in Hp. apply andb_true_iff in Hp as [Hp1 Hp2].
  cbn [ok_from] in Hok. apply andb_true_iff in Hok as [Hok Hok3]. apply andb_true_iff in Hok as [Hok1 Hok2].
  apply IH; auto.
  - apply step_inv; auto.
  - apply step_lb; auto.
  - eapply step_dim_exact; eauto.
Qed.

(* exactness of a state in which the cached dimension is attained *)
Lemma attained_is_cdim st K : inv st K -> lb_ok st -> dim_attained st -> dim_ub st = cdim K.
Proof.
  intros [[Hwf Ha] Hub] Hlb Hat. apply Z.le_antisymm.
  - destruct Hat as [[Hnil Hm1]|(t & Htn & Hft & Hdm)].
    + rewrite Hm1. apply cdim_lb.
    + rewrite <- Hdm. rewrite Ha in Hft by auto.
      destruct (lookup K t) as [v|] eqn:El; [|congruence]. apply lookup_in in El. eapply cdim_ge; eauto.
  - apply cdim_le; [exact Hlb|]. intros t v Hin. destruct t as [|z t']; [unfold sdim; cbn; exact Hlb|].
    apply Hub; [congruence|]. rewrite Ha by congruence. eapply in_lookup; eauto.
Qed.

(* the dimension reported by dimension() is the dimension of the abstract complex of the history, and the cached
   value is already exact whenever no recomputation is pending; repaired bookkeeping (fx = true) *)
Theorem dimension_exact ops :
  forallb refined_op ops = true -> ok_history ops = true ->
  snd (dimension (run true ops)) = cdim (spec_run ops) /\
  (dirty (run true ops) = false -> dim_ub (run true ops) = cdim (spec_run ops)).
Proof.
  intros Hp Hok.
  assert (H0 : inv empty_state []).
  { split; [split; [apply wf_nil|] |]; intros t _; cbn [tree empty_state]; rewrite find_val_nil_l; [reflexivity | congruence]. }
  assert (Hl0 : lb_ok empty_state) by (unfold lb_ok; cbn; lia).
  assert (He0 : dim_exact empty_state) by (intros _; left; split; reflexivity).
  destruct (run_full_inv ops empty_state [] H0 eq_refl Hl0 He0 Hp Hok) as (Hi & Hg & Hlb & Hex).
  fold (run true ops) in *. fold (spec_run ops) in *.
  set (st := run true ops) in *. set (K := spec_run ops) in *.
  split.
  - (* dimension() is one more step *)
    change (snd (dimension st)) with (dim_ub (step true st ODim)).
    assert (Hi' : inv (step true st ODim) (spec_step K ODim)) by (apply step_inv; auto).
    assert (Hlb' : lb_ok (step true st ODim)) by (apply step_lb; auto).
    assert (Hex' : dim_exact (step true st ODim)) by (eapply step_dim_exact; eauto).
    apply attained_is_cdim; auto. apply Hex'.
    cbn [step]. unfold dimension. destruct (dirty st) eqn:Ed; cbn [fst]; auto.
  - intro Hd. apply attained_is_cdim; auto.
Qed.
