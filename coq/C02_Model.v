(* C02 — persistent cohomology (Persistent_cohomology.h).  No proofs here.
   (a) specification: the canonical persistence pairing of the boundary matrix ([ReduceExec.certified_lows]) turned
       into a barcode with the min-length filter and the dimension cut of the constructor;
   (b) algorithm model [pcoh]: the annotation-matrix algorithm as coded, generic in the coefficient structure
       ([zp_ops] = Field_Zp, [mf_ops] = Multi_field; their arithmetic is the one verified under C10);
   (c) the read-outs (betti_numbers, persistent_betti_numbers, intervals_in_dimension, output_diagram lines). *)
From Coq Require Import ZArith List Bool Arith.
Require Import C10_Model Reduce ReduceExec.
Import ListNotations.
Local Open Scope Z_scope.

(* ------------------------------------------------------------------ input: filtered complex, in filtration order *)
(* one cell: dimension, keys (= positions in the filtration order) of its codimension-1 faces in the order of
   boundary_simplex_range (last vertex removed first), filtration value *)
Record cell := mkcell { c_dim : nat; c_faces : list nat; c_val : Z }.

Definition simplex := list Z.
Fixpoint remove_nth (i : nat) (l : simplex) : simplex :=
  match l, i with
  | [], _ => []
  | _ :: l', O => l'
  | x :: l', S i' => x :: remove_nth i' l'
  end.
Definition faces_of (s : simplex) : list simplex :=
  if (length s <=? 1)%nat then [] else map (fun i => remove_nth i s) (rev (seq 0 (length s))).
Fixpoint simplex_eqb (a b : simplex) : bool :=
  match a, b with
  | [], [] => true
  | x :: a', y :: b' => (x =? y) && simplex_eqb a' b'
  | _, _ => false
  end.
Fixpoint index_of (s : simplex) (l : list simplex) (i : nat) : option nat :=
  match l with
  | [] => None
  | t :: l' => if simplex_eqb s t then Some i else index_of s l' (S i)
  end.
Fixpoint all_some {A} (l : list (option A)) : option (list A) :=
  match l with
  | [] => Some []
  | None :: _ => None
  | Some x :: l' => match all_some l' with Some r => Some (x :: r) | None => None end
  end.
(* None = some face is missing from the list (not a complex) *)
Definition cells_of (order : list (simplex * Z)) : option (list cell) :=
  let keys := map fst order in
  all_some (map (fun sv => match all_some (map (fun f => index_of f keys 0) (faces_of (fst sv))) with
                           | Some fs => Some (mkcell (length (fst sv) - 1) fs (snd sv))
                           | None => None end) order).

Definition val_of (cells : list cell) (k : nat) : Z := c_val (nth k cells (mkcell 0 [] 0)).
Definition dim_of (cells : list cell) (k : nat) : nat := c_dim (nth k cells (mkcell 0 [] 0)).
(* Simplex_tree::dimension() of a tree built by insertions: the largest simplex dimension, -1 when empty *)
Definition complex_dim (cells : list cell) : Z := fold_left (fun acc c => Z.max acc (Z.of_nat (c_dim c))) cells (-1).
(* sign of the i-th face in boundary order: starts at 1 - 2*(dim mod 2) and alternates *)
Definition sign_of (dim i : nat) : Z := if Nat.even (dim + i) then 1 else -1.

(* ------------------------------------------------------------------ (a) the oracle *)
Definition bcolumn (c : cell) : list (nat * Z) :=
  combine (c_faces c) (map (sign_of (c_dim c)) (seq 0 (length (c_faces c)))).
Definition bmatrix (cells : list cell) : dmat := dense_of_sparse (length cells) (map bcolumn cells).
(* (birth key, death key | None) over Z_p; None = the certificate of the reduction failed *)
Definition oracle_pairs (p : Z) (cells : list cell) : option (list (nat * option nat)) :=
  match certified_lows p (bmatrix cells) with Some l => Some (pairs_of_lows l) | None => None end.
(* interval kept by the engine: dimension below dim_max, and death - birth > m for finite intervals *)
Definition keep_pair (cells : list cell) (dim_max m : Z) (bd : nat * option nat) : bool :=
  (Z.of_nat (dim_of cells (fst bd)) <? dim_max) &&
  match snd bd with Some d => m <? val_of cells d - val_of cells (fst bd) | None => true end.
Definition value_bar (cells : list cell) (bd : nat * option nat) : Z * Z * option Z :=
  (Z.of_nat (dim_of cells (fst bd)), val_of cells (fst bd), option_map (val_of cells) (snd bd)).
Definition barcode_keys (p : Z) (cells : list cell) (dim_max m : Z) : option (list (nat * option nat)) :=
  option_map (filter (keep_pair cells dim_max m)) (oracle_pairs p cells).
Definition barcode (p : Z) (cells : list cell) (dim_max m : Z) : option (list (Z * Z * option Z)) :=
  option_map (map (value_bar cells)) (barcode_keys p cells dim_max m).

(* multi-field: per pair of keys, the product of the primes q of the range whose diagram contains it *)
Definition bd_eqb (x y : nat * option nat) : bool :=
  (fst x =? fst y)%nat && match snd x, snd y with
                          | Some a, Some b => (a =? b)%nat | None, None => true | _, _ => false end.
Fixpoint bd_nodup (l : list (nat * option nat)) : list (nat * option nat) :=
  match l with
  | [] => []
  | x :: l' => if existsb (bd_eqb x) l' then bd_nodup l' else x :: bd_nodup l'
  end.
Definition mf_group (per_q : list (Z * list (nat * option nat))) : list (nat * option nat * Z) :=
  map (fun bd => (bd, product (map fst (filter (fun qb => existsb (bd_eqb bd) (snd qb)) per_q))))
      (bd_nodup (concat (map snd per_q))).

(* ------------------------------------------------------------------ (b) the algorithm *)
(* coefficient structure as used by the engine *)
Record fops := mkfops {
  f_char : Z;                       (* characteristic() : p, or the product of the primes *)
  f_one : Z;                        (* multiplicative_identity() *)
  f_one_of : Z -> Z;                (* multiplicative_identity(Q) *)
  f_pte : Z -> Z -> Z -> Z;         (* plus_times_equal x y w = x + w*y *)
  f_tm : Z -> Z -> Z;               (* times_minus x y = -x*y *)
  f_inv : Z -> Z -> Z * Z }.        (* inverse(x, Q) = (partial inverse, part of Q where x is invertible) *)

Definition zp_ops (p : Z) : fops :=
  mkfops p 1 (fun _ => 1)
         (fun x y w => fz_plus_times_equal x y w p)
         (fun x y => fz_times_minus x y p)
         (fun x Q => (match zp_inverse_entry x p with Some v => v | None => 0 end, Q)).   (* inverse_[x] *)
Definition mf_ops (primes : list Z) : fops :=
  let P := product primes in
  mkfops P (mf_pmid primes P) (fun Q => mf_pmid primes Q)
         (fun x y w => mf_plus_times_equal x y w P)
         (fun x y => mf_times_minus x y P)
         (mf_pinv primes).

(* annotation vectors: dense over the keys, [] (or trailing absence) = 0 *)
Definition vec := list Z.
Definition vget (v : vec) (k : nat) : Z := nth k v 0.
Fixpoint vzip (f : Z -> Z -> Z) (a b : vec) : vec :=
  match a with
  | [] => map (f 0) b
  | x :: a' => match b with
               | [] => f x 0 :: vzip f a' []
               | y :: b' => f x y :: vzip f a' b'
               end
  end.
Definition unit_vec (k : nat) (x : Z) : vec := repeat 0 k ++ [x].
(* non-zero entries (key, coefficient) from the highest key down: the vector a_ds (copy of the std::map map_a_ds)
   traversed by reverse iterators; i = key of the first entry of a *)
Fixpoint a_ds_rev (a : vec) (i : nat) : list (nat * Z) :=
  match a with
  | [] => []
  | x :: a' => a_ds_rev a' (S i) ++ (if x =? 0 then [] else [(i, x)])
  end.

Record st := mkst {
  s_ann : list vec;                          (* annotation vector of the simplex of key i (uncompressed CAM); length = keys assigned *)
  s_rows : list (nat * Z);                   (* transverse_idx_ : live cocycle key -> characteristics_ *)
  s_comp : list (nat * nat);                 (* vertex key -> key of the vertex that created its connected component
                                                (dsets_ + zero_cocycles_ seen through find_set) *)
  s_pairs : list (nat * option nat * Z) }.   (* persistent_pairs_ in emission order *)

Definition st0 : st := mkst [] [] [] [].

(* interval_length_policy(sh1, sh2) *)
Definition length_ok (cells : list cell) (m : Z) (b d : nat) : bool := m <? val_of cells d - val_of cells b.

(* annotation_of_the_boundary *)
Fixpoint bann (FO : fops) (ann : list vec) (dim : nat) (fs : list nat) (i : nat) (acc : vec) : vec :=
  match fs with
  | [] => acc
  | f :: fs' => bann FO ann dim fs' (S i) (vzip (fun x y => f_pte FO x y (sign_of dim i)) acc (nth f ann []))
  end.

Fixpoint lookup (k : nat) (l : list (nat * nat)) : option nat :=
  match l with
  | [] => None
  | (a, b) :: l' => if (a =? k)%nat then Some b else lookup k l'
  end.
Definition coc (s : st) (v : nat) : nat := match lookup v (s_comp s) with Some c => c | None => v end.
Definition relabel (from to : nat) (l : list (nat * nat)) : list (nat * nat) :=
  map (fun vc => if (snd vc =? from)%nat then (fst vc, to) else vc) l.
Definition add_pair (cells : list cell) (m : Z) (b d : nat) (ch : Z) (ps : list (nat * option nat * Z)) :=
  if length_ok cells m b d then ps ++ [(b, Some d, ch)] else ps.

(* create_cocycle: the new column is the unit vector x.e_sigma, a new row is opened *)
Definition new_col (sigma : nat) (x : Z) : vec := unit_vec sigma x.

(* destroy_cocycle: every annotation c with a coefficient at death_key becomes c + w.a, w = -(inv_x * c[death_key]) *)
Definition destroy (FO : fops) (cells : list cell) (m : Z) (sigma : nat) (a : vec) (dk : nat) (inv_x charac : Z) (s : st) : st :=
  let ann' := map (fun c => let w := f_tm FO inv_x (vget c dk) in
                            if w =? 0 then c else vzip (fun x y => f_pte FO x y w) c a) (s_ann s) in
  let rows' := concat (map (fun r => if (fst r =? dk)%nat
                                     then (if snd r =? charac then [] else [(fst r, snd r / charac)])
                                     else [r]) (s_rows s)) in
  mkst ann' rows' (s_comp s) (add_pair cells m dk sigma charac (s_pairs s)).

(* the loop of update_cohomology_groups over a_ds from the highest key down, while prod <> 1 *)
Fixpoint kill_loop (FO : fops) (cells : list cell) (m : Z) (sigma : nat) (a : vec) (es : list (nat * Z)) (prod : Z) (s : st) : st * Z :=
  match es with
  | [] => (s, prod)
  | (k, x) :: es' =>
    if prod =? f_one FO then (s, prod) else
    let '(inv_x, charac) := f_inv FO x prod in
    if inv_x =? 0 then kill_loop FO cells m sigma a es' prod s
    else kill_loop FO cells m sigma a es' (prod / charac) (destroy FO cells m sigma a k inv_x charac s)
  end.

(* one simplex of the filtration; sigma = its key = length (s_ann s); returns the new state with the annotation of sigma appended *)
Definition step (sw : bool) (FO : fops) (cells : list cell) (dim_max m : Z) (s : st) (c : cell) : st :=
  let sigma := length (s_ann s) in
  match c_dim c with
  | O => mkst (s_ann s ++ [[]]) (s_rows s) (s_comp s ++ [(sigma, sigma)]) (s_pairs s)
  | S O =>
    (* update_cohomology_groups_edge: (u, v) = endpoints(sigma).  Simplex_tree::endpoints = (last vertex, first vertex)
       = (second facet, first facet) [sw = false]; Hasse_complex and Bitmap_cubical_complex return (first facet,
       second facet) [sw = true] *)
    let v := nth (if sw then 1 else 0)%nat (c_faces c) 0%nat in
    let u := nth (if sw then 0 else 1)%nat (c_faces c) 0%nat in
    let cu := coc s u in
    let cv := coc s v in
    if negb (cu =? cv)%nat then
      if val_of cells cu <? val_of cells cv
      then mkst (s_ann s ++ [[]]) (s_rows s) (relabel cv cu (s_comp s)) (add_pair cells m cv sigma (f_char FO) (s_pairs s))
      else mkst (s_ann s ++ [[]]) (s_rows s) (relabel cu cv (s_comp s)) (add_pair cells m cu sigma (f_char FO) (s_pairs s))
    else if 1 <? dim_max
      then mkst (s_ann s ++ [new_col sigma (f_one FO)]) (s_rows s ++ [(sigma, f_char FO)]) (s_comp s) (s_pairs s)
      else mkst (s_ann s ++ [[]]) (s_rows s) (s_comp s) (s_pairs s)
  | S (S _) =>
    let a := bann FO (s_ann s) (c_dim c) (c_faces c) 0 [] in
    match a_ds_rev a 0 with
    | [] => if Z.of_nat (c_dim c) <? dim_max
            then mkst (s_ann s ++ [new_col sigma (f_one FO)]) (s_rows s ++ [(sigma, f_char FO)]) (s_comp s) (s_pairs s)
            else mkst (s_ann s ++ [[]]) (s_rows s) (s_comp s) (s_pairs s)
    | es =>
      let '(s1, prod) := kill_loop FO cells m sigma a es (f_char FO) s in
      if negb (prod =? f_one FO) && (Z.of_nat (c_dim c) <? dim_max)
      then mkst (s_ann s1 ++ [new_col sigma (f_one_of FO prod)]) (s_rows s1 ++ [(sigma, prod)]) (s_comp s1) (s_pairs s1)
      else mkst (s_ann s1 ++ [[]]) (s_rows s1) (s_comp s1) (s_pairs s1)
    end
  end.

Definition run (sw : bool) (FO : fops) (cells : list cell) (dim_max m : Z) (prefix : list cell) : st :=
  fold_left (step sw FO cells dim_max m) prefix st0.

(* the infinite intervals appended at the end: live components (a vertex that is still the creator of its own component), live rows *)
Definition essential (FO : fops) (s : st) : list (nat * option nat * Z) :=
  map (fun vc => (fst vc, None, f_char FO)) (filter (fun vc => (fst vc =? snd vc)%nat) (s_comp s)) ++
  map (fun r => (fst r, None, snd r)) (s_rows s).

(* compute_persistent_cohomology(m) with persistence_dim_max = flag: the content of persistent_pairs_ (finite intervals in
   emission order, then the infinite ones) *)
Definition dim_max_of (cells : list cell) (flag : bool) : Z := complex_dim cells + (if flag then 1 else 0).
Definition pcoh_gen (sw : bool) (FO : fops) (cells : list cell) (flag : bool) (m : Z) : list (nat * option nat * Z) :=
  let dim_max := dim_max_of cells flag in
  if dim_max <=? 0 then [] else
  let s := run sw FO cells dim_max m cells in
  s_pairs s ++ essential FO s.
(* on a Simplex_tree *)
Definition pcoh := pcoh_gen false.

(* ------------------------------------------------------------------ (c) read-outs, functions of the pair list *)
Definition pair := (nat * option nat * Z)%type.
Definition p_birth (x : pair) : nat := fst (fst x).
Definition p_death (x : pair) : option nat := snd (fst x).
Definition count_dim (cells : list cell) (sel : pair -> bool) (ps : list pair) (d : nat) : Z :=
  Z.of_nat (length (filter (fun x => sel x && (dim_of cells (p_birth x) =? d)%nat) ps)).
Definition is_inf (x : pair) : bool := match p_death x with None => true | Some _ => false end.
Definition betti_number (cells : list cell) (ps : list pair) (d : nat) : Z := count_dim cells is_inf ps d.
Definition betti_numbers (cells : list cell) (dim_max : Z) (ps : list pair) : list Z :=
  map (betti_number cells ps) (seq 0 (Z.to_nat (Z.max dim_max 0))).
Definition covers (cells : list cell) (from to : Z) (x : pair) : bool :=
  (val_of cells (p_birth x) <=? from) && match p_death x with None => true | Some d => to <? val_of cells d end.
Definition persistent_betti_number (cells : list cell) (ps : list pair) (d : nat) (from to : Z) : Z :=
  count_dim cells (covers cells from to) ps d.
Definition persistent_betti_numbers (cells : list cell) (dim_max : Z) (ps : list pair) (from to : Z) : list Z :=
  map (fun d => persistent_betti_number cells ps d from to) (seq 0 (Z.to_nat (Z.max dim_max 0))).
(* (birth value, death value | None = +inf), in the order of the pair list *)
Definition intervals_in_dimension (cells : list cell) (ps : list pair) (d : nat) : list (Z * option Z) :=
  map (fun x => (val_of cells (p_birth x), option_map (val_of cells) (p_death x)))
      (filter (fun x => (dim_of cells (p_birth x) =? d)%nat) ps).
(* one line of output_diagram: characteristic, dimension, birth, death *)
Definition diagram_lines (cells : list cell) (ps : list pair) : list (Z * Z * Z * option Z) :=
  map (fun x => (snd x, Z.of_nat (dim_of cells (p_birth x)), val_of cells (p_birth x), option_map (val_of cells) (p_death x))) ps.
(* value-level view of a pair list, restricted to the pairs whose characteristic q divides (q = 1: all) *)
Definition value_view (cells : list cell) (q : Z) (ps : list pair) : list (Z * Z * option Z) :=
  map (fun x => value_bar cells (fst x)) (filter (fun x => snd x mod q =? 0) ps).

(* ------------------------------------------------------------------ multiset equality of diagrams (by counting) *)
Definition bar := (Z * Z * option Z)%type.
Definition bar_eqb (x y : bar) : bool :=
  (fst (fst x) =? fst (fst y)) && (snd (fst x) =? snd (fst y)) &&
  match snd x, snd y with Some a, Some b => a =? b | None, None => true | _, _ => false end.
Definition count_bar (x : bar) (l : list bar) : nat := length (filter (bar_eqb x) l).
Definition msame (l1 l2 : list bar) : bool :=
  forallb (fun x => (count_bar x l1 =? count_bar x l2)%nat) (l1 ++ l2).
(* vertex lists strictly increasing *)
Fixpoint increasing (s : simplex) : bool :=
  match s with
  | x :: ((y :: _) as s') => (x <? y) && increasing s'
  | _ => true
  end.

(* ------------------------------------------------------------------ sanity of an input given by facet lists: boundary o boundary = 0 over Z *)
Definition dd_column (cells : list cell) (c : cell) : list (nat * Z) :=
  concat (map (fun fs => map (fun gt => (fst gt, snd fs * snd gt)) (bcolumn (nth (fst fs) cells (mkcell 0 [] 0)))) (bcolumn c)).
Definition dd_zero (cells : list cell) : bool :=
  forallb (fun c => forallb (fun x => x =? 0) (dense_col (length cells) (dd_column cells c))) cells.
(* facets earlier, one dimension less, edges with two facets (the hypothesis [valid] of the theorems, decidable form) *)
Definition valid_b (cells : list cell) : bool :=
  forallb (fun k => let c := nth k cells (mkcell 0 [] 0) in
                    forallb (fun f => (f <? k)%nat && (S (dim_of cells f) =? c_dim c)%nat) (c_faces c) &&
                    (negb (c_dim c =? 1)%nat || (length (c_faces c) =? 2)%nat)) (seq 0 (length cells)).
