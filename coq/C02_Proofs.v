(* C02 — proofs about the algorithm model of Persistent_cohomology.h over Field_Zp (coq/C02_Model.v):
   the invariant [Inv] kept by every step of the filtration, and what follows from it. *)
From Coq Require Import ZArith Lia Znumtheory Arith List Bool Permutation.
Require Import ZifyBool.
Require Import C10_Model C10_Proofs Reduce ReduceExec C02_Model.
Import ListNotations.
Local Open Scope Z_scope.

(* ------------------------------------------------------------------ dense vectors *)
Lemma vget_nil k : vget [] k = 0.
Proof. unfold vget. destruct k; reflexivity. Qed.

Lemma vget_vzip f a b k : f 0 0 = 0 -> vget (vzip f a b) k = f (vget a k) (vget b k).
Proof.
  intros Hf. unfold vget. revert b k. induction a as [|x a IH]; intros b k.
  - cbn [vzip]. revert k. induction b as [|y b IHb]; intros k.
    + destruct k; cbn; symmetry; exact Hf.
    + destruct k; cbn [map nth]; [reflexivity|]. rewrite IHb. destruct k; reflexivity.
  - destruct b as [|y b]; cbn [vzip].
    + destruct k; cbn [nth]; [reflexivity|]. rewrite IH. destruct k; reflexivity.
    + destruct k; cbn [nth]; [reflexivity|]. apply IH.
Qed.

Lemma vget_unit k x j : vget (unit_vec k x) j = if (j =? k)%nat then x else 0.
Proof.
  unfold vget, unit_vec. destruct (Nat.eqb_spec j k) as [->|Hne].
  - rewrite app_nth2; rewrite repeat_length; [|lia]. rewrite Nat.sub_diag. reflexivity.
  - destruct (Nat.lt_ge_cases j k) as [Hlt|Hge].
    + rewrite app_nth1 by (rewrite repeat_length; lia). apply nth_repeat.
    + rewrite app_nth2; rewrite repeat_length; [|lia]. destruct (j - k)%nat as [|[|d]] eqn:E; try lia; reflexivity.
Qed.

(* a_ds_rev: the first entry is the highest key with a non-zero coefficient *)
Lemma a_ds_rev_nil a i : a_ds_rev a i = [] -> forall j, nth j a 0 = 0.
Proof.
  revert i. induction a as [|x a IH]; intros i H j.
  - destruct j; reflexivity.
  - cbn [a_ds_rev] in H. apply app_eq_nil in H. destruct H as [H1 H2].
    destruct (x =? 0) eqn:E; [|discriminate]. apply Z.eqb_eq in E.
    destruct j; cbn [nth]; [exact E|]. apply (IH (S i) H1).
Qed.

Lemma a_ds_rev_head a : forall i k x tl, a_ds_rev a i = (k, x) :: tl ->
  (i <= k)%nat /\ x = nth (k - i) a 0 /\ x <> 0 /\ forall j, (k - i < j)%nat -> nth j a 0 = 0.
Proof.
  induction a as [|y a IH]; intros i k x tl H.
  - discriminate.
  - cbn [a_ds_rev] in H. destruct (a_ds_rev a (S i)) as [|[k' x'] tl'] eqn:E.
    + cbn [app] in H. destruct (y =? 0) eqn:Ey; [discriminate|]. inversion H; subst.
      apply Z.eqb_neq in Ey. rewrite Nat.sub_diag. split; [lia|]. split; [reflexivity|]. split; [exact Ey|].
      intros j Hj. destruct j; [lia|]. cbn [nth]. eapply a_ds_rev_nil; exact E.
    + cbn [app] in H. inversion H; subst.
      destruct (IH (S i) k x tl' E) as (A & B & C & D).
      split; [lia|]. split; [|split; [exact C|]].
      * replace (k - i)%nat with (S (k - S i)) by lia. cbn [nth]. exact B.
      * intros j Hj. destruct j; [lia|]. cbn [nth]. apply D. lia.
Qed.

(* ------------------------------------------------------------------ Field_Zp arithmetic, modulo p *)
Lemma crem_fix z p : 0 < p -> (let r := crem z p in if r <? 0 then r + p else r) = z mod p.
Proof.
  intros Hp. cbv zeta. destruct (Z_lt_le_dec z 0) as [Hz|Hz].
  - rewrite crem_neg by lia.
    set (r := (- z) mod p). assert (Hr : 0 <= r < p) by (apply Z.mod_pos_bound; lia).
    assert (Hq : - z = p * ((- z) / p) + r) by (unfold r; apply Z.div_mod; lia).
    destruct (- r <? 0) eqn:E.
    + apply Z.mod_unique with (- ((- z) / p) - 1); lia.
    + assert (r = 0) by lia. apply Z.mod_unique with (- ((- z) / p)); lia.
  - rewrite crem_nonneg by lia. pose proof (Z.mod_pos_bound z p Hp).
    destruct (z mod p <? 0) eqn:E; lia.
Qed.

Lemma fz_pte_mod x y w p : 0 < p -> fz_plus_times_equal x y w p = (x + w * y) mod p.
Proof. intros Hp. unfold fz_plus_times_equal. apply crem_fix. exact Hp. Qed.
Lemma fz_tm_mod x y p : 0 < p -> fz_times_minus x y p = (- x * y) mod p.
Proof. intros Hp. unfold fz_times_minus. apply crem_fix. exact Hp. Qed.

Section Zp.
Variable p : Z.
Hypothesis Hp : prime p.
Hypothesis Hp16 : p < 65536.

Let ppos : 0 < p := p_pos p Hp.
Let pgt1 : 1 < p := p_gt1 p Hp.

Definition F := zp_ops p.
Definition inv_of (x : Z) : Z := match zp_inverse_entry x p with Some v => v | None => 0 end.

Lemma inv_of_spec x : 0 < x < p -> zm p (inv_of x * x - 1) /\ inv_of x <> 0.
Proof.
  intros Hx. unfold inv_of.
  destruct (zp_inverse_entry_complete p x Hp Hp16 Hx) as [v [Hv Hs]]. rewrite Hv.
  unfold spec_is_inverse in Hs. apply Z.eqb_eq in Hs. rewrite (Z.mod_1_l p pgt1) in Hs.
  assert (Hz : zm p (v * x - 1)).
  { unfold zm. rewrite Zminus_mod. replace (v * x) with (x * v) by ring. rewrite Hs. rewrite (Z.mod_1_l p pgt1).
    reflexivity. }
  split; [exact Hz|]. intro H0. rewrite H0 in Hz. unfold zm in Hz.
  replace (0 * x - 1) with (- (1)) in Hz by ring.
  apply Z.mod_divide in Hz; [|lia]. apply Z.divide_opp_r in Hz. apply Z.divide_1_r in Hz. lia.
Qed.

(* congruence modulo p as "difference is a multiple" *)
Definition eqm (x y : Z) : Prop := zm p (x - y).
Lemma eqm_refl x : eqm x x. Proof. unfold eqm. rewrite Z.sub_diag. apply zm_0. exact Hp. Qed.
Lemma eqm_sym x y : eqm x y -> eqm y x.
Proof. unfold eqm. intros H. replace (y - x) with (- (x - y)) by ring. apply zm_opp; assumption. Qed.
Lemma eqm_trans x y z : eqm x y -> eqm y z -> eqm x z.
Proof. unfold eqm. intros H1 H2. replace (x - z) with ((x - y) + (y - z)) by ring. apply zm_add; assumption. Qed.
Lemma eqm_mod x : eqm (x mod p) x.
Proof.
  unfold eqm, zm. rewrite Zminus_mod, Z.mod_mod, Z.sub_diag by lia. apply Z.mod_0_l. lia.
Qed.
Lemma eqm_add a b c d : eqm a b -> eqm c d -> eqm (a + c) (b + d).
Proof. unfold eqm. intros H1 H2. replace (a + c - (b + d)) with ((a - b) + (c - d)) by ring. apply zm_add; assumption. Qed.
Lemma eqm_mul_l k a b : eqm a b -> eqm (k * a) (k * b).
Proof. unfold eqm. intros H. replace (k * a - k * b) with (k * (a - b)) by ring. apply zm_mul_r; assumption. Qed.
Lemma eqm_mul a b c d : eqm a b -> eqm c d -> eqm (a * c) (b * d).
Proof.
  unfold eqm. intros H1 H2. replace (a * c - b * d) with (c * (a - b) + b * (c - d)) by ring.
  apply zm_add; try assumption; apply zm_mul_r; assumption.
Qed.
Lemma eqm_zm a b : eqm a b -> zm p b -> zm p a.
Proof. unfold eqm. intros H1 H2. apply (zm_eqm p Hp a b); assumption. Qed.
Lemma eqm_0_small a : eqm a 0 -> 0 <= a < p -> a = 0.
Proof.
  unfold eqm, zm. rewrite Z.sub_0_r. intros H Hr. rewrite Z.mod_small in H by lia. exact H.
Qed.

Lemma pte_eqm x y w : eqm (f_pte F x y w) (x + w * y).
Proof. cbn [F zp_ops f_pte]. rewrite fz_pte_mod by exact ppos. apply eqm_mod. Qed.
Lemma pte_range x y w : 0 <= f_pte F x y w < p.
Proof. cbn [F zp_ops f_pte]. rewrite fz_pte_mod by exact ppos. apply Z.mod_pos_bound. exact ppos. Qed.
Lemma pte_00 w : f_pte F 0 0 w = 0.
Proof. cbn [F zp_ops f_pte]. rewrite fz_pte_mod by exact ppos. rewrite Z.mul_0_r, Z.add_0_l. apply Z.mod_0_l; lia. Qed.
Lemma tm_eqm x y : eqm (f_tm F x y) (- x * y).
Proof. cbn [F zp_ops f_tm]. rewrite fz_tm_mod by exact ppos. apply eqm_mod. Qed.
Lemma tm_0 x : f_tm F x 0 = 0.
Proof. cbn [F zp_ops f_tm]. rewrite fz_tm_mod by exact ppos. rewrite Z.mul_0_r. apply Z.mod_0_l; lia. Qed.

End Zp.
