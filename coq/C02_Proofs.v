(* C02 — proofs about the algorithm model of Persistent_cohomology.h over Field_Zp (coq/C02_Model.v):
   the invariant [Inv] kept by every step of the filtration, and what follows from it. *)
From Coq Require Import ZArith Lia Znumtheory Arith List Bool Permutation.
Require Import ZifyBool.
Require Import C10_Model C10_Proofs Reduce ReduceExec C02_Model.
Import ListNotations.
Local Open Scope Z_scope.

(* ------------------------------------------------------------------ dense vectors *)
Lemma vget_nil k : vget [] k = 0.
Proof. unfold vget. destruct k; reflexivity. Qed.

Lemma vget_vzip f a b k : f 0 0 = 0 -> vget (vzip f a b) k = f (vget a k) (vget b k).
Proof.
  intros Hf. unfold vget. revert b k. induction a as [|x a IH]; intros b k.
  - cbn [vzip]. revert k. induction b as [|y b IHb]; intros k.
    + destruct k; cbn; symmetry; exact Hf.
    + destruct k; cbn [map nth]; [reflexivity|]. rewrite IHb. destruct k; reflexivity.
  - destruct b as [|y b]; cbn [vzip].
    + destruct k; cbn [nth]; [reflexivity|]. rewrite IH. destruct k; reflexivity.
    + destruct k; cbn [nth]; [reflexivity|]. apply IH.
Qed.

Lemma vget_unit k x j : vget (unit_vec k x) j = if (j =? k)%nat then x else 0.
Proof.
  unfold vget, unit_vec. destruct (Nat.eqb_spec j k) as [->|Hne].
  - rewrite app_nth2; rewrite repeat_length; [|lia]. rewrite Nat.sub_diag. reflexivity.
  - destruct (Nat.lt_ge_cases j k) as [Hlt|Hge].
    + rewrite app_nth1 by (rewrite repeat_length; lia). apply nth_repeat.
    + rewrite app_nth2; rewrite repeat_length; [|lia]. destruct (j - k)%nat as [|[|d]] eqn:E; try lia; reflexivity.
Qed.

(* a_ds_rev: the first entry is the highest key with a non-zero coefficient *)
Lemma a_ds_rev_nil a i : a_ds_rev a i = [] -> forall j, nth j a 0 = 0.
Proof.
  revert i. induction a as [|x a IH]; intros i H j.
  - destruct j; reflexivity.
  - cbn [a_ds_rev] in H. apply app_eq_nil in H. destruct H as [H1 H2].
    destruct (x =? 0) eqn:E; [|discriminate]. apply Z.eqb_eq in E.
    destruct j; cbn [nth]; [exact E|]. apply (IH (S i) H1).
Qed.

Lemma a_ds_rev_head a : forall i k x tl, a_ds_rev a i = (k, x) :: tl ->
  (i <= k)%nat /\ x = nth (k - i) a 0 /\ x <> 0 /\ forall j, (k - i < j)%nat -> nth j a 0 = 0.
Proof.
  induction a as [|y a IH]; intros i k x tl H.
  - discriminate.
  - cbn [a_ds_rev] in H. destruct (a_ds_rev a (S i)) as [|[k' x'] tl'] eqn:E.
    + cbn [app] in H. destruct (y =? 0) eqn:Ey; [discriminate|]. inversion H; subst.
      apply Z.eqb_neq in Ey. rewrite Nat.sub_diag. split; [lia|]. split; [reflexivity|]. split; [exact Ey|].
      intros j Hj. destruct j; [lia|]. cbn [nth]. eapply a_ds_rev_nil; exact E.
    + cbn [app] in H. inversion H; subst.
      destruct (IH (S i) k x tl' E) as (A & B & C & D).
      split; [lia|]. split; [|split; [exact C|]].
      * replace (k - i)%nat with (S (k - S i)) by lia. cbn [nth]. exact B.
      * intros j Hj. destruct j; [lia|]. cbn [nth]. apply D. lia.
Qed.

(* ------------------------------------------------------------------ Field_Zp arithmetic, modulo p *)
Lemma crem_fix z p : 0 < p -> (let r := crem z p in if r <? 0 then r + p else r) = z mod p.
Proof.
  intros Hp. cbv zeta. destruct (Z_lt_le_dec z 0) as [Hz|Hz].
  - rewrite crem_neg by lia.
    set (r := (- z) mod p). assert (Hr : 0 <= r < p) by (apply Z.mod_pos_bound; lia).
    assert (Hq : - z = p * ((- z) / p) + r) by (unfold r; apply Z.div_mod; lia).
    destruct (- r <? 0) eqn:E.
    + apply Z.mod_unique with (- ((- z) / p) - 1); lia.
    + assert (r = 0) by lia. apply Z.mod_unique with (- ((- z) / p)); lia.
  - rewrite crem_nonneg by lia. pose proof (Z.mod_pos_bound z p Hp).
    destruct (z mod p <? 0) eqn:E; lia.
Qed.

Lemma fz_pte_mod x y w p : 0 < p -> fz_plus_times_equal x y w p = (x + w * y) mod p.
Proof. intros Hp. unfold fz_plus_times_equal. apply crem_fix. exact Hp. Qed.
Lemma fz_tm_mod x y p : 0 < p -> fz_times_minus x y p = (- x * y) mod p.
Proof. intros Hp. unfold fz_times_minus. apply crem_fix. exact Hp. Qed.

Section Zp.
Variable p : Z.
Hypothesis Hp : prime p.
Hypothesis Hp16 : p < 65536.

Let ppos : 0 < p := p_pos p Hp.
Let pgt1 : 1 < p := p_gt1 p Hp.

Definition F := zp_ops p.
Definition inv_of (x : Z) : Z := match zp_inverse_entry x p with Some v => v | None => 0 end.

Lemma inv_of_spec x : 0 < x < p -> zm p (inv_of x * x - 1) /\ inv_of x <> 0.
Proof.
  intros Hx. unfold inv_of.
  destruct (zp_inverse_entry_complete p x Hp Hp16 Hx) as [v [Hv Hs]]. rewrite Hv.
  unfold spec_is_inverse in Hs. apply Z.eqb_eq in Hs. rewrite (Z.mod_1_l p pgt1) in Hs.
  assert (Hz : zm p (v * x - 1)).
  { unfold zm. rewrite Zminus_mod. replace (v * x) with (x * v) by ring. rewrite Hs. rewrite (Z.mod_1_l p pgt1).
    reflexivity. }
  split; [exact Hz|]. intro H0. rewrite H0 in Hz. unfold zm in Hz.
  replace (0 * x - 1) with (- (1)) in Hz by ring.
  apply Z.mod_divide in Hz; [|lia]. apply Z.divide_opp_r in Hz. apply Z.divide_1_r in Hz. lia.
Qed.

(* congruence modulo p as "difference is a multiple" *)
Definition eqm (x y : Z) : Prop := zm p (x - y).
Lemma eqm_refl x : eqm x x. Proof. unfold eqm. rewrite Z.sub_diag. apply zm_0. exact Hp. Qed.
Lemma eqm_sym x y : eqm x y -> eqm y x.
Proof. unfold eqm. intros H. replace (y - x) with (- (x - y)) by ring. apply zm_opp; assumption. Qed.
Lemma eqm_trans x y z : eqm x y -> eqm y z -> eqm x z.
Proof. unfold eqm. intros H1 H2. replace (x - z) with ((x - y) + (y - z)) by ring. apply zm_add; assumption. Qed.
Lemma eqm_mod x : eqm (x mod p) x.
Proof.
  unfold eqm, zm. rewrite Zminus_mod, Z.mod_mod, Z.sub_diag by lia. apply Z.mod_0_l. lia.
Qed.
Lemma eqm_add a b c d : eqm a b -> eqm c d -> eqm (a + c) (b + d).
Proof. unfold eqm. intros H1 H2. replace (a + c - (b + d)) with ((a - b) + (c - d)) by ring. apply zm_add; assumption. Qed.
Lemma eqm_mul_l k a b : eqm a b -> eqm (k * a) (k * b).
Proof. unfold eqm. intros H. replace (k * a - k * b) with (k * (a - b)) by ring. apply zm_mul_r; assumption. Qed.
Lemma eqm_mul a b c d : eqm a b -> eqm c d -> eqm (a * c) (b * d).
Proof.
  unfold eqm. intros H1 H2. replace (a * c - b * d) with (c * (a - b) + b * (c - d)) by ring.
  apply zm_add; try assumption; apply zm_mul_r; assumption.
Qed.
Lemma eqm_zm a b : eqm a b -> zm p b -> zm p a.
Proof. unfold eqm. intros H1 H2. apply (zm_eqm p Hp a b); assumption. Qed.
Lemma eqm_0_small a : eqm a 0 -> 0 <= a < p -> a = 0.
Proof.
  unfold eqm, zm. rewrite Z.sub_0_r. intros H Hr. rewrite Z.mod_small in H by lia. exact H.
Qed.

Lemma pte_eqm x y w : eqm (f_pte F x y w) (x + w * y).
Proof. cbn [F zp_ops f_pte]. rewrite fz_pte_mod by exact ppos. apply eqm_mod. Qed.
Lemma pte_range x y w : 0 <= f_pte F x y w < p.
Proof. cbn [F zp_ops f_pte]. rewrite fz_pte_mod by exact ppos. apply Z.mod_pos_bound. exact ppos. Qed.
Lemma pte_00 w : f_pte F 0 0 w = 0.
Proof. cbn [F zp_ops f_pte]. rewrite fz_pte_mod by exact ppos. rewrite Z.mul_0_r, Z.add_0_l. apply Z.mod_0_l; lia. Qed.
Lemma tm_eqm x y : eqm (f_tm F x y) (- x * y).
Proof. cbn [F zp_ops f_tm]. rewrite fz_tm_mod by exact ppos. apply eqm_mod. Qed.
Lemma tm_0 x : f_tm F x 0 = 0.
Proof. cbn [F zp_ops f_tm]. rewrite fz_tm_mod by exact ppos. rewrite Z.mul_0_r. apply Z.mod_0_l; lia. Qed.


Lemma inv_nzm x : 0 < x < p -> ~ zm p (inv_of x).
Proof.
  intros Hx Hz. destruct (inv_of_spec x Hx) as [H _].
  assert (H1 : zm p 1).
  { replace 1 with (inv_of x * x - (inv_of x * x - 1)) by ring. apply zm_sub; try assumption.
    apply zm_mul_l; assumption. }
  apply (nzm_1 p Hp). exact H1.
Qed.
Lemma eqm_eq x y : x = y -> eqm x y.
Proof. intros ->. apply eqm_refl. Qed.
Lemma eqm_zm_r a b : eqm a b -> zm p a -> zm p b.
Proof. intros H. apply eqm_zm. apply eqm_sym. exact H. Qed.

(* ------------------------------------------------------------------ the annotation of a boundary *)
Fixpoint bsum (ann : list vec) (dim : nat) (fs : list nat) (i j : nat) : Z :=
  match fs with
  | [] => 0
  | f :: fs' => sign_of dim i * vget (nth f ann []) j + bsum ann dim fs' (S i) j
  end.

Lemma bann_eqm (ann : list vec) dim fs : forall i acc j,
  eqm (vget (bann F ann dim fs i acc) j) (vget acc j + bsum ann dim fs i j).
Proof.
  induction fs as [|f fs IH]; intros i acc j; cbn [bann bsum].
  - apply eqm_eq. ring.
  - eapply eqm_trans; [apply IH|].
    rewrite vget_vzip by apply pte_00.
    eapply eqm_trans; [apply eqm_add; [apply pte_eqm|apply eqm_refl]|]. apply eqm_eq. ring.
Qed.

Lemma bann_range (ann : list vec) dim fs : forall i acc, (forall j, 0 <= vget acc j < p) ->
  forall j, 0 <= vget (bann F ann dim fs i acc) j < p.
Proof.
  induction fs as [|f fs IH]; intros i acc H j; cbn [bann].
  - apply H.
  - apply IH. intros j'. rewrite vget_vzip by apply pte_00. apply pte_range.
Qed.

Lemma bann_support (ann : list vec) dim fs : forall i acc j, vget (bann F ann dim fs i acc) j <> 0 ->
  vget acc j <> 0 \/ exists f, In f fs /\ vget (nth f ann []) j <> 0.
Proof.
  induction fs as [|f fs IH]; intros i acc j H; cbn [bann] in H.
  - left. exact H.
  - destruct (IH _ _ _ H) as [H1|[f' [Hin Hf']]].
    + rewrite vget_vzip in H1 by apply pte_00.
      destruct (Z.eq_dec (vget acc j) 0) as [E1|E1]; [|left; exact E1].
      destruct (Z.eq_dec (vget (nth f ann []) j) 0) as [E2|E2].
      * rewrite E1, E2, pte_00 in H1. contradiction.
      * right. exists f. split; [left; reflexivity|exact E2].
    + right. exists f'. split; [right; exact Hin|exact Hf'].
Qed.

Lemma bsum_ext (ann1 ann2 : list vec) dim fs : forall i j, (forall f, In f fs -> nth f ann1 [] = nth f ann2 []) ->
  bsum ann1 dim fs i j = bsum ann2 dim fs i j.
Proof.
  induction fs as [|f fs IH]; intros i j H; cbn [bsum]; [reflexivity|].
  rewrite (H f) by (left; reflexivity). rewrite IH; [reflexivity|]. intros f' Hf'. apply H. right. exact Hf'.
Qed.

Lemma bsum_zero (ann : list vec) dim fs : forall i j, (forall f, In f fs -> vget (nth f ann []) j = 0) -> bsum ann dim fs i j = 0.
Proof.
  induction fs as [|f fs IH]; intros i j H; cbn [bsum]; [reflexivity|].
  rewrite (H f) by (left; reflexivity). rewrite IH; [ring|]. intros f' Hf'. apply H. right. exact Hf'.
Qed.

(* ------------------------------------------------------------------ the column update of destroy_cocycle *)
Definition upd (a : vec) (dk : nat) (inv_x : Z) (c : vec) : vec :=
  let w := f_tm F inv_x (vget c dk) in if w =? 0 then c else vzip (fun x y => f_pte F x y w) c a.

Lemma upd_nil a dk inv_x : upd a dk inv_x [] = [].
Proof. unfold upd. rewrite vget_nil, tm_0. reflexivity. Qed.

Lemma nth_map_upd a dk inv_x (ann : list vec) f : nth f (map (upd a dk inv_x) ann) [] = upd a dk inv_x (nth f ann []).
Proof. rewrite <- (upd_nil a dk inv_x) at 1. apply map_nth. Qed.

Lemma upd_eqm a dk inv_x c j : eqm (vget (upd a dk inv_x c) j) (vget c j + (- inv_x * vget c dk) * vget a j).
Proof.
  unfold upd. pose proof (tm_eqm inv_x (vget c dk)) as Hw.
  destruct (f_tm F inv_x (vget c dk) =? 0) eqn:E.
  - apply Z.eqb_eq in E. rewrite E in Hw. apply eqm_sym.
    unfold eqm. replace (vget c j + - inv_x * vget c dk * vget a j - vget c j) with (vget a j * (- inv_x * vget c dk)) by ring.
    apply zm_mul_r; [exact Hp|]. apply eqm_sym in Hw. unfold eqm in Hw. rewrite Z.sub_0_r in Hw. exact Hw.
  - rewrite vget_vzip by apply pte_00. eapply eqm_trans; [apply pte_eqm|].
    apply eqm_add; [apply eqm_refl|]. apply eqm_mul; [exact Hw|apply eqm_refl].
Qed.

Lemma upd_range a dk inv_x c : (forall j, 0 <= vget c j < p) -> forall j, 0 <= vget (upd a dk inv_x c) j < p.
Proof.
  intros H j. unfold upd. destruct (f_tm F inv_x (vget c dk) =? 0); [apply H|].
  rewrite vget_vzip by apply pte_00. apply pte_range.
Qed.

Lemma upd_support a dk inv_x c j : vget (upd a dk inv_x c) j <> 0 ->
  vget c j <> 0 \/ (vget c dk <> 0 /\ vget a j <> 0).
Proof.
  unfold upd. destruct (f_tm F inv_x (vget c dk) =? 0) eqn:E; intros H; [left; exact H|].
  rewrite vget_vzip in H by apply pte_00.
  destruct (Z.eq_dec (vget c j) 0) as [E1|E1]; [|left; exact E1]. right.
  split.
  - intro E0. rewrite E0, tm_0 in E. discriminate.
  - intro E2. rewrite E1, E2, pte_00 in H. contradiction.
Qed.

Lemma upd_kill a dk x c : 0 < x < p -> vget a dk = x -> 0 <= vget c dk < p ->
  vget (upd a dk (inv_of x) c) dk = 0.
Proof.
  intros Hx Ha Hc. destruct (inv_of_spec x Hx) as [Hinv _].
  assert (Hr : 0 <= vget (upd a dk (inv_of x) c) dk < p) by (unfold upd; destruct (_ =? 0); [exact Hc|rewrite vget_vzip by apply pte_00; apply pte_range]).
  apply eqm_0_small; [|exact Hr].
  eapply eqm_trans; [apply upd_eqm|]. rewrite Ha.
  unfold eqm. replace (vget c dk + - inv_of x * vget c dk * x - 0) with ((- vget c dk) * (inv_of x * x - 1)) by ring.
  apply zm_mul_r; assumption.
Qed.

Lemma bsum_upd a dk inv_x (ann : list vec) dim fs : forall i j,
  eqm (bsum (map (upd a dk inv_x) ann) dim fs i j)
      (bsum ann dim fs i j + (- inv_x * bsum ann dim fs i dk) * vget a j).
Proof.
  induction fs as [|f fs IH]; intros i j; cbn [bsum].
  - apply eqm_eq. ring.
  - rewrite nth_map_upd.
    eapply eqm_trans; [apply eqm_add; [apply eqm_mul_l; apply upd_eqm|apply IH]|].
    apply eqm_eq. ring.
Qed.


(* ------------------------------------------------------------------ list helpers *)
Lemma nth_snoc {A} (l : list A) (x d : A) t :
  nth t (l ++ [x]) d = if (t <? length l)%nat then nth t l d else if (t =? length l)%nat then x else d.
Proof.
  destruct (Nat.ltb_spec t (length l)) as [H|H].
  - apply app_nth1. exact H.
  - rewrite app_nth2 by lia. destruct (Nat.eqb_spec t (length l)) as [->|Hne].
    + rewrite Nat.sub_diag. reflexivity.
    + destruct (t - length l)%nat as [|[|k]] eqn:E; try lia; reflexivity.
Qed.
Lemma nth_snoc_nil (l : list vec) t : nth t (l ++ [[]]) [] = nth t l [].
Proof.
  rewrite nth_snoc. destruct (Nat.ltb_spec t (length l)) as [H|H]; [reflexivity|].
  rewrite (nth_overflow l) by lia. destruct (t =? length l)%nat; reflexivity.
Qed.
Lemma NoDup_snoc {A} (l : list A) x : NoDup l -> ~ In x l -> NoDup (l ++ [x]).
Proof.
  induction l as [|y l IH]; intros Hn Hx; cbn [app].
  - constructor; [intros []|constructor].
  - inversion Hn; subst. constructor.
    + intro Hin. apply in_app_or in Hin. destruct Hin as [Hin|[->|[]]]; [contradiction|]. apply Hx. left. reflexivity.
    + apply IH; [assumption|]. intro Hin. apply Hx. right. exact Hin.
Qed.

(* ------------------------------------------------------------------ the filtered complex *)
Variable cells : list cell.
Variables dim_max m : Z.
Variable sw : bool.
Definition cell_at (k : nat) : cell := nth k cells (mkcell 0 [] 0).
(* faces come earlier and have one dimension less; an edge has two faces *)
Definition valid : Prop := forall k, (k < length cells)%nat ->
  (forall f, In f (c_faces (cell_at k)) -> (f < k)%nat /\ S (dim_of cells f) = c_dim (cell_at k)) /\
  (c_dim (cell_at k) = 1%nat -> length (c_faces (cell_at k)) = 2%nat).
Hypothesis Hvalid : valid.

Definition newcell_ok (ann : list vec) (n : nat) : Prop :=
  forall j, zm p (bsum ann (dim_of cells n) (c_faces (cell_at n)) 0 j).

(* ------------------------------------------------------------------ invariant, annotation part *)
Record InvA (ann : list vec) (rows : list (nat * Z)) (n : nat) : Prop := {
  A_len : length ann = n;
  A_rows : forall k, In k (map fst rows) -> (k < n)%nat /\ (1 <= dim_of cells k)%nat;
  A_nd : NoDup (map fst rows);
  A_ch : forall r, In r rows -> snd r = p;
  A_range : forall t j, 0 <= vget (nth t ann []) j < p;
  A_supp : forall t j, vget (nth t ann []) j <> 0 -> In j (map fst rows) /\ dim_of cells j = dim_of cells t;
  A_coc : forall t j, (t < n)%nat -> zm p (bsum ann (dim_of cells t) (c_faces (cell_at t)) 0 j) }.

Lemma A_snoc_nil ann rows n : InvA ann rows n -> newcell_ok ann n -> InvA (ann ++ [[]]) rows (S n).
Proof.
  intros [L R N C G S K] Hnew. constructor.
  - rewrite app_length. cbn. lia.
  - intros k Hk. destruct (R k Hk). split; lia.
  - exact N.
  - exact C.
  - intros t j. rewrite nth_snoc_nil. apply G.
  - intros t j. rewrite nth_snoc_nil. apply S.
  - intros t j Ht. rewrite (bsum_ext (ann ++ [[]]) ann) by (intros; apply nth_snoc_nil).
    destruct (Nat.eq_dec t n) as [->|Hne]; [apply Hnew|apply K; lia].
Qed.

Lemma faces_lt n f : (n < length cells)%nat -> In f (c_faces (cell_at n)) -> (f < n)%nat /\ S (dim_of cells f) = dim_of cells n.
Proof. intros Hn Hf. destruct (Hvalid n Hn) as [H _]. apply H. exact Hf. Qed.

Lemma A_snoc_unit ann rows n : (n < length cells)%nat -> InvA ann rows n -> newcell_ok ann n -> (1 <= dim_of cells n)%nat ->
  InvA (ann ++ [unit_vec n 1]) (rows ++ [(n, p)]) (S n).
Proof.
  intros Hn [L R N C G S K] Hnew Hdim.
  assert (Hext : forall t, (t <= n)%nat -> forall f, In f (c_faces (cell_at t)) -> nth f (ann ++ [unit_vec n 1]) [] = nth f ann []).
  { intros t Ht f Hf. destruct (faces_lt t f ltac:(lia) Hf) as [Hlt _]. apply app_nth1. lia. }
  constructor.
  - rewrite app_length. cbn. lia.
  - intros k Hk. rewrite map_app in Hk. apply in_app_or in Hk. destruct Hk as [Hk|[<-|[]]].
    + destruct (R k Hk). split; lia.
    + cbn. split; [lia|exact Hdim].
  - rewrite map_app. cbn [map fst]. apply NoDup_snoc; [exact N|]. intro Hin. destruct (R n Hin). lia.
  - intros r Hr. apply in_app_or in Hr. destruct Hr as [Hr|[<-|[]]]; [apply C; exact Hr|reflexivity].
  - intros t j. rewrite nth_snoc, L.
    destruct (t <? n)%nat; [apply G|]. destruct (t =? n)%nat; [|rewrite vget_nil; lia].
    rewrite vget_unit. destruct (j =? n)%nat; lia.
  - intros t j. rewrite nth_snoc, L. rewrite map_app. cbn [map fst].
    destruct (Nat.ltb_spec t n) as [Ht|Ht].
    + intros H. destruct (S t j H). split; [apply in_or_app; left; assumption|assumption].
    + destruct (Nat.eqb_spec t n) as [->|Hne]; [|rewrite vget_nil; intros H; contradiction].
      rewrite vget_unit. destruct (Nat.eqb_spec j n) as [->|Hj]; [|intros H; contradiction].
      intros _. split; [apply in_or_app; right; left; reflexivity|reflexivity].
  - intros t j Ht. rewrite (bsum_ext (ann ++ [unit_vec n 1]) ann) by (apply Hext; lia).
    destruct (Nat.eq_dec t n) as [->|Hne]; [apply Hnew|apply K; lia].
Qed.

(* a cell all of whose faces have a null annotation at j (vertices, edges) *)
Lemma newcell_ok_low ann rows n : (n < length cells)%nat -> InvA ann rows n -> (dim_of cells n <= 1)%nat -> newcell_ok ann n.
Proof.
  intros Hn IA Hd j. rewrite bsum_zero; [apply zm_0; exact Hp|].
  intros f Hf. destruct (faces_lt n f Hn Hf) as [_ Hdf].
  destruct (Z.eq_dec (vget (nth f ann []) j) 0) as [E|E]; [exact E|].
  destruct (A_supp _ _ _ IA f j E) as [Hin Hdj]. destruct (A_rows _ _ _ IA j Hin). lia.
Qed.

(* removal of the row of key k when all rows carry the characteristic p *)
Definition rows_without (k : nat) (charac : Z) (rows : list (nat * Z)) : list (nat * Z) :=
  concat (map (fun r => if (fst r =? k)%nat then (if snd r =? charac then [] else [(fst r, snd r / charac)]) else [r]) rows).
Lemma rows_without_spec k rows : (forall r, In r rows -> snd r = p) ->
  (forall r, In r (rows_without k p rows) <-> In r rows /\ fst r <> k).
Proof.
  induction rows as [|r0 rows IH]; intros Hc r; unfold rows_without; cbn [map concat].
  - split; [intros []|intros [[] _]].
  - fold (rows_without k p rows). rewrite in_app_iff. rewrite IH by (intros; apply Hc; right; assumption).
    destruct (Nat.eqb_spec (fst r0) k) as [E|E].
    + rewrite (Hc r0) by (left; reflexivity). rewrite Z.eqb_refl. cbn [In].
      split; [intros [[]|[H1 H2]]; split; [right|]; assumption|].
      intros [[->|H1] H2]; [contradiction|]. right. split; assumption.
    + cbn [In]. split.
      * intros [[->|[]]|[H1 H2]]; split; try assumption; [left; reflexivity|right; assumption].
      * intros [[->|H1] H2]; [left; left; reflexivity|right; split; assumption].
Qed.
Lemma rows_without_nd k rows : (forall r, In r rows -> snd r = p) -> NoDup (map fst rows) -> NoDup (map fst (rows_without k p rows)).
Proof.
  induction rows as [|r0 rows IH]; intros Hc Hn; unfold rows_without; cbn [map concat].
  - constructor.
  - fold (rows_without k p rows). cbn [map] in Hn. inversion Hn; subst.
    assert (IHn := IH (fun r Hr => Hc r (or_intror Hr)) H2).
    destruct (Nat.eqb_spec (fst r0) k) as [E|E].
    + rewrite (Hc r0) by (left; reflexivity). rewrite Z.eqb_refl. cbn [app]. exact IHn.
    + cbn [app map]. constructor; [|exact IHn]. intro Hin. apply in_map_iff in Hin. destruct Hin as [r [Hr1 Hr2]].
      apply rows_without_spec in Hr2; [|intros; apply Hc; right; assumption]. destruct Hr2 as [Hr2 _].
      apply H1. rewrite <- Hr1. apply in_map. exact Hr2.
Qed.


Lemma in_rows_without k j rows : (forall r, In r rows -> snd r = p) -> In j (map fst rows) -> j <> k -> In j (map fst (rows_without k p rows)).
Proof.
  intros Hc Hin Hne. apply in_map_iff in Hin. destruct Hin as [r [<- Hr]].
  apply in_map. apply rows_without_spec; [exact Hc|]. split; assumption.
Qed.
Lemma in_rows_without_inv k j rows : (forall r, In r rows -> snd r = p) -> In j (map fst (rows_without k p rows)) -> In j (map fst rows) /\ j <> k.
Proof.
  intros Hc Hin. apply in_map_iff in Hin. destruct Hin as [r [<- Hr]].
  apply rows_without_spec in Hr; [|exact Hc]. destruct Hr. split; [apply in_map; assumption|assumption].
Qed.

(* a destructor: the highest key k of the annotation a of its boundary is a live class of one dimension less, and after
   the column updates no annotation has a coefficient at k any more *)
Lemma A_destroy ann rows n a k x tl : (n < length cells)%nat -> InvA ann rows n ->
  a = bann F ann (dim_of cells n) (c_faces (cell_at n)) 0 [] -> a_ds_rev a 0 = (k, x) :: tl ->
  InvA (map (upd a k (inv_of x)) ann ++ [[]]) (rows_without k p rows) (S n) /\
  In k (map fst rows) /\ S (dim_of cells k) = dim_of cells n /\ 0 < x < p.
Proof.
  intros Hn IA Ha Hds.
  destruct (a_ds_rev_head a 0 k x tl Hds) as (_ & Hx & Hx0 & _). rewrite Nat.sub_0_r in Hx. fold (vget a k) in Hx.
  assert (Hra : forall j, 0 <= vget a j < p).
  { rewrite Ha. apply bann_range. intros j. rewrite vget_nil. lia. }
  assert (Hxr : 0 < x < p) by (specialize (Hra k); lia).
  assert (Hsa : forall j, vget a j <> 0 -> In j (map fst rows) /\ S (dim_of cells j) = dim_of cells n).
  { intros j Hj. rewrite Ha in Hj. apply bann_support in Hj. destruct Hj as [Hj|[f [Hf Hj]]]; [rewrite vget_nil in Hj; contradiction|].
    destruct (A_supp _ _ _ IA f j Hj) as [Hin Hd]. destruct (faces_lt n f Hn Hf) as [_ Hdf]. split; [exact Hin|lia]. }
  assert (Hk : In k (map fst rows) /\ S (dim_of cells k) = dim_of cells n) by (apply Hsa; lia).
  assert (HB : forall j, eqm (vget a j) (bsum ann (dim_of cells n) (c_faces (cell_at n)) 0 j)).
  { intros j. rewrite Ha. eapply eqm_trans; [apply bann_eqm|]. rewrite vget_nil. apply eqm_eq. ring. }
  destruct (inv_of_spec x Hxr) as [Hinv _].
  pose proof (A_ch _ _ _ IA) as Hch.
  split; [|split; [apply Hk|split; [apply Hk|exact Hxr]]].
  apply A_snoc_nil.
  - constructor.
    + rewrite map_length. apply (A_len _ _ _ IA).
    + intros k' Hk'. apply in_rows_without_inv in Hk'; [|exact Hch]. apply (A_rows _ _ _ IA). apply Hk'.
    + apply rows_without_nd; [exact Hch|apply (A_nd _ _ _ IA)].
    + intros r Hr. apply rows_without_spec in Hr; [|exact Hch]. apply Hch. apply Hr.
    + intros t j. rewrite nth_map_upd. apply upd_range. apply (A_range _ _ _ IA).
    + intros t j H. rewrite nth_map_upd in H.
      assert (Hjk : j <> k).
      { intros ->. apply H. apply upd_kill; [exact Hxr|symmetry; exact Hx|apply (A_range _ _ _ IA)]. }
      apply upd_support in H. destruct H as [H|[H1 H2]].
      * destruct (A_supp _ _ _ IA t j H) as [Hin Hd]. split; [apply in_rows_without; assumption|exact Hd].
      * destruct (A_supp _ _ _ IA t k H1) as [_ Hdk]. destruct (Hsa j H2) as [Hin Hdj].
        split; [apply in_rows_without; assumption|]. destruct Hk as [_ Hk]. lia.
    + intros t j Ht. eapply eqm_zm; [apply bsum_upd|].
      apply zm_add; [exact Hp|apply (A_coc _ _ _ IA); exact Ht|].
      apply zm_mul_l; [exact Hp|]. apply zm_mul_r; [exact Hp|]. apply (A_coc _ _ _ IA). exact Ht.
  - intros j. eapply eqm_zm; [apply bsum_upd|].
    set (B := bsum ann (dim_of cells n) (c_faces (cell_at n)) 0) in *.
    apply (eqm_zm _ (vget a j + (- inv_of x * x) * vget a j)).
    + apply eqm_add; [apply eqm_sym; apply HB|].
      apply eqm_mul; [|apply eqm_refl]. apply eqm_mul_l. apply eqm_sym. rewrite Hx. apply HB.
    + replace (vget a j + - inv_of x * x * vget a j) with ((- vget a j) * (inv_of x * x - 1)) by ring.
      apply zm_mul_r; assumption.
Qed.


(* ------------------------------------------------------------------ invariant, connected components *)
Record InvH (comp : list (nat * nat)) (n : nat) : Prop := {
  H_b : forall v c, In (v, c) comp -> (v < n)%nat /\ (c < n)%nat /\ dim_of cells c = 0%nat;
  H_nd : NoDup (map fst comp);
  H_tot : forall k, (k < n)%nat -> dim_of cells k = 0%nat -> exists c, lookup k comp = Some c }.

Lemma lookup_in k l c : lookup k l = Some c -> In (k, c) l.
Proof.
  induction l as [|[a b] l IH]; cbn [lookup]; [discriminate|].
  destruct (Nat.eqb_spec a k) as [->|Hne]; intros H; [inversion H; left; reflexivity|right; apply IH; exact H].
Qed.
Lemma lookup_snoc k l n : lookup k (l ++ [(n, n)]) =
  match lookup k l with Some c => Some c | None => if (n =? k)%nat then Some n else None end.
Proof.
  induction l as [|[a b] l IH]; cbn [lookup app]; [reflexivity|].
  destruct (a =? k)%nat; [reflexivity|exact IH].
Qed.
Lemma lookup_relabel k from to l : lookup k (relabel from to l) =
  option_map (fun c => if (c =? from)%nat then to else c) (lookup k l).
Proof.
  induction l as [|[a b] l IH]; cbn [lookup relabel map snd fst]; [reflexivity|].
  fold (relabel from to l). destruct (b =? from)%nat eqn:E; cbn [lookup fst snd]; destruct (a =? k)%nat; cbn [option_map]; try rewrite E; try reflexivity; exact IH.
Qed.
Lemma relabel_fst from to l : map fst (relabel from to l) = map fst l.
Proof.
  induction l as [|[a b] l IH]; cbn [relabel map fst snd]; [reflexivity|]. fold (relabel from to l).
  rewrite IH. destruct (b =? from)%nat; reflexivity.
Qed.
Lemma relabel_in from to l v c : In (v, c) (relabel from to l) ->
  (In (v, c) l /\ c <> from) \/ (c = to /\ In (v, from) l).
Proof.
  unfold relabel. intros H. apply in_map_iff in H. destruct H as [[v0 c0] [E H]]. cbn [fst snd] in E.
  destruct (Nat.eqb_spec c0 from) as [E0|Hne]; inversion E; subst.
  - right. split; [reflexivity|exact H].
  - left. split; assumption.
Qed.
Lemma relabel_vals from to l k : In k (map snd (relabel from to l)) -> (In k (map snd l) /\ k <> from) \/ k = to.
Proof.
  intros H. apply in_map_iff in H. destruct H as [[v c] [E H]]. cbn [snd] in E. subst c.
  apply relabel_in in H. destruct H as [[H1 H2]|[H1 _]]; [left|right; exact H1].
  split; [|exact H2]. apply in_map_iff. exists (v, k). split; [reflexivity|exact H1].
Qed.

Lemma H_snoc comp n : dim_of cells n = 0%nat -> InvH comp n -> InvH (comp ++ [(n, n)]) (S n).
Proof.
  intros Hd [B N T]. constructor.
  - intros v c H. apply in_app_or in H. destruct H as [H|[H|[]]].
    + destruct (B v c H) as (? & ? & ?). repeat split; try lia; assumption.
    + inversion H; subst. repeat split; try lia; assumption.
  - rewrite map_app. cbn [map fst]. apply NoDup_snoc; [exact N|]. intro H. apply in_map_iff in H.
    destruct H as [[v c] [E H]]. cbn [fst] in E. subst v. destruct (B n c H). lia.
  - intros k Hk Hdk. rewrite lookup_snoc. destruct (lookup k comp) as [c|] eqn:E; [exists c; reflexivity|].
    destruct (Nat.eq_dec k n) as [->|Hne].
    + rewrite Nat.eqb_refl. exists n. reflexivity.
    + destruct (T k ltac:(lia) Hdk) as [c Hc]. congruence.
Qed.

Lemma H_mono comp n : dim_of cells n <> 0%nat -> InvH comp n -> InvH comp (S n).
Proof.
  intros Hd [B N T]. constructor.
  - intros v c H. destruct (B v c H) as (? & ? & ?). repeat split; try lia; assumption.
  - exact N.
  - intros k Hk Hdk. apply T; [|exact Hdk]. destruct (Nat.eq_dec k n) as [->|]; [contradiction|lia].
Qed.

Lemma H_relabel comp n from to : dim_of cells n <> 0%nat -> (to < n)%nat -> dim_of cells to = 0%nat ->
  InvH comp n -> InvH (relabel from to comp) (S n).
Proof.
  intros Hd Hto Hdto IHH. destruct (H_mono comp n Hd IHH) as [B N T]. constructor.
  - intros v c H. apply relabel_in in H. destruct H as [[H _]|[-> H]].
    + apply B. exact H.
    + destruct (B v from H) as (? & ? & ?). repeat split; try lia; assumption.
  - rewrite relabel_fst. exact N.
  - intros k Hk Hdk. rewrite lookup_relabel. destruct (T k Hk Hdk) as [c ->]. cbn [option_map]. eexists. reflexivity.
Qed.

Lemma coc_spec (s : st) n f : InvH (s_comp s) n -> (f < n)%nat -> dim_of cells f = 0%nat ->
  In (f, coc s f) (s_comp s).
Proof.
  intros IHH Hf Hd. unfold coc. destruct (H_tot _ _ IHH f Hf Hd) as [c Hc]. rewrite Hc. apply lookup_in. exact Hc.
Qed.

(* ------------------------------------------------------------------ invariant, pairs *)
Definition pair_keys (ps : list pair) : list nat :=
  flat_map (fun x => p_birth x :: match p_death x with Some d => [d] | None => [] end) ps.

Record InvP (ps : list pair) (rows : list (nat * Z)) (comp : list (nat * nat)) (n : nat) : Prop := {
  P_fin : forall x, In x ps -> exists d, p_death x = Some d /\ (p_birth x < d)%nat /\ (d < n)%nat /\
                                         dim_of cells d = S (dim_of cells (p_birth x)) /\ snd x = p;
  P_nd : NoDup (pair_keys ps);
  P_keys : forall k, In k (pair_keys ps) -> (k < n)%nat /\ ~ In k (map fst rows) /\ ~ In k (map snd comp) }.

Lemma P_weaken ps rows comp rows' comp' n : InvP ps rows comp n ->
  (forall k, In k (map fst rows') -> In k (map fst rows) \/ k = n) ->
  (forall k, In k (map snd comp') -> In k (map snd comp) \/ k = n) ->
  InvP ps rows' comp' (S n).
Proof.
  intros [Fi N K] Hr Hc. constructor.
  - intros x Hx. destruct (Fi x Hx) as (d & A & B & C & D & E). exists d. repeat split; try assumption; lia.
  - exact N.
  - intros k Hk. destruct (K k Hk) as (A & B & C). split; [lia|]. split.
    + intro H. destruct (Hr k H); [contradiction|lia].
    + intro H. destruct (Hc k H); [contradiction|lia].
Qed.

Lemma P_add ps rows comp rows' comp' n b : InvP ps rows comp n ->
  (forall k, In k (map fst rows') -> In k (map fst rows) \/ k = n) ->
  (forall k, In k (map snd comp') -> In k (map snd comp) \/ k = n) ->
  (b < n)%nat -> dim_of cells n = S (dim_of cells b) -> ~ In b (pair_keys ps) ->
  ~ In b (map fst rows') -> ~ In b (map snd comp') -> ~ In n (map fst rows') -> ~ In n (map snd comp') ->
  InvP (add_pair cells m b n p ps) rows' comp' (S n).
Proof.
  intros IPP Hr Hc Hb Hd Hnb Hbr Hbc Hnr Hnc. pose proof (P_weaken _ _ _ _ _ _ IPP Hr Hc) as W.
  unfold add_pair. destruct (length_ok cells m b n); [|exact W].
  destruct W as [Fi N K]. destruct IPP as [_ _ K0].
  assert (Hkeys : pair_keys (@app (nat * option nat * Z) ps [(b, Some n, p)]) = (pair_keys ps ++ [b]) ++ [n]).
  { unfold pair_keys. rewrite flat_map_app. cbn. rewrite <- app_assoc. reflexivity. }
  constructor.
  - intros x Hx. apply in_app_or in Hx. destruct Hx as [Hx|[<-|[]]]; [apply Fi; exact Hx|].
    exists n. cbn. repeat split; try lia.
  - rewrite Hkeys. apply NoDup_snoc; [apply NoDup_snoc; assumption|].
    intro H. apply in_app_or in H. destruct H as [H|[H|[]]]; [destruct (K0 n H); lia|lia].
  - intros k Hk. rewrite Hkeys in Hk. apply in_app_or in Hk. destruct Hk as [Hk|[<-|[]]].
    + apply in_app_or in Hk. destruct Hk as [Hk|[<-|[]]]; [apply K; exact Hk|]. repeat split; try assumption; lia.
    + repeat split; try assumption; lia.
Qed.

Record Inv (s : st) (n : nat) : Prop := {
  IA : InvA (s_ann s) (s_rows s) n;
  IH : InvH (s_comp s) n;
  IP : InvP (s_pairs s) (s_rows s) (s_comp s) n }.


(* ------------------------------------------------------------------ one step keeps the invariant *)
Lemma kill_loop_one a n es s : kill_loop F cells m n a es 1 s = (s, 1).
Proof. destruct es as [|[k x] es]; reflexivity. Qed.

Lemma vals_in (comp : list (nat * nat)) v c : In (v, c) comp -> In c (map snd comp).
Proof. intros H. apply in_map_iff. exists (v, c). split; [reflexivity|exact H]. Qed.

Lemma not_n_in_vals comp n : InvH comp n -> ~ In n (map snd comp).
Proof.
  intros IHH H. apply in_map_iff in H. destruct H as [[v0 c0] [E H]]. cbn [snd] in E. subst c0.
  destruct (H_b _ _ IHH v0 n H) as (_ & ? & _). lia.
Qed.
Lemma not_n_in_rows ann rows n : InvA ann rows n -> ~ In n (map fst rows).
Proof. intros IAA H. destruct (A_rows _ _ _ IAA n H). lia. Qed.

Lemma merge_inv s n dead alive : (n < length cells)%nat -> Inv s n -> dim_of cells n = 1%nat ->
  In dead (map snd (s_comp s)) -> In alive (map snd (s_comp s)) -> dead <> alive ->
  (dead < n)%nat -> (alive < n)%nat -> dim_of cells dead = 0%nat -> dim_of cells alive = 0%nat ->
  Inv (mkst (s_ann s ++ [[]]) (s_rows s) (relabel dead alive (s_comp s)) (add_pair cells m dead n p (s_pairs s))) (S n).
Proof.
  intros Hn [IAs IHs IPs] Hd1 Hdv Hav Hne Hdn Han Hdd Had.
  constructor; cbn [s_ann s_rows s_comp s_pairs].
  - apply A_snoc_nil; [exact IAs|]. apply (newcell_ok_low _ (s_rows s)); [exact Hn|exact IAs|lia].
  - apply H_relabel; try assumption. lia.
  - apply (P_add _ (s_rows s) (s_comp s)); try assumption.
    + intros k H; left; exact H.
    + intros k H. apply relabel_vals in H. destruct H as [[H _]| ->]; left; assumption.
    + lia.
    + intro H. destruct (P_keys _ _ _ _ IPs dead H) as (_ & _ & Hc). apply Hc. exact Hdv.
    + intro H. destruct (A_rows _ _ _ IAs dead H). lia.
    + intro H. apply relabel_vals in H. destruct H as [[_ H]|H]; [apply H; reflexivity|contradiction].
    + apply (not_n_in_rows _ _ _ IAs).
    + intro H. apply relabel_vals in H. destruct H as [[H _]|H]; [apply (not_n_in_vals _ _ IHs H)|lia].
Qed.

Lemma create_inv s n : (n < length cells)%nat -> Inv s n -> (1 <= dim_of cells n)%nat -> newcell_ok (s_ann s) n ->
  Inv (mkst (s_ann s ++ [new_col n (f_one F)]) (s_rows s ++ [(n, f_char F)]) (s_comp s) (s_pairs s)) (S n).
Proof.
  intros Hn [IAs IHs IPs] Hd Hnew. change (new_col n (f_one F)) with (unit_vec n 1). change (f_char F) with p.
  constructor; cbn [s_ann s_rows s_comp s_pairs].
  - apply A_snoc_unit; assumption.
  - apply H_mono; [lia|exact IHs].
  - apply (P_weaken _ _ _ _ _ _ IPs); [|intros k H; left; exact H].
    intros k H. rewrite map_app in H. apply in_app_or in H. destruct H as [H|[<-|[]]]; [left; exact H|right; reflexivity].
Qed.

Lemma skip_inv s n : (n < length cells)%nat -> Inv s n -> (1 <= dim_of cells n)%nat -> newcell_ok (s_ann s) n ->
  Inv (mkst (s_ann s ++ [[]]) (s_rows s) (s_comp s) (s_pairs s)) (S n).
Proof.
  intros Hn [IAs IHs IPs] Hd Hnew.
  constructor; cbn [s_ann s_rows s_comp s_pairs].
  - apply A_snoc_nil; assumption.
  - apply H_mono; [lia|exact IHs].
  - apply (P_weaken _ _ _ _ _ _ IPs); intros k H; left; exact H.
Qed.

Lemma step_inv s n : (n < length cells)%nat -> Inv s n -> Inv (step sw F cells dim_max m s (cell_at n)) (S n).
Proof.
  intros Hn HI. pose proof HI as [IAs IHs IPs]. pose proof (A_len _ _ _ IAs) as Hlen.
  destruct (Hvalid n Hn) as [Hfaces Hedge].
  assert (Hdn : dim_of cells n = c_dim (cell_at n)) by reflexivity.
  unfold step. rewrite Hlen.
  destruct (c_dim (cell_at n)) as [|[|d]] eqn:Ed.
  - (* vertex *)
    constructor; cbn [s_ann s_rows s_comp s_pairs].
    + apply A_snoc_nil; [exact IAs|]. apply (newcell_ok_low _ (s_rows s)); [exact Hn|exact IAs|lia].
    + apply H_snoc; assumption.
    + apply (P_weaken _ _ _ _ _ _ IPs); [intros k H; left; exact H|].
      intros k H. rewrite map_app in H. apply in_app_or in H. destruct H as [H|[<-|[]]]; [left; exact H|right; reflexivity].
  - (* edge *)
    specialize (Hedge eq_refl).
    destruct (c_faces (cell_at n)) as [|f0 [|f1 [|]]] eqn:Efs; try discriminate Hedge.
    destruct (Hfaces f0 (or_introl eq_refl)) as [Hv0 Hdv0]. destruct (Hfaces f1 (or_intror (or_introl eq_refl))) as [Hu0 Hdu0].
    assert (Huv : exists u v, nth (if sw then 1 else 0)%nat [f0; f1] 0%nat = v /\ nth (if sw then 0 else 1)%nat [f0; f1] 0%nat = u /\
                   (u < n)%nat /\ (v < n)%nat /\ S (dim_of cells u) = 1%nat /\ S (dim_of cells v) = 1%nat).
    { destruct sw; cbn [nth]; [exists f0, f1|exists f1, f0]; repeat split; assumption. }
    destruct Huv as (u & v & -> & -> & Hu & Hv & Hdu & Hdv).
    pose proof (coc_spec s n u IHs Hu ltac:(lia)) as Hcu. pose proof (coc_spec s n v IHs Hv ltac:(lia)) as Hcv.
    set (cu := coc s u) in *. set (cv := coc s v) in *.
    destruct (H_b _ _ IHs u cu Hcu) as (_ & Hcun & Hcud). destruct (H_b _ _ IHs v cv Hcv) as (_ & Hcvn & Hcvd).
    pose proof (vals_in _ _ _ Hcu) as Hcuv. pose proof (vals_in _ _ _ Hcv) as Hcvv.
    assert (Hnew : newcell_ok (s_ann s) n) by (apply (newcell_ok_low _ (s_rows s)); [exact Hn|exact IAs|lia]).
    destruct (Nat.eqb_spec cu cv) as [Heq|Hne]; cbn [negb].
    + destruct (1 <? dim_max).
      * apply create_inv; try assumption. lia.
      * apply skip_inv; try assumption. lia.
    + change (f_char F) with p. destruct (val_of cells cu <? val_of cells cv).
      * apply merge_inv; try assumption. intro E; apply Hne; symmetry; exact E.
      * apply merge_inv; assumption.
  - (* dimension >= 2 *)
    set (a := bann F (s_ann s) (S (S d)) (c_faces (cell_at n)) 0 []).
    assert (Ha : a = bann F (s_ann s) (dim_of cells n) (c_faces (cell_at n)) 0 []) by (rewrite Hdn; reflexivity).
    destruct (a_ds_rev a 0) as [|[k x] tl] eqn:Eds.
    + assert (Hnew : newcell_ok (s_ann s) n).
      { intros j. pose proof (bann_eqm (s_ann s) (dim_of cells n) (c_faces (cell_at n)) 0 [] j) as HB.
        rewrite <- Ha, vget_nil in HB. unfold vget in HB at 1. rewrite (a_ds_rev_nil a 0 Eds) in HB.
        apply eqm_sym in HB. unfold eqm in HB. rewrite Z.sub_0_r, Z.add_0_l in HB. exact HB. }
      destruct (Z.of_nat (S (S d)) <? dim_max).
      * apply create_inv; try assumption. lia.
      * apply skip_inv; try assumption. lia.
    + destruct (A_destroy (s_ann s) (s_rows s) n a k x tl Hn IAs Ha Eds) as (IA' & Hk & Hdk & Hx).
      destruct (inv_of_spec x Hx) as [_ Hinz].
      cbn [kill_loop]. change (f_char F) with p. change (f_one F) with 1.
      destruct (Z.eqb_spec p 1) as [E1|_]; [lia|].
      change (f_inv F x p) with (inv_of x, p). cbv beta iota.
      destruct (Z.eqb_spec (inv_of x) 0) as [E0|_]; [contradiction|].
      rewrite Z.div_same by lia. rewrite kill_loop_one.
      change (negb (1 =? 1) && (Z.of_nat (S (S d)) <? dim_max)) with false. cbv beta iota.
      constructor; cbn [s_ann s_rows s_comp s_pairs destroy].
      * exact IA'.
      * apply H_mono; [lia|exact IHs].
      * pose proof (A_ch _ _ _ IAs) as Hch.
        apply (P_add _ (s_rows s) (s_comp s)); try assumption.
        -- intros k' H. left. apply (in_rows_without_inv k k' (s_rows s) Hch H).
        -- intros k' H; left; exact H.
        -- apply (A_rows _ _ _ IAs k Hk).
        -- lia.
        -- intro H. destruct (P_keys _ _ _ _ IPs k H) as (_ & Hr & _). contradiction.
        -- intro H. destruct (in_rows_without_inv k k (s_rows s) Hch H) as [_ Hkk]. apply Hkk. reflexivity.
        -- intro H. apply in_map_iff in H. destruct H as [[v0 c0] [E H]]. cbn [snd] in E. subst c0.
           destruct (H_b _ _ IHs v0 k H) as (_ & _ & Hd0). destruct (A_rows _ _ _ IAs k Hk). lia.
        -- intro H. destruct (in_rows_without_inv k n (s_rows s) Hch H) as [H1 _]. apply (not_n_in_rows _ _ _ IAs H1).
        -- apply (not_n_in_vals _ _ IHs).
Qed.


(* ------------------------------------------------------------------ every prefix of the filtration *)
Lemma Inv0 : Inv st0 0.
Proof.
  constructor; cbn [st0 s_ann s_rows s_comp s_pairs].
  - constructor; cbn [map].
    + reflexivity.
    + intros k [].
    + constructor.
    + intros r [].
    + intros t j. destruct t; cbn [nth]; rewrite vget_nil; lia.
    + intros t j H. destruct t; cbn [nth] in H; rewrite vget_nil in H; contradiction.
    + intros t j Ht. lia.
  - constructor; cbn [map].
    + intros v c [].
    + constructor.
    + intros k Hk. lia.
  - constructor; cbn [map pair_keys flat_map].
    + intros x [].
    + constructor.
    + intros k [].
Qed.

Lemma run_inv pre : forall suf, cells = pre ++ suf -> Inv (run sw F cells dim_max m pre) (length pre).
Proof.
  unfold run. induction pre as [|c pre IH] using rev_ind; intros suf H.
  - exact Inv0.
  - rewrite fold_left_app. cbn [fold_left]. rewrite app_length. cbn [length]. rewrite Nat.add_1_r.
    rewrite <- app_assoc in H. cbn [app] in H.
    assert (Hc : c = cell_at (length pre)).
    { unfold cell_at. rewrite H. rewrite app_nth2 by lia. rewrite Nat.sub_diag. reflexivity. }
    rewrite Hc. apply step_inv; [|apply (IH (c :: suf)); exact H].
    rewrite H. rewrite app_length. cbn [length]. lia.
Qed.

Definition final_pairs (s : st) : list pair := s_pairs s ++ essential F s.

Lemma pair_keys_app a b : pair_keys (a ++ b) = pair_keys a ++ pair_keys b.
Proof. unfold pair_keys. apply flat_map_app. Qed.
Lemma pair_keys_inf {A} (f : A -> nat) (g : A -> Z) (l : list A) : pair_keys (map (fun v => (f v, None, g v)) l) = map f l.
Proof. induction l as [|x l IH]; cbn; [reflexivity|]. f_equal. exact IH. Qed.
Lemma NoDup_app2 {A} (l1 l2 : list A) : NoDup l1 -> NoDup l2 -> (forall x, In x l1 -> ~ In x l2) -> NoDup (l1 ++ l2).
Proof.
  induction l1 as [|y l1 IH]; intros H1 H2 Hd; cbn [app]; [exact H2|].
  inversion H1; subst. constructor.
  - intro H. apply in_app_or in H. destruct H as [H|H]; [contradiction|]. apply (Hd y); [left; reflexivity|exact H].
  - apply IH; try assumption. intros x Hx. apply Hd. right. exact Hx.
Qed.
Lemma NoDup_map_filter {A B} (f : A -> B) (g : A -> bool) (l : list A) : NoDup (map f l) -> NoDup (map f (filter g l)).
Proof.
  induction l as [|x l IH]; intros H; cbn [filter map]; [constructor|]. cbn [map] in H. inversion H; subst.
  destruct (g x); [|apply IH; assumption]. cbn [map]. constructor; [|apply IH; assumption].
  intro Hin. apply H2. apply in_map_iff in Hin. destruct Hin as [y [E Hy]]. apply filter_In in Hy. rewrite <- E. apply in_map. apply Hy.
Qed.

(* each simplex is paired at most once; births precede deaths; deaths are one dimension higher *)
Theorem final_once s n : Inv s n -> NoDup (pair_keys (final_pairs s)).
Proof.
  intros [IAs IHs IPs]. unfold final_pairs, essential. rewrite !pair_keys_app.
  rewrite (pair_keys_inf (fun vc : nat * nat => fst vc) (fun _ => f_char F)).
  rewrite (pair_keys_inf (fun r : nat * Z => fst r) (fun r => snd r)).
  assert (Hlive : forall x, In x (map fst (filter (fun vc : nat * nat => (fst vc =? snd vc)%nat) (s_comp s))) ->
                  In x (map snd (s_comp s)) /\ dim_of cells x = 0%nat).
  { intros x Hx. apply in_map_iff in Hx. destruct Hx as [[v c] [E Hvc]]. cbn [fst] in E. subst v.
    apply filter_In in Hvc. destruct Hvc as [Hvc Heq]. cbn [fst snd] in Heq. apply Nat.eqb_eq in Heq. subst c.
    split; [apply (vals_in _ _ _ Hvc)|]. apply (H_b _ _ IHs x x Hvc). }
  apply NoDup_app2; [apply (P_nd _ _ _ _ IPs)| |].
  - apply NoDup_app2; [apply NoDup_map_filter; apply (H_nd _ _ IHs)|apply (A_nd _ _ _ IAs)|].
    intros x Hx Hr. destruct (Hlive x Hx) as [_ Hd]. destruct (A_rows _ _ _ IAs x Hr). lia.
  - intros x Hx Hin. destruct (P_keys _ _ _ _ IPs x Hx) as (_ & Hr & Hc). apply in_app_or in Hin. destruct Hin as [Hin|Hin].
    + apply Hc. apply Hlive. exact Hin.
    + apply Hr. exact Hin.
Qed.

Theorem final_order s n : Inv s n -> forall x, In x (final_pairs s) ->
  match p_death x with
  | Some d => (p_birth x < d)%nat /\ (d < n)%nat /\ dim_of cells d = S (dim_of cells (p_birth x))
  | None => (p_birth x < n)%nat
  end /\ snd x = p.
Proof.
  intros [IAs IHs IPs] x Hx. unfold final_pairs, essential in Hx. apply in_app_or in Hx. destruct Hx as [Hx|Hx].
  - destruct (P_fin _ _ _ _ IPs x Hx) as (d & -> & A & B & C & D). repeat split; assumption.
  - apply in_app_or in Hx. destruct Hx as [Hx|Hx]; apply in_map_iff in Hx.
    + destruct Hx as [[v c] [<- Hvc]]. apply filter_In in Hvc. destruct Hvc as [Hvc _]. cbn. split; [|reflexivity].
      apply (H_b _ _ IHs v c Hvc).
    + destruct Hx as [r [<- Hr]]. cbn. split; [|apply (A_ch _ _ _ IAs r Hr)].
      apply (A_rows _ _ _ IAs (fst r)). apply in_map. exact Hr.
Qed.

(* every coordinate of the annotation matrix is a cocycle: the annotation of the boundary of every simplex of the current
   complex is null *)
Theorem cocycle_inv s n : Inv s n -> forall t j, (t < n)%nat ->
  vget (bann F (s_ann s) (dim_of cells t) (c_faces (cell_at t)) 0 []) j = 0.
Proof.
  intros [IAs _ _] t j Ht. apply eqm_0_small.
  - eapply eqm_trans; [apply bann_eqm|]. rewrite vget_nil, Z.add_0_l. unfold eqm. rewrite Z.sub_0_r. apply (A_coc _ _ _ IAs t j Ht).
  - apply bann_range. intros j'. rewrite vget_nil. lia.
Qed.

(* annotations are supported on live classes of the dimension of their simplex, with coefficients in [0,p) *)
Theorem support_inv s n : Inv s n -> forall t j, vget (nth t (s_ann s) []) j <> 0 ->
  In j (map fst (s_rows s)) /\ dim_of cells j = dim_of cells t /\ 0 < vget (nth t (s_ann s) []) j < p.
Proof.
  intros [IAs _ _] t j H. destruct (A_supp _ _ _ IAs t j H). pose proof (A_range _ _ _ IAs t j). repeat split; try assumption; lia.
Qed.

(* ------------------------------------------------------------------ the live cocycles are independent *)
(* The coordinate j of the annotation matrix, phi_j : tau |-> ann(tau)[j], vanishes on the simplices before sigma_j and takes the
   value 1 on sigma_j as long as the class j is alive: the live cocycles are non-trivial and linearly independent
   (triangular against the simplices that created them). *)
Definition lowT (ann : list vec) : Prop := forall t j, vget (nth t ann []) j <> 0 -> (j <= t)%nat.
Definition oneT (ann : list vec) (rows : list (nat * Z)) : Prop := forall j, In j (map fst rows) -> vget (nth j ann []) j = 1.

Lemma T_snoc_nil ann rows : lowT ann -> oneT ann rows -> lowT (ann ++ [[]]) /\ oneT (ann ++ [[]]) rows.
Proof.
  intros HL HO. split.
  - intros t j. rewrite nth_snoc_nil. apply HL.
  - intros j Hj. rewrite nth_snoc_nil. apply HO. exact Hj.
Qed.
Lemma T_snoc_unit ann rows n : InvA ann rows n -> lowT ann -> oneT ann rows ->
  lowT (ann ++ [unit_vec n 1]) /\ oneT (ann ++ [unit_vec n 1]) (rows ++ [(n, p)]).
Proof.
  intros IAA HL HO. pose proof (A_len _ _ _ IAA) as L. split.
  - intros t j. rewrite nth_snoc, L. destruct (Nat.ltb_spec t n); [apply HL|].
    destruct (Nat.eqb_spec t n) as [->|]; [|rewrite vget_nil; intros H'; contradiction].
    rewrite vget_unit. destruct (Nat.eqb_spec j n) as [->|]; [lia|intros H'; contradiction].
  - intros j Hj. rewrite map_app in Hj. apply in_app_or in Hj. rewrite nth_snoc, L. destruct Hj as [Hj|[<-|[]]].
    + destruct (A_rows _ _ _ IAA j Hj) as [Hlt _]. destruct (Nat.ltb_spec j n); [apply HO; exact Hj|lia].
    + cbn [fst]. destruct (Nat.ltb_spec n n); [lia|]. rewrite Nat.eqb_refl. rewrite vget_unit, Nat.eqb_refl. reflexivity.
Qed.
Lemma T_destroy ann rows n a k x tl : InvA ann rows n -> a_ds_rev a 0 = (k, x) :: tl -> lowT ann -> oneT ann rows ->
  lowT (map (upd a k (inv_of x)) ann ++ [[]]) /\ oneT (map (upd a k (inv_of x)) ann ++ [[]]) (rows_without k p rows).
Proof.
  intros IAA Hds HL HO.
  destruct (a_ds_rev_head a 0 k x tl Hds) as (_ & _ & _ & Hhigh).
  assert (Hah : forall j, vget a j <> 0 -> (j <= k)%nat).
  { intros j Hj. destruct (Nat.le_gt_cases j k) as [Hle|Hgt]; [exact Hle|]. exfalso. apply Hj. apply Hhigh. lia. }
  split.
  - intros t j. rewrite nth_snoc_nil, nth_map_upd. intros H. apply upd_support in H. destruct H as [H|[H1 H2]].
    + apply HL. exact H.
    + pose proof (HL t k H1). pose proof (Hah j H2). lia.
  - intros j Hj. rewrite nth_snoc_nil, nth_map_upd.
    apply in_rows_without_inv in Hj; [|apply (A_ch _ _ _ IAA)]. destruct Hj as [Hj Hjk].
    pose proof (HO j Hj) as H1. unfold upd.
    destruct (Z.eq_dec (vget (nth j ann []) k) 0) as [E|E].
    + rewrite E, tm_0. cbn. exact H1.
    + pose proof (HL j k E) as Hkj.
      assert (Haj : vget a j = 0).
      { destruct (Z.eq_dec (vget a j) 0) as [E2|E2]; [exact E2|]. pose proof (Hah j E2). lia. }
      destruct (f_tm F (inv_of x) (vget (nth j ann []) k) =? 0); [exact H1|].
      rewrite vget_vzip by apply pte_00. rewrite H1, Haj. cbn [F zp_ops f_pte]. rewrite fz_pte_mod by exact ppos.
      rewrite Z.mul_0_r, Z.add_0_r. apply Z.mod_1_l. exact pgt1.
Qed.

Lemma step_T s n : (n < length cells)%nat -> Inv s n -> lowT (s_ann s) -> oneT (s_ann s) (s_rows s) ->
  let s' := step sw F cells dim_max m s (cell_at n) in lowT (s_ann s') /\ oneT (s_ann s') (s_rows s').
Proof.
  intros Hn HI HL HO. pose proof HI as [IAs IHs IPs]. pose proof (A_len _ _ _ IAs) as Hlen.
  destruct (Hvalid n Hn) as [Hfaces Hedge].
  cbv zeta. unfold step. rewrite Hlen.
  destruct (c_dim (cell_at n)) as [|[|d]] eqn:Ed.
  - cbn [s_ann s_rows]. apply T_snoc_nil; assumption.
  - destruct (negb (coc s (nth (if sw then 0 else 1)%nat (c_faces (cell_at n)) 0%nat) =? coc s (nth (if sw then 1 else 0)%nat (c_faces (cell_at n)) 0%nat))%nat).
    + destruct (val_of cells _ <? val_of cells _); cbn [s_ann s_rows]; apply T_snoc_nil; assumption.
    + destruct (1 <? dim_max); cbn [s_ann s_rows].
      * change (new_col n (f_one F)) with (unit_vec n 1). change (f_char F) with p. apply T_snoc_unit; assumption.
      * apply T_snoc_nil; assumption.
  - set (a := bann F (s_ann s) (S (S d)) (c_faces (cell_at n)) 0 []).
    assert (Ha : a = bann F (s_ann s) (dim_of cells n) (c_faces (cell_at n)) 0 []).
    { unfold a. change (dim_of cells n) with (c_dim (cell_at n)). rewrite Ed. reflexivity. }
    destruct (a_ds_rev a 0) as [|[k x] tl] eqn:Eds.
    + destruct (Z.of_nat (S (S d)) <? dim_max); cbn [s_ann s_rows].
      * change (new_col n (f_one F)) with (unit_vec n 1). change (f_char F) with p. apply T_snoc_unit; assumption.
      * apply T_snoc_nil; assumption.
    + destruct (A_destroy (s_ann s) (s_rows s) n a k x tl Hn IAs Ha Eds) as (_ & Hk & _ & Hx).
      destruct (inv_of_spec x Hx) as [_ Hinz].
      cbn [kill_loop]. change (f_char F) with p. change (f_one F) with 1.
      destruct (Z.eqb_spec p 1) as [E1|_]; [lia|].
      change (f_inv F x p) with (inv_of x, p). cbv beta iota.
      destruct (Z.eqb_spec (inv_of x) 0) as [E0|_]; [contradiction|].
      rewrite Z.div_same by lia. rewrite kill_loop_one.
      change (negb (1 =? 1) && (Z.of_nat (S (S d)) <? dim_max)) with false. cbv beta iota.
      cbn [s_ann s_rows s_comp s_pairs destroy].
      apply (T_destroy (s_ann s) (s_rows s) n a k x tl); assumption.
Qed.

Lemma run_T pre : forall suf, cells = pre ++ suf ->
  let s := run sw F cells dim_max m pre in lowT (s_ann s) /\ oneT (s_ann s) (s_rows s).
Proof.
  unfold run. induction pre as [|c pre IH] using rev_ind; intros suf H.
  - cbn. split.
    + intros t j Hj. destruct t; cbn [nth] in Hj; rewrite vget_nil in Hj; contradiction.
    + intros j [].
  - rewrite fold_left_app. cbn [fold_left].
    rewrite <- app_assoc in H. cbn [app] in H.
    assert (Hc : c = cell_at (length pre)).
    { unfold cell_at. rewrite H. rewrite app_nth2 by lia. rewrite Nat.sub_diag. reflexivity. }
    rewrite Hc. destruct (IH (c :: suf) H) as [HL HO]. apply step_T; try assumption.
    + rewrite H. rewrite app_length. cbn [length]. lia.
    + apply (run_inv pre (c :: suf)). exact H.
Qed.

(* ------------------------------------------------------------------ completeness of the pairing *)
(* When no interval is discarded by the minimal length, every simplex of dimension below dim_max ends up in a pair (finite or
   infinite): it is a recorded death, a recorded birth, a live row or the creator of a live component. *)
Hypothesis Hok : forall b d, (b < d)%nat -> length_ok cells m b d = true.

Definition covC (ps : list pair) (rows : list (nat * Z)) (comp : list (nat * nat)) (n : nat) : Prop :=
  forall k, (k < n)%nat -> Z.of_nat (dim_of cells k) < dim_max ->
    In k (pair_keys ps) \/ In k (map fst rows) \/ In (k, k) comp.

Lemma relabel_keep from to l v c : In (v, c) l -> c <> from -> In (v, c) (relabel from to l).
Proof.
  intros H Hne. unfold relabel. apply in_map_iff. exists (v, c). cbn [fst snd].
  destruct (Nat.eqb_spec c from) as [E|_]; [contradiction|]. split; [reflexivity|exact H].
Qed.
Lemma pair_keys_add ps b n : (b < n)%nat -> pair_keys (add_pair cells m b n p ps) = (pair_keys ps ++ [b]) ++ [n].
Proof.
  intros Hb. unfold add_pair. rewrite (Hok b n Hb). unfold pair_keys. rewrite flat_map_app. cbn. rewrite <- app_assoc. reflexivity.
Qed.

Lemma cov_vertex ps rows comp n : covC ps rows comp n -> covC ps rows (comp ++ [(n, n)]) (S n).
Proof.
  intros H k Hk Hd. destruct (Nat.eq_dec k n) as [->|Hne].
  - right. right. apply in_or_app. right. left. reflexivity.
  - destruct (H k ltac:(lia) Hd) as [A|[A|A]]; [left; exact A|right; left; exact A|right; right; apply in_or_app; left; exact A].
Qed.
Lemma cov_merge ps rows comp n dead alive : (dead < n)%nat -> covC ps rows comp n ->
  covC (add_pair cells m dead n p ps) rows (relabel dead alive comp) (S n).
Proof.
  intros Hdn H k Hk Hd. rewrite pair_keys_add by exact Hdn. destruct (Nat.eq_dec k n) as [->|Hne].
  - left. apply in_or_app. right. left. reflexivity.
  - destruct (H k ltac:(lia) Hd) as [A|[A|A]].
    + left. apply in_or_app. left. apply in_or_app. left. exact A.
    + right. left. exact A.
    + destruct (Nat.eq_dec k dead) as [->|Hkd].
      * left. apply in_or_app. left. apply in_or_app. right. left. reflexivity.
      * right. right. apply relabel_keep; assumption.
Qed.
Lemma cov_create ps rows comp n ch : covC ps rows comp n -> covC ps (rows ++ [(n, ch)]) comp (S n).
Proof.
  intros H k Hk Hd. rewrite map_app. cbn [map fst]. destruct (Nat.eq_dec k n) as [->|Hne].
  - right. left. apply in_or_app. right. left. reflexivity.
  - destruct (H k ltac:(lia) Hd) as [A|[A|A]]; [left; exact A|right; left; apply in_or_app; left; exact A|right; right; exact A].
Qed.
Lemma cov_skip ps rows comp n : ~ (Z.of_nat (dim_of cells n) < dim_max) -> covC ps rows comp n -> covC ps rows comp (S n).
Proof.
  intros Hn H k Hk Hd. destruct (Nat.eq_dec k n) as [->|Hne]; [contradiction|]. apply H; [lia|exact Hd].
Qed.
Lemma cov_destroy ps rows comp n k0 : (forall r, In r rows -> snd r = p) -> (k0 < n)%nat -> covC ps rows comp n ->
  covC (add_pair cells m k0 n p ps) (rows_without k0 p rows) comp (S n).
Proof.
  intros Hch Hk0 H k Hk Hd. rewrite pair_keys_add by exact Hk0. destruct (Nat.eq_dec k n) as [->|Hne].
  - left. apply in_or_app. right. left. reflexivity.
  - destruct (H k ltac:(lia) Hd) as [A|[A|A]].
    + left. apply in_or_app. left. apply in_or_app. left. exact A.
    + destruct (Nat.eq_dec k k0) as [->|Hkk].
      * left. apply in_or_app. left. apply in_or_app. right. left. reflexivity.
      * right. left. apply in_rows_without; assumption.
    + right. right. exact A.
Qed.

Lemma step_cov s n : (n < length cells)%nat -> Inv s n -> covC (s_pairs s) (s_rows s) (s_comp s) n ->
  let s' := step sw F cells dim_max m s (cell_at n) in covC (s_pairs s') (s_rows s') (s_comp s') (S n).
Proof.
  intros Hn HI HC. pose proof HI as [IAs IHs IPs]. pose proof (A_len _ _ _ IAs) as Hlen.
  destruct (Hvalid n Hn) as [Hfaces Hedge].
  assert (Hdn : dim_of cells n = c_dim (cell_at n)) by reflexivity.
  cbv zeta. unfold step. rewrite Hlen.
  destruct (c_dim (cell_at n)) as [|[|d]] eqn:Ed.
  - cbn [s_ann s_rows s_comp s_pairs]. apply cov_vertex. exact HC.
  - specialize (Hedge eq_refl).
    destruct (c_faces (cell_at n)) as [|f0 [|f1 [|]]] eqn:Efs; try discriminate Hedge.
    destruct (Hfaces f0 (or_introl eq_refl)) as [Hv0 Hdv0]. destruct (Hfaces f1 (or_intror (or_introl eq_refl))) as [Hu0 Hdu0].
    assert (Huv : exists u v, nth (if sw then 1 else 0)%nat [f0; f1] 0%nat = v /\ nth (if sw then 0 else 1)%nat [f0; f1] 0%nat = u /\
                   (u < n)%nat /\ (v < n)%nat /\ S (dim_of cells u) = 1%nat /\ S (dim_of cells v) = 1%nat).
    { destruct sw; cbn [nth]; [exists f0, f1|exists f1, f0]; repeat split; assumption. }
    destruct Huv as (u & v & -> & -> & Hu & Hv & Hdu & Hdv).
    pose proof (coc_spec s n u IHs Hu ltac:(lia)) as Hcu. pose proof (coc_spec s n v IHs Hv ltac:(lia)) as Hcv.
    set (cu := coc s u) in *. set (cv := coc s v) in *.
    destruct (H_b _ _ IHs u cu Hcu) as (_ & Hcun & _). destruct (H_b _ _ IHs v cv Hcv) as (_ & Hcvn & _).
    destruct (cu =? cv)%nat; cbn [negb].
    + destruct (Z.ltb_spec 1 dim_max); cbn [s_ann s_rows s_comp s_pairs].
      * apply cov_create. exact HC.
      * apply cov_skip; [rewrite Hdn; lia|exact HC].
    + change (f_char F) with p. destruct (val_of cells cu <? val_of cells cv); cbn [s_ann s_rows s_comp s_pairs];
        apply cov_merge; assumption.
  - set (a := bann F (s_ann s) (S (S d)) (c_faces (cell_at n)) 0 []).
    assert (Ha : a = bann F (s_ann s) (dim_of cells n) (c_faces (cell_at n)) 0 []) by (rewrite Hdn; reflexivity).
    destruct (a_ds_rev a 0) as [|[k x] tl] eqn:Eds.
    + destruct (Z.ltb_spec (Z.of_nat (S (S d))) dim_max); cbn [s_ann s_rows s_comp s_pairs].
      * apply cov_create. exact HC.
      * apply cov_skip; [rewrite Hdn; lia|exact HC].
    + destruct (A_destroy (s_ann s) (s_rows s) n a k x tl Hn IAs Ha Eds) as (_ & Hk & _ & Hx).
      destruct (inv_of_spec x Hx) as [_ Hinz].
      cbn [kill_loop]. change (f_char F) with p. change (f_one F) with 1.
      destruct (Z.eqb_spec p 1) as [E1|_]; [lia|].
      change (f_inv F x p) with (inv_of x, p). cbv beta iota.
      destruct (Z.eqb_spec (inv_of x) 0) as [E0|_]; [contradiction|].
      rewrite Z.div_same by lia. rewrite kill_loop_one.
      change (negb (1 =? 1) && (Z.of_nat (S (S d)) <? dim_max)) with false. cbv beta iota.
      cbn [s_ann s_rows s_comp s_pairs destroy].
      apply cov_destroy; [apply (A_ch _ _ _ IAs)|apply (A_rows _ _ _ IAs k Hk)|exact HC].
Qed.

Lemma run_cov pre : forall suf, cells = pre ++ suf ->
  let s := run sw F cells dim_max m pre in covC (s_pairs s) (s_rows s) (s_comp s) (length pre).
Proof.
  unfold run. induction pre as [|c pre IH] using rev_ind; intros suf H.
  - intros k Hk. cbn in Hk. lia.
  - rewrite fold_left_app. cbn [fold_left]. rewrite app_length. cbn [length]. rewrite Nat.add_1_r.
    rewrite <- app_assoc in H. cbn [app] in H.
    assert (Hc : c = cell_at (length pre)).
    { unfold cell_at. rewrite H. rewrite app_nth2 by lia. rewrite Nat.sub_diag. reflexivity. }
    rewrite Hc. apply step_cov.
    + rewrite H. rewrite app_length. cbn [length]. lia.
    + apply (run_inv pre (c :: suf)). exact H.
    + apply (IH (c :: suf)). exact H.
Qed.

Theorem final_complete s n : covC (s_pairs s) (s_rows s) (s_comp s) n ->
  forall k, (k < n)%nat -> Z.of_nat (dim_of cells k) < dim_max -> In k (pair_keys (final_pairs s)).
Proof.
  intros HC k Hk Hd. unfold final_pairs, essential. rewrite !pair_keys_app.
  rewrite (pair_keys_inf (fun vc : nat * nat => fst vc) (fun _ => f_char F)).
  rewrite (pair_keys_inf (fun r : nat * Z => fst r) (fun r => snd r)).
  destruct (HC k Hk Hd) as [A|[A|A]].
  - apply in_or_app. left. exact A.
  - apply in_or_app. right. apply in_or_app. right. exact A.
  - apply in_or_app. right. apply in_or_app. left. apply in_map_iff. exists (k, k). split; [reflexivity|].
    apply filter_In. split; [exact A|]. cbn. apply Nat.eqb_refl.
Qed.

End Zp.

(* ------------------------------------------------------------------ every coefficient structure (Multi_field included) *)
(* What does not depend on the arithmetic: annotations are supported on earlier keys of the dimension of their simplex, hence
   every finite pair has its birth before its death and one dimension less.  Needs only x + w*0 = x at x = 0 and -x*0 = 0. *)
Lemma a_ds_rev_in a : forall i k x, In (k, x) (a_ds_rev a i) -> (i <= k)%nat /\ nth (k - i) a 0 = x /\ x <> 0.
Proof.
  induction a as [|y a IH]; intros i k x H; cbn [a_ds_rev] in H; [destruct H|].
  apply in_app_or in H. destruct H as [H|H].
  - destruct (IH (S i) k x H) as (A & B & C). split; [lia|]. split; [|exact C].
    replace (k - i)%nat with (S (k - S i)) by lia. exact B.
  - destruct (y =? 0) eqn:E; [destruct H|]. destruct H as [H|[]]. inversion H; subst. apply Z.eqb_neq in E.
    rewrite Nat.sub_diag. repeat split; try lia; assumption.
Qed.

Section Gen.
Variable FO : fops.
Hypothesis Hpte00 : forall w, f_pte FO 0 0 w = 0.
Hypothesis Htm0 : forall x, f_tm FO x 0 = 0.
Variable cells : list cell.
Variables dim_max m : Z.
Variable sw : bool.
Hypothesis Hvalid : valid cells.

Definition updG (a : vec) (dk : nat) (inv_x : Z) (c : vec) : vec :=
  let w := f_tm FO inv_x (vget c dk) in if w =? 0 then c else vzip (fun x y => f_pte FO x y w) c a.
Lemma updG_nil a dk inv_x : updG a dk inv_x [] = [].
Proof. unfold updG. rewrite vget_nil, Htm0. reflexivity. Qed.
Lemma nth_map_updG a dk inv_x (ann : list vec) f : nth f (map (updG a dk inv_x) ann) [] = updG a dk inv_x (nth f ann []).
Proof. rewrite <- (updG_nil a dk inv_x) at 1. apply map_nth. Qed.
Lemma updG_support a dk inv_x c j : vget (updG a dk inv_x c) j <> 0 -> vget c j <> 0 \/ (vget c dk <> 0 /\ vget a j <> 0).
Proof.
  unfold updG. destruct (f_tm FO inv_x (vget c dk) =? 0) eqn:E; intros H; [left; exact H|].
  rewrite vget_vzip in H by apply Hpte00.
  destruct (Z.eq_dec (vget c j) 0) as [E1|E1]; [|left; exact E1]. right. split.
  - intro E0. rewrite E0, Htm0 in E. discriminate.
  - intro E2. rewrite E1, E2, Hpte00 in H. contradiction.
Qed.
Lemma bannG_support (ann : list vec) dim fs : forall i acc j, vget (bann FO ann dim fs i acc) j <> 0 ->
  vget acc j <> 0 \/ exists f, In f fs /\ vget (nth f ann []) j <> 0.
Proof.
  induction fs as [|f fs IH]; intros i acc j H; cbn [bann] in H.
  - left. exact H.
  - destruct (IH _ _ _ H) as [H1|[f' [Hin Hf']]].
    + rewrite vget_vzip in H1 by apply Hpte00.
      destruct (Z.eq_dec (vget acc j) 0) as [E1|E1]; [|left; exact E1].
      destruct (Z.eq_dec (vget (nth f ann []) j) 0) as [E2|E2].
      * rewrite E1, E2, Hpte00 in H1. contradiction.
      * right. exists f. split; [left; reflexivity|exact E2].
    + right. exists f'. split; [right; exact Hin|exact Hf'].
Qed.

Definition suppG (ann : list vec) (n : nat) : Prop :=
  forall t j, vget (nth t ann []) j <> 0 -> (j < n)%nat /\ dim_of cells j = dim_of cells t.
Definition a_ok (a : vec) (n : nat) : Prop := forall j, vget a j <> 0 -> (j < n)%nat /\ S (dim_of cells j) = dim_of cells n.
Definition fin_ok (n : nat) (x : pair) : Prop :=
  exists d, p_death x = Some d /\ (p_birth x < d)%nat /\ (d < n)%nat /\ dim_of cells d = S (dim_of cells (p_birth x)).

Record InvG (s : st) (n : nat) : Prop := {
  G_len : length (s_ann s) = n;
  G_supp : suppG (s_ann s) n;
  G_H : InvH cells (s_comp s) n;
  G_pairs : forall x, In x (s_pairs s) -> fin_ok n x }.

Lemma suppG_snoc_nil ann n : suppG ann n -> suppG (ann ++ [[]]) (S n).
Proof. intros H t j. rewrite nth_snoc_nil. intros Hj. destruct (H t j Hj). split; [lia|assumption]. Qed.
Lemma suppG_snoc_unit ann n x : length ann = n -> suppG ann n -> suppG (ann ++ [unit_vec n x]) (S n).
Proof.
  intros L H t j. rewrite nth_snoc, L. destruct (Nat.ltb_spec t n) as [Ht|Ht].
  - intros Hj. destruct (H t j Hj). split; [lia|assumption].
  - destruct (Nat.eqb_spec t n) as [->|Hne]; [|rewrite vget_nil; intros Hj; contradiction].
    rewrite vget_unit. destruct (Nat.eqb_spec j n) as [->|Hj]; [|intros Hc; contradiction]. intros _. split; [lia|reflexivity].
Qed.
Lemma fin_ok_mono n x : fin_ok n x -> fin_ok (S n) x.
Proof. intros (d & A & B & C & D). exists d. repeat split; try assumption; lia. Qed.

Lemma destroy_supp ann n a dk inv_x : suppG ann n -> a_ok a n -> vget a dk <> 0 -> suppG (map (updG a dk inv_x) ann) n.
Proof.
  intros Hs Ha Hdk t j H. rewrite nth_map_updG in H. apply updG_support in H. destruct H as [H|[H1 H2]].
  - apply Hs. exact H.
  - destruct (Hs t dk H1) as [_ Hd1]. destruct (Ha j H2) as [Hj Hd2]. destruct (Ha dk Hdk) as [_ Hd3]. split; [exact Hj|lia].
Qed.

Lemma kill_loop_G a n : a_ok a n -> forall es prod s, (forall k x, In (k, x) es -> vget a k <> 0) -> suppG (s_ann s) n ->
  let r := kill_loop FO cells m n a es prod s in
  suppG (s_ann (fst r)) n /\ length (s_ann (fst r)) = length (s_ann s) /\ s_comp (fst r) = s_comp s /\
  (forall x, In x (s_pairs (fst r)) -> In x (s_pairs s) \/
             exists k ch, x = (k, Some n, ch) /\ (k < n)%nat /\ S (dim_of cells k) = dim_of cells n).
Proof.
  intros Ha. induction es as [|[k x] es IH]; intros prod s Hes Hs; cbn [kill_loop].
  - cbn [fst]. split; [exact Hs|split; [reflexivity|split; [reflexivity|intros y Hy; left; exact Hy]]].
  - destruct (prod =? f_one FO).
    + cbn [fst]. split; [exact Hs|split; [reflexivity|split; [reflexivity|intros y Hy; left; exact Hy]]].
    + destruct (f_inv FO x prod) as [inv_x charac]. destruct (inv_x =? 0).
      * apply IH; [|exact Hs]. intros k' x' H'. apply (Hes k' x'). right. exact H'.
      * assert (Hk : vget a k <> 0) by (apply (Hes k x); left; reflexivity).
        set (s' := destroy FO cells m n a k inv_x charac s).
        assert (Hs' : suppG (s_ann s') n) by (apply (destroy_supp (s_ann s) n a k inv_x Hs Ha Hk)).
        destruct (IH (prod / charac) s' (fun k' x' H' => Hes k' x' (or_intror H')) Hs') as (A & B & C & D).
        split; [exact A|]. split; [rewrite B; unfold s'; cbn [destroy s_ann]; apply map_length|].
        split; [rewrite C; reflexivity|].
        intros y Hy. destruct (D y Hy) as [Hy'|Hy']; [|right; exact Hy'].
        unfold s' in Hy'. cbn [destroy s_pairs] in Hy'. unfold add_pair in Hy'.
        destruct (length_ok cells m k n); [|left; exact Hy'].
        apply in_app_or in Hy'. destruct Hy' as [Hy'|[<-|[]]]; [left; exact Hy'|].
        right. exists k, charac. split; [reflexivity|]. apply Ha. exact Hk.
Qed.

Lemma add_pair_G n b ch ps : (b < n)%nat -> dim_of cells n = S (dim_of cells b) ->
  (forall x, In x ps -> fin_ok n x) -> forall x, In x (add_pair cells m b n ch ps) -> fin_ok (S n) x.
Proof.
  intros Hb Hd H x Hx. unfold add_pair in Hx. destruct (length_ok cells m b n); [|apply fin_ok_mono; apply H; exact Hx].
  apply in_app_or in Hx. destruct Hx as [Hx|[<-|[]]]; [apply fin_ok_mono; apply H; exact Hx|].
  exists n. cbn. repeat split; try lia.
Qed.

Lemma stepG_inv s n : (n < length cells)%nat -> InvG s n -> InvG (step sw FO cells dim_max m s (cell_at cells n)) (S n).
Proof.
  intros Hn [L Sp Hh Pp]. destruct (Hvalid n Hn) as [Hfaces Hedge].
  assert (Hdn : dim_of cells n = c_dim (cell_at cells n)) by reflexivity.
  assert (Hmono : forall x, In x (s_pairs s) -> fin_ok (S n) x) by (intros x Hx; apply fin_ok_mono; apply Pp; exact Hx).
  unfold step. rewrite L.
  destruct (c_dim (cell_at cells n)) as [|[|d]] eqn:Ed.
  - constructor; cbn [s_ann s_rows s_comp s_pairs].
    + rewrite app_length. cbn. lia.
    + apply suppG_snoc_nil. exact Sp.
    + apply H_snoc; assumption.
    + exact Hmono.
  - specialize (Hedge eq_refl).
    destruct (c_faces (cell_at cells n)) as [|f0 [|f1 [|]]] eqn:Efs; try discriminate Hedge.
    destruct (Hfaces f0 (or_introl eq_refl)) as [Hv0 Hdv0]. destruct (Hfaces f1 (or_intror (or_introl eq_refl))) as [Hu0 Hdu0].
    assert (Huv : exists u v, nth (if sw then 1 else 0)%nat [f0; f1] 0%nat = v /\ nth (if sw then 0 else 1)%nat [f0; f1] 0%nat = u /\
                   (u < n)%nat /\ (v < n)%nat /\ S (dim_of cells u) = 1%nat /\ S (dim_of cells v) = 1%nat).
    { destruct sw; cbn [nth]; [exists f0, f1|exists f1, f0]; repeat split; assumption. }
    destruct Huv as (u & v & -> & -> & Hu & Hv & Hdu & Hdv).
    pose proof (coc_spec cells s n u Hh Hu ltac:(lia)) as Hcu. pose proof (coc_spec cells s n v Hh Hv ltac:(lia)) as Hcv.
    set (cu := coc s u) in *. set (cv := coc s v) in *.
    destruct (H_b _ _ _ Hh u cu Hcu) as (_ & Hcun & Hcud). destruct (H_b _ _ _ Hh v cv Hcv) as (_ & Hcvn & Hcvd).
    destruct (cu =? cv)%nat; cbn [negb].
    + destruct (1 <? dim_max); constructor; cbn [s_ann s_rows s_comp s_pairs]; try exact Hmono;
        try (rewrite app_length; cbn; lia); try (apply H_mono; [lia|exact Hh]).
      * apply suppG_snoc_unit; assumption.
      * apply suppG_snoc_nil. exact Sp.
    + destruct (val_of cells cu <? val_of cells cv); constructor; cbn [s_ann s_rows s_comp s_pairs];
        try (rewrite app_length; cbn; lia); try (apply suppG_snoc_nil; exact Sp);
        try (apply H_relabel; [lia|assumption|assumption|exact Hh]);
        apply add_pair_G; try assumption; lia.
  - set (a := bann FO (s_ann s) (S (S d)) (c_faces (cell_at cells n)) 0 []).
    assert (Ha : a_ok a n).
    { intros j Hj. unfold a in Hj. apply bannG_support in Hj. destruct Hj as [Hj|[f [Hf Hj]]]; [rewrite vget_nil in Hj; contradiction|].
      destruct (Sp f j Hj) as [Hjn Hd]. destruct (Hfaces f Hf) as [_ Hdf]. split; [exact Hjn|]. rewrite Hdn. lia. }
    destruct (a_ds_rev a 0) as [|e es] eqn:Eds.
    + destruct (Z.of_nat (S (S d)) <? dim_max); constructor; cbn [s_ann s_rows s_comp s_pairs]; try exact Hmono;
        try (rewrite app_length; cbn; lia); try (apply H_mono; [lia|exact Hh]).
      * apply suppG_snoc_unit; assumption.
      * apply suppG_snoc_nil. exact Sp.
    + assert (Hes : forall k x, In (k, x) (e :: es) -> vget a k <> 0).
      { intros k x Hin. rewrite <- Eds in Hin. destruct (a_ds_rev_in a 0 k x Hin) as (_ & B & C).
        rewrite Nat.sub_0_r in B. unfold vget. rewrite B. exact C. }
      pose proof (kill_loop_G a n Ha (e :: es) (f_char FO) s Hes Sp) as HK. cbv zeta in HK.
      destruct (kill_loop FO cells m n a (e :: es) (f_char FO) s) as [s1 prod1]. cbn [fst] in HK.
      destruct HK as (A & B & C & D).
      assert (HP : forall x, In x (s_pairs s1) -> fin_ok (S n) x).
      { intros x Hx. destruct (D x Hx) as [Hx'|(k & ch & -> & Hk & Hdk)]; [apply Hmono; exact Hx'|].
        exists n. cbn. repeat split; try lia. }
      destruct (negb (prod1 =? f_one FO) && (Z.of_nat (S (S d)) <? dim_max)); constructor; cbn [s_ann s_rows s_comp s_pairs];
        try exact HP; try (rewrite app_length, B; cbn; lia); try (rewrite C; apply H_mono; [lia|exact Hh]).
      * apply suppG_snoc_unit; [lia|exact A].
      * apply suppG_snoc_nil. exact A.
Qed.

Lemma InvG0 : InvG st0 0.
Proof.
  constructor; cbn [st0 s_ann s_rows s_comp s_pairs].
  - reflexivity.
  - intros t j H. destruct t; cbn [nth] in H; rewrite vget_nil in H; contradiction.
  - constructor; cbn [map]; [intros v c []|constructor|intros k Hk; lia].
  - intros x [].
Qed.

Lemma runG_inv pre : forall suf, cells = pre ++ suf -> InvG (run sw FO cells dim_max m pre) (length pre).
Proof.
  unfold run. induction pre as [|c pre IH] using rev_ind; intros suf H.
  - exact InvG0.
  - rewrite fold_left_app. cbn [fold_left]. rewrite app_length. cbn [length]. rewrite Nat.add_1_r.
    rewrite <- app_assoc in H. cbn [app] in H.
    assert (Hc : c = cell_at cells (length pre)).
    { unfold cell_at. rewrite H. rewrite app_nth2 by lia. rewrite Nat.sub_diag. reflexivity. }
    rewrite Hc. apply stepG_inv; [|apply (IH (c :: suf)); exact H].
    rewrite H. rewrite app_length. cbn [length]. lia.
Qed.
End Gen.

Theorem pcoh_gen_order_any_field FO cells flag m sw :
  (forall w, f_pte FO 0 0 w = 0) -> (forall x, f_tm FO x 0 = 0) -> valid cells ->
  forall b d ch, In (b, Some d, ch) (pcoh_gen sw FO cells flag m) ->
  (b < d)%nat /\ (d < length cells)%nat /\ dim_of cells d = S (dim_of cells b).
Proof.
  intros H1 H2 Hv b d ch H. unfold pcoh_gen in H. destruct (dim_max_of cells flag <=? 0); [destruct H|].
  apply in_app_or in H. destruct H as [H|H].
  - pose proof (runG_inv FO H1 H2 cells (dim_max_of cells flag) m sw Hv cells [] (eq_sym (app_nil_r cells))) as HI.
    destruct (G_pairs _ _ _ HI _ H) as (d' & A & B & C & D). cbn in A. inversion A; subst. cbn in *. repeat split; assumption.
  - unfold essential in H. apply in_app_or in H. destruct H as [H|H]; apply in_map_iff in H; destruct H as [y [E _]]; discriminate.
Qed.

Lemma mf_ops_zero primes : (forall w, f_pte (mf_ops primes) 0 0 w = 0) /\ (forall x, f_tm (mf_ops primes) x 0 = 0).
Proof.
  unfold mf_ops. cbn [f_pte f_tm]. unfold mf_plus_times_equal, mf_times_minus. split.
  - intros w. rewrite Z.mul_0_r, Z.add_0_l. apply Zmod_0_l.
  - intros x. rewrite Z.mul_0_r, Zmod_0_l, Z.sub_0_r. apply Z_mod_same_full.
Qed.

Theorem pcoh_multifield_order primes cells flag m sw : valid cells ->
  forall b d ch, In (b, Some d, ch) (pcoh_gen sw (mf_ops primes) cells flag m) ->
  (b < d)%nat /\ (d < length cells)%nat /\ dim_of cells d = S (dim_of cells b).
Proof.
  intros Hv. destruct (mf_ops_zero primes) as [H1 H2]. apply pcoh_gen_order_any_field; assumption.
Qed.

(* ------------------------------------------------------------------ statements about [pcoh] itself *)
Definition validb := valid_b.
Lemma validb_sound cells : validb cells = true -> valid cells.
Proof.
  unfold validb, valid_b, valid. rewrite forallb_forall. intros H k Hk.
  specialize (H k ltac:(apply in_seq; lia)). cbv zeta in H. apply andb_true_iff in H. destruct H as [H1 H2].
  split.
  - intros f Hf. rewrite forallb_forall in H1. specialize (H1 f Hf). apply andb_true_iff in H1. destruct H1 as [A B].
    apply Nat.ltb_lt in A. apply Nat.eqb_eq in B. split; assumption.
  - intros Hd. unfold cell_at in *. rewrite Hd in H2. cbn in H2. apply Nat.eqb_eq in H2. exact H2.
Qed.

Section Pcoh.
Variable p : Z.
Hypothesis Hp : prime p.
Hypothesis Hp16 : p < 65536.
Variable cells : list cell.
Hypothesis Hv : valid cells.
Variable flag : bool.
Variable m : Z.
Variable sw : bool.

Lemma pcoh_cases : pcoh_gen sw (zp_ops p) cells flag m = [] \/
  pcoh_gen sw (zp_ops p) cells flag m = final_pairs p (run sw (zp_ops p) cells (dim_max_of cells flag) m cells).
Proof. unfold pcoh_gen. destruct (dim_max_of cells flag <=? 0); [left|right]; reflexivity. Qed.

Lemma run_all_inv : Inv p cells (run sw (zp_ops p) cells (dim_max_of cells flag) m cells) (length cells).
Proof. apply (run_inv p Hp Hp16 cells (dim_max_of cells flag) m sw Hv cells []). symmetry. apply app_nil_r. Qed.

Theorem pcoh_paired_once : NoDup (pair_keys (pcoh_gen sw (zp_ops p) cells flag m)).
Proof.
  destruct pcoh_cases as [-> | ->]; [constructor|].
  apply (final_once p cells _ (length cells)). exact run_all_inv.
Qed.

Theorem pcoh_order : forall b d ch, In (b, Some d, ch) (pcoh_gen sw (zp_ops p) cells flag m) ->
  (b < d)%nat /\ (d < length cells)%nat /\ dim_of cells d = S (dim_of cells b) /\ ch = p.
Proof.
  intros b d ch H. destruct pcoh_cases as [E|E]; rewrite E in H; [destruct H|].
  destruct (final_order p cells _ (length cells) run_all_inv _ H) as [(A & B & C) D]. cbn in *. repeat split; assumption.
Qed.

Theorem pcoh_essential : forall b ch, In (b, None, ch) (pcoh_gen sw (zp_ops p) cells flag m) -> (b < length cells)%nat /\ ch = p.
Proof.
  intros b ch H. destruct pcoh_cases as [E|E]; rewrite E in H; [destruct H|].
  destruct (final_order p cells _ (length cells) run_all_inv _ H) as [A D]. cbn in *. split; assumption.
Qed.

(* when the minimal length discards nothing, every simplex of dimension below dim_max is in a pair: with
   [pcoh_paired_once], in exactly one *)
Theorem pcoh_complete : (forall b d, (b < d)%nat -> length_ok cells m b d = true) ->
  forall k, (k < length cells)%nat -> Z.of_nat (dim_of cells k) < dim_max_of cells flag ->
  In k (pair_keys (pcoh_gen sw (zp_ops p) cells flag m)).
Proof.
  intros Hok k Hk Hd. unfold pcoh_gen. destruct (Z.leb_spec (dim_max_of cells flag) 0) as [Hle|Hlt]; [lia|].
  apply (final_complete p cells (dim_max_of cells flag) _ (length cells)); try assumption.
  apply (run_cov p Hp Hp16 cells (dim_max_of cells flag) m sw Hv Hok cells []). symmetry. apply app_nil_r.
Qed.

(* the cocycle invariant holds after every prefix of the filtration *)
Theorem pcoh_cocycles : forall pre suf dim_max, cells = pre ++ suf ->
  let s := run sw (zp_ops p) cells dim_max m pre in
  forall t j, (t < length pre)%nat ->
    vget (bann (zp_ops p) (s_ann s) (dim_of cells t) (c_faces (nth t cells (mkcell 0 [] 0))) 0 []) j = 0.
Proof.
  intros pre suf dim_max H s t j Ht.
  apply (cocycle_inv p Hp cells s (length pre)); [|exact Ht].
  apply (run_inv p Hp Hp16 cells dim_max m sw Hv pre suf H).
Qed.

Theorem pcoh_live_independent : forall pre suf dim_max, cells = pre ++ suf ->
  let s := run sw (zp_ops p) cells dim_max m pre in
  (forall t j, vget (nth t (s_ann s) []) j <> 0 -> (j <= t)%nat) /\
  (forall j, In j (map fst (s_rows s)) -> vget (nth j (s_ann s) []) j = 1).
Proof.
  intros pre suf dim_max H. apply (run_T p Hp Hp16 cells dim_max m sw Hv pre suf H).
Qed.

Theorem pcoh_support : forall pre suf dim_max, cells = pre ++ suf ->
  let s := run sw (zp_ops p) cells dim_max m pre in
  forall t j, vget (nth t (s_ann s) []) j <> 0 ->
    In j (map fst (s_rows s)) /\ dim_of cells j = dim_of cells t /\ 0 < vget (nth t (s_ann s) []) j < p.
Proof.
  intros pre suf dim_max H s t j Hne.
  apply (support_inv p cells s (length pre)); [|exact Hne].
  apply (run_inv p Hp Hp16 cells dim_max m sw Hv pre suf H).
Qed.
End Pcoh.

(* ------------------------------------------------------------------ the read-outs are functions of the multiset of pairs *)
Lemma filter_length_perm {A} (f : A -> bool) (l l' : list A) : Permutation l l' -> length (filter f l) = length (filter f l').
Proof.
  induction 1; cbn [filter].
  - reflexivity.
  - destruct (f x); cbn [length]; congruence.
  - destruct (f x), (f y); reflexivity.
  - congruence.
Qed.
Lemma filter_map_length {A B} (h : A -> B) (g : B -> bool) (l : list A) :
  length (filter g (map h l)) = length (filter (fun x => g (h x)) l).
Proof. induction l as [|x l IH]; cbn [map filter]; [reflexivity|]. destruct (g (h x)); cbn [length]; congruence. Qed.

Theorem count_dim_perm cells sel ps ps' d : Permutation ps ps' -> count_dim cells sel ps d = count_dim cells sel ps' d.
Proof. intros H. unfold count_dim. f_equal. apply filter_length_perm. exact H. Qed.

Theorem betti_numbers_perm cells dim_max ps ps' : Permutation ps ps' -> betti_numbers cells dim_max ps = betti_numbers cells dim_max ps'.
Proof. intros H. unfold betti_numbers. apply map_ext. intros d. apply count_dim_perm. exact H. Qed.

Theorem persistent_betti_numbers_perm cells dim_max ps ps' from to : Permutation ps ps' ->
  persistent_betti_numbers cells dim_max ps from to = persistent_betti_numbers cells dim_max ps' from to.
Proof. intros H. unfold persistent_betti_numbers. apply map_ext. intros d. apply count_dim_perm. exact H. Qed.

Theorem betti_numbers_nth cells dim_max ps d : (Z.of_nat d < dim_max) ->
  nth d (betti_numbers cells dim_max ps) 0 = betti_number cells ps d.
Proof.
  intros Hd. unfold betti_numbers.
  assert (Hlt : (d < Z.to_nat (Z.max dim_max 0))%nat) by lia.
  rewrite (nth_indep _ 0 (betti_number cells ps 0%nat)) by (rewrite map_length, seq_length; exact Hlt).
  rewrite map_nth. rewrite seq_nth by exact Hlt. reflexivity.
Qed.

Theorem persistent_betti_numbers_nth cells dim_max ps from to d : (Z.of_nat d < dim_max) ->
  nth d (persistent_betti_numbers cells dim_max ps from to) 0 = persistent_betti_number cells ps d from to.
Proof.
  intros Hd. unfold persistent_betti_numbers.
  assert (Hlt : (d < Z.to_nat (Z.max dim_max 0))%nat) by lia.
  rewrite (nth_indep _ 0 (persistent_betti_number cells ps 0%nat from to)) by (rewrite map_length, seq_length; exact Hlt).
  rewrite (map_nth (fun d => persistent_betti_number cells ps d from to)). rewrite seq_nth by exact Hlt. reflexivity.
Qed.

Lemma filter_filter {A} (f g : A -> bool) (l : list A) : filter g (filter f l) = filter (fun x => f x && g x) l.
Proof. induction l as [|x l IH]; cbn [filter]; [reflexivity|]. destruct (f x); cbn [filter andb]; [destruct (g x)|]; congruence. Qed.

(* Betti numbers = intervals of that dimension that never die; persistent Betti numbers = intervals born by [from] and alive after [to] *)
Theorem betti_from_intervals cells ps d :
  betti_number cells ps d =
  Z.of_nat (length (filter (fun iv => match snd iv with None => true | Some _ => false end) (intervals_in_dimension cells ps d))).
Proof.
  unfold betti_number, count_dim, intervals_in_dimension. f_equal. rewrite filter_map_length, filter_filter. f_equal.
  apply filter_ext. intros x. unfold is_inf. cbn [snd]. destruct (p_death x); cbn [option_map]; destruct (dim_of cells (p_birth x) =? d)%nat; reflexivity.
Qed.

Theorem persistent_betti_from_intervals cells ps d from to :
  persistent_betti_number cells ps d from to =
  Z.of_nat (length (filter (fun iv => (fst iv <=? from) && match snd iv with None => true | Some e => to <? e end)
                           (intervals_in_dimension cells ps d))).
Proof.
  unfold persistent_betti_number, count_dim, intervals_in_dimension. f_equal. rewrite filter_map_length, filter_filter. f_equal.
  apply filter_ext. intros x. unfold covers. cbn [fst snd]. destruct (p_death x); cbn [option_map]; apply andb_comm.
Qed.

(* with [from] beyond every birth and [to] beyond every death the persistent Betti numbers are the Betti numbers *)
Theorem persistent_betti_at_infinity cells ps d from to :
  (forall x, In x ps -> val_of cells (p_birth x) <= from) ->
  (forall x e, In x ps -> p_death x = Some e -> val_of cells e <= to) ->
  persistent_betti_number cells ps d from to = betti_number cells ps d.
Proof.
  intros Hb Hd. unfold persistent_betti_number, betti_number, count_dim. f_equal. f_equal.
  apply filter_ext_in. intros x Hx. f_equal. unfold covers, is_inf.
  specialize (Hb x Hx). destruct (p_death x) as [e|] eqn:E.
  - specialize (Hd x e Hx E). destruct (Z.leb_spec (val_of cells (p_birth x)) from); destruct (Z.ltb_spec to (val_of cells e)); cbn; lia.
  - destruct (Z.leb_spec (val_of cells (p_birth x)) from); cbn; lia.
Qed.

Theorem intervals_in_dimension_spec cells ps d b e :
  In (b, e) (intervals_in_dimension cells ps d) <->
  exists x, In x ps /\ dim_of cells (p_birth x) = d /\ b = val_of cells (p_birth x) /\ e = option_map (val_of cells) (p_death x).
Proof.
  unfold intervals_in_dimension. rewrite in_map_iff. split.
  - intros [x [E Hx]]. apply filter_In in Hx. destruct Hx as [Hx Hd]. apply Nat.eqb_eq in Hd. inversion E; subst.
    exists x. repeat split; assumption.
  - intros [x (Hx & Hd & -> & ->)]. exists x. split; [reflexivity|]. apply filter_In. split; [exact Hx|]. apply Nat.eqb_eq. exact Hd.
Qed.

(* ------------------------------------------------------------------ the oracle is canonical *)
Theorem oracle_pairs_canonical p cells l R Fm : prime p -> oracle_pairs p cells = Some l ->
  check_any p (length (bmatrix cells)) (bmatrix cells) R Fm = true ->
  pairs_of_lows (lows p (length (bmatrix cells)) R) = l.
Proof.
  intros Hp H Hc. unfold oracle_pairs in H. destruct (certified_lows p (bmatrix cells)) as [l0|] eqn:E; [|discriminate].
  inversion H; subst. f_equal. apply (certified_lows_canonical_any p (bmatrix cells) R Fm l0 Hp E Hc).
Qed.

(* ------------------------------------------------------------------ non-vacuity: concrete instances *)
(* the 6-vertex projective plane, simplices by dimension, value = dimension *)
Definition rp2_tris : list simplex :=
  [[1;2;4];[1;2;6];[1;3;4];[1;3;5];[1;5;6];[2;3;5];[2;3;6];[2;4;5];[3;4;6];[4;5;6]].
Definition rp2_order : list (simplex * Z) :=
  map (fun v => ([v], 0)) [1;2;3;4;5;6] ++
  map (fun e => (e, 1)) [[1;2];[1;3];[1;4];[1;5];[1;6];[2;3];[2;4];[2;5];[2;6];[3;4];[3;5];[3;6];[4;5];[4;6];[5;6]] ++
  map (fun t => (t, 2)) rp2_tris.
Definition rp2_cells : list cell := match cells_of rp2_order with Some c => c | None => [] end.

Example rp2_is_valid : valid rp2_cells.
Proof. apply validb_sound. vm_compute. reflexivity. Qed.
Example rp2_size : length rp2_cells = 31%nat.
Proof. vm_compute. reflexivity. Qed.

(* over Z_2 the projective plane has H1 and H2, over Z_3 it has neither: the fields disagree *)
Example rp2_betti_Z2 : betti_numbers rp2_cells 3 (pcoh (zp_ops 2) rp2_cells true 0) = [1; 1; 1].
Proof. vm_compute. reflexivity. Qed.
Example rp2_betti_Z3 : betti_numbers rp2_cells 3 (pcoh (zp_ops 3) rp2_cells true 0) = [1; 0; 0].
Proof. vm_compute. reflexivity. Qed.
(* the duality clause on this instance, both fields, both values of persistence_dim_max, two minimal lengths *)
Example rp2_duality :
  forallb (fun p => forallb (fun flag => forallb (fun m =>
    match barcode p rp2_cells (dim_max_of rp2_cells flag) m with
    | Some bc => msame (value_view rp2_cells 1 (pcoh (zp_ops p) rp2_cells flag m)) bc
    | None => false end) [0; 1; 5]) [true; false]) [2; 3; 5] = true.
Proof. vm_compute. reflexivity. Qed.
(* multi-field [2,3]: the products attached to the intervals *)
Example rp2_multifield :
  forallb (fun q =>
    match barcode q rp2_cells 3 0 with
    | Some bc => msame (value_view rp2_cells q (pcoh (mf_ops [2; 3]) rp2_cells true 0)) bc
    | None => false end) [2; 3] = true.
Proof. vm_compute. reflexivity. Qed.
Example rp2_no_filter : forallb (fun b => forallb (fun d => negb (b <? d)%nat || length_ok rp2_cells (-1) b d) (seq 0 31)) (seq 0 31) = true.
Proof. vm_compute. reflexivity. Qed.
(* the hypotheses of the theorems are satisfiable with live classes present: after the edges, before the triangles *)
Example rp2_live_rows : length (s_rows (run false (zp_ops 3) rp2_cells 3 0 (firstn 21 rp2_cells))) = 10%nat.
Proof. vm_compute. reflexivity. Qed.

(* ------------------------------------------------------------------ Euler's formula for the unpaired simplices *)
Definition zsum (l : list Z) : Z := fold_right Z.add 0 l.
Definition sgn (cells : list cell) (k : nat) : Z := if Nat.even (dim_of cells k) then 1 else -1.
(* Euler characteristic of the complex, and the alternating count of the infinite intervals *)
Definition euler (cells : list cell) : Z := zsum (map (sgn cells) (seq 0 (length cells))).
Definition euler_inf (cells : list cell) (ps : list pair) : Z :=
  zsum (map (fun x => if is_inf x then sgn cells (p_birth x) else 0) ps).

Lemma zsum_app a b : zsum (a ++ b) = zsum a + zsum b.
Proof. induction a as [|x a IH]; cbn [app zsum fold_right]; [reflexivity|]. fold (zsum (a ++ b)). fold (zsum a). rewrite IH. ring. Qed.
Lemma zsum_perm (f : nat -> Z) l l' : Permutation l l' -> zsum (map f l) = zsum (map f l').
Proof.
  induction 1; cbn [map zsum fold_right].
  - reflexivity.
  - fold (zsum (map f l)). fold (zsum (map f l')). rewrite IHPermutation. reflexivity.
  - fold (zsum (map f l)). ring.
  - congruence.
Qed.
Lemma sgn_succ cells b d : dim_of cells d = S (dim_of cells b) -> sgn cells d = - sgn cells b.
Proof.
  intros H. unfold sgn. rewrite H, Nat.even_succ, <- Nat.negb_even. destruct (Nat.even (dim_of cells b)); reflexivity.
Qed.
Lemma zsum_cons x l : zsum (x :: l) = x + zsum l.
Proof. reflexivity. Qed.
Lemma keys_sum cells ps : (forall x d, In x ps -> p_death x = Some d -> dim_of cells d = S (dim_of cells (p_birth x))) ->
  zsum (map (sgn cells) (pair_keys ps)) = euler_inf cells ps.
Proof.
  unfold euler_inf. induction ps as [|x ps IH]; intros H; [reflexivity|].
  change (pair_keys (x :: ps)) with ((p_birth x :: match p_death x with Some d => [d] | None => [] end) ++ pair_keys ps).
  rewrite map_app, zsum_app. rewrite IH by (intros y d Hy; apply H; right; exact Hy).
  rewrite (map_cons (fun x0 : pair => if is_inf x0 then sgn cells (p_birth x0) else 0)). cbv beta. rewrite (zsum_cons (if is_inf x then _ else _)). f_equal.
  unfold is_inf. destruct (p_death x) as [d|] eqn:E.
  - rewrite !map_cons, !zsum_cons. cbn [map zsum fold_right].
    rewrite (sgn_succ cells (p_birth x) d) by (apply (H x d); [left; reflexivity|exact E]). ring.
  - rewrite map_cons, zsum_cons. cbn [map zsum fold_right]. ring.
Qed.

Section Euler.
Variable p : Z.
Hypothesis Hp : prime p.
Hypothesis Hp16 : p < 65536.
Variable cells : list cell.
Hypothesis Hv : valid cells.
Variable flag : bool.
Variable m : Z.
Variable sw : bool.
Hypothesis Hok : forall b d, (b < d)%nat -> length_ok cells m b d = true.
Hypothesis Hdims : forall k, (k < length cells)%nat -> Z.of_nat (dim_of cells k) < dim_max_of cells flag.

(* the alternating count of the infinite intervals is the Euler characteristic of the complex *)
Theorem pcoh_euler : euler_inf cells (pcoh_gen sw (zp_ops p) cells flag m) = euler cells.
Proof.
  set (ps := pcoh_gen sw (zp_ops p) cells flag m).
  rewrite <- (keys_sum cells ps).
  - unfold euler. apply zsum_perm. apply NoDup_Permutation.
    + apply (pcoh_paired_once p Hp Hp16 cells Hv flag m sw).
    + apply seq_NoDup.
    + intros k. rewrite in_seq. split.
      * intros Hk. unfold pair_keys in Hk. apply in_flat_map in Hk. destruct Hk as [[[b od] ch] [Hx Hk]].
        cbn [p_birth p_death fst snd] in Hk. destruct od as [d|].
        -- destruct (pcoh_order p Hp Hp16 cells Hv flag m sw b d ch Hx) as (A & B & _).
           destruct Hk as [<-|[<-|[]]]; lia.
        -- destruct (pcoh_essential p Hp Hp16 cells Hv flag m sw b ch Hx) as [A _]. destruct Hk as [<-|[]]. lia.
      * intros Hk. apply (pcoh_complete p Hp Hp16 cells Hv flag m sw Hok k); [lia|apply Hdims; lia].
  - intros [[b od] ch] d Hx E. cbn [p_death p_birth fst snd] in *. subst od.
    apply (pcoh_order p Hp Hp16 cells Hv flag m sw b d ch Hx).
Qed.
End Euler.

Example rp2_euler : euler rp2_cells = 1 /\ euler_inf rp2_cells (pcoh (zp_ops 2) rp2_cells true (-1)) = 1
                    /\ euler_inf rp2_cells (pcoh (zp_ops 3) rp2_cells true (-1)) = 1.
Proof. vm_compute. repeat split; reflexivity. Qed.
