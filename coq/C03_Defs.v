(* C03 - specification vocabulary shared by C03_Proofs.v (orders, sort, make_filtration_non_decreasing, prune) and
   C03_Ext.v (extended filtration over Q).  Definitions only. *)
From Coq Require Import ZArith QArith List Bool Sorted Permutation.
Require Import C03_Model.
Import ListNotations.

(* faces: t is a face of s when t is a sub-sequence of s (simplices are increasing vertex lists) *)
Inductive subseq : simplex -> simplex -> Prop :=
| sub_nil : subseq [] []
| sub_cons : forall x t s, subseq t s -> subseq (x :: t) (x :: s)
| sub_skip : forall x t s, subseq t s -> subseq t (x :: s).

(* the comparison of Filtration_value is a strict weak order (double/float without NaN, Q, Z, ...) *)
Record StrictWeak {V : Type} (vlt : V -> V -> bool) : Prop := {
  sw_irrefl : forall a, vlt a a = false;
  sw_trans : forall a b c, vlt a b = true -> vlt b c = true -> vlt a c = true;
  sw_negtrans : forall a b c, vlt a b = false -> vlt b c = false -> vlt a c = false
}.

Definition incr (s : simplex) : Prop := StronglySorted Z.lt s.

(* a filtered complex: distinct keys, each a non-empty strictly increasing vertex list *)
Definition wf {V : Type} (K : cplx V) : Prop :=
  NoDup (map fst K) /\ forall s, In s (map fst K) -> s <> [] /\ incr s.

(* closed under non-empty faces: a simplicial complex *)
Definition closed {V : Type} (K : cplx V) : Prop :=
  forall s t, In s (map fst K) -> subseq t s -> t <> [] -> In t (map fst K).

(* monotone: a face never has a larger value *)
Definition monotone {V : Type} (vlt : V -> V -> bool) (K : cplx V) : Prop :=
  forall s t vs vt, lookup K s = Some vs -> lookup K t = Some vt -> subseq t s -> vlt vs vt = false.

(* v is the maximum of the K0-values of the non-empty faces of s (s included): attained, and an upper bound *)
Definition is_sup {V : Type} (vlt : V -> V -> bool) (K0 : cplx V) (s : simplex) (v : V) : Prop :=
  (exists t, subseq t s /\ t <> [] /\ lookup K0 t = Some v) /\
  (forall t w, subseq t s -> t <> [] -> lookup K0 t = Some w -> vlt v w = false).

(* what C03_Proofs.v proves about the transcribed make_filtration_non_decreasing (theorem mfnd_spec) and what
   C03_Ext.v uses: same simplices, each with the maximum over its faces of the input values *)
Definition mfnd_spec_statement : Prop :=
  forall (V : Type) (vlt : V -> V -> bool), StrictWeak vlt ->
  forall K0 : cplx V, wf K0 -> closed K0 ->
    map fst (fst (make_filtration_non_decreasing vlt K0)) = map fst K0 /\
    (forall s, In s (map fst K0) ->
       exists v, lookup (fst (make_filtration_non_decreasing vlt K0)) s = Some v /\ is_sup vlt K0 s v).

(* ---- extended filtration vocabulary (Q) *)
Definition ext_min (K : qcplx) : Q := ext_minval (vertex_values K).
Definition ext_max (K : qcplx) : Q := ext_maxval (vertex_values K).
Definition ext_cone_point (vmin : Z) (K : qcplx) : Z := cone_point_of (ext_maxvert vmin (vertex_values K)).
(* value of an original vertex value v on the ascending part [-2,-1] / on the descending part [1,2] *)
Definition enc_up (K : qcplx) (v : Q) : Q := -(2#1) + (v - ext_min K) * ext_scale (ext_min K) (ext_max K).
Definition enc_down (K : qcplx) (v : Q) : Q := (2#1) - (v - ext_min K) * ext_scale (ext_min K) (ext_max K).
(* every vertex value lies between the two sentinels standing for -infinity and +infinity *)
Definition finite_vertices (K : qcplx) : Prop :=
  forall x v, lookup K [x] = Some v -> Qopp q_inf <= v /\ v <= q_inf.
