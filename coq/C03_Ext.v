(* C03 - extended filtration (extend_filtration / decode_extended_filtration) over Q: machine-checked facts.
   (1) qlt is a strict weak order; (2) decode after encode is the identity (up to ==) on the ascending and on the
   descending part, degenerate case max = min included; (3) the first loop computes min, max (attained) and a cone
   point larger than every vertex; (4) assuming the specification of make_filtration_non_decreasing
   (mfnd_spec_statement, proved in C03_Proofs.v), the result of extend_filtration is the cone filtration: the
   original simplices carry the encoded lower-star value, the coned simplices the encoded upper-star value, the
   cone point -3; (5) decoding the stored values gives back the lower-star / upper-star values. *)
From Coq Require Import ZArith QArith List Bool Sorted Permutation Lia.
From Coq Require Import Lqa.
Require Import C03_Model C03_Defs.
Import ListNotations.
Open Scope Q_scope.

(* ------------------------------------------------------------------ (1) the comparison of Q *)
Lemma qlt_spec a b : qlt a b = true <-> a < b.
Proof.
  unfold qlt. rewrite negb_true_iff. split; intro H.
  - apply Qnot_le_lt. intro H1. apply Qle_bool_iff in H1. congruence.
  - destruct (Qle_bool b a) eqn:E; auto. apply Qle_bool_iff in E. exfalso. lra.
Qed.

Lemma qlt_false a b : qlt a b = false <-> b <= a.
Proof. unfold qlt. rewrite negb_false_iff. apply Qle_bool_iff. Qed.

Lemma qlt_strict_weak : StrictWeak qlt.
Proof.
  constructor.
  - intros a. apply qlt_false. lra.
  - intros a b c H1 H2. apply qlt_spec in H1. apply qlt_spec in H2. apply qlt_spec. lra.
  - intros a b c H1 H2. apply qlt_false in H1. apply qlt_false in H2. apply qlt_false. lra.
Qed.

(* ------------------------------------------------------------------ (2) decode after encode *)
Lemma ext_scale_cases mn mx : mn <= mx ->
  (mx == mn /\ ext_scale mn mx = 0) \/ (mn < mx /\ ext_scale mn mx = / (mx - mn)).
Proof.
  intro Hle. unfold ext_scale. destruct (Qeq_bool (mx - mn) 0) eqn:E.
  - apply Qeq_bool_iff in E. left. split; [lra | reflexivity].
  - apply Qeq_bool_neq in E. right. split; [| reflexivity].
    destruct (Qlt_le_dec mn mx) as [Hlt | Hge]; auto. exfalso. apply E. lra.
Qed.

Lemma ext_scale_nonneg mn mx : mn <= mx -> 0 <= ext_scale mn mx.
Proof.
  intro Hle. destruct (ext_scale_cases mn mx Hle) as [[_ E] | [Hlt E]]; rewrite E.
  - lra.
  - apply Qinv_le_0_compat. lra.
Qed.

(* the normalised value t = (v - mn) * scale lies in [0,1] and (mx - mn) * t gives back v - mn *)
Lemma scale_prop mn mx v : mn <= v -> v <= mx ->
  0 <= (v - mn) * ext_scale mn mx /\ (v - mn) * ext_scale mn mx <= 1 /\
  (mx - mn) * ((v - mn) * ext_scale mn mx) == v - mn.
Proof.
  intros H1 H2. assert (Hle : mn <= mx) by lra.
  destruct (ext_scale_cases mn mx Hle) as [[Heq E] | [Hlt E]]; rewrite E.
  - assert (Hz : (v - mn) * 0 == 0) by ring. rewrite Hz. split; [lra | split; [lra |]].
    assert (Hz2 : (mx - mn) * 0 == 0) by ring. rewrite Hz2. lra.
  - split; [| split].
    + apply Qmult_le_0_compat; [lra |]. apply Qinv_le_0_compat. lra.
    + apply Qle_shift_div_r; lra.
    + field. lra.
Qed.

Lemma enc_range_up mn mx v : mn <= v -> v <= mx ->
  -(2#1) <= -(2#1) + (v - mn) * ext_scale mn mx /\ -(2#1) + (v - mn) * ext_scale mn mx <= -(1#1).
Proof. intros H1 H2. destruct (scale_prop mn mx v H1 H2) as (A & B & _). split; lra. Qed.

Lemma enc_range_down mn mx v : mn <= v -> v <= mx ->
  (1#1) <= (2#1) - (v - mn) * ext_scale mn mx /\ (2#1) - (v - mn) * ext_scale mn mx <= (2#1).
Proof. intros H1 H2. destruct (scale_prop mn mx v H1 H2) as (A & B & _). split; lra. Qed.

Theorem decode_encode_up : forall mn mx v, mn <= v -> v <= mx ->
  let f := -(2#1) + (v - mn) * ext_scale mn mx in
  exists w, decode_extended_filtration f mn mx = (Some w, 0%Z) /\ w == v.
Proof.
  intros mn mx v H1 H2 f.
  destruct (scale_prop mn mx v H1 H2) as (A & B & C).
  destruct (enc_range_up mn mx v H1 H2) as (R1 & R2). fold f in R1, R2.
  unfold decode_extended_filtration.
  assert (E1 : Qle_bool (-(2#1)) f = true) by (apply Qle_bool_iff; exact R1).
  assert (E2 : Qle_bool f (-(1#1)) = true) by (apply Qle_bool_iff; exact R2).
  rewrite E1, E2. cbn [andb]. eexists. split; [reflexivity |].
  assert (Hf : f + (2#1) == (v - mn) * ext_scale mn mx) by (unfold f; ring).
  rewrite Hf, C. ring.
Qed.

Theorem decode_encode_down : forall mn mx v, mn <= v -> v <= mx ->
  let f := (2#1) - (v - mn) * ext_scale mn mx in
  exists w, decode_extended_filtration f mn mx = (Some w, 1%Z) /\ w == v.
Proof.
  intros mn mx v H1 H2 f.
  destruct (scale_prop mn mx v H1 H2) as (A & B & C).
  destruct (enc_range_down mn mx v H1 H2) as (R1 & R2). fold f in R1, R2.
  unfold decode_extended_filtration.
  assert (E2 : Qle_bool f (-(1#1)) = false).
  { destruct (Qle_bool f (-(1#1))) eqn:E; auto. apply Qle_bool_iff in E. exfalso. lra. }
  assert (E3 : Qle_bool (1#1) f = true) by (apply Qle_bool_iff; exact R1).
  assert (E4 : Qle_bool f (2#1) = true) by (apply Qle_bool_iff; exact R2).
  rewrite E2, E3, E4. rewrite andb_false_r. cbn [andb]. eexists. split; [reflexivity |].
  assert (Hf : (mx - mn) * (f - (2#1)) == - ((mx - mn) * ((v - mn) * ext_scale mn mx))) by (unfold f; ring).
  rewrite Hf, C. ring.
Qed.

Theorem decode_extra : forall mn mx, decode_extended_filtration (-(3#1)) mn mx = (None, 2%Z).
Proof. intros mn mx. reflexivity. Qed.

(* the three ranges are disjoint: the type returned by decode tells the part *)
Lemma decode_type_up : forall f mn mx, -(2#1) <= f -> f <= -(1#1) -> snd (decode_extended_filtration f mn mx) = 0%Z.
Proof.
  intros f mn mx R1 R2. unfold decode_extended_filtration.
  assert (E1 : Qle_bool (-(2#1)) f = true) by (apply Qle_bool_iff; exact R1).
  assert (E2 : Qle_bool f (-(1#1)) = true) by (apply Qle_bool_iff; exact R2).
  rewrite E1, E2. reflexivity.
Qed.

(* ------------------------------------------------------------------ (3) the first loop: min, max, maxvert *)
Definition fmin (m : Q) (xv : Z * Q) : Q := if qlt (snd xv) m then snd xv else m.
Definition fmax (m : Q) (xv : Z * Q) : Q := if qlt m (snd xv) then snd xv else m.

Lemma fold_min_le : forall (vs : list (Z * Q)) m,
  fold_left fmin vs m <= m /\ forall x v, In (x, v) vs -> fold_left fmin vs m <= v.
Proof.
  induction vs as [| [y w] vs IH]; intros m; cbn [fold_left].
  - split; [lra | intros x v []].
  - destruct (IH (fmin m (y, w))) as [A B].
    assert (F : fmin m (y, w) <= m /\ fmin m (y, w) <= w).
    { unfold fmin. cbn [snd]. destruct (qlt w m) eqn:E.
      - apply qlt_spec in E. split; lra.
      - apply qlt_false in E. split; lra. }
    split; [lra |]. intros x v [Hin | Hin].
    + inversion Hin; subst. lra.
    + apply (B x v Hin).
Qed.

Lemma fold_max_ge : forall (vs : list (Z * Q)) m,
  m <= fold_left fmax vs m /\ forall x v, In (x, v) vs -> v <= fold_left fmax vs m.
Proof.
  induction vs as [| [y w] vs IH]; intros m; cbn [fold_left].
  - split; [lra | intros x v []].
  - destruct (IH (fmax m (y, w))) as [A B].
    assert (F : m <= fmax m (y, w) /\ w <= fmax m (y, w)).
    { unfold fmax. cbn [snd]. destruct (qlt m w) eqn:E.
      - apply qlt_spec in E. split; lra.
      - apply qlt_false in E. split; lra. }
    split; [lra |]. intros x v [Hin | Hin].
    + inversion Hin; subst. lra.
    + apply (B x v Hin).
Qed.

Lemma fold_min_pick : forall (vs : list (Z * Q)) m,
  fold_left fmin vs m = m \/ exists x v, In (x, v) vs /\ fold_left fmin vs m = v.
Proof.
  induction vs as [| [y w] vs IH]; intros m; cbn [fold_left].
  - left. reflexivity.
  - destruct (IH (fmin m (y, w))) as [E | (x & v & Hin & E)].
    + rewrite E. unfold fmin. cbn [snd]. destruct (qlt w m).
      * right. exists y, w. split; [left; reflexivity | reflexivity].
      * left. reflexivity.
    + right. exists x, v. split; [right; exact Hin | exact E].
Qed.

Lemma fold_max_pick : forall (vs : list (Z * Q)) m,
  fold_left fmax vs m = m \/ exists x v, In (x, v) vs /\ fold_left fmax vs m = v.
Proof.
  induction vs as [| [y w] vs IH]; intros m; cbn [fold_left].
  - left. reflexivity.
  - destruct (IH (fmax m (y, w))) as [E | (x & v & Hin & E)].
    + rewrite E. unfold fmax. cbn [snd]. destruct (qlt m w).
      * right. exists y, w. split; [left; reflexivity | reflexivity].
      * left. reflexivity.
    + right. exists x, v. split; [right; exact Hin | exact E].
Qed.

Lemma ext_minval_le : forall vs x v, In (x, v) vs -> ext_minval vs <= v.
Proof. intros vs x v Hin. exact (proj2 (fold_min_le vs q_inf) x v Hin). Qed.

Lemma ext_maxval_ge : forall vs x v, In (x, v) vs -> v <= ext_maxval vs.
Proof. intros vs x v Hin. exact (proj2 (fold_max_ge vs (- q_inf)) x v Hin). Qed.

Lemma ext_minval_le_maxval : forall vs, vs <> [] -> ext_minval vs <= ext_maxval vs.
Proof.
  intros [| [x v] vs] Hne; [congruence |].
  apply Qle_trans with v; [eapply ext_minval_le | eapply ext_maxval_ge]; left; reflexivity.
Qed.

(* with all the values below +infinity (the sentinel), the minimum of a non-empty list is attained *)
Lemma ext_minval_attained : forall vs, vs <> [] -> (forall x v, In (x, v) vs -> v <= q_inf) ->
  exists x v, In (x, v) vs /\ ext_minval vs == v.
Proof.
  intros vs Hne Hb. destruct (fold_min_pick vs q_inf) as [E | (x & v & Hin & E)].
  - destruct vs as [| [x v] vs]; [congruence |]. exists x, v. split; [left; reflexivity |].
    assert (H1 : ext_minval ((x, v) :: vs) <= v) by (eapply ext_minval_le; left; reflexivity).
    assert (H2 : v <= q_inf) by (eapply Hb; left; reflexivity).
    unfold ext_minval in *. fold fmin in *. rewrite E in *. lra.
  - exists x, v. split; [exact Hin |]. unfold ext_minval. fold fmin. rewrite E. reflexivity.
Qed.

Lemma ext_maxval_attained : forall vs, vs <> [] -> (forall x v, In (x, v) vs -> - q_inf <= v) ->
  exists x v, In (x, v) vs /\ ext_maxval vs == v.
Proof.
  intros vs Hne Hb. destruct (fold_max_pick vs (- q_inf)) as [E | (x & v & Hin & E)].
  - destruct vs as [| [x v] vs]; [congruence |]. exists x, v. split; [left; reflexivity |].
    assert (H1 : v <= ext_maxval ((x, v) :: vs)) by (eapply ext_maxval_ge; left; reflexivity).
    assert (H2 : - q_inf <= v) by (eapply Hb; left; reflexivity).
    unfold ext_maxval in *. fold fmax in *. rewrite E in *. lra.
  - exists x, v. split; [exact Hin |]. unfold ext_maxval. fold fmax. rewrite E. reflexivity.
Qed.

Lemma fold_maxvert_ge : forall (vs : list (Z * Q)) m,
  (m <= fold_left (fun m xv => Z.max (fst xv) m) vs m)%Z /\
  forall x v, In (x, v) vs -> (x <= fold_left (fun m xv => Z.max (fst xv) m) vs m)%Z.
Proof.
  induction vs as [| [y w] vs IH]; intros m; cbn [fold_left].
  - split; [lia | intros x v []].
  - destruct (IH (Z.max (fst (y, w)) m)) as [A B]. cbn [fst] in *.
    split; [lia |]. intros x v [Hin | Hin].
    + inversion Hin; subst. lia.
    + apply (B x v Hin).
Qed.

Lemma ext_maxvert_ge : forall vmin vs x v, In (x, v) vs -> (x <= ext_maxvert vmin vs)%Z.
Proof. intros vmin vs x v Hin. exact (proj2 (fold_maxvert_ge vs vmin) x v Hin). Qed.

Lemma ext_maxvert_ge_vmin : forall vmin vs, (vmin <= ext_maxvert vmin vs)%Z.
Proof. intros vmin vs. exact (proj1 (fold_maxvert_ge vs vmin)). Qed.

(* ---- association lists *)
Lemma simplex_eqb_eq : forall a b, simplex_eqb a b = true <-> a = b.
Proof.
  induction a as [| x a IH]; intros [| y b]; cbn [simplex_eqb]; split; intro H; try congruence; try reflexivity.
  - apply andb_true_iff in H. destruct H as [H1 H2]. apply Z.eqb_eq in H1. apply IH in H2. congruence.
  - inversion H; subst. rewrite Z.eqb_refl. cbn [andb]. apply IH. reflexivity.
Qed.

Lemma simplex_eqb_refl : forall a, simplex_eqb a a = true.
Proof. intro a. apply simplex_eqb_eq. reflexivity. Qed.

Lemma lookup_in : forall (V : Type) (K : cplx V) s v, lookup K s = Some v -> In (s, v) K.
Proof.
  induction K as [| [t w] K IH]; intros s v H; cbn [lookup] in H; [discriminate |].
  destruct (simplex_eqb t s) eqn:E.
  - apply simplex_eqb_eq in E. inversion H; subst. left. reflexivity.
  - right. apply IH. exact H.
Qed.

Lemma in_lookup : forall (V : Type) (K : cplx V) s v, NoDup (map fst K) -> In (s, v) K -> lookup K s = Some v.
Proof.
  induction K as [| [t w] K IH]; intros s v Hnd Hin; [destruct Hin |].
  cbn [map fst] in Hnd. inversion Hnd as [| a l Hnotin Hnd']; subst.
  cbn [lookup]. destruct Hin as [Hin | Hin].
  - inversion Hin; subst. rewrite simplex_eqb_refl. reflexivity.
  - destruct (simplex_eqb t s) eqn:E.
    + apply simplex_eqb_eq in E. subst t. exfalso. apply Hnotin.
      apply in_map_iff. exists (s, v). split; [reflexivity | exact Hin].
    + apply IH; assumption.
Qed.

Lemma lookup_in_iff : forall (V : Type) (K : cplx V) s v, NoDup (map fst K) -> (lookup K s = Some v <-> In (s, v) K).
Proof. intros V K s v Hnd. split; [apply lookup_in | apply in_lookup; exact Hnd]. Qed.

Lemma in_keys_lookup : forall (V : Type) (K : cplx V) s, In s (map fst K) -> exists v, lookup K s = Some v.
Proof.
  induction K as [| [t w] K IH]; intros s Hin; [destruct Hin |].
  cbn [lookup]. destruct (simplex_eqb t s) eqn:E.
  - exists w. reflexivity.
  - apply IH. destruct Hin as [Hin | Hin]; [| exact Hin].
    cbn [fst] in Hin. subst t. rewrite simplex_eqb_refl in E. discriminate.
Qed.

Lemma lookup_keys : forall (V : Type) (K : cplx V) s v, lookup K s = Some v -> In s (map fst K).
Proof.
  intros V K s v H. apply lookup_in in H. apply in_map_iff. exists (s, v). split; [reflexivity | exact H].
Qed.

Lemma vertex_values_in : forall (K : qcplx) x v, In (x, v) (vertex_values K) <-> In ([x], v) K.
Proof.
  intros K x v. unfold vertex_values. rewrite in_flat_map. split.
  - intros ([s w] & Hin & Hx). cbn [fst snd] in Hx.
    destruct s as [| y [| z s']]; cbn in Hx; try contradiction.
    destruct Hx as [Hx | []]. inversion Hx; subst. exact Hin.
  - intro Hin. exists ([x], v). split; [exact Hin |]. cbn. left. reflexivity.
Qed.

Lemma vertex_values_lookup : forall (K : qcplx) x v, wf K ->
  (In (x, v) (vertex_values K) <-> lookup K [x] = Some v).
Proof.
  intros K x v [Hnd _]. rewrite vertex_values_in. symmetry. apply lookup_in_iff. exact Hnd.
Qed.

(* the facts of the first loop, on the complex *)
Lemma ext_min_le : forall (K : qcplx) x v, lookup K [x] = Some v -> ext_min K <= v.
Proof.
  intros K x v H. unfold ext_min. apply ext_minval_le with x. apply vertex_values_in. apply lookup_in. exact H.
Qed.

Lemma ext_max_ge : forall (K : qcplx) x v, lookup K [x] = Some v -> v <= ext_max K.
Proof.
  intros K x v H. unfold ext_max. apply ext_maxval_ge with x. apply vertex_values_in. apply lookup_in. exact H.
Qed.

Lemma ext_min_attained : forall (K : qcplx), wf K -> finite_vertices K -> vertex_values K <> [] ->
  exists x v, lookup K [x] = Some v /\ ext_min K == v.
Proof.
  intros K Hwf Hfin Hne.
  destruct (ext_minval_attained (vertex_values K) Hne) as (x & v & Hin & E).
  - intros x v Hin. apply (vertex_values_lookup K x v Hwf) in Hin. apply (Hfin x v Hin).
  - exists x, v. split; [apply (vertex_values_lookup K x v Hwf); exact Hin | exact E].
Qed.

Lemma ext_max_attained : forall (K : qcplx), wf K -> finite_vertices K -> vertex_values K <> [] ->
  exists x v, lookup K [x] = Some v /\ ext_max K == v.
Proof.
  intros K Hwf Hfin Hne.
  destruct (ext_maxval_attained (vertex_values K) Hne) as (x & v & Hin & E).
  - intros x v Hin. apply (vertex_values_lookup K x v Hwf) in Hin. apply (Hfin x v Hin).
  - exists x, v. split; [apply (vertex_values_lookup K x v Hwf); exact Hin | exact E].
Qed.

Lemma cone_point_of_gt : forall m, (m < cone_point_of m)%Z.
Proof. intros m. unfold cone_point_of, null_vertex. destruct (Z.eqb (m + 1) (-1)); lia. Qed.

Lemma cone_point_gt_vertex : forall vmin (K : qcplx) x v, lookup K [x] = Some v -> (x < ext_cone_point vmin K)%Z.
Proof.
  intros vmin K x v H. unfold ext_cone_point.
  assert (Hle : (x <= ext_maxvert vmin (vertex_values K))%Z).
  { apply ext_maxvert_ge with v. apply vertex_values_in. apply lookup_in. exact H. }
  pose proof (cone_point_of_gt (ext_maxvert vmin (vertex_values K))). lia.
Qed.

Lemma cone_point_gt_vmin : forall vmin (K : qcplx), (vmin < ext_cone_point vmin K)%Z.
Proof. intros vmin K. unfold ext_cone_point. pose proof (ext_maxvert_ge_vmin vmin (vertex_values K)). pose proof (cone_point_of_gt (ext_maxvert vmin (vertex_values K))). lia. Qed.

(* ------------------------------------------------------------------ (4) the extended filtration is the cone
   filtration: lower-star ascending on K, upper-star descending on the coned simplices *)

(* ---- sub-sequences *)
Lemma subseq_nil_l : forall s, subseq [] s.
Proof. induction s as [| x s IH]; [constructor | apply sub_skip; exact IH]. Qed.

Lemma subseq_refl : forall s, subseq s s.
Proof. induction s as [| x s IH]; [constructor | apply sub_cons; exact IH]. Qed.

Lemma subseq_nil_r : forall t, subseq t [] -> t = [].
Proof. intros t H. inversion H. reflexivity. Qed.

Lemma subseq_in : forall t s, subseq t s -> forall y, In y t -> In y s.
Proof.
  induction 1 as [| x t s H IH | x t s H IH]; intros y Hy.
  - exact Hy.
  - destruct Hy as [Hy | Hy]; [left; exact Hy | right; apply IH; exact Hy].
  - right. apply IH. exact Hy.
Qed.

Lemma in_subseq_single : forall s y, In y s -> subseq [y] s.
Proof.
  induction s as [| x s IH]; intros y Hy; [destruct Hy |].
  destruct Hy as [Hy | Hy].
  - subst x. apply sub_cons. apply subseq_nil_l.
  - apply sub_skip. apply IH. exact Hy.
Qed.

Lemma subseq_app_tail : forall c t s, subseq t s -> subseq (t ++ [c]) (s ++ [c]).
Proof.
  induction 1 as [| x t s H IH | x t s H IH]; cbn [app].
  - apply subseq_refl.
  - apply sub_cons. exact IH.
  - apply sub_skip. exact IH.
Qed.

Lemma subseq_app_skip : forall c t s, subseq t s -> subseq t (s ++ [c]).
Proof.
  induction 1 as [| x t s H IH | x t s H IH]; cbn [app].
  - apply subseq_nil_l.
  - apply sub_cons. exact IH.
  - apply sub_skip. exact IH.
Qed.

(* a face of s ++ [c] is a face of s, or a face of s followed by c *)
Lemma subseq_snoc_inv : forall c s t, subseq t (s ++ [c]) ->
  subseq t s \/ exists t0, t = t0 ++ [c] /\ subseq t0 s.
Proof.
  intros c. induction s as [| x s IH]; intros t H; cbn [app] in H.
  - inversion H as [| x' t' s' H' | x' t' s' H']; subst.
    + apply subseq_nil_r in H'. subst t'. right. exists []. split; [reflexivity | constructor].
    + apply subseq_nil_r in H'. subst t. left. constructor.
  - inversion H as [| x' t' s' H' | x' t' s' H']; subst.
    + destruct (IH t' H') as [Hs | (t0 & Et & Hs)].
      * left. apply sub_cons. exact Hs.
      * right. exists (x :: t0). split; [rewrite Et; reflexivity | apply sub_cons; exact Hs].
    + destruct (IH t H') as [Hs | (t0 & Et & Hs)].
      * left. apply sub_skip. exact Hs.
      * right. exists t0. split; [exact Et | apply sub_skip; exact Hs].
Qed.

(* ---- increasing lists *)
Lemma incr_snoc : forall s c, incr s -> (forall y, In y s -> (y < c)%Z) -> incr (s ++ [c]).
Proof.
  unfold incr. induction s as [| x s IH]; intros c Hs Hc; cbn [app].
  - constructor; constructor.
  - inversion Hs as [| a l Hs' Hall]; subst. constructor.
    + apply IH; [exact Hs' |]. intros y Hy. apply Hc. right. exact Hy.
    + apply Forall_app. split; [exact Hall |]. constructor; [| constructor]. apply Hc. left. reflexivity.
Qed.

(* ---- the keys of the complex assigned by the second loop *)
Definition cone_keys (c : Z) (l : list simplex) : list simplex := flat_map (fun s => [s; s ++ [c]]) l.

Lemma ext_assign_keys : forall mn sc c (K : qcplx),
  map fst (ext_assign mn sc c K) = [c] :: cone_keys c (map fst K).
Proof.
  intros mn sc c K. unfold ext_assign, cone_keys. cbn [map fst]. f_equal.
  induction K as [| [s w] K IH]; [reflexivity |].
  destruct s as [| a [| b s']]; simpl in *; rewrite IH; reflexivity.
Qed.

Lemma in_cone_keys : forall c l k, In k (cone_keys c l) <-> exists s, In s l /\ (k = s \/ k = s ++ [c]).
Proof.
  intros c l k. unfold cone_keys. rewrite in_flat_map. split.
  - intros (s & Hs & Hk). exists s. split; [exact Hs |]. destruct Hk as [Hk | [Hk | []]]; [left | right]; congruence.
  - intros (s & Hs & Hk). exists s. split; [exact Hs |]. destruct Hk as [Hk | Hk]; subst k; [left | right; left]; reflexivity.
Qed.

Lemma snoc_neq_self : forall (s : simplex) c, s <> s ++ [c].
Proof.
  intros s c H. apply (f_equal (@length Z)) in H. rewrite app_length in H. cbn [length] in H. lia.
Qed.

Lemma nodup_cone_keys : forall c l, NoDup l -> (forall s, In s l -> ~ In c s) -> NoDup (cone_keys c l).
Proof.
  intros c. induction l as [| a l IH]; intros Hnd Hc; [constructor |].
  inversion Hnd as [| a' l' Hnotin Hnd']; subst.
  unfold cone_keys. cbn [flat_map app]. fold (cone_keys c l).
  assert (Hca : ~ In c a) by (apply Hc; left; reflexivity).
  assert (Hcl : forall s, In s l -> ~ In c s) by (intros s Hs; apply Hc; right; exact Hs).
  constructor; [| constructor].
  - intros [H | H].
    + symmetry in H. exact (snoc_neq_self a c H).
    + apply in_cone_keys in H. destruct H as (s & Hs & [E | E]).
      * subst s. exact (Hnotin Hs).
      * apply Hca. rewrite E. apply in_or_app. right. left. reflexivity.
  - intro H. apply in_cone_keys in H. destruct H as (s & Hs & [E | E]).
    + apply (Hcl s Hs). rewrite <- E. apply in_or_app. right. left. reflexivity.
    + apply app_inj_tail in E. destruct E as [E _]. subst s. exact (Hnotin Hs).
  - apply IH; assumption.
Qed.

Section Cone.
  Variable vmin : Z.
  Variable K : qcplx.
  Hypothesis Hwf : wf K.
  Hypothesis Hcl : closed K.

  Let c := ext_cone_point vmin K.
  Let mn := ext_min K.
  Let mx := ext_max K.
  Let sc := ext_scale mn mx.
  Let K1 := ext_assign mn sc c K.

  Lemma vertex_has_value : forall s y, In s (map fst K) -> In y s -> exists v, lookup K [y] = Some v.
  Proof.
    intros s y Hs Hy. apply in_keys_lookup. apply (Hcl s [y] Hs); [apply in_subseq_single; exact Hy | discriminate].
  Qed.

  Lemma cone_point_fresh : forall s y, In s (map fst K) -> In y s -> (y < c)%Z.
  Proof.
    intros s y Hs Hy. destruct (vertex_has_value s y Hs Hy) as [v Hv].
    exact (cone_point_gt_vertex vmin K y v Hv).
  Qed.

  Lemma cone_point_notin : forall s, In s (map fst K) -> ~ In c s.
  Proof. intros s Hs Hin. pose proof (cone_point_fresh s c Hs Hin). lia. Qed.

  Lemma in_keys1 : forall k, In k (map fst K1) <->
    k = [c] \/ exists s, In s (map fst K) /\ (k = s \/ k = s ++ [c]).
  Proof.
    intro k. unfold K1. rewrite ext_assign_keys. cbn [In]. rewrite in_cone_keys.
    split; (intros [H | H]; [left; congruence | right; exact H]).
  Qed.

  Lemma wf_K1 : wf K1.
  Proof.
    destruct Hwf as [Hnd Hkeys]. split.
    - unfold K1. rewrite ext_assign_keys. constructor.
      + intro H. apply in_cone_keys in H. destruct H as (s & Hs & [E | E]).
        * apply (cone_point_notin s Hs). rewrite <- E. left. reflexivity.
        * destruct s as [| a s].
          -- destruct (Hkeys [] Hs) as [Hne _]. congruence.
          -- cbn [app] in E. inversion E as [[Ea Es]]. destruct s; discriminate.
      + apply nodup_cone_keys; [exact Hnd | exact cone_point_notin].
    - intros k Hk. apply in_keys1 in Hk. destruct Hk as [E | (s & Hs & [E | E])]; subst k.
      + split; [discriminate |]. unfold incr. constructor; constructor.
      + exact (Hkeys s Hs).
      + destruct (Hkeys s Hs) as [Hne Hinc]. split.
        * intro E. apply app_eq_nil in E. destruct E as [_ E]. discriminate.
        * apply incr_snoc; [exact Hinc |]. intros y Hy. exact (cone_point_fresh s y Hs Hy).
  Qed.

  Lemma closed_K1 : closed K1.
  Proof.
    intros k t Hk Hsub Hne. apply in_keys1. apply in_keys1 in Hk.
    destruct Hk as [E | (s & Hs & [E | E])]; subst k.
    - left. inversion Hsub as [| x t' s' H' | x t' s' H']; subst.
      + apply subseq_nil_r in H'. subst t'. reflexivity.
      + apply subseq_nil_r in H'. congruence.
    - right. exists t. split; [exact (Hcl s t Hs Hsub Hne) | left; reflexivity].
    - apply subseq_snoc_inv in Hsub. destruct Hsub as [Hsub | (t0 & Et & Hsub)].
      + right. exists t. split; [exact (Hcl s t Hs Hsub Hne) | left; reflexivity].
      + destruct t0 as [| a t0].
        * left. exact Et.
        * right. exists (a :: t0). split; [| right; exact Et].
          apply (Hcl s (a :: t0) Hs Hsub). discriminate.
  Qed.

  (* ---- the values of K1 *)
  Lemma K1_cone_point : lookup K1 [c] = Some (-(3#1)).
  Proof. unfold K1, ext_assign. cbn [lookup]. rewrite simplex_eqb_refl. reflexivity. Qed.

  Lemma K1_vertex_up : forall x vx, lookup K [x] = Some vx -> lookup K1 [x] = Some (enc_up K vx).
  Proof.
    intros x vx H. apply in_lookup; [exact (proj1 wf_K1) |]. apply lookup_in in H.
    unfold K1, ext_assign. right. apply in_flat_map. exists ([x], vx). split; [exact H |].
    cbn [fst snd]. left. reflexivity.
  Qed.

  Lemma K1_vertex_down : forall x vx, lookup K [x] = Some vx -> lookup K1 ([x] ++ [c]) = Some (enc_down K vx).
  Proof.
    intros x vx H. apply in_lookup; [exact (proj1 wf_K1) |]. apply lookup_in in H.
    unfold K1, ext_assign. right. apply in_flat_map. exists ([x], vx). split; [exact H |].
    cbn [fst snd]. right. left. reflexivity.
  Qed.

  Lemma K1_other : forall s, In s (map fst K) -> (forall x, s <> [x]) ->
    lookup K1 s = Some (-(3#1)) /\ lookup K1 (s ++ [c]) = Some (-(3#1)).
  Proof.
    intros s Hs Hnv. destruct (in_keys_lookup Q K s Hs) as [w Hw]. apply lookup_in in Hw.
    assert (Hin : In (s, -(3#1)) K1 /\ In (s ++ [c], -(3#1)) K1).
    { unfold K1, ext_assign. split; right; apply in_flat_map; exists (s, w); (split; [exact Hw |]);
        cbn [fst snd]; destruct s as [| a [| b s']]; try (exfalso; apply (Hnv a); reflexivity);
        try (left; reflexivity); right; left; reflexivity. }
    destruct Hin as [H1 H2]. split; apply in_lookup; try exact (proj1 wf_K1); assumption.
  Qed.

  (* ---- the encodings are monotone *)
  Lemma K_min_le_max : forall x vx, lookup K [x] = Some vx -> mn <= vx /\ vx <= mx.
  Proof. intros x vx H. split; [exact (ext_min_le K x vx H) | exact (ext_max_ge K x vx H)]. Qed.

  Lemma enc_up_mono : forall x vx y vy, lookup K [x] = Some vx -> lookup K [y] = Some vy ->
    vy <= vx -> enc_up K vy <= enc_up K vx.
  Proof.
    intros x vx y vy Hx Hy Hle. destruct (K_min_le_max x vx Hx) as [A B].
    assert (Hsc : 0 <= sc) by (apply ext_scale_nonneg; lra).
    unfold enc_up. fold mn mx sc.
    assert (H : (vy - mn) * sc <= (vx - mn) * sc) by (apply Qmult_le_compat_r; lra).
    lra.
  Qed.

  Lemma enc_down_mono : forall x vx y vy, lookup K [x] = Some vx -> lookup K [y] = Some vy ->
    vx <= vy -> enc_down K vy <= enc_down K vx.
  Proof.
    intros x vx y vy Hx Hy Hle. destruct (K_min_le_max x vx Hx) as [A B].
    assert (Hsc : 0 <= sc) by (apply ext_scale_nonneg; lra).
    unfold enc_down. fold mn mx sc.
    assert (H : (vx - mn) * sc <= (vy - mn) * sc) by (apply Qmult_le_compat_r; lra).
    lra.
  Qed.

  Lemma enc_up_range : forall x vx, lookup K [x] = Some vx -> -(2#1) <= enc_up K vx /\ enc_up K vx <= -(1#1).
  Proof. intros x vx Hx. destruct (K_min_le_max x vx Hx) as [A B]. exact (enc_range_up mn mx vx A B). Qed.

  Lemma enc_down_range : forall x vx, lookup K [x] = Some vx -> (1#1) <= enc_down K vx /\ enc_down K vx <= (2#1).
  Proof. intros x vx Hx. destruct (K_min_le_max x vx Hx) as [A B]. exact (enc_range_down mn mx vx A B). Qed.

  (* ---- a vertex of s with the largest / smallest value *)
  Lemma argmax_vertex : forall (g : Z -> option Q) (s : list Z), s <> [] ->
    (forall y, In y s -> exists v, g y = Some v) ->
    exists x vx, In x s /\ g x = Some vx /\ forall y vy, In y s -> g y = Some vy -> vy <= vx.
  Proof.
    intros g. induction s as [| a s IH]; intros Hne Hg; [congruence |].
    destruct (Hg a (or_introl eq_refl)) as [va Hva].
    destruct s as [| b s].
    - exists a, va. split; [left; reflexivity | split; [exact Hva |]].
      intros y vy [Hy | []] Hvy. subst y. rewrite Hva in Hvy. inversion Hvy; subst. lra.
    - destruct IH as (x & vx & Hx & Hvx & Hmax); [discriminate | intros y Hy; apply Hg; right; exact Hy |].
      destruct (Qlt_le_dec vx va) as [Hlt | Hge].
      + exists a, va. split; [left; reflexivity | split; [exact Hva |]].
        intros y vy [Hy | Hy] Hvy.
        * subst y. rewrite Hva in Hvy. inversion Hvy; subst. lra.
        * pose proof (Hmax y vy Hy Hvy). lra.
      + exists x, vx. split; [right; exact Hx | split; [exact Hvx |]].
        intros y vy [Hy | Hy] Hvy.
        * subst y. rewrite Hva in Hvy. inversion Hvy; subst. exact Hge.
        * exact (Hmax y vy Hy Hvy).
  Qed.

  Lemma argmin_vertex : forall (g : Z -> option Q) (s : list Z), s <> [] ->
    (forall y, In y s -> exists v, g y = Some v) ->
    exists x vx, In x s /\ g x = Some vx /\ forall y vy, In y s -> g y = Some vy -> vx <= vy.
  Proof.
    intros g. induction s as [| a s IH]; intros Hne Hg; [congruence |].
    destruct (Hg a (or_introl eq_refl)) as [va Hva].
    destruct s as [| b s].
    - exists a, va. split; [left; reflexivity | split; [exact Hva |]].
      intros y vy [Hy | []] Hvy. subst y. rewrite Hva in Hvy. inversion Hvy; subst. lra.
    - destruct IH as (x & vx & Hx & Hvx & Hmin); [discriminate | intros y Hy; apply Hg; right; exact Hy |].
      destruct (Qlt_le_dec va vx) as [Hlt | Hge].
      + exists a, va. split; [left; reflexivity | split; [exact Hva |]].
        intros y vy [Hy | Hy] Hvy.
        * subst y. rewrite Hva in Hvy. inversion Hvy; subst. lra.
        * pose proof (Hmin y vy Hy Hvy). lra.
      + exists x, vx. split; [right; exact Hx | split; [exact Hvx |]].
        intros y vy [Hy | Hy] Hvy.
        * subst y. rewrite Hva in Hvy. inversion Hvy; subst. exact Hge.
        * exact (Hmin y vy Hy Hvy).
  Qed.

  (* ---- the maximum over the faces, computed *)
  (* the K1-value of a face of an original simplex: an ascending vertex value or -3 *)
  Lemma K1_face_value : forall s t w, In s (map fst K) -> subseq t s -> t <> [] -> lookup K1 t = Some w ->
    (exists y vy, t = [y] /\ In y s /\ lookup K [y] = Some vy /\ w = enc_up K vy) \/ w = -(3#1).
  Proof.
    intros s t w Hs Hsub Hne Hw.
    assert (Ht : In t (map fst K)) by exact (Hcl s t Hs Hsub Hne).
    destruct t as [| y [| z t']]; [congruence | |].
    - left. assert (Hy : In y s) by (apply (subseq_in [y] s Hsub); left; reflexivity).
      destruct (vertex_has_value s y Hs Hy) as [vy Hvy].
      exists y, vy. split; [reflexivity | split; [exact Hy | split; [exact Hvy |]]].
      rewrite (K1_vertex_up y vy Hvy) in Hw. congruence.
    - right. destruct (K1_other (y :: z :: t') Ht) as [H1 _]; [intros x; discriminate |].
      rewrite H1 in Hw. congruence.
  Qed.

  (* the K1-value of a face of a coned simplex *)
  Lemma K1_coned_face_value : forall s t w, In s (map fst K) -> subseq t (s ++ [c]) -> t <> [] ->
    lookup K1 t = Some w ->
    (exists y vy, t = [y] ++ [c] /\ In y s /\ lookup K [y] = Some vy /\ w = enc_down K vy) \/ w <= -(1#1).
  Proof.
    intros s t w Hs Hsub Hne Hw.
    apply subseq_snoc_inv in Hsub. destruct Hsub as [Hsub | (t0 & Et & Hsub)].
    - right. destruct (K1_face_value s t w Hs Hsub Hne Hw) as [(y & vy & Et & Hy & Hvy & Ew) | Ew].
      + rewrite Ew. exact (proj2 (enc_up_range y vy Hvy)).
      + rewrite Ew. lra.
    - subst t. destruct t0 as [| y [| z t']].
      + right. cbn [app] in Hw. rewrite K1_cone_point in Hw. inversion Hw; subst. lra.
      + left. assert (Hy : In y s) by (apply (subseq_in [y] s Hsub); left; reflexivity).
        destruct (vertex_has_value s y Hs Hy) as [vy Hvy].
        exists y, vy. split; [reflexivity | split; [exact Hy | split; [exact Hvy |]]].
        rewrite (K1_vertex_down y vy Hvy) in Hw. congruence.
      + right. assert (Ht : In (y :: z :: t') (map fst K)) by (apply (Hcl s _ Hs Hsub); discriminate).
        destruct (K1_other (y :: z :: t') Ht) as [_ H2]; [intros x; discriminate |].
        rewrite H2 in Hw. inversion Hw; subst. lra.
  Qed.

  Lemma sup_original : forall s v, In s (map fst K) -> is_sup qlt K1 s v ->
    exists x vx, In x s /\ lookup K [x] = Some vx /\ v == enc_up K vx /\
                 (forall y vy, In y s -> lookup K [y] = Some vy -> vy <= vx).
  Proof.
    intros s v Hs [(t & Hsub & Hne & Hv) Hub].
    destruct (proj2 Hwf s Hs) as [Hsne _].
    destruct (argmax_vertex (fun y => lookup K [y]) s Hsne (fun y Hy => vertex_has_value s y Hs Hy))
      as (x & vx & Hx & Hvx & Hmax).
    exists x, vx. split; [exact Hx | split; [exact Hvx | split; [| exact Hmax]]].
    assert (Hge : enc_up K vx <= v).
    { apply qlt_false. apply (Hub [x] (enc_up K vx)); [apply in_subseq_single; exact Hx | discriminate |].
      exact (K1_vertex_up x vx Hvx). }
    destruct (K1_face_value s t v Hs Hsub Hne Hv) as [(y & vy & Et & Hy & Hvy & Ew) | Ew].
    - pose proof (enc_up_mono x vx y vy Hvx Hvy (Hmax y vy Hy Hvy)) as Hle. rewrite <- Ew in Hle. lra.
    - pose proof (proj1 (enc_up_range x vx Hvx)) as Hr. rewrite Ew in Hge. exfalso. lra.
  Qed.

  Lemma sup_coned : forall s v, In s (map fst K) -> is_sup qlt K1 (s ++ [c]) v ->
    exists x vx, In x s /\ lookup K [x] = Some vx /\ v == enc_down K vx /\
                 (forall y vy, In y s -> lookup K [y] = Some vy -> vx <= vy).
  Proof.
    intros s v Hs [(t & Hsub & Hne & Hv) Hub].
    destruct (proj2 Hwf s Hs) as [Hsne _].
    destruct (argmin_vertex (fun y => lookup K [y]) s Hsne (fun y Hy => vertex_has_value s y Hs Hy))
      as (x & vx & Hx & Hvx & Hmin).
    exists x, vx. split; [exact Hx | split; [exact Hvx | split; [| exact Hmin]]].
    assert (Hge : enc_down K vx <= v).
    { apply qlt_false. apply (Hub ([x] ++ [c]) (enc_down K vx)).
      - apply subseq_app_tail. apply in_subseq_single. exact Hx.
      - discriminate.
      - exact (K1_vertex_down x vx Hvx). }
    pose proof (proj1 (enc_down_range x vx Hvx)) as Hr.
    destruct (K1_coned_face_value s t v Hs Hsub Hne Hv) as [(y & vy & Et & Hy & Hvy & Ew) | Ew].
    - pose proof (enc_down_mono x vx y vy Hvx Hvy (Hmin y vy Hy Hvy)) as Hle. rewrite <- Ew in Hle. lra.
    - exfalso. lra.
  Qed.

  Lemma sup_cone_point : forall v, is_sup qlt K1 [c] v -> v = -(3#1).
  Proof.
    intros v [(t & Hsub & Hne & Hv) _].
    assert (Et : t = [c]).
    { inversion Hsub as [| x t' s' H' | x t' s' H']; subst.
      - apply subseq_nil_r in H'. subst t'. reflexivity.
      - apply subseq_nil_r in H'. congruence. }
    subst t. rewrite K1_cone_point in Hv. congruence.
  Qed.

  Theorem extended_is_cone_filtration_sec : mfnd_spec_statement ->
    let R := fst (extend_filtration vmin K) in
    (exists w, lookup R [c] = Some w /\ w == -(3#1)) /\
    (forall s, In s (map fst K) ->
       (exists w x vx, lookup R s = Some w /\ In x s /\ lookup K [x] = Some vx /\ w == enc_up K vx /\
                       (forall y vy, In y s -> lookup K [y] = Some vy -> vy <= vx)) /\
       (exists w x vx, lookup R (s ++ [c]) = Some w /\ In x s /\ lookup K [x] = Some vx /\ w == enc_down K vx /\
                       (forall y vy, In y s -> lookup K [y] = Some vy -> vx <= vy))).
  Proof.
    intros Hspec R.
    assert (ER : R = fst (make_filtration_non_decreasing qlt K1)) by reflexivity.
    destruct (Hspec Q qlt qlt_strict_weak K1 wf_K1 closed_K1) as [_ Hsup]. rewrite <- ER in Hsup.
    split.
    - destruct (Hsup [c]) as (v & Hv & Hs); [apply in_keys1; left; reflexivity |].
      exists v. split; [exact Hv |]. rewrite (sup_cone_point v Hs). reflexivity.
    - intros s Hs. split.
      + destruct (Hsup s) as (v & Hv & Hsv); [apply in_keys1; right; exists s; split; [exact Hs | left; reflexivity] |].
        destruct (sup_original s v Hs Hsv) as (x & vx & Hx & Hvx & E & Hmax).
        exists v, x, vx. repeat split; assumption.
      + destruct (Hsup (s ++ [c])) as (v & Hv & Hsv);
          [apply in_keys1; right; exists s; split; [exact Hs | right; reflexivity] |].
        destruct (sup_coned s v Hs Hsv) as (x & vx & Hx & Hvx & E & Hmin).
        exists v, x, vx. repeat split; assumption.
  Qed.
End Cone.

Theorem extended_is_cone_filtration : mfnd_spec_statement ->
  forall vmin (K : qcplx), wf K -> closed K -> finite_vertices K ->
  let R := fst (extend_filtration vmin K) in
  let c := ext_cone_point vmin K in
  (* the cone point *)
  (exists w, lookup R [c] = Some w /\ w == -(3#1)) /\
  (forall s, In s (map fst K) ->
     (* ascending lower-star on the original simplices *)
     (exists w x vx, lookup R s = Some w /\ In x s /\ lookup K [x] = Some vx /\ w == enc_up K vx /\
                     (forall y vy, In y s -> lookup K [y] = Some vy -> vy <= vx)) /\
     (* descending upper-star on the coned simplices *)
     (exists w x vx, lookup R (s ++ [c]) = Some w /\ In x s /\ lookup K [x] = Some vx /\ w == enc_down K vx /\
                     (forall y vy, In y s -> lookup K [y] = Some vy -> vx <= vy))).
Proof.
  intros Hspec vmin K Hwf Hcl _. exact (extended_is_cone_filtration_sec vmin K Hwf Hcl Hspec).
Qed.


(* ------------------------------------------------------------------ (5) end to end: decoding the values of the
   extended filtration gives back the lower-star / upper-star values of the original vertex function.
   decode is applied to the value stored in the complex, which is == (not Leibniz-equal) to the encoding, hence the
   versions of decode_encode up to == first. *)
Lemma decode_up_eq : forall mn mx v f, mn <= v -> v <= mx -> f == -(2#1) + (v - mn) * ext_scale mn mx ->
  exists w, decode_extended_filtration f mn mx = (Some w, 0%Z) /\ w == v.
Proof.
  intros mn mx v f H1 H2 Ef.
  destruct (scale_prop mn mx v H1 H2) as (A & B & C).
  destruct (enc_range_up mn mx v H1 H2) as (R1 & R2). rewrite <- Ef in R1, R2.
  unfold decode_extended_filtration.
  assert (E1 : Qle_bool (-(2#1)) f = true) by (apply Qle_bool_iff; exact R1).
  assert (E2 : Qle_bool f (-(1#1)) = true) by (apply Qle_bool_iff; exact R2).
  rewrite E1, E2. cbn [andb]. eexists. split; [reflexivity |].
  assert (Hf : f + (2#1) == (v - mn) * ext_scale mn mx) by (rewrite Ef; ring).
  rewrite Hf, C. ring.
Qed.

Lemma decode_down_eq : forall mn mx v f, mn <= v -> v <= mx -> f == (2#1) - (v - mn) * ext_scale mn mx ->
  exists w, decode_extended_filtration f mn mx = (Some w, 1%Z) /\ w == v.
Proof.
  intros mn mx v f H1 H2 Ef.
  destruct (scale_prop mn mx v H1 H2) as (A & B & C).
  destruct (enc_range_down mn mx v H1 H2) as (R1 & R2). rewrite <- Ef in R1, R2.
  unfold decode_extended_filtration.
  assert (E2 : Qle_bool f (-(1#1)) = false).
  { destruct (Qle_bool f (-(1#1))) eqn:E; auto. apply Qle_bool_iff in E. exfalso. lra. }
  assert (E3 : Qle_bool (1#1) f = true) by (apply Qle_bool_iff; exact R1).
  assert (E4 : Qle_bool f (2#1) = true) by (apply Qle_bool_iff; exact R2).
  rewrite E2, E3, E4. rewrite andb_false_r. cbn [andb]. eexists. split; [reflexivity |].
  assert (Hf : (mx - mn) * (f - (2#1)) == - ((mx - mn) * ((v - mn) * ext_scale mn mx))) by (rewrite Ef; ring).
  rewrite Hf, C. ring.
Qed.

Lemma decode_extra_eq : forall mn mx f, f == -(3#1) -> decode_extended_filtration f mn mx = (None, 2%Z).
Proof.
  intros mn mx f Ef. unfold decode_extended_filtration.
  assert (E1 : Qle_bool (-(2#1)) f = false).
  { destruct (Qle_bool (-(2#1)) f) eqn:E; auto. apply Qle_bool_iff in E. exfalso. lra. }
  assert (E3 : Qle_bool (1#1) f = false).
  { destruct (Qle_bool (1#1) f) eqn:E; auto. apply Qle_bool_iff in E. exfalso. lra. }
  rewrite E1, E3. reflexivity.
Qed.

Lemma extended_decodes_aux : mfnd_spec_statement ->
  forall vmin (K : qcplx), wf K -> closed K -> finite_vertices K ->
  let R := fst (extend_filtration vmin K) in
  let c := ext_cone_point vmin K in
  (exists w, lookup R [c] = Some w /\ decode_extended_filtration w (ext_min K) (ext_max K) = (None, 2%Z)) /\
  (forall s, In s (map fst K) ->
     (exists w d x vx, lookup R s = Some w /\
                       decode_extended_filtration w (ext_min K) (ext_max K) = (Some d, 0%Z) /\ d == vx /\
                       In x s /\ lookup K [x] = Some vx /\
                       (forall y vy, In y s -> lookup K [y] = Some vy -> vy <= vx)) /\
     (exists w d x vx, lookup R (s ++ [c]) = Some w /\
                       decode_extended_filtration w (ext_min K) (ext_max K) = (Some d, 1%Z) /\ d == vx /\
                       In x s /\ lookup K [x] = Some vx /\
                       (forall y vy, In y s -> lookup K [y] = Some vy -> vx <= vy))).
Proof.
  intros Hspec vmin K Hwf Hcl Hfin R c.
  destruct (extended_is_cone_filtration Hspec vmin K Hwf Hcl Hfin) as [(w & Hw & Ew) Hall].
  fold R in Hw, Hall. fold c in Hw, Hall. split.
  - exists w. split; [exact Hw | apply decode_extra_eq; exact Ew].
  - intros s Hs. destruct (Hall s Hs) as [(w1 & x1 & v1 & Hw1 & Hx1 & Hv1 & E1 & M1) (w2 & x2 & v2 & Hw2 & Hx2 & Hv2 & E2 & M2)].
    split.
    + destruct (decode_up_eq (ext_min K) (ext_max K) v1 w1) as (d & Hd & Ed);
        [exact (ext_min_le K x1 v1 Hv1) | exact (ext_max_ge K x1 v1 Hv1) | exact E1 |].
      exists w1, d, x1, v1. repeat split; assumption.
    + destruct (decode_down_eq (ext_min K) (ext_max K) v2 w2) as (d & Hd & Ed);
        [exact (ext_min_le K x2 v2 Hv2) | exact (ext_max_ge K x2 v2 Hv2) | exact E2 |].
      exists w2, d, x2, v2. repeat split; assumption.
Qed.

(* the same with the (minval, maxval) pair returned by extend_filtration, as the caller of the C++ does *)
Theorem extended_decodes : mfnd_spec_statement ->
  forall vmin (K : qcplx), wf K -> closed K -> finite_vertices K ->
  let R := fst (extend_filtration vmin K) in
  let mn := fst (snd (extend_filtration vmin K)) in
  let mx := snd (snd (extend_filtration vmin K)) in
  let c := ext_cone_point vmin K in
  (exists w, lookup R [c] = Some w /\ decode_extended_filtration w mn mx = (None, 2%Z)) /\
  (forall s, In s (map fst K) ->
     (exists w d x vx, lookup R s = Some w /\ decode_extended_filtration w mn mx = (Some d, 0%Z) /\ d == vx /\
                       In x s /\ lookup K [x] = Some vx /\
                       (forall y vy, In y s -> lookup K [y] = Some vy -> vy <= vx)) /\
     (exists w d x vx, lookup R (s ++ [c]) = Some w /\ decode_extended_filtration w mn mx = (Some d, 1%Z) /\ d == vx /\
                       In x s /\ lookup K [x] = Some vx /\
                       (forall y vy, In y s -> lookup K [y] = Some vy -> vx <= vy))).
Proof.
  intros Hspec vmin K Hwf Hcl Hfin. exact (extended_decodes_aux Hspec vmin K Hwf Hcl Hfin).
Qed.

(* the simplices of the extended complex: the cone point, the simplices of K, their cones *)
Theorem extended_keys : mfnd_spec_statement ->
  forall vmin (K : qcplx), wf K -> closed K ->
  forall k, In k (map fst (fst (extend_filtration vmin K))) <->
            k = [ext_cone_point vmin K] \/
            exists s, In s (map fst K) /\ (k = s \/ k = s ++ [ext_cone_point vmin K]).
Proof.
  intros Hspec vmin K Hwf Hcl k.
  pose proof (wf_K1 vmin K Hwf Hcl) as W. pose proof (closed_K1 vmin K Hcl) as C.
  destruct (Hspec Q qlt qlt_strict_weak _ W C) as [Hk _].
  unfold extend_filtration, extend_filtration_with. cbn [fst].
  unfold ext_min, ext_max, ext_cone_point in Hk. rewrite Hk.
  exact (in_keys1 vmin K k).
Qed.

Print Assumptions qlt_strict_weak.
Print Assumptions decode_encode_up.
Print Assumptions decode_encode_down.
Print Assumptions decode_extra.
Print Assumptions ext_min_attained.
Print Assumptions ext_max_attained.
Print Assumptions cone_point_gt_vertex.
Print Assumptions extended_is_cone_filtration.
Print Assumptions extended_decodes.
Print Assumptions extended_keys.

(* ------------------------------------------------------------------ the cone point is a legal fresh vertex: larger than every
   vertex of K (cone_point_gt_vertex) and different from the reserved null_vertex() = -1.  The code as it stood before the
   repair (maxvert + 1 unconditionally) used null_vertex() itself when the largest vertex was -2. *)
Lemma cone_point_not_null : forall vmin (K : qcplx), ext_cone_point vmin K <> null_vertex.
Proof.
  intros vmin K. unfold ext_cone_point, cone_point_of, null_vertex.
  destruct (Z.eqb (ext_maxvert vmin (vertex_values K) + 1) (-1)) eqn:E; lia.
Qed.

Lemma cone_point_unrepaired_refuted : exists (K : qcplx) (vmin : Z), wf K /\ closed K /\
  cone_point_unrepaired (ext_maxvert vmin (vertex_values K)) = null_vertex /\
  In [null_vertex] (map fst (fst (extend_filtration_unrepaired vmin K))).
Proof.
  exists [([(-2)%Z], 0#1)], (-2147483648)%Z. split; [|split; [|split]].
  - split; [cbn; repeat constructor; intros []|]. intros s [H|[]]. cbn in H. subst s. split; [discriminate | repeat constructor].
  - intros s t [H|[]] St Nt. cbn in H. subst s. left. cbn.
    inversion St as [|? ? ? S1|? ? ? S1]; subst; inversion S1; subst; [reflexivity | congruence].
  - vm_compute. reflexivity.
  - vm_compute. auto.
Qed.
Print Assumptions cone_point_not_null.
Print Assumptions cone_point_unrepaired_refuted.
