(* C03 - Filtration order and filtration-value maintenance of Gudhi::Simplex_tree.
   MODEL ONLY (no proofs here, so that extraction survives a broken proof).

   The simplex tree is seen through its abstraction: a filtered complex is a finite map from simplices
   (strictly increasing vertex lists) to values, represented as an association list [cplx].  (The prefix tree
   itself is the subject of property C01; what C03 needs of it is (a) the order in which rec_for_each_simplex visits
   the nodes and (b) which nodes are below which in the tree, and both are functions of the vertex lists:
   the path to a simplex is its increasing vertex list, the sub-tree below a node is the set of simplices that
   have its list as a prefix.)

   Algorithm models (transcriptions of src/Simplex_tree/include/gudhi/Simplex_tree.h):
     lex_dec / revlex / is_before      reverse_lexicographic_order, is_before_in_totally_ordered_filtration
     initialize_filtration, maybe_initialize_filtration, filtration_simplex_range, clear_filtration
                                       (the sort is the merge sort [msort]; theorem: any sorting routine gives the same list)
     dfs_lt / traversal                the visiting order of rec_for_each_simplex (siblings right to left, node before
                                       its children)
     relax / mfnd_step / make_filtration_non_decreasing    (intersect_lifetimes over boundary_simplex_range)
     pruned / prune_above_filtration   rec_prune_above_filtration: a node goes with its whole sub-tree
     extend_filtration, decode_extended_filtration          over Q
   Specification side (C03_Proofs.v): strict total order, sorted permutation, least monotone majorant, sublevel set,
   lower-star / upper-star values.

   Values: a type V with a strict comparison vlt (the C++ operator< on Filtration_value; == is "neither is less",
   which is what operator== of double is when NaN is excluded, as the property does).  The extracted instance is Q
   (dyadic rationals in the runs) with +-infinity as the two sentinels +-q_inf. *)
From Coq Require Import ZArith QArith List Bool.
Import ListNotations.

Definition simplex := list Z.

Fixpoint simplex_eqb (a b : simplex) : bool :=
  match a, b with
  | [], [] => true
  | x :: a', y :: b' => Z.eqb x y && simplex_eqb a' b'
  | _, _ => false
  end.

(* ------------------------------------------------------------------ a merge sort (stands for std::stable_sort /
   tbb::parallel_sort; the theorems say that any sorted permutation is this one) *)
Section Sort.
  Variable A : Type.
  Variable le : A -> A -> bool.

  Fixpoint merge (l1 : list A) : list A -> list A :=
    fix merge_aux (l2 : list A) : list A :=
      match l1, l2 with
      | [], _ => l2
      | _, [] => l1
      | a1 :: l1', a2 :: l2' => if le a1 a2 then a1 :: merge l1' l2 else a2 :: merge_aux l2'
      end.

  Fixpoint split_alt (l : list A) : list A * list A :=
    match l with
    | [] => ([], [])
    | [a] => ([a], [])
    | a :: b :: t => let (l1, l2) := split_alt t in (a :: l1, b :: l2)
    end.

  (* fuel = length of the list is always enough (proved: msort_sorted, msort_perm hold without hypothesis) *)
  Fixpoint msort_fuel (n : nat) (l : list A) : list A :=
    match n with
    | O => l
    | S n' =>
      match l with
      | [] => l
      | [_] => l
      | _ => let (l1, l2) := split_alt l in merge (msort_fuel n' l1) (msort_fuel n' l2)
      end
    end.

  Definition msort (l : list A) : list A := msort_fuel (length l) l.

  (* insertion sort: a second, independent sorting routine (used by the determinism theorems and by the oracle on
     small inputs as a cross-check of the "any sort gives the same answer" theorem) *)
  Fixpoint insert_sorted (a : A) (l : list A) : list A :=
    match l with
    | [] => [a]
    | b :: l' => if le a b then a :: l else b :: insert_sorted a l'
    end.
  Fixpoint isort (l : list A) : list A :=
    match l with [] => [] | a :: l' => insert_sorted a (isort l') end.
End Sort.
Arguments merge {A}. Arguments split_alt {A}. Arguments msort_fuel {A}. Arguments msort {A}.
Arguments insert_sorted {A}. Arguments isort {A}.

(* ------------------------------------------------------------------ orders on simplices *)
(* reverse_lexicographic_order: the two vertex ranges are traversed in DECREASING vertex order; the first difference
   decides (smaller vertex first); if one range ends first, it is before *)
Fixpoint lex_dec (a b : list Z) : bool :=
  match a, b with
  | x :: a', y :: b' => if Z.eqb x y then lex_dec a' b' else Z.ltb x y
  | [], _ :: _ => true
  | _, _ => false
  end.
Definition revlex (s1 s2 : simplex) : bool := lex_dec (rev s1) (rev s2).

(* rec_for_each_simplex: at each Siblings the members are visited from the largest label to the smallest, a node
   before the nodes below it.  On paths (= increasing vertex lists): a proper prefix comes first; at the first
   difference the LARGER label comes first. *)
Fixpoint dfs_lt (a b : simplex) : bool :=
  match a, b with
  | [], _ :: _ => true
  | x :: a', y :: b' => if Z.eqb x y then dfs_lt a' b' else Z.ltb y x
  | _, [] => false
  end.
Definition dfs_le (a b : simplex) : bool := negb (dfs_lt b a).

(* boundary_simplex_range: the facets (one vertex removed); for a vertex the range is empty *)
Fixpoint facets (s : simplex) : list simplex :=
  match s with
  | [] => []
  | x :: t => t :: map (cons x) (facets t)
  end.

(* non-empty prefixes of a path = the node itself and its ancestors in the tree *)
Fixpoint prefixes (s : simplex) : list simplex :=
  match s with
  | [] => []
  | x :: t => [x] :: map (cons x) (prefixes t)
  end.

(* all non-empty faces *)
Fixpoint nonempty_subs (s : simplex) : list simplex :=
  match s with
  | [] => []
  | x :: t => let r := nonempty_subs t in [x] :: map (cons x) r ++ r
  end.

(* ------------------------------------------------------------------ filtered complexes over an ordered value type *)
Section Filt.
  Variable V : Type.
  Variable vlt : V -> V -> bool.
  Variable vinf : V.              (* Filtration_simplex_base_real::get_infinity() *)

  Definition veq (a b : V) : bool := negb (vlt a b) && negb (vlt b a).
  Definition cplx := list (simplex * V).

  Fixpoint lookup (K : cplx) (s : simplex) : option V :=
    match K with
    | [] => None
    | (t, v) :: K' => if simplex_eqb t s then Some v else lookup K' s
    end.

  Fixpoint update (K : cplx) (s : simplex) (v : V) : cplx :=
    match K with
    | [] => []
    | (t, w) :: K' => if simplex_eqb t s then (t, v) :: K' else (t, w) :: update K' s v
    end.

  (* is_before_in_totally_ordered_filtration::operator() *)
  Definition is_before (a b : simplex * V) : bool :=
    if negb (veq (snd a) (snd b)) then vlt (snd a) (snd b) else revlex (fst a) (fst b).
  Definition fle (a b : simplex * V) : bool := negb (is_before b a).

  (* initialize_filtration(Comparator, Ignorer): collect the non-ignored simplices, sort; the cache holds handles,
     i.e. simplices *)
  Definition initialize_filtration_with (sort : list (simplex * V) -> list (simplex * V)) (ignore_inf : bool) (K : cplx)
    : list simplex :=
    map fst (sort (filter (fun p => negb (ignore_inf && veq (snd p) vinf)) K)).
  Definition initialize_filtration := initialize_filtration_with (msort fle).

  (* state = the complex and filtration_vect_ (empty = not computed) *)
  Definition state := (cplx * list simplex)%type.
  Definition clear_filtration (st : state) : state := (fst st, []).
  Definition maybe_initialize_filtration (st : state) : state :=
    match snd st with
    | [] => (fst st, initialize_filtration false (fst st))
    | _ => st
    end.
  (* filtration_simplex_range(): new state and the range returned (simplices with their current values) *)
  Definition with_values (K : cplx) (l : list simplex) : list (simplex * option V) := map (fun s => (s, lookup K s)) l.
  Definition filtration_simplex_range (st : state) : state * list (simplex * option V) :=
    let st' := maybe_initialize_filtration st in (st', with_values (fst st') (snd st')).
  Definition op_initialize_filtration (ignore_inf : bool) (st : state) : state :=
    (fst st, initialize_filtration ignore_inf (fst st)).

  (* ---------------- make_filtration_non_decreasing *)
  Definition traversal (K : cplx) : list simplex := msort dfs_le (map fst K).

  (* the loop over boundary_simplex_range(sh) with intersect_lifetimes(current_filt, filtration(b)) *)
  Definition relax (K : cplx) (s : simplex) (cur : V) : V * bool :=
    fold_left (fun (cm : V * bool) (b : simplex) =>
                 match lookup K b with
                 | Some fb => if vlt (fst cm) fb then (fb, true) else cm
                 | None => cm     (* not a simplicial complex: excluded by the hypotheses (the C++ dereferences) *)
                 end) (facets s) (cur, false).

  Definition mfnd_step (st : cplx * bool) (s : simplex) : cplx * bool :=
    match s with
    | [] => st
    | [_] => st                                  (* if (dim == 0) return; *)
    | _ =>
      match lookup (fst st) s with
      | None => st
      | Some cur => let cm := relax (fst st) s cur in (update (fst st) s (fst cm), snd st || snd cm)
      end
    end.

  Definition mfnd_over (order : list simplex) (K : cplx) : cplx * bool := fold_left mfnd_step order (K, false).
  Definition make_filtration_non_decreasing (K : cplx) : cplx * bool := mfnd_over (traversal K) K.
  Definition op_mfnd (st : state) : state * bool :=
    let r := make_filtration_non_decreasing (fst st) in
    ((fst r, if snd r then [] else snd st), snd r).

  (* ---------------- prune_above_filtration: a node is erased when filt < its value; its sub-tree goes with it *)
  Definition pruned (K : cplx) (f : V) (s : simplex) : bool :=
    existsb (fun p => match lookup K p with Some v => vlt f v | None => false end) (prefixes s).
  Definition prune_above_filtration (K : cplx) (f : V) : cplx * bool :=
    if veq f vinf then (K, false)
    else let K' := filter (fun p => negb (pruned K f (fst p))) K in
         (K', negb (Nat.eqb (length K') (length K))).
  Definition op_prune (f : V) (st : state) : state * bool :=
    let r := prune_above_filtration (fst st) f in
    ((fst r, if snd r then [] else snd st), snd r).

  (* ---------------- insertion of a simplex with all its faces, on the abstraction (specification of the histories;
     the tree algorithm is C01's): each non-empty face gets the value if new, min(old, value) otherwise *)
  Definition upsert_min (K : cplx) (s : simplex) (v : V) : cplx :=
    match lookup K s with
    | None => K ++ [(s, v)]
    | Some w => if vlt v w then update K s v else K
    end.
  Definition abs_insert (K : cplx) (s : simplex) (v : V) : cplx :=
    fold_left (fun K t => upsert_min K t v) (nonempty_subs s) K.
End Filt.

Arguments veq {V}. Arguments lookup {V}. Arguments update {V}. Arguments is_before {V}. Arguments fle {V}.
Arguments initialize_filtration_with {V}. Arguments initialize_filtration {V}. Arguments clear_filtration {V}.
Arguments maybe_initialize_filtration {V}. Arguments with_values {V}. Arguments filtration_simplex_range {V}.
Arguments op_initialize_filtration {V}. Arguments traversal {V}. Arguments relax {V}. Arguments mfnd_step {V}.
Arguments mfnd_over {V}. Arguments make_filtration_non_decreasing {V}. Arguments op_mfnd {V}. Arguments pruned {V}.
Arguments prune_above_filtration {V}. Arguments op_prune {V}. Arguments upsert_min {V}. Arguments abs_insert {V}.

(* ------------------------------------------------------------------ the instance used for extraction and for the
   extended filtration: Q *)
Definition qlt (a b : Q) : bool := negb (Qle_bool b a).
Definition q_inf : Q := inject_Z (Z.pow 2 200).
Definition qcplx := cplx Q.

Definition vertex_values (K : qcplx) : list (Z * Q) :=
  flat_map (fun p => match fst p with [x] => [(x, snd p)] | _ => [] end) K.

(* the first loop of extend_filtration over root_.members(): std::min / std::max / maxvert *)
Definition ext_minval (vs : list (Z * Q)) : Q := fold_left (fun m xv => if qlt (snd xv) m then snd xv else m) vs q_inf.
Definition ext_maxval (vs : list (Z * Q)) : Q := fold_left (fun m xv => if qlt m (snd xv) then snd xv else m) vs (Qopp q_inf).
Definition ext_maxvert (vmin : Z) (vs : list (Z * Q)) : Z := fold_left (fun m xv => Z.max (fst xv) m) vs vmin.
Definition ext_scale (minval maxval : Q) : Q :=
  if Qeq_bool (maxval - minval) 0 then 0 else / (maxval - minval).

(* the values given before the final make_filtration_non_decreasing *)
Definition ext_assign (minval scale : Q) (c : Z) (K : qcplx) : qcplx :=
  ([c], -(3#1)) ::
  flat_map (fun p =>
              match fst p with
              | [_] => let sv := (snd p - minval) * scale in
                       [(fst p, -(2#1) + sv); (fst p ++ [c], (2#1) - sv)]
              | _ => [(fst p, -(3#1)); (fst p ++ [c], -(3#1))]
              end) K.

(* the cone point: maxvert++; if (maxvert == null_vertex()) maxvert++;   (the second statement is the repair made in /repo
   for this property; [cone_point_unrepaired] is the code as it stood) *)
Definition null_vertex : Z := (-1)%Z.
Definition cone_point_of (maxvert : Z) : Z :=
  let c := (maxvert + 1)%Z in if Z.eqb c null_vertex then (c + 1)%Z else c.
Definition cone_point_unrepaired (maxvert : Z) : Z := (maxvert + 1)%Z.

(* vmin = std::numeric_limits<Vertex_handle>::min() *)
Definition extend_filtration_with (cone : Z -> Z) (vmin : Z) (K : qcplx) : qcplx * (Q * Q) :=
  let vs := vertex_values K in
  let minval := ext_minval vs in
  let maxval := ext_maxval vs in
  let c := cone (ext_maxvert vmin vs) in
  let scale := ext_scale minval maxval in
  (fst (make_filtration_non_decreasing qlt (ext_assign minval scale c K)), (minval, maxval)).
Definition extend_filtration := extend_filtration_with cone_point_of.
Definition extend_filtration_unrepaired := extend_filtration_with cone_point_unrepaired.

Definition op_extend (vmin : Z) (st : state Q) : state Q * (Q * Q) :=
  let r := extend_filtration vmin (fst st) in ((fst r, []), snd r).

(* Extended_simplex_type: 0 = UP, 1 = DOWN, 2 = EXTRA; None = NaN *)
Definition decode_extended_filtration (f minval maxval : Q) : option Q * Z :=
  if Qle_bool (-(2#1)) f && Qle_bool f (-(1#1)) then (Some (minval + (maxval - minval) * (f + (2#1))), 0%Z)
  else if Qle_bool (1#1) f && Qle_bool f (2#1) then (Some (minval - (maxval - minval) * (f - (2#1))), 1%Z)
  else (None, 2%Z).

(* instance wrappers (what the oracle calls) *)
Definition q_range (st : state Q) := filtration_simplex_range qlt q_inf st.
Definition q_init (ign : bool) (st : state Q) := op_initialize_filtration qlt q_inf ign st.
Definition q_init_isort (ign : bool) (K : qcplx) := initialize_filtration_with qlt q_inf (isort (fle qlt)) ign K.
Definition q_mfnd (st : state Q) := op_mfnd qlt st.
Definition q_prune (f : Q) (st : state Q) := op_prune qlt q_inf f st.
Definition q_insert (K : qcplx) (s : simplex) (v : Q) := abs_insert qlt K s v.
Definition q_set (K : qcplx) (s : simplex) (v : Q) := update K s v.
Definition q_lookup (K : qcplx) (s : simplex) := lookup K s.
Definition q_is_before (a b : simplex * Q) := is_before qlt a b.
Definition q_red (x : Q) : Q := Qred x.
