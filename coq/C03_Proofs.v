(* C03 - proofs about the model of C03_Model.v (orders, sort, filtration range, make_filtration_non_decreasing, prune). *)
From Coq Require Import ZArith List Bool Sorted Permutation Lia ZifyBool.
Require Import C03_Model C03_Defs.
Import ListNotations.

(* ================================================================== simplex_eqb *)
Lemma simplex_eqb_eq : forall a b, simplex_eqb a b = true <-> a = b.
Proof.
  induction a as [|x a IH]; intros [|y b]; cbn [simplex_eqb]; split; intros H; try reflexivity; try discriminate.
  - apply andb_true_iff in H. destruct H as [H1 H2]. apply Z.eqb_eq in H1. apply IH in H2. subst. reflexivity.
  - inversion H; subst. apply andb_true_iff. split; [apply Z.eqb_refl | apply IH; reflexivity].
Qed.

Lemma simplex_eqb_refl : forall a, simplex_eqb a a = true.
Proof. intros a. apply simplex_eqb_eq. reflexivity. Qed.

Lemma simplex_eqb_neq : forall a b, a <> b -> simplex_eqb a b = false.
Proof. intros a b H. destruct (simplex_eqb a b) eqn:E; [apply simplex_eqb_eq in E; contradiction | reflexivity]. Qed.

Lemma simplex_eq_dec : forall a b : simplex, {a = b} + {a <> b}.
Proof. intros a b. destruct (simplex_eqb a b) eqn:E; [left; apply simplex_eqb_eq; exact E | right; intros H; apply simplex_eqb_eq in H; congruence]. Qed.

(* ================================================================== lex_dec is a strict total order on lists *)
Lemma lex_dec_irrefl : forall a, lex_dec a a = false.
Proof. induction a as [|x a IH]; cbn [lex_dec]; [reflexivity | rewrite Z.eqb_refl; exact IH]. Qed.

Lemma lex_dec_trans : forall a b c, lex_dec a b = true -> lex_dec b c = true -> lex_dec a c = true.
Proof.
  induction a as [|x a IH]; intros [|y b] [|z c] H1 H2; cbn [lex_dec] in *; try discriminate; try reflexivity.
  destruct (Z.eqb x y) eqn:Exy; destruct (Z.eqb y z) eqn:Eyz; destruct (Z.eqb x z) eqn:Exz; try lia.
  eapply IH; eassumption.
Qed.

Lemma lex_dec_trichotomy : forall a b, lex_dec a b = true \/ a = b \/ lex_dec b a = true.
Proof.
  induction a as [|x a IH]; intros [|y b]; cbn [lex_dec]; auto.
  destruct (Z.eqb x y) eqn:Exy.
  - assert (x = y) by lia. subst y. rewrite Z.eqb_refl.
    destruct (IH b) as [H|[H|H]]; auto. subst. auto.
  - assert (Z.eqb y x = false) as -> by lia.
    destruct (Z.ltb x y) eqn:L; [auto | right; right; lia].
Qed.

Lemma lex_dec_asym : forall a b, lex_dec a b = true -> lex_dec b a = false.
Proof.
  intros a b H. destruct (lex_dec b a) eqn:E; [|reflexivity].
  pose proof (lex_dec_trans _ _ _ H E) as T. rewrite lex_dec_irrefl in T. discriminate.
Qed.

Lemma revlex_irrefl : forall a, revlex a a = false.
Proof. intros; apply lex_dec_irrefl. Qed.
Lemma revlex_trans : forall a b c, revlex a b = true -> revlex b c = true -> revlex a c = true.
Proof. unfold revlex; intros; eapply lex_dec_trans; eassumption. Qed.
Lemma revlex_trichotomy : forall a b, revlex a b = true \/ a = b \/ revlex b a = true.
Proof.
  unfold revlex; intros a b. destruct (lex_dec_trichotomy (rev a) (rev b)) as [H|[H|H]]; auto.
  right; left. rewrite <- (rev_involutive a), <- (rev_involutive b), H. reflexivity.
Qed.
Lemma revlex_asym : forall a b, revlex a b = true -> revlex b a = false.
Proof. unfold revlex; intros; apply lex_dec_asym; assumption. Qed.

(* dfs_lt is lex_dec on the negated labels *)
Lemma dfs_lt_lex : forall a b, dfs_lt a b = lex_dec (map Z.opp a) (map Z.opp b).
Proof.
  induction a as [|x a IH]; intros [|y b]; cbn [dfs_lt lex_dec map]; try reflexivity.
  rewrite IH. assert (Z.eqb (- x) (- y) = Z.eqb x y) as -> by lia. assert (Z.ltb (- x) (- y) = Z.ltb y x) as -> by lia. reflexivity.
Qed.

Lemma map_opp_inj : forall a b, map Z.opp a = map Z.opp b -> a = b.
Proof.
  induction a as [|x a IH]; intros [|y b] H; cbn [map] in H; try discriminate; try reflexivity.
  inversion H. f_equal; [lia | apply IH; assumption].
Qed.

Lemma dfs_lt_irrefl : forall a, dfs_lt a a = false.
Proof. intros; rewrite dfs_lt_lex; apply lex_dec_irrefl. Qed.
Lemma dfs_lt_trans : forall a b c, dfs_lt a b = true -> dfs_lt b c = true -> dfs_lt a c = true.
Proof. intros a b c; rewrite !dfs_lt_lex; apply lex_dec_trans. Qed.
Lemma dfs_lt_trichotomy : forall a b, dfs_lt a b = true \/ a = b \/ dfs_lt b a = true.
Proof.
  intros a b; rewrite !dfs_lt_lex. destruct (lex_dec_trichotomy (map Z.opp a) (map Z.opp b)) as [H|[H|H]]; auto.
  right; left; apply map_opp_inj; assumption.
Qed.
Lemma dfs_lt_asym : forall a b, dfs_lt a b = true -> dfs_lt b a = false.
Proof. intros a b; rewrite !dfs_lt_lex; apply lex_dec_asym. Qed.

Lemma dfs_le_total : forall a b, dfs_le a b = true \/ dfs_le b a = true.
Proof.
  unfold dfs_le; intros a b. destruct (dfs_lt b a) eqn:E; [right | left; reflexivity].
  rewrite (dfs_lt_asym _ _ E). reflexivity.
Qed.
Lemma dfs_le_trans : forall a b c, dfs_le a b = true -> dfs_le b c = true -> dfs_le a c = true.
Proof.
  unfold dfs_le; intros a b c H1 H2. apply negb_true_iff in H1, H2. apply negb_true_iff.
  destruct (dfs_lt c a) eqn:E; [|reflexivity].
  destruct (dfs_lt_trichotomy b c) as [T|[T|T]].
  - rewrite (dfs_lt_trans _ _ _ T E) in H1. discriminate.
  - subst. congruence.
  - congruence.
Qed.

(* ================================================================== the comparator is a strict order, total on distinct simplices *)
Section Order.
  Variable V : Type.
  Variable vlt : V -> V -> bool.
  Hypothesis SW : StrictWeak vlt.

  Let irr := sw_irrefl vlt SW.
  Let tra := sw_trans vlt SW.
  Let ntr := sw_negtrans vlt SW.

  Lemma vlt_asym : forall a b, vlt a b = true -> vlt b a = false.
  Proof. intros a b H. destruct (vlt b a) eqn:E; [|reflexivity]. pose proof (tra _ _ _ H E) as T. rewrite irr in T. discriminate. Qed.

  Lemma vlt_lt_le : forall a b c, vlt a b = true -> vlt c b = false -> vlt a c = true.
  Proof. intros a b c H1 H2. destruct (vlt a c) eqn:E; [reflexivity|]. rewrite (ntr _ _ _ E H2) in H1. discriminate. Qed.

  Lemma vlt_le_lt : forall a b c, vlt b a = false -> vlt b c = true -> vlt a c = true.
  Proof. intros a b c H1 H2. destruct (vlt a c) eqn:E; [reflexivity|]. rewrite (ntr _ _ _ H1 E) in H2. discriminate. Qed.

  Lemma veq_true : forall a b, veq vlt a b = true <-> vlt a b = false /\ vlt b a = false.
  Proof. unfold veq; intros a b. rewrite andb_true_iff, !negb_true_iff. tauto. Qed.

  Lemma is_before_irrefl : forall a, is_before vlt a a = false.
  Proof. intros a. unfold is_before. destruct (veq vlt (snd a) (snd a)) eqn:E; cbn [negb]; [apply revlex_irrefl | apply irr]. Qed.

  Lemma is_before_cases : forall a b, is_before vlt a b = true <->
    vlt (snd a) (snd b) = true \/ (vlt (snd a) (snd b) = false /\ vlt (snd b) (snd a) = false /\ revlex (fst a) (fst b) = true).
  Proof.
    intros a b. unfold is_before, veq.
    destruct (vlt (snd a) (snd b)) eqn:E1; destruct (vlt (snd b) (snd a)) eqn:E2; cbn [negb andb]; split; intros H;
      try reflexivity; try (left; reflexivity); try discriminate H;
      try (destruct H as [H|(H1 & H2 & H3)]; try discriminate; try assumption; fail);
      try (right; repeat split; assumption).
  Qed.

  Lemma is_before_trans : forall a b c, is_before vlt a b = true -> is_before vlt b c = true -> is_before vlt a c = true.
  Proof.
    intros a b c H1 H2. apply is_before_cases in H1, H2. apply is_before_cases.
    destruct H1 as [H1|(H1a & H1b & H1c)]; destruct H2 as [H2|(H2a & H2b & H2c)].
    - left. eapply tra; eassumption.
    - left. eapply vlt_lt_le; eassumption.
    - left. eapply vlt_le_lt; eassumption.
    - right. repeat split; [eapply ntr; eassumption | eapply ntr; eassumption | eapply revlex_trans; eassumption].
  Qed.

  Lemma is_before_asym : forall a b, is_before vlt a b = true -> is_before vlt b a = false.
  Proof.
    intros a b H. destruct (is_before vlt b a) eqn:E; [|reflexivity].
    pose proof (is_before_trans _ _ _ H E) as T. rewrite is_before_irrefl in T. discriminate.
  Qed.

  (* total on distinct simplices *)
  Lemma is_before_total : forall a b, fst a <> fst b -> is_before vlt a b = true \/ is_before vlt b a = true.
  Proof.
    intros a b Hne. destruct (vlt (snd a) (snd b)) eqn:E1.
    - left. apply is_before_cases. auto.
    - destruct (vlt (snd b) (snd a)) eqn:E2.
      + right. apply is_before_cases. auto.
      + destruct (revlex_trichotomy (fst a) (fst b)) as [H|[H|H]]; [left | contradiction | right]; apply is_before_cases; right; auto.
  Qed.

  (* negative transitivity: the comparator is a strict weak ordering as std::stable_sort / tbb::parallel_sort demand *)
  Lemma is_before_negtrans : forall a b c, is_before vlt a b = false -> is_before vlt b c = false -> is_before vlt a c = false.
  Proof.
    intros a b c H1 H2. destruct (is_before vlt a c) eqn:E; [|reflexivity]. exfalso.
    apply is_before_cases in E.
    assert (N1 : ~ (vlt (snd a) (snd b) = true \/ (vlt (snd a) (snd b) = false /\ vlt (snd b) (snd a) = false /\ revlex (fst a) (fst b) = true))).
    { intros X. apply is_before_cases in X. congruence. }
    assert (N2 : ~ (vlt (snd b) (snd c) = true \/ (vlt (snd b) (snd c) = false /\ vlt (snd c) (snd b) = false /\ revlex (fst b) (fst c) = true))).
    { intros X. apply is_before_cases in X. congruence. }
    destruct (vlt (snd a) (snd b)) eqn:Eab; [apply N1; auto|].
    destruct (vlt (snd b) (snd c)) eqn:Ebc; [apply N2; auto|].
    destruct E as [E|(Ea & Eb & Ec)].
    - rewrite (ntr _ _ _ Eab Ebc) in E. discriminate.
    - (* all three values equivalent *)
      assert (Eba : vlt (snd b) (snd a) = false).
      { destruct (vlt (snd b) (snd a)) eqn:X; [|reflexivity]. rewrite (vlt_lt_le _ _ _ X Eb) in Ebc. discriminate. }
      assert (Ecb : vlt (snd c) (snd b) = false).
      { destruct (vlt (snd c) (snd b)) eqn:X; [|reflexivity]. rewrite (vlt_le_lt _ _ _ Eb X) in Eab. discriminate. }
      destruct (revlex_trichotomy (fst a) (fst b)) as [T|[T|T]].
      + apply N1. auto.
      + apply N2. right. rewrite <- T. auto.
      + apply N2. right. repeat split; auto. eapply revlex_trans; eassumption.
  Qed.

  Lemma fle_total : forall a b, fle vlt a b = true \/ fle vlt b a = true.
  Proof.
    unfold fle; intros a b. destruct (is_before vlt b a) eqn:E; [right | left; reflexivity].
    rewrite (is_before_asym _ _ E). reflexivity.
  Qed.

  Lemma fle_trans : forall a b c, fle vlt a b = true -> fle vlt b c = true -> fle vlt a c = true.
  Proof.
    unfold fle; intros a b c H1 H2. apply negb_true_iff in H1, H2. apply negb_true_iff.
    eapply is_before_negtrans; eassumption.
  Qed.

  (* on distinct simplices fle is the strict comparator *)
  Lemma fle_antisym_keys : forall a b, fle vlt a b = true -> fle vlt b a = true -> fst a = fst b.
  Proof.
    unfold fle; intros a b H1 H2. apply negb_true_iff in H1, H2.
    destruct (simplex_eq_dec (fst a) (fst b)) as [E|N]; [exact E|].
    destruct (is_before_total a b N); congruence.
  Qed.
End Order.

(* ================================================================== sorting: merge sort sorts; sorted permutations are unique *)
Section SortProofs.
  Variable A : Type.
  Variable le : A -> A -> bool.
  Hypothesis le_total : forall a b, le a b = true \/ le b a = true.
  Hypothesis le_trans : forall a b c, le a b = true -> le b c = true -> le a c = true.

  Definition sorted (l : list A) : Prop := StronglySorted (fun a b => le a b = true) l.

  Lemma merge_perm : forall l1 l2, Permutation (merge le l1 l2) (l1 ++ l2).
  Proof.
    induction l1 as [|a1 l1 IH1]; intros l2.
    - destruct l2; cbn [merge]; simpl; apply Permutation_refl.
    - induction l2 as [|a2 l2 IH2].
      + cbn [merge]. rewrite app_nil_r. apply Permutation_refl.
      + cbn [merge]. destruct (le a1 a2).
        * simpl app. apply perm_skip. apply IH1.
        * eapply Permutation_trans; [apply perm_skip; apply IH2|]. apply Permutation_middle.
  Qed.

  Lemma merge_sorted : forall l1 l2, sorted l1 -> sorted l2 -> sorted (merge le l1 l2).
  Proof.
    induction l1 as [|a1 l1 IH1]; intros l2 S1 S2.
    - destruct l2; cbn [merge]; assumption.
    - induction l2 as [|a2 l2 IH2].
      + cbn [merge]. assumption.
      + cbn [merge]. inversion S1 as [|? ? S1' F1]; subst. inversion S2 as [|? ? S2' F2]; subst.
        destruct (le a1 a2) eqn:E.
        * constructor; [apply IH1; assumption|].
          eapply Permutation_Forall; [apply Permutation_sym; apply merge_perm|].
          apply Forall_app. split; [assumption|]. constructor; [assumption|].
          eapply Forall_impl; [|exact F2]. intros x Hx. eapply le_trans; eassumption.
        * assert (E' : le a2 a1 = true) by (destruct (le_total a1 a2); congruence).
          constructor; [apply IH2; assumption|].
          change ((fix merge_aux (l2 : list A) : list A :=
                     match l2 with
                     | [] => a1 :: l1
                     | a2 :: l2' => if le a1 a2 then a1 :: merge le l1 l2 else a2 :: merge_aux l2'
                     end) l2) with (merge le (a1 :: l1) l2).
          eapply Permutation_Forall; [apply Permutation_sym; apply merge_perm|].
          apply Forall_app. split; [|assumption]. constructor; [assumption|].
          eapply Forall_impl; [|exact F1]. intros x Hx. eapply le_trans; eassumption.
  Qed.

  Lemma split_alt_perm : forall (l l1 l2 : list A), split_alt l = (l1, l2) -> Permutation l (l1 ++ l2).
  Proof.
    fix IH 1. intros [|a [|b t]] l1 l2 H; cbn [split_alt] in H.
    - inversion H; subst. apply Permutation_refl.
    - inversion H; subst. apply Permutation_refl.
    - destruct (split_alt t) as [t1 t2] eqn:E. inversion H; subst. simpl app.
      apply perm_skip. eapply Permutation_trans; [apply perm_skip; apply (IH t t1 t2 E)|].
      apply Permutation_middle.
  Qed.

  Lemma split_alt_length : forall (l l1 l2 : list A), split_alt l = (l1, l2) ->
    (length l1 <= length l /\ length l2 <= length l /\ (2 <= length l -> length l1 < length l /\ length l2 < length l))%nat.
  Proof.
    fix IH 1. intros [|a [|b t]] l1 l2 H; cbn [split_alt] in H.
    - inversion H; subst. cbn. lia.
    - inversion H; subst. cbn. lia.
    - destruct (split_alt t) as [t1 t2] eqn:E. inversion H; subst.
      pose proof (IH t t1 t2 E). cbn [length]. lia.
  Qed.

  Lemma msort_fuel_ok : forall n l, (length l <= n)%nat -> sorted (msort_fuel le n l) /\ Permutation (msort_fuel le n l) l.
  Proof.
    induction n as [|n IH]; intros l Hl.
    - destruct l; [|cbn in Hl; lia]. cbn. split; [constructor | apply Permutation_refl].
    - destruct l as [|a [|b t]].
      + cbn. split; [constructor | apply Permutation_refl].
      + cbn. split; [repeat constructor | apply Permutation_refl].
      + cbn [msort_fuel]. destruct (split_alt (a :: b :: t)) as [l1 l2] eqn:E.
        pose proof (split_alt_length _ _ _ E) as L. pose proof (split_alt_perm _ _ _ E) as P.
        cbn [length] in L, Hl.
        destruct (IH l1) as [S1 P1]; [lia|]. destruct (IH l2) as [S2 P2]; [lia|].
        split; [apply merge_sorted; assumption|].
        eapply Permutation_trans; [apply merge_perm|].
        eapply Permutation_trans; [apply Permutation_app; eassumption|].
        apply Permutation_sym. exact P.
  Qed.

  Lemma msort_sorted : forall l, sorted (msort le l).
  Proof. intros l. apply msort_fuel_ok. apply Nat.le_refl. Qed.
  Lemma msort_perm : forall l, Permutation (msort le l) l.
  Proof. intros l. apply msort_fuel_ok. apply Nat.le_refl. Qed.

  (* insertion sort too *)
  Lemma insert_sorted_perm : forall a l, Permutation (insert_sorted le a l) (a :: l).
  Proof.
    induction l as [|b l IH]; cbn [insert_sorted]; [apply Permutation_refl|].
    destruct (le a b); [apply Permutation_refl|].
    eapply Permutation_trans; [apply perm_skip; exact IH|]. apply perm_swap.
  Qed.
  Lemma insert_sorted_sorted : forall a l, sorted l -> sorted (insert_sorted le a l).
  Proof.
    induction l as [|b l IH]; intros S; cbn [insert_sorted]; [repeat constructor|].
    inversion S as [|? ? S' F]; subst. destruct (le a b) eqn:E.
    - constructor; [assumption|]. constructor; [assumption|]. eapply Forall_impl; [|exact F]. intros x Hx. eapply le_trans; eassumption.
    - assert (E' : le b a = true) by (destruct (le_total a b); congruence).
      constructor; [apply IH; assumption|].
      eapply Permutation_Forall; [apply Permutation_sym; apply insert_sorted_perm|]. constructor; assumption.
  Qed.
  Lemma isort_ok : forall l, sorted (isort le l) /\ Permutation (isort le l) l.
  Proof.
    induction l as [|a l [S P]]; cbn [isort]; [split; [constructor | apply Permutation_refl]|].
    split; [apply insert_sorted_sorted; assumption|].
    eapply Permutation_trans; [apply insert_sorted_perm|]. apply perm_skip. exact P.
  Qed.

  (* two sorted permutations of one list are equal when le is antisymmetric on its elements *)
  Lemma sorted_perm_unique : forall l1 l2,
    (forall a b, In a l1 -> In b l1 -> le a b = true -> le b a = true -> a = b) ->
    sorted l1 -> sorted l2 -> Permutation l1 l2 -> l1 = l2.
  Proof.
    induction l1 as [|a l1 IH]; intros l2 Anti S1 S2 P.
    - apply Permutation_nil in P. subst. reflexivity.
    - destruct l2 as [|b l2]; [apply Permutation_sym, Permutation_nil in P; discriminate|].
      inversion S1 as [|? ? S1' F1]; subst. inversion S2 as [|? ? S2' F2]; subst.
      assert (a = b) as ->.
      { assert (Ia : In a (b :: l2)) by (eapply Permutation_in; [exact P | left; reflexivity]).
        assert (Ib : In b (a :: l1)) by (eapply Permutation_in; [apply Permutation_sym; exact P | left; reflexivity]).
        destruct Ia as [Ia|Ia]; [congruence|]. destruct Ib as [Ib|Ib]; [congruence|].
        rewrite Forall_forall in F1, F2.
        apply Anti; [left; reflexivity | right; assumption | apply F1; assumption | apply F2; assumption]. }
      f_equal. apply IH; try assumption.
      + intros x y Hx Hy. apply Anti; right; assumption.
      + eapply Permutation_cons_inv; exact P.
  Qed.
End SortProofs.
Arguments sorted {A}.

(* ================================================================== faces and the tie-break: a proper face is before its cofaces *)
Lemma subseq_refl : forall s, subseq s s.
Proof. induction s; constructor; assumption. Qed.

Lemma subseq_nil_l : forall s, subseq [] s.
Proof. induction s; constructor; assumption. Qed.

Lemma subseq_trans : forall a b c, subseq a b -> subseq b c -> subseq a c.
Proof.
  intros a b c H1 H2. revert a H1. induction H2 as [|x t s H IH|x t s H IH]; intros a H1.
  - exact H1.
  - inversion H1; subst; [constructor; apply IH; assumption | apply sub_skip; apply IH; assumption].
  - apply sub_skip. apply IH. exact H1.
Qed.

Lemma subseq_in : forall t s x, subseq t s -> In x t -> In x s.
Proof. intros t s x H. induction H; intros I; [exact I | destruct I; [left; assumption | right; auto] | right; auto]. Qed.

Lemma subseq_length : forall t s, subseq t s -> (length t <= length s)%nat.
Proof. intros t s H. induction H; cbn [length]; lia. Qed.

Lemma subseq_same_length : forall t s, subseq t s -> length t = length s -> t = s.
Proof.
  intros t s H. induction H as [|x t s H IH|x t s H IH]; intros L; [reflexivity | f_equal; apply IH; cbn in L; lia|].
  apply subseq_length in H. cbn in L. lia.
Qed.

Lemma subseq_app : forall a b c d, subseq a b -> subseq c d -> subseq (a ++ c) (b ++ d).
Proof. intros a b c d H. induction H; intros H2; cbn [app]; [exact H2 | constructor; auto | apply sub_skip; auto]. Qed.

Lemma subseq_rev : forall t s, subseq t s -> subseq (rev t) (rev s).
Proof.
  intros t s H. induction H as [|x t s H IH|x t s H IH]; cbn [rev].
  - constructor.
  - apply subseq_app; [exact IH | apply subseq_refl].
  - rewrite <- (app_nil_r (rev t)). apply subseq_app; [exact IH | apply subseq_nil_l].
Qed.

Definition decr (s : list Z) : Prop := StronglySorted Z.gt s.

Lemma incr_rev_decr : forall s, incr s -> decr (rev s).
Proof.
  unfold incr, decr. induction s as [|x s IH]; intros H; cbn [rev]; [constructor|].
  inversion H as [|? ? S F]; subst. specialize (IH S).
  assert (G : forall l, StronglySorted Z.gt l -> Forall (fun y => y > x)%Z l -> StronglySorted Z.gt (l ++ [x])).
  { induction l as [|y l IHl]; intros Sl Fl; cbn [app]; [repeat constructor|].
    inversion Sl; subst. inversion Fl; subst. constructor; [apply IHl; assumption|].
    apply Forall_app. split; [assumption | repeat constructor; assumption]. }
  apply G; [exact IH|]. rewrite Forall_forall in *. intros y Hy. apply in_rev in Hy. specialize (F y Hy). lia.
Qed.

(* on strictly decreasing lists a proper sub-sequence is lexicographically smaller *)
Lemma subseq_lex_dec : forall t s, subseq t s -> decr s -> t <> s -> lex_dec t s = true.
Proof.
  intros t s H. induction H as [|x t s H IH|x t s H IH]; intros D N.
  - congruence.
  - cbn [lex_dec]. rewrite Z.eqb_refl. inversion D; subst. apply IH; [assumption | congruence].
  - destruct t as [|y t]; [reflexivity|]. cbn [lex_dec].
    inversion D as [|? ? D' F]; subst. rewrite Forall_forall in F.
    assert (Iy : In y s) by (eapply subseq_in; [exact H | left; reflexivity]).
    specialize (F y Iy). assert (Z.eqb y x = false) as -> by lia. lia.
Qed.

Lemma face_revlex : forall t s, incr s -> subseq t s -> t <> s -> revlex t s = true.
Proof.
  intros t s I H N. unfold revlex. apply subseq_lex_dec; [apply subseq_rev; exact H | apply incr_rev_decr; exact I|].
  intros E. apply N. rewrite <- (rev_involutive t), <- (rev_involutive s), E. reflexivity.
Qed.

(* ================================================================== lookup / update *)
Section Maps.
  Variable V : Type.

  Lemma lookup_in : forall (K : cplx V) s v, lookup K s = Some v -> In (s, v) K.
  Proof.
    induction K as [|[t w] K IH]; intros s v H; cbn [lookup] in H; [discriminate|].
    destruct (simplex_eqb t s) eqn:E; [apply simplex_eqb_eq in E; inversion H; subst; left; reflexivity | right; auto].
  Qed.

  Lemma in_lookup : forall (K : cplx V) s v, NoDup (map fst K) -> In (s, v) K -> lookup K s = Some v.
  Proof.
    induction K as [|[t w] K IH]; intros s v N I; [destruct I|]. cbn [lookup]. cbn [map fst] in N. inversion N as [|? ? N1 N2]; subst.
    destruct I as [I|I].
    - inversion I; subst. rewrite simplex_eqb_refl. reflexivity.
    - destruct (simplex_eqb t s) eqn:E; [|auto]. apply simplex_eqb_eq in E. subst. exfalso. apply N1.
      apply in_map_iff. exists (s, v). auto.
  Qed.

  Lemma lookup_none : forall (K : cplx V) s, lookup K s = None <-> ~ In s (map fst K).
  Proof.
    induction K as [|[t w] K IH]; intros s; cbn [lookup map fst]; [split; auto|].
    destruct (simplex_eqb t s) eqn:E.
    - apply simplex_eqb_eq in E. subst. split; [discriminate | intros H; exfalso; apply H; left; reflexivity].
    - rewrite IH. split; intros H; [intros [X|X]; [subst; rewrite simplex_eqb_refl in E; discriminate | auto] | intros X; apply H; right; exact X].
  Qed.

  Lemma lookup_some_key : forall (K : cplx V) s, In s (map fst K) -> exists v, lookup K s = Some v.
  Proof.
    intros K s H. destruct (lookup K s) eqn:E; [eauto|]. apply lookup_none in E. contradiction.
  Qed.

  Lemma lookup_key : forall (K : cplx V) s v, lookup K s = Some v -> In s (map fst K).
  Proof. intros K s v H. apply lookup_in in H. apply in_map_iff. exists (s, v). auto. Qed.

  Lemma update_keys : forall (K : cplx V) s v, map fst (update K s v) = map fst K.
  Proof.
    induction K as [|[t w] K IH]; intros s v; cbn [update map fst]; [reflexivity|].
    destruct (simplex_eqb t s); cbn [map fst]; [reflexivity | rewrite IH; reflexivity].
  Qed.

  Lemma lookup_update_same : forall (K : cplx V) s v, In s (map fst K) -> lookup (update K s v) s = Some v.
  Proof.
    induction K as [|[t w] K IH]; intros s v H; [destruct H|]. cbn [update].
    destruct (simplex_eqb t s) eqn:E; cbn [lookup]; rewrite E; [reflexivity|].
    apply IH. destruct H as [H|H]; [cbn in H; subst; rewrite simplex_eqb_refl in E; discriminate | exact H].
  Qed.

  Lemma lookup_update_other : forall (K : cplx V) s v t, t <> s -> lookup (update K s v) t = lookup K t.
  Proof.
    induction K as [|[u w] K IH]; intros s v t N; cbn [update]; [reflexivity|].
    destruct (simplex_eqb u s) eqn:E; cbn [lookup].
    - apply simplex_eqb_eq in E. subst. rewrite (simplex_eqb_neq s t); [reflexivity | congruence].
    - destruct (simplex_eqb u t); [reflexivity | apply IH; exact N].
  Qed.
End Maps.
Arguments lookup_in {V}. Arguments in_lookup {V}. Arguments lookup_none {V}. Arguments lookup_some_key {V}.
Arguments lookup_key {V}. Arguments update_keys {V}. Arguments lookup_update_same {V}. Arguments lookup_update_other {V}.

(* ================================================================== the filtration range *)
Section Range.
  Variable V : Type.
  Variable vlt : V -> V -> bool.
  Variable vinf : V.
  Hypothesis SW : StrictWeak vlt.

  Definition kept (ign : bool) (K : cplx V) : cplx V := filter (fun p => negb (ign && veq vlt (snd p) vinf)) K.
  (* a sorting routine: whatever it does (sequential, parallel, any schedule), it returns a sorted permutation *)
  Definition sorts (sort : list (simplex * V) -> list (simplex * V)) : Prop :=
    forall l, sorted (fle vlt) (sort l) /\ Permutation (sort l) l.

  Lemma msort_sorts : sorts (msort (fle vlt)).
  Proof.
    intros l. split; [apply msort_sorted | apply msort_perm]; try apply (fle_total V vlt SW); apply (fle_trans V vlt SW).
  Qed.
  Lemma isort_sorts : sorts (isort (fle vlt)).
  Proof. intros l. apply isort_ok; [apply (fle_total V vlt SW) | apply (fle_trans V vlt SW)]. Qed.

  Lemma nodup_keys_filter : forall (K : cplx V) p, NoDup (map fst K) -> NoDup (map fst (filter p K)).
  Proof.
    induction K as [|a K IH]; intros p N; cbn [filter map]; [constructor|]. cbn [map] in N. inversion N as [|? ? N1 N2]; subst.
    destruct (p a); [|auto]. cbn [map]. constructor; [|auto].
    intros H. apply N1. apply in_map_iff in H. destruct H as (b & E & I). apply filter_In in I. apply in_map_iff. exists b. tauto.
  Qed.

  Lemma nodup_keys_eq : forall (l : cplx V) a b, NoDup (map fst l) -> In a l -> In b l -> fst a = fst b -> a = b.
  Proof.
    induction l as [|c l IH]; intros a b N Ia Ib E; [destruct Ia|]. cbn [map] in N. inversion N as [|? ? N1 N2]; subst.
    destruct Ia as [Ia|Ia]; destruct Ib as [Ib|Ib]; subst.
    - reflexivity.
    - exfalso. apply N1. rewrite E. apply in_map. exact Ib.
    - exfalso. apply N1. rewrite <- E. apply in_map. exact Ia.
    - apply IH; assumption.
  Qed.

  (* DETERMINISM: the range is a function of the finite map alone.  Two complexes with the same (simplex,value) pairs in any
     storage/insertion order, sorted by any two routines that sort, give the same list. *)
  Theorem range_deterministic : forall sort1 sort2 ign (K1 K2 : cplx V),
    sorts sort1 -> sorts sort2 -> NoDup (map fst K1) -> Permutation K1 K2 ->
    initialize_filtration_with vlt vinf sort1 ign K1 = initialize_filtration_with vlt vinf sort2 ign K2.
  Proof.
    intros sort1 sort2 ign K1 K2 S1 S2 N P. unfold initialize_filtration_with. f_equal.
    set (p := fun p : simplex * V => negb (ign && veq vlt (snd p) vinf)).
    destruct (S1 (filter p K1)) as [A1 B1]. destruct (S2 (filter p K2)) as [A2 B2].
    assert (PF : Permutation (filter p K1) (filter p K2)).
    { clear - P. induction P; cbn [filter].
      - constructor.
      - destruct (p x); [apply perm_skip|]; assumption.
      - destruct (p x); destruct (p y); try apply perm_swap; apply Permutation_refl.
      - eapply Permutation_trans; eassumption. }
    apply (sorted_perm_unique _ (fle vlt)); try assumption.
    - intros a b Ia Ib L1 L2.
      assert (E : fst a = fst b) by (eapply fle_antisym_keys; eassumption).
      apply (nodup_keys_eq (filter p K1)); [apply nodup_keys_filter; exact N | | | exact E];
        eapply Permutation_in; try apply B1; assumption.
    - eapply Permutation_trans; [exact B1|]. eapply Permutation_trans; [exact PF|]. apply Permutation_sym. exact B2.
  Qed.

  (* every non-ignored simplex exactly once *)
  Theorem range_lists_each_once : forall sort ign (K : cplx V), sorts sort -> NoDup (map fst K) ->
    Permutation (initialize_filtration_with vlt vinf sort ign K) (map fst (kept ign K)) /\
    NoDup (initialize_filtration_with vlt vinf sort ign K).
  Proof.
    intros sort ign K S N. unfold initialize_filtration_with, kept.
    destruct (S (filter (fun p => negb (ign && veq vlt (snd p) vinf)) K)) as [A B].
    assert (P : Permutation (map fst (sort (filter (fun p => negb (ign && veq vlt (snd p) vinf)) K)))
                            (map fst (filter (fun p => negb (ign && veq vlt (snd p) vinf)) K))) by (apply Permutation_map; exact B).
    split; [exact P|]. eapply Permutation_NoDup; [apply Permutation_sym; exact P|]. apply nodup_keys_filter. exact N.
  Qed.

  Lemma kept_all : forall K, kept false K = K.
  Proof. intros K. unfold kept. cbn [andb negb]. induction K as [|a K IH]; cbn [filter]; [reflexivity | rewrite IH; reflexivity]. Qed.

  (* values never decrease along the range *)
  Theorem range_non_decreasing : forall sort (l : cplx V), sorts sort ->
    StronglySorted (fun a b => vlt (snd b) (snd a) = false) (sort l).
  Proof.
    intros sort l S. destruct (S l) as [A _]. unfold sorted in A.
    induction A as [|a m A IH F]; constructor; [exact IH|].
    eapply Forall_impl; [|exact F]. intros b Hb. unfold fle in Hb. apply negb_true_iff in Hb.
    destruct (vlt (snd b) (snd a)) eqn:E; [|reflexivity].
    assert (X : is_before vlt b a = true) by (apply (is_before_cases V vlt); left; exact E). congruence.
  Qed.

  (* faces first: in a monotone filtration no simplex comes before one of its proper faces *)
  Theorem range_faces_first : forall sort (K : cplx V), sorts sort -> wf K -> monotone vlt K ->
    forall l1 a l2 b, sort K = l1 ++ a :: l2 -> In b l2 -> ~ (subseq (fst b) (fst a) /\ fst b <> fst a).
  Proof.
    intros sort K S [N W] M l1 a l2 b E Ib [Hs Hn]. destruct (S K) as [A P].
    assert (Ia' : In a K) by (eapply Permutation_in; [exact P | rewrite E; apply in_or_app; right; left; reflexivity]).
    assert (Ib' : In b K) by (eapply Permutation_in; [exact P | rewrite E; apply in_or_app; right; right; exact Ib]).
    unfold sorted in A. rewrite E in A.
    assert (L : fle vlt a b = true).
    { clear - A Ib. induction l1 as [|c l1 IH]; cbn [app] in A; inversion A as [|? ? A' F]; subst; [|auto].
      rewrite Forall_forall in F. apply F. exact Ib. }
    unfold fle in L. apply negb_true_iff in L.
    assert (X : is_before vlt b a = true).
    { apply (is_before_cases V vlt). destruct a as [sa va], b as [sb vb]. cbn [fst snd] in *.
      assert (Mab : vlt va vb = false) by (eapply M; [apply in_lookup; eassumption | apply in_lookup; eassumption | exact Hs]).
      destruct (vlt vb va) eqn:Eb; [left; reflexivity | right]. repeat split; try assumption.
      apply face_revlex; [|exact Hs | exact Hn]. apply W. apply in_map_iff. exists (sa, va). auto. }
    congruence.
  Qed.
End Range.

(* ================================================================== make_filtration_non_decreasing *)
Lemma facets_subseq : forall s b, In b (facets s) -> subseq b s.
Proof.
  induction s as [|x t IH]; intros b H; cbn [facets] in H; [destruct H|].
  destruct H as [H|H]; [subst; apply sub_skip; apply subseq_refl|].
  apply in_map_iff in H. destruct H as (b' & E & I). subst. apply sub_cons. apply IH. exact I.
Qed.

Lemma facets_length : forall s b, In b (facets s) -> S (length b) = length s.
Proof.
  induction s as [|x t IH]; intros b H; cbn [facets] in H; [destruct H|].
  destruct H as [H|H]; [subst; reflexivity|].
  apply in_map_iff in H. destruct H as (b' & E & I). subst. cbn [length]. f_equal. apply IH. exact I.
Qed.

Lemma subseq_facet : forall t s, subseq t s -> t <> s -> exists b, In b (facets s) /\ subseq t b.
Proof.
  intros t s H. induction H as [|x t s H IH|x t s H IH]; intros N.
  - congruence.
  - destruct IH as (b & Ib & Sb); [congruence|]. exists (x :: b). split; [|apply sub_cons; exact Sb].
    cbn [facets]. right. apply in_map. exact Ib.
  - exists s. split; [cbn [facets]; left; reflexivity | exact H].
Qed.

Lemma subseq_singleton : forall t x, subseq t [x] -> t <> [] -> t = [x].
Proof.
  intros t x H N. inversion H as [|? ? ? H'|? ? ? H']; subst.
  - inversion H'; subst. reflexivity.
  - inversion H'; subst. congruence.
Qed.

(* a facet is visited before the simplex by rec_for_each_simplex *)
Lemma facet_dfs_lt : forall s b, incr s -> In b (facets s) -> dfs_lt b s = true.
Proof.
  induction s as [|x t IH]; intros b I H; cbn [facets] in H; [destruct H|].
  unfold incr in I. inversion I as [|? ? I' F]; subst.
  destruct H as [H|H].
  - subst. destruct b as [|y b]; [reflexivity|]. cbn [dfs_lt].
    rewrite Forall_forall in F. specialize (F y (or_introl eq_refl)).
    assert (Z.eqb y x = false) as -> by lia. lia.
  - apply in_map_iff in H. destruct H as (b' & E & Ib). subst. cbn [dfs_lt]. rewrite Z.eqb_refl. apply IH; assumption.
Qed.

Section Mfnd.
  Variable V : Type.
  Variable vlt : V -> V -> bool.
  Hypothesis SW : StrictWeak vlt.

  Let irr := sw_irrefl vlt SW.
  Let tra := sw_trans vlt SW.
  Let ntr := sw_negtrans vlt SW.

  Definition relax_f (K : cplx V) (cm : V * bool) (b : simplex) : V * bool :=
    match lookup K b with
    | Some fb => if vlt (fst cm) fb then (fb, true) else cm
    | None => cm
    end.

  Lemma relax_unfold : forall K s cur, relax vlt K s cur = fold_left (relax_f K) (facets s) (cur, false).
  Proof. reflexivity. Qed.

  Lemma relax_fold : forall K bs c0 m0,
    (fst (fold_left (relax_f K) bs (c0, m0)) = c0 \/ exists b, In b bs /\ lookup K b = Some (fst (fold_left (relax_f K) bs (c0, m0)))) /\
    vlt (fst (fold_left (relax_f K) bs (c0, m0))) c0 = false /\
    (forall b w, In b bs -> lookup K b = Some w -> vlt (fst (fold_left (relax_f K) bs (c0, m0))) w = false) /\
    (snd (fold_left (relax_f K) bs (c0, m0)) = true <-> m0 = true \/ vlt c0 (fst (fold_left (relax_f K) bs (c0, m0))) = true).
  Proof.
    intros K. induction bs as [|b bs IH]; intros c0 m0.
    - cbn [fold_left fst snd]. repeat split; auto.
      + intros b w [].
      + intros [H|H]; [exact H | rewrite irr in H; discriminate].
    - cbn [fold_left].
      assert (ST : exists c1 m1, relax_f K (c0, m0) b = (c1, m1) /\
                   ((c1 = c0 /\ m1 = m0 /\ forall w, lookup K b = Some w -> vlt c0 w = false) \/
                    (lookup K b = Some c1 /\ m1 = true /\ vlt c0 c1 = true))).
      { unfold relax_f. cbn [fst]. destruct (lookup K b) as [fb|] eqn:L.
        - destruct (vlt c0 fb) eqn:E.
          + exists fb, true. split; [reflexivity|]. right. auto.
          + exists c0, m0. split; [reflexivity|]. left. repeat split; auto. intros w Hw. inversion Hw; subst. exact E.
        - exists c0, m0. split; [reflexivity|]. left. repeat split; auto. intros w Hw. discriminate. }
      destruct ST as (c1 & m1 & E1 & ST). rewrite E1. destruct (IH c1 m1) as (A1 & A2 & A3 & A4).
      set (r := fold_left (relax_f K) bs (c1, m1)) in *.
      destruct ST as [(Ec & Em & Hb)|(Lb & Em & Hlt)].
      + subst c1 m1. repeat split.
        * destruct A1 as [A1|(b' & Ib & Lb')]; [left; exact A1 | right; exists b'; split; [right; exact Ib | exact Lb']].
        * exact A2.
        * intros b' w [Ib|Ib] Lw; [subst b'; eapply ntr; [exact A2 | apply Hb; exact Lw] | eapply A3; eassumption].
        * apply A4.
        * apply A4.
      + subst m1.
        assert (G : vlt c0 (fst r) = true) by (eapply (vlt_lt_le V vlt SW); eassumption).
        repeat split.
        * right. destruct A1 as [A1|(b' & Ib & Lb')]; [exists b; split; [left; reflexivity | rewrite A1; exact Lb] | exists b'; split; [right; exact Ib | exact Lb']].
        * eapply ntr; [exact A2|]. apply (vlt_asym V vlt SW). exact Hlt.
        * intros b' w [Ib|Ib] Lw; [subst b'; rewrite Lb in Lw; inversion Lw; subst; exact A2 | eapply A3; eassumption].
        * intros _. right. exact G.
        * intros _. apply A4. left. reflexivity.
  Qed.

  Variable K0 : cplx V.
  Hypothesis WF : wf K0.
  Hypothesis CL : closed K0.

  Definition inv (done : list simplex) (st : cplx V * bool) : Prop :=
    map fst (fst st) = map fst K0 /\
    (forall s, In s done -> In s (map fst K0) -> exists v, lookup (fst st) s = Some v /\ is_sup vlt K0 s v) /\
    (forall s, ~ In s done -> lookup (fst st) s = lookup K0 s) /\
    (snd st = true <-> exists s v0 v, In s done /\ lookup K0 s = Some v0 /\ lookup (fst st) s = Some v /\ vlt v0 v = true).

  Lemma inv_step : forall done st s, inv done st -> ~ In s done -> In s (map fst K0) ->
    (forall b, In b (facets s) -> b <> [] -> In b done) ->
    inv (done ++ [s]) (mfnd_step vlt st s).
  Proof.
    intros done [K m] s (I1 & I2 & I3 & I4) Nd Ks Fd. cbn [fst snd] in *.
    destruct (lookup_some_key K0 s Ks) as [cur Lcur].
    assert (LK : lookup K s = Some cur) by (rewrite I3; assumption).
    destruct s as [|x [|y t]].
    - exfalso. destruct WF as [_ W]. destruct (W [] Ks) as [X _]. congruence.
    - (* a vertex: nothing is done *)
      cbn [mfnd_step]. unfold inv. cbn [fst snd]. repeat split.
      + exact I1.
      + intros s Hs Hk. apply in_app_or in Hs. destruct Hs as [Hs|[Hs|[]]]; [apply I2; assumption|]. subst s.
        exists cur. split; [exact LK|]. split.
        * exists [x]. repeat split; [apply subseq_refl | discriminate | exact Lcur].
        * intros t w St Nt Lt. apply subseq_singleton in St; [|exact Nt]. subst t. rewrite Lcur in Lt. inversion Lt; subst. apply irr.
      + intros s Hs. apply I3. intros X. apply Hs. apply in_or_app. left. exact X.
      + intros Hm. apply I4 in Hm. destruct Hm as (s & v0 & v & Hs & R). exists s, v0, v. split; [apply in_or_app; left; exact Hs | exact R].
      + intros (s & v0 & v & Hs & L0 & L1 & Hlt). apply in_app_or in Hs. destruct Hs as [Hs|[Hs|[]]].
        * apply I4. exists s, v0, v. auto.
        * subst s. rewrite Lcur in L0. rewrite LK in L1. inversion L0; inversion L1; subst. rewrite irr in Hlt. discriminate.
    - (* dimension >= 1 *)
      set (s := x :: y :: t) in *.
      assert (STEP : mfnd_step vlt (K, m) s = (update K s (fst (relax vlt K s cur)), m || snd (relax vlt K s cur))).
      { unfold s. cbn [mfnd_step fst snd]. fold s. rewrite LK. reflexivity. }
      rewrite STEP. clear STEP. rewrite relax_unfold.
      destruct (relax_fold K (facets s) cur false) as (R1 & R2 & R3 & R4).
      set (r := fold_left (relax_f K) (facets s) (cur, false)) in *.
      assert (Ks' : In s (map fst K)) by (rewrite I1; exact Ks).
      (* the facets are finished *)
      assert (FB : forall b, In b (facets s) -> exists vb, lookup K b = Some vb /\ is_sup vlt K0 b vb).
      { intros b Hb. assert (Nb : b <> []). { apply facets_length in Hb. unfold s in Hb. cbn [length] in Hb. destruct b; [discriminate | discriminate]. }
        apply I2; [apply Fd; assumption|]. eapply CL; [exact Ks | apply facets_subseq; exact Hb | exact Nb]. }
      assert (SUP : is_sup vlt K0 s (fst r)).
      { split.
        - destruct R1 as [R1|(b & Hb & Lb)].
          + exists s. rewrite R1. repeat split; [apply subseq_refl | discriminate | exact Lcur].
          + destruct (FB b Hb) as (vb & Lvb & (t' & St & Nt & Lt) & _). rewrite Lb in Lvb. inversion Lvb; subst vb.
            exists t'. repeat split; [eapply subseq_trans; [exact St | apply facets_subseq; exact Hb] | exact Nt | exact Lt].
        - intros t' w St Nt Lt. destruct (simplex_eq_dec t' s) as [E|N].
          + subst t'. rewrite Lcur in Lt. inversion Lt; subst. exact R2.
          + destruct (subseq_facet _ _ St N) as (b & Hb & Sb). destruct (FB b Hb) as (vb & Lvb & _ & UB).
            eapply ntr; [eapply R3; eassumption | eapply UB; eassumption]. }
      unfold inv. cbn [fst snd]. repeat split.
      + rewrite update_keys. exact I1.
      + intros s' Hs Hk. apply in_app_or in Hs. destruct Hs as [Hs|[Hs|[]]].
        * rewrite lookup_update_other; [apply I2; assumption | intros E; subst; contradiction].
        * subst s'. exists (fst r). split; [apply lookup_update_same; exact Ks' | exact SUP].
      + intros s' Hs. rewrite lookup_update_other; [apply I3; intros X; apply Hs; apply in_or_app; left; exact X|].
        intros E. apply Hs. apply in_or_app. right. left. auto.
      + intros Hm. apply orb_true_iff in Hm. destruct Hm as [Hm|Hm].
        * apply I4 in Hm. destruct Hm as (s' & v0 & v & Hs & L0 & L1 & Hlt). exists s', v0, v.
          split; [apply in_or_app; left; exact Hs|]. split; [exact L0|]. split; [|exact Hlt].
          rewrite lookup_update_other; [exact L1 | intros E; subst; contradiction].
        * apply R4 in Hm. destruct Hm as [Hm|Hm]; [discriminate|]. exists s, cur, (fst r).
          split; [apply in_or_app; right; left; reflexivity|]. split; [exact Lcur|]. split; [apply lookup_update_same; exact Ks' | exact Hm].
      + intros (s' & v0 & v & Hs & L0 & L1 & Hlt). apply orb_true_iff. apply in_app_or in Hs. destruct Hs as [Hs|[Hs|[]]].
        * left. apply I4. exists s', v0, v. rewrite lookup_update_other in L1; [auto | intros E; subst; contradiction].
        * subst s'. right. apply R4. right. rewrite Lcur in L0. inversion L0; subst v0.
          rewrite lookup_update_same in L1; [|exact Ks']. inversion L1; subst v. exact Hlt.
  Qed.

  Lemma mfnd_fold : forall todo done st, inv done st -> NoDup (done ++ todo) -> (forall s, In s todo -> In s (map fst K0)) ->
    (forall l1 s l2, todo = l1 ++ s :: l2 -> forall b, In b (facets s) -> b <> [] -> In b (done ++ l1)) ->
    inv (done ++ todo) (fold_left (mfnd_step vlt) todo st).
  Proof.
    induction todo as [|s todo IH]; intros done st I N Kt Ff.
    - rewrite app_nil_r. exact I.
    - cbn [fold_left]. replace (done ++ s :: todo) with ((done ++ [s]) ++ todo) by (rewrite <- app_assoc; reflexivity).
      apply IH.
      + apply inv_step; [exact I | | apply Kt; left; reflexivity|].
        * apply NoDup_remove_2 in N. intros X. apply N. apply in_or_app. left. exact X.
        * intros b Hb Nb. specialize (Ff [] s todo eq_refl b Hb Nb). rewrite app_nil_r in Ff. exact Ff.
      + rewrite <- app_assoc. exact N.
      + intros s' Hs. apply Kt. right. exact Hs.
      + intros l1 s' l2 E b Hb Nb. rewrite <- app_assoc. cbn [app].
        apply (Ff (s :: l1) s' l2); [rewrite E; reflexivity | exact Hb | exact Nb].
  Qed.

  (* any visiting order that lists the simplices once, facets first, computes the face-wise maximum *)
  Theorem mfnd_over_spec : forall order, Permutation order (map fst K0) ->
    (forall l1 s l2, order = l1 ++ s :: l2 -> forall b, In b (facets s) -> b <> [] -> In b l1) ->
    inv (map fst K0) (mfnd_over vlt order K0) /\ inv order (mfnd_over vlt order K0).
  Proof.
    intros order P Ff.
    assert (I : inv order (mfnd_over vlt order K0)).
    { unfold mfnd_over. apply (mfnd_fold order [] (K0, false)).
      - unfold inv. cbn [fst snd]. repeat split; auto.
        + intros s [].
        + discriminate.
        + intros (s & _ & _ & [] & _).
      - cbn [app]. eapply Permutation_NoDup; [apply Permutation_sym; exact P | apply WF].
      - intros s Hs. eapply Permutation_in; eassumption.
      - intros l1 s l2 E b Hb Nb. cbn [app]. eapply Ff; eassumption. }
    split; [|exact I].
    destruct I as (I1 & I2 & I3 & I4). unfold inv. repeat split.
    - exact I1.
    - intros s Hs Hk. apply I2; [eapply Permutation_in; [apply Permutation_sym; exact P | exact Hs] | exact Hk].
    - intros s Hs. apply I3. intros X. apply Hs. eapply Permutation_in; eassumption.
    - intros Hm. apply I4 in Hm. destruct Hm as (s & v0 & v & Hs & R). exists s, v0, v. split; [eapply Permutation_in; eassumption | exact R].
    - intros (s & v0 & v & Hs & R). apply I4. exists s, v0, v. split; [eapply Permutation_in; [apply Permutation_sym; exact P | exact Hs] | exact R].
  Qed.

  (* the order of rec_for_each_simplex lists the simplices once, facets first *)
  Lemma traversal_perm : Permutation (traversal K0) (map fst K0).
  Proof. unfold traversal. apply msort_perm; [apply dfs_le_total | apply dfs_le_trans]. Qed.

  Lemma traversal_facets_first : forall l1 s l2, traversal K0 = l1 ++ s :: l2 -> forall b, In b (facets s) -> b <> [] -> In b l1.
  Proof.
    intros l1 s l2 E b Hb Nb.
    assert (Ks : In s (map fst K0)) by (eapply Permutation_in; [apply traversal_perm | rewrite E; apply in_or_app; right; left; reflexivity]).
    assert (Kb : In b (map fst K0)) by (eapply CL; [exact Ks | apply facets_subseq; exact Hb | exact Nb]).
    assert (Ib : In b (traversal K0)) by (eapply Permutation_in; [apply Permutation_sym; apply traversal_perm | exact Kb]).
    rewrite E in Ib. apply in_app_or in Ib. destruct Ib as [Ib|[Ib|Ib]]; [exact Ib | |].
    - exfalso. subst b. apply facets_length in Hb. lia.
    - exfalso.
      assert (S : sorted dfs_le (traversal K0)) by (unfold traversal; apply msort_sorted; [apply dfs_le_total | apply dfs_le_trans]).
      unfold sorted in S. rewrite E in S.
      assert (L : dfs_le s b = true).
      { clear - S Ib. induction l1 as [|c l1 IH]; cbn [app] in S; inversion S as [|? ? S' F]; subst; [|auto].
        rewrite Forall_forall in F. apply F. exact Ib. }
      unfold dfs_le in L. apply negb_true_iff in L.
      rewrite facet_dfs_lt in L; [discriminate | apply WF; exact Ks | exact Hb].
  Qed.

  Theorem mfnd_inv : inv (map fst K0) (make_filtration_non_decreasing vlt K0).
  Proof. unfold make_filtration_non_decreasing. apply mfnd_over_spec; [apply traversal_perm | apply traversal_facets_first]. Qed.
End Mfnd.

(* the statement shared with C03_Ext.v *)
Theorem mfnd_spec : mfnd_spec_statement.
Proof.
  intros V vlt SW K0 WF CL. destruct (mfnd_inv V vlt SW K0 WF CL) as (I1 & I2 & _ & _).
  split; [exact I1|]. intros s Hs. apply I2; exact Hs.
Qed.

Section MfndCorollaries.
  Variable V : Type.
  Variable vlt : V -> V -> bool.
  Hypothesis SW : StrictWeak vlt.
  Variable K0 : cplx V.
  Hypothesis WF : wf K0.
  Hypothesis CL : closed K0.
  Let R := fst (make_filtration_non_decreasing vlt K0).

  Lemma mfnd_value : forall s, In s (map fst K0) -> exists v, lookup R s = Some v /\ is_sup vlt K0 s v.
  Proof. intros s Hs. destruct (mfnd_spec V vlt SW K0 WF CL) as [_ H]. apply H. exact Hs. Qed.

  (* same simplices *)
  Theorem mfnd_same_simplices : map fst R = map fst K0.
  Proof. destruct (mfnd_spec V vlt SW K0 WF CL) as [H _]. exact H. Qed.

  (* above the input *)
  Theorem mfnd_above_input : forall s v0 v, lookup K0 s = Some v0 -> lookup R s = Some v -> vlt v v0 = false.
  Proof.
    intros s v0 v L0 L1. destruct (mfnd_value s (lookup_key K0 s v0 L0)) as (v' & L1' & _ & UB).
    rewrite L1 in L1'. inversion L1'; subst v'. apply (UB s v0); [apply subseq_refl | | exact L0].
    destruct WF as [_ W]. apply W. eapply lookup_key; exact L0.
  Qed.

  (* monotone *)
  Theorem mfnd_monotone : monotone vlt R.
  Proof.
    intros s t vs vt Ls Lt St.
    assert (Ks : In s (map fst K0)) by (rewrite <- mfnd_same_simplices; eapply lookup_key; exact Ls).
    assert (Kt : In t (map fst K0)) by (rewrite <- mfnd_same_simplices; eapply lookup_key; exact Lt).
    destruct (mfnd_value s Ks) as (vs' & Ls' & _ & UBs). destruct (mfnd_value t Kt) as (vt' & Lt' & (u & Su & Nu & Lu) & _).
    fold R in Ls', Lt'. rewrite Ls in Ls'. rewrite Lt in Lt'. inversion Ls'; inversion Lt'; subst vs' vt'.
    apply (UBs u vt); [eapply subseq_trans; eassumption | exact Nu | exact Lu].
  Qed.

  (* least: every monotone assignment g on the same simplices that is above the input is above the result *)
  Theorem mfnd_least : forall G : cplx V, monotone vlt G ->
    (forall s v0, lookup K0 s = Some v0 -> exists g, lookup G s = Some g /\ vlt g v0 = false) ->
    forall s v g, lookup R s = Some v -> lookup G s = Some g -> vlt g v = false.
  Proof.
    intros G MG AB s v g Ls Lg.
    assert (Ks : In s (map fst K0)) by (rewrite <- mfnd_same_simplices; eapply lookup_key; exact Ls).
    destruct (mfnd_value s Ks) as (v' & Ls' & (u & Su & Nu & Lu) & _). fold R in Ls'. rewrite Ls in Ls'. inversion Ls'; subst v'.
    destruct (AB u v Lu) as (gu & Lgu & Hgu).
    eapply (sw_negtrans vlt SW); [eapply MG; [exact Lg | exact Lgu | exact Su] | exact Hgu].
  Qed.

  (* the returned flag: true exactly when some value changed (values only grow) *)
  Theorem mfnd_flag : snd (make_filtration_non_decreasing vlt K0) = true <->
    exists s v0 v, lookup K0 s = Some v0 /\ lookup R s = Some v /\ vlt v0 v = true.
  Proof.
    destruct (mfnd_inv V vlt SW K0 WF CL) as (_ & _ & _ & I4). fold R in I4. rewrite I4. split.
    - intros (s & v0 & v & _ & H). exists s, v0, v. exact H.
    - intros (s & v0 & v & L0 & H). exists s, v0, v. split; [eapply lookup_key; exact L0 | auto].
  Qed.

  (* idempotent flag: on a monotone input nothing changes *)
  Theorem mfnd_flag_false_on_monotone : monotone vlt K0 -> snd (make_filtration_non_decreasing vlt K0) = false.
  Proof.
    intros M. destruct (snd (make_filtration_non_decreasing vlt K0)) eqn:E; [|reflexivity]. exfalso.
    apply mfnd_flag in E. destruct E as (s & v0 & v & L0 & L1 & Hlt).
    destruct (mfnd_value s (lookup_key K0 s v0 L0)) as (v' & L1' & (u & Su & Nu & Lu) & _). fold R in L1'. rewrite L1 in L1'. inversion L1'; subst v'.
    rewrite (M s u v0 v L0 Lu Su) in Hlt. discriminate.
  Qed.
End MfndCorollaries.

(* ================================================================== prune_above_filtration *)
Lemma prefixes_self : forall s, s <> [] -> In s (prefixes s).
Proof.
  induction s as [|x t IH]; intros N; [congruence|]. cbn [prefixes]. destruct t as [|y t'].
  - left. reflexivity.
  - right. apply in_map. apply IH. discriminate.
Qed.

Lemma prefixes_subseq : forall s p, In p (prefixes s) -> subseq p s /\ p <> [].
Proof.
  induction s as [|x t IH]; intros p H; cbn [prefixes] in H; [destruct H|].
  destruct H as [H|H].
  - subst. split; [apply sub_cons; apply subseq_nil_l | discriminate].
  - apply in_map_iff in H. destruct H as (q & E & I). subst. split; [apply sub_cons; apply IH; exact I | discriminate].
Qed.

Section Prune.
  Variable V : Type.
  Variable vlt : V -> V -> bool.
  Variable vinf : V.
  Hypothesis SW : StrictWeak vlt.

  (* for a filtered simplicial complex with a monotone filtration, pruning keeps exactly the sublevel set *)
  Theorem prune_sublevel : forall (K : cplx V) f, wf K -> closed K -> monotone vlt K ->
    (forall s v, In (s, v) K -> vlt vinf v = false) ->
    forall s v, In (s, v) (fst (prune_above_filtration vlt vinf K f)) <-> In (s, v) K /\ vlt f v = false.
  Proof.
    intros K f WF CL M TOP s v. unfold prune_above_filtration.
    destruct (veq vlt f vinf) eqn:EI; cbn [fst].
    - apply (veq_true V vlt) in EI. destruct EI as [E1 E2]. split; [|tauto]. intros H. split; [exact H|].
      eapply (sw_negtrans vlt SW); [exact E1 | eapply TOP; exact H].
    - rewrite filter_In. cbn [fst]. split; intros [H1 H2]; (split; [exact H1|]).
      + apply negb_true_iff in H2. destruct (vlt f v) eqn:E; [|reflexivity]. exfalso.
        assert (X : pruned vlt K f s = true).
        { unfold pruned. apply existsb_exists. exists s. split.
          - apply prefixes_self. apply WF. apply in_map_iff. exists (s, v). auto.
          - rewrite (in_lookup K s v); [exact E | apply WF | exact H1]. }
        congruence.
      + apply negb_true_iff. destruct (pruned vlt K f s) eqn:E; [|reflexivity]. exfalso.
        unfold pruned in E. apply existsb_exists in E. destruct E as (p & Ip & Hp).
        destruct (lookup K p) as [w|] eqn:Lp; [|discriminate].
        apply prefixes_subseq in Ip. destruct Ip as [Sp Np].
        assert (Mw : vlt v w = false) by (eapply M; [apply in_lookup; [apply WF | exact H1] | exact Lp | exact Sp]).
        rewrite (vlt_lt_le V vlt SW f w v Hp Mw) in H2. discriminate.
  Qed.

  Lemma filter_length_le' : forall (A : Type) (p : A -> bool) (l : list A), (length (filter p l) <= length l)%nat.
  Proof. intros A p. induction l as [|a l IH]; cbn [filter]; [apply Nat.le_refl|]. destruct (p a); cbn [length]; lia. Qed.

  Lemma filter_length_eq : forall (A : Type) (p : A -> bool) (l : list A), length (filter p l) = length l -> filter p l = l.
  Proof.
    intros A p. induction l as [|a l IH]; cbn [filter]; [reflexivity|]. destruct (p a); cbn [length]; intros H.
    - f_equal. apply IH. lia.
    - exfalso. pose proof (filter_length_le' A p l). lia.
  Qed.

  Lemma filter_neq_exists : forall (A : Type) (p : A -> bool) (l : list A), filter p l <> l -> exists a, In a l /\ p a = false.
  Proof.
    intros A p. induction l as [|a l IH]; intros NE; [exfalso; apply NE; reflexivity|]. cbn [filter] in NE. destruct (p a) eqn:Ea.
    - destruct IH as (b & Ib & Hb); [intros X; apply NE; rewrite X; reflexivity|]. exists b. split; [right; exact Ib | exact Hb].
    - exists a. split; [left; reflexivity | exact Ea].
  Qed.

  (* the returned flag is true exactly when a simplex was removed *)
  Theorem prune_flag : forall (K : cplx V) f,
    snd (prune_above_filtration vlt vinf K f) = false <-> fst (prune_above_filtration vlt vinf K f) = K.
  Proof.
    intros K f. unfold prune_above_filtration. destruct (veq vlt f vinf); cbn [fst snd]; [tauto|].
    rewrite negb_false_iff, Nat.eqb_eq. split; [apply filter_length_eq | intros E; rewrite E; reflexivity].
  Qed.

  Theorem prune_flag_sublevel : forall (K : cplx V) f, wf K -> closed K -> monotone vlt K ->
    (forall s v, In (s, v) K -> vlt vinf v = false) ->
    (snd (prune_above_filtration vlt vinf K f) = true <-> exists s v, In (s, v) K /\ vlt f v = true).
  Proof.
    intros K f WF CL M TOP. split.
    - intros H. destruct (prune_above_filtration vlt vinf K f) as [K' b] eqn:E. cbn [snd] in H. subst b.
      assert (NE : K' <> K). { intros X. pose proof (prune_flag K f) as P. rewrite E in P. cbn [fst snd] in P. apply P in X. discriminate. }
      (* some element of K is not in K' *)
      assert (Sub : forall a, In a K' -> In a K).
      { intros [s v] Ia. pose proof (prune_sublevel K f WF CL M TOP s v) as P. rewrite E in P. cbn [fst] in P. apply P. exact Ia. }
      assert (FI : K' = filter (fun p => negb (pruned vlt K f (fst p))) K \/ K' = K).
      { unfold prune_above_filtration in E. destruct (veq vlt f vinf); inversion E; auto. }
      destruct FI as [FI|FI]; [|contradiction].
      assert (EX : exists a, In a K /\ (fun p : simplex * V => negb (pruned vlt K f (fst p))) a = false).
      { apply filter_neq_exists. rewrite <- FI. exact NE. }
      cbn beta in EX.
      destruct EX as ([s v] & Ia & Ha). exists s, v. split; [exact Ia|].
      destruct (vlt f v) eqn:Ef; [reflexivity|]. exfalso.
      assert (X : In (s, v) K') by (pose proof (prune_sublevel K f WF CL M TOP s v) as P; rewrite E in P; cbn [fst] in P; apply P; auto).
      rewrite FI in X. apply filter_In in X. destruct X as [_ X]. congruence.
    - intros (s & v & Ia & Hlt). destruct (snd (prune_above_filtration vlt vinf K f)) eqn:E; [reflexivity|]. exfalso.
      apply prune_flag in E. pose proof (prune_sublevel K f WF CL M TOP s v) as P. rewrite E in P.
      destruct P as [P _]. destruct (P Ia) as [_ X]. congruence.
  Qed.
End Prune.

(* ================================================================== helpers for the non-vacuity examples *)
Lemma nonempty_subs_complete : forall t s, subseq t s -> t <> [] -> In t (nonempty_subs s).
Proof.
  intros t s H. induction H as [|x t s H IH|x t s H IH]; intros N.
  - congruence.
  - cbn [nonempty_subs]. destruct t as [|y t']; [left; reflexivity|]. right. apply in_or_app. left. apply in_map. apply IH. discriminate.
  - cbn [nonempty_subs]. right. apply in_or_app. right. apply IH. exact N.
Qed.

Definition closedb {V : Type} (K : cplx V) : bool :=
  forallb (fun s => forallb (fun t => existsb (simplex_eqb t) (map fst K)) (nonempty_subs s)) (map fst K).

Lemma closedb_closed : forall (V : Type) (K : cplx V), closedb K = true -> closed K.
Proof.
  intros V K H s t Hs St Nt. unfold closedb in H. rewrite forallb_forall in H. specialize (H s Hs).
  rewrite forallb_forall in H. specialize (H t (nonempty_subs_complete t s St Nt)).
  apply existsb_exists in H. destruct H as (u & Iu & Eu). apply simplex_eqb_eq in Eu. subst. exact Iu.
Qed.

Fixpoint incrb (s : simplex) : bool :=
  match s with
  | [] => true
  | x :: t => forallb (Z.ltb x) t && incrb t
  end.
Lemma incrb_incr : forall s, incrb s = true -> incr s.
Proof.
  unfold incr. induction s as [|x t IH]; intros H; [constructor|]. cbn [incrb] in H. apply andb_true_iff in H. destruct H as [H1 H2].
  constructor; [apply IH; exact H2|]. rewrite forallb_forall in H1. apply Forall_forall. intros y Hy. specialize (H1 y Hy). lia.
Qed.

Fixpoint nodupb (l : list simplex) : bool :=
  match l with
  | [] => true
  | s :: l' => negb (existsb (simplex_eqb s) l') && nodupb l'
  end.
Lemma nodupb_nodup : forall l, nodupb l = true -> NoDup l.
Proof.
  induction l as [|s l IH]; intros H; [constructor|]. cbn [nodupb] in H. apply andb_true_iff in H. destruct H as [H1 H2].
  constructor; [|apply IH; exact H2]. intros X. apply negb_true_iff in H1.
  assert (Y : existsb (simplex_eqb s) l = true) by (apply existsb_exists; exists s; split; [exact X | apply simplex_eqb_refl]). congruence.
Qed.

Definition wfb {V : Type} (K : cplx V) : bool :=
  nodupb (map fst K) && forallb (fun s => match s with [] => false | _ => incrb s end) (map fst K).
Lemma wfb_wf : forall (V : Type) (K : cplx V), wfb K = true -> wf K.
Proof.
  intros V K H. unfold wfb in H. apply andb_true_iff in H. destruct H as [H1 H2]. split; [apply nodupb_nodup; exact H1|].
  intros s Hs. rewrite forallb_forall in H2. specialize (H2 s Hs). destruct s as [|x t]; [discriminate|]. split; [discriminate | apply incrb_incr; exact H2].
Qed.

Definition monotoneb {V : Type} (vlt : V -> V -> bool) (K : cplx V) : bool :=
  forallb (fun p => forallb (fun t => match lookup K t with Some vt => negb (vlt (snd p) vt) | None => true end) (nonempty_subs (fst p))) K.
Lemma monotoneb_monotone : forall (V : Type) (vlt : V -> V -> bool) (K : cplx V), wf K -> monotoneb vlt K = true -> monotone vlt K.
Proof.
  intros V vlt K WF H s t vs vt Ls Lt St. unfold monotoneb in H. rewrite forallb_forall in H.
  specialize (H (s, vs) (lookup_in K s vs Ls)). cbn [fst snd] in H. rewrite forallb_forall in H.
  assert (Nt : t <> []). { destruct WF as [_ W]. apply W. eapply lookup_key; exact Lt. }
  specialize (H t (nonempty_subs_complete t s St Nt)). rewrite Lt in H. apply negb_true_iff in H. exact H.
Qed.

(* ================================================================== the cache filtration_vect_ *)
Section Cache.
  Variable V : Type.
  Variable vlt : V -> V -> bool.
  Variable vinf : V.

  (* after clear_filtration the next filtration_simplex_range recomputes the order from the current complex *)
  Lemma range_after_clear : forall st : state V,
    snd (filtration_simplex_range vlt vinf (clear_filtration st)) =
    with_values (fst st) (initialize_filtration vlt vinf false (fst st)).
  Proof. intros [K c]. reflexivity. Qed.

  (* the three mutators drop the cache whenever they report a change; extend_filtration always *)
  Lemma mfnd_drops_cache : forall st : state V, snd (op_mfnd vlt st) = true -> snd (fst (op_mfnd vlt st)) = [].
  Proof. intros [K c]. unfold op_mfnd. cbn [fst snd]. intros H. rewrite H. reflexivity. Qed.
  Lemma prune_drops_cache : forall f (st : state V), snd (op_prune vlt vinf f st) = true -> snd (fst (op_prune vlt vinf f st)) = [].
  Proof. intros f [K c]. unfold op_prune. cbn [fst snd]. intros H. rewrite H. reflexivity. Qed.

  (* when make_filtration_non_decreasing reports no change the complex is literally unchanged, so keeping the cache is sound *)
  Lemma relax_f_cases : forall (K : cplx V) c0 m0 b,
    relax_f V vlt K (c0, m0) b = (c0, m0) \/ exists fb, relax_f V vlt K (c0, m0) b = (fb, true).
  Proof.
    intros K c0 m0 b. unfold relax_f. cbn [fst]. destruct (lookup K b) as [fb|]; [|left; reflexivity].
    destruct (vlt c0 fb); [right; exists fb; reflexivity | left; reflexivity].
  Qed.

  Lemma relax_fold_true : forall (K : cplx V) bs c, snd (fold_left (relax_f V vlt K) bs (c, true)) = true.
  Proof.
    intros K. induction bs as [|b bs IH]; intros c; [reflexivity|]. cbn [fold_left].
    destruct (relax_f_cases K c true b) as [E|(fb & E)]; rewrite E; apply IH.
  Qed.

  Lemma relax_fold_unchanged : forall K bs c0 m0, snd (fold_left (relax_f V vlt K) bs (c0, m0)) = false ->
    fst (fold_left (relax_f V vlt K) bs (c0, m0)) = c0.
  Proof.
    intros K. induction bs as [|b bs IH]; intros c0 m0 H; [reflexivity|]. cbn [fold_left] in *.
    destruct (relax_f_cases K c0 m0 b) as [E|(fb & E)]; rewrite E in *.
    - apply (IH c0 m0 H).
    - rewrite relax_fold_true in H. discriminate.
  Qed.

  Lemma update_same : forall (K : cplx V) s v, lookup K s = Some v -> update K s v = K.
  Proof.
    induction K as [|[t w] K IH]; intros s v H; [reflexivity|]. cbn [lookup] in H. cbn [update].
    destruct (simplex_eqb t s); [inversion H; reflexivity | rewrite IH; [reflexivity | exact H]].
  Qed.

  Lemma mfnd_step_unchanged : forall K m s, snd (mfnd_step vlt (K, m) s) = false -> mfnd_step vlt (K, m) s = (K, false).
  Proof.
    intros K m s H. destruct s as [|x [|y t]]; cbn [mfnd_step fst snd] in *; try (rewrite H; reflexivity).
    destruct (lookup K (x :: y :: t)) as [cur|] eqn:L; cbn [fst snd] in *; [|rewrite H; reflexivity].
    apply orb_false_iff in H. destruct H as [H1 H2]. subst m. rewrite H2. f_equal.
    rewrite (relax_unfold V vlt) in *. rewrite (relax_fold_unchanged _ _ _ _ H2). apply update_same. exact L.
  Qed.

  Lemma mfnd_fold_flag_mono : forall order K, snd (fold_left (mfnd_step vlt) order (K, true)) = true.
  Proof.
    induction order as [|s order IH]; intros K; [reflexivity|]. cbn [fold_left].
    assert (E : exists K', mfnd_step vlt (K, true) s = (K', true)).
    { destruct s as [|x [|y t]]; cbn [mfnd_step fst snd]; eauto. destruct (lookup K (x :: y :: t)); eauto. }
    destruct E as (K' & E). rewrite E. apply IH.
  Qed.

  Theorem mfnd_unchanged_when_false : forall K0 : cplx V,
    snd (make_filtration_non_decreasing vlt K0) = false -> fst (make_filtration_non_decreasing vlt K0) = K0.
  Proof.
    intros K0. unfold make_filtration_non_decreasing, mfnd_over. generalize (traversal K0) as order. intros order. revert K0.
    induction order as [|s order IH]; intros K0 H; [reflexivity|]. cbn [fold_left] in *.
    destruct (mfnd_step vlt (K0, false) s) as [K1 m1] eqn:E. destruct m1.
    - rewrite mfnd_fold_flag_mono in H. discriminate.
    - assert (E' : mfnd_step vlt (K0, false) s = (K0, false)) by (apply mfnd_step_unchanged; rewrite E; reflexivity).
      rewrite E in E'. inversion E'; subst. apply IH. exact H.
  Qed.
End Cache.

Lemma zltb_strict_weak : StrictWeak Z.ltb.
Proof. constructor; intros; lia. Qed.

(* ================================================================== a departure from the property: "empty cache" is read as
   "cache not computed".  After initialize_filtration(true) on a complex whose simplices all have the value +infinity the
   cache is empty, and filtration_simplex_range() recomputes it WITHOUT ignoring: the ignored simplices are listed. *)
Lemma all_ignored_range_refuted : exists (K : cplx Z), K <> [] /\ (forall p, In p K -> snd p = 1000%Z) /\
  snd (op_initialize_filtration Z.ltb 1000%Z true (K, [])) = [] /\
  snd (filtration_simplex_range Z.ltb 1000%Z (op_initialize_filtration Z.ltb 1000%Z true (K, []))) = [([0%Z], Some 1000%Z)].
Proof.
  exists [([0%Z], 1000%Z)]. split; [discriminate|]. split; [intros p [H|[]]; subst; reflexivity|]. split; vm_compute; reflexivity.
Qed.
