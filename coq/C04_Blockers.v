(* C04_Blockers.v - expansion_with_blockers: the reverse sibling loop with face look-ups in the tree under construction
   builds the complex determined by the rule "sigma+y is kept iff all its facets are kept and the blocker lets it pass". *)
From Coq Require Import ZArith List Lia Bool ZifyBool.
Import ListNotations.
Require Import Simplex Trie C01_Model C01_Proofs C04_Model C04_Proofs.
Local Open Scope Z_scope.

(* ------------------------------------------------------------------------------------------------ paths in the trie *)
Lemma find_val_app : forall p q l w c, q <> [] -> find p l = Some (w, Node c) -> find_val (p ++ q) l = find_val q c.
Proof.
  induction p as [|x [|x' p'] IH]; intros q l w c Hq Hf.
  - discriminate.
  - rewrite find_one in Hf. destruct q as [|y t]; [congruence|]. cbn [app]. rewrite find_val_deep, Hf. reflexivity.
  - rewrite find_cons2 in Hf. destruct (get x l) as [[wx [cx]]|] eqn:Eg; [|discriminate].
    change ((x :: x' :: p') ++ q) with (x :: x' :: (p' ++ q)). rewrite find_val_deep, Eg.
    change (x' :: p' ++ q) with ((x' :: p') ++ q). eapply IH; eauto.
Qed.
Lemma find_val_app_none : forall p q l, q <> [] -> p <> [] -> find p l = None -> find_val (p ++ q) l = None.
Proof.
  induction p as [|x [|x' p'] IH]; intros q l Hq Hp Hf; [congruence | |].
  - rewrite find_one in Hf. destruct q as [|y t]; [congruence|]. cbn [app]. rewrite find_val_deep, Hf. reflexivity.
  - rewrite find_cons2 in Hf. change ((x :: x' :: p') ++ q) with (x :: x' :: (p' ++ q)). rewrite find_val_deep.
    destruct (get x l) as [[wx [cx]]|] eqn:Eg; [|reflexivity].
    change (x' :: p' ++ q) with ((x' :: p') ++ q). apply IH; auto. discriminate.
Qed.

Fixpoint strip (p r : simplex) : option simplex :=
  match p with
  | [] => Some r
  | x :: p' => match r with [] => None | y :: r' => if x =? y then strip p' r' else None end
  end.
Lemma strip_app p q : strip p (p ++ q) = Some q.
Proof. induction p as [|x p IH]; [reflexivity|]. cbn. rewrite Z.eqb_refl. exact IH. Qed.
Lemma strip_some : forall p r q, strip p r = Some q -> r = p ++ q.
Proof.
  induction p as [|x p IH]; intros r q H; [inversion H; reflexivity|]. destruct r as [|y r]; [discriminate|]. cbn in H.
  destruct (Z.eqb_spec x y); [|discriminate]. subst. cbn. f_equal. apply IH; exact H.
Qed.

Lemma set_kids_cons x q c root wx cx : get x root = Some (wx, Node cx) ->
  set_kids (x :: q) c root = put x wx (Node (set_kids q c cx)) root.
Proof. intro H. cbn [set_kids]. rewrite H. reflexivity. Qed.
Lemma set_kids_find : forall sigma root w0 c0 c, find sigma root = Some (w0, Node c0) ->
  forall rho, rho <> [] ->
  find_val rho (set_kids sigma c root) =
  match strip sigma rho with Some (y :: t) => find_val (y :: t) c | _ => find_val rho root end.
Proof.
  induction sigma as [|x [|x' s''] IH]; intros root w0 c0 c Hf rho Hr; [discriminate | |].
  - rewrite find_one in Hf. rewrite (set_kids_cons x [] c root w0 c0 Hf). cbn [set_kids]. destruct rho as [|z t]; [congruence|]. cbn [strip].
    destruct (Z.eqb_spec x z) as [->|Hxz].
    + destruct t as [|y t'].
      * unfold find_val. rewrite find_put_same_one, find_one, Hf. reflexivity.
      * unfold find_val. rewrite find_put_same_deep. reflexivity.
    + unfold find_val. rewrite find_put_other by congruence. reflexivity.
  - rewrite find_cons2 in Hf. destruct (get x root) as [[wx [cx]]|] eqn:Eg; [|discriminate].
    rewrite (set_kids_cons x (x' :: s'') c root wx cx Eg).
    destruct rho as [|z t]; [congruence|]. cbn [strip].
    destruct (Z.eqb_spec x z) as [->|Hxz].
    + destruct t as [|y t'].
      * unfold find_val. rewrite find_put_same_one, find_one, Eg. reflexivity.
      * transitivity (find_val (y :: t') (set_kids (x' :: s'') c cx)).
        { unfold find_val. rewrite find_put_same_deep. reflexivity. }
        rewrite (IH cx w0 c0 c Hf (y :: t')) by discriminate. rewrite find_val_deep, Eg. reflexivity.
    + unfold find_val. rewrite find_put_other by congruence. reflexivity.
Qed.
Lemma set_kids_self : forall sigma root w0 c0 c, find sigma root = Some (w0, Node c0) ->
  find sigma (set_kids sigma c root) = Some (w0, Node c).
Proof.
  induction sigma as [|x [|x' s''] IH]; intros root w0 c0 c Hf; [discriminate | |].
  - rewrite find_one in Hf. rewrite (set_kids_cons x [] c root w0 c0 Hf). apply find_put_same_one.
  - rewrite find_cons2 in Hf. destruct (get x root) as [[wx [cx]]|] eqn:Eg; [|discriminate].
    rewrite (set_kids_cons x (x' :: s'') c root wx cx Eg). rewrite find_put_same_deep. eapply IH; eauto.
Qed.
Lemma wf_set_kids : forall sigma root c, wf root -> wf c -> wf (set_kids sigma c root).
Proof.
  induction sigma as [|x s' IH]; intros root c W Wc; [exact Wc|]. cbn [set_kids].
  destruct (get x root) as [[wx [cx]]|] eqn:Eg; [|exact W].
  apply wf_put; [exact W|]. rewrite wf_t_node. apply IH; [|exact Wc].
  pose proof (wf_get x root wx (Node cx) W Eg) as H. rewrite wf_t_node in H. exact H.
Qed.

Lemma strip_snoc : forall p x rho,
  strip (p ++ [x]) rho = match strip p rho with Some (z :: t) => if x =? z then Some t else None | _ => None end.
Proof.
  induction p as [|a p IH]; intros x rho.
  - cbn. destruct rho as [|y r]; [reflexivity|]. destruct (x =? y); reflexivity.
  - cbn [app strip]. destruct rho as [|y r]; [reflexivity|]. destruct (a =? y); [apply IH | reflexivity].
Qed.
Definition above (p : simplex) (z : Z) : Prop := forall a, In a p -> a < z.

Lemma facets_snoc : forall p x tau, In tau (facets (p ++ [x])) -> tau = p \/ exists tau', In tau' (facets p) /\ tau = tau' ++ [x].
Proof.
  induction p as [|a p IH]; intros x tau H.
  - cbn in H. destruct H as [<-|[]]. left; reflexivity.
  - cbn [app facets] in H. destruct H as [<-|H].
    + right. exists p. split; [left; reflexivity | reflexivity].
    + apply in_map_iff in H as (t1 & <- & H1). destruct (IH x t1 H1) as [->|(t2 & H2 & ->)].
      * left; reflexivity.
      * right. exists (a :: t2). split; [right; apply in_map; exact H2 | reflexivity].
Qed.
Lemma facets_last : forall p x, In p (facets (p ++ [x])).
Proof.
  induction p as [|a p IH]; intro x; [left; reflexivity|]. cbn [app facets]. right. apply in_map. apply IH.
Qed.
Lemma ssortedb_tail a r : ssortedb (a :: r) = true -> ssortedb r = true.
Proof. cbn [ssortedb]. intro H. apply andb_prop in H. tauto. Qed.
Lemma strip_facet_none : forall p tau z q, ssortedb p = true -> In tau (facets p) -> above p z -> strip p (tau ++ z :: q) = None.
Proof.
  induction p as [|e r IH]; intros tau z q Hs Hin Ha; [destruct Hin|]. cbn [facets] in Hin. destruct Hin as [<-|Hin].
  - destruct r as [|r1 r'].
    + cbn. assert (e < z) by (apply Ha; left; reflexivity). destruct (Z.eqb_spec e z); [lia | reflexivity].
    + cbn [app strip]. cbn [ssortedb lbound] in Hs. destruct (Z.eqb_spec e r1); [lia | reflexivity].
  - apply in_map_iff in Hin as (t1 & <- & H1). cbn [app strip]. rewrite Z.eqb_refl.
    apply IH; [eapply ssortedb_tail; eauto | exact H1 | intros a Hin; apply Ha; right; exact Hin].
Qed.

Lemma fold_left_rev_r {A S} (f : S -> A -> S) : forall l a, fold_left f (rev l) a = fold_right (fun x acc => f acc x) a l.
Proof. induction l as [|x l IH]; intro a; [reflexivity|]. cbn [rev fold_right]. rewrite fold_left_app, IH. reflexivity. Qed.

Lemma lsorted_app_above : forall pre x w rest z, lsorted (pre ++ (x, w) :: rest) ->
  is_some (vlookup z (pre ++ (x, w) :: rest)) = true -> x < z -> is_some (vlookup z rest) = true.
Proof.
  induction pre as [|[a wa] pre IH]; intros x w rest z Hs Hv Hxz.
  - cbn [app vlookup] in Hv. destruct (Z.eqb_spec z x); [lia | exact Hv].
  - cbn [app lsorted fst] in Hs. destruct Hs as [Hb Hs]. cbn [app vlookup] in Hv.
    destruct (Z.eqb_spec z a) as [->|Hza]; [|eapply IH; eauto].
    exfalso. unfold lbnd in Hb. rewrite Forall_forall in Hb. specialize (Hb (x, w)). cbn [fst] in Hb.
    assert (a < x) by (apply Hb; apply in_or_app; right; left; reflexivity). lia.
Qed.
Lemma lsorted_app_r : forall pre suf, lsorted (pre ++ suf) -> lsorted suf.
Proof. induction pre as [|a pre IH]; intros suf H; [exact H|]. cbn [app lsorted] in H. apply IH. tauto. Qed.
Lemma find_val_leaves y t l : find_val (y :: t) (leaves l) = match t with [] => option_map fst (get y (leaves l)) | _ :: _ => None end.
Proof.
  destruct t as [|z t']; [apply find_val_one|]. rewrite find_val_deep.
  destruct (get y (leaves l)) as [[w [c]]|] eqn:E; [|reflexivity].
  assert (c = []) as ->; [|apply find_val_nil_l].
  clear - E. induction l as [|[a wa] l IH]; [discriminate|]. cbn [leaves map fst snd get] in E.
  destruct (y ?= a); [inversion E; reflexivity | discriminate | apply IH; exact E].
Qed.
Lemma labs_leaves l : labs (leaves l) = l.
Proof. induction l as [|[a w] l IH]; [reflexivity|]. cbn [leaves map labs label fst snd]. f_equal. exact IH. Qed.
Lemma wf_leaves : forall l, lsorted l -> wf (leaves l).
Proof.
  induction l as [|[a w] l IH]; intro H; [apply wf_nil|]. destruct H as [Hb Hs]. cbn [leaves map fst snd]. apply wf_cons.
  split; [|split; [exact I | apply IH; exact Hs]].
  clear - Hb. cbn [fst] in Hb. induction l as [|[b wb] l IH]; [exact I|]. inversion Hb; subst. cbn [map lb_sibs label fst]. split; auto.
Qed.

(* ------------------------------------------------------------------------------------------------ small list facts *)
Lemma vlookup_app y : forall l1 l2, vlookup y (l1 ++ l2) = match vlookup y l1 with Some v => Some v | None => vlookup y l2 end.
Proof. induction l1 as [|[a w] l1 IH]; intro l2; [reflexivity|]. cbn [app vlookup]. destruct (y =? a); auto. Qed.
Lemma vlookup_mid : forall pre x w rest, lsorted (pre ++ (x, w) :: rest) -> vlookup x (pre ++ (x, w) :: rest) = Some w.
Proof.
  induction pre as [|[a wa] pre IH]; intros x w rest Hs.
  - cbn. rewrite Z.eqb_refl. reflexivity.
  - cbn [app lsorted fst] in Hs. destruct Hs as [Hb Hs]. cbn [app vlookup].
    unfold lbnd in Hb. rewrite Forall_forall in Hb. specialize (Hb (x, w)). cbn [fst] in Hb.
    assert (a < x) by (apply Hb; apply in_or_app; right; left; reflexivity).
    destruct (Z.eqb_spec x a); [lia | apply IH; exact Hs].
Qed.
Lemma wf_find : forall p l w c, wf l -> find p l = Some (w, Node c) -> wf c.
Proof.
  induction p as [|x [|x' p'] IH]; intros l w c W Hf; [discriminate | |].
  - rewrite find_one in Hf. pose proof (wf_get x l w (Node c) W Hf) as H. rewrite wf_t_node in H. exact H.
  - rewrite find_cons2 in Hf. destruct (get x l) as [[wx [cx]]|] eqn:Eg; [|discriminate].
    pose proof (wf_get x l wx (Node cx) W Eg) as H. rewrite wf_t_node in H. eapply IH; eauto.
Qed.
Lemma ssortedb_snoc_above : forall p x, ssortedb (p ++ [x]) = true -> above p x.
Proof.
  induction p as [|a p IH]; intros x H b Hb; [destruct Hb|]. cbn [app ssortedb] in H. apply andb_prop in H as [H1 H2].
  destruct Hb as [->|Hb]; [|apply IH; auto].
  eapply lbound_in; [exact H1 | apply in_or_app; right; left; reflexivity].
Qed.
Lemma ssortedb_snoc2 : forall p x y, ssortedb (p ++ [x; y]) = true -> x < y.
Proof.
  induction p as [|a p IH]; intros x y H.
  - cbn in H. lia.
  - cbn [app ssortedb] in H. apply andb_prop in H as [_ H2]. apply IH; exact H2.
Qed.
Lemma lenZ_snoc (p : simplex) x : lenZ (p ++ [x]) = lenZ p + 1.
Proof. unfold lenZ. rewrite app_length. cbn [length]. lia. Qed.
Lemma fold_left_ext_in {A S} (f g : S -> A -> S) : forall l a, (forall s x, In x l -> f s x = g s x) -> fold_left f l a = fold_left g l a.
Proof.
  induction l as [|x l IH]; intros a H; [reflexivity|]. cbn [fold_left]. rewrite (H a x) by (left; reflexivity).
  apply IH. intros s y Hy. apply H. right; exact Hy.
Qed.

(* candidates kept below one node: labels are among the later siblings *)
Section kept_list.
  Variable cf : Z -> option V.
  Variable pf : Z * V -> bool.
  Definition cands (later : lv) : lv := flat_map (fun yv => match cf (fst yv) with Some f => [(fst yv, f)] | None => [] end) later.
  Lemma cands_lbnd a : forall r, lbnd a r -> lbnd a (filter pf (cands r)).
  Proof.
    induction r as [|[b wb] r IH]; intro H; [constructor|]. inversion H; subst. cbn [cands flat_map fst].
    fold (cands r). rewrite filter_app. apply Forall_app. split; [|apply IH; assumption].
    destruct (cf b); cbn [filter]; [|constructor]. destruct (pf (b, v)); constructor; [assumption | constructor].
  Qed.
  Lemma cands_sorted : forall r, lsorted r -> lsorted (filter pf (cands r)).
  Proof.
    induction r as [|[b wb] r IH]; intro H; [exact I|]. destruct H as [Hb Hs]. cbn [cands flat_map fst].
    fold (cands r). rewrite filter_app. destruct (cf b); cbn [filter app]; [|apply IH; exact Hs].
    destruct (pf (b, v)); cbn [app]; [|apply IH; exact Hs]. split; [apply cands_lbnd; exact Hb | apply IH; exact Hs].
  Qed.
  Lemma cands_lookup y : forall r, lsorted r ->
    vlookup y (filter pf (cands r)) =
    if is_some (vlookup y r) then match cf y with Some f => if pf (y, f) then Some f else None | None => None end else None.
  Proof.
    induction r as [|[b wb] r IH]; intro H; [reflexivity|]. destruct H as [Hb Hs]. cbn [fst] in Hb. cbn [cands flat_map fst].
    fold (cands r). rewrite filter_app, vlookup_app. cbn [vlookup]. destruct (Z.eqb_spec y b) as [->|Hyb].
    - cbn [is_some]. destruct (cf b) as [f|]; cbn [filter].
      + destruct (pf (b, f)); cbn [vlookup]; [rewrite Z.eqb_refl; reflexivity|].
        apply (vlookup_lbnd b b); [apply cands_lbnd; exact Hb | lia].
      + cbn [vlookup]. apply (vlookup_lbnd b b); [apply cands_lbnd; exact Hb | lia].
    - rewrite <- IH by exact Hs. destruct (cf b) as [f|]; cbn [filter]; [|reflexivity].
      destruct (pf (b, f)); cbn [vlookup]; [|reflexivity]. destruct (Z.eqb_spec y b); [contradiction | reflexivity].
  Qed.
End kept_list.

(* ------------------------------------------------------------------------------------------------ the loop body, named *)
Definition sewb_step (rec : bstate -> simplex -> Z -> bstate) (P : simplex -> V -> bool) (p : simplex) (k : Z)
           (st : bstate) (xr : Z * V * lv) : bstate :=
  let '(x, w, later) := xr in
  let sigma := p ++ [x] in
  let cand := flat_map (fun yv => match cand_val (broot st) sigma w (fst yv) with
                                  | Some f => [(fst yv, f)] | None => [] end) later in
  match cand with
  | [] => st
  | _ :: _ =>
      let kept := filter (fun yv => negb (P (sigma ++ [fst yv]) (snd yv))) cand in
      let log := blog st ++ map (fun yv => (sigma ++ [fst yv], snd yv)) cand in
      match kept with
      | [] => mkB (broot st) (bdim st) log
      | _ :: _ => rec (mkB (set_kids sigma (leaves kept) (broot st)) (bdim st) log) sigma (k - 1)
      end
  end.
Definition items (S : lv) : list (Z * V * lv) := map (fun t => (fst (fst t), snd (fst t), snd t)) (tails S).
Lemma sewb_unfold fuel P maxd st p k :
  sewb (S fuel) P maxd st p k =
  let st1 := mkB (broot st) (Z.max (bdim st) (maxd - k)) (blog st) in
  if k =? 0 then st1
  else fold_left (sewb_step (sewb fuel P maxd) P p k) (rev (items (labs (kids_at p (broot st1))))) st1.
Proof. reflexivity. Qed.
(* the root of the result of one step *)
Lemma sewb_step_root rec P p k st x w later :
  let sigma := p ++ [x] in
  let kept := filter (fun yv => negb (P (sigma ++ [fst yv]) (snd yv)))
                     (cands (fun y => cand_val (broot st) sigma w y) later) in
  broot (sewb_step rec P p k st (x, w, later)) =
  match kept with
  | [] => broot st
  | _ :: _ => broot (rec (mkB (set_kids sigma (leaves kept) (broot st)) (bdim st)
                              (blog st ++ map (fun yv => (sigma ++ [fst yv], snd yv))
                                              (cands (fun y => cand_val (broot st) sigma w y) later))) sigma (k - 1))
  end.
Proof.
  cbn zeta. unfold sewb_step, cands. destruct (flat_map _ later) as [|c0 cs]; [reflexivity|].
  destruct (filter _ (c0 :: cs)); reflexivity.
Qed.

(* ------------------------------------------------------------------------------------------------ the rule and the loop *)
Section rule.
  Variable P : simplex -> V -> bool.
  Variable d : Z.
  Variable B : simplex -> option V.
  Definition candB (sigma : simplex) (w : V) (y : Z) : option V :=
    fold_left (fun acc tau => match acc, B (tau ++ [y]) with Some m, Some f => Some (Z.max m f) | _, _ => None end)
              (facets sigma) (Some w).
  Hypothesis B_rule : forall sigma w y, B sigma = Some w -> (2 <= length sigma)%nat ->
    B (sigma ++ [y]) = if lenZ sigma + 1 <=? d + 1
                       then match candB sigma w y with
                            | Some f => if P (sigma ++ [y]) f then None else Some f
                            | None => None end
                       else None.
  Hypothesis B_prefix : forall sigma q, sigma <> [] -> B sigma = None -> B (sigma ++ q) = None.
  Hypothesis B_sorted : forall rho, B rho <> None -> ssortedb rho = true.

  Lemma cand_val_B root sigma w y :
    (forall tau, In tau (facets sigma) -> find_val (tau ++ [y]) root = B (tau ++ [y])) -> cand_val root sigma w y = candB sigma w y.
  Proof. intro H. unfold cand_val, candB. apply fold_left_ext_in. intros s tau Hin. rewrite (H tau Hin). reflexivity. Qed.
  Lemma candB_none sigma w y tau : In tau (facets sigma) -> B (tau ++ [y]) = None -> candB sigma w y = None.
  Proof.
    unfold candB. generalize (Some w). induction (facets sigma) as [|t l IH]; intros acc Hin Hn; [destruct Hin|].
    cbn [fold_left]. destruct Hin as [->|Hin].
    - rewrite Hn. assert (forall l', fold_left (fun acc tau => match acc, B (tau ++ [y]) with Some m, Some f => Some (Z.max m f) | _, _ => None end) l' None = None) as FN
        by (induction l' as [|t' l' IH']; [reflexivity | exact IH']).
      destruct acc; apply FN.
    - apply IH; auto.
  Qed.

  Definition Pre (root : sibs) (p : simplex) : Prop :=
    wf root /\ ssortedb p = true /\ p <> [] /\ B p <> None /\ (exists w c, find p root = Some (w, Node c)) /\
    (forall y, find_val (p ++ [y]) root = B (p ++ [y])) /\
    (forall x y q, find_val (p ++ x :: y :: q) root = None) /\
    (forall tau z q, In tau (facets p) -> above p z -> find_val (tau ++ z :: q) root = B (tau ++ z :: q)).
  Definition Post (root root' : sibs) (p : simplex) : Prop :=
    wf root' /\ (forall x y q, find_val (p ++ x :: y :: q) root' = B (p ++ x :: y :: q)) /\
    (forall rho, rho <> [] -> (forall x y q, strip p rho <> Some (x :: y :: q)) -> find_val rho root' = find_val rho root).
  Definition rec_ok (rec : bstate -> simplex -> Z -> bstate) (k : Z) : Prop :=
    forall st sigma, Pre (broot st) sigma -> k = d - lenZ sigma -> Post (broot st) (broot (rec st sigma k)) sigma.

  Lemma loop_ok rec p k root0 w0 c0 :
    Pre root0 p -> 1 <= k -> k = d - lenZ p -> find p root0 = Some (w0, Node c0) -> rec_ok rec (k - 1) ->
    forall suf pre, labs c0 = pre ++ suf -> forall st0, broot st0 = root0 ->
    let st' := fold_right (fun xr st => sewb_step rec P p k st xr) st0 (items suf) in
    wf (broot st') /\
    (forall z q, q <> [] -> is_some (vlookup z suf) = true -> find_val (p ++ z :: q) (broot st') = B (p ++ z :: q)) /\
    (forall rho, rho <> [] -> (forall x y q, strip p rho = Some (x :: y :: q) -> is_some (vlookup x suf) = false) ->
                 find_val rho (broot st') = find_val rho root0).
  Proof.
    intros HPre Hk Hkd Hf Hrec.
    destruct HPre as (W0 & Sp & Np & Bp & _ & C0 & D0 & E0).
    pose proof (wf_find p root0 w0 c0 W0 Hf) as Wc0.
    assert (forall y, find_val (p ++ [y]) root0 = vlookup y (labs c0)) as FS.
    { intro y. rewrite (find_val_app p [y] root0 w0 c0) by (auto; discriminate). rewrite find_val_one. symmetry. apply vlookup_labs. exact Wc0. }
    assert (lsorted (labs c0)) as SS by (apply wf_lsorted; exact Wc0).
    induction suf as [|[x w] rest IH]; intros pre HS st0 Hst0.
    - cbn [items tails map fold_right]. split; [rewrite Hst0; exact W0 | split].
      + intros z q _ H. discriminate.
      + intros rho _ _. rewrite Hst0. reflexivity.
    - change (items ((x, w) :: rest)) with ((x, w, rest) :: items rest). cbn [fold_right]. cbv zeta.
      assert (labs c0 = (pre ++ [(x, w)]) ++ rest) as HS' by (rewrite <- app_assoc; exact HS).
      pose proof (IH (pre ++ [(x, w)]) HS' st0 Hst0) as IHr. cbv zeta in IHr.
      set (st1 := fold_right (fun xr st => sewb_step rec P p k st xr) st0 (items rest)) in *.
      destruct IHr as (W1 & I1 & I2).
      set (root1 := broot st1) in *. set (sigma := p ++ [x]).
      assert (lsorted ((x, w) :: rest)) as Srest by (apply (lsorted_app_r pre); rewrite <- HS; exact SS).
      destruct Srest as [Bx Sr]. cbn [fst] in Bx.
      assert (vlookup x rest = None) as Nx by (apply (vlookup_lbnd x x); [exact Bx | lia]).
      assert (B sigma = Some w) as Bs.
      { unfold sigma. rewrite <- C0, FS, HS. apply vlookup_mid. rewrite <- HS. exact SS. }
      assert (ssortedb sigma = true) as Ss by (apply B_sorted; rewrite Bs; discriminate).
      pose proof (ssortedb_snoc_above p x Ss) as Apx.
      assert (2 <= length sigma)%nat as Ls.
      { unfold sigma. rewrite app_length. cbn [length]. destruct p; [congruence | cbn [length]; lia]. }
      assert (lenZ sigma + 1 <=? d + 1 = true) as Ld by (unfold sigma; rewrite lenZ_snoc; lia).
      (* look-ups of the candidates are final *)
      assert (forall y tau, In tau (facets sigma) -> find_val (tau ++ [y]) root1 = B (tau ++ [y])) as LK.
      { intros y tau Hin. apply facets_snoc in Hin as [->|(t' & Ht' & ->)].
        - rewrite I2; [apply C0 | destruct p; discriminate |]. intros x' y' q' Hst. rewrite strip_app in Hst. discriminate.
        - rewrite <- app_assoc. cbn [app]. rewrite I2; [apply E0; auto | destruct t'; discriminate |].
          intros x' y' q' Hst. rewrite (strip_facet_none p t' x [y] Sp Ht' Apx) in Hst. discriminate. }
      set (pf := fun yv : Z * V => negb (P (sigma ++ [fst yv]) (snd yv))).
      remember (filter pf (cands (fun y => cand_val root1 sigma w y) rest)) as kept eqn:Hkept.
      assert (forall y, vlookup y kept = B (sigma ++ [y])) as KL.
      { intro y. rewrite Hkept. rewrite cands_lookup by exact Sr. rewrite (cand_val_B root1 sigma w y (LK y)).
        rewrite (B_rule sigma w y Bs Ls), Ld. unfold pf. cbn [fst snd].
        destruct (is_some (vlookup y rest)) eqn:Ey.
        - destruct (candB sigma w y); [|reflexivity]. destruct (P (sigma ++ [y]) v); reflexivity.
        - destruct (candB sigma w y) as [f|] eqn:Ec; [|reflexivity].
          destruct (P (sigma ++ [y]) f) eqn:EP; [reflexivity|]. exfalso.
          assert (B (sigma ++ [y]) <> None) as Hb by (rewrite (B_rule sigma w y Bs Ls), Ld, Ec, EP; discriminate).
          apply B_sorted in Hb. unfold sigma in Hb. rewrite <- app_assoc in Hb. cbn [app] in Hb.
          apply ssortedb_snoc2 in Hb.
          assert (B (p ++ [y]) <> None) as Hpy.
          { intro Hn. rewrite (candB_none sigma w y p (facets_last p x) Hn) in Ec. discriminate. }
          rewrite <- C0, FS in Hpy.
          assert (is_some (vlookup y rest) = true); [|congruence].
          apply (lsorted_app_above pre x w rest y); [rewrite <- HS; exact SS | rewrite <- HS; destruct (vlookup y (labs c0)); [reflexivity | congruence] | exact Hb]. }
      assert (lsorted kept) as Sk by (rewrite Hkept; apply cands_sorted; exact Sr).
      pose proof (sewb_step_root rec P p k st1 x w rest) as RS. cbv zeta in RS. fold sigma root1 pf in RS. rewrite <- Hkept in RS. unfold lv in RS. rewrite RS. clear RS.
      (* conditions of I2 pass to the suffix *)
      assert (forall rho, (forall x' y q, strip p rho = Some (x' :: y :: q) -> is_some (vlookup x' ((x, w) :: rest)) = false) ->
                          (forall x' y q, strip p rho = Some (x' :: y :: q) -> is_some (vlookup x' rest) = false) /\
                          (forall y q, strip p rho <> Some (x :: y :: q))) as CI.
      { intros rho H. split.
        - intros x' y q Hs'. specialize (H x' y q Hs'). cbn [vlookup] in H. destruct (x' =? x); [discriminate | exact H].
        - intros y q Hs'. specialize (H x y q Hs'). cbn [vlookup] in H. rewrite Z.eqb_refl in H. discriminate. }
      clear Hkept. destruct kept as [|k1 kr].
      + (* nothing kept below sigma *)
        split; [exact W1 | split].
        * intros z q Hq Hz. cbn [vlookup] in Hz. destruct (Z.eqb_spec z x) as [->|Hzx]; [|apply I1; auto].
          destruct q as [|y q']; [congruence|].
          rewrite I2; [| destruct p; discriminate |].
          -- rewrite D0. symmetry. change (p ++ x :: y :: q') with (p ++ [x] ++ [y] ++ q'). rewrite !app_assoc.
             apply B_prefix; [destruct p; discriminate|]. fold sigma. rewrite <- KL. reflexivity.
          -- intros x' y' q'' Hst. rewrite strip_app in Hst. inversion Hst; subst. rewrite Nx. reflexivity.
        * intros rho Hr Hc. destruct (CI rho Hc) as [Hc1 _]. apply I2; auto.
      + (* recursion below sigma *)
        set (kept := k1 :: kr) in *.
        assert (exists cs, find sigma root1 = Some (w, Node cs)) as [cs Fs].
        { assert (find_val sigma root1 = Some w) as Hv.
          { rewrite I2; [unfold sigma; rewrite C0; exact Bs | unfold sigma; destruct p; discriminate |].
            intros x' y' q' Hst. unfold sigma in Hst. rewrite strip_app in Hst. discriminate. }
          unfold find_val in Hv. destruct (find sigma root1) as [[w' [cs]]|]; [|discriminate]. inversion Hv; subst. eauto. }
        set (root2 := set_kids sigma (leaves kept) root1).
        set (st2 := mkB root2 (bdim st1) (blog st1 ++ map (fun yv => (sigma ++ [fst yv], snd yv)) (cands (fun y => cand_val root1 sigma w y) rest))).
        assert (forall rho, rho <> [] -> find_val rho root2 =
                match strip sigma rho with Some (y :: t) => find_val (y :: t) (leaves kept) | _ => find_val rho root1 end) as SK
          by (intros rho Hr; apply (set_kids_find sigma root1 w cs (leaves kept) Fs rho Hr)).
        assert (Pre (broot st2) sigma) as Pre2.
        { cbn [broot st2]. split; [apply wf_set_kids; [exact W1 | apply wf_leaves; exact Sk]|].
          split; [exact Ss|]. split; [unfold sigma; destruct p; discriminate|]. split; [rewrite Bs; discriminate|].
          split; [exists w, (leaves kept); apply (set_kids_self sigma root1 w cs); exact Fs|].
          split; [|split].
          - intro y. rewrite SK by (unfold sigma; destruct p; discriminate). rewrite strip_app.
            rewrite find_val_leaves. rewrite <- KL. rewrite <- (labs_leaves kept) at 2. symmetry. apply vlookup_labs. apply wf_leaves; exact Sk.
          - intros x2 y q. rewrite SK by (unfold sigma; destruct p; discriminate). rewrite strip_app. apply find_val_leaves.
          - intros tau z q Hin Az. rewrite SK by (destruct tau; discriminate).
            rewrite (strip_facet_none sigma tau z q Ss Hin Az).
            apply facets_snoc in Hin as [->|(t' & Ht' & ->)].
            + (* tau = p *)
              assert (x < z) as Hxz by (apply Az; unfold sigma; apply in_or_app; right; left; reflexivity).
              destruct q as [|y q'].
              * rewrite I2; [apply C0 | destruct p; discriminate |]. intros x' y' q' Hst. rewrite strip_app in Hst. discriminate.
              * destruct (is_some (vlookup z rest)) eqn:Ez; [apply I1; [discriminate | exact Ez]|].
                rewrite I2; [| destruct p; discriminate |].
                -- rewrite D0. symmetry. change (p ++ z :: y :: q') with (p ++ [z] ++ (y :: q')). rewrite app_assoc.
                   apply B_prefix; [destruct p; discriminate|]. rewrite <- C0, FS.
                   destruct (vlookup z (labs c0)) eqn:Ev; [|reflexivity]. exfalso.
                   assert (is_some (vlookup z rest) = true); [|congruence].
                   apply (lsorted_app_above pre x w rest z); [rewrite <- HS; exact SS | rewrite <- HS, Ev; reflexivity | exact Hxz].
                -- intros x' y' q'' Hst. rewrite strip_app in Hst. inversion Hst; subst. exact Ez.
            + (* tau = t' ++ [x] *)
              rewrite <- app_assoc. cbn [app]. rewrite I2; [apply E0; auto | destruct t'; discriminate |].
              intros x' y' q' Hst. rewrite (strip_facet_none p t' x (z :: q) Sp Ht' Apx) in Hst. discriminate. }
        assert (k - 1 = d - lenZ sigma) as Hk1 by (unfold sigma; rewrite lenZ_snoc; lia).
        destruct (Hrec st2 sigma Pre2 Hk1) as (W3 & R1 & R2). cbn [broot st2] in R2.
        set (root3 := broot (rec st2 sigma (k - 1))) in *.
        split; [exact W3 | split].
        * intros z q Hq Hz. cbn [vlookup] in Hz. destruct (Z.eqb_spec z x) as [->|Hzx].
          -- destruct q as [|y [|y2 q2]]; [congruence | |].
             ++ change (p ++ [x; y]) with (p ++ [x] ++ [y]). rewrite app_assoc. fold sigma.
                rewrite R2; [| destruct sigma; discriminate | intros x' y' q' Hst; rewrite strip_app in Hst; discriminate].
                destruct Pre2 as (_ & _ & _ & _ & _ & C2 & _). apply C2.
             ++ change (p ++ x :: y :: y2 :: q2) with (p ++ [x] ++ (y :: y2 :: q2)). rewrite app_assoc. fold sigma. apply R1.
          -- rewrite R2; [| destruct p; discriminate |].
             ++ rewrite SK by (destruct p; discriminate). unfold sigma. rewrite strip_snoc, strip_app.
                destruct (Z.eqb_spec x z); [congruence|]. apply I1; auto.
             ++ intros x' y' q' Hst. unfold sigma in Hst. rewrite strip_snoc, strip_app in Hst.
                destruct (Z.eqb_spec x z); [congruence | discriminate].
        * intros rho Hr Hc. destruct (CI rho Hc) as [Hc1 Hc2].
          assert (forall t, strip sigma rho = Some t -> strip p rho = Some (x :: t)) as ST.
          { intros t Hst. unfold sigma in Hst. rewrite strip_snoc in Hst. destruct (strip p rho) as [[|z t']|]; try discriminate.
            destruct (Z.eqb_spec x z); [subst; inversion Hst; subst; reflexivity | discriminate]. }
          rewrite R2; [| exact Hr |].
          -- rewrite SK by exact Hr. destruct (strip sigma rho) as [[|y t]|] eqn:Est; try (apply I2; auto).
             exfalso. apply (Hc2 y t (ST _ eq_refl)).
          -- intros x' y' q' Hst. apply (Hc2 x' (y' :: q') (ST _ Hst)).
  Qed.

  Lemma sewb_ok maxd : forall fuel st p k, Pre (broot st) p -> 0 <= k -> k = d - lenZ p -> (Z.to_nat k < fuel)%nat ->
    Post (broot st) (broot (sewb fuel P maxd st p k)) p.
  Proof.
    induction fuel as [|fuel IHf]; intros st p k HPre Hk0 Hkd Hfu; [lia|].
    rewrite sewb_unfold. cbv zeta. cbn [broot].
    pose proof HPre as (W0 & Sp & Np & Bp & (w0 & c0 & Hf) & C0 & D0 & E0).
    destruct (Z.eqb_spec k 0) as [Hz|Hz].
    - cbn [broot]. split; [exact W0 | split; [|reflexivity]].
      intros x y q. rewrite D0. symmetry. change (p ++ x :: y :: q) with (p ++ [x] ++ [y] ++ q). rewrite !app_assoc.
      destruct (B (p ++ [x])) as [w|] eqn:Eb.
      + apply B_prefix; [destruct p; discriminate|]. rewrite (B_rule (p ++ [x]) w y Eb).
        * rewrite lenZ_snoc. destruct (Z.leb_spec (lenZ p + 1 + 1) (d + 1)); [lia | reflexivity].
        * rewrite app_length. cbn [length]. destruct p; [congruence | cbn [length]; lia].
      + rewrite <- app_assoc. apply B_prefix; [destruct p; discriminate | exact Eb].
    - rewrite fold_left_rev_r. unfold kids_at. rewrite Hf.
      set (st1 := mkB (broot st) (Z.max (bdim st) (maxd - k)) (blog st)).
      assert (rec_ok (sewb fuel P maxd) (k - 1)) as Hrec.
      { intros st' sigma HP' Hk'. apply IHf; auto; lia. }
      destruct (loop_ok (sewb fuel P maxd) p k (broot st) w0 c0 HPre ltac:(lia) Hkd Hf Hrec (labs c0) [] eq_refl st1 eq_refl) as (W & I1 & I2).
      pose proof (wf_find p (broot st) w0 c0 W0 Hf) as Wc0.
      assert (forall y, find_val (p ++ [y]) (broot st) = vlookup y (labs c0)) as FS.
      { intro y. rewrite (find_val_app p [y] (broot st) w0 c0) by (auto; discriminate). rewrite find_val_one. symmetry. apply vlookup_labs. exact Wc0. }
      split; [exact W | split].
      + intros x y q. destruct (is_some (vlookup x (labs c0))) eqn:Ex; [apply I1; [discriminate | exact Ex]|].
        rewrite I2; [| destruct p; discriminate |].
        * rewrite D0. symmetry. change (p ++ x :: y :: q) with (p ++ [x] ++ (y :: q)). rewrite app_assoc.
          apply B_prefix; [destruct p; discriminate|]. rewrite <- C0, FS. destruct (vlookup x (labs c0)); [discriminate | reflexivity].
        * intros x' y' q' Hst. rewrite strip_app in Hst. inversion Hst; subst. exact Ex.
      + intros rho Hr Hc. apply I2; [exact Hr|]. intros x y q Hst. exfalso. apply (Hc x y q Hst).
  Qed.

  (* ---- the loop over the root vertices ---- *)
  Definition top_step (fuel : nat) (b : bstate) (e : Z * V * trie) : bstate :=
    let '(x, w, Node c) := e in match c with [] => b | _ :: _ => sewb fuel P d b [x] (d - 1) end.
  Lemma labs_app (a b : sibs) : labs (a ++ b) = labs a ++ labs b.
  Proof. unfold labs. apply map_app. Qed.
  Lemma get_labs x : forall l, wf l -> is_some (get x l) = is_some (vlookup x (labs l)).
  Proof. intros l W. rewrite vlookup_labs by exact W. destruct (get x l); reflexivity. Qed.

  Lemma top_ok fuel root0 : wf root0 -> 2 <= d -> (Z.to_nat (d - 1) < fuel)%nat ->
    (forall rho, (length rho <= 2)%nat -> find_val rho root0 = B rho) ->
    (forall rho, (3 <= length rho)%nat -> find_val rho root0 = None) ->
    forall es pre, root0 = pre ++ es -> forall b0, broot b0 = root0 ->
    let b' := fold_right (fun e b => top_step fuel b e) b0 es in
    wf (broot b') /\
    (forall z y y2 q, is_some (vlookup z (labs es)) = true -> find_val (z :: y :: y2 :: q) (broot b') = B (z :: y :: y2 :: q)) /\
    (forall rho, rho <> [] -> (forall z y y2 q, rho = z :: y :: y2 :: q -> is_some (vlookup z (labs es)) = false) ->
                 find_val rho (broot b') = find_val rho root0).
  Proof.
    intros W0 Hd Hfu G1 G2. pose proof (wf_lsorted root0 W0) as SS.
    induction es as [|[[x w] [c]] rest IH]; intros pre HS b0 Hb0.
    - cbn [fold_right]. cbv zeta. split; [rewrite Hb0; exact W0 | split].
      + intros z y y2 q H. discriminate.
      + intros rho _ _. rewrite Hb0. reflexivity.
    - cbn [fold_right]. cbv zeta.
      assert (root0 = (pre ++ [(x, w, Node c)]) ++ rest) as HS' by (rewrite <- app_assoc; exact HS).
      pose proof (IH (pre ++ [(x, w, Node c)]) HS' b0 Hb0) as IHr. cbv zeta in IHr.
      set (b1 := fold_right (fun e b => top_step fuel b e) b0 rest) in *.
      destruct IHr as (W1 & T1 & T2). set (root1 := broot b1) in *.
      assert (labs root0 = labs pre ++ (x, w) :: labs rest) as HL by (rewrite HS, labs_app; reflexivity).
      assert (lsorted ((x, w) :: labs rest)) as Srest by (apply (lsorted_app_r (labs pre)); rewrite <- HL; exact SS).
      destruct Srest as [Bx Sr]. cbn [fst] in Bx.
      assert (vlookup x (labs rest) = None) as Nx by (apply (vlookup_lbnd x x); [exact Bx | lia]).
      assert (vlookup x (labs root0) = Some w) as Vx by (rewrite HL; apply vlookup_mid; rewrite <- HL; exact SS).
      assert (find_val [x] root0 = Some w) as Fx by (rewrite find_val_one, <- vlookup_labs by exact W0; exact Vx).
      assert (get x root0 = Some (w, Node c)) as Gx.
      { apply in_get; [exact W0|]. rewrite HS. apply in_or_app. right. left. reflexivity. }
      assert (forall rho, (forall z y y2 q, rho = z :: y :: y2 :: q -> is_some (vlookup z ((x, w) :: labs rest)) = false) ->
                          (forall z y y2 q, rho = z :: y :: y2 :: q -> is_some (vlookup z (labs rest)) = false) /\
                          (forall y y2 q, rho <> x :: y :: y2 :: q)) as CI.
      { intros rho H. split.
        - intros z y y2 q Hr. specialize (H z y y2 q Hr). cbn [vlookup] in H. destruct (z =? x); [discriminate | exact H].
        - intros y y2 q Hr. specialize (H x y y2 q Hr). cbn [vlookup] in H. rewrite Z.eqb_refl in H. discriminate. }
      (* words starting with a label that has no children in the graph tree, or with no vertex at all *)
      assert (forall z y y2 q, find_val [z; y] root0 = None -> B (z :: y :: y2 :: q) = None) as BN.
      { intros z y y2 q Hn. change (z :: y :: y2 :: q) with ([z; y] ++ y2 :: q). apply B_prefix; [discriminate|].
        rewrite <- G1 by (cbn; lia). exact Hn. }
      unfold top_step at 1. cbn [labs map label fst snd]. fold (labs rest).
      destruct c as [|e0 c'].
      + (* no edge from x upwards: skipped *)
        split; [exact W1 | split].
        * intros z y y2 q Hz. cbn [vlookup] in Hz. destruct (Z.eqb_spec z x) as [->|Hzx]; [|apply T1; exact Hz].
          rewrite T2; [| discriminate |].
          -- rewrite G2 by (cbn; lia). symmetry. apply BN. rewrite find_val_deep, Gx. apply find_val_nil_l.
          -- intros z' y' y2' q' Hr. inversion Hr; subst. rewrite Nx. reflexivity.
        * intros rho Hr Hc. destruct (CI rho Hc) as [Hc1 _]. apply T2; auto.
      + set (cc := e0 :: c') in *.
        assert (Pre (broot b1) [x]) as Pre1.
        { fold root1. split; [exact W1|]. split; [reflexivity|]. split; [discriminate|].
          split; [rewrite <- G1, Fx by (cbn; lia); discriminate|].
          split.
          { assert (find_val [x] root1 = Some w) as Hv.
            { rewrite T2; [exact Fx | discriminate | intros z y y2 q Hr; discriminate]. }
            unfold find_val in Hv. destruct (find [x] root1) as [[w' [c1]]|]; [|discriminate]. inversion Hv; subst. eauto. }
          split; [|split].
          - intro y. cbn [app]. rewrite T2; [apply G1; cbn; lia | discriminate | intros z y' y2 q Hr; discriminate].
          - intros x2 y q. cbn [app]. rewrite T2; [apply G2; cbn; lia | discriminate |].
            intros z y' y2 q' Hr. inversion Hr; subst. rewrite Nx. reflexivity.
          - intros tau z q Hin Az. cbn [facets] in Hin. destruct Hin as [<-|[]]. cbn [app].
            assert (x < z) as Hxz by (apply Az; left; reflexivity).
            destruct q as [|y [|y2 q2]].
            + rewrite T2; [apply G1; cbn; lia | discriminate | intros z' y' y2' q' Hr; discriminate].
            + rewrite T2; [apply G1; cbn; lia | discriminate | intros z' y' y2' q' Hr; discriminate].
            + destruct (is_some (vlookup z (labs rest))) eqn:Ez; [apply T1; exact Ez|].
              rewrite T2; [| discriminate | intros z' y' y2' q' Hr; inversion Hr; subst; exact Ez].
              rewrite G2 by (cbn; lia). symmetry. apply BN. rewrite find_val_deep.
              destruct (get z root0) as [[wz [cz]]|] eqn:Egz; [|reflexivity]. exfalso.
              assert (is_some (vlookup z (labs rest)) = true); [|congruence].
              apply (lsorted_app_above (labs pre) x w (labs rest) z); [rewrite <- HL; exact SS | | exact Hxz].
              rewrite <- HL, <- get_labs by exact W0. rewrite Egz. reflexivity. }
        assert (d - 1 = d - lenZ [x]) as Hk1 by (unfold lenZ; cbn [length]; lia).
        destruct (sewb_ok d fuel b1 [x] (d - 1) Pre1 ltac:(lia) Hk1 Hfu) as (W3 & R1 & R2). fold root1 in R2.
        split; [exact W3 | split].
        * intros z y y2 q Hz. cbn [vlookup] in Hz. destruct (Z.eqb_spec z x) as [->|Hzx].
          -- apply (R1 y y2 q).
          -- rewrite R2; [apply T1; exact Hz | discriminate |]. intros x2 y' q' Hst. cbn [strip] in Hst.
             destruct (Z.eqb_spec x z); [congruence | discriminate].
        * intros rho Hr Hc. destruct (CI rho Hc) as [Hc1 Hc2]. rewrite R2; [apply T2; auto | exact Hr |].
          intros x2 y q Hst. destruct rho as [|z t]; [congruence|]. cbn [strip] in Hst.
          destruct (Z.eqb_spec x z) as [<-|]; [|discriminate]. inversion Hst; subst. apply (Hc2 x2 y q eq_refl).
  Qed.

  Theorem blockers_rule st : wf (tree st) -> 2 <= d ->
    (forall rho, (length rho <= 2)%nat -> find_val rho (tree st) = B rho) ->
    (forall rho, (3 <= length rho)%nat -> find_val rho (tree st) = None) ->
    let r := fst (exp_blockers P true st d) in
    wf (tree r) /\ forall rho, find_val rho (tree r) = B rho.
  Proof.
    intros W0 Hd G1 G2. unfold exp_blockers. destruct (Z.leb_spec d 1); [lia|]. cbn [andb fst tree].
    set (fuel := (S (length (tree st)) + Z.to_nat d)%nat).
    rewrite fold_left_rev_r.
    assert (Z.to_nat (d - 1) < fuel)%nat as Hfu by (unfold fuel; lia).
    destruct (top_ok fuel (tree st) W0 Hd Hfu G1 G2 (tree st) [] eq_refl (mkB (tree st) (dimn st) []) eq_refl) as (W & T1 & T2).
    cbv zeta in W, T1, T2.
    assert (forall l b, fold_right (fun (x : Z * V * trie) (acc : bstate) =>
                                   let '(x0, _, Node c) := x in match c with [] => acc | _ :: _ => sewb fuel P d acc [x0] (d - 1) end) b l =
                      fold_right (fun e b => top_step fuel b e) b l) as EQ.
    { induction l as [|[[x w] [c]] l IH]; intro b; [reflexivity|]. cbn [fold_right]. rewrite IH. reflexivity. }
    rewrite EQ. split; [exact W|].
    intro rho. destruct rho as [|z [|y [|y2 q]]].
    - rewrite <- (G1 []) by (cbn; lia). reflexivity.
    - rewrite T2; [apply G1; cbn; lia | discriminate | intros z' y' y2' q' Hr; discriminate].
    - rewrite T2; [apply G1; cbn; lia | discriminate | intros z' y' y2' q' Hr; discriminate].
    - destruct (is_some (vlookup z (labs (tree st)))) eqn:Ez; [apply T1; exact Ez|].
      rewrite T2; [| discriminate | intros z' y' y2' q' Hr; inversion Hr; subst; exact Ez].
      rewrite G2 by (cbn; lia). symmetry. change (z :: y :: y2 :: q) with ([z] ++ y :: y2 :: q).
      apply B_prefix; [discriminate|]. rewrite <- G1 by (cbn; lia). rewrite find_val_one, <- vlookup_labs by exact W0.
      destruct (vlookup z (labs (tree st))); [discriminate | reflexivity].
  Qed.
End rule.

(* ------------------------------------------------------------------------------------------------ facets *)
Lemma facets_length : forall s phi, In phi (facets s) -> S (length phi) = length s.
Proof.
  induction s as [|x r IH]; intros phi H; [destruct H|]. cbn [facets] in H. destruct H as [<-|H]; [reflexivity|].
  apply in_map_iff in H as (t & <- & Ht). cbn [length]. f_equal. apply IH; exact Ht.
Qed.
Lemma facets_in : forall s phi b, In phi (facets s) -> In b phi -> In b s.
Proof.
  induction s as [|x r IH]; intros phi b H Hb; [destruct H|]. cbn [facets] in H. destruct H as [<-|H]; [right; exact Hb|].
  apply in_map_iff in H as (t & <- & Ht). destruct Hb as [<-|Hb]; [left; reflexivity | right; eapply IH; eauto].
Qed.
Lemma facets_snoc_in : forall sigma tau y, In tau (facets sigma) -> In (tau ++ [y]) (facets (sigma ++ [y])).
Proof.
  induction sigma as [|a s' IH]; intros tau y H; [destruct H|]. cbn [facets app] in *. destruct H as [<-|H]; [left; reflexivity|].
  apply in_map_iff in H as (t & <- & Ht). right. change ((a :: t) ++ [y]) with (a :: (t ++ [y])). apply in_map. apply IH; exact Ht.
Qed.
Lemma facets_nonnil x r : facets (x :: r) <> [].
Proof. cbn. discriminate. Qed.
Lemma facet_containing : forall sigma b, (2 <= length sigma)%nat -> In b sigma -> exists tau, In tau (facets sigma) /\ In b tau.
Proof.
  intros [|a [|a2 s']] b Hl Hb; cbn [length] in Hl; try lia. destruct Hb as [<-|Hb].
  - exists (a :: s'). split; [cbn [facets]; right; apply in_map; left; reflexivity | left; reflexivity].
  - exists (a2 :: s'). split; [left; reflexivity | exact Hb].
Qed.
Lemma lbound_sub x r phi : lbound x r = true -> (forall b, In b phi -> In b r) -> lbound x phi = true.
Proof.
  intros H Hs. induction phi as [|b phi IH]; [reflexivity|]. cbn [lbound]. rewrite IH by (intros; apply Hs; right; auto).
  pose proof (lbound_in x r b H (Hs b (or_introl eq_refl))). rewrite andb_true_r. lia.
Qed.
Lemma ssortedb_facet : forall s phi, ssortedb s = true -> In phi (facets s) -> ssortedb phi = true.
Proof.
  induction s as [|x r IH]; intros phi Hs H; [destruct H|]. cbn [ssortedb] in Hs. apply andb_prop in Hs as [H1 H2].
  cbn [facets] in H. destruct H as [<-|H]; [exact H2|]. apply in_map_iff in H as (t & <- & Ht). cbn [ssortedb].
  rewrite (IH t H2 Ht), andb_true_r. apply (lbound_sub x r t H1). intros b Hb. eapply facets_in; eauto.
Qed.
Lemma cliqueb_facet G : forall s phi, cliqueb G s = true -> In phi (facets s) -> cliqueb G phi = true.
Proof.
  induction s as [|x r IH]; intros phi Hs H; [destruct H|]. cbn [cliqueb] in Hs. apply andb_prop in Hs as [H1 H3]. apply andb_prop in H1 as [H1 H2].
  cbn [facets] in H. destruct H as [<-|H]; [exact H3|]. apply in_map_iff in H as (t & <- & Ht). cbn [cliqueb].
  rewrite H1, (IH t H3 Ht), andb_true_r. cbn [andb]. rewrite forallb_forall in *. intros b Hb. apply H2. eapply facets_in; eauto.
Qed.
Lemma flag_facet G d s phi : flag G d s <> None -> In phi (facets s) -> phi <> [] -> flag G d phi <> None.
Proof.
  unfold flag. intros H Hin Hn. destruct (ssortedb s) eqn:E1; [|cbn in H; congruence]. cbn [andb] in H.
  destruct (negb (is_nil s)) eqn:E0; [|cbn in H; congruence]. cbn [andb] in H.
  destruct (cliqueb G s) eqn:E2; [|cbn in H; congruence]. cbn [andb] in H.
  destruct (lenZ s <=? d + 1) eqn:E3; [|cbn in H; congruence].
  rewrite (ssortedb_facet s phi E1 Hin), (cliqueb_facet G s phi E2 Hin). destruct phi; [congruence|]. cbn [is_nil negb andb].
  pose proof (facets_length s _ Hin). unfold lenZ in *. destruct (Z.leb_spec (Z.of_nat (length (z :: phi))) (d + 1)); [discriminate | lia].
Qed.

(* ------------------------------------------------------------------------------------------------ the blocked flag complex *)
Lemma forallb_ext_in {A} (f g : A -> bool) l : (forall x, In x l -> f x = g x) -> forallb f l = forallb g l.
Proof. induction l as [|x l IH]; intro H; [reflexivity|]. cbn [forallb]. rewrite (H x), IH; auto; [intros; apply H; right; auto | left; auto]. Qed.
Lemma bflag_some G d P s : is_some (bflag G d P s) = keptb (S (length s)) G d P s.
Proof. unfold bflag. destruct (keptb _ _ _ _ _); reflexivity. Qed.
Lemma bflag_unfold G d P s :
  bflag G d P s =
  if is_some (flag G d s) && ((lenZ s <=? 2) || (negb (P s (fval G s)) && forallb (fun phi => is_some (bflag G d P phi)) (facets s)))
  then Some (fval G s) else None.
Proof.
  unfold bflag at 1. cbn [keptb].
  rewrite (forallb_ext_in (keptb (length s) G d P) (fun phi => is_some (bflag G d P phi)) (facets s)); [reflexivity|].
  intros phi Hin. rewrite bflag_some, (facets_length s phi Hin). reflexivity.
Qed.
Lemma bflag_flag G d P s : bflag G d P s <> None -> flag G d s <> None.
Proof. rewrite bflag_unfold. destruct (flag G d s); [discriminate|]. cbn. congruence. Qed.
Lemma bflag_small G d P s : lenZ s <= 2 -> bflag G d P s = flag G d s.
Proof.
  intro H. rewrite bflag_unfold. destruct (Z.leb_spec (lenZ s) 2); [|lia]. cbn [orb]. rewrite andb_true_r.
  unfold flag. destruct (_ && _ && _ && _); reflexivity.
Qed.
Lemma bflag_facet G d P s phi : bflag G d P s <> None -> In phi (facets s) -> phi <> [] -> bflag G d P phi <> None.
Proof.
  intros H Hin Hn. pose proof (bflag_flag G d P s H) as Hf. rewrite bflag_unfold in H.
  destruct (is_some (flag G d s)) eqn:E; [|cbn in H; congruence]. cbn [andb] in H.
  destruct (Z.leb_spec (lenZ s) 2) as [Hl|Hl].
  - rewrite bflag_small; [apply (flag_facet G d s phi Hf Hin Hn)|]. pose proof (facets_length s phi Hin). unfold lenZ in *. lia.
  - cbn [orb] in H. destruct (negb (P s (fval G s))); [|cbn in H; congruence]. cbn [andb] in H.
    destruct (forallb _ (facets s)) eqn:Ef; [|congruence]. rewrite forallb_forall in Ef. specialize (Ef phi Hin).
    destruct (bflag G d P phi); [discriminate | discriminate Ef].
Qed.
Lemma bflag_sorted G d P s : bflag G d P s <> None -> ssortedb s = true.
Proof. intro H. apply bflag_flag in H. unfold flag in H. destruct (ssortedb s); [reflexivity | cbn in H; congruence]. Qed.
Lemma bflag_prefix G d P sigma : sigma <> [] -> bflag G d P sigma = None -> forall q, bflag G d P (sigma ++ q) = None.
Proof.
  intros Hn H q. induction q as [|z q IH] using rev_ind; [rewrite app_nil_r; exact H|].
  destruct (bflag G d P (sigma ++ q ++ [z])) eqn:E; [|reflexivity]. exfalso.
  assert (bflag G d P (sigma ++ q) <> None); [|congruence].
  apply (bflag_facet G d P ((sigma ++ q) ++ [z])); [rewrite <- app_assoc, E; discriminate | apply facets_last | destruct sigma; [congruence | discriminate]].
Qed.

(* ------------------------------------------------------------------------------------------------ values: the maximum by its upper bounds *)
Lemma mval_le_iff vw e m : forall s, ssortedb s = true -> s <> [] ->
  (mval vw e s <= m <-> (forall x, In x s -> vw x <= m) /\ (forall a b, In a s -> In b s -> a < b -> e a b <= m)).
Proof.
  induction s as [|x [|y t] IH]; intros Hs Hn; [congruence | |].
  - rewrite mval_one. split.
    + intro H. split; [intros z [<-|[]]; exact H | intros a b [<-|[]] [<-|[]] Hab; lia].
    + intros [H _]. apply H. left; reflexivity.
  - rewrite mval_cons2. cbn [ssortedb] in Hs. apply andb_prop in Hs as [H1 H2].
    specialize (IH H2 ltac:(discriminate)). split.
    + intro H. assert (fmx (e x) (vw x) (y :: t) <= m) as Hf by lia. assert (mval vw e (y :: t) <= m) as Hm by lia.
      apply fmx_le_iff in Hf as [Hf1 Hf2]. apply IH in Hm as [Hm1 Hm2]. split.
      * intros z [<-|Hz]; auto.
      * intros a b Ha Hb Hab. destruct Ha as [<-|Ha].
        -- destruct Hb as [<-|Hb]; [lia | apply Hf2; exact Hb].
        -- destruct Hb as [<-|Hb]; [pose proof (lbound_in x _ a H1 Ha); lia | apply Hm2; auto].
    + intros [Hv Hp]. assert (fmx (e x) (vw x) (y :: t) <= m) as Hf.
      { apply fmx_le_iff. split; [apply Hv; left; reflexivity|]. intros u Hu. apply Hp; [left; reflexivity | right; exact Hu | eapply lbound_in; eauto]. }
      assert (mval vw e (y :: t) <= m) as Hm.
      { apply IH. split; [intros z Hz; apply Hv; right; exact Hz | intros a b Ha Hb Hab; apply Hp; auto; right; auto]. }
      lia.
Qed.
Definition PM (G : graph) (s : simplex) (m : V) : Prop := forall a b, In a s -> In b s -> a < b -> ew G a b <= m.
Lemma fval_le_iff G m s : ssortedb s = true -> (2 <= length s)%nat -> (fval G s <= m <-> PM G s m).
Proof.
  intros Hs Hl. destruct s as [|x [|y t]]; cbn [length] in Hl; try lia.
  change (fval G (x :: y :: t)) with (mval (ew G x) (ew G) (y :: t)).
  cbn [ssortedb] in Hs. apply andb_prop in Hs as [H1 H2].
  rewrite (mval_le_iff (ew G x) (ew G) m (y :: t) H2) by discriminate. unfold PM. split.
  - intros [Hv Hp] a b Ha Hb Hab. destruct Ha as [<-|Ha].
    + destruct Hb as [<-|Hb]; [lia | apply Hv; exact Hb].
    + destruct Hb as [<-|Hb]; [pose proof (lbound_in x _ a H1 Ha); lia | apply Hp; auto].
  - intro H. split.
    + intros u Hu. apply H; [left; reflexivity | right; exact Hu | eapply lbound_in; eauto].
    + intros a b Ha Hb Hab. apply H; auto; right; auto.
Qed.
Lemma lbound_app x l1 l2 : lbound x (l1 ++ l2) = lbound x l1 && lbound x l2.
Proof. induction l1 as [|a l1 IH]; [reflexivity|]. cbn [app lbound]. rewrite IH, andb_assoc. reflexivity. Qed.
Lemma forallb_false_ex {A} (f : A -> bool) : forall l, forallb f l = false -> exists x, In x l /\ f x = false.
Proof.
  induction l as [|x l IH]; intro H; [discriminate|]. cbn [forallb] in H. destruct (f x) eqn:E.
  - destruct (IH H) as (z & Hz & Hf). exists z. split; [right; exact Hz | exact Hf].
  - exists x. split; [left; reflexivity | exact E].
Qed.

Section fold_char.
  Variable B : simplex -> option V.
  Variable y : Z.
  Lemma candB_char : forall l a, (forall tau, In tau l -> B (tau ++ [y]) <> None) ->
    exists f, fold_left (fun acc tau => match acc, B (tau ++ [y]) with Some m, Some g => Some (Z.max m g) | _, _ => None end) l (Some a) = Some f /\
              forall m, f <= m <-> a <= m /\ forall tau v, In tau l -> B (tau ++ [y]) = Some v -> v <= m.
  Proof.
    induction l as [|t l IH]; intros a H.
    - exists a. split; [reflexivity|]. intro m. split; [intro; split; [assumption | intros tau v []] | tauto].
    - cbn [fold_left]. destruct (B (t ++ [y])) as [v|] eqn:E; [|exfalso; apply (H t (or_introl eq_refl)); exact E].
      destruct (IH (Z.max a v)) as (f & Hf & Hc); [intros tau Hin; apply H; right; exact Hin|].
      exists f. split; [exact Hf|]. intro m. rewrite Hc. split.
      + intros [H1 H2]. split; [lia|]. intros tau v' [<-|Hin] Hv; [rewrite E in Hv; inversion Hv; lia | eapply H2; eauto].
      + intros [H1 H2]. split; [pose proof (H2 t v (or_introl eq_refl) E); lia | intros tau v' Hin Hv; eapply H2; eauto; right; exact Hin].
  Qed.
End fold_char.

(* ------------------------------------------------------------------------------------------------ bflag obeys the rule *)
Lemma flag_parts G d s : flag G d s <> None -> ssortedb s = true /\ cliqueb G s = true /\ lenZ s <= d + 1 /\ s <> [].
Proof.
  unfold flag. intro H. destruct (ssortedb s); [|cbn in H; congruence]. destruct s as [|x r]; [cbn in H; congruence|].
  cbn [is_nil negb andb] in H. destruct (cliqueb G (x :: r)); [|cbn in H; congruence]. cbn [andb] in H.
  destruct (Z.leb_spec (lenZ (x :: r)) (d + 1)); [|congruence]. repeat split; auto. discriminate.
Qed.
Lemma flag_from_facets G d sigma y : (2 <= length sigma)%nat -> flag G d sigma <> None ->
  (forall tau, In tau (facets sigma) -> flag G d (tau ++ [y]) <> None) ->
  ssortedb (sigma ++ [y]) = true /\ cliqueb G (sigma ++ [y]) = true.
Proof.
  intros Hl Hs Hf. destruct sigma as [|a [|a2 s2]]; cbn [length] in Hl; try lia.
  destruct (flag_parts G d _ Hs) as (S1 & C1 & _ & _).
  destruct (flag_parts G d _ (Hf (a2 :: s2) (or_introl eq_refl))) as (S2 & C2 & _ & _).
  assert (In (a :: s2) (facets (a :: a2 :: s2))) as Hin by (cbn [facets]; right; apply in_map; left; reflexivity).
  destruct (flag_parts G d _ (Hf (a :: s2) Hin)) as (S3 & C3 & _ & _).
  cbn [app] in *. cbn [ssortedb] in S1, S3 |- *. cbn [cliqueb] in C1, C3 |- *.
  apply andb_prop in S1 as [S1a S1b]. apply andb_prop in S3 as [S3a S3b].
  apply andb_prop in C1 as [C1a C1c]. apply andb_prop in C1a as [C1a C1b].
  apply andb_prop in C3 as [C3a C3c]. apply andb_prop in C3a as [C3a C3b].
  assert (a < y) as Hay by (eapply lbound_in; [exact S3a | apply in_or_app; right; left; reflexivity]).
  assert (adj G a y = true) as Aay.
  { rewrite forallb_forall in C3b. apply C3b. apply in_or_app; right; left; reflexivity. }
  split.
  - change (a2 :: s2 ++ [y]) with ((a2 :: s2) ++ [y]). rewrite lbound_app, S1a. cbn [lbound andb].
    change ((a2 :: s2) ++ [y]) with (a2 :: s2 ++ [y]). cbn [ssortedb] in S2. rewrite S2. rewrite !andb_true_r. clear - Hay. lia.
  - rewrite C1a. cbn [andb]. change (a2 :: s2 ++ [y]) with ((a2 :: s2) ++ [y]). rewrite forallb_app, C1b. cbn [forallb andb].
    rewrite Aay. cbn [andb]. change ((a2 :: s2) ++ [y]) with (a2 :: s2 ++ [y]). cbn [cliqueb] in C2. exact C2.
Qed.
Lemma bflag_value G d P s w : bflag G d P s = Some w -> w = fval G s.
Proof. unfold bflag. destruct (keptb _ _ _ _ _); intro H; inversion H; reflexivity. Qed.

Theorem bflag_rule G d P sigma w y : bflag G d P sigma = Some w -> (2 <= length sigma)%nat ->
  bflag G d P (sigma ++ [y]) =
  if lenZ sigma + 1 <=? d + 1
  then match candB (bflag G d P) sigma w y with
       | Some f => if P (sigma ++ [y]) f then None else Some f
       | None => None end
  else None.
Proof.
  intros Hw Hl. set (rho := sigma ++ [y]).
  assert (bflag G d P sigma <> None) as Hs by (rewrite Hw; discriminate).
  destruct (forallb (fun tau => is_some (bflag G d P (tau ++ [y]))) (facets sigma)) eqn:Ef.
  - rewrite forallb_forall in Ef.
    assert (forall tau, In tau (facets sigma) -> bflag G d P (tau ++ [y]) <> None) as Hall.
    { intros tau Hin. specialize (Ef tau Hin). destruct (bflag G d P (tau ++ [y])); [discriminate | discriminate Ef]. }
    destruct (candB_char (bflag G d P) y (facets sigma) w Hall) as (f & Hf & Hc). assert (candB (bflag G d P) sigma w y = Some f) as Hf' by exact Hf. rewrite Hf'.
    destruct (flag_from_facets G d sigma y Hl (bflag_flag G d P sigma Hs)) as [Sr Cr].
    { intros tau Hin. apply (bflag_flag G d P). apply Hall; exact Hin. }
    fold rho in Sr, Cr.
    assert (lenZ rho = lenZ sigma + 1) as Lr by (unfold rho; apply lenZ_snoc).
    assert (flag G d rho = if lenZ sigma + 1 <=? d + 1 then Some (fval G rho) else None) as Fr.
    { unfold flag. rewrite Sr, Cr, Lr. unfold rho. destruct sigma; reflexivity. }
    rewrite bflag_unfold, Fr. destruct (lenZ sigma + 1 <=? d + 1) eqn:El; [|reflexivity]. cbn [is_some andb].
    assert (2 <= lenZ sigma) as L2 by (unfold lenZ; lia).
    destruct (Z.leb_spec (lenZ rho) 2); [lia|]. cbn [orb].
    assert (forallb (fun phi => is_some (bflag G d P phi)) (facets rho) = true) as ->.
    { apply forallb_forall. intros phi Hin. unfold rho in Hin. apply facets_snoc in Hin as [->|(t' & Ht' & ->)].
      - rewrite Hw. reflexivity.
      - destruct (bflag G d P (t' ++ [y])) eqn:E; [reflexivity | exfalso; apply (Hall t' Ht'); exact E]. }
    rewrite andb_true_r.
    assert (fval G rho = f) as ->.
    { assert (forall m, fval G rho <= m <-> f <= m) as Hm.
      { intro m. rewrite (fval_le_iff G m rho Sr) by (unfold rho; rewrite app_length; cbn [length]; lia). rewrite Hc.
        rewrite (bflag_value G d P sigma w Hw).
        rewrite (fval_le_iff G m sigma (bflag_sorted G d P sigma Hs) Hl).
        pose proof (ssortedb_snoc_above sigma y Sr) as Ay. split.
        - intro HH. split.
          + intros a b Ha Hb Hab. apply HH; auto; unfold rho; apply in_or_app; left; auto.
          + intros tau v Hin Hv. rewrite (bflag_value G d P _ v Hv).
            apply fval_le_iff; [apply (bflag_sorted G d P); rewrite Hv; discriminate | |].
            * rewrite app_length. cbn [length]. pose proof (facets_length sigma tau Hin). lia.
            * intros a b Ha Hb Hab. apply HH; auto; unfold rho; apply in_app_or in Ha; apply in_app_or in Hb; apply in_or_app.
              -- destruct Ha as [Ha|Ha]; [left; eapply facets_in; eauto | right; exact Ha].
              -- destruct Hb as [Hb|Hb]; [left; eapply facets_in; eauto | right; exact Hb].
        - intros [H1 H2] a b Ha Hb Hab. unfold rho in Ha, Hb. apply in_app_or in Ha. apply in_app_or in Hb.
          destruct Ha as [Ha|[<-|[]]]; destruct Hb as [Hb|[<-|[]]].
          + apply H1; auto.
          + destruct (facet_containing sigma a Hl Ha) as (tau & Hin & Hat).
            destruct (bflag G d P (tau ++ [y])) as [v|] eqn:Ev; [|exfalso; apply (Hall tau Hin); exact Ev].
            pose proof (H2 tau v Hin Ev) as Hv. rewrite (bflag_value G d P _ v Ev) in Hv.
            apply fval_le_iff in Hv; [| apply (bflag_sorted G d P); rewrite Ev; discriminate |].
            * apply Hv; auto; apply in_or_app; [left; exact Hat | right; left; reflexivity].
            * rewrite app_length. cbn [length]. pose proof (facets_length sigma tau Hin). lia.
          + pose proof (Ay b Hb). lia.
          + lia. }
      assert (fval G rho <= f) by (apply Hm; lia). assert (f <= fval G rho) by (apply Hm; lia). lia. }
    destruct (P rho f); reflexivity.
  - apply forallb_false_ex in Ef as (tau & Hin & Hn).
    assert (bflag G d P (tau ++ [y]) = None) as Hn' by (destruct (bflag G d P (tau ++ [y])); [discriminate | reflexivity]).
    rewrite (candB_none (bflag G d P) sigma w y tau Hin Hn').
    assert (bflag G d P rho = None) as ->; [|destruct (_ <=? _); reflexivity].
    destruct (bflag G d P rho) eqn:E; [|reflexivity]. exfalso.
    assert (bflag G d P (tau ++ [y]) <> None); [|congruence].
    apply (bflag_facet G d P rho); [rewrite E; discriminate | apply facets_snoc_in; exact Hin | destruct tau; discriminate].
Qed.

(* ------------------------------------------------------------------------------------------------ final statements *)
Lemma flag_dim_small G d s : lenZ s <= 2 -> 1 <= d -> flag G 1 s = flag G d s.
Proof.
  intros Hl Hd. unfold flag. destruct (Z.leb_spec (lenZ s) (1 + 1)), (Z.leb_spec (lenZ s) (d + 1)); try lia. reflexivity.
Qed.
Lemma flag_long G s : 3 <= lenZ s -> flag G 1 s = None.
Proof. intro H. unfold flag. destruct (Z.leb_spec (lenZ s) (1 + 1)); [lia|]. rewrite andb_false_r. reflexivity. Qed.

Theorem blockers_maximal G st d P : edges_okb G = true -> ins_graph G = Some st -> 2 <= d ->
  let r := fst (exp_blockers P true st d) in
  wf (tree r) /\ forall s, lookup (abs (tree r)) s = bflag G d P s.
Proof.
  intros Hok Hi Hd. destruct (graph_flag1 G st Hok Hi) as (W & F & _).
  assert (wf (tree (fst (exp_blockers P true st d))) /\ forall rho, find_val rho (tree (fst (exp_blockers P true st d))) = bflag G d P rho) as [W' F'].
  { apply (blockers_rule P d (bflag G d P)); auto.
    - intros sigma w y. apply bflag_rule.
    - intros sigma q Hn H. apply bflag_prefix; auto.
    - apply bflag_sorted.
    - intros rho Hl. rewrite <- find_abs by exact W. rewrite F. rewrite bflag_small by (unfold lenZ; lia).
      apply flag_dim_small; [unfold lenZ; lia | lia].
    - intros rho Hl. rewrite <- find_abs by exact W. rewrite F. apply flag_long. unfold lenZ; lia. }
  cbv zeta. split; [exact W'|]. intro s. rewrite find_abs by exact W'. apply F'.
Qed.

Lemma bflag_never G d : forall n s, length s = n -> bflag G d (fun _ _ => false) s = flag G d s.
Proof.
  induction n as [|n IH]; intros s Hn.
  - destruct s; [|discriminate]. reflexivity.
  - rewrite bflag_unfold. destruct (flag G d s) as [v|] eqn:Ef; [|reflexivity]. cbn [is_some andb negb].
    assert (v = fval G s) as -> by (unfold flag in Ef; destruct (_ && _ && _ && _); inversion Ef; reflexivity).
    destruct (Z.leb_spec (lenZ s) 2) as [Hl|Hl]; [reflexivity|]. cbn [orb].
    assert (forallb (fun phi => is_some (bflag G d (fun _ _ => false) phi)) (facets s) = true) as ->; [|reflexivity].
    apply forallb_forall. intros phi Hin. pose proof (facets_length s phi Hin) as Hlen.
    rewrite (IH phi) by lia.
    assert (flag G d phi <> None) as Hf.
    { apply (flag_facet G d s phi); [rewrite Ef; discriminate | exact Hin |]. destruct phi; [|discriminate]. cbn in Hlen. unfold lenZ in Hl. lia. }
    destruct (flag G d phi); [reflexivity | congruence].
Qed.
Theorem blockers_never_block G st d : edges_okb G = true -> ins_graph G = Some st -> 2 <= d ->
  let r := fst (exp_blockers (fun _ _ => false) true st d) in
  wf (tree r) /\ (forall s, lookup (abs (tree r)) s = flag G d s) /\
  (forall s, lookup (abs (tree r)) s = lookup (abs (tree (expansion st d))) s).
Proof.
  intros Hok Hi Hd. destruct (blockers_maximal G st d (fun _ _ => false) Hok Hi Hd) as [W F]. cbv zeta in *.
  destruct (expansion_flag G st d Hok Hi Hd) as (_ & Fe & _).
  split; [exact W | split]; intro s; rewrite F, (bflag_never G d (length s) s eq_refl); [reflexivity | symmetry; apply Fe].
Qed.

(* bflag is the largest subcomplex of the flag complex without blocked simplex (of dimension >= 2) *)
Theorem bflag_is_subcomplex G d P s : bflag G d P s <> None ->
  flag G d s <> None /\ (forall phi, In phi (facets s) -> phi <> [] -> bflag G d P phi <> None) /\
  (3 <= lenZ s -> P s (fval G s) = false).
Proof.
  intro H. split; [apply (bflag_flag G d P); exact H | split; [intros phi Hin Hn; apply (bflag_facet G d P s); auto|]].
  intro Hl. rewrite bflag_unfold in H. destruct (is_some (flag G d s)); [|cbn in H; congruence]. cbn [andb] in H.
  destruct (Z.leb_spec (lenZ s) 2); [lia|]. cbn [orb] in H. destruct (P s (fval G s)); [cbn in H; congruence | reflexivity].
Qed.
Theorem bflag_largest G d P (K : simplex -> bool) :
  (forall s, K s = true -> flag G d s <> None) ->
  (forall s phi, K s = true -> In phi (facets s) -> phi <> [] -> K phi = true) ->
  (forall s, K s = true -> 3 <= lenZ s -> P s (fval G s) = false) ->
  forall s, K s = true -> bflag G d P s <> None.
Proof.
  intros K1 K2 K3. assert (forall n s, length s = n -> K s = true -> bflag G d P s <> None) as H; [|intros s; apply (H (length s) s eq_refl)].
  induction n as [|n IH]; intros s Hn Hk.
  - destruct s; [|discriminate]. exfalso. apply (K1 [] Hk). reflexivity.
  - rewrite bflag_unfold. pose proof (K1 s Hk) as Hf. destruct (flag G d s); [|congruence]. cbn [is_some andb].
    destruct (Z.leb_spec (lenZ s) 2) as [Hl|Hl]; [cbn; discriminate|]. cbn [orb].
    rewrite (K3 s Hk) by lia. cbn [negb andb].
    assert (forallb (fun phi => is_some (bflag G d P phi)) (facets s) = true) as ->; [|discriminate].
    apply forallb_forall. intros phi Hin. pose proof (facets_length s phi Hin) as Hlen.
    assert (phi <> []) as Hp by (destruct phi; [cbn in Hlen; unfold lenZ in Hl; lia | discriminate]).
    pose proof (IH phi ltac:(lia) (K2 s phi Hk Hin Hp)). destruct (bflag G d P phi); [reflexivity | congruence].
Qed.
