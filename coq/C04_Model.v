(* C04_Model.v - flag (clique) expansions of the simplex tree, by every route.
   SPECIFICATION side: weighted graphs, cliques, [flag G d] (value = largest edge value, a vertex keeps its own),
   the blocked flag complex [bflag], the threshold graph of a distance.
   ALGORITHM side (on the tries of Trie.v, following Simplex_tree.h): insert_graph, intersection<force>,
   expansion(max_dim) = siblings_expansion + create_expansion<false> with the dimension_ bookkeeping,
   expansion_with_blockers = siblings_expansion_with_blockers (reverse sibling loop, faces looked up in the tree under
   construction), insert_edge_as_flag = compute_punctual_expansion + create_local_expansion + create_expansion<true>,
   Rips_complex::compute_proximity_graph + create_complex.  Definitions only (facts are in C04_Proofs.v). *)
From Coq Require Import ZArith List Lia Bool.
Import ListNotations.
Require Import Simplex Trie.
Local Open Scope Z_scope.

(* ================================================================================================ specification *)
Record graph := mkG { gverts : list (Z * V); gedges : list (Z * Z * V) }.

Fixpoint vlookup (x : Z) (l : list (Z * V)) : option V :=
  match l with [] => None | (y, w) :: r => if x =? y then Some w else vlookup x r end.
(* an edge is read in either orientation; of parallel edges the first one counts *)
Fixpoint elookup (x y : Z) (l : list (Z * Z * V)) : option V :=
  match l with
  | [] => None
  | (a, b, w) :: r => if ((a =? x) && (b =? y)) || ((a =? y) && (b =? x)) then Some w else elookup x y r
  end.
Definition vval (G : graph) (x : Z) : option V := vlookup x (gverts G).
Definition eval (G : graph) (x y : Z) : option V := elookup x y (gedges G).
Definition adj (G : graph) (x y : Z) : bool := is_some (eval G x y).
Definition ew (G : graph) (x y : Z) : V := match eval G x y with Some w => w | None => 0 end.

Fixpoint cliqueb (G : graph) (s : simplex) : bool :=
  match s with
  | [] => true
  | x :: r => is_some (vval G x) && forallb (adj G x) r && cliqueb G r
  end.

(* largest of: the weights [vw] of the listed vertices and the weights [ewf] of the pairs of listed vertices *)
Definition fmx (g : Z -> V) (a : V) (r : list Z) : V := fold_right (fun y m => Z.max (g y) m) a r.
Fixpoint mval (vw : Z -> V) (ewf : Z -> Z -> V) (s : simplex) : V :=
  match s with
  | [] => 0
  | x :: r => match r with [] => vw x | _ :: _ => Z.max (fmx (ewf x) (vw x) r) (mval vw ewf r) end
  end.
(* value of a clique: a vertex has its own value, an edge its own, a larger clique the largest of its edges *)
Definition fval (G : graph) (s : simplex) : V :=
  match s with
  | [] => 0
  | [x] => match vval G x with Some w => w | None => 0 end
  | x :: r => mval (ew G x) (ew G) r
  end.
(* the same with the vertex values taken into the maximum (equal to [fval] when no edge is below its end points) *)
Definition fval_all (G : graph) (s : simplex) : V :=
  mval (fun x => match vval G x with Some w => w | None => 0 end) (ew G) s.
Definition lenZ {A} (l : list A) : Z := Z.of_nat (length l).

Definition flag (G : graph) (d : Z) (s : simplex) : option V :=
  if ssortedb s && negb (is_nil s) && cliqueb G s && (lenZ s <=? d + 1) then Some (fval G s) else None.

Definition vlabels (G : graph) : simplex := norm (map fst (gverts G)).
(* all simplices of [flag G d] in lexicographic order (the order of [abs]) *)
Fixpoint lexsubs (s : simplex) : list simplex :=      (* non-empty sublists in lexicographic order *)
  match s with [] => [] | x :: r => [x] :: map (cons x) (lexsubs r) ++ lexsubs r end.
Definition cplx_of (f : simplex -> option V) (vs : simplex) : cplx :=
  flat_map (fun s => match f s with Some w => [(s, w)] | None => [] end) (lexsubs vs).
Definition flag_cplx (G : graph) (d : Z) : cplx := cplx_of (flag G d) (vlabels G).

(* hypotheses on the input graph: distinct vertices, no loop, end points are vertices *)
Definition graph_okb (G : graph) : bool :=
  ssortedb (vlabels G) && (length (vlabels G) =? length (gverts G))%nat &&
  forallb (fun e => let '(a, b, _) := e in negb (a =? b) && is_some (vval G a) && is_some (vval G b)) (gedges G).
Definition graph_monob (G : graph) : bool :=
  forallb (fun e => let '(a, b, w) := e in
                    match vval G a, vval G b with Some wa, Some wb => (wa <=? w) && (wb <=? w) | _, _ => true end) (gedges G).

(* ---- blockers: the rule "kept iff a clique within the dimension, and (vertex, edge, or not blocked with all facets kept)" *)
Fixpoint facets (s : simplex) : list simplex :=
  match s with [] => [] | x :: r => r :: map (cons x) (facets r) end.
Fixpoint keptb (fuel : nat) (G : graph) (d : Z) (P : simplex -> V -> bool) (s : simplex) : bool :=
  match fuel with
  | O => false
  | S f =>
      is_some (flag G d s) &&
      ((lenZ s <=? 2) || (negb (P s (fval G s)) && forallb (keptb f G d P) (facets s)))
  end.
Definition bflag (G : graph) (d : Z) (P : simplex -> V -> bool) (s : simplex) : option V :=
  if keptb (S (length s)) G d P s then Some (fval G s) else None.
Definition bflag_cplx (G : graph) (d : Z) (P : simplex -> V -> bool) : cplx := cplx_of (bflag G d P) (vlabels G).
(* deterministic blocker families of the runs *)
Definition vhash (s : simplex) : Z := fold_left (fun h v => (h * 31 + (v mod 1000003)) mod 1000003) s 7.
Inductive blocker := BNone | BDimGe (m : Z) | BVal (t : V) | BHash (m r : Z).
Definition blocks (b : blocker) (s : simplex) (w : V) : bool :=
  match b with
  | BNone => false
  | BDimGe m => m <=? lenZ s - 1
  | BVal t => t <? w
  | BHash m r => if m =? 0 then false else Z.rem (vhash s) m =? r
  end.

(* ---- Rips: threshold graph of a distance on 0..n-1 *)
Fixpoint zrange (a : Z) (n : nat) : list Z := match n with O => [] | S k => a :: zrange (a + 1) k end.
Definition prox_graph (n : nat) (dist : Z -> Z -> V) (thr : V) : graph :=
  mkG (map (fun i => (i, 0)) (zrange 0 n))
      (flat_map (fun i => flat_map (fun j => if (i <? j) && (dist i j <=? thr) then [(i, j, dist i j)] else []) (zrange 0 n))
                (zrange 0 n)).
(* the Rips complex as the mathematical object: vertex sets of diameter <= thr with at most d+1 points, value = diameter *)
Definition inrange (n : nat) (s : simplex) : bool := forallb (fun x => (0 <=? x) && (x <? Z.of_nat n)) s.
Fixpoint pairs_le (dist : Z -> Z -> V) (thr : V) (s : simplex) : bool :=
  match s with [] => true | x :: r => forallb (fun y => dist x y <=? thr) r && pairs_le dist thr r end.
Definition rips_spec (n : nat) (dist : Z -> Z -> V) (thr : V) (d : Z) (s : simplex) : option V :=
  if ssortedb s && negb (is_nil s) && inrange n s && pairs_le dist thr s && (lenZ s <=? d + 1)
  then Some (match s with [_] => 0 | x :: r => mval (dist x) dist r | [] => 0 end) else None.
Fixpoint nth_pt (k : nat) (pts : list (list Z)) : list Z := match pts, k with p :: _, O => p | _ :: r, S k' => nth_pt k' r | [], _ => [] end.
Fixpoint sqd (p q : list Z) : Z := match p, q with a :: p', b :: q' => (a - b) * (a - b) + sqd p' q' | _, _ => 0 end.
Definition dist_pts (pts : list (list Z)) (i j : Z) : V := sqd (nth_pt (Z.to_nat i) pts) (nth_pt (Z.to_nat j) pts).
(* lower triangular matrix: row j holds the distances to the points i < j *)
Definition dist_mat (m : list (list Z)) (i j : Z) : V := nth (Z.to_nat i) (nth_pt (Z.to_nat j) m) 0.

(* ================================================================================================ algorithm models *)
Record state := mkS { tree : sibs; dimn : Z }.
Definition empty_state : state := mkS [] (-1).

Definition lv := list (Z * V).                      (* one Siblings object read as (label, filtration) pairs *)
Definition labs (l : sibs) : lv := map (fun e => (label e, snd (fst e))) l.
Definition leaves (l : lv) : sibs := map (fun p => (fst p, snd p, leaf)) l.
Fixpoint memv (x : Z) (l : lv) : bool := match l with [] => false | (y, _) :: r => (x =? y) || memv x r end.

(* ---- insert_graph ---- *)
Definition ins_vertex (root : sibs) (p : Z * V) : sibs :=
  match get (fst p) root with Some _ => root | None => put (fst p) (snd p) leaf root end.
Definition ins_edge (root : option sibs) (e : Z * Z * V) : option sibs :=
  match root with
  | None => None
  | Some root =>
      let '(u, v, w) := e in
      if u =? v then None                                   (* std::invalid_argument: self-loop *)
      else let a := Z.min u v in let b := Z.max u v in
           match get a root with
           | None => None                                   (* end point missing: undefined behaviour, excluded *)
           | Some (wa, Node c) =>
               Some (put a wa (Node (match get b c with Some _ => c | None => put b w leaf c end)) root)
           end
  end.
Definition ins_graph (G : graph) : option state :=
  match gverts G with
  | [] => Some empty_state
  | _ :: _ =>
      match fold_left ins_edge (gedges G) (Some (fold_left ins_vertex (gverts G) [])) with
      | Some t => Some (mkS t (if is_nil (gedges G) then 0 else 1))
      | None => None
      end
  end.

(* ---- Simplex_tree::intersection<force_filtration_value>: merge walk over two sorted ranges ---- *)
Fixpoint inter (force : bool) (l1 : lv) (l2 : lv) (fil : V) {struct l1} : lv :=
  match l1 with
  | [] => []
  | (x, a) :: r1 =>
      (fix go (l2 : lv) : lv :=
         match l2 with
         | [] => []
         | (y, b) :: r2 =>
             match x ?= y with
             | Eq => (x, if force then fil else Z.max (Z.max a b) fil) :: inter force r1 r2 fil
             | Lt => inter force r1 l2 fil
             | Gt => go r2
             end
         end) l2
  end.

(* N^+(x): find_vertex(x)->children() read as (label, filtration); its labels and values are not modified by the expansions *)
Definition nbrs (root : sibs) (x : Z) : lv :=
  match get x root with Some (_, Node c) => labs c | None => [] end.

(* ---- expansion(max_dim): siblings_expansion(siblings, k) / create_expansion<false> ----
   [expand nb k l]: the members of [l] (leaves when visited) receive their children; k as in the C++ *)
Fixpoint expand (nb : Z -> lv) (k : nat) : lv -> sibs :=
  fix go (l : lv) : sibs :=
    match l with
    | [] => []
    | (x, w) :: r =>
        (x, w, Node (match k with O => [] | S k' => expand nb k' (inter false r (nb x) w) end)) :: go r
    end.
(* the smallest k with which siblings_expansion is entered (dimension_ = min(dimension_, k)) *)
Fixpoint mink (nb : Z -> lv) (k : nat) : lv -> Z :=
  fix go (l : lv) : Z :=
    match l with
    | [] => Z.of_nat k
    | (x, w) :: r =>
        Z.min (match k with
               | O => 0
               | S k' => match inter false r (nb x) w with [] => Z.of_nat k | i => mink nb k' i end
               end) (go r)
    end.
Definition expansion (st : state) (d : Z) : state :=
  if d <=? 1 then st
  else if is_nil (tree st) then st
  else
    let nb := nbrs (tree st) in
    let k := Z.to_nat (d - 1) in
    mkS (map (fun e => let '(x, w, Node c) := e in
                       (x, w, Node (match c with [] => [] | _ :: _ => expand nb k (labs c) end))) (tree st))
        (d - fold_right (fun e m => let '(x, w, Node c) := e in
                                    match c with [] => m | _ :: _ => Z.min (mink nb k (labs c)) m end) d (tree st)).

(* ---- expansion_with_blockers ---- *)
Fixpoint set_kids (p : simplex) (c : sibs) (l : sibs) : sibs :=
  match p with
  | [] => c
  | x :: q => match get x l with Some (w, Node cx) => put x w (Node (set_kids q c cx)) l | None => l end
  end.
Definition kids_at (p : simplex) (l : sibs) : sibs :=
  match find p l with Some (_, Node c) => c | None => [] end.
Fixpoint tails {A} (l : list A) : list (A * list A) :=
  match l with [] => [] | x :: r => (x, r) :: tails r end.
(* candidate sigma+y: every facet tau of sigma must have the child y; value = max of sigma and these children *)
Definition cand_val (root : sibs) (sigma : simplex) (w : V) (y : Z) : option V :=
  fold_left (fun acc tau => match acc, find_val (tau ++ [y]) root with
                            | Some m, Some f => Some (Z.max m f)
                            | _, _ => None end) (facets sigma) (Some w).
Record bstate := mkB { broot : sibs; bdim : Z; blog : cplx }.
Fixpoint sewb (fuel : nat) (P : simplex -> V -> bool) (maxd : Z) (st : bstate) (p : simplex) (k : Z) : bstate :=
  let st := mkB (broot st) (Z.max (bdim st) (maxd - k)) (blog st) in
  if k =? 0 then st
  else
    let S := labs (kids_at p (broot st)) in
    match fuel with
    | O => st
    | S fuel' =>
        fold_left
          (fun (st : bstate) (xr : Z * V * lv) =>
             let '(x, w, later) := xr in
             let sigma := p ++ [x] in
             let cand := flat_map (fun yv => match cand_val (broot st) sigma w (fst yv) with
                                            | Some f => [(fst yv, f)] | None => [] end) later in
             match cand with
             | [] => st
             | _ :: _ =>
                 let kept := filter (fun yv => negb (P (sigma ++ [fst yv]) (snd yv))) cand in
                 let log := blog st ++ map (fun yv => (sigma ++ [fst yv], snd yv)) cand in
                 match kept with
                 | [] => mkB (broot st) (bdim st) log
                 | _ :: _ => sewb fuel' P maxd (mkB (set_kids sigma (leaves kept) (broot st)) (bdim st) log) sigma (k - 1)
                 end
             end)
          (rev (map (fun t => (fst (fst t), snd (fst t), snd t)) (tails S)))   (* reverse loop; the last one has no later sibling *)
          st
    end.
Definition exp_blockers (P : simplex -> V -> bool) (fx : bool) (st : state) (d : Z) : state * cplx :=
  if fx && (d <=? 1) then (st, [])
  else
    let fuel := (S (length (tree st)) + Z.to_nat d)%nat in
    let r := fold_left (fun (b : bstate) (e : Z * V * trie) =>
                          let '(x, w, Node c) := e in
                          match c with [] => b | _ :: _ => sewb fuel P d b [x] (d - 1) end)
                       (rev (tree st)) (mkB (tree st) (dimn st) []) in
    (mkS (broot r) (bdim r), blog r).

(* ---- insert_edge_as_flag ---- *)
(* siblings_expansion(siblings, fil, k, added) / create_expansion<true>: every new node carries [fil] *)
Fixpoint fexp (nb : Z -> lv) (fuel : nat) (fil : V) (k : Z) : lv -> sibs :=
  fix go (l : lv) : sibs :=
    match l with
    | [] => []
    | (x, w) :: r =>
        (x, w, Node (if k =? 0 then []
                     else match fuel with O => [] | S f => fexp nb f fil (k - 1) (inter true r (nb x) fil) end)) :: go r
    end.
Fixpoint fmink (nb : Z -> lv) (fuel : nat) (fil : V) (k : Z) : lv -> Z :=
  fix go (l : lv) : Z :=
    match l with
    | [] => k
    | (x, w) :: r =>
        Z.min (if k =? 0 then k
               else match inter true r (nb x) fil with
                    | [] => k
                    | i => match fuel with O => k | S f => fmink nb f fil (k - 1) i end
                    end) (go r)
    end.
Definition succs (v : Z) (sib : sibs) : lv := labs (filter (fun e => v <? label e) sib).
(* compute_punctual_expansion(v, sib, fil, k) with create_local_expansion *)
Fixpoint punct (nb : Z -> lv) (fuel : nat) (v : Z) (fil : V) (k : Z) (sib : sibs) : sibs :=
  match fuel with
  | O => sib
  | S f =>
      if k =? 0 then put v fil leaf sib
      else
        let vkids := fexp nb f fil (k - 1) (inter true (succs v sib) (nb v) fil) in
        put v fil (Node vkids)
            (map (fun e => let '(x, w, Node c) := e in
                           if (x <? v) && memv v (nb x) then (x, w, Node (punct nb f v fil (k - 1) c)) else e) sib)
  end.
Fixpoint pmink (nb : Z -> lv) (fuel : nat) (v : Z) (fil : V) (k : Z) (sib : sibs) : Z :=
  match fuel with
  | O => k
  | S f =>
      if k =? 0 then 0
      else
        let m1 := match inter true (succs v sib) (nb v) fil with [] => k | i => fmink nb f fil (k - 1) i end in
        fold_right (fun e m => let '(x, w, Node c) := e in
                               if (x <? v) && memv v (nb x) then Z.min (pmink nb f v fil (k - 1) c) m else m)
                   (Z.min k m1) sib
  end.
(* the loop over nodes_by_label(u): every Siblings holding both u and v, at dimension [cur] *)
Fixpoint eaf_sibs (nb : Z -> lv) (fuel : nat) (u v : Z) (fil : V) (dmax : Z) (cur : Z) (l : sibs) : sibs :=
  match fuel with
  | O => l
  | S f =>
      let hasv := is_some (get v l) in
      map (fun e => let '(x, w, Node c) := e in
                    if (x =? u) && hasv && ((dmax =? -1) || (cur <? dmax))
                    then (x, w, Node (punct nb (S f) v fil (dmax - cur - 1) c))
                    else (x, w, Node (eaf_sibs nb f u v fil dmax (cur + 1) c))) l
  end.
Fixpoint eaf_dims (nb : Z -> lv) (fuel : nat) (u v : Z) (fil : V) (dmax : Z) (cur : Z) (l : sibs) : list Z :=
  match fuel with
  | O => []
  | S f =>
      let hasv := is_some (get v l) in
      flat_map (fun e => let '(x, w, Node c) := e in
                         if (x =? u) && hasv && ((dmax =? -1) || (cur <? dmax))
                         then [dmax - pmink nb (S f) v fil (dmax - cur - 1) c]
                         else eaf_dims nb f u v fil dmax (cur + 1) c) l
  end.
Definition insert_edge_as_flag (st : state) (u0 v0 : Z) (fil : V) (dmax : Z) : state :=
  if u0 =? v0 then
    match get u0 (tree st) with
    | Some _ => st
    | None => mkS (put u0 fil leaf (tree st)) (if dimn st =? -1 then 0 else dimn st)
    end
  else
    let u := Z.min u0 v0 in let v := Z.max u0 v0 in
    let fuel := S (S (length (tree st))) in
    let nb := nbrs (tree st) in
    mkS (eaf_sibs nb fuel u v fil dmax 0 (tree st))
        (fold_left Z.max (eaf_dims nb fuel u v fil dmax 0 (tree st)) (dimn st)).

(* ---- make_filtration_non_decreasing, at specification level (its algorithm is the subject of C03):
   every simplex takes the largest value among its faces ---- *)
Fixpoint mfnd_t (root : sibs) (pre : simplex) (t : trie) : trie :=
  match t with
  | Node l => Node ((fix go (l : sibs) : sibs :=
                       match l with
                       | [] => []
                       | (x, w, c) :: r =>
                           (x, fold_right (fun s m => match find_val s root with Some f => Z.max f m | None => m end) w
                                          (faces (pre ++ [x])),
                            mfnd_t root (pre ++ [x]) c) :: go r
                       end) l)
  end.
Definition mfnd (st : state) : state := mkS (kids (mfnd_t (tree st) [] (Node (tree st)))) (dimn st).

(* ---- Rips_complex ---- *)
Definition rips (n : nat) (dist : Z -> Z -> V) (thr : V) (d : Z) : option state :=
  match ins_graph (prox_graph n dist thr) with Some st => Some (expansion st d) | None => None end.

(* ---- the graph accumulated by a history of vertex / edge insertions (for the edge-by-edge statements) ---- *)
Definition g_add_vertex (G : graph) (x : Z) (w : V) : graph :=
  match vval G x with Some _ => G | None => mkG (gverts G ++ [(x, w)]) (gedges G) end.
Definition g_add_edge (G : graph) (u v : Z) (w : V) : graph := mkG (gverts G) (gedges G ++ [(u, v, w)]).
Inductive eop := EV (x : Z) (w : V) | EE (u v : Z) (w : V).
Definition eop_val (o : eop) : V := match o with EV _ w => w | EE _ _ w => w end.
Definition run_eop (dmax : Z) (st : state) (o : eop) : state :=
  match o with EV x w => insert_edge_as_flag st x x w dmax | EE u v w => insert_edge_as_flag st u v w dmax end.
Definition graph_eop (G : graph) (o : eop) : graph :=
  match o with EV x w => g_add_vertex G x w | EE u v w => g_add_edge G u v w end.
(* admissible history: end points inserted before the edge, no edge twice, no loop *)
Fixpoint eops_okb (G : graph) (ops : list eop) : bool :=
  match ops with
  | [] => true
  | o :: r => (match o with
               | EV x _ => true
               | EE u v _ => negb (u =? v) && is_some (vval G u) && is_some (vval G v) && negb (adj G u v)
               end) && eops_okb (graph_eop G o) r
  end.
Fixpoint nondecr (lo : V) (ops : list eop) : bool :=
  match ops with [] => true | o :: r => (lo <=? eop_val o) && nondecr (eop_val o) r end.
