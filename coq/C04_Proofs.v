(* C04_Proofs.v - the one-shot expansion builds exactly the flag complex (values, dimension), Rips = flag complex of the
   threshold graph; witnesses for the max_dim <= 0 behaviour. *)
From Coq Require Import ZArith List Lia Bool ZifyBool.
Import ListNotations.
Require Import Simplex Trie C01_Model C01_Proofs C04_Model.
Local Open Scope Z_scope.

(* ------------------------------------------------------------------------------------------------ sorted (label,value) lists *)
Definition lbnd (x : Z) (l : lv) : Prop := Forall (fun p => x < fst p) l.
Fixpoint lsorted (l : lv) : Prop := match l with [] => True | p :: r => lbnd (fst p) r /\ lsorted r end.

Lemma lbnd_weaken x y l : x <= y -> lbnd y l -> lbnd x l.
Proof. intros H F. unfold lbnd in *. eapply Forall_impl; [|exact F]. cbn. intros; lia. Qed.
Lemma vlookup_lbnd x y l : lbnd x l -> y <= x -> vlookup y l = None.
Proof.
  induction l as [|[z w] r IH]; intros F H; cbn [vlookup]; [reflexivity|].
  inversion F as [|? ? Hz Fr]; subst. cbn [fst] in Hz.
  destruct (Z.eqb_spec y z); [lia|]. apply IH; auto.
Qed.
Lemma vlookup_some_lbnd x y l w : lbnd x l -> vlookup y l = Some w -> x < y.
Proof. intros F H. destruct (Z_lt_le_dec x y); auto. rewrite (vlookup_lbnd x y l F) in H by lia. discriminate. Qed.

(* ------------------------------------------------------------------------------------------------ intersection *)
Lemma inter_nil_l f l2 fil : inter f [] l2 fil = [].
Proof. reflexivity. Qed.
Lemma inter_nil_r f l1 fil : inter f l1 [] fil = [].
Proof. destruct l1 as [|[x a] r]; reflexivity. Qed.
Lemma inter_cons f x a r1 y b r2 fil :
  inter f ((x, a) :: r1) ((y, b) :: r2) fil =
  match x ?= y with
  | Eq => (x, if f then fil else Z.max (Z.max a b) fil) :: inter f r1 r2 fil
  | Lt => inter f r1 ((y, b) :: r2) fil
  | Gt => inter f ((x, a) :: r1) r2 fil
  end.
Proof. cbn [inter]. destruct (x ?= y); reflexivity. Qed.

Lemma inter_lbnd f z fil : forall l1 l2, lbnd z l1 -> lbnd z (inter f l1 l2 fil).
Proof.
  induction l1 as [|[x a] r1 IH1]; intros l2 F; [constructor|].
  induction l2 as [|[y b] r2 IH2]; [rewrite inter_nil_r; constructor|].
  rewrite inter_cons. inversion F as [|? ? Hx Fr]; subst. cbn [fst] in Hx.
  destruct (x ?= y).
  - constructor; [exact Hx|]. apply IH1; auto.
  - apply IH1; auto.
  - exact IH2.
Qed.
Lemma inter_sorted f fil : forall l1 l2, lsorted l1 -> lsorted l2 -> lsorted (inter f l1 l2 fil).
Proof.
  induction l1 as [|[x a] r1 IH1]; intros l2 S1 S2; [exact I|].
  induction l2 as [|[y b] r2 IH2]; [rewrite inter_nil_r; exact I|].
  rewrite inter_cons. destruct S1 as [B1 S1]. destruct S2 as [B2 S2]. cbn [fst] in *.
  destruct (x ?= y).
  - split; [apply inter_lbnd; exact B1 | apply IH1; auto].
  - apply IH1; [exact S1 | split; auto].
  - apply IH2; exact S2.
Qed.
Lemma inter_lookup fil z : forall l1 l2, lsorted l1 -> lsorted l2 ->
  vlookup z (inter false l1 l2 fil) =
  match vlookup z l1, vlookup z l2 with Some a, Some b => Some (Z.max (Z.max a b) fil) | _, _ => None end.
Proof.
  induction l1 as [|[x a] r1 IH1]; intros l2 S1 S2; [reflexivity|].
  induction l2 as [|[y b] r2 IH2].
  { rewrite inter_nil_r. cbn [vlookup]. destruct (if z =? x then _ else _); reflexivity. }
  rewrite inter_cons. destruct S1 as [B1 S1]. destruct S2 as [B2 S2]. cbn [fst] in *.
  destruct (Z.compare_spec x y) as [E|E|E].
  - subst y. cbn [vlookup]. destruct (Z.eqb_spec z x); [reflexivity|]. apply IH1; auto.
  - rewrite IH1 by (auto; split; auto). cbn [vlookup].
    destruct (Z.eqb_spec z x) as [->|Hzx]; [|reflexivity].
    rewrite (vlookup_lbnd x x r1 B1) by lia.
    destruct (Z.eqb_spec x y); [lia|]. try rewrite (vlookup_lbnd y x r2 B2) by lia. reflexivity.
  - rewrite IH2 by auto. cbn [vlookup].
    destruct (Z.eqb_spec z y) as [->|Hzy]; [|reflexivity].
    destruct (Z.eqb_spec y x); [lia|]. rewrite (vlookup_lbnd x y r1 B1) by lia.
    try rewrite (vlookup_lbnd y y r2 B2) by lia. reflexivity.
Qed.

(* ------------------------------------------------------------------------------------------------ the maximum *)
Lemma fmx_cons g a y r : fmx g a (y :: r) = Z.max (g y) (fmx g a r).
Proof. reflexivity. Qed.
Lemma fmx_max g a b r : fmx g (Z.max a b) r = Z.max (fmx g a r) b.
Proof. induction r as [|y r IH]; [reflexivity|]. rewrite !fmx_cons, IH. lia. Qed.
Lemma fmx_ge g a r : a <= fmx g a r.
Proof. induction r as [|y r IH]; [cbn; lia|]. rewrite fmx_cons. lia. Qed.
Lemma fmx_ext g1 g2 a r : (forall y, In y r -> g1 y = g2 y) -> fmx g1 a r = fmx g2 a r.
Proof.
  induction r as [|y r IH]; intro H; [reflexivity|]. rewrite !fmx_cons.
  rewrite IH by (intros; apply H; cbn; auto). rewrite (H y) by (cbn; auto). reflexivity.
Qed.
Lemma mval_one vw e x : mval vw e [x] = vw x.
Proof. reflexivity. Qed.
Lemma mval_cons2 vw e x y t : mval vw e (x :: y :: t) = Z.max (fmx (e x) (vw x) (y :: t)) (mval vw e (y :: t)).
Proof. reflexivity. Qed.
Lemma mval_ext vw1 vw2 e : forall s, (forall y, In y s -> vw1 y = vw2 y) -> mval vw1 e s = mval vw2 e s.
Proof.
  induction s as [|x [|y t] IH]; intro H; [reflexivity | rewrite !mval_one; apply H; cbn; auto |].
  rewrite !mval_cons2. rewrite IH by (intros; apply H; cbn; auto). rewrite (H x) by (cbn; auto). reflexivity.
Qed.
Lemma mval_ext2 vw e1 e2 : forall s, (forall x y, In x s -> In y s -> e1 x y = e2 x y) -> mval vw e1 s = mval vw e2 s.
Proof.
  induction s as [|x [|y t] IH]; intro H; [reflexivity | reflexivity |].
  rewrite !mval_cons2. rewrite IH by (intros; apply H; cbn; auto).
  f_equal. apply fmx_ext. intros u Hu. apply H; cbn; auto.
Qed.
(* taking a common vertex x (value w, edge values e x .) into the vertex values = adding x to the simplex *)
Lemma mval_shift vw e x w : forall s, s <> [] ->
  mval (fun y => Z.max (Z.max (vw y) (e x y)) w) e s = Z.max (fmx (e x) w s) (mval vw e s).
Proof.
  induction s as [|y [|z t] IH]; intro Hn; [congruence | rewrite !mval_one; cbn [fmx fold_right]; lia |].
  rewrite (mval_cons2 _ e y z t), (mval_cons2 vw e y z t), IH by discriminate.
  rewrite !fmx_max. rewrite (fmx_cons (e x) w y (z :: t)).
  pose proof (fmx_ge (e x) w (z :: t)). lia.
Qed.

(* ------------------------------------------------------------------------------------------------ expansion of one Siblings *)
Definition vwf (l : lv) (y : Z) : V := match vlookup y l with Some w => w | None => 0 end.
Definition nbw (nb : Z -> lv) (x y : Z) : V := vwf (nb x) y.
Definition inl (l : lv) (s : simplex) : bool := forallb (fun y => is_some (vlookup y l)) s.
Fixpoint adjs (nb : Z -> lv) (s : simplex) : bool :=
  match s with [] => true | x :: r => inl (nb x) r && adjs nb r end.
(* what the subtree below a sibling set l, expanded k further levels, holds *)
Definition fspec (nb : Z -> lv) (k : nat) (l : lv) (s : simplex) : option V :=
  if ssortedb s && negb (is_nil s) && inl l s && adjs nb s && (length s <=? S k)%nat
  then Some (mval (vwf l) (nbw nb) s) else None.

Lemma expand_nil nb k : expand nb k [] = [].
Proof. destruct k; reflexivity. Qed.
Lemma expand_cons nb k x w r :
  expand nb k ((x, w) :: r) =
  (x, w, Node (match k with O => [] | S k' => expand nb k' (inter false r (nb x) w) end)) :: expand nb k r.
Proof. destruct k; reflexivity. Qed.

Lemma expand_lb nb k z : forall l, lbnd z l -> lb_sibs z (expand nb k l).
Proof.
  induction l as [|[x w] r IH]; intro F; [rewrite expand_nil; exact I|].
  rewrite expand_cons. inversion F; subst. cbn [lb_sibs label fst]. split; auto.
Qed.
Lemma expand_wf nb : (forall x, lsorted (nb x)) -> forall k l, lsorted l -> wf (expand nb k l).
Proof.
  intros Hnb. induction k as [|k IHk]; induction l as [|[x w] r IHl]; intro S;
    try (rewrite expand_nil; apply wf_nil); rewrite expand_cons; apply wf_cons; destruct S as [B S]; cbn [fst] in B.
  - split; [apply expand_lb; exact B | split; [exact I | apply IHl; exact S]].
  - split; [apply expand_lb; exact B | split; [| apply IHl; exact S]].
    rewrite wf_t_node. apply IHk. apply inter_sorted; auto.
Qed.

Lemma inl_cons_lt l x w s : lbound x s = true -> inl ((x, w) :: l) s = inl l s.
Proof.
  induction s as [|y t IH]; intro H; [reflexivity|]. cbn [lbound] in H. apply andb_prop in H as [H1 H2].
  cbn [inl forallb vlookup]. destruct (Z.eqb_spec y x); [lia|]. f_equal. apply IH; auto.
Qed.
Lemma inl_lbound l x s : lbnd x l -> inl l s = true -> lbound x s = true.
Proof.
  intro F. induction s as [|y t IH]; intro H; [reflexivity|]. cbn [inl forallb] in H. apply andb_prop in H as [H1 H2].
  cbn [lbound]. rewrite IH by exact H2. destruct (vlookup y l) eqn:E; [|discriminate].
  apply (vlookup_some_lbnd x) in E; auto. rewrite andb_true_r. lia.
Qed.
Lemma inl_inter r n w s : lsorted r -> lsorted n -> inl (inter false r n w) s = inl r s && inl n s.
Proof.
  intros Sr Sn. induction s as [|y t IH]; [reflexivity|]. cbn [inl forallb]. fold (inl (inter false r n w) t) (inl r t) (inl n t).
  rewrite IH, inter_lookup by auto. destruct (vlookup y r), (vlookup y n); cbn [is_some]; cbn;
    repeat (destruct (inl _ t)); reflexivity.
Qed.
Lemma lbound_in x s y : lbound x s = true -> In y s -> x < y.
Proof.
  induction s as [|z t IH]; intros H Hin; [destruct Hin|]. cbn [lbound] in H. apply andb_prop in H as [H1 H2].
  destruct Hin as [->|Hin]; [lia | auto].
Qed.
Lemma vwf_cons_ne x w l y : y <> x -> vwf ((x, w) :: l) y = vwf l y.
Proof. intro H. unfold vwf. cbn [vlookup]. destruct (Z.eqb_spec y x); [contradiction | reflexivity]. Qed.
Lemma inl_in l s y : inl l s = true -> In y s -> exists w, vlookup y l = Some w.
Proof.
  unfold inl. rewrite forallb_forall. intros H Hin. specialize (H y Hin). destruct (vlookup y l); [eauto | discriminate].
Qed.

Lemma inl_cons l y t : inl l (y :: t) = is_some (vlookup y l) && inl l t.
Proof. reflexivity. Qed.
Lemma adjs_cons nb x r : adjs nb (x :: r) = inl (nb x) r && adjs nb r.
Proof. reflexivity. Qed.
Theorem expand_spec nb : (forall x, lsorted (nb x)) ->
  forall k l, lsorted l -> forall s, find_val s (expand nb k l) = fspec nb k l s.
Proof.
  intros Hnb. induction k as [|k IHk].
  - (* no further level *)
    induction l as [|[x w] r IHl]; intros Sl s.
    + rewrite expand_nil, find_val_nil_l. unfold fspec. destruct s as [|z t]; [reflexivity|].
      cbn [inl forallb vlookup is_some]. rewrite andb_false_r. reflexivity.
    + destruct Sl as [B Sl]. cbn [fst] in B. rewrite expand_cons. destruct s as [|z t]; [reflexivity|].
      destruct (Z.compare_spec z x) as [E|E|E].
      * subst z. destruct t as [|y t'].
        -- rewrite find_val_cons_eq_one. unfold fspec. cbn. rewrite Z.eqb_refl. cbn. unfold vwf. cbn. rewrite Z.eqb_refl. reflexivity.
        -- rewrite find_val_cons_eq_deep, find_val_nil_l. unfold fspec. cbn [length Nat.leb]. rewrite andb_false_r. reflexivity.
      * rewrite find_val_cons_lt by exact E. unfold fspec. cbn [inl forallb vlookup].
        destruct (Z.eqb_spec z x); [lia|]. rewrite (vlookup_lbnd x z r B) by lia. cbn [is_some].
        rewrite !andb_false_r. reflexivity.
      * rewrite find_val_cons_gt by exact E. rewrite IHl by exact Sl. unfold fspec.
        destruct (ssortedb (z :: t)) eqn:Es; [|reflexivity]. cbn [andb].
        assert (lbound x (z :: t) = true) as Hb.
        { cbn [ssortedb] in Es. apply andb_prop in Es as [Es1 _]. cbn [lbound].
          assert (x <? z = true) as -> by lia. cbn [andb].
          clear - Es1 E. induction t as [|u t IH]; [reflexivity|]. cbn [lbound] in *. apply andb_prop in Es1 as [H1 H2].
          rewrite IH by exact H2. rewrite andb_true_r. lia. }
        rewrite (inl_cons_lt r x w (z :: t) Hb).
        destruct (_ && _ && _ && _); [|reflexivity]. f_equal. apply mval_ext. intros y Hy.
        symmetry. apply vwf_cons_ne. pose proof (lbound_in x _ y Hb Hy). lia.
  - induction l as [|[x w] r IHl]; intros Sl s.
    + rewrite expand_nil, find_val_nil_l. unfold fspec. destruct s as [|z t]; [reflexivity|].
      cbn [inl forallb vlookup is_some]. rewrite andb_false_r. reflexivity.
    + destruct Sl as [B Sl]. cbn [fst] in B. rewrite expand_cons. destruct s as [|z t]; [reflexivity|].
      destruct (Z.compare_spec z x) as [E|E|E].
      * subst z. destruct t as [|y t'].
        -- rewrite find_val_cons_eq_one. unfold fspec. cbn. rewrite Z.eqb_refl. cbn. unfold vwf. cbn. rewrite Z.eqb_refl. reflexivity.
        -- rewrite find_val_cons_eq_deep.
           assert (lsorted (inter false r (nb x) w)) as Si by (apply inter_sorted; auto).
           rewrite (IHk _ Si). unfold fspec.
           set (s' := y :: t').
           change (ssortedb (x :: s')) with (lbound x s' && ssortedb s').
           change (is_nil (x :: s')) with false. change (is_nil s') with false.
           rewrite (inl_cons ((x, w) :: r) x s'), (adjs_cons nb x s').
           change (length (x :: s')) with (S (length s')).
           change ((S (length s') <=? S (S k))%nat) with ((length s' <=? S k)%nat).
           replace (vlookup x ((x, w) :: r)) with (Some w) by (cbn [vlookup]; rewrite Z.eqb_refl; reflexivity).
           cbn [is_some negb andb]. rewrite !andb_true_r.
           rewrite inl_inter by auto.
           destruct (inl r s') eqn:Er.
           ++ pose proof (inl_lbound r x s' B Er) as Hb. rewrite Hb, (inl_cons_lt r x w s' Hb), Er.
              destruct (ssortedb s'), (inl (nb x) s') eqn:En, (adjs nb s'), (length s' <=? S k)%nat; cbn [andb]; try reflexivity.
              f_equal.
              transitivity (mval (fun y0 => Z.max (Z.max (vwf ((x, w) :: r) y0) (nbw nb x y0)) w) (nbw nb) s').
              { apply mval_ext. intros u Hu. unfold vwf at 1. rewrite inter_lookup by auto.
                destruct (inl_in r s' u Er Hu) as [a Ha]. destruct (inl_in (nb x) s' u En Hu) as [b Hb'].
                rewrite Ha, Hb'. rewrite vwf_cons_ne by (pose proof (lbound_in x s' u Hb Hu); lia).
                unfold nbw, vwf. rewrite Ha, Hb'. reflexivity. }
              rewrite mval_shift by discriminate. unfold s'. rewrite mval_cons2.
              replace (vwf ((x, w) :: r) x) with w by (unfold vwf; cbn [vlookup]; rewrite Z.eqb_refl; reflexivity).
              reflexivity.
           ++ destruct (lbound x s') eqn:Hb.
              ** rewrite (inl_cons_lt r x w s' Hb), Er. cbn [andb]. rewrite !andb_false_r. reflexivity.
              ** cbn [andb]. rewrite !andb_false_r. reflexivity.
      * rewrite find_val_cons_lt by exact E. unfold fspec. cbn [inl forallb vlookup].
        destruct (Z.eqb_spec z x); [lia|]. rewrite (vlookup_lbnd x z r B) by lia. cbn [is_some].
        rewrite !andb_false_r. reflexivity.
      * rewrite find_val_cons_gt by exact E. rewrite IHl by exact Sl. unfold fspec.
        destruct (ssortedb (z :: t)) eqn:Es; [|reflexivity]. cbn [andb].
        assert (lbound x (z :: t) = true) as Hb.
        { cbn [ssortedb] in Es. apply andb_prop in Es as [Es1 _]. cbn [lbound].
          assert (x <? z = true) as -> by lia. cbn [andb].
          clear - Es1 E. induction t as [|u t IH]; [reflexivity|]. cbn [lbound] in *. apply andb_prop in Es1 as [H1 H2].
          rewrite IH by exact H2. rewrite andb_true_r. lia. }
        rewrite (inl_cons_lt r x w (z :: t) Hb).
        destruct (_ && _ && _ && _); [|reflexivity]. f_equal. apply mval_ext. intros y Hy.
        symmetry. apply vwf_cons_ne. pose proof (lbound_in x _ y Hb Hy). lia.
Qed.

(* ------------------------------------------------------------------------------------------------ dimension bookkeeping *)
Lemma mink_nil nb k : mink nb k [] = Z.of_nat k.
Proof. destruct k; reflexivity. Qed.
Lemma mink_cons nb k x w r :
  mink nb k ((x, w) :: r) =
  Z.min (match k with
         | O => 0
         | S k' => match inter false r (nb x) w with [] => Z.of_nat k | i => mink nb k' i end
         end) (mink nb k r).
Proof. destruct k; reflexivity. Qed.
Lemma expand_nonnil nb k l : l <> [] -> expand nb k l <> [].
Proof. destruct l as [|[x w] r]; [congruence|]. rewrite expand_cons. discriminate. Qed.
Lemma height_nonnil l : l <> [] -> 0 <= height_t (Node l).
Proof.
  destruct l as [|[[x w] c] r]; [congruence|]. intros _. rewrite height_node_cons.
  pose proof (height_lb c). lia.
Qed.
(* the smallest counter reached = k - (height of the expanded subtree) *)
Lemma mink_height nb : forall k l,
  mink nb k l = Z.min (Z.of_nat k) (Z.of_nat k - height_t (Node (expand nb k l))).
Proof.
  induction k as [|k IHk]; induction l as [|[x w] r IHl].
  - rewrite mink_nil, expand_nil. cbn. lia.
  - rewrite mink_cons, expand_cons, height_node_cons, IHl.
    pose proof (height_lb (Node (expand nb 0 r))). cbn [height_t fold_right]. lia.
  - rewrite mink_nil, expand_nil. cbn [height_t fold_right]. lia.
  - rewrite mink_cons, expand_cons, height_node_cons, IHl.
    pose proof (height_lb (Node (expand nb (S k) r))) as Hr.
    destruct (inter false r (nb x) w) as [|p i] eqn:Ei.
    + rewrite expand_nil. cbn [height_t fold_right]. lia.
    + rewrite IHk. assert (0 <= height_t (Node (expand nb k (p :: i)))) as Hi
        by (apply height_nonnil, expand_nonnil; discriminate).
      lia.
Qed.

(* ------------------------------------------------------------------------------------------------ the whole tree *)
Definition groot (root : sibs) : Prop :=
  wf root /\ Forall (fun e => let '(x, w, c) := e in lsorted (labs (kids c)) /\ lbnd x (labs (kids c))) root.
Definition exp_entry (nb : Z -> lv) (k : nat) (e : Z * V * trie) : Z * V * trie :=
  let '(x, w, Node c) := e in (x, w, Node (match c with [] => [] | _ :: _ => expand nb k (labs c) end)).
Lemma exp_entry_eq nb k x w c : exp_entry nb k (x, w, Node c) = (x, w, Node (expand nb k (labs c))).
Proof. destruct c; [rewrite expand_nil|]; reflexivity. Qed.

Lemma get_in x : forall l w c, get x l = Some (w, c) -> In (x, w, c) l.
Proof.
  induction l as [|[[y w'] c'] r IH]; intros w c H; [discriminate|]. cbn [get] in H.
  destruct (Z.compare_spec x y); [subst; inversion H; left; reflexivity | discriminate | right; auto].
Qed.
Lemma nbrs_get root x w c : get x root = Some (w, Node c) -> nbrs root x = labs c.
Proof. intro H. unfold nbrs. rewrite H. reflexivity. Qed.
Lemma groot_nb root : groot root -> forall x, lsorted (nbrs root x) /\ lbnd x (nbrs root x).
Proof.
  intros [_ F] x. unfold nbrs. destruct (get x root) as [[w [c]]|] eqn:E; [|split; [exact I | constructor]].
  apply get_in in E. rewrite Forall_forall in F. apply (F _ E).
Qed.
Lemma get_map_entry nb k x : forall root,
  get x (map (exp_entry nb k) root) =
  match get x root with Some (w, Node c) => Some (w, Node (expand nb k (labs c))) | None => None end.
Proof.
  induction root as [|[[y w] [c]] r IH]; [reflexivity|]. cbn [map]. rewrite exp_entry_eq. cbn [get].
  destruct (x ?= y); auto.
Qed.
Lemma lb_sibs_map_entry nb k z : forall root, lb_sibs z root -> lb_sibs z (map (exp_entry nb k) root).
Proof.
  induction root as [|[[y w] [c]] r IH]; intro H; [exact I|]. cbn [map]. rewrite exp_entry_eq.
  cbn [lb_sibs label fst] in *. destruct H; split; auto.
Qed.
Lemma wf_map_entry nb k : (forall x, lsorted (nb x)) -> forall root,
  wf root -> Forall (fun e => let '(x, w, c) := e in lsorted (labs (kids c)) /\ lbnd x (labs (kids c))) root ->
  wf (map (exp_entry nb k) root).
Proof.
  intros Hnb. induction root as [|[[y w] [c]] r IH]; intros W F; [apply wf_nil|].
  cbn [map]. rewrite exp_entry_eq. apply wf_cons in W as [W1 [W2 W3]]. inversion F as [|? ? F1 F2]; subst.
  apply wf_cons. split; [apply lb_sibs_map_entry; exact W1 | split; [| apply IH; auto]].
  rewrite wf_t_node. apply expand_wf; auto. cbn [kids] in F1. tauto.
Qed.

(* what the expanded tree holds, read off the tree of the graph *)
Definition rspec (root : sibs) (d : Z) (s : simplex) : option V :=
  match s with
  | [] => None
  | [x] => option_map fst (get x root)
  | x :: s' => match get x root with
               | None => None
               | Some _ => fspec (nbrs root) (Z.to_nat (d - 1)) (nbrs root x) s'
               end
  end.
Lemma expansion_tree root dm d : 2 <= d -> root <> [] ->
  tree (expansion (mkS root dm) d) = map (exp_entry (nbrs root) (Z.to_nat (d - 1))) root.
Proof.
  intros Hd Hn. unfold expansion. cbn [tree]. destruct (Z.leb_spec d 1); [lia|].
  destruct root; [congruence|]. cbn [is_nil tree]. apply map_ext. intros [[x w] [c]]. reflexivity.
Qed.
Theorem expansion_tree_spec root dm d : groot root -> 2 <= d ->
  wf (tree (expansion (mkS root dm) d)) /\
  forall s, find_val s (tree (expansion (mkS root dm) d)) = rspec root d s.
Proof.
  intros G Hd. pose proof (groot_nb root G) as Hnb. destruct G as [W F].
  destruct root as [|e0 r0] eqn:Er.
  { unfold expansion. cbn [tree is_nil]. destruct (d <=? 1); split; try apply wf_nil;
      intros [|x [|y t]]; reflexivity. }
  rewrite <- Er in *. assert (root <> []) as Hn by (rewrite Er; discriminate).
  rewrite expansion_tree by auto. split.
  - apply wf_map_entry; auto. intro x. apply Hnb.
  - intros [|x [|y t]]; [reflexivity | |].
    + rewrite find_val_one, get_map_entry. cbn [rspec]. destruct (get x root) as [[w [c]]|]; reflexivity.
    + rewrite find_val_deep, get_map_entry. cbn [rspec].
      destruct (get x root) as [[w [c]]|] eqn:E; [|reflexivity].
      rewrite (nbrs_get root x w c E). apply expand_spec.
      * intro z. apply Hnb.
      * rewrite <- (nbrs_get root x w c E). apply Hnb.
Qed.

(* dimension_ after expansion = height of the tree (the largest dimension of a simplex) *)
Lemma expansion_dim_fold nb k d : d = Z.of_nat k + 1 -> forall root,
  fold_right (fun e m => let '(x, w, Node c) := e in
                         match c with [] => m | _ :: _ => Z.min (mink nb k (labs c)) m end) d root =
  Z.min d (d - height_t (Node (map (exp_entry nb k) root))).
Proof.
  intros Hk. induction root as [|[[x w] [c]] r IH]; [cbn; lia|].
  cbn [fold_right map]. rewrite exp_entry_eq, height_node_cons, IH.
  pose proof (height_lb (Node (map (exp_entry nb k) r))) as Hr.
  destruct c as [|e c'].
  - cbn [labs map]. rewrite expand_nil. cbn [height_t fold_right]. lia.
  - rewrite mink_height.
    assert (0 <= height_t (Node (expand nb k (labs (e :: c'))))) as Hc
      by (apply height_nonnil, expand_nonnil; discriminate).
    lia.
Qed.
Theorem expansion_dimension root dm d : 2 <= d -> root <> [] ->
  dimn (expansion (mkS root dm) d) = height_t (Node (tree (expansion (mkS root dm) d))).
Proof.
  intros Hd Hn. rewrite expansion_tree by auto. unfold expansion. cbn [tree dimn].
  destruct (Z.leb_spec d 1); [lia|]. destruct root as [|e r] eqn:Er; [congruence|]. cbn [is_nil dimn]. rewrite <- Er.
  rewrite (expansion_dim_fold (nbrs root) (Z.to_nat (d - 1)) d) by lia.
  assert (0 <= height_t (Node (map (exp_entry (nbrs root) (Z.to_nat (d - 1))) root))) as H0.
  { apply height_nonnil. rewrite Er. discriminate. }
  lia.
Qed.

(* ------------------------------------------------------------------------------------------------ insert_graph *)
Lemma elookup_app x y u v w : forall E,
  elookup x y (E ++ [(u, v, w)]) =
  match elookup x y E with
  | Some o => Some o
  | None => if ((u =? x) && (v =? y)) || ((u =? y) && (v =? x)) then Some w else None
  end.
Proof.
  induction E as [|[[a b] o] E IH]; [reflexivity|]. cbn [app elookup].
  destruct (((a =? x) && (b =? y)) || ((a =? y) && (b =? x))); [reflexivity | exact IH].
Qed.
Lemma ins_vertices_get x : forall l acc,
  get x (fold_left ins_vertex l acc) =
  match get x acc with Some e => Some e | None => option_map (fun w => (w, leaf)) (vlookup x l) end.
Proof.
  induction l as [|[y w] r IH]; intro acc; cbn [fold_left vlookup].
  - destruct (get x acc); reflexivity.
  - rewrite IH. unfold ins_vertex; cbn [fst snd]. destruct (get y acc) eqn:Ey.
    + destruct (get x acc) eqn:Ex; [reflexivity|]. destruct (Z.eqb_spec x y); [subst; congruence | reflexivity].
    + destruct (Z.eqb_spec x y).
      * subst. rewrite get_put_same, Ey. reflexivity.
      * rewrite get_put_other by auto. reflexivity.
Qed.
Lemma ins_vertices_wf : forall l acc, wf acc -> wf (fold_left ins_vertex l acc).
Proof.
  induction l as [|[y w] r IH]; intros acc W; [exact W|]. cbn [fold_left]. apply IH.
  unfold ins_vertex; cbn [fst snd]. destruct (get y acc); [exact W|]. apply wf_put; [exact W | exact I].
Qed.

Definition Jinv (G : graph) (E : list (Z * Z * V)) (root : sibs) : Prop :=
  wf root /\ (forall x, option_map fst (get x root) = vval G x) /\
  (forall a wa c, get a root = Some (wa, c) ->
     lb_sibs a (kids c) /\ forall b, option_map fst (get b (kids c)) = if a <? b then elookup a b E else None).

Lemma Jinv_step G E root u v w : Jinv G E root -> u <> v -> vval G u <> None -> vval G v <> None ->
  exists root', ins_edge (Some root) (u, v, w) = Some root' /\ Jinv G (E ++ [(u, v, w)]) root'.
Proof.
  intros (W & J2 & J3) Huv Hu Hv. unfold ins_edge. destruct (Z.eqb_spec u v); [contradiction|].
  set (a := Z.min u v). set (b := Z.max u v).
  assert (a < b) as Hab by (unfold a, b; lia).
  assert (vval G a <> None) as Ha by (unfold a; destruct (Z.min_spec u v) as [[_ ->]|[_ ->]]; auto).
  destruct (get a root) as [[wa [c]]|] eqn:Ea; [|specialize (J2 a); rewrite Ea in J2; cbn in J2; congruence].
  destruct (J3 a wa (Node c) Ea) as [Lc Vc]. cbn [kids] in Lc, Vc.
  pose proof (wf_get a root wa (Node c) W Ea) as Wc. rewrite wf_t_node in Wc.
  set (c' := match get b c with Some _ => c | None => put b w leaf c end).
  assert (wf c') as Wc' by (unfold c'; destruct (get b c); [exact Wc | apply wf_put; [exact Wc | exact I]]).
  assert (lb_sibs a c') as Lc' by (unfold c'; destruct (get b c); [exact Lc | apply lb_sibs_put; auto]).
  eexists. split; [reflexivity|]. split; [|split].
  - apply wf_put; [exact W | rewrite wf_t_node; exact Wc'].
  - intro x. destruct (Z.eq_dec x a) as [->|Hx].
    + rewrite get_put_same. cbn. rewrite <- J2, Ea. reflexivity.
    + rewrite get_put_other by auto. apply J2.
  - intros a' wa' c'' Hg. destruct (Z.eq_dec a' a) as [->|Hx].
    + rewrite get_put_same in Hg. inversion Hg; subst wa' c''. cbn [kids]. split; [exact Lc'|].
      intro b'. rewrite elookup_app. specialize (Vc b') as Vb'. pose proof (Vc b) as Vb.
      assert (a <? b = true) as Hltb by lia. rewrite Hltb in Vb.
      unfold c'. destruct (get b c) as [[wb cb]|] eqn:Eb.
      * rewrite Vb'. destruct (a <? b') eqn:Hl; [|reflexivity].
        destruct (elookup a b' E) eqn:Ee; [reflexivity|].
        destruct (Z.eqb_spec u a), (Z.eqb_spec v b'), (Z.eqb_spec u b'), (Z.eqb_spec v a); cbn [andb orb]; try reflexivity;
          exfalso; assert (b' = b) by (unfold a, b in *; lia); subst b'; cbn in Vb; congruence.
      * destruct (Z.eq_dec b' b) as [->|Hb'].
        -- rewrite get_put_same. cbn. rewrite Hltb. cbn in Vb. rewrite <- Vb.
           destruct (Z.eqb_spec u a), (Z.eqb_spec v b), (Z.eqb_spec u b), (Z.eqb_spec v a); cbn [andb orb]; try reflexivity;
             exfalso; unfold a, b in *; lia.
        -- rewrite get_put_other by auto. rewrite Vb'. destruct (a <? b') eqn:Hl; [|reflexivity].
           destruct (elookup a b' E) eqn:Ee; [reflexivity|].
           destruct (Z.eqb_spec u a), (Z.eqb_spec v b'), (Z.eqb_spec u b'), (Z.eqb_spec v a); cbn [andb orb]; try reflexivity;
             exfalso; apply Hb'; unfold a, b in *; lia.
    + rewrite get_put_other in Hg by auto. destruct (J3 a' wa' c'' Hg) as [L' V']. split; [exact L'|].
      intro b'. rewrite V', elookup_app. destruct (a' <? b') eqn:Hl; [|reflexivity].
      destruct (elookup a' b' E); [reflexivity|].
      destruct (Z.eqb_spec u a'), (Z.eqb_spec v b'), (Z.eqb_spec u b'), (Z.eqb_spec v a'); cbn [andb orb]; try reflexivity;
        exfalso; apply Hx; unfold a, b in *; lia.
Qed.
Definition edges_ok (G : graph) (es : list (Z * Z * V)) : Prop :=
  Forall (fun e => let '(a, b, _) := e in a <> b /\ vval G a <> None /\ vval G b <> None) es.
Lemma Jinv_fold G : forall es E root, Jinv G E root -> edges_ok G es ->
  exists root', fold_left ins_edge es (Some root) = Some root' /\ Jinv G (E ++ es) root'.
Proof.
  induction es as [|[[u v] w] es IH]; intros E root J F.
  - exists root. rewrite app_nil_r. auto.
  - inversion F as [|? ? Hh F']; subst. cbn beta iota in Hh. destruct Hh as (H1 & H2 & H3).
    destruct (Jinv_step G E root u v w J H1 H2 H3) as (r1 & E1 & J1).
    destruct (IH _ _ J1 F') as (r2 & E2 & J2). exists r2. cbn [fold_left]. rewrite E1, E2.
    split; [reflexivity|]. rewrite <- app_assoc in J2. exact J2.
Qed.
Definition edges_okb (G : graph) : bool :=
  forallb (fun e => let '(a, b, _) := e in negb (a =? b) && is_some (vval G a) && is_some (vval G b)) (gedges G).
Lemma graph_okb_edges_okb G : graph_okb G = true -> edges_okb G = true.
Proof. unfold graph_okb, edges_okb. intro H. apply andb_prop in H as [_ H]. exact H. Qed.
Lemma graph_ok_edges G : edges_okb G = true -> edges_ok G (gedges G).
Proof.
  unfold edges_okb. intro H. rewrite forallb_forall in H.
  apply Forall_forall. intros [[a b] w] Hin. specialize (H _ Hin). cbn in H.
  apply andb_prop in H as [H H3]. apply andb_prop in H as [H1 H2].
  repeat split; [lia | destruct (vval G a); [discriminate | discriminate H2] | destruct (vval G b); [discriminate | discriminate H3]].
Qed.
Theorem ins_graph_inv G st : edges_okb G = true -> ins_graph G = Some st -> Jinv G (gedges G) (tree st).
Proof.
  intros Hok H. pose proof (graph_ok_edges G Hok) as Fe. unfold ins_graph in H.
  destruct (gverts G) as [|p vs] eqn:Ev.
  - inversion H; subst st. cbn [tree empty_state].
    assert (gedges G = []) as Ee.
    { destruct (gedges G) as [|[[a b] w] es]; [reflexivity|]. inversion Fe as [|? ? Hh _]; subst.
      cbn beta iota in Hh. destruct Hh as (_ & Ha & _). unfold vval in Ha. rewrite Ev in Ha. cbn in Ha. congruence. }
    rewrite Ee. split; [apply wf_nil | split]; [| intros a wa c Hg; discriminate].
    intro x. unfold vval. rewrite Ev. reflexivity.
  - rewrite <- Ev in H.
    assert (Jinv G [] (fold_left ins_vertex (gverts G) [])) as J0.
    { split; [apply ins_vertices_wf, wf_nil | split].
      - intro x. rewrite ins_vertices_get. cbn [get]. unfold vval. destruct (vlookup x (gverts G)); reflexivity.
      - intros a wa c Hg. rewrite ins_vertices_get in Hg. cbn [get] in Hg.
        destruct (vlookup a (gverts G)); [|discriminate]. inversion Hg; subst. cbn [kids leaf]. split; [exact I|].
        intro b. cbn. destruct (a <? b); reflexivity. }
    destruct (Jinv_fold G (gedges G) [] _ J0 Fe) as (r & Er & Jr). rewrite Er in H. inversion H; subst st. exact Jr.
Qed.
Lemma ins_graph_total G : edges_okb G = true -> exists st, ins_graph G = Some st.
Proof.
  intros Hok. pose proof (graph_ok_edges G Hok) as Fe. unfold ins_graph.
  destruct (gverts G) as [|p vs] eqn:Ev; [eauto|]. rewrite <- Ev.
  assert (Jinv G [] (fold_left ins_vertex (gverts G) [])) as J0.
  { split; [apply ins_vertices_wf, wf_nil | split].
    - intro x. rewrite ins_vertices_get. cbn [get]. unfold vval. destruct (vlookup x (gverts G)); reflexivity.
    - intros a wa c Hg. rewrite ins_vertices_get in Hg. cbn [get] in Hg.
      destruct (vlookup a (gverts G)); [|discriminate]. inversion Hg; subst. cbn [kids leaf]. split; [exact I|].
      intro b. cbn. destruct (a <? b); reflexivity. }
  destruct (Jinv_fold G (gedges G) [] _ J0 Fe) as (r & Er & Jr). rewrite Er. eauto.
Qed.

(* ------------------------------------------------------------------------------------------------ from the tree of the graph to the graph *)
Lemma vlookup_labs b : forall c, wf c -> vlookup b (labs c) = option_map fst (get b c).
Proof.
  induction c as [|[[y w] t] r IH]; intro W; [reflexivity|]. apply wf_cons in W as (L & _ & Wr).
  cbn [labs map label fst snd vlookup get]. fold (labs r).
  destruct (Z.compare_spec b y) as [E|E|E].
  - subst. rewrite Z.eqb_refl. reflexivity.
  - destruct (Z.eqb_spec b y); [lia|]. rewrite IH by exact Wr. rewrite (lb_sibs_get_lt y b r L) by lia. reflexivity.
  - destruct (Z.eqb_spec b y); [lia|]. apply IH; exact Wr.
Qed.
Lemma lb_sibs_lbnd x : forall c, lb_sibs x c -> lbnd x (labs c).
Proof.
  induction c as [|[[y w] t] r IH]; intro H; [constructor|]. cbn [lb_sibs label fst] in H. destruct H.
  constructor; [exact H | apply IH; assumption].
Qed.
Lemma wf_lsorted : forall c, wf c -> lsorted (labs c).
Proof.
  induction c as [|[[y w] t] r IH]; intro W; [exact I|]. apply wf_cons in W as (L & _ & Wr).
  cbn [labs map lsorted fst label]. split; [apply lb_sibs_lbnd; exact L | apply IH; exact Wr].
Qed.
Lemma lb_sibs_in y : forall r x w c, lb_sibs y r -> In (x, w, c) r -> y < x.
Proof.
  induction r as [|e r IH]; intros x w c L Hin; [destruct Hin|]. cbn [lb_sibs] in L. destruct L as [L1 L2].
  destruct Hin as [->|Hin]; [exact L1 | eapply IH; eauto].
Qed.
Lemma in_get : forall root x w c, wf root -> In (x, w, c) root -> get x root = Some (w, c).
Proof.
  induction root as [|[[y w'] c'] r IH]; intros x w c W Hin; [destruct Hin|]. apply wf_cons in W as (L & _ & Wr).
  destruct Hin as [E|Hin].
  - inversion E; subst. cbn [get]. rewrite Z.compare_refl. reflexivity.
  - pose proof (lb_sibs_in y r x w c L Hin). cbn [get]. destruct (Z.compare_spec x y); try lia. apply IH; auto.
Qed.
Lemma Jinv_groot G E root : Jinv G E root -> groot root.
Proof.
  intros (W & J2 & J3). split; [exact W|]. apply Forall_forall. intros [[x w] c] Hin.
  pose proof (in_get root x w c W Hin) as Hg. destruct (J3 x w c Hg) as [L _].
  pose proof (wf_get x root w c W Hg) as Wc. destruct c as [k]. cbn [kids] in *. rewrite wf_t_node in Wc.
  split; [apply wf_lsorted; exact Wc | apply lb_sibs_lbnd; exact L].
Qed.
Lemma Jinv_nbrs G E root : Jinv G E root -> (forall x y w, elookup x y E = Some w -> vval G x <> None) ->
  forall x y, vlookup y (nbrs root x) = if x <? y then elookup x y E else None.
Proof.
  intros (W & J2 & J3) HV x y. unfold nbrs. destruct (get x root) as [[w [c]]|] eqn:Eg.
  - destruct (J3 x w (Node c) Eg) as [_ Vc]. cbn [kids] in Vc. rewrite <- Vc. apply vlookup_labs.
    pose proof (wf_get x root w (Node c) W Eg) as Wc. rewrite wf_t_node in Wc. exact Wc.
  - cbn [vlookup]. destruct (x <? y); [|reflexivity]. destruct (elookup x y E) eqn:Ee; [|reflexivity].
    exfalso. apply (HV x y v Ee). rewrite <- J2, Eg. reflexivity.
Qed.
Lemma edges_ok_elookup G : forall es x y w, edges_ok G es -> elookup x y es = Some w -> vval G x <> None /\ vval G y <> None.
Proof.
  induction es as [|[[a b] o] es IH]; intros x y w F H; [discriminate|].
  inversion F as [|? ? Hh F']; subst. cbn beta iota in Hh. destruct Hh as (H1 & H2 & H3). cbn [elookup] in H.
  destruct (Z.eqb_spec a x), (Z.eqb_spec b y), (Z.eqb_spec a y), (Z.eqb_spec b x); cbn [andb orb] in H; subst;
    try (split; assumption); eapply IH; eauto.
Qed.

Fixpoint padj (G : graph) (s : simplex) : bool :=
  match s with [] => true | a :: r => forallb (adj G a) r && padj G r end.
Section bridge.
  Variable G : graph.
  Variable nb : Z -> lv.
  Hypothesis HB : forall x y, vlookup y (nb x) = if x <? y then eval G x y else None.
  Hypothesis HV : forall x y w, eval G x y = Some w -> vval G x <> None /\ vval G y <> None.

  Lemma inl_nb x : forall s, inl (nb x) s = lbound x s && forallb (adj G x) s.
  Proof.
    induction s as [|y t IH]; [reflexivity|]. rewrite inl_cons, IH, HB. cbn [lbound forallb]. unfold adj.
    destruct (x <? y), (eval G x y), (lbound x t), (forallb _ t); reflexivity.
  Qed.
  Lemma adjs_padj : forall s, ssortedb s = true -> adjs nb s = padj G s.
  Proof.
    induction s as [|a r IH]; intro H; [reflexivity|]. cbn [ssortedb] in H. apply andb_prop in H as [H1 H2].
    rewrite adjs_cons, inl_nb, H1, IH by exact H2. reflexivity.
  Qed.
  Lemma cliqueb_padj : forall s, cliqueb G s = forallb (fun y => is_some (vval G y)) s && padj G s.
  Proof.
    induction s as [|a r IH]; [reflexivity|]. cbn [cliqueb forallb padj]. rewrite IH.
    destruct (is_some (vval G a)), (forallb (adj G a) r), (forallb _ r), (padj G r); reflexivity.
  Qed.
  Lemma adj_vertices x : forall s, forallb (adj G x) s = true -> forallb (fun y => is_some (vval G y)) s = true.
  Proof.
    induction s as [|y t IH]; intro H; [reflexivity|]. cbn [forallb] in *. apply andb_prop in H as [H1 H2].
    rewrite IH by exact H2. unfold adj in H1. destruct (eval G x y) eqn:E; [|discriminate].
    destruct (HV x y v E) as [_ Hy]. destruct (vval G y); [reflexivity | congruence].
  Qed.
  Lemma mval_ext2s vw e1 e2 : forall s, ssortedb s = true ->
    (forall a b, In a s -> In b s -> a < b -> e1 a b = e2 a b) -> mval vw e1 s = mval vw e2 s.
  Proof.
    induction s as [|a [|b t] IH]; intros Hs H; [reflexivity | reflexivity |].
    cbn [ssortedb] in Hs. apply andb_prop in Hs as [H1 H2].
    rewrite !mval_cons2. rewrite IH; [| exact H2 | intros; apply H; cbn; auto].
    f_equal. apply fmx_ext. intros u Hu. apply H; [cbn; auto | right; exact Hu | eapply lbound_in; eauto].
  Qed.
  Lemma values_bridge x s : lbound x s = true -> ssortedb s = true ->
    mval (vwf (nb x)) (nbw nb) s = mval (ew G x) (ew G) s.
  Proof.
    intros Hb Hs. transitivity (mval (ew G x) (nbw nb) s).
    - apply mval_ext. intros y Hy. unfold vwf, ew. rewrite HB.
      pose proof (lbound_in x s y Hb Hy). assert (x <? y = true) as -> by lia. reflexivity.
    - apply mval_ext2s; [exact Hs|]. intros a b _ _ Hab. unfold nbw, vwf, ew. rewrite HB.
      assert (a <? b = true) as -> by lia. reflexivity.
  Qed.
End bridge.

Theorem rspec_flag G root d :
  (forall x, option_map fst (get x root) = vval G x) ->
  (forall x y, vlookup y (nbrs root x) = if x <? y then eval G x y else None) ->
  (forall x y w, eval G x y = Some w -> vval G x <> None /\ vval G y <> None) ->
  1 <= d -> forall s, rspec root d s = flag G d s.
Proof.
  intros HA HB HV Hd [|x [|y t]]; [reflexivity | |].
  - cbn [rspec]. rewrite HA. unfold flag. cbn [ssortedb lbound is_nil negb cliqueb forallb fval andb].
    unfold lenZ. cbn [length]. destruct (vval G x); cbn [is_some option_map fst andb]; [|reflexivity].
    destruct (Z.leb_spec (Z.of_nat 1) (d + 1)); [reflexivity | lia].
  - cbn [rspec]. set (s' := y :: t). unfold flag.
    change (ssortedb (x :: s')) with (lbound x s' && ssortedb s').
    change (is_nil (x :: s')) with false.
    change (cliqueb G (x :: s')) with (is_some (vval G x) && forallb (adj G x) s' && cliqueb G s').
    change (fval G (x :: s')) with (mval (ew G x) (ew G) s').
    destruct (get x root) as [e|] eqn:Eg.
    + assert (is_some (vval G x) = true) as -> by (rewrite <- HA, Eg; reflexivity).
      unfold fspec. change (is_nil s') with false. cbn [negb andb]. rewrite !andb_true_r.
      assert ((length s' <=? S (Z.to_nat (d - 1)))%nat = (lenZ (x :: s') <=? d + 1)) as ->.
      { unfold lenZ. cbn [length]. destruct (Nat.leb_spec (length s') (S (Z.to_nat (d - 1)))), (Z.leb_spec (Z.of_nat (S (length s'))) (d + 1));
          try reflexivity; exfalso; lia. }
      destruct (ssortedb s') eqn:Es; [|cbn [andb]; rewrite !andb_false_r; reflexivity].
      rewrite (adjs_padj G (nbrs root) HB s' Es), (inl_nb G (nbrs root) HB x s'), (cliqueb_padj G s').
      destruct (lbound x s') eqn:Hb; [|reflexivity]. cbn [andb].
      destruct (forallb (adj G x) s') eqn:Hfa; [|reflexivity].
      rewrite (adj_vertices G HV x s' Hfa). cbn [andb].
      destruct (padj G s'); [|reflexivity]. cbn [andb].
      destruct (lenZ (x :: s') <=? d + 1); [|reflexivity]. f_equal.
      apply values_bridge; auto.
    + assert (is_some (vval G x) = false) as -> by (rewrite <- HA, Eg; reflexivity).
      cbn [andb]. rewrite !andb_false_r. reflexivity.
Qed.

(* ------------------------------------------------------------------------------------------------ main theorems *)
Lemma graph_ok_eval G : edges_okb G = true -> forall x y w, eval G x y = Some w -> vval G x <> None /\ vval G y <> None.
Proof. intros Hok x y w. apply edges_ok_elookup, graph_ok_edges, Hok. Qed.

Theorem expansion_flag G st d : edges_okb G = true -> ins_graph G = Some st -> 2 <= d ->
  wf (tree (expansion st d)) /\
  (forall s, lookup (abs (tree (expansion st d))) s = flag G d s) /\
  dimn (expansion st d) = height_t (Node (tree (expansion st d))).
Proof.
  intros Hok Hi Hd. pose proof (ins_graph_inv G st Hok Hi) as J.
  pose proof (Jinv_groot _ _ _ J) as Gr. pose proof (graph_ok_eval G Hok) as HV.
  assert (forall x y, vlookup y (nbrs (tree st) x) = if x <? y then eval G x y else None) as HB.
  { apply (Jinv_nbrs G (gedges G) (tree st) J). intros x y w H. apply (HV x y w H). }
  destruct J as (W & J2 & J3). destruct st as [root dm]. cbn [tree] in *.
  destruct (expansion_tree_spec root dm d Gr Hd) as [W' F']. split; [exact W' | split].
  - intro s. rewrite find_abs by exact W'. rewrite F'. apply rspec_flag; auto. lia.
  - destruct root as [|e r] eqn:Er.
    + unfold expansion. cbn [tree is_nil]. destruct (d <=? 1); cbn [dimn tree height_t fold_right];
        unfold ins_graph in Hi; destruct (gverts G) as [|p vs] eqn:Ev;
        try (inversion Hi; reflexivity);
        exfalso; specialize (J2 (fst p)); cbn in J2; unfold vval in J2; rewrite Ev in J2; destruct p; cbn in J2;
        rewrite Z.eqb_refl in J2; discriminate.
    + rewrite <- Er. apply expansion_dimension; [exact Hd | rewrite Er; discriminate].
Qed.

(* the value is also the largest among vertices AND edges when no edge is below its end points *)
Lemma fmx_le_iff g a r m : fmx g a r <= m <-> a <= m /\ forall y, In y r -> g y <= m.
Proof.
  induction r as [|y r IH]; cbn [fmx fold_right In].
  - split; [intro; split; [lia | tauto] | tauto].
  - fold (fmx g a r). split.
    + intro H. assert (fmx g a r <= m) as H' by lia. apply IH in H' as [H1 H2]. split; [exact H1|].
      intros z [->|Hz]; [lia | auto].
    + intros [H1 H2]. assert (fmx g a r <= m) by (apply IH; split; auto). specialize (H2 y (or_introl eq_refl)). lia.
Qed.

(* ------------------------------------------------------------------------------------------------ max_dim = 1: the graph itself *)
Definition leafy (root : sibs) : Prop :=
  forall a wa c, get a root = Some (wa, c) -> forall b wb cb, get b (kids c) = Some (wb, cb) -> cb = leaf.
Lemma leafy_step root u v w root' : leafy root -> ins_edge (Some root) (u, v, w) = Some root' -> leafy root'.
Proof.
  intros L H. unfold ins_edge in H. destruct (u =? v); [discriminate|].
  destruct (get (Z.min u v) root) as [[wa [c]]|] eqn:Ea; [|discriminate]. inversion H; subst root'. clear H.
  intros a' wa' c'' Hg b' wb cb Hb. destruct (Z.eq_dec a' (Z.min u v)) as [->|Hx].
  - rewrite get_put_same in Hg. inversion Hg; subst wa' c''. cbn [kids] in Hb.
    destruct (get (Z.max u v) c) eqn:Eb.
    + eapply (L _ _ _ Ea); eauto.
    + destruct (Z.eq_dec b' (Z.max u v)) as [->|Hb'].
      * rewrite get_put_same in Hb. inversion Hb; reflexivity.
      * rewrite get_put_other in Hb by auto. eapply (L _ _ _ Ea); eauto.
  - rewrite get_put_other in Hg by auto. eapply L; eauto.
Qed.
Lemma leafy_fold : forall es root root', leafy root -> fold_left ins_edge es (Some root) = Some root' -> leafy root'.
Proof.
  induction es as [|[[u v] w] es IH]; intros root root' L H; [inversion H; subst; exact L|].
  cbn [fold_left] in H. destruct (ins_edge (Some root) (u, v, w)) as [r1|] eqn:E1.
  - eapply IH; [eapply leafy_step; eauto | exact H].
  - exfalso. clear - H. induction es as [|e es IH]; [discriminate | apply IH; exact H].
Qed.
Lemma ins_graph_leafy G st : ins_graph G = Some st -> leafy (tree st).
Proof.
  unfold ins_graph. destruct (gverts G) as [|p vs] eqn:Ev.
  - intro H; inversion H; subst. intros a wa c Hg. discriminate.
  - rewrite <- Ev. destruct (fold_left ins_edge _ _) as [t|] eqn:Ef; [|discriminate]. intro H; inversion H; subst. cbn [tree].
    eapply leafy_fold; [|exact Ef]. intros a wa c Hg. rewrite ins_vertices_get in Hg. cbn [get] in Hg.
    destruct (vlookup a (gverts G)); [|discriminate]. inversion Hg; subst. intros b wb cb Hb. discriminate.
Qed.
Theorem graph_flag1 G st : edges_okb G = true -> ins_graph G = Some st ->
  wf (tree st) /\ (forall s, lookup (abs (tree st)) s = flag G 1 s) /\ (forall d, d <= 1 -> expansion st d = st).
Proof.
  intros Hok Hi. pose proof (ins_graph_inv G st Hok Hi) as J. pose proof (ins_graph_leafy G st Hi) as L.
  pose proof (graph_ok_eval G Hok) as HV.
  assert (forall x y, vlookup y (nbrs (tree st) x) = if x <? y then eval G x y else None) as HB.
  { apply (Jinv_nbrs G (gedges G) (tree st) J). intros x y w H. apply (HV x y w H). }
  destruct J as (W & J2 & J3). split; [exact W | split].
  - intro s. rewrite find_abs by exact W. rewrite <- (rspec_flag G (tree st) 1 J2 HB HV) by lia.
    destruct s as [|x [|y [|z t]]]; [reflexivity | reflexivity | |].
    + rewrite find_val_deep. cbn [rspec]. destruct (get x (tree st)) as [[w [c]]|] eqn:Eg; [|reflexivity].
      rewrite find_val_one. rewrite (nbrs_get _ _ _ _ Eg).
      pose proof (wf_get x _ w (Node c) W Eg) as Wc. rewrite wf_t_node in Wc.
      rewrite <- (vlookup_labs y c Wc). unfold fspec. cbn. unfold vwf. destruct (vlookup y (labs c)); reflexivity.
    + rewrite find_val_deep. cbn [rspec]. destruct (get x (tree st)) as [[w [c]]|] eqn:Eg; [|reflexivity].
      rewrite find_val_deep. unfold fspec. cbn [length Z.to_nat Z.sub Nat.leb]. rewrite !andb_false_r.
      destruct (get y c) as [[wy [cy]]|] eqn:Ey; [|reflexivity].
      pose proof (L x w (Node c) Eg y wy (Node cy) Ey) as Hl. inversion Hl; subst. apply find_val_nil_l.
  - intros d Hd. unfold expansion. destruct (Z.leb_spec d 1); [reflexivity | lia].
Qed.

(* ------------------------------------------------------------------------------------------------ values incl. the vertices *)
Lemma elookup_in x y : forall es w, elookup x y es = Some w ->
  exists a b, In (a, b, w) es /\ ((a = x /\ b = y) \/ (a = y /\ b = x)).
Proof.
  induction es as [|[[a b] o] es IH]; intros w H; [discriminate|]. cbn [elookup] in H.
  destruct (((a =? x) && (b =? y)) || ((a =? y) && (b =? x))) eqn:E.
  - inversion H; subst. exists a, b. split; [left; reflexivity | lia].
  - destruct (IH w H) as (a' & b' & Hin & Hm). exists a', b'. split; [right; exact Hin | exact Hm].
Qed.
Definition vv (G : graph) (x : Z) : V := match vval G x with Some w => w | None => 0 end.
Lemma mono_edge G x y : graph_monob G = true -> adj G x y = true -> is_some (vval G x) = true -> is_some (vval G y) = true ->
  vv G x <= ew G x y /\ vv G y <= ew G x y.
Proof.
  unfold graph_monob, adj, ew, vv, eval. intros Hm Ha Hx Hy. rewrite forallb_forall in Hm.
  destruct (elookup x y (gedges G)) as [w|] eqn:E; [|discriminate].
  destruct (elookup_in x y _ w E) as (a & b & Hin & Hab). specialize (Hm _ Hin). cbn beta iota in Hm.
  destruct Hab as [[-> ->]|[-> ->]]; destruct (vval G x), (vval G y); try discriminate; lia.
Qed.
Theorem fval_with_vertices G s : graph_monob G = true -> cliqueb G s = true -> s <> [] -> fval G s = fval_all G s.
Proof.
  intros Hm Hc Hn. destruct s as [|x [|y t]]; [congruence | reflexivity |].
  change (fval G (x :: y :: t)) with (mval (ew G x) (ew G) (y :: t)).
  change (fval_all G (x :: y :: t)) with (mval (vv G) (ew G) (x :: y :: t)).
  rewrite mval_cons2. set (r := y :: t) in *.
  rewrite <- (mval_shift (vv G) (ew G) x (vv G x) r) by discriminate.
  apply mval_ext. intros u Hu. cbn [cliqueb] in Hc. apply andb_prop in Hc as [Hc Hcr]. apply andb_prop in Hc as [Hx Ha].
  rewrite forallb_forall in Ha. specialize (Ha u Hu).
  assert (is_some (vval G u) = true) as Hu'.
  { clear - Hcr Hu. induction r as [|z r IH]; [destruct Hu|]. cbn [cliqueb] in Hcr. apply andb_prop in Hcr as [H1 H2].
    apply andb_prop in H1 as [H1 _]. destruct Hu as [->|Hu]; auto. }
  destruct (mono_edge G x u Hm Ha Hx Hu'). lia.
Qed.

(* ------------------------------------------------------------------------------------------------ witnesses for max_dim <= 0 *)
Definition G_edge : graph := mkG [(0, 0); (1, 0)] [(0, 1, 2)].
Lemma expansion_dim0_keeps_edges_refuted_lemma :
  exists G st, graph_okb G = true /\ ins_graph G = Some st /\
               lookup (abs (tree (expansion st 0))) [0; 1] = Some 2 /\ flag G 0 [0; 1] = None /\ dimn (expansion st 0) = 1.
Proof. exists G_edge. eexists. repeat split; vm_compute; reflexivity. Qed.
Definition G_k4 : graph := mkG [(0, 0); (1, 0); (2, 0); (3, 0)] [(0, 1, 0); (0, 2, 0); (0, 3, 0); (1, 2, 0); (1, 3, 0); (2, 3, 0)].
(* the unrepaired expansion_with_blockers (fx = false) with max_dim = 0 builds the tetrahedron *)
Lemma blockers_dim0_unbounded_refuted_lemma :
  exists G st, graph_okb G = true /\ ins_graph G = Some st /\
               let r := fst (exp_blockers (fun _ _ => false) false st 0) in
               lookup (abs (tree r)) [0; 1; 2; 3] = Some 0 /\ flag G 0 [0; 1; 2; 3] = None /\ dimn r = 3.
Proof. exists G_k4. eexists. repeat split; vm_compute; reflexivity. Qed.
(* the repaired one leaves the graph as it is for max_dim <= 1 *)
Lemma blockers_low_dim P st d : d <= 1 -> exp_blockers P true st d = (st, []).
Proof. intro H. unfold exp_blockers. destruct (Z.leb_spec d 1); [reflexivity | lia]. Qed.

(* ------------------------------------------------------------------------------------------------ Rips *)
Lemma in_zrange x : forall n a, In x (zrange a n) <-> a <= x < a + Z.of_nat n.
Proof.
  induction n as [|n IH]; intro a; cbn [zrange In]; [lia|]. rewrite IH. lia.
Qed.
Lemma vlookup_const x c : forall L, vlookup x (map (fun i => (i, c)) L) = if existsb (Z.eqb x) L then Some c else None.
Proof.
  induction L as [|y L IH]; [reflexivity|]. cbn [map vlookup existsb]. destruct (x =? y); [reflexivity | exact IH].
Qed.
Definition inr (n : nat) (x : Z) : bool := (0 <=? x) && (x <? Z.of_nat n).
Lemma existsb_zrange x n : existsb (Z.eqb x) (zrange 0 n) = inr n x.
Proof.
  unfold inr. destruct (existsb (Z.eqb x) (zrange 0 n)) eqn:E.
  - apply existsb_exists in E as (y & Hy & Hxy). apply in_zrange in Hy. lia.
  - destruct ((0 <=? x) && (x <? Z.of_nat n)) eqn:E2; [|reflexivity].
    assert (existsb (Z.eqb x) (zrange 0 n) = true); [|congruence].
    apply existsb_exists. exists x. split; [apply in_zrange; lia | lia].
Qed.
Lemma vval_prox n dist thr x : vval (prox_graph n dist thr) x = if inr n x then Some 0 else None.
Proof. unfold vval, prox_graph. cbn [gverts]. rewrite vlookup_const, existsb_zrange. reflexivity. Qed.
Lemma in_prox_edges n dist thr a b o :
  In (a, b, o) (gedges (prox_graph n dist thr)) <->
  inr n a = true /\ inr n b = true /\ a < b /\ dist a b <= thr /\ o = dist a b.
Proof.
  unfold prox_graph. cbn [gedges]. rewrite in_flat_map. split.
  - intros (i & Hi & H). apply in_flat_map in H as (j & Hj & H).
    destruct ((i <? j) && (dist i j <=? thr)) eqn:E; [|destruct H]. destruct H as [H|[]]. inversion H; subst.
    apply in_zrange in Hi, Hj. unfold inr. repeat split; lia.
  - intros (Ha & Hb & Hab & Hd & ->). unfold inr in *. exists a. split; [apply in_zrange; lia|].
    apply in_flat_map. exists b. split; [apply in_zrange; lia|].
    assert ((a <? b) && (dist a b <=? thr) = true) as -> by lia. left; reflexivity.
Qed.
Lemma elookup_none x y : forall es,
  (forall a b o, In (a, b, o) es -> ~ ((a = x /\ b = y) \/ (a = y /\ b = x))) -> elookup x y es = None.
Proof.
  induction es as [|[[a b] o] es IH]; intro H; [reflexivity|]. cbn [elookup].
  destruct (((a =? x) && (b =? y)) || ((a =? y) && (b =? x))) eqn:E.
  - exfalso. apply (H a b o (or_introl eq_refl)). lia.
  - apply IH. intros a' b' o' Hin. apply (H a' b' o'). right; exact Hin.
Qed.
Lemma elookup_some x y w : forall es,
  (exists a b, In (a, b, w) es /\ ((a = x /\ b = y) \/ (a = y /\ b = x))) ->
  (forall a b o, In (a, b, o) es -> ((a = x /\ b = y) \/ (a = y /\ b = x)) -> o = w) -> elookup x y es = Some w.
Proof.
  induction es as [|[[a b] o] es IH]; intros (a' & b' & Hin & Hm) Hu; [destruct Hin|]. cbn [elookup].
  destruct (((a =? x) && (b =? y)) || ((a =? y) && (b =? x))) eqn:E.
  - f_equal. apply (Hu a b o (or_introl eq_refl)). lia.
  - apply IH.
    + destruct Hin as [Hh|Hin]; [inversion Hh; subst; lia | exists a', b'; auto].
    + intros a2 b2 o2 Hin2. apply (Hu a2 b2 o2). right; exact Hin2.
Qed.
Lemma eval_prox n dist thr x y : x < y ->
  eval (prox_graph n dist thr) x y = if inr n x && inr n y && (dist x y <=? thr) then Some (dist x y) else None.
Proof.
  intro Hxy. unfold eval. destruct (inr n x && inr n y && (dist x y <=? thr)) eqn:E.
  - apply andb_prop in E as [E E3]. apply andb_prop in E as [E1 E2]. apply elookup_some.
    + exists x, y. split; [apply (proj2 (in_prox_edges n dist thr x y (dist x y))); repeat split; auto; lia | left; auto].
    + intros a b o Hin Hm. apply in_prox_edges in Hin as (_ & _ & Hab & _ & ->). destruct Hm as [[-> ->]|[-> ->]]; [reflexivity | lia].
  - apply elookup_none. intros a b o Hin Hm. apply in_prox_edges in Hin as (Ha & Hb & Hab & Hd & _).
    destruct Hm as [[-> ->]|[-> ->]]; [|lia]. rewrite Ha, Hb in E. cbn [andb] in E. lia.
Qed.
Lemma prox_edges_okb n dist thr : edges_okb (prox_graph n dist thr) = true.
Proof.
  unfold edges_okb. apply forallb_forall. intros [[a b] o] Hin. apply in_prox_edges in Hin as (Ha & Hb & Hab & _).
  rewrite !vval_prox, Ha, Hb. cbn. lia.
Qed.

Lemma pairs_le_in dist thr : forall r a b, ssortedb r = true -> pairs_le dist thr r = true ->
  In a r -> In b r -> a < b -> dist a b <= thr.
Proof.
  induction r as [|x r IH]; intros a b Hs Hp Ha Hb Hab; [destruct Ha|].
  cbn [ssortedb pairs_le] in *. apply andb_prop in Hs as [Hs1 Hs2]. apply andb_prop in Hp as [Hp1 Hp2].
  destruct Ha as [->|Ha].
  - destruct Hb as [->|Hb]; [lia|]. rewrite forallb_forall in Hp1. specialize (Hp1 b Hb). lia.
  - destruct Hb as [->|Hb]; [pose proof (lbound_in b r a Hs1 Ha); lia | eapply IH; eauto].
Qed.
Lemma inrange_in n r y : inrange n r = true -> In y r -> inr n y = true.
Proof. unfold inrange. rewrite forallb_forall. intros H Hy. apply (H y Hy). Qed.
Lemma adj_prox_row n dist thr x : forall r, inr n x = true -> lbound x r = true ->
  forallb (adj (prox_graph n dist thr) x) r = inrange n r && forallb (fun y => dist x y <=? thr) r.
Proof.
  induction r as [|y r IH]; intros Hx Hb; [reflexivity|]. cbn [lbound] in Hb. apply andb_prop in Hb as [H1 H2].
  cbn [forallb inrange]. fold (inrange n r). rewrite IH by auto. unfold adj at 1. rewrite eval_prox by lia. rewrite Hx. cbn [andb].
  fold (inr n y). destruct (inr n y), (dist x y <=? thr), (inrange n r), (forallb _ r); reflexivity.
Qed.
Lemma cliqueb_prox n dist thr : forall s, ssortedb s = true ->
  cliqueb (prox_graph n dist thr) s = inrange n s && pairs_le dist thr s.
Proof.
  induction s as [|x r IH]; intro Hs; [reflexivity|]. cbn [ssortedb] in Hs. apply andb_prop in Hs as [H1 H2].
  cbn [cliqueb inrange pairs_le forallb]. fold (inrange n r) (inr n x). rewrite IH by exact H2. rewrite vval_prox.
  destruct (inr n x) eqn:Hx; [|reflexivity]. cbn [is_some andb]. rewrite adj_prox_row by auto.
  destruct (inrange n r), (forallb _ r), (pairs_le dist thr r); reflexivity.
Qed.
Theorem rips_spec_flag n dist thr d s : flag (prox_graph n dist thr) d s = rips_spec n dist thr d s.
Proof.
  unfold flag, rips_spec. destruct (ssortedb s) eqn:Hs; [|reflexivity]. cbn [andb].
  rewrite cliqueb_prox by exact Hs. destruct (is_nil s) eqn:Hn; [reflexivity|]. cbn [negb andb].
  destruct (inrange n s) eqn:Hi; [|reflexivity]. destruct (pairs_le dist thr s) eqn:Hp; [|reflexivity].
  cbn [andb]. destruct (lenZ s <=? d + 1); [|reflexivity]. f_equal.
  destruct s as [|x [|y t]]; [discriminate | |].
  - cbn [fval]. rewrite vval_prox. cbn [inrange forallb] in Hi. fold (inr n x) in Hi. rewrite andb_true_r in Hi. rewrite Hi. reflexivity.
  - set (r := y :: t) in *. change (fval (prox_graph n dist thr) (x :: r)) with (mval (ew (prox_graph n dist thr) x) (ew (prox_graph n dist thr)) r).
    cbn [ssortedb] in Hs. apply andb_prop in Hs as [Hs1 Hs2].
    cbn [inrange forallb] in Hi. fold (inrange n r) (inr n x) in Hi. apply andb_prop in Hi as [Hx Hr].
    cbn [pairs_le] in Hp. apply andb_prop in Hp as [Hp1 Hp2]. rewrite forallb_forall in Hp1.
    transitivity (mval (dist x) (ew (prox_graph n dist thr)) r).
    + apply mval_ext. intros u Hu. unfold ew. rewrite eval_prox by (eapply lbound_in; eauto).
      rewrite Hx, (inrange_in n r u Hr Hu). specialize (Hp1 u Hu). rewrite Hp1. reflexivity.
    + apply mval_ext2s; [exact Hs2|]. intros a b Ha Hb Hab. unfold ew. rewrite eval_prox by exact Hab.
      rewrite (inrange_in n r a Hr Ha), (inrange_in n r b Hr Hb).
      pose proof (pairs_le_in dist thr r a b Hs2 Hp2 Ha Hb Hab). assert (dist a b <=? thr = true) as -> by lia. reflexivity.
Qed.
Theorem rips_is_flag n dist thr d : 2 <= d ->
  exists st, rips n dist thr d = Some st /\ wf (tree st) /\
             (forall s, lookup (abs (tree st)) s = rips_spec n dist thr d s) /\ dimn st = height_t (Node (tree st)).
Proof.
  intro Hd. pose proof (prox_edges_okb n dist thr) as Hok. destruct (ins_graph_total _ Hok) as [st0 E0].
  unfold rips. rewrite E0. eexists. split; [reflexivity|].
  destruct (expansion_flag _ st0 d Hok E0 Hd) as (W & F & D). split; [exact W | split; [|exact D]].
  intro s. rewrite F. apply rips_spec_flag.
Qed.
Theorem rips_low_dim n dist thr d : d <= 1 ->
  exists st, rips n dist thr d = Some st /\ wf (tree st) /\ (forall s, lookup (abs (tree st)) s = rips_spec n dist thr 1 s).
Proof.
  intro Hd. pose proof (prox_edges_okb n dist thr) as Hok. destruct (ins_graph_total _ Hok) as [st0 E0].
  unfold rips. rewrite E0. destruct (graph_flag1 _ st0 Hok E0) as (W & F & X). rewrite (X d Hd).
  exists st0. split; [reflexivity | split; [exact W|]]. intro s. rewrite F. apply rips_spec_flag.
Qed.
