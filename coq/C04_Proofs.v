(* C04_Proofs.v - the one-shot expansion builds exactly the flag complex (values, dimension), Rips = flag complex of the
   threshold graph; witnesses for the max_dim <= 0 behaviour. *)
From Coq Require Import ZArith List Lia Bool ZifyBool.
Import ListNotations.
Require Import Simplex Trie C01_Model C01_Proofs C04_Model.
Local Open Scope Z_scope.

(* ------------------------------------------------------------------------------------------------ sorted (label,value) lists *)
Definition lbnd (x : Z) (l : lv) : Prop := Forall (fun p => x < fst p) l.
Fixpoint lsorted (l : lv) : Prop := match l with [] => True | p :: r => lbnd (fst p) r /\ lsorted r end.

Lemma lbnd_weaken x y l : x <= y -> lbnd y l -> lbnd x l.
Proof. intros H F. unfold lbnd in *. eapply Forall_impl; [|exact F]. cbn. intros; lia. Qed.
Lemma vlookup_lbnd x y l : lbnd x l -> y <= x -> vlookup y l = None.
Proof.
  induction l as [|[z w] r IH]; intros F H; cbn [vlookup]; [reflexivity|].
  inversion F as [|? ? Hz Fr]; subst. cbn [fst] in Hz.
  destruct (Z.eqb_spec y z); [lia|]. apply IH; auto.
Qed.
Lemma vlookup_some_lbnd x y l w : lbnd x l -> vlookup y l = Some w -> x < y.
Proof. intros F H. destruct (Z_lt_le_dec x y); auto. rewrite (vlookup_lbnd x y l F) in H by lia. discriminate. Qed.

(* ------------------------------------------------------------------------------------------------ intersection *)
Lemma inter_nil_l f l2 fil : inter f [] l2 fil = [].
Proof. reflexivity. Qed.
Lemma inter_nil_r f l1 fil : inter f l1 [] fil = [].
Proof. destruct l1 as [|[x a] r]; reflexivity. Qed.
Lemma inter_cons f x a r1 y b r2 fil :
  inter f ((x, a) :: r1) ((y, b) :: r2) fil =
  match x ?= y with
  | Eq => (x, if f then fil else Z.max (Z.max a b) fil) :: inter f r1 r2 fil
  | Lt => inter f r1 ((y, b) :: r2) fil
  | Gt => inter f ((x, a) :: r1) r2 fil
  end.
Proof. cbn [inter]. destruct (x ?= y); reflexivity. Qed.

Lemma inter_lbnd f z fil : forall l1 l2, lbnd z l1 -> lbnd z (inter f l1 l2 fil).
Proof.
  induction l1 as [|[x a] r1 IH1]; intros l2 F; [constructor|].
  induction l2 as [|[y b] r2 IH2]; [rewrite inter_nil_r; constructor|].
  rewrite inter_cons. inversion F as [|? ? Hx Fr]; subst. cbn [fst] in Hx.
  destruct (x ?= y).
  - constructor; [exact Hx|]. apply IH1; auto.
  - apply IH1; auto.
  - exact IH2.
Qed.
Lemma inter_sorted f fil : forall l1 l2, lsorted l1 -> lsorted l2 -> lsorted (inter f l1 l2 fil).
Proof.
  induction l1 as [|[x a] r1 IH1]; intros l2 S1 S2; [exact I|].
  induction l2 as [|[y b] r2 IH2]; [rewrite inter_nil_r; exact I|].
  rewrite inter_cons. destruct S1 as [B1 S1]. destruct S2 as [B2 S2]. cbn [fst] in *.
  destruct (x ?= y).
  - split; [apply inter_lbnd; exact B1 | apply IH1; auto].
  - apply IH1; [exact S1 | split; auto].
  - apply IH2; exact S2.
Qed.
Lemma inter_lookup fil z : forall l1 l2, lsorted l1 -> lsorted l2 ->
  vlookup z (inter false l1 l2 fil) =
  match vlookup z l1, vlookup z l2 with Some a, Some b => Some (Z.max (Z.max a b) fil) | _, _ => None end.
Proof.
  induction l1 as [|[x a] r1 IH1]; intros l2 S1 S2; [reflexivity|].
  induction l2 as [|[y b] r2 IH2].
  { rewrite inter_nil_r. cbn [vlookup]. destruct (if z =? x then _ else _); reflexivity. }
  rewrite inter_cons. destruct S1 as [B1 S1]. destruct S2 as [B2 S2]. cbn [fst] in *.
  destruct (Z.compare_spec x y) as [E|E|E].
  - subst y. cbn [vlookup]. destruct (Z.eqb_spec z x); [reflexivity|]. apply IH1; auto.
  - rewrite IH1 by (auto; split; auto). cbn [vlookup].
    destruct (Z.eqb_spec z x) as [->|Hzx]; [|reflexivity].
    rewrite (vlookup_lbnd x x r1 B1) by lia.
    destruct (Z.eqb_spec x y); [lia|]. try rewrite (vlookup_lbnd y x r2 B2) by lia. reflexivity.
  - rewrite IH2 by auto. cbn [vlookup].
    destruct (Z.eqb_spec z y) as [->|Hzy]; [|reflexivity].
    destruct (Z.eqb_spec y x); [lia|]. rewrite (vlookup_lbnd x y r1 B1) by lia.
    try rewrite (vlookup_lbnd y y r2 B2) by lia. reflexivity.
Qed.

(* ------------------------------------------------------------------------------------------------ the maximum *)
Lemma fmx_cons g a y r : fmx g a (y :: r) = Z.max (g y) (fmx g a r).
Proof. reflexivity. Qed.
Lemma fmx_max g a b r : fmx g (Z.max a b) r = Z.max (fmx g a r) b.
Proof. induction r as [|y r IH]; [reflexivity|]. rewrite !fmx_cons, IH. lia. Qed.
Lemma fmx_ge g a r : a <= fmx g a r.
Proof. induction r as [|y r IH]; [cbn; lia|]. rewrite fmx_cons. lia. Qed.
Lemma fmx_ext g1 g2 a r : (forall y, In y r -> g1 y = g2 y) -> fmx g1 a r = fmx g2 a r.
Proof.
  induction r as [|y r IH]; intro H; [reflexivity|]. rewrite !fmx_cons.
  rewrite IH by (intros; apply H; cbn; auto). rewrite (H y) by (cbn; auto). reflexivity.
Qed.
Lemma mval_one vw e x : mval vw e [x] = vw x.
Proof. reflexivity. Qed.
Lemma mval_cons2 vw e x y t : mval vw e (x :: y :: t) = Z.max (fmx (e x) (vw x) (y :: t)) (mval vw e (y :: t)).
Proof. reflexivity. Qed.
Lemma mval_ext vw1 vw2 e : forall s, (forall y, In y s -> vw1 y = vw2 y) -> mval vw1 e s = mval vw2 e s.
Proof.
  induction s as [|x [|y t] IH]; intro H; [reflexivity | rewrite !mval_one; apply H; cbn; auto |].
  rewrite !mval_cons2. rewrite IH by (intros; apply H; cbn; auto). rewrite (H x) by (cbn; auto). reflexivity.
Qed.
Lemma mval_ext2 vw e1 e2 : forall s, (forall x y, In x s -> In y s -> e1 x y = e2 x y) -> mval vw e1 s = mval vw e2 s.
Proof.
  induction s as [|x [|y t] IH]; intro H; [reflexivity | reflexivity |].
  rewrite !mval_cons2. rewrite IH by (intros; apply H; cbn; auto).
  f_equal. apply fmx_ext. intros u Hu. apply H; cbn; auto.
Qed.
(* taking a common vertex x (value w, edge values e x .) into the vertex values = adding x to the simplex *)
Lemma mval_shift vw e x w : forall s, s <> [] ->
  mval (fun y => Z.max (Z.max (vw y) (e x y)) w) e s = Z.max (fmx (e x) w s) (mval vw e s).
Proof.
  induction s as [|y [|z t] IH]; intro Hn; [congruence | rewrite !mval_one; cbn [fmx fold_right]; lia |].
  rewrite (mval_cons2 _ e y z t), (mval_cons2 vw e y z t), IH by discriminate.
  rewrite !fmx_max. rewrite (fmx_cons (e x) w y (z :: t)).
  pose proof (fmx_ge (e x) w (z :: t)). lia.
Qed.

(* ------------------------------------------------------------------------------------------------ expansion of one Siblings *)
Definition vwf (l : lv) (y : Z) : V := match vlookup y l with Some w => w | None => 0 end.
Definition nbw (nb : Z -> lv) (x y : Z) : V := vwf (nb x) y.
Definition inl (l : lv) (s : simplex) : bool := forallb (fun y => is_some (vlookup y l)) s.
Fixpoint adjs (nb : Z -> lv) (s : simplex) : bool :=
  match s with [] => true | x :: r => inl (nb x) r && adjs nb r end.
(* what the subtree below a sibling set l, expanded k further levels, holds *)
Definition fspec (nb : Z -> lv) (k : nat) (l : lv) (s : simplex) : option V :=
  if ssortedb s && negb (is_nil s) && inl l s && adjs nb s && (length s <=? S k)%nat
  then Some (mval (vwf l) (nbw nb) s) else None.

Lemma expand_nil nb k : expand nb k [] = [].
Proof. destruct k; reflexivity. Qed.
Lemma expand_cons nb k x w r :
  expand nb k ((x, w) :: r) =
  (x, w, Node (match k with O => [] | S k' => expand nb k' (inter false r (nb x) w) end)) :: expand nb k r.
Proof. destruct k; reflexivity. Qed.

Lemma expand_lb nb k z : forall l, lbnd z l -> lb_sibs z (expand nb k l).
Proof.
  induction l as [|[x w] r IH]; intro F; [rewrite expand_nil; exact I|].
  rewrite expand_cons. inversion F; subst. cbn [lb_sibs label fst]. split; auto.
Qed.
Lemma expand_wf nb : (forall x, lsorted (nb x)) -> forall k l, lsorted l -> wf (expand nb k l).
Proof.
  intros Hnb. induction k as [|k IHk]; induction l as [|[x w] r IHl]; intro S;
    try (rewrite expand_nil; apply wf_nil); rewrite expand_cons; apply wf_cons; destruct S as [B S]; cbn [fst] in B.
  - split; [apply expand_lb; exact B | split; [exact I | apply IHl; exact S]].
  - split; [apply expand_lb; exact B | split; [| apply IHl; exact S]].
    rewrite wf_t_node. apply IHk. apply inter_sorted; auto.
Qed.

Lemma inl_cons_lt l x w s : lbound x s = true -> inl ((x, w) :: l) s = inl l s.
Proof.
  induction s as [|y t IH]; intro H; [reflexivity|]. cbn [lbound] in H. apply andb_prop in H as [H1 H2].
  cbn [inl forallb vlookup]. destruct (Z.eqb_spec y x); [lia|]. f_equal. apply IH; auto.
Qed.
Lemma inl_lbound l x s : lbnd x l -> inl l s = true -> lbound x s = true.
Proof.
  intro F. induction s as [|y t IH]; intro H; [reflexivity|]. cbn [inl forallb] in H. apply andb_prop in H as [H1 H2].
  cbn [lbound]. rewrite IH by exact H2. destruct (vlookup y l) eqn:E; [|discriminate].
  apply (vlookup_some_lbnd x) in E; auto. rewrite andb_true_r. lia.
Qed.
Lemma inl_inter r n w s : lsorted r -> lsorted n -> inl (inter false r n w) s = inl r s && inl n s.
Proof.
  intros Sr Sn. induction s as [|y t IH]; [reflexivity|]. cbn [inl forallb]. fold (inl (inter false r n w) t) (inl r t) (inl n t).
  rewrite IH, inter_lookup by auto. destruct (vlookup y r), (vlookup y n); cbn [is_some]; cbn;
    repeat (destruct (inl _ t)); reflexivity.
Qed.
Lemma lbound_in x s y : lbound x s = true -> In y s -> x < y.
Proof.
  induction s as [|z t IH]; intros H Hin; [destruct Hin|]. cbn [lbound] in H. apply andb_prop in H as [H1 H2].
  destruct Hin as [->|Hin]; [lia | auto].
Qed.
Lemma vwf_cons_ne x w l y : y <> x -> vwf ((x, w) :: l) y = vwf l y.
Proof. intro H. unfold vwf. cbn [vlookup]. destruct (Z.eqb_spec y x); [contradiction | reflexivity]. Qed.
Lemma inl_in l s y : inl l s = true -> In y s -> exists w, vlookup y l = Some w.
Proof.
  unfold inl. rewrite forallb_forall. intros H Hin. specialize (H y Hin). destruct (vlookup y l); [eauto | discriminate].
Qed.

Lemma inl_cons l y t : inl l (y :: t) = is_some (vlookup y l) && inl l t.
Proof. reflexivity. Qed.
Lemma adjs_cons nb x r : adjs nb (x :: r) = inl (nb x) r && adjs nb r.
Proof. reflexivity. Qed.
Theorem expand_spec nb : (forall x, lsorted (nb x)) ->
  forall k l, lsorted l -> forall s, find_val s (expand nb k l) = fspec nb k l s.
Proof.
  intros Hnb. induction k as [|k IHk].
  - (* no further level *)
    induction l as [|[x w] r IHl]; intros Sl s.
    + rewrite expand_nil, find_val_nil_l. unfold fspec. destruct s as [|z t]; [reflexivity|].
      cbn [inl forallb vlookup is_some]. rewrite andb_false_r. reflexivity.
    + destruct Sl as [B Sl]. cbn [fst] in B. rewrite expand_cons. destruct s as [|z t]; [reflexivity|].
      destruct (Z.compare_spec z x) as [E|E|E].
      * subst z. destruct t as [|y t'].
        -- rewrite find_val_cons_eq_one. unfold fspec. cbn. rewrite Z.eqb_refl. cbn. unfold vwf. cbn. rewrite Z.eqb_refl. reflexivity.
        -- rewrite find_val_cons_eq_deep, find_val_nil_l. unfold fspec. cbn [length Nat.leb]. rewrite andb_false_r. reflexivity.
      * rewrite find_val_cons_lt by exact E. unfold fspec. cbn [inl forallb vlookup].
        destruct (Z.eqb_spec z x); [lia|]. rewrite (vlookup_lbnd x z r B) by lia. cbn [is_some].
        rewrite !andb_false_r. reflexivity.
      * rewrite find_val_cons_gt by exact E. rewrite IHl by exact Sl. unfold fspec.
        destruct (ssortedb (z :: t)) eqn:Es; [|reflexivity]. cbn [andb].
        assert (lbound x (z :: t) = true) as Hb.
        { cbn [ssortedb] in Es. apply andb_prop in Es as [Es1 _]. cbn [lbound].
          assert (x <? z = true) as -> by lia. cbn [andb].
          clear - Es1 E. induction t as [|u t IH]; [reflexivity|]. cbn [lbound] in *. apply andb_prop in Es1 as [H1 H2].
          rewrite IH by exact H2. rewrite andb_true_r. lia. }
        rewrite (inl_cons_lt r x w (z :: t) Hb).
        destruct (_ && _ && _ && _); [|reflexivity]. f_equal. apply mval_ext. intros y Hy.
        symmetry. apply vwf_cons_ne. pose proof (lbound_in x _ y Hb Hy). lia.
  - induction l as [|[x w] r IHl]; intros Sl s.
    + rewrite expand_nil, find_val_nil_l. unfold fspec. destruct s as [|z t]; [reflexivity|].
      cbn [inl forallb vlookup is_some]. rewrite andb_false_r. reflexivity.
    + destruct Sl as [B Sl]. cbn [fst] in B. rewrite expand_cons. destruct s as [|z t]; [reflexivity|].
      destruct (Z.compare_spec z x) as [E|E|E].
      * subst z. destruct t as [|y t'].
        -- rewrite find_val_cons_eq_one. unfold fspec. cbn. rewrite Z.eqb_refl. cbn. unfold vwf. cbn. rewrite Z.eqb_refl. reflexivity.
        -- rewrite find_val_cons_eq_deep.
           assert (lsorted (inter false r (nb x) w)) as Si by (apply inter_sorted; auto).
           rewrite (IHk _ Si). unfold fspec.
           set (s' := y :: t').
           change (ssortedb (x :: s')) with (lbound x s' && ssortedb s').
           change (is_nil (x :: s')) with false. change (is_nil s') with false.
           rewrite (inl_cons ((x, w) :: r) x s'), (adjs_cons nb x s').
           change (length (x :: s')) with (S (length s')).
           change ((S (length s') <=? S (S k))%nat) with ((length s' <=? S k)%nat).
           replace (vlookup x ((x, w) :: r)) with (Some w) by (cbn [vlookup]; rewrite Z.eqb_refl; reflexivity).
           cbn [is_some negb andb]. rewrite !andb_true_r.
           rewrite inl_inter by auto.
           destruct (inl r s') eqn:Er.
           ++ pose proof (inl_lbound r x s' B Er) as Hb. rewrite Hb, (inl_cons_lt r x w s' Hb), Er.
              destruct (ssortedb s'), (inl (nb x) s') eqn:En, (adjs nb s'), (length s' <=? S k)%nat; cbn [andb]; try reflexivity.
              f_equal.
              transitivity (mval (fun y0 => Z.max (Z.max (vwf ((x, w) :: r) y0) (nbw nb x y0)) w) (nbw nb) s').
              { apply mval_ext. intros u Hu. unfold vwf at 1. rewrite inter_lookup by auto.
                destruct (inl_in r s' u Er Hu) as [a Ha]. destruct (inl_in (nb x) s' u En Hu) as [b Hb'].
                rewrite Ha, Hb'. rewrite vwf_cons_ne by (pose proof (lbound_in x s' u Hb Hu); lia).
                unfold nbw, vwf. rewrite Ha, Hb'. reflexivity. }
              rewrite mval_shift by discriminate. unfold s'. rewrite mval_cons2.
              replace (vwf ((x, w) :: r) x) with w by (unfold vwf; cbn [vlookup]; rewrite Z.eqb_refl; reflexivity).
              reflexivity.
           ++ destruct (lbound x s') eqn:Hb.
              ** rewrite (inl_cons_lt r x w s' Hb), Er. cbn [andb]. rewrite !andb_false_r. reflexivity.
              ** cbn [andb]. rewrite !andb_false_r. reflexivity.
      * rewrite find_val_cons_lt by exact E. unfold fspec. cbn [inl forallb vlookup].
        destruct (Z.eqb_spec z x); [lia|]. rewrite (vlookup_lbnd x z r B) by lia. cbn [is_some].
        rewrite !andb_false_r. reflexivity.
      * rewrite find_val_cons_gt by exact E. rewrite IHl by exact Sl. unfold fspec.
        destruct (ssortedb (z :: t)) eqn:Es; [|reflexivity]. cbn [andb].
        assert (lbound x (z :: t) = true) as Hb.
        { cbn [ssortedb] in Es. apply andb_prop in Es as [Es1 _]. cbn [lbound].
          assert (x <? z = true) as -> by lia. cbn [andb].
          clear - Es1 E. induction t as [|u t IH]; [reflexivity|]. cbn [lbound] in *. apply andb_prop in Es1 as [H1 H2].
          rewrite IH by exact H2. rewrite andb_true_r. lia. }
        rewrite (inl_cons_lt r x w (z :: t) Hb).
        destruct (_ && _ && _ && _); [|reflexivity]. f_equal. apply mval_ext. intros y Hy.
        symmetry. apply vwf_cons_ne. pose proof (lbound_in x _ y Hb Hy). lia.
Qed.
