(* C07 - the diagonal of the rank table is the Betti number: r_k(i, i) = betti_k(K_i), by linear algebra over Z_2
   (rank of an injective image, direct sums, rank-nullity for a block of coordinates). *)
From Coq Require Import ZArith List Bool Arith Lia.
Require Import C07_Model C07_Gauss C07_Proofs.
Import ListNotations.
Open Scope Z_scope.
Local Open Scope nat_scope.

(* ------------------------------------------------------------------ A. pointwise semantics *)
Lemma get_unit : forall i j, get (unit_vec i) j = (i =? j).
Proof.
  induction i as [|i IH]; intros [|j]; try reflexivity.
  - cbn. destruct j; reflexivity.
  - change (get (unit_vec (S i)) (S j)) with (get (unit_vec i) j). rewrite IH. reflexivity.
Qed.

Lemma get_of_idx_cons : forall a l j, get (of_idx (a :: l)) j = xorb (a =? j) (get (of_idx l) j).
Proof.
  intros. change (of_idx (a :: l)) with (vxor (unit_vec a) (of_idx l)). rewrite get_vxor, get_unit. reflexivity.
Qed.

Lemma get_of_idx_app : forall l1 l2 j, get (of_idx (l1 ++ l2)) j = xorb (get (of_idx l1) j) (get (of_idx l2) j).
Proof.
  induction l1 as [|a l1 IH]; intros l2 j; cbn [app].
  - change (of_idx []) with (@nil bool). rewrite get_nil, xorb_false_l. reflexivity.
  - rewrite !get_of_idx_cons, IH, xorb_assoc. reflexivity.
Qed.

Lemma get_of_idx_notin : forall l j, (forall a, In a l -> a <> j) -> get (of_idx l) j = false.
Proof.
  induction l as [|a l IH]; intros j H.
  - apply get_nil.
  - rewrite get_of_idx_cons, IH.
    + assert (E : (a =? j) = false) by (apply Nat.eqb_neq; apply H; left; reflexivity). rewrite E. reflexivity.
    + intros b Hb. apply H. right. assumption.
Qed.

Lemma get_of_idx_shift : forall m l j, get (of_idx (shift m l)) (m + j) = get (of_idx l) j.
Proof.
  induction l as [|a l IH]; intros j.
  - change (of_idx (shift m [])) with (@nil bool). change (of_idx []) with (@nil bool). rewrite !get_nil. reflexivity.
  - change (shift m (a :: l)) with ((m + a) :: shift m l). rewrite !get_of_idx_cons, IH. f_equal.
    destruct (Nat.eqb_spec a j); destruct (Nat.eqb_spec (m + a) (m + j)); try reflexivity; lia.
Qed.

Lemma in_shift : forall m l a, In a (shift m l) -> exists u, a = m + u /\ In u l.
Proof.
  intros m l a H. unfold shift in H. apply in_map_iff in H. destruct H as [u [E Hu]]. exists u. split; [lia|assumption].
Qed.

Lemma get_of_idx_shift_low : forall m l j, j < m -> get (of_idx (shift m l)) j = false.
Proof.
  intros m l j Hj. apply get_of_idx_notin. intros a Ha. apply in_shift in Ha. destruct Ha as [u [E _]]. lia.
Qed.

Lemma is_zero_vec_get : forall v, is_zero_vec v = true -> forall j, get v j = false.
Proof.
  induction v as [|a v IH]; intros H j.
  - apply get_nil.
  - cbn in H. apply andb_prop in H. destruct H as [H1 H2]. destruct j as [|j].
    + cbn. destruct a; [discriminate|reflexivity].
    + apply (IH H2 j).
Qed.

Lemma get_firstn : forall m v j, get (firstn m v) j = if j <? m then get v j else false.
Proof.
  induction m as [|m IH]; intros v j.
  - cbn [firstn]. rewrite get_nil. reflexivity.
  - destruct v as [|b v].
    + cbn [firstn]. rewrite get_nil. destruct (j <? S m); reflexivity.
    + cbn [firstn]. destruct j as [|j]; [reflexivity|].
      change (get (b :: firstn m v) (S j)) with (get (firstn m v) j). rewrite IH. reflexivity.
Qed.

Lemma get_skipn : forall m v j, get (skipn m v) j = get v (m + j).
Proof.
  induction m as [|m IH]; intros v j.
  - reflexivity.
  - destruct v as [|b v].
    + cbn [skipn]. rewrite !get_nil. reflexivity.
    + cbn [skipn]. change (get (b :: v) (S m + j)) with (get v (m + j)). apply IH.
Qed.

Lemma get_xpart : forall n v j, get (xpart n v) j = if j <? n then get v j else false.
Proof. intros. apply get_firstn. Qed.

Lemma get_ypart : forall n v j, get (ypart n v) j = if j <? n then get v (n + j) else false.
Proof. intros. unfold ypart. rewrite get_firstn, get_skipn. reflexivity. Qed.

Lemma nth_map_seq : forall (f : nat -> bool) n a j, nth j (map f (seq a n)) false = if j <? n then f (a + j) else false.
Proof.
  induction n as [|n IH]; intros a j.
  - destruct j; reflexivity.
  - cbn [seq map]. destruct j as [|j].
    + cbn. rewrite Nat.add_0_r. reflexivity.
    + cbn [nth]. rewrite IH. rewrite Nat.add_succ_r. reflexivity.
Qed.

(* ------------------------------------------------------------------ linear maps given by a choice of coordinates *)
Definition linear (F : vec -> vec) : Prop :=
  (forall a b, veq (F (vxor a b)) (vxor (F a) (F b))) /\ (forall a b, veq a b -> veq (F a) (F b)) /\ veq (F []) [].
Definition coordmap (F : vec -> vec) (phi : nat -> option nat) : Prop :=
  forall v j, get (F v) j = match phi j with Some c => get v c | None => false end.

Lemma coordmap_linear : forall F phi, coordmap F phi -> linear F.
Proof.
  intros F phi H. split; [|split].
  - intros a b j. rewrite get_vxor, !H. destruct (phi j); [apply get_vxor|reflexivity].
  - intros a b E j. rewrite !H. destruct (phi j); [apply E|reflexivity].
  - intros j. rewrite H, get_nil. destruct (phi j); [apply get_nil|reflexivity].
Qed.

Lemma linear_firstn : forall m, linear (firstn m).
Proof.
  intros m. apply (coordmap_linear _ (fun j => if j <? m then Some j else None)).
  intros v j. rewrite get_firstn. destruct (j <? m); reflexivity.
Qed.
Lemma linear_xpart : forall n, linear (xpart n).
Proof. intros n. apply linear_firstn. Qed.
Lemma linear_ypart : forall n, linear (ypart n).
Proof.
  intros n. apply (coordmap_linear _ (fun j => if j <? n then Some (n + j) else None)).
  intros v j. rewrite get_ypart. destruct (j <? n); reflexivity.
Qed.
Lemma linear_skipn : forall m, linear (skipn m).
Proof.
  intros m. apply (coordmap_linear _ (fun j => Some (m + j))). intros v j. apply get_skipn.
Qed.
Lemma linear_cons_false : linear (cons false).
Proof.
  apply (coordmap_linear _ (fun j => match j with O => None | S j' => Some j' end)).
  intros v [|j]; reflexivity.
Qed.

Lemma linear_lincomb : forall F, linear F -> forall M cs, veq (F (lincomb cs M)) (lincomb cs (map F M)).
Proof.
  intros F [Hx [He H0]]. induction M as [|m M IH]; intros cs.
  - rewrite lincomb_nil_r. cbn [map]. rewrite lincomb_nil_r. exact H0.
  - destruct cs as [|c cs].
    + exact H0.
    + cbn [map]. rewrite !lincomb_cons. destruct c.
      * eapply veq_trans; [apply Hx|]. intros j. rewrite !get_vxor. rewrite (IH cs j). reflexivity.
      * apply IH.
Qed.

Lemma span_map : forall F, linear F -> forall M v, span M v -> span (map F M) (F v).
Proof.
  intros F HF M v [cs Hc]. exists cs. eapply veq_trans; [|apply linear_lincomb; assumption].
  destruct HF as [_ [He _]]. apply He. exact Hc.
Qed.

Lemma span_map_inv : forall F, linear F -> forall M u, span (map F M) u -> exists w, span M w /\ veq (F w) u.
Proof.
  intros F HF M u [cs Hc]. exists (lincomb cs M). split.
  - exists cs. apply veq_refl.
  - eapply veq_trans; [apply linear_lincomb; assumption|]. apply veq_sym. exact Hc.
Qed.

(* ------------------------------------------------------------------ membership in a span is decidable; rank, one vector at a time *)
Lemma span_dec : forall L v, span L v \/ ~ span L v.
Proof.
  intros L v. destruct (first_one (reduce (echelon L) v)) as [p|] eqn:E.
  - right. intros Hs.
    assert (H1 : rank (L ++ [v]) = (rank L + 1)%Z).
    { unfold rank, echelon. rewrite fold_left_app.
      change (fold_left insert_vec [v] (fold_left insert_vec L [])) with (insert_vec (echelon L) v).
      fold (echelon L). unfold insert_vec. rewrite E. rewrite app_length. cbn [length]. lia. }
    assert (H2 : rank (L ++ [v]) = rank L).
    { apply rank_span_invariant. intros w. rewrite span_snoc. split.
      - intros [H|H]; [assumption|]. eapply span_veq; [|apply (span_xor _ _ _ H Hs)]. vsolve.
      - intros H. left. assumption. }
    lia.
  - left. apply echelon_span. eapply span_veq; [|apply (reduce_span (echelon L) v)].
    intros j. rewrite get_vxor, (first_one_none _ E j). apply xorb_false_l.
Qed.

Lemma rank_snoc_in : forall L v, span L v -> rank (L ++ [v]) = rank L.
Proof.
  intros L v Hs. apply rank_span_invariant. intros w. rewrite span_snoc. split.
  - intros [H|H]; [assumption|]. eapply span_veq; [|apply (span_xor _ _ _ H Hs)]. vsolve.
  - intros H. left. assumption.
Qed.

Lemma rank_cons_new : forall L v, ~ span L v -> rank (v :: L) = (rank L + 1)%Z.
Proof.
  intros L v H. rewrite <- (rank_snoc L v H). apply rank_span_invariant.
  intros w; split; apply span_incl; intros x Hx.
  - apply in_or_app. destruct Hx as [Hx|Hx]; [right; left; assumption|left; assumption].
  - apply in_app_or in Hx. destruct Hx as [Hx|[Hx|[]]]; [right; assumption|left; assumption].
Qed.

Lemma rank_app_absorb : forall A B, (forall w, In w B -> span A w) -> rank (A ++ B) = rank A.
Proof.
  intros A B H. apply rank_span_invariant. intros v. split.
  - apply span_sub. intros w Hw. apply in_app_or in Hw. destruct Hw as [Hw|Hw]; [apply span_in; assumption|apply H; assumption].
  - apply span_incl. intros x Hx. apply in_or_app. left. assumption.
Qed.

Lemma rank_ext_map : forall (X : Type) (f g : X -> vec) L, (forall x, In x L -> veq (f x) (g x)) -> rank (map f L) = rank (map g L).
Proof.
  intros X f g L H. apply rank_span_invariant. intros v. split; apply span_sub; intros w Hw;
    apply in_map_iff in Hw; destruct Hw as [x [E Hx]]; subst w.
  - apply (span_veq _ (g x)); [apply veq_sym; apply H; assumption|]. apply span_in. apply in_map. assumption.
  - apply (span_veq _ (f x)); [apply H; assumption|]. apply span_in. apply in_map. assumption.
Qed.

Lemma rank_zero_list : forall Z, (forall w, In w Z -> veq w []) -> rank Z = 0%Z.
Proof.
  intros Z H. change 0%Z with (rank []). apply rank_span_invariant. intros v. split.
  - apply span_sub. intros w Hw. apply span_zero. apply H. assumption.
  - intros Hv. apply span_zero. apply span_nil_inv. assumption.
Qed.

(* ------------------------------------------------------------------ B. the rank of an injective linear image *)
Theorem rank_map_injective : forall F, linear F -> forall M,
  (forall v, span M v -> veq (F v) [] -> veq v []) -> rank (map F M) = rank M.
Proof.
  intros F HF. induction M as [|v M IH] using rev_ind; intros Hinj.
  - reflexivity.
  - rewrite map_app. cbn [map].
    assert (IH' : rank (map F M) = rank M).
    { apply IH. intros w Hw. apply Hinj. eapply span_incl; [|exact Hw]. intros x Hx. apply in_or_app; left; assumption. }
    destruct (span_dec M v) as [Hs|Hs].
    + rewrite (rank_snoc_in M v Hs). rewrite rank_snoc_in; [assumption|]. apply span_map; assumption.
    + rewrite (rank_snoc M v Hs). rewrite rank_snoc; [lia|]. intros Hc. apply Hs.
      destruct (span_map_inv F HF M _ Hc) as [w [Hw Hwv]].
      assert (Hz : veq (vxor w v) []).
      { apply Hinj.
        - apply span_xor.
          + eapply span_incl; [|exact Hw]. intros x Hx. apply in_or_app; left; assumption.
          + apply span_in. apply in_or_app. right. left. reflexivity.
        - destruct HF as [Hx _]. eapply veq_trans; [apply Hx|]. intros j. rewrite get_vxor, (Hwv j), get_nil.
          destruct (get (F v) j); reflexivity. }
      eapply span_veq; [|exact Hw]. intros j. specialize (Hz j). rewrite get_vxor, get_nil in Hz.
      destruct (get w j), (get v j); simpl in *; congruence.
Qed.

(* ------------------------------------------------------------------ C. direct sums *)
Theorem rank_direct_sum : forall A B, (forall v, span A v -> span B v -> veq v []) -> rank (A ++ B) = (rank A + rank B)%Z.
Proof.
  intros A. induction B as [|b B IH] using rev_ind; intros H.
  - rewrite app_nil_r. change (rank []) with 0%Z. lia.
  - assert (IH' : rank (A ++ B) = (rank A + rank B)%Z).
    { apply IH. intros v Ha Hb. apply H; [assumption|]. eapply span_incl; [|exact Hb]. intros x Hx. apply in_or_app; left; assumption. }
    rewrite app_assoc.
    destruct (span_dec B b) as [Hs|Hs].
    + rewrite (rank_snoc_in B b Hs). rewrite rank_snoc_in; [assumption|].
      eapply span_incl; [|exact Hs]. intros x Hx. apply in_or_app; right; assumption.
    + rewrite (rank_snoc B b Hs). rewrite rank_snoc; [lia|]. intros Hc. apply Hs.
      destruct (span_app_inv _ _ _ Hc) as [a [Ha Hb]].
      assert (Hz : veq a []).
      { apply H; [assumption|]. apply (span_veq _ (vxor (vxor b a) b)); [vsolve|]. apply span_xor.
        - eapply span_incl; [|exact Hb]. intros x Hx. apply in_or_app; left; assumption.
        - apply span_in. apply in_or_app. right. left. reflexivity. }
      eapply span_veq; [|exact Hb]. vsolve.
Qed.

(* ------------------------------------------------------------------ D. rank-nullity for one coordinate *)
Definition hit (c : nat) (M : list vec) : bool := existsb (fun v => get v c) M.

Lemma rank_restrict_hit : forall c M p, In p M -> get p c = true -> rank M = (rank (restrict c M) + 1)%Z.
Proof.
  intros c M p Hp Hc. rewrite <- (rank_snoc (restrict c M) p).
  - apply rank_span_invariant. intros v. rewrite span_snoc, !restrict_span. split.
    + intros Hv. destruct (get v c) eqn:E.
      * right. split; [apply span_xor; [assumption|apply span_in; assumption]|]. rewrite get_vxor, E, Hc. reflexivity.
      * left. split; [assumption|reflexivity].
    + intros [[H _]|[H _]]; [assumption|].
      eapply span_veq; [|apply (span_xor _ _ _ H (span_in _ _ Hp))]. vsolve.
  - intros H. apply restrict_span in H. destruct H as [_ H]. congruence.
Qed.

Lemma rank_restrict_miss : forall c M, (forall p, In p M -> get p c = false) -> rank M = rank (restrict c M).
Proof.
  intros c M H. apply rank_span_invariant. intros v. rewrite restrict_span. split.
  - intros Hv. split; [assumption|]. eapply span_vanish; eassumption.
  - tauto.
Qed.

Theorem rank_restrict : forall c M, rank M = (rank (restrict c M) + (if hit c M then 1 else 0))%Z.
Proof.
  intros c M. destruct (hit c M) eqn:E.
  - unfold hit in E. apply existsb_exists in E. destruct E as [p [Hp Hc]]. eapply rank_restrict_hit; eassumption.
  - rewrite Z.add_0_r. apply rank_restrict_miss. intros p Hp. destruct (get p c) eqn:G; [|reflexivity].
    assert (E' : hit c M = true) by (apply existsb_exists; exists p; split; assumption). congruence.
Qed.

(* ------------------------------------------------------------------ E. rank-nullity for a list of coordinates *)
Definition proj (cs : list nat) (v : vec) : vec := map (get v) cs.

Lemma get_proj : forall cs v j, get (proj cs v) j = match nth_error cs j with Some c => get v c | None => false end.
Proof.
  induction cs as [|c cs IH]; intros v [|j]; try reflexivity. apply (IH v j).
Qed.

Lemma linear_proj : forall cs, linear (proj cs).
Proof. intros cs. apply (coordmap_linear _ (nth_error cs)). intros v j. apply get_proj. Qed.

Lemma hit_map_proj : forall c cs M, hit 0 (map (proj (c :: cs)) M) = hit c M.
Proof.
  intros c cs. induction M as [|a M IH]; [reflexivity|]. unfold hit in *. cbn [map existsb]. rewrite IH. reflexivity.
Qed.

Theorem rank_nullity_coords : forall cs M,
  rank M = (rank (fold_left (fun M c => restrict c M) cs M) + rank (map (proj cs) M))%Z.
Proof.
  induction cs as [|c cs IH]; intros M.
  - cbn [fold_left]. rewrite (rank_zero_list (map (proj []) M)); [lia|].
    intros w Hw. apply in_map_iff in Hw. destruct Hw as [x [E _]]. subst w. apply veq_refl.
  - cbn [fold_left].
    pose proof (IH (restrict c M)) as H1.
    pose proof (rank_restrict c M) as H2.
    pose proof (rank_restrict 0 (map (proj (c :: cs)) M)) as H3. rewrite hit_map_proj in H3.
    assert (H4 : rank (restrict 0 (map (proj (c :: cs)) M)) = rank (map (proj cs) (restrict c M))).
    { pose proof (linear_proj (c :: cs)) as LP.
      assert (LQ : linear (fun v => false :: proj cs v)).
      { apply (coordmap_linear _ (fun j => match j with O => None | S j' => nth_error cs j' end)).
        intros v [|j]; [reflexivity|]. apply (get_proj cs v j). }
      transitivity (rank (map (fun v => false :: proj cs v) (restrict c M))).
      - apply rank_span_invariant. intros v. rewrite restrict_span. split.
        + intros [Hv Hv0]. destruct (span_map_inv _ LP _ _ Hv) as [w [Hw Hwv]].
          assert (Hwc : get w c = false) by (rewrite <- Hv0, <- (Hwv 0); reflexivity).
          apply (span_veq _ (false :: proj cs w)).
          * intros [|j]; [rewrite Hv0; reflexivity|]. rewrite <- (Hwv (S j)). reflexivity.
          * apply (span_map _ LQ). apply restrict_span. split; assumption.
        + intros Hv. destruct (span_map_inv _ LQ _ _ Hv) as [w [Hw Hwv]].
          apply restrict_span in Hw. destruct Hw as [Hw Hwc]. split.
          * apply (span_veq _ (proj (c :: cs) w)); [|apply span_map; assumption].
            intros [|j]; [rewrite <- (Hwv 0); exact Hwc|]. rewrite <- (Hwv (S j)). reflexivity.
          * rewrite <- (Hwv 0). reflexivity.
      - rewrite <- (map_map (proj cs) (cons false)). apply rank_map_injective; [apply linear_cons_false|].
        intros v _ Hz j. specialize (Hz (S j)). rewrite get_nil in *. exact Hz. }
    lia.
Qed.

Lemma get_proj_shift_seq : forall m n v j, get (proj (shift m (seq 0 n)) v) j = if j <? n then get v (m + j) else false.
Proof.
  intros m n v j. unfold proj, shift. rewrite map_map. unfold get at 1.
  rewrite (nth_map_seq (fun x => get v (m + x)) n 0 j). reflexivity.
Qed.

Lemma span_coord_eq : forall a b M, (forall w, In w M -> get w a = get w b) -> forall v, span M v -> get v a = get v b.
Proof.
  intros a b M H v [cs Hc]. rewrite !(Hc _). clear v Hc. revert cs.
  induction M as [|m M IH]; intros cs.
  - rewrite lincomb_nil_r, !get_nil. reflexivity.
  - destruct cs as [|c cs]; [rewrite lincomb_nil_l, !get_nil; reflexivity|]. rewrite lincomb_cons.
    assert (IH' := IH (fun w Hw => H w (or_intror Hw)) cs).
    destruct c; [|exact IH']. rewrite !get_vxor, IH', (H m (or_introl eq_refl)). reflexivity.
Qed.

Lemma span_of_idx_flat_map : forall (G : list vec) (h : nat -> list nat) l,
  (forall c, In c l -> span G (of_idx (h c))) -> span G (of_idx (flat_map h l)).
Proof.
  intros G h. induction l as [|a l IH]; intros H; cbn [flat_map].
  - apply span_zero. apply veq_refl.
  - eapply span_veq; [|apply span_xor; [apply (H a); left; reflexivity|apply IH; intros c Hc; apply H; right; assumption]].
    intros j. rewrite get_vxor, get_of_idx_app. reflexivity.
Qed.

(* a family with private coordinates is independent *)
Lemma rank_private : forall (g : nat -> vec) L, NoDup L ->
  (forall c, In c L -> get (g c) c = true) ->
  (forall c c', In c L -> In c' L -> c <> c' -> get (g c') c = false) ->
  rank (map g L) = Z.of_nat (length L).
Proof.
  intros g. induction L as [|a L IH]; intros Hnd H1 H2.
  - reflexivity.
  - inversion Hnd as [|x l Hna HndL]; subst. cbn [map length]. rewrite rank_cons_new.
    + rewrite IH; [lia|assumption| |].
      * intros c Hc. apply H1. right. assumption.
      * intros c c' Hc Hc'. apply H2; right; assumption.
    + intros Hs. assert (E : get (g a) a = false).
      { apply (span_vanish a (map g L)); [|assumption]. intros u Hu. apply in_map_iff in Hu. destruct Hu as [c' [E Hc']]. subst u.
        apply H2; [left; reflexivity|right; assumption|]. intros E. subst c'. contradiction. }
      rewrite H1 in E; [discriminate|left; reflexivity].
Qed.

Lemma rfun_diag : forall s k i, i < length s ->
  rfun (length s) (rtab s k) (Z.of_nat i) (Z.of_nat i) = rel_rank (length s) (init_rel s k i).
Proof.
  intros s k i Hi. unfold rfun.
  replace (0 <=? Z.of_nat i)%Z with true by (symmetry; apply Z.leb_le; lia).
  rewrite Z.leb_refl.
  replace (Z.of_nat i <? Z.of_nat (length s))%Z with true by (symmetry; apply Z.ltb_lt; lia).
  cbn [andb]. rewrite Z.sub_diag, Nat2Z.id. change (Z.to_nat 0) with 0.
  unfold rtab. rewrite (nth_indep _ [] (rrow s k 0)) by (rewrite map_length, seq_length; lia).
  rewrite (map_nth (rrow s k)). rewrite seq_nth by lia. reflexivity.
Qed.

(* ------------------------------------------------------------------ the start of the sweep *)
Section Start.
Variables (s : list nop) (k : Z) (i : nat).
Let n := length s.
Let K := present s i.
Let Ck := cells_of_dim s k K.
Let Ck1 := cells_of_dim s (k + 1) K.
Let d (c : nat) : vec := of_idx (bd_of s c).
Let h (c : nat) : list nat := c :: (n + c) :: shift (2 * n) (bd_of s c).
Let g (c : nat) : vec := of_idx (h c).
Let gens := map g Ck.
Let bnds := map d Ck1.
Let cyc := fold_left (fun M c => restrict c M) (shift (2 * n) (seq 0 n)) gens.

Hypothesis Hlt : forall c, In c K -> c < n.
Hypothesis Hnd : NoDup K.
Hypothesis Hcl : forall t c, In t K -> In c (bd_of s t) -> In c K /\ dim_of s c = (dim_of s t - 1)%Z.
Hypothesis Hdd : forall t, In t K -> is_zero_vec (of_idx (flat_map (bd_of s) (bd_of s t))) = true.

Lemma Ck_in : forall c, In c Ck <-> In c K /\ dim_of s c = k.
Proof. intros c. unfold Ck, cells_of_dim. rewrite filter_In, Z.eqb_eq. tauto. Qed.
Lemma Ck1_in : forall c, In c Ck1 <-> In c K /\ dim_of s c = (k + 1)%Z.
Proof. intros c. unfold Ck1, cells_of_dim. rewrite filter_In, Z.eqb_eq. tauto. Qed.
Lemma K_bd_lt : forall t r, In t K -> In r (bd_of s t) -> r < n.
Proof. intros t r Ht Hr. apply Hlt. apply (Hcl t r Ht Hr). Qed.
Lemma Ck1_bd : forall t c, In t Ck1 -> In c (bd_of s t) -> In c Ck.
Proof.
  intros t c Ht Hc. apply Ck1_in in Ht. destruct Ht as [Ht Hd]. destruct (Hcl t c Ht Hc) as [H1 H2].
  apply Ck_in. split; [assumption|]. lia.
Qed.

(* the generators, coordinate by coordinate *)
Lemma g_low : forall c j, j < n -> get (g c) j = (c =? j).
Proof.
  intros c j Hj. unfold g, h. rewrite !get_of_idx_cons, get_of_idx_shift_low by lia.
  replace (n + c =? j) with false by (symmetry; apply Nat.eqb_neq; lia).
  destruct (c =? j); reflexivity.
Qed.
Lemma g_mid : forall c j, c < n -> j < n -> get (g c) (n + j) = (c =? j).
Proof.
  intros c j Hc Hj. unfold g, h. rewrite !get_of_idx_cons, get_of_idx_shift_low by lia.
  replace (c =? n + j) with false by (symmetry; apply Nat.eqb_neq; lia).
  replace (n + c =? n + j) with (c =? j).
  - destruct (c =? j); reflexivity.
  - destruct (Nat.eqb_spec c j); destruct (Nat.eqb_spec (n + c) (n + j)); try reflexivity; lia.
Qed.
Lemma g_high : forall c u, c < n -> get (g c) (2 * n + u) = get (d c) u.
Proof.
  intros c u Hc. unfold g, h. rewrite !get_of_idx_cons, get_of_idx_shift.
  replace (c =? 2 * n + u) with false by (symmetry; apply Nat.eqb_neq; lia).
  replace (n + c =? 2 * n + u) with false by (symmetry; apply Nat.eqb_neq; lia).
  rewrite !xorb_false_l. reflexivity.
Qed.
Lemma d_vanish : forall c j, (forall r, In r (bd_of s c) -> r < n) -> n <= j -> get (d c) j = false.
Proof. intros c j H Hj. apply get_of_idx_notin. intros a Ha. specialize (H a Ha). lia. Qed.
Lemma g_vanish : forall c j, c < n -> (forall r, In r (bd_of s c) -> r < n) -> 3 * n <= j -> get (g c) j = false.
Proof.
  intros c j Hc H Hj. apply get_of_idx_notin. intros a [E|[E|Ha]]; [lia|lia|].
  apply in_shift in Ha. destruct Ha as [u [E Hu]]. specialize (H u Hu). lia.
Qed.

Lemma gens_in : forall w, In w gens -> exists c, w = g c /\ In c K /\ c < n /\ (forall r, In r (bd_of s c) -> r < n).
Proof.
  intros w Hw. apply in_map_iff in Hw. destruct Hw as [c [E Hc]]. exists c. apply Ck_in in Hc. destruct Hc as [Hc _].
  split; [symmetry; assumption|]. split; [assumption|]. split; [apply Hlt; assumption|]. intros r Hr. apply (K_bd_lt c r Hc Hr).
Qed.

Lemma sg_sym : forall v j, span gens v -> j < n -> get v j = get v (n + j).
Proof.
  intros v j Hv Hj. apply (span_coord_eq j (n + j) gens); [|assumption].
  intros w Hw. destruct (gens_in w Hw) as [c [E [_ [Hc _]]]]. subst w. rewrite g_low, g_mid by assumption. reflexivity.
Qed.
Lemma sg_vanish : forall v j, span gens v -> 3 * n <= j -> get v j = false.
Proof.
  intros v j Hv Hj. apply (span_vanish j gens); [|assumption].
  intros w Hw. destruct (gens_in w Hw) as [c [E [_ [Hc Hb]]]]. subst w. apply g_vanish; assumption.
Qed.

Lemma cyc_spec : forall v, span cyc v <-> span gens v /\ forall u, u < n -> get v (2 * n + u) = false.
Proof.
  intros v. unfold cyc. rewrite fold_restrict_span. split; intros [H1 H2]; (split; [assumption|]).
  - intros u Hu. apply H2. unfold shift. apply in_map_iff. exists u. split; [reflexivity|]. apply in_seq. lia.
  - intros c Hin. apply in_shift in Hin. destruct Hin as [u [E Hu]]. subst c. apply H2. apply in_seq in Hu. lia.
Qed.

Lemma cyc_sym : forall v j, span cyc v -> j < n -> get v j = get v (n + j).
Proof. intros v j Hv. apply sg_sym. apply cyc_spec. assumption. Qed.
Lemma cyc_vanish : forall v j, span cyc v -> 2 * n <= j -> get v j = false.
Proof.
  intros v j Hv Hj. apply cyc_spec in Hv. destruct Hv as [H1 H2].
  destruct (Nat.lt_ge_cases j (3 * n)) as [H|H].
  - replace j with (2 * n + (j - 2 * n)) by lia. apply H2. lia.
  - apply sg_vanish; assumption.
Qed.

(* F. the generators are independent *)
Lemma rank_gens : rank gens = Z.of_nat (length Ck).
Proof.
  unfold gens. apply rank_private.
  - unfold Ck, cells_of_dim. apply NoDup_filter. assumption.
  - intros c Hc. apply Ck_in in Hc. destruct Hc as [Hc _]. rewrite g_low by (apply Hlt; assumption). apply Nat.eqb_refl.
  - intros c c' Hc Hc' Hne. apply Ck_in in Hc. destruct Hc as [Hc _]. rewrite g_low by (apply Hlt; assumption).
    apply Nat.eqb_neq. congruence.
Qed.

(* G2 + E. the dimension of the cycles *)
Lemma rank_cyc : rank cyc = (Z.of_nat (length Ck) - rank (map d Ck))%Z.
Proof.
  pose proof (rank_nullity_coords (shift (2 * n) (seq 0 n)) gens) as H. fold cyc in H. rewrite rank_gens in H.
  assert (E : rank (map (proj (shift (2 * n) (seq 0 n))) gens) = rank (map d Ck)).
  { unfold gens. rewrite map_map. apply rank_ext_map. intros c Hc j. apply Ck_in in Hc. destruct Hc as [Hc _].
    rewrite get_proj_shift_seq. destruct (Nat.ltb_spec j n) as [Hj|Hj].
    - apply g_high. apply Hlt. assumption.
    - symmetry. apply d_vanish; [|assumption]. intros r Hr. apply (K_bd_lt c r Hc Hr). }
  lia.
Qed.

(* H. a cycle pair is determined by any of its parts *)
Lemma rank_x_cyc : rank (map (xpart n) cyc) = rank cyc.
Proof.
  apply rank_map_injective; [apply linear_xpart|]. intros v Hv Hz j.
  assert (Hx : forall u, u < n -> get v u = false).
  { intros u Hu. specialize (Hz u). rewrite get_xpart, get_nil in Hz. apply Nat.ltb_lt in Hu. rewrite Hu in Hz. assumption. }
  rewrite get_nil. destruct (Nat.lt_ge_cases j n) as [H|H]; [apply Hx; assumption|].
  destruct (Nat.lt_ge_cases j (2 * n)) as [H'|H']; [|apply cyc_vanish; assumption].
  replace j with (n + (j - n)) by lia. rewrite <- cyc_sym by (assumption || lia). apply Hx. lia.
Qed.
Lemma rank_y_cyc : rank (map (ypart n) cyc) = rank cyc.
Proof.
  apply rank_map_injective; [apply linear_ypart|]. intros v Hv Hz j.
  assert (Hy : forall u, u < n -> get v (n + u) = false).
  { intros u Hu. specialize (Hz u). rewrite get_ypart, get_nil in Hz. apply Nat.ltb_lt in Hu. rewrite Hu in Hz. assumption. }
  rewrite get_nil. destruct (Nat.lt_ge_cases j n) as [H|H]; [rewrite cyc_sym by assumption; apply Hy; assumption|].
  destruct (Nat.lt_ge_cases j (2 * n)) as [H'|H']; [|apply cyc_vanish; assumption].
  replace j with (n + (j - n)) by lia. apply Hy. lia.
Qed.
Lemma rank_xy_cyc : rank (map (firstn (2 * n)) cyc) = rank cyc.
Proof.
  apply rank_map_injective; [apply linear_firstn|]. intros v Hv Hz j.
  rewrite get_nil. destruct (Nat.lt_ge_cases j (2 * n)) as [H|H]; [|apply cyc_vanish; assumption].
  specialize (Hz j). rewrite get_firstn, get_nil in Hz. apply Nat.ltb_lt in H. rewrite H in Hz. assumption.
Qed.

(* I. the boundaries live in the x-part *)
Lemma bnds_in : forall w, In w bnds -> exists t, w = d t /\ In t Ck1 /\ forall r, In r (bd_of s t) -> r < n.
Proof.
  intros w Hw. apply in_map_iff in Hw. destruct Hw as [t [E Ht]]. exists t. split; [symmetry; assumption|]. split; [assumption|].
  apply Ck1_in in Ht. destruct Ht as [Ht _]. intros r Hr. apply (K_bd_lt t r Ht Hr).
Qed.
Lemma bnds_vanish : forall v j, span bnds v -> n <= j -> get v j = false.
Proof.
  intros v j Hv Hj. apply (span_vanish j bnds); [|assumption].
  intros w Hw. destruct (bnds_in w Hw) as [t [E [_ Hb]]]. subst w. apply d_vanish; assumption.
Qed.

Lemma rank_y : rank (map (ypart n) (cyc ++ bnds)) = rank cyc.
Proof.
  rewrite map_app, rank_app_absorb; [apply rank_y_cyc|].
  intros w Hw. apply in_map_iff in Hw. destruct Hw as [b [E Hb]]. subst w. apply span_zero.
  intros j. rewrite get_ypart, get_nil. destruct (j <? n); [|reflexivity].
  apply bnds_vanish; [apply span_in; assumption|lia].
Qed.

(* J. boundaries are x-parts of cycle pairs *)
Lemma z_low : forall bd, (forall c, In c bd -> c < n) -> forall j, j < n ->
  get (of_idx (flat_map h bd)) j = get (of_idx bd) j.
Proof.
  induction bd as [|a bd IH]; intros Hb j Hj; [reflexivity|].
  cbn [flat_map]. rewrite get_of_idx_app, get_of_idx_cons, IH; [|intros c Hc; apply Hb; right; assumption|assumption].
  f_equal. apply (g_low a j Hj).
Qed.
Lemma z_high : forall bd, (forall c, In c bd -> c < n) -> forall u,
  get (of_idx (flat_map h bd)) (2 * n + u) = get (of_idx (flat_map (bd_of s) bd)) u.
Proof.
  induction bd as [|a bd IH]; intros Hb u.
  - cbn [flat_map]. change (of_idx []) with (@nil bool). rewrite !get_nil. reflexivity.
  - cbn [flat_map]. rewrite !get_of_idx_app, IH; [|intros c Hc; apply Hb; right; assumption].
    f_equal. apply (g_high a u). apply Hb. left. reflexivity.
Qed.

Lemma rank_x : rank (map (xpart n) (cyc ++ bnds)) = rank cyc.
Proof.
  rewrite map_app, rank_app_absorb; [apply rank_x_cyc|].
  intros w Hw. apply in_map_iff in Hw. destruct Hw as [b [E Hb]]. subst w.
  destruct (bnds_in b Hb) as [t [E [Ht Hbd]]]. subst b.
  set (z := of_idx (flat_map h (bd_of s t))).
  assert (Hz : span cyc z).
  { apply cyc_spec. split.
    - apply span_of_idx_flat_map. intros c Hc. apply span_in. unfold gens. apply (in_map g). apply (Ck1_bd t c Ht Hc).
    - intros u Hu. unfold z. rewrite z_high by assumption. apply is_zero_vec_get. apply Hdd.
      apply Ck1_in in Ht. apply Ht. }
  apply (span_veq _ (xpart n z)); [|apply span_map; [apply linear_xpart|assumption]].
  intros j. rewrite !get_xpart. destruct (Nat.ltb_spec j n) as [Hj|Hj]; [|reflexivity].
  unfold z. apply z_low; assumption.
Qed.

(* K. the pairs: cycle pairs and (boundary, 0) pairs form a direct sum *)
Lemma rank_xy : rank (map (firstn (2 * n)) (cyc ++ bnds)) = (rank cyc + rank bnds)%Z.
Proof.
  rewrite map_app, rank_direct_sum.
  - f_equal; [apply rank_xy_cyc|]. apply rank_map_injective; [apply linear_firstn|].
    intros v Hv Hz j. rewrite get_nil. destruct (Nat.lt_ge_cases j n) as [H|H]; [|apply bnds_vanish; assumption].
    specialize (Hz j). rewrite get_firstn, get_nil in Hz.
    assert (E : (j <? 2 * n) = true) by (apply Nat.ltb_lt; lia). rewrite E in Hz. assumption.
  - intros v H1 H2.
    destruct (span_map_inv _ (linear_firstn (2 * n)) _ _ H1) as [w1 [Hw1 E1]].
    destruct (span_map_inv _ (linear_firstn (2 * n)) _ _ H2) as [w2 [Hw2 E2]].
    assert (Hhi : forall j, n <= j -> get v j = false).
    { intros j Hj. rewrite <- (E2 j), get_firstn. destruct (j <? 2 * n); [|reflexivity]. apply bnds_vanish; assumption. }
    intros j. rewrite get_nil. destruct (Nat.lt_ge_cases j n) as [H|H]; [|apply Hhi; assumption].
    assert (A1 : (j <? 2 * n) = true) by (apply Nat.ltb_lt; lia).
    assert (A2 : (n + j <? 2 * n) = true) by (apply Nat.ltb_lt; lia).
    rewrite <- (E1 j), get_firstn, A1, (cyc_sym w1 j Hw1 H).
    transitivity (get (firstn (2 * n) w1) (n + j)); [rewrite get_firstn, A2; reflexivity|].
    rewrite (E1 (n + j)). apply Hhi. lia.
Qed.

(* L. *)
Theorem rel_rank_start : rel_rank n (init_rel s k i) = betti s k i.
Proof.
  change (init_rel s k i) with (cyc ++ bnds). unfold rel_rank. rewrite rank_x, rank_y, rank_xy, rank_cyc.
  change (betti s k i) with (Z.of_nat (length Ck) - rank (map d Ck) - rank bnds)%Z. lia.
Qed.
End Start.

Open Scope Z_scope.

Theorem rii_is_betti_gen : forall s k i, (i < length s)%nat ->
  (forall c, In c (present s i) -> (c < length s)%nat) ->
  NoDup (present s i) ->
  (forall t c, In t (present s i) -> In c (bd_of s t) -> In c (present s i) /\ dim_of s c = dim_of s t - 1) ->
  (forall t, In t (present s i) -> is_zero_vec (of_idx (flat_map (bd_of s) (bd_of s t))) = true) ->
  rfun (length s) (rtab s k) (Z.of_nat i) (Z.of_nat i) = betti s k i.
Proof.
  intros s k i Hi H1 H2 H3 H4. rewrite rfun_diag by assumption. apply rel_rank_start; assumption.
Qed.

Print Assumptions rank_map_injective.
Print Assumptions rank_direct_sum.
Print Assumptions rank_nullity_coords.
Print Assumptions rii_is_betti_gen.

(* ================================================================== with the invariants of valid sequences (C07_Valid.v) *)
Require C07_Valid.

Theorem rii_is_betti : forall s k i, valid s = true -> (i < length s)%nat ->
  rfun (length s) (rtab s k) (Z.of_nat i) (Z.of_nat i) = betti s k i.
Proof.
  intros s k i Hv Hi. apply rii_is_betti_gen.
  - exact Hi.
  - intros c Hc. apply (C07_Valid.present_le s i c Hc).
  - apply C07_Valid.present_nodup.
  - intros t c Ht Hc. apply (C07_Valid.valid_closed s i t c Hv Ht Hc).
  - intros t Ht. apply (C07_Valid.valid_dd_zero s i t Hv Ht).
Qed.

(* the number of bars alive at arrow i in dimension k is the Betti number of K_i *)
Theorem alive_count_is_betti : forall s k i, valid s = true -> (i < length s)%nat -> mult_nonneg s k = true ->
  alive_count (bars_of_dim s k) k i = betti s k i.
Proof.
  intros s k i Hv Hi Hm. rewrite alive_count_is_rii_checked by assumption. apply rii_is_betti; assumption.
Qed.
Print Assumptions alive_count_is_betti.
