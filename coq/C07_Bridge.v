(* C07 - bridge between the certified ordinary-persistence oracle (integer matrices modulo 2, Reduce.v / ReduceExec.v)
   and homogeneous reduced decompositions R = d V in the Z_2 vector world of C07_Model.v / C07_ELZdefs.v.
     hred_lows          any homogeneous reduced decomposition exposes the lows certified by the oracle
     hred_exists        a homogeneous reduced decomposition exists (valid insertion-only sequences)
     certified_gives_hred *)
From Coq Require Import ZArith List Bool Arith Lia Znumtheory.
Require Import C07_Model C07_ELZdefs C07_Gauss C07_Betti.
Require Reduce ReduceExec C07_Valid C07_InsOnly.
Import ListNotations.
Open Scope Z_scope.
Local Open Scope nat_scope.

(* ------------------------------------------------------------------ 1. parity of a predicate below a bound *)
Fixpoint par (f : nat -> bool) (J : nat) : bool :=
  match J with O => false | S J' => xorb (par f J') (f J') end.

Lemma par_ext : forall f g J, (forall k, k < J -> f k = g k) -> par f J = par g J.
Proof.
  induction J as [|J IH]; intros H; cbn [par]; [reflexivity|].
  rewrite IH by (intros; apply H; lia). rewrite H by lia. reflexivity.
Qed.

Lemma par_xor : forall f g J, par (fun k => xorb (f k) (g k)) J = xorb (par f J) (par g J).
Proof.
  induction J as [|J IH]; cbn [par]; [reflexivity|]. rewrite IH.
  destruct (par f J), (par g J), (f J), (g J); reflexivity.
Qed.

Lemma par_cut : forall f J K, J <= K -> (forall k, J <= k < K -> f k = false) -> par f K = par f J.
Proof.
  intros f J K HJK. induction K as [|K IH]; intros H.
  - assert (J = 0) by lia. subst. reflexivity.
  - destruct (Nat.eq_dec J (S K)) as [->|Hne]; [reflexivity|].
    cbn [par]. rewrite H by lia. rewrite xorb_false_r. apply IH; [lia|]. intros; apply H; lia.
Qed.

Lemma par_true_ex : forall f J, par f J = true -> exists k, k < J /\ f k = true.
Proof.
  induction J as [|J IH]; cbn [par]; intros H; [discriminate|].
  destruct (f J) eqn:E.
  - exists J. split; [lia|assumption].
  - rewrite xorb_false_r in H. destruct (IH H) as [k [Hk Hf]]. exists k. split; [lia|assumption].
Qed.

(* ------------------------------------------------------------------ 2. pointwise semantics of bdmap *)
Lemma get_beyond : forall (v : vec) k, length v <= k -> get v k = false.
Proof. intros v k H. unfold get. apply nth_overflow. exact H. Qed.

Lemma get_of_idx_filter_seq : forall (h : nat -> list nat) (g : nat -> bool) r N,
  get (of_idx (flat_map h (filter g (seq 0 N)))) r = par (fun k => g k && get (of_idx (h k)) r) N.
Proof.
  intros h g r. induction N as [|N IH]; [cbn; apply get_nil|].
  rewrite seq_S, filter_app, flat_map_app, get_of_idx_app, IH. cbn [par]. f_equal.
  cbn [Nat.add filter]. destruct (g N); cbn [flat_map andb].
  - rewrite app_nil_r. reflexivity.
  - apply (get_nil r).
Qed.

Definition bdpar (s : list nop) (v : vec) (r N : nat) : bool :=
  par (fun k => get v k && get (of_idx (bd_of s k)) r) N.

Lemma get_bdmap : forall s v r N, (forall k, N <= k -> get v k = false) -> get (bdmap s v) r = bdpar s v r N.
Proof.
  intros s v r N H. unfold bdmap, support, bdpar. rewrite get_of_idx_filter_seq.
  destruct (le_lt_dec N (length v)) as [Hle|Hlt].
  - apply par_cut; [exact Hle|]. intros k Hk. rewrite H by lia. reflexivity.
  - symmetry. apply par_cut; [lia|]. intros k Hk. rewrite get_beyond by lia. reflexivity.
Qed.

Lemma bdmap_vxor : forall s a b, veq_model (bdmap s (vxor a b)) (vxor (bdmap s a) (bdmap s b)).
Proof.
  intros s a b r. rewrite get_vxor.
  set (N := length a + length b).
  rewrite (get_bdmap s (vxor a b) r N), (get_bdmap s a r N), (get_bdmap s b r N).
  - unfold bdpar. rewrite <- par_xor. apply par_ext. intros k _. rewrite get_vxor.
    destruct (get a k), (get b k), (get (of_idx (bd_of s k)) r); reflexivity.
  - intros k Hk. apply get_beyond. unfold N in Hk. lia.
  - intros k Hk. apply get_beyond. unfold N in Hk. lia.
  - intros k Hk. rewrite get_vxor, !get_beyond by (unfold N in Hk; lia). reflexivity.
Qed.

Lemma bdmap_veq : forall s a b, veq_model a b -> veq_model (bdmap s a) (bdmap s b).
Proof.
  intros s a b H r. set (N := length a + length b).
  rewrite (get_bdmap s a r N), (get_bdmap s b r N).
  - unfold bdpar. apply par_ext. intros k _. rewrite H. reflexivity.
  - intros k Hk. apply get_beyond. unfold N in Hk. lia.
  - intros k Hk. apply get_beyond. unfold N in Hk. lia.
Qed.

Lemma get_of_idx_true_In : forall l j, get (of_idx l) j = true -> In j l.
Proof.
  intros l j H. destruct (in_dec Nat.eq_dec j l) as [Hin|Hn]; [exact Hin|].
  rewrite get_of_idx_notin in H; [discriminate|]. intros a Ha E. subst. contradiction.
Qed.

Lemma get_of_idx_nodup : forall l j, NoDup l -> get (of_idx l) j = memn j l.
Proof.
  induction l as [|a l IH]; intros j Hnd.
  - apply (get_nil j).
  - inversion Hnd as [|x y Hni Hnd']; subst. rewrite get_of_idx_cons, IH by assumption.
    unfold memn. cbn [existsb]. fold (memn j l).
    destruct (a =? j) eqn:E.
    + apply Nat.eqb_eq in E. subst. rewrite Nat.eqb_refl.
      destruct (memn j l) eqn:M; [apply C07_Valid.memn_In in M; contradiction|reflexivity].
    + rewrite Nat.eqb_sym, E. destruct (memn j l); reflexivity.
Qed.

Lemma bdmap_true_ex : forall s v r, get (bdmap s v) r = true -> exists k, get v k = true /\ In r (bd_of s k).
Proof.
  intros s v r H. rewrite (get_bdmap s v r (length v)) in H by (apply get_beyond).
  apply par_true_ex in H. destruct H as [k [_ Hk]]. apply andb_true_iff in Hk. destruct Hk as [A B].
  exists k. split; [exact A|]. apply get_of_idx_true_In. exact B.
Qed.

(* ------------------------------------------------------------------ 3. last_one *)
Lemma last_one_aux_spec : forall v i acc,
  ((forall k, get v k = false) /\ last_one_aux v i acc = acc) \/
  (exists k, get v k = true /\ (forall k', k < k' -> get v k' = false) /\ last_one_aux v i acc = Some (i + k)).
Proof.
  induction v as [|b v IH]; intros i acc.
  - left. split; [intros k; apply get_nil|reflexivity].
  - destruct b; cbn [last_one_aux].
    + destruct (IH (S i) (Some i)) as [[Hz E]|[k [Hk [Hz E]]]].
      * right. exists 0. split; [reflexivity|]. split.
        -- intros k' Hk'. destruct k'; [lia|]. apply (Hz k').
        -- rewrite E. f_equal. lia.
      * right. exists (S k). split; [exact Hk|]. split.
        -- intros k' Hk'. destruct k'; [lia|]. apply (Hz k'). lia.
        -- rewrite E. f_equal. lia.
    + destruct (IH (S i) acc) as [[Hz E]|[k [Hk [Hz E]]]].
      * left. split; [|exact E]. intros k. destruct k; [reflexivity|apply (Hz k)].
      * right. exists (S k). split; [exact Hk|]. split.
        -- intros k' Hk'. destruct k'; [lia|]. apply (Hz k'). lia.
        -- rewrite E. f_equal. lia.
Qed.

Lemma last_one_some : forall v m, last_one v = Some m <-> get v m = true /\ forall k, m < k -> get v k = false.
Proof.
  intros v m. unfold last_one.
  destruct (last_one_aux_spec v 0 None) as [[Hz E]|[k [Hk [Hz E]]]]; rewrite E.
  - split; [discriminate|]. intros [H _]. rewrite Hz in H. discriminate.
  - cbn [Nat.add]. split.
    + intros H. inversion H; subst. split; assumption.
    + intros [A B]. f_equal. destruct (lt_eq_lt_dec k m) as [[H|H]|H]; [|exact H|].
      * rewrite Hz in A by exact H. discriminate.
      * rewrite B in Hk by exact H. discriminate.
Qed.

Lemma last_one_none : forall v, last_one v = None <-> forall k, get v k = false.
Proof.
  intros v. unfold last_one.
  destruct (last_one_aux_spec v 0 None) as [[Hz E]|[k [Hk [Hz E]]]]; rewrite E.
  - split; [intros _; exact Hz|reflexivity].
  - split; [discriminate|]. intros H. rewrite H in Hk. discriminate.
Qed.

(* ------------------------------------------------------------------ 4. boundaries of a valid insertion-only sequence *)
Lemma bd_of_beyond : forall s k, length s <= k -> bd_of s k = [].
Proof. intros s k H. unfold bd_of. rewrite nth_overflow by exact H. reflexivity. Qed.

Lemma bd_props : forall s k c, valid s = true -> insertion_only s = true -> In c (bd_of s k) ->
  k < length s /\ c <= k /\ c < length s /\ (dim_of s c = dim_of s k - 1)%Z.
Proof.
  intros s k c Hv Hio Hc.
  destruct (le_lt_dec (length s) k) as [Hge|Hlt]; [rewrite bd_of_beyond in Hc by exact Hge; destruct Hc|].
  assert (Hk : In k (present s k)) by (apply C07_InsOnly.present_ins; [exact Hio|exact Hlt|lia]).
  destruct (C07_Valid.valid_closed s k k c Hv Hk Hc) as [Hp Hd].
  destruct (C07_Valid.present_le s k c Hp) as [A B].
  repeat split; assumption.
Qed.

Lemma bd_nodup : forall s k, valid s = true -> insertion_only s = true -> NoDup (bd_of s k).
Proof.
  intros s k Hv Hio.
  destruct (le_lt_dec (length s) k) as [Hge|Hlt]; [rewrite bd_of_beyond by exact Hge; constructor|].
  apply (C07_Valid.valid_bd_nodup s k k Hv). apply C07_InsOnly.present_ins; [exact Hio|exact Hlt|lia].
Qed.

Lemma bdmap_high : forall s v r, valid s = true -> insertion_only s = true -> length s <= r -> get (bdmap s v) r = false.
Proof.
  intros s v r Hv Hio Hr. destruct (get (bdmap s v) r) eqn:E; [|reflexivity].
  apply bdmap_true_ex in E. destruct E as [k [_ Hin]].
  destruct (bd_props s k r Hv Hio Hin) as (_ & _ & H & _). lia.
Qed.

Definition b2z (b : bool) : Z := if b then 1%Z else 0%Z.

Lemma mget_boundary : forall s k i, k < length s -> i < length s ->
  ReduceExec.mget (boundary_matrix s) k i = b2z (memn i (bd_of s k)).
Proof.
  intros s k i Hk Hi. unfold ReduceExec.mget, boundary_matrix.
  set (F := fun o : nop => match o with NIns _ bd => dense_bd (length s) bd | _ => dense_bd (length s) [] end).
  rewrite (nth_indep (map F s) [] (F NId)) by (rewrite map_length; exact Hk).
  rewrite map_nth.
  assert (E : F (nth k s NId) = dense_bd (length s) (bd_of s k)).
  { unfold F, bd_of. destruct (nth k s NId); reflexivity. }
  rewrite E. unfold dense_bd.
  set (g := fun i0 : nat => if memn i0 (bd_of s k) then 1%Z else 0%Z).
  rewrite (nth_indep (map g (seq 0 (length s))) 0%Z (g 0)) by (rewrite map_length, seq_length; exact Hi).
  rewrite map_nth, seq_nth by exact Hi. reflexivity.
Qed.

(* ------------------------------------------------------------------ 5. arithmetic modulo 2 *)
Lemma zm2_b2z : forall b, Reduce.zm 2 (b2z b) <-> b = false.
Proof. intros b. unfold Reduce.zm. destruct b; cbn; split; intros H; try reflexivity; discriminate. Qed.

Lemma mod2_step : forall x p a b, (x mod 2 = b2z p)%Z -> ((x + b2z a * b2z b) mod 2 = b2z (xorb p (a && b)))%Z.
Proof.
  intros x p a b H. rewrite Z.add_mod by lia. rewrite H. destruct p, a, b; reflexivity.
Qed.

Lemma zm2_sub : forall a x, (x mod 2 = b2z a)%Z -> Reduce.zm 2 (b2z a - x).
Proof.
  intros a x H. unfold Reduce.zm. rewrite Zminus_mod, H. destruct a; reflexivity.
Qed.

(* ------------------------------------------------------------------ 6. a homogeneous reduced decomposition as integer matrices *)
Definition matf (M : list vec) : nat -> nat -> Z := fun j i => b2z (get (nth j M []) i).

Section Bridge.
Variable s : list nop.
Hypothesis Hv : valid s = true.
Hypothesis Hio : insertion_only s = true.
Let n := length s.
Let D := ReduceExec.to_mat (boundary_matrix s).

Lemma comb_bdpar : forall (v : vec) i J, J <= n -> i < n ->
  (Reduce.comb D (fun k => b2z (get v k)) J i mod 2 = b2z (bdpar s v i J))%Z.
Proof.
  intros v i J HJ Hi. induction J as [|J IH]; [reflexivity|].
  cbn [Reduce.comb]. unfold bdpar. cbn [par]. fold (bdpar s v i J).
  unfold D at 2, ReduceExec.to_mat. rewrite mget_boundary by (fold n; lia).
  rewrite get_of_idx_nodup by (apply bd_nodup; assumption).
  apply mod2_step. apply IH. lia.
Qed.

Variables Vm Rm : list vec.
Hypothesis Hh : hred s Vm Rm.

Lemma hred_R_get : forall j i, j < n -> get (nth j Rm []) i = bdpar s (nth j Vm []) i (S j).
Proof.
  intros j i Hj. destruct Hh as (_ & _ & H & _). destruct (H j Hj) as (_ & Hs & Hr).
  rewrite (Hr i). apply get_bdmap. intros k Hk.
  destruct (get (nth j Vm []) k) eqn:E; [|reflexivity]. destruct (Hs k E). lia.
Qed.

Lemma hred_R_high : forall j i, j < n -> n <= i -> get (nth j Rm []) i = false.
Proof.
  intros j i Hj Hi. destruct Hh as (_ & _ & H & _). destruct (H j Hj) as (_ & _ & Hr).
  rewrite (Hr i). apply bdmap_high; assumption.
Qed.

Lemma hred_tri : Reduce.tri 2 n D (matf Rm).
Proof.
  intros j Hj. exists (fun k => b2z (get (nth j Vm []) k)). split.
  - destruct Hh as (_ & _ & H & _). destruct (H j Hj) as (H1 & _). rewrite H1. cbn. unfold Reduce.zm. cbn. discriminate.
  - intros i Hi. unfold matf. apply zm2_sub. rewrite comb_bdpar by lia. rewrite hred_R_get by exact Hj. reflexivity.
Qed.

Lemma is_low_last_one : forall j m, j < n -> (Reduce.is_low 2 n (matf Rm j) m <-> last_one (nth j Rm []) = Some m).
Proof.
  intros j m Hj. rewrite last_one_some. unfold Reduce.is_low, matf. split.
  - intros (A & B & C). split.
    + destruct (get (nth j Rm []) m) eqn:E; [reflexivity|]. exfalso. apply B. apply zm2_b2z. reflexivity.
    + intros k Hk. destruct (le_lt_dec n k) as [Hge|Hlt]; [apply hred_R_high; assumption|].
      apply zm2_b2z. apply C. lia.
  - intros [A B]. split; [|split].
    + destruct (le_lt_dec n m) as [Hge|Hlt]; [|exact Hlt]. rewrite hred_R_high in A by assumption. discriminate.
    + rewrite A. intro H. apply zm2_b2z in H. discriminate.
    + intros i Hi. apply zm2_b2z. apply B. lia.
Qed.

Lemma is_zero_last_one : forall j, j < n -> (Reduce.is_zero 2 n (matf Rm j) <-> last_one (nth j Rm []) = None).
Proof.
  intros j Hj. rewrite last_one_none. unfold Reduce.is_zero, matf. split.
  - intros H k. destruct (le_lt_dec n k) as [Hge|Hlt]; [apply hred_R_high; assumption|].
    apply zm2_b2z. apply H. exact Hlt.
  - intros H i Hi. apply zm2_b2z. apply H.
Qed.

Lemma hred_reduced : Reduce.reduced 2 n (matf Rm).
Proof.
  intros j1 j2 m H1 H2 Hne L1 L2. apply is_low_last_one in L1; [|exact H1]. apply is_low_last_one in L2; [|exact H2].
  destruct Hh as (_ & _ & _ & H). exact (H j1 j2 m H1 H2 Hne L1 L2).
Qed.

Theorem hred_lows : forall l, ReduceExec.certified_lows 2 (boundary_matrix s) = Some l -> map last_one Rm = l.
Proof.
  intros l Hc. unfold ReduceExec.certified_lows in Hc.
  assert (Hn : length (boundary_matrix s) = n) by (unfold boundary_matrix; apply map_length).
  rewrite Hn in Hc.
  destruct (ReduceExec.reduce 2 n (boundary_matrix s)) as [R V].
  destruct (ReduceExec.check_RU 2 n (boundary_matrix s) R V) eqn:Ec; [|discriminate].
  inversion Hc; subst l. clear Hc.
  destruct (ReduceExec.check_RU_sound 2 n (boundary_matrix s) R V Ec) as [Ht Hr].
  pose proof (Reduce.lows_unique 2 prime_2 n D (ReduceExec.to_mat R) (matf Rm) Ht hred_tri Hr hred_reduced) as HU.
  unfold ReduceExec.lows.
  destruct Hh as (_ & HlR & _ & _). fold n in HlR.
  set (g := fun j : nat => ReduceExec.low_of 2 n (ReduceExec.to_mat R j)).
  apply (nth_ext _ _ (last_one []) (g 0)).
  - rewrite !map_length, seq_length. exact HlR.
  - intros j Hj. rewrite map_length, HlR in Hj. rewrite !map_nth, seq_nth by exact Hj. cbn [Nat.add].
    destruct (HU j Hj) as [HL HZ]. unfold g.
    destruct (ReduceExec.low_of 2 n (ReduceExec.to_mat R j)) as [m|] eqn:E.
    + apply ReduceExec.low_of_some in E. apply is_low_last_one; [exact Hj|]. apply HL. exact E.
    + apply ReduceExec.low_of_none in E. apply is_zero_last_one; [exact Hj|]. apply HZ. exact E.
Qed.

End Bridge.

(* ------------------------------------------------------------------ 7. existence of a homogeneous reduced decomposition *)
Lemma dec_below : forall (P : nat -> Prop) j, (forall i, P i \/ ~ P i) ->
  (exists i, i < j /\ P i) \/ (forall i, i < j -> ~ P i).
Proof.
  intros P j Hd. induction j as [|j IH].
  - right. intros i Hi. lia.
  - destruct IH as [[i [Hi HP]]|Hn].
    + left. exists i. split; [lia|exact HP].
    + destruct (Hd j) as [HP|HnP].
      * left. exists j. split; [lia|exact HP].
      * right. intros i Hi. destruct (Nat.eq_dec i j) as [->|]; [exact HnP|apply Hn; lia].
Qed.

Section Exists.
Variable s : list nop.
Hypothesis Hv : valid s = true.
Hypothesis Hio : insertion_only s = true.
Let n := length s.

Definition col_ok (j : nat) (V R : vec) : Prop :=
  get V j = true /\
  (forall k, get V k = true -> k <= j /\ dim_of s k = dim_of s j) /\
  veq_model R (bdmap s V).

Definition hred_upto (j : nat) (Vm Rm : list vec) : Prop :=
  length Vm = j /\ length Rm = j /\
  (forall i, i < j -> col_ok i (nth i Vm []) (nth i Rm [])) /\
  (forall i i' m, i < j -> i' < j -> i <> i' ->
     last_one (nth i Rm []) = Some m -> last_one (nth i' Rm []) <> Some m).

Lemma hred_upto_full : forall Vm Rm, hred_upto n Vm Rm -> hred s Vm Rm.
Proof. intros Vm Rm H. exact H. Qed.

(* a cell in the boundary part of a homogeneous chain of dimension dim j has dimension dim j - 1 *)
Lemma col_low_dim : forall j V R m, j < n -> col_ok j V R -> get R m = true -> (dim_of s m = dim_of s j - 1)%Z.
Proof.
  intros j V R m Hj (_ & Hs & Hr) Hm. rewrite (Hr m) in Hm.
  apply bdmap_true_ex in Hm. destruct Hm as [k [Hk Hin]].
  destruct (Hs k Hk) as [_ Hd]. destruct (bd_props s k m Hv Hio Hin) as (_ & _ & _ & E). rewrite E, Hd. reflexivity.
Qed.

Lemma reduce_column : forall j Vm Rm, j < n -> hred_upto j Vm Rm ->
  forall m V R, col_ok j V R -> (forall k, m <= k -> get R k = false) ->
  exists V' R', col_ok j V' R' /\
    forall i m', i < j -> last_one (nth i Rm []) = Some m' -> last_one R' <> Some m'.
Proof.
  intros j Vm Rm Hj (HlV & HlR & Hcols & Hdist).
  induction m as [|m IH]; intros V R Hc Hb.
  - exists V, R. split; [exact Hc|]. intros i m' _ _ H. apply last_one_some in H. destruct H as [H _].
    rewrite Hb in H by lia. discriminate.
  - destruct (get R m) eqn:Em.
    2:{ apply (IH V R Hc). intros k Hk. destruct (Nat.eq_dec k m) as [->|]; [exact Em|apply Hb; lia]. }
    assert (HL : last_one R = Some m).
    { apply last_one_some. split; [exact Em|]. intros k Hk. apply Hb. lia. }
    destruct (dec_below (fun i => last_one (nth i Rm []) = Some m) j) as [[i [Hi Hli]]|Hnone].
    { intros i. destruct (last_one (nth i Rm [])) as [x|]; [|right; discriminate].
      destruct (Nat.eq_dec x m) as [->|Hne]; [left; reflexivity|right; intro H; inversion H; contradiction]. }
    + (* add column i *)
      pose proof (Hcols i Hi) as Hci. assert (Hci' := Hci). destruct Hci' as (Hii & Hsi & Hri).
      assert (Hc' := Hc). destruct Hc' as (Hjj & Hsj & Hrj).
      apply last_one_some in Hli. destruct Hli as [Him Hiz].
      assert (Hdim : dim_of s i = dim_of s j).
      { pose proof (col_low_dim j V R m Hj Hc Em) as E1.
        pose proof (col_low_dim i _ _ m ltac:(lia) Hci Him) as E2. lia. }
      apply (IH (vxor V (nth i Vm [])) (vxor R (nth i Rm []))).
      * split; [|split].
        -- rewrite get_vxor, Hjj. destruct (get (nth i Vm []) j) eqn:E; [|reflexivity].
           destruct (Hsi j E). lia.
        -- intros k Hk. rewrite get_vxor in Hk.
           destruct (get V k) eqn:E1.
           ++ apply Hsj. exact E1.
           ++ destruct (get (nth i Vm []) k) eqn:E2; [|discriminate].
              destruct (Hsi k E2) as [A B]. split; [lia|]. rewrite B. exact Hdim.
        -- intros r. rewrite (bdmap_vxor s V (nth i Vm []) r), !get_vxor, (Hrj r), (Hri r). reflexivity.
      * intros k Hk. rewrite get_vxor. destruct (Nat.eq_dec k m) as [->|Hne].
        -- rewrite Em, Him. reflexivity.
        -- rewrite Hb, Hiz by lia. reflexivity.
    + exists V, R. split; [exact Hc|]. intros i m' Hi Hl H. rewrite HL in H. inversion H; subst m'.
      exact (Hnone i Hi Hl).
Qed.

Lemma unit_col_ok : forall j, j < n -> col_ok j (unit_vec j) (bdmap s (unit_vec j)).
Proof.
  intros j Hj. split; [|split].
  - rewrite get_unit. apply Nat.eqb_refl.
  - intros k Hk. rewrite get_unit in Hk. apply Nat.eqb_eq in Hk. subst. split; [lia|reflexivity].
  - intros r. reflexivity.
Qed.

Lemma nth_snoc_lt : forall (L : list vec) (x : vec) i, i < length L -> nth i (L ++ [x]) [] = nth i L [].
Proof. intros. apply app_nth1. assumption. Qed.
Lemma nth_snoc_eq : forall (L : list vec) (x : vec), nth (length L) (L ++ [x]) [] = x.
Proof. intros. rewrite app_nth2 by lia. rewrite Nat.sub_diag. reflexivity. Qed.

Lemma hred_upto_step : forall j Vm Rm, j < n -> hred_upto j Vm Rm -> exists V R, hred_upto (S j) (Vm ++ [V]) (Rm ++ [R]).
Proof.
  intros j Vm Rm Hj H.
  destruct (reduce_column j Vm Rm Hj H n (unit_vec j) (bdmap s (unit_vec j)) (unit_col_ok j Hj)) as (V & R & Hc & Hnew).
  { intros k Hk. apply bdmap_high; assumption. }
  destruct H as (HlV & HlR & Hcols & Hdist).
  exists V, R. split; [|split; [|split]].
  - rewrite app_length, HlV. cbn. lia.
  - rewrite app_length, HlR. cbn. lia.
  - intros i Hi. destruct (Nat.eq_dec i j) as [->|Hne].
    + rewrite <- HlV at 2. rewrite nth_snoc_eq. rewrite <- HlR at 2. rewrite nth_snoc_eq. exact Hc.
    + rewrite !nth_snoc_lt by lia. apply Hcols. lia.
  - intros i i' m Hi Hi' Hne Hl.
    destruct (Nat.eq_dec i j) as [->|Hij]; destruct (Nat.eq_dec i' j) as [->|Hi'j].
    + contradiction.
    + rewrite <- HlR in Hl at 1. rewrite nth_snoc_eq in Hl.
      rewrite nth_snoc_lt by lia. intro H'. apply (Hnew i' m ltac:(lia) H'). exact Hl.
    + rewrite nth_snoc_lt in Hl by lia. rewrite <- HlR at 1. rewrite nth_snoc_eq.
      apply (Hnew i m ltac:(lia) Hl).
    + rewrite nth_snoc_lt in Hl by lia. rewrite nth_snoc_lt by lia. apply (Hdist i i' m); try lia. exact Hl.
Qed.

Lemma hred_upto_exists : forall j, j <= n -> exists Vm Rm, hred_upto j Vm Rm.
Proof.
  induction j as [|j IH]; intros Hj.
  - exists [], []. split; [reflexivity|]. split; [reflexivity|]. split; intros; lia.
  - destruct (IH ltac:(lia)) as (Vm & Rm & H).
    destruct (hred_upto_step j Vm Rm ltac:(lia) H) as (V & R & H').
    exists (Vm ++ [V]), (Rm ++ [R]). exact H'.
Qed.

End Exists.

Theorem hred_exists : forall s, valid s = true -> insertion_only s = true -> exists Vm Rm, hred s Vm Rm.
Proof.
  intros s Hv Hio. destruct (hred_upto_exists s Hv Hio (length s) (le_n _)) as (Vm & Rm & H).
  exists Vm, Rm. apply hred_upto_full. exact H.
Qed.

(* ------------------------------------------------------------------ 8. the bridge *)
Theorem certified_gives_hred : forall s l, valid s = true -> insertion_only s = true ->
  ReduceExec.certified_lows 2 (boundary_matrix s) = Some l ->
  exists Vm Rm, hred s Vm Rm /\ map last_one Rm = l.
Proof.
  intros s l Hv Hio Hc. destruct (hred_exists s Hv Hio) as (Vm & Rm & H).
  exists Vm, Rm. split; [exact H|]. apply (hred_lows s Hv Hio Vm Rm H l Hc).
Qed.

Print Assumptions hred_lows.
Print Assumptions hred_exists.
Print Assumptions certified_gives_hred.
