(* C07 - the Edelsbrunner-Letscher-Zomorodian pairing for the specification on insertion-only sequences:
   from ANY homogeneous reduced decomposition R = dV (C07_ELZdefs.hred) the persistent Betti numbers are counted
   by the lows of R. *)
From Coq Require Import ZArith List Bool Arith Lia Sorting.Permutation.
Require Import C07_Model C07_Gauss C07_Proofs C07_Betti C07_InsOnly C07_ELZdefs ReduceExec.
Require C07_Valid C07_Ident.
Import ListNotations.
Open Scope Z_scope.
Local Open Scope nat_scope.

(* ------------------------------------------------------------------ 0. lows *)
Definition vz (v : vec) : Prop := forall i, get v i = false.

Lemma last_one_aux_shift : forall v i acc,
  last_one_aux v i acc = match last_one_aux v 0 None with Some m => Some (i + m) | None => acc end.
Proof.
  induction v as [|x v IH]; intros i acc; [reflexivity|].
  cbn [last_one_aux]. destruct x.
  - rewrite (IH (S i) (Some i)), (IH 1 (Some 0)).
    destruct (last_one_aux v 0 None); f_equal; lia.
  - rewrite (IH (S i) acc), (IH 1 None).
    destruct (last_one_aux v 0 None); [f_equal; lia|reflexivity].
Qed.

Lemma last_one_cons : forall x v,
  last_one (x :: v) = match last_one v with Some m => Some (S m) | None => if x then Some 0 else None end.
Proof.
  intros x v. unfold last_one. cbn [last_one_aux]. destruct x.
  - rewrite last_one_aux_shift. destruct (last_one_aux v 0 None); reflexivity.
  - rewrite last_one_aux_shift. destruct (last_one_aux v 0 None); reflexivity.
Qed.

Lemma last_one_some : forall v m, last_one v = Some m -> get v m = true /\ forall i, m < i -> get v i = false.
Proof.
  induction v as [|x v IH]; intros m H; [discriminate H|].
  rewrite last_one_cons in H. destruct (last_one v) as [m'|] eqn:E.
  - inversion H; subst m. destruct (IH m' eq_refl) as [A B]. split; [exact A|].
    intros i Hi. destruct i as [|i]; [lia|]. apply (B i). lia.
  - destruct x; [|discriminate H]. inversion H; subst m. split; [reflexivity|].
    intros i Hi. destruct i as [|i]; [lia|]. unfold get. cbn [nth].
    destruct v as [|y v]; [destruct i; reflexivity|].
    assert (Z : forall w, last_one w = None -> forall i, get w i = false).
    { clear. induction w as [|x w IHw]; intros H i; [apply get_nil|].
      rewrite last_one_cons in H. destruct (last_one w) eqn:E; [discriminate H|]. destruct x; [discriminate H|].
      destruct i as [|i]; [reflexivity|]. apply (IHw eq_refl i). }
    apply (Z (y :: v) E i).
Qed.

Lemma last_one_none : forall v, last_one v = None -> vz v.
Proof.
  induction v as [|x v IHw]; intros H i; [apply get_nil|].
  rewrite last_one_cons in H. destruct (last_one v) eqn:E; [discriminate H|]. destruct x; [discriminate H|].
  destruct i as [|i]; [reflexivity|]. apply (IHw eq_refl i).
Qed.

Lemma last_one_intro : forall v m, get v m = true -> (forall i, m < i -> get v i = false) -> last_one v = Some m.
Proof.
  intros v m A B. destruct (last_one v) as [m'|] eqn:E.
  - destruct (last_one_some v m' E) as [A' B'].
    destruct (lt_eq_lt_dec m m') as [[H|H]|H].
    + rewrite (B m' H) in A'. discriminate.
    + subst. reflexivity.
    + rewrite (B' m H) in A. discriminate.
  - rewrite (last_one_none v E m) in A. discriminate.
Qed.

Lemma last_one_veq : forall a b, veq a b -> last_one a = last_one b.
Proof.
  intros a b H. destruct (last_one a) as [m|] eqn:E.
  - destruct (last_one_some a m E) as [A B]. symmetry. apply last_one_intro.
    + rewrite <- H. exact A.
    + intros i Hi. rewrite <- H. apply B. exact Hi.
  - destruct (last_one b) as [m|] eqn:E'; [|reflexivity].
    destruct (last_one_some b m E') as [A _]. rewrite <- H, (last_one_none a E m) in A. discriminate.
Qed.

Lemma last_one_vz : forall v, vz v -> last_one v = None.
Proof.
  intros v H. destruct (last_one v) as [m|] eqn:E; [|reflexivity].
  destruct (last_one_some v m E) as [A _]. rewrite H in A. discriminate.
Qed.

Lemma low_xor : forall v w a b, last_one v = Some a -> last_one w = Some b -> a <> b ->
  last_one (vxor v w) = Some (Nat.max a b).
Proof.
  intros v w a b Hv Hw Hab. destruct (last_one_some v a Hv) as [A1 A2]. destruct (last_one_some w b Hw) as [B1 B2].
  apply last_one_intro.
  - rewrite get_vxor. destruct (Nat.max_spec a b) as [[H E]|[H E]]; rewrite E.
    + rewrite (A2 b H), B1. reflexivity.
    + assert (H' : b < a) by lia. rewrite (B2 a H'), A1. reflexivity.
  - intros i Hi. rewrite get_vxor, A2, B2 by lia. reflexivity.
Qed.

(* the nonzero vectors of the list have pairwise distinct lows *)
Definition dlows (L : list vec) : Prop := NoDup (map last_one L) /\ ~ In None (map last_one L).

Lemma dlows_tail : forall v L, dlows (v :: L) -> dlows L.
Proof.
  intros v L [A B]. cbn [map] in *. inversion A; subst. split; [assumption|]. intros H. apply B. right. exact H.
Qed.

Lemma lincomb_low : forall L, dlows L -> forall cs,
  last_one (lincomb cs L) = None \/ exists u, In u L /\ last_one (lincomb cs L) = last_one u.
Proof.
  induction L as [|v L IH]; intros HL cs.
  - left. rewrite lincomb_nil_r. reflexivity.
  - destruct cs as [|c cs]; [left; reflexivity|]. rewrite lincomb_cons.
    pose proof (dlows_tail _ _ HL) as HL'. specialize (IH HL' cs).
    destruct c.
    + destruct IH as [IH|[u [Hu IH]]].
      * right. exists v. split; [left; reflexivity|]. apply last_one_veq.
        pose proof (last_one_none _ IH) as Z. intros i. rewrite get_vxor, Z. destruct (get v i); reflexivity.
      * right. destruct HL as [A B]. cbn [map] in A, B. inversion A as [|x l N1 N2]; subst.
        destruct (last_one v) as [a|] eqn:Ea; [|exfalso; apply B; left; reflexivity].
        destruct (last_one u) as [b|] eqn:Eb; [|exfalso; apply B; right; rewrite <- Eb; apply in_map; exact Hu].
        assert (Hab : a <> b).
        { intros E. subst b. apply N1. rewrite <- Eb. apply in_map. exact Hu. }
        rewrite (low_xor v (lincomb cs L) a b Ea IH Hab).
        destruct (Nat.max_spec a b) as [[H E]|[H E]]; rewrite E.
        -- exists u. split; [right; exact Hu|]. symmetry. exact Eb.
        -- exists v. split; [left; reflexivity|]. symmetry. exact Ea.
    + destruct IH as [IH|[u [Hu IH]]]; [left; exact IH|right]. exists u. split; [right; exact Hu|exact IH].
Qed.

Lemma dlows_not_span : forall v L, dlows (v :: L) -> ~ span L v.
Proof.
  intros v L HL [cs Hc]. pose proof (dlows_tail _ _ HL) as HL'. destruct HL as [A B]. cbn [map] in A, B.
  inversion A as [|x l N1 N2]; subst. rewrite (last_one_veq _ _ Hc) in N1, B.
  destruct (lincomb_low L HL' cs) as [H|[u [Hu H]]].
  - apply B. left. exact H.
  - apply N1. rewrite H. apply in_map. exact Hu.
Qed.

Lemma dlows_rank : forall L, dlows L -> rank L = Z.of_nat (length L).
Proof.
  induction L as [|v L IH]; intros HL; [reflexivity|].
  rewrite (rank_cons_new L v (dlows_not_span v L HL)), (IH (dlows_tail _ _ HL)). cbn [length]. lia.
Qed.

(* sums of a family over a list of indices *)
Definition xsum (f : nat -> vec) (J : list nat) : vec := fold_right (fun j acc => vxor (f j) acc) [] J.

Lemma xsum_cons : forall f j J, xsum f (j :: J) = vxor (f j) (xsum f J).
Proof. reflexivity. Qed.

Lemma span_xsum : forall M f J, (forall j, In j J -> span M (f j)) -> span M (xsum f J).
Proof.
  intros M f. induction J as [|j J IH]; intros H.
  - apply span_zero. apply veq_refl.
  - rewrite xsum_cons. apply span_xor; [apply H; left; reflexivity|apply IH]. intros x Hx. apply H. right. exact Hx.
Qed.

Lemma xsum_vz : forall f J, (forall j, In j J -> vz (f j)) -> vz (xsum f J).
Proof.
  intros f. induction J as [|j J IH]; intros H i; [apply get_nil|].
  rewrite xsum_cons, get_vxor, (H j (or_introl eq_refl)), IH; [reflexivity|]. intros x Hx. apply H. right. exact Hx.
Qed.

Lemma xsum_filter : forall f (p : nat -> bool) J, (forall j, In j J -> p j = false -> vz (f j)) ->
  veq (xsum f J) (xsum f (filter p J)).
Proof.
  intros f p. induction J as [|j J IH]; intros H; [apply veq_refl|].
  assert (IH' : veq (xsum f J) (xsum f (filter p J))) by (apply IH; intros x Hx; apply H; right; exact Hx).
  cbn [filter]. destruct (p j) eqn:E.
  - rewrite !xsum_cons. intros i. rewrite !get_vxor, IH'. reflexivity.
  - rewrite xsum_cons. intros i. rewrite get_vxor, (H j (or_introl eq_refl) E i), IH'. apply xorb_false_l.
Qed.

Lemma in_of_idx : forall l c, get (of_idx l) c = true -> In c l.
Proof.
  intros l c H. destruct (in_dec Nat.eq_dec c l) as [Hi|Hn]; [exact Hi|].
  rewrite get_of_idx_notin in H; [discriminate|]. intros a Ha E. subst. contradiction.
Qed.

(* ------------------------------------------------------------------ 1. the boundary map is linear *)
Section Bd.
Variable s : list nop.
Definition Bf (f : nat -> bool) (m : nat) : vec := of_idx (flat_map (bd_of s) (filter f (seq 0 m))).

Lemma get_Bf_S : forall f m i,
  get (Bf f (S m)) i = xorb (get (Bf f m) i) (if f m then get (of_idx (bd_of s m)) i else false).
Proof.
  intros f m i. unfold Bf. rewrite seq_S, filter_app, flat_map_app, get_of_idx_app. f_equal.
  cbn [plus filter]. destruct (f m); cbn [flat_map]; [rewrite app_nil_r; reflexivity|apply get_nil].
Qed.

Lemma Bf_false : forall f m, (forall c, c < m -> f c = false) -> vz (Bf f m).
Proof.
  intros f. induction m as [|m IH]; intros H i; [apply get_nil|].
  rewrite get_Bf_S, (H m) by lia. rewrite IH; [reflexivity|]. intros c Hc. apply H. lia.
Qed.

Lemma Bf_ext : forall f g m, (forall c, c < m -> f c = g c) -> veq (Bf f m) (Bf g m).
Proof.
  intros f g. induction m as [|m IH]; intros H i; [reflexivity|].
  rewrite !get_Bf_S, (H m) by lia. rewrite IH; [reflexivity|]. intros c Hc. apply H. lia.
Qed.

Lemma Bf_xor : forall f g m i, get (Bf (fun c => xorb (f c) (g c)) m) i = xorb (get (Bf f m) i) (get (Bf g m) i).
Proof.
  intros f g. induction m as [|m IH]; intros i.
  { change (Bf (fun c => xorb (f c) (g c)) 0) with (@nil bool). change (Bf f 0) with (@nil bool).
    change (Bf g 0) with (@nil bool). rewrite get_nil. reflexivity. }
  rewrite !get_Bf_S, IH. destruct (f m), (g m); cbn [xorb];
    destruct (get (Bf f m) i), (get (Bf g m) i), (get (of_idx (bd_of s m)) i); reflexivity.
Qed.

Lemma Bf_stable : forall f m d, (forall c, m <= c -> f c = false) -> veq (Bf f (m + d)) (Bf f m).
Proof.
  intros f m. induction d as [|d IH]; intros H i.
  - rewrite Nat.add_0_r. reflexivity.
  - replace (m + S d) with (S (m + d)) by lia. rewrite get_Bf_S, (H (m + d)) by lia. rewrite IH by assumption.
    apply xorb_false_r.
Qed.

Lemma get_overflow : forall (v : vec) c, length v <= c -> get v c = false.
Proof. intros v c H. unfold get. apply nth_overflow. exact H. Qed.

Lemma bdmap_Bf : forall v m, (forall c, m <= c -> get v c = false) -> veq (bdmap s v) (Bf (get v) m).
Proof.
  intros v m H. change (bdmap s v) with (Bf (get v) (length v)).
  destruct (le_lt_dec m (length v)) as [L|L].
  - replace (length v) with (m + (length v - m)) by lia. apply Bf_stable. exact H.
  - apply veq_sym. replace m with (length v + (m - length v)) by lia. apply Bf_stable.
    intros c Hc. apply get_overflow. exact Hc.
Qed.

Lemma bdmap_veq : forall a b, veq a b -> veq (bdmap s a) (bdmap s b).
Proof.
  intros a b H. set (M := Nat.max (length a) (length b)).
  apply (veq_trans _ (Bf (get a) M)); [apply bdmap_Bf; intros c Hc; apply get_overflow; lia|].
  apply (veq_trans _ (Bf (get b) M)); [apply Bf_ext; intros c _; apply H|].
  apply veq_sym. apply bdmap_Bf. intros c Hc. apply get_overflow. lia.
Qed.

Lemma bdmap_xor : forall a b, veq (bdmap s (vxor a b)) (vxor (bdmap s a) (bdmap s b)).
Proof.
  intros a b. set (M := Nat.max (length a) (length b)).
  assert (Ha : veq (bdmap s a) (Bf (get a) M)) by (apply bdmap_Bf; intros c Hc; apply get_overflow; lia).
  assert (Hb : veq (bdmap s b) (Bf (get b) M)) by (apply bdmap_Bf; intros c Hc; apply get_overflow; lia).
  assert (Hx : veq (bdmap s (vxor a b)) (Bf (get (vxor a b)) M)).
  { apply bdmap_Bf. intros c Hc. rewrite get_vxor, !get_overflow by lia. reflexivity. }
  intros i. rewrite (Hx i), get_vxor, (Ha i), (Hb i), <- Bf_xor. apply Bf_ext. intros c _. apply get_vxor.
Qed.

Lemma bdmap_vz : forall v, vz v -> vz (bdmap s v).
Proof.
  intros v H i. rewrite (bdmap_veq v [] (fun c => eq_trans (H c) (eq_sym (get_nil c))) i). apply get_nil.
Qed.

Lemma bdmap_xsum : forall f J, veq (bdmap s (xsum f J)) (xsum (fun j => bdmap s (f j)) J).
Proof.
  intros f. induction J as [|j J IH]; [apply veq_refl|].
  rewrite !xsum_cons. intros i. rewrite (bdmap_xor _ _ i), !get_vxor, (IH i). reflexivity.
Qed.

Lemma bdmap_unit : forall c, veq (bdmap s (unit_vec c)) (of_idx (bd_of s c)).
Proof.
  intros c. apply (veq_trans _ (Bf (get (unit_vec c)) (S c))).
  - apply bdmap_Bf. intros x Hx. rewrite get_unit. apply Nat.eqb_neq. lia.
  - intros i. rewrite get_Bf_S, get_unit, Nat.eqb_refl. rewrite Bf_false; [apply xorb_false_l|].
    intros x Hx. rewrite get_unit. apply Nat.eqb_neq. lia.
Qed.

Lemma bdmap_of_idx : forall cs, veq (bdmap s (of_idx cs)) (of_idx (flat_map (bd_of s) cs)).
Proof.
  induction cs as [|c cs IH]; [apply veq_refl|].
  change (of_idx (c :: cs)) with (vxor (unit_vec c) (of_idx cs)). cbn [flat_map].
  intros i. rewrite (bdmap_xor _ _ i), get_vxor, get_of_idx_app, (bdmap_unit c i), (IH i). reflexivity.
Qed.

(* a vector is the sum of the units of its support *)
Lemma Bf_support : forall f m i, In i (flat_map (bd_of s) (filter f (seq 0 m))) ->
  exists t, t < m /\ f t = true /\ In i (bd_of s t).
Proof.
  intros f m i H. apply in_flat_map in H. destruct H as [t [Ht Hi]]. apply filter_In in Ht. destruct Ht as [Ht Hf].
  apply in_seq in Ht. exists t. split; [lia|]. split; assumption.
Qed.
End Bd.

Lemma get_of_idx_filter : forall f m i, get (of_idx (filter f (seq 0 m))) i = f i && (i <? m).
Proof.
  intros f. induction m as [|m IH]; intros i.
  - cbn [seq filter]. change (of_idx []) with (@nil bool). rewrite get_nil.
    destruct (f i); reflexivity.
  - rewrite seq_S, filter_app, get_of_idx_app, IH. cbn [plus filter].
    destruct (Nat.ltb_spec i m) as [L|L]; destruct (Nat.ltb_spec i (S m)) as [L'|L']; try lia.
    + destruct (f m); [rewrite get_of_idx_cons|]; change (of_idx []) with (@nil bool); rewrite get_nil.
      * replace (m =? i) with false by (symmetry; apply Nat.eqb_neq; lia). destruct (f i); reflexivity.
      * destruct (f i); reflexivity.
    + assert (E : i = m) by lia. subst i. destruct (f m); [rewrite get_of_idx_cons|]; change (of_idx []) with (@nil bool);
        rewrite get_nil; [rewrite Nat.eqb_refl|]; reflexivity.
    + destruct (f m); [rewrite get_of_idx_cons|]; change (of_idx []) with (@nil bool); rewrite get_nil.
      * replace (m =? i) with false by (symmetry; apply Nat.eqb_neq; lia). destruct (f i); reflexivity.
      * destruct (f i); reflexivity.
Qed.

Lemma xsum_ext : forall f g J, (forall j, In j J -> veq (f j) (g j)) -> veq (xsum f J) (xsum g J).
Proof.
  intros f g. induction J as [|j J IH]; intros H; [apply veq_refl|].
  rewrite !xsum_cons. intros i. rewrite !get_vxor, (H j (or_introl eq_refl) i), (IH (fun x Hx => H x (or_intror Hx)) i).
  reflexivity.
Qed.

Lemma dlows_fam : forall (f : nat -> vec) J, NoDup J -> (forall x, In x J -> last_one (f x) <> None) ->
  (forall x y, In x J -> In y J -> last_one (f x) = last_one (f y) -> x = y) -> dlows (map f J).
Proof.
  intros f. induction J as [|j J IH]; intros Hn Hs Hi.
  - split; [constructor|intros []].
  - inversion Hn as [|x l N1 N2]; subst.
    destruct (IH N2 (fun x Hx => Hs x (or_intror Hx)) (fun x y Hx Hy => Hi x y (or_intror Hx) (or_intror Hy))) as [A B].
    split; cbn [map].
    + constructor; [|exact A]. intros H. rewrite map_map in H. apply in_map_iff in H. destruct H as [y [E Hy]].
      apply N1. rewrite (Hi j y (or_introl eq_refl) (or_intror Hy) (eq_sym E)). exact Hy.
    + intros [H|H]; [apply (Hs j (or_introl eq_refl)); exact H|apply B; exact H].
Qed.

Lemma dlows_app : forall A B, dlows A -> dlows B ->
  (forall a b, In a A -> In b B -> last_one a <> last_one b) -> dlows (A ++ B).
Proof.
  induction A as [|a A IH]; intros B HA HB Hx; [exact HB|].
  destruct (IH B (dlows_tail _ _ HA) HB (fun x y Hx' Hy => Hx x y (or_intror Hx') Hy)) as [P Q].
  destruct HA as [A1 A2]. cbn [map] in A1, A2. inversion A1 as [|x l N1 N2]; subst.
  split; cbn [app map].
  - constructor; [|exact P]. rewrite map_app. intros H. apply in_app_or in H. destruct H as [H|H]; [apply N1; exact H|].
    apply in_map_iff in H. destruct H as [y [E Hy]]. apply (Hx a y (or_introl eq_refl) Hy). symmetry. exact E.
  - intros [H|H]; [apply A2; left; exact H|apply Q; exact H].
Qed.

(* the barcode read off the lows, as in C07_Model.ordinary_bars *)
Definition bars_of_lows (s : list nop) (l : list (option nat)) : list bar :=
  map (fun bd => (dim_of s (fst bd), fst bd, snd bd)) (pairs_of_lows l).

(* ------------------------------------------------------------------ 2. the decomposition *)
Section ELZ.
Variables (s : list nop) (Vm Rm : list vec).
Hypothesis Hv : valid s = true.
Hypothesis Hio : insertion_only s = true.
Hypothesis Hh : hred s Vm Rm.
Let n := length s.
Let V (j : nat) : vec := nth j Vm [].
Let R (j : nat) : vec := nth j Rm [].
Let D (c : nat) : vec := of_idx (bd_of s c).

Lemma V_diag : forall j, j < n -> get (V j) j = true.
Proof. intros j Hj. destruct Hh as [_ [_ [H _]]]. apply (H j Hj). Qed.
Lemma V_supp : forall j i, j < n -> get (V j) i = true -> i <= j /\ dim_of s i = dim_of s j.
Proof. intros j i Hj. destruct Hh as [_ [_ [H _]]]. destruct (H j Hj) as [_ [H' _]]. apply H'. Qed.
Lemma R_eq : forall j, j < n -> veq (R j) (bdmap s (V j)).
Proof. intros j Hj. destruct Hh as [_ [_ [H _]]]. destruct (H j Hj) as [_ [_ H']]. exact H'. Qed.
Lemma R_inj : forall i j m, i < n -> j < n -> last_one (R i) = Some m -> last_one (R j) = Some m -> i = j.
Proof.
  intros i j m Hi Hj Ei Ej. destruct Hh as [_ [_ [_ H]]]. destruct (Nat.eq_dec i j) as [E|E]; [exact E|].
  exfalso. apply (H i j m Hi Hj E Ei Ej).
Qed.

Lemma V_low : forall j, j < n -> last_one (V j) = Some j.
Proof.
  intros j Hj. apply last_one_intro; [apply V_diag; exact Hj|]. intros i Hi.
  destruct (get (V j) i) eqn:E; [|reflexivity]. apply (V_supp j i Hj) in E. lia.
Qed.

Lemma V_above : forall j c, j < n -> S j <= c -> get (V j) c = false.
Proof. intros j c Hj Hc. destruct (get (V j) c) eqn:E; [|reflexivity]. apply (V_supp j c Hj) in E. lia. Qed.

Lemma R_Bf : forall j, j < n -> veq (R j) (Bf s (get (V j)) (S j)).
Proof.
  intros j Hj. apply (veq_trans _ _ _ (R_eq j Hj)). apply bdmap_Bf. intros c Hc. apply V_above; assumption.
Qed.

Lemma pres_self : forall t, t < n -> In t (present s t).
Proof. intros t Ht. apply (present_ins s t t Hio Ht). lia. Qed.

Lemma bd_below : forall t c, t < n -> In c (bd_of s t) -> c < t /\ dim_of s c = (dim_of s t - 1)%Z.
Proof.
  intros t c Ht Hc. destruct (C07_Valid.valid_closed s t t c Hv (pres_self t Ht) Hc) as [A B].
  apply (present_ins s t c Hio Ht) in A. split; [|exact B].
  destruct (Nat.eq_dec c t) as [E|E]; [subst c; lia|lia].
Qed.

Lemma R_supp : forall j c, j < n -> get (R j) c = true -> c < j /\ dim_of s c = (dim_of s j - 1)%Z.
Proof.
  intros j c Hj H. rewrite (R_Bf j Hj c) in H. apply in_of_idx in H. apply Bf_support in H.
  destruct H as [t [Ht [Hf Hc]]]. destruct (V_supp j t Hj Hf) as [A B].
  destruct (bd_below t c ltac:(lia) Hc) as [P Q]. split; [lia|]. rewrite <- B. exact Q.
Qed.

Lemma dd0 : forall c, c < n -> vz (bdmap s (D c)).
Proof.
  intros c Hc i. unfold D. rewrite (bdmap_of_idx s (bd_of s c) i).
  apply is_zero_vec_get. apply (C07_Valid.valid_dd_zero s c c Hv (pres_self c Hc)).
Qed.

Lemma Bf_S_veq : forall f m, veq (Bf s f (S m)) (vxor (Bf s f m) (if f m then D m else [])).
Proof.
  intros f m i. rewrite get_Bf_S, get_vxor. destruct (f m); [reflexivity|]. rewrite get_nil. reflexivity.
Qed.

Lemma dd_Bf : forall f m, m <= n -> vz (bdmap s (Bf s f m)).
Proof.
  intros f. induction m as [|m IH]; intros Hm i.
  - change (Bf s f 0) with (@nil bool). apply get_nil.
  - rewrite (bdmap_veq s _ _ (Bf_S_veq f m) i), (bdmap_xor s _ _ i), get_vxor, (IH ltac:(lia) i).
    destruct (f m); [rewrite (dd0 m ltac:(lia) i); reflexivity|change (bdmap s []) with (@nil bool); rewrite get_nil; reflexivity].
Qed.

Lemma R_cycle : forall j, j < n -> vz (bdmap s (R j)).
Proof. intros j Hj i. rewrite (bdmap_veq s _ _ (R_Bf j Hj) i). apply dd_Bf. lia. Qed.

Lemma bdV : forall j, j < n -> veq (bdmap s (V j)) (R j).
Proof. intros j Hj. apply veq_sym. apply R_eq. exact Hj. Qed.

Section Dim.
Variable k : Z.

Lemma tri : forall m z, m <= n -> (forall c, get z c = true -> c < m /\ dim_of s c = k) ->
  exists J, (forall j, In j J -> j < m /\ dim_of s j = k) /\ NoDup J /\ veq z (xsum V J).
Proof.
  induction m as [|m IH]; intros z Hm Hz.
  - exists []. split; [intros j []|]. split; [constructor|]. intros c. rewrite get_nil.
    destruct (get z c) eqn:E; [|reflexivity]. apply Hz in E. lia.
  - destruct (get z m) eqn:E.
    + destruct (Hz m E) as [_ Hd].
      destruct (IH (vxor z (V m)) ltac:(lia)) as [J [J1 [J2 J3]]].
      { intros c Hc. rewrite get_vxor in Hc. destruct (Nat.eq_dec c m) as [Ec|Ec].
        - subst c. rewrite E, (V_diag m ltac:(lia)) in Hc. discriminate.
        - destruct (get z c) eqn:Ez.
          + destruct (Hz c Ez) as [A B]. split; [lia|exact B].
          + rewrite xorb_false_l in Hc. destruct (V_supp m c ltac:(lia) Hc) as [A B]. split; [lia|]. rewrite B. exact Hd. }
      exists (m :: J). split; [|split].
      * intros j [Ej|Hj]; [subst j; split; [lia|exact Hd]|]. destruct (J1 j Hj). split; [lia|assumption].
      * constructor; [|exact J2]. intros H. apply J1 in H. lia.
      * rewrite xsum_cons. intros c. specialize (J3 c). rewrite get_vxor in *.
        destruct (get z c), (get (V m) c), (get (xsum V J) c); cbn in *; congruence.
    + destruct (IH z ltac:(lia)) as [J [J1 [J2 J3]]].
      { intros c Hc. destruct (Hz c Hc) as [A B]. split; [|exact B].
        destruct (Nat.eq_dec c m) as [Ec|Ec]; [subst c; rewrite E in Hc; discriminate|lia]. }
      exists J. split; [|split; assumption]. intros j Hj. destruct (J1 j Hj). split; [lia|assumption].
Qed.

Definition nzR (i : nat) : bool := match last_one (R i) with Some _ => true | None => false end.

Lemma dlows_R : forall J, NoDup J -> (forall j, In j J -> j < n /\ nzR j = true) -> dlows (map R J).
Proof.
  intros J Hn HJ. apply dlows_fam; [exact Hn| |].
  - intros x Hx E. destruct (HJ x Hx) as [_ H]. unfold nzR in H. rewrite E in H. discriminate.
  - intros x y Hx Hy E. destruct (HJ x Hx) as [Lx H]. destruct (HJ y Hy) as [Ly _]. unfold nzR in H.
    destruct (last_one (R x)) as [m|] eqn:Ex; [|discriminate]. apply (R_inj x y m Lx Ly Ex). symmetry. exact E.
Qed.

Lemma cyc_decomp : forall m z, m <= n -> (forall c, get z c = true -> c < m /\ dim_of s c = k) -> vz (bdmap s z) ->
  exists J, (forall j, In j J -> j < m /\ dim_of s j = k /\ vz (R j)) /\ veq z (xsum V J).
Proof.
  intros m z Hm Hz Hc. destruct (tri m z Hm Hz) as [J [J1 [J2 J3]]]. exists J. split; [|exact J3].
  assert (Z1 : vz (xsum R J)).
  { intros i. rewrite <- (Hc i), (bdmap_veq s _ _ J3 i), (bdmap_xsum s V J i). symmetry. apply xsum_ext.
    intros j Hj. apply bdV. destruct (J1 j Hj). lia. }
  assert (Z2 : vz (xsum R (filter nzR J))).
  { intros i. rewrite <- (xsum_filter R nzR J); [apply Z1|]. intros j _ E. apply last_one_none. unfold nzR in E.
    destruct (last_one (R j)); [discriminate|reflexivity]. }
  assert (E : filter nzR J = []).
  { destruct (filter nzR J) as [|j0 J'] eqn:EJ; [reflexivity|exfalso].
    assert (HD : dlows (map R (j0 :: J'))).
    { rewrite <- EJ. apply dlows_R; [apply NoDup_filter; exact J2|]. intros j Hj. apply filter_In in Hj.
      destruct Hj as [Hj Hp]. destruct (J1 j Hj). split; [lia|exact Hp]. }
    cbn [map] in HD. apply (dlows_not_span _ _ HD).
    apply (span_veq _ (xsum R J')).
    - intros i. specialize (Z2 i). rewrite xsum_cons, get_vxor in Z2. destruct (get (R j0) i), (get (xsum R J') i); cbn in Z2; congruence.
    - apply span_xsum. intros j Hj. apply span_in. apply in_map. exact Hj. }
  intros j Hj. destruct (J1 j Hj) as [A B]. split; [exact A|]. split; [exact B|]. apply last_one_none.
  destruct (nzR j) eqn:Ej.
  - assert (H : In j (filter nzR J)) by (apply filter_In; split; assumption). rewrite E in H. destruct H.
  - unfold nzR in Ej. destruct (last_one (R j)); [discriminate|reflexivity].
Qed.

(* ------------------------------------------------------------------ 3. the count *)
Definition lowis (j i : nat) : bool := match last_one (R i) with Some m => m =? j | None => false end.
Definition paired (e j : nat) : bool := existsb (lowis j) (seq 0 (S e)).
Definition Vpos (b e : nat) : list nat :=
  filter (fun j => (dim_of s j =? k)%Z && negb (nzR j) && negb (paired e j)) (seq 0 (S b)).
Definition Rnz (e : nat) : list nat := filter (fun i => (dim_of s i =? k + 1)%Z && nzR i) (seq 0 (S e)).
Definition G (b e : nat) : list vec := map V (Vpos b e) ++ map R (Rnz e).

Lemma nzR_false : forall j, nzR j = false <-> last_one (R j) = None.
Proof. intros j. unfold nzR. destruct (last_one (R j)); split; intros H; congruence. Qed.

Lemma paired_true : forall e j, paired e j = true <-> exists i, i <= e /\ last_one (R i) = Some j.
Proof.
  intros e j. unfold paired. rewrite existsb_exists. split.
  - intros [i [Hi H]]. apply in_seq in Hi. exists i. split; [lia|]. unfold lowis in H.
    destruct (last_one (R i)) as [m|]; [|discriminate]. apply Nat.eqb_eq in H. subst. reflexivity.
  - intros [i [Hi H]]. exists i. split; [apply in_seq; lia|]. unfold lowis. rewrite H. apply Nat.eqb_refl.
Qed.

Lemma Vpos_in : forall b e j, In j (Vpos b e) <->
  j <= b /\ dim_of s j = k /\ last_one (R j) = None /\ paired e j = false.
Proof.
  intros b e j. unfold Vpos. rewrite filter_In, in_seq, !andb_true_iff, !negb_true_iff, Z.eqb_eq, nzR_false.
  split; [intros [A [[B C] D']]|intros [A [B [C D']]]]; repeat split; try assumption; lia.
Qed.

Lemma Rnz_in : forall e i, In i (Rnz e) <-> i <= e /\ dim_of s i = (k + 1)%Z /\ nzR i = true.
Proof.
  intros e i. unfold Rnz. rewrite filter_In, in_seq, andb_true_iff, Z.eqb_eq.
  split; [intros [A [B C]]|intros [A [B C]]]; repeat split; try assumption; lia.
Qed.

Section BE.
Variables b e : nat.
Hypothesis Hb : b < n.
Hypothesis He : e < n.

Lemma G_dlows : dlows (G b e).
Proof.
  unfold G. apply dlows_app.
  - apply dlows_fam; [apply NoDup_filter, seq_NoDup| |].
    + intros x Hx. apply Vpos_in in Hx. rewrite V_low by lia. discriminate.
    + intros x y Hx Hy. apply Vpos_in in Hx. apply Vpos_in in Hy. rewrite !V_low by lia. congruence.
  - apply dlows_R; [apply NoDup_filter, seq_NoDup|]. intros j Hj. apply Rnz_in in Hj. split; [lia|tauto].
  - intros a r Ha Hr E. apply in_map_iff in Ha. destruct Ha as [j [Ej Hj]]. apply in_map_iff in Hr.
    destruct Hr as [i [Ei Hi]]. subst a r. apply Vpos_in in Hj. apply Rnz_in in Hi. rewrite V_low in E by lia.
    destruct Hj as [_ [_ [_ P]]]. assert (P' : paired e j = true) by (apply paired_true; exists i; split; [lia|congruence]).
    congruence.
Qed.

Lemma cell_in : forall k' c i, i < n -> c <= i -> dim_of s c = k' -> In c (cells_of_dim s k' (present s i)).
Proof.
  intros k' c i Hi Hc Hd. unfold cells_of_dim. apply filter_In. split; [apply (present_ins s i c Hio Hi); exact Hc|].
  apply Z.eqb_eq. exact Hd.
Qed.

Lemma cell_inv : forall k' c i, i < n -> In c (cells_of_dim s k' (present s i)) -> c <= i /\ dim_of s c = k'.
Proof.
  intros k' c i Hi H. unfold cells_of_dim in H. apply filter_In in H. destruct H as [A B].
  apply (present_ins s i c Hio Hi) in A. apply Z.eqb_eq in B. split; assumption.
Qed.

Lemma R_in_bnds : forall i, i <= e -> dim_of s i = (k + 1)%Z -> span (init_bnds s k e) (R i).
Proof.
  intros i Hi Hd. apply (span_veq _ (Bf s (get (V i)) (S i))); [apply veq_sym; apply R_Bf; lia|].
  unfold Bf. apply span_of_idx_flat_map. intros c Hc. apply filter_In in Hc. destruct Hc as [Hc Hg].
  destruct (V_supp i c ltac:(lia) Hg) as [A B]. apply span_in. unfold init_bnds.
  apply (in_map (fun t => of_idx (bd_of s t))). apply cell_in; [exact He|lia|congruence].
Qed.

Lemma D_in_R : forall m i, i < m -> i <= e -> dim_of s i = (k + 1)%Z -> span (map R (Rnz e)) (D i).
Proof.
  induction m as [|m IH]; intros i Hm Hi Hd; [lia|].
  apply (span_veq _ (vxor (R i) (Bf s (get (V i)) i))).
  - intros x. rewrite get_vxor, (R_Bf i ltac:(lia) x), get_Bf_S, (V_diag i ltac:(lia)). unfold D.
    destruct (get (Bf s (get (V i)) i) x), (get (of_idx (bd_of s i)) x); reflexivity.
  - apply span_xor.
    + destruct (nzR i) eqn:E.
      * apply span_in. apply in_map. apply Rnz_in. tauto.
      * apply span_zero. apply nzR_false in E. pose proof (last_one_none _ E) as Z. intros x. rewrite Z, get_nil. reflexivity.
    + unfold Bf. apply span_of_idx_flat_map. intros c Hc. apply filter_In in Hc. destruct Hc as [Hc Hg].
      apply in_seq in Hc. destruct (V_supp i c ltac:(lia) Hg) as [A B]. apply IH; [lia|lia|congruence].
Qed.

Lemma V_in_cycles : forall j, j <= b -> dim_of s j = k -> vz (R j) -> span (cycles s k b) (V j).
Proof.
  intros j Hj Hd Hz. apply (cycles_are_the_cycles s k b (V j) Hv Hb).
  exists (filter (get (V j)) (seq 0 (S j))). split; [|split].
  - intros c Hc. apply filter_In in Hc. destruct Hc as [_ Hg]. destruct (V_supp j c ltac:(lia) Hg) as [A B].
    apply cell_in; [exact Hb|lia|congruence].
  - intros c. rewrite get_of_idx_filter. destruct (Nat.ltb_spec c (S j)) as [L|L].
    + rewrite andb_true_r. reflexivity.
    + rewrite andb_false_r. apply V_above; lia.
  - intros x. change (get (Bf s (get (V j)) (S j)) x = false). rewrite <- (R_Bf j ltac:(lia) x). apply Hz.
Qed.

Lemma Vz_in_G : forall m j, j < m -> j <= b -> dim_of s j = k -> vz (R j) -> span (G b e) (V j).
Proof.
  induction m as [|m IH]; intros j Hm Hj Hd Hz; [lia|].
  destruct (paired e j) eqn:Ep.
  - apply paired_true in Ep. destruct Ep as [i [Hi El]].
    destruct (last_one_some _ _ El) as [L1 L2].
    destruct (R_supp i j ltac:(lia) L1) as [S1 S2].
    assert (HiR : In (R i) (G b e)).
    { unfold G. apply in_or_app. right. apply in_map. apply Rnz_in. split; [exact Hi|]. split; [lia|].
      unfold nzR. rewrite El. reflexivity. }
    destruct (cyc_decomp j (vxor (R i) (V j)) ltac:(lia)) as [J [J1 J2]].
    + intros c Hc. rewrite get_vxor in Hc. destruct (Nat.eq_dec c j) as [Ec|Ec].
      * subst c. rewrite L1, (V_diag j ltac:(lia)) in Hc. discriminate.
      * destruct (get (R i) c) eqn:Er.
        -- destruct (R_supp i c ltac:(lia) Er) as [A B]. split; [|lia].
           destruct (le_lt_dec c j) as [L|L]; [lia|]. rewrite (L2 c L) in Er. discriminate.
        -- rewrite xorb_false_l in Hc. destruct (V_supp j c ltac:(lia) Hc) as [A B]. split; [lia|congruence].
    + intros x. rewrite (bdmap_xor s _ _ x), get_vxor, (R_cycle i ltac:(lia) x), (bdV j ltac:(lia) x), (Hz x). reflexivity.
    + apply (span_veq _ (vxor (R i) (xsum V J))).
      * intros x. specialize (J2 x). rewrite get_vxor in *.
        destruct (get (R i) x), (get (V j) x), (get (xsum V J) x); cbn in *; congruence.
      * apply span_xor; [apply span_in; exact HiR|]. apply span_xsum. intros j' Hj'.
        destruct (J1 j' Hj') as [A [B C]]. apply IH; [lia|lia|exact B|exact C].
  - apply span_in. unfold G. apply in_or_app. left. apply in_map. apply Vpos_in.
    split; [exact Hj|]. split; [exact Hd|]. split; [apply last_one_vz; exact Hz|exact Ep].
Qed.

Lemma cycles_in_G : forall z, span (cycles s k b) z -> span (G b e) z.
Proof.
  intros z Hz. apply (cycles_are_the_cycles s k b z Hv Hb) in Hz. destruct Hz as [cs [C1 [C2 C3]]].
  destruct (cyc_decomp (S b) z ltac:(lia)) as [J [J1 J2]].
  - intros c Hc. rewrite (C2 c) in Hc. apply in_of_idx in Hc. apply C1 in Hc. apply cell_inv in Hc; [|exact Hb].
    split; [lia|tauto].
  - intros x. rewrite (bdmap_veq s _ _ C2 x), (bdmap_of_idx s cs x). apply C3.
  - apply (span_veq _ (xsum V J)); [apply veq_sym; exact J2|]. apply span_xsum. intros j Hj.
    destruct (J1 j Hj) as [A [B C]]. apply (Vz_in_G (S j)); [lia|lia|exact B|exact C].
Qed.

Lemma bnds_in_R : forall w, In w (init_bnds s k e) -> span (map R (Rnz e)) w.
Proof.
  intros w Hw. unfold init_bnds in Hw. apply in_map_iff in Hw. destruct Hw as [t [E Ht]]. subst w.
  apply cell_inv in Ht; [|exact He]. destruct Ht as [A B]. apply (D_in_R (S t)); [lia|exact A|exact B].
Qed.

Lemma span_bnds : forall v, span (init_bnds s k e) v <-> span (map R (Rnz e)) v.
Proof.
  intros v. split; apply span_sub.
  - apply bnds_in_R.
  - intros w Hw. apply in_map_iff in Hw. destruct Hw as [i [E Hi]]. subst w. apply Rnz_in in Hi.
    apply R_in_bnds; tauto.
Qed.

Lemma span_G : forall v, span (cycles s k b ++ init_bnds s k e) v <-> span (G b e) v.
Proof.
  intros v. split; apply span_sub; intros w Hw; apply in_app_or in Hw; destruct Hw as [Hw|Hw].
  - apply cycles_in_G. apply span_in. exact Hw.
  - apply (span_incl (map R (Rnz e))); [intros x Hx; unfold G; apply in_or_app; right; exact Hx|].
    apply bnds_in_R. exact Hw.
  - apply (span_incl (cycles s k b)); [intros x Hx; apply in_or_app; left; exact Hx|].
    apply in_map_iff in Hw. destruct Hw as [j [E Hj]]. subst w. apply Vpos_in in Hj.
    apply V_in_cycles; [tauto|tauto|]. apply last_one_none. tauto.
  - apply (span_incl (init_bnds s k e)); [intros x Hx; apply in_or_app; right; exact Hx|].
    apply span_bnds. apply span_in. exact Hw.
Qed.

(* the persistent Betti number counts the unpaired positive cells *)
Theorem pbetti_count : pbetti s k b e = Z.of_nat (length (Vpos b e)).
Proof.
  unfold pbetti. rewrite (rank_span_invariant _ _ span_G), (rank_span_invariant _ _ span_bnds).
  rewrite (dlows_rank _ G_dlows). rewrite dlows_rank.
  - unfold G. rewrite app_length, !map_length. lia.
  - apply dlows_R; [apply NoDup_filter, seq_NoDup|]. intros j Hj. apply Rnz_in in Hj. split; [lia|tauto].
Qed.
End BE.
End Dim.

(* ------------------------------------------------------------------ 4. from the counts to the multiplicities *)
Definition Ppos (k : Z) (e j : nat) : bool := (dim_of s j =? k)%Z && negb (nzR j) && negb (paired e j).
Definition Ncnt (k : Z) (m e : nat) : nat := length (filter (Ppos k e) (seq 0 m)).

Lemma r_val : forall k b e, b <= e -> e < n ->
  rfun n (rtab s k) (Z.of_nat b) (Z.of_nat e) = Z.of_nat (Ncnt k (S b) e).
Proof.
  intros k b e Hbe He. unfold n. rewrite (insertion_only_ranks s k b e Hv Hio Hbe He).
  rewrite (pbetti_count k b e); [reflexivity|unfold n in *; lia|exact He].
Qed.

Lemma r_pred : forall k b e, b <= e -> e < n ->
  rfun n (rtab s k) (Z.of_nat b - 1) (Z.of_nat e) = Z.of_nat (Ncnt k b e).
Proof.
  intros k b e Hbe He. destruct b as [|b].
  - change (Z.of_nat 0 - 1)%Z with (-1)%Z. rewrite C07_Ident.rfun_before. reflexivity.
  - replace (Z.of_nat (S b) - 1)%Z with (Z.of_nat b) by lia. apply r_val; lia.
Qed.

Lemma Ncnt_S : forall k b e, Z.of_nat (Ncnt k (S b) e) = (Z.of_nat (Ncnt k b e) + (if Ppos k e b then 1 else 0))%Z.
Proof.
  intros k b e. unfold Ncnt. rewrite seq_S, filter_app, app_length. cbn [plus filter].
  destruct (Ppos k e b); cbn [length]; lia.
Qed.

Lemma mult_val : forall k b e, b <= e -> e < n ->
  mult (rfun n (rtab s k)) (Z.of_nat b) (Z.of_nat e)
  = ((if Ppos k e b then 1 else 0) - (if (S e <? n)%nat then (if Ppos k (S e) b then 1 else 0) else 0))%Z.
Proof.
  intros k b e Hbe He. unfold mult. rewrite r_val, r_pred by assumption.
  destruct (Nat.ltb_spec (S e) n) as [L|L].
  - replace (Z.of_nat e + 1)%Z with (Z.of_nat (S e)) by lia. rewrite r_val, r_pred by lia. rewrite !Ncnt_S. lia.
  - rewrite !C07_Ident.rfun_beyond by lia. rewrite Ncnt_S. lia.
Qed.

Lemma xsum_get_true : forall f J x, get (xsum f J) x = true -> exists j, In j J /\ get (f j) x = true.
Proof.
  intros f. induction J as [|j J IH]; intros x H.
  - change (xsum f []) with (@nil bool) in H. rewrite get_nil in H. discriminate.
  - rewrite xsum_cons, get_vxor in H. destruct (get (f j) x) eqn:E.
    + exists j. split; [left; reflexivity|exact E].
    + rewrite xorb_false_l in H. destruct (IH x H) as [j' [A B]]. exists j'. split; [right; exact A|exact B].
Qed.

(* a cell that is the low of a column is positive *)
Lemma low_positive : forall i j, i < n -> last_one (R i) = Some j ->
  nzR j = false /\ dim_of s j = (dim_of s i - 1)%Z /\ j < i.
Proof.
  intros i j Hi El. destruct (last_one_some _ _ El) as [L1 L2]. destruct (R_supp i j Hi L1) as [S1 S2].
  split; [|split; assumption].
  destruct (cyc_decomp (dim_of s i - 1)%Z (S j) (R i) ltac:(lia)) as [J [J1 J2]].
  - intros c Hc. destruct (R_supp i c Hi Hc) as [A B]. split; [|exact B].
    destruct (le_lt_dec c j) as [L|L]; [lia|]. rewrite (L2 c L) in Hc. discriminate.
  - apply R_cycle. exact Hi.
  - rewrite (J2 j) in L1. apply xsum_get_true in L1. destruct L1 as [j' [A B]].
    destruct (J1 j' A) as [P1 [P2 P3]]. destruct (V_supp j' j ltac:(lia) B) as [Q _].
    assert (E : j' = j) by lia. subst j'. apply nzR_false. apply last_one_vz. exact P3.
Qed.

Lemma lowis_true : forall j i, lowis j i = true <-> last_one (R i) = Some j.
Proof.
  intros j i. unfold lowis. destruct (last_one (R i)) as [m|]; split; intros H; try discriminate.
  - apply Nat.eqb_eq in H. subst. reflexivity.
  - inversion H. apply Nat.eqb_refl.
Qed.

Lemma paired_S : forall e j, paired (S e) j = paired e j || lowis j (S e).
Proof.
  intros e j. unfold paired. rewrite (seq_S (S e) 0), existsb_app. cbn [plus existsb]. rewrite orb_false_r. reflexivity.
Qed.

Lemma P_step : forall k b e, S e < n ->
  ((if Ppos k e b then 1 else 0) - (if Ppos k (S e) b then 1 else 0))%Z
  = (if (dim_of s b =? k)%Z && lowis b (S e) then 1 else 0)%Z.
Proof.
  intros k b e He. unfold Ppos. rewrite paired_S. destruct (lowis b (S e)) eqn:El.
  - pose proof El as El'. apply lowis_true in El'. destruct (low_positive (S e) b He El') as [A _]. rewrite A.
    assert (Pf : paired e b = false).
    { destruct (paired e b) eqn:Ep; [|reflexivity]. apply paired_true in Ep. destruct Ep as [i [Hi Ei]].
      pose proof (R_inj i (S e) b ltac:(lia) He Ei El'). lia. }
    rewrite Pf. destruct (dim_of s b =? k)%Z; reflexivity.
  - rewrite orb_false_r, andb_false_r. lia.
Qed.

Lemma mult_inner : forall k b e, b <= e -> S e < n ->
  mult (rfun n (rtab s k)) (Z.of_nat b) (Z.of_nat e) = (if (dim_of s b =? k)%Z && lowis b (S e) then 1 else 0)%Z.
Proof.
  intros k b e Hbe He. rewrite mult_val by lia. destruct (Nat.ltb_spec (S e) n) as [L|L]; [|lia]. apply P_step. exact He.
Qed.

Lemma mult_last : forall k b e, b <= e -> S e = n ->
  mult (rfun n (rtab s k)) (Z.of_nat b) (Z.of_nat e) = (if Ppos k e b then 1 else 0)%Z.
Proof.
  intros k b e Hbe He. rewrite mult_val by lia. destruct (Nat.ltb_spec (S e) n) as [L|L]; [lia|]. lia.
Qed.

(* ------------------------------------------------------------------ 5. lists without repetition *)
Lemma NoDup_app_intro : forall (A : Type) (a b : list A), NoDup a -> NoDup b -> (forall x, In x a -> ~ In x b) -> NoDup (a ++ b).
Proof.
  intros A. induction a as [|x a IH]; intros b Ha Hb Hd; [exact Hb|].
  inversion Ha as [|y l N1 N2]; subst. cbn [app]. constructor.
  - intros H. apply in_app_or in H. destruct H as [H|H]; [apply N1; exact H|apply (Hd x (or_introl eq_refl) H)].
  - apply IH; [exact N2|exact Hb|]. intros y Hy. apply Hd. right. exact Hy.
Qed.

Lemma NoDup_flat_map_key : forall (A B : Type) (f : A -> list B) (key : B -> A) l, NoDup l ->
  (forall x y, In x l -> In y (f x) -> key y = x) -> (forall x, In x l -> NoDup (f x)) -> NoDup (flat_map f l).
Proof.
  intros A B f key. induction l as [|a l IH]; intros Hn Hk Hf; [constructor|].
  inversion Hn as [|y l' N1 N2]; subst. cbn [flat_map]. apply NoDup_app_intro.
  - apply Hf. left. reflexivity.
  - apply IH; [exact N2| |]; intros; [apply Hk; [right|]; assumption|apply Hf; right; assumption].
  - intros y Hy H. apply in_flat_map in H. destruct H as [x [Hx Hy']].
    apply N1. rewrite <- (Hk a y (or_introl eq_refl) Hy), (Hk x y (or_intror Hx) Hy'). exact Hx.
Qed.

Lemma NoDup_map_inj : forall (A B : Type) (f : A -> B) l, (forall x y, f x = f y -> x = y) -> NoDup l -> NoDup (map f l).
Proof.
  intros A B f. induction l as [|a l IH]; intros Hi Hn; [constructor|].
  inversion Hn as [|y l' N1 N2]; subst. cbn [map]. constructor; [|apply IH; assumption].
  intros H. apply in_map_iff in H. destruct H as [x [E Hx]]. apply Hi in E. subst. contradiction.
Qed.

(* pairs_of_lows *)
Definition cmb (T : Type) (F : nat -> option nat -> list T) (a : nat) (l : list (option nat)) : list T :=
  concat (map (fun jd => F (fst jd) (snd jd)) (combine (seq a (length l)) l)).

Lemma cmb_cons : forall T F a x l, cmb T F a (x :: l) = F a x ++ cmb T F (S a) l.
Proof. reflexivity. Qed.

Lemma cmb_in : forall T F l a y, In y (cmb T F a l) <-> exists j o, nth_error l j = Some o /\ In y (F (a + j) o).
Proof.
  intros T F. induction l as [|x l IH]; intros a y.
  - split; [intros []|]. intros [j [o [H _]]]. destruct j; discriminate H.
  - rewrite cmb_cons, in_app_iff, IH. split.
    + intros [H|[j [o [A B]]]].
      * exists 0, x. split; [reflexivity|]. rewrite Nat.add_0_r. exact H.
      * exists (S j), o. split; [exact A|]. replace (a + S j) with (S a + j) by lia. exact B.
    + intros [j [o [A B]]]. destruct j as [|j].
      * left. cbn in A. inversion A; subst. rewrite Nat.add_0_r in B. exact B.
      * right. exists j, o. split; [exact A|]. replace (S a + j) with (a + S j) by lia. exact B.
Qed.

Lemma cmb_nodup : forall T F, (forall j o, NoDup (F j o)) ->
  (forall j j' o o' y, In y (F j o) -> In y (F j' o') -> j = j') -> forall l a, NoDup (cmb T F a l).
Proof.
  intros T F H1 H2. induction l as [|x l IH]; intros a; [constructor|].
  rewrite cmb_cons. apply NoDup_app_intro; [apply H1|apply IH|].
  intros y Hy H. apply cmb_in in H. destruct H as [j [o [_ B]]]. pose proof (H2 _ _ _ _ _ Hy B). lia.
Qed.

Definition F1 (j : nat) (o : option nat) : list (nat * option nat) :=
  match o with Some b => [(b, Some j)] | None => [] end.
Definition F2 (births : list nat) (j : nat) (o : option nat) : list (nat * option nat) :=
  match o with None => if existsb (Nat.eqb j) births then [] else [(j, None)] | Some _ => [] end.

Lemma pol_eq : forall l, pairs_of_lows l = cmb _ F1 0 l ++ cmb _ (F2 (map fst (cmb _ F1 0 l))) 0 l.
Proof. reflexivity. Qed.

Lemma F1_in : forall l b d, In (b, d) (cmb _ F1 0 l) <-> exists j, d = Some j /\ nth_error l j = Some (Some b).
Proof.
  intros l b d. rewrite cmb_in. split.
  - intros [j [o [A B]]]. destruct o as [b'|]; [|destruct B]. destruct B as [B|[]]. inversion B; subst.
    exists j. split; [reflexivity|exact A].
  - intros [j [E A]]. subst d. exists j, (Some b). split; [exact A|]. left. reflexivity.
Qed.

Lemma pol_some : forall l b d, In (b, Some d) (pairs_of_lows l) <-> nth_error l d = Some (Some b).
Proof.
  intros l b d. rewrite pol_eq, in_app_iff, F1_in. split.
  - intros [[j [E A]]|H]; [inversion E; subst; exact A|].
    apply cmb_in in H. destruct H as [j [o [_ B]]]. unfold F2 in B. destruct o; [destruct B|].
    destruct (existsb _ _); [destruct B|]. destruct B as [B|[]]. discriminate B.
  - intros H. left. exists d. split; [reflexivity|exact H].
Qed.

Lemma pol_none : forall l b, In (b, None) (pairs_of_lows l) <->
  nth_error l b = Some None /\ forall d, nth_error l d <> Some (Some b).
Proof.
  intros l b. rewrite pol_eq, in_app_iff, F1_in. split.
  - intros [[j [E _]]|H]; [discriminate E|].
    apply cmb_in in H. destruct H as [j [o [A B]]]. unfold F2 in B. destruct o; [destruct B|].
    destruct (existsb _ _) eqn:Ex; [destruct B|]. destruct B as [B|[]]. inversion B; subst. split; [exact A|].
    intros d Hd. assert (Hin : In b (map fst (cmb _ F1 0 l))).
    { apply in_map_iff. exists (b, Some d). split; [reflexivity|]. apply F1_in. exists d. split; [reflexivity|exact Hd]. }
    assert (Ht : existsb (Nat.eqb (0 + b)) (map fst (cmb _ F1 0 l)) = true).
    { apply existsb_exists. exists b. split; [exact Hin|apply Nat.eqb_refl]. }
    congruence.
  - intros [A B]. right. apply cmb_in. exists b, None. split; [exact A|]. unfold F2. cbn [plus].
    destruct (existsb _ _) eqn:Ex; [|left; reflexivity]. exfalso.
    apply existsb_exists in Ex. destruct Ex as [x [Hx E]]. apply Nat.eqb_eq in E. subst x.
    apply in_map_iff in Hx. destruct Hx as [[b' d'] [E Hx]]. cbn in E. subst b'. apply F1_in in Hx.
    destruct Hx as [j [_ Hj]]. apply (B j Hj).
Qed.

Lemma pol_nodup : forall l, NoDup (pairs_of_lows l).
Proof.
  intros l. rewrite pol_eq. apply NoDup_app_intro.
  - apply cmb_nodup.
    + intros j o. destruct o; cbn; [constructor; [intros []|constructor]|constructor].
    + intros j j' o o' y A B. destruct o; [|destruct A]. destruct o'; [|destruct B].
      destruct A as [A|[]]. destruct B as [B|[]]. subst y. inversion B. reflexivity.
  - apply cmb_nodup.
    + intros j o. unfold F2. destruct o; [constructor|]. destruct (existsb _ _); [constructor|].
      constructor; [intros []|constructor].
    + intros j j' o o' y A B. unfold F2 in A, B. destruct o; [destruct A|]. destruct o'; [destruct B|].
      destruct (existsb (Nat.eqb j) _); [destruct A|]. destruct (existsb (Nat.eqb j') _); [destruct B|].
      destruct A as [A|[]]. destruct B as [B|[]]. subst y. inversion B. reflexivity.
  - intros [b d] Hy H. apply F1_in in Hy. destruct Hy as [j [E _]]. subst d.
    apply cmb_in in H. destruct H as [j' [o [_ B]]]. unfold F2 in B. destruct o; [destruct B|].
    destruct (existsb _ _); [destruct B|]. destruct B as [B|[]]. discriminate B.
Qed.

(* ------------------------------------------------------------------ 6. the two barcodes *)
Lemma fold_max_ge : forall (l : list nop) m,
  (m <= fold_left (fun m o => match o with NIns d _ => Z.max m d | _ => m end) l m)%Z.
Proof.
  induction l as [|o l IH]; intros m; [cbn; lia|]. cbn [fold_left].
  eapply Z.le_trans; [|apply IH]. destruct o; lia.
Qed.

Lemma fold_max_in : forall (l : list nop) m d bd, In (NIns d bd) l ->
  (d <= fold_left (fun m o => match o with NIns d _ => Z.max m d | _ => m end) l m)%Z.
Proof.
  induction l as [|o l IH]; intros m d bd Hin; [destruct Hin|]. destruct Hin as [E|H]; cbn [fold_left].
  - subst o. eapply Z.le_trans; [|apply fold_max_ge]. lia.
  - apply (IH _ d bd H).
Qed.

Lemma dim_bounds : forall b, b < n -> (0 <= dim_of s b <= max_dim s)%Z.
Proof.
  intros b Hb. split; [apply (C07_Valid.valid_dim_nonneg s b b Hv (pres_self b Hb))|].
  destruct (nth_error s b) as [o|] eqn:E; [|apply nth_error_None in E; unfold n in Hb; lia].
  destruct (insertion_only_nth s b o Hio E) as [d [bd Eo]]. subst o.
  destruct (nth_error_dim_bd s b d bd E) as [Ed _]. rewrite Ed. unfold max_dim.
  apply (fold_max_in s _ d bd). apply (nth_error_In s b E).
Qed.

Lemma dims_in : forall k, In k (dims s) <-> (0 <= k <= max_dim s)%Z.
Proof.
  intros k. unfold dims. rewrite in_map_iff. split.
  - intros [i [E Hi]]. apply in_seq in Hi. lia.
  - intros H. exists (Z.to_nat k). split; [lia|]. apply in_seq. lia.
Qed.

Lemma dims_nodup : NoDup (dims s).
Proof. unfold dims. apply NoDup_map_inj; [intros x y; apply Nat2Z.inj|apply seq_NoDup]. Qed.

Definition death (e : nat) : option nat := if S e =? n then None else Some (S e).

Lemma bars_in : forall k x, In x (bars_of_dim s k) <->
  exists b e, b <= e /\ e < n /\ x = (k, b, death e) /\
              Z.to_nat (mult (rfun n (rtab s k)) (Z.of_nat b) (Z.of_nat e)) <> 0.
Proof.
  intros k x. unfold bars_of_dim. cbv zeta. rewrite in_flat_map. split.
  - intros [b [Hb H]]. apply in_flat_map in H. destruct H as [e [He H]]. apply in_seq in Hb. apply in_seq in He.
    exists b, e. pose proof (repeat_spec _ _ _ H) as E. split; [lia|]. split; [unfold n; lia|]. split; [exact E|].
    intros Z. unfold n in Z. rewrite Z in H. destruct H.
  - intros [b [e [A [B [C D']]]]]. unfold n in *. exists b. split; [apply in_seq; lia|]. apply in_flat_map. exists e.
    split; [apply in_seq; lia|]. subst x. unfold death.
    destruct (Z.to_nat _); [congruence|left; reflexivity].
Qed.

Lemma mult_01 : forall k b e, b <= e -> e < n ->
  let m := mult (rfun n (rtab s k)) (Z.of_nat b) (Z.of_nat e) in m = 0%Z \/ m = 1%Z.
Proof.
  intros k b e Hbe He. cbv zeta. destruct (Nat.eq_dec (S e) n) as [E|E].
  - rewrite (mult_last k b e Hbe E). destruct (Ppos k e b); [right|left]; reflexivity.
  - rewrite (mult_inner k b e Hbe ltac:(lia)). destruct (_ && _); [right|left]; reflexivity.
Qed.

Lemma bars_nodup : forall k, NoDup (bars_of_dim s k).
Proof.
  intros k. unfold bars_of_dim. cbv zeta.
  apply (NoDup_flat_map_key _ _ _ (fun x : bar => snd (fst x))); [apply seq_NoDup| |].
  - intros b y Hb Hy. apply in_flat_map in Hy. destruct Hy as [e [_ Hy]]. apply repeat_spec in Hy. subst y. reflexivity.
  - intros b Hb. apply in_seq in Hb.
    apply (NoDup_flat_map_key _ _ _ (fun x : bar => match snd x with None => length s - 1 | Some d => d - 1 end)); [apply seq_NoDup| |].
    + intros e y He Hy. apply in_seq in He. apply repeat_spec in Hy. subst y. cbn [snd].
      destruct (Nat.eqb_spec (S e) (length s)); lia.
    + intros e He. apply in_seq in He.
      destruct (mult_01 k b e ltac:(lia) ltac:(unfold n; lia)) as [E|E]; unfold n in E; rewrite E; cbn;
        [constructor|constructor; [intros []|constructor]].
Qed.

Lemma barcode_nodup : NoDup (barcode s).
Proof.
  unfold barcode. apply (NoDup_flat_map_key _ _ _ (fun x : bar => fst (fst x))); [apply dims_nodup| |].
  - intros k y _ Hy. apply bars_in in Hy. destruct Hy as [b [e [_ [_ [E _]]]]]. subst y. reflexivity.
  - intros k _. apply bars_nodup.
Qed.

Lemma L_nth : forall j, nth_error (map last_one Rm) j = if j <? n then Some (last_one (R j)) else None.
Proof.
  intros j. assert (HL : length Rm = n) by (destruct Hh as [_ [H _]]; exact H).
  destruct (Nat.ltb_spec j n) as [L|L].
  - rewrite (nth_error_nth' _ (last_one [])) by (rewrite map_length; lia). rewrite map_nth. reflexivity.
  - apply nth_error_None. rewrite map_length. lia.
Qed.

Lemma lows_nodup : NoDup (bars_of_lows s (map last_one Rm)).
Proof.
  unfold bars_of_lows. apply NoDup_map_inj; [|apply pol_nodup].
  intros [b d] [b' d'] E. cbn in E. inversion E. reflexivity.
Qed.

Lemma same_bars : forall x, In x (bars_of_lows s (map last_one Rm)) <-> In x (barcode s).
Proof.
  intros [[k b] d]. unfold bars_of_lows, barcode. rewrite in_map_iff, in_flat_map. split.
  - intros [[b' d'] [E H]]. cbn [fst snd] in E. inversion E; subst k b' d'. clear E. destruct d as [j|].
    + apply pol_some in H. rewrite L_nth in H. destruct (Nat.ltb_spec j n) as [Lj|Lj]; [|discriminate].
      inversion H as [El]. destruct (low_positive j b Lj El) as [_ [_ Hbj]].
      exists (dim_of s b). split; [apply dims_in; apply dim_bounds; lia|]. apply bars_in.
      exists b, (j - 1). split; [lia|]. split; [lia|]. split.
      * unfold death. destruct (Nat.eqb_spec (S (j - 1)) n); [lia|]. do 2 f_equal. lia.
      * rewrite (mult_inner (dim_of s b) b (j - 1)) by lia. rewrite Z.eqb_refl.
        replace (S (j - 1)) with j by lia. apply lowis_true in El. rewrite El. cbn. lia.
    + apply pol_none in H. destruct H as [A B]. rewrite L_nth in A. destruct (Nat.ltb_spec b n) as [Lb|Lb]; [|discriminate].
      injection A as El.
      exists (dim_of s b). split; [apply dims_in; apply dim_bounds; lia|]. apply bars_in.
      exists b, (n - 1). split; [lia|]. split; [lia|]. split.
      * unfold death. destruct (Nat.eqb_spec (S (n - 1)) n); [reflexivity|lia].
      * rewrite (mult_last (dim_of s b) b (n - 1)) by lia. unfold Ppos. rewrite Z.eqb_refl.
        apply nzR_false in El. rewrite El.
        assert (Pf : paired (n - 1) b = false).
        { destruct (paired (n - 1) b) eqn:Ep; [|reflexivity]. apply paired_true in Ep. destruct Ep as [i [Hi Ei]].
          exfalso. apply (B i). rewrite L_nth. destruct (Nat.ltb_spec i n); [|lia]. rewrite Ei. reflexivity. }
        rewrite Pf. cbn. lia.
  - intros [k' [Hk H]]. apply bars_in in H. destruct H as [b' [e [Hbe [He [E Hm]]]]]. inversion E; subst k' b' d. clear E.
    exists (b, death e). unfold death in *. destruct (Nat.eqb_spec (S e) n) as [En|En].
    + rewrite (mult_last k b e Hbe En) in Hm. destruct (Ppos k e b) eqn:EP; [|cbn in Hm; lia].
      unfold Ppos in EP. apply andb_prop in EP. destruct EP as [EP P3]. apply andb_prop in EP. destruct EP as [P1 P2].
      apply Z.eqb_eq in P1. apply negb_true_iff in P2. apply negb_true_iff in P3. cbn [fst snd].
      split; [rewrite P1; reflexivity|]. apply pol_none. split.
      * rewrite L_nth. destruct (Nat.ltb_spec b n); [|lia]. apply nzR_false in P2. rewrite P2. reflexivity.
      * intros j Hj. rewrite L_nth in Hj. destruct (Nat.ltb_spec j n) as [Lj|Lj]; [|discriminate]. inversion Hj as [El].
        assert (Pt : paired e b = true) by (apply paired_true; exists j; split; [lia|exact El]). congruence.
    + rewrite (mult_inner k b e Hbe ltac:(lia)) in Hm.
      destruct ((dim_of s b =? k)%Z && lowis b (S e)) eqn:EP; [|cbn in Hm; lia].
      apply andb_prop in EP. destruct EP as [P1 P2]. apply Z.eqb_eq in P1. apply lowis_true in P2. cbn [fst snd].
      split; [rewrite P1; reflexivity|]. apply pol_some. rewrite L_nth. destruct (Nat.ltb_spec (S e) n); [|lia].
      rewrite P2. reflexivity.
Qed.

Theorem elz_pairing_sec : Permutation (bars_of_lows s (map last_one Rm)) (barcode s).
Proof. apply NoDup_Permutation; [apply lows_nodup|apply barcode_nodup|apply same_bars]. Qed.
End ELZ.

(* the Edelsbrunner-Letscher-Zomorodian pairing theorem for the specification *)
Theorem elz_pairing : forall s Vm Rm, valid s = true -> insertion_only s = true -> hred s Vm Rm ->
  Permutation (bars_of_lows s (map last_one Rm)) (barcode s).
Proof. intros s Vm Rm Hv Hio Hh. apply (elz_pairing_sec s Vm Rm Hv Hio Hh). Qed.

Print Assumptions elz_pairing.
