(* C07 - shared definitions for the insertion-only clause: a homogeneous reduced decomposition R = d V of the boundary
   operator of an insertion-only sequence, in the Z_2 vector representation of C07_Model.v. *)
From Coq Require Import ZArith List Bool Arith Lia.
Require Import C07_Model ReduceExec.
Import ListNotations.
Open Scope Z_scope.

(* index of the last one of a vector (its "low"), None for the zero vector *)
Fixpoint last_one_aux (v : vec) (i : nat) (acc : option nat) : option nat :=
  match v with
  | [] => acc
  | true :: v' => last_one_aux v' (S i) (Some i)
  | false :: v' => last_one_aux v' (S i) acc
  end.
Definition last_one (v : vec) : option nat := last_one_aux v O None.

Definition support (v : vec) : list nat := filter (get v) (seq 0 (length v)).
(* boundary of a chain given as a vector over the cells (arrows) of s *)
Definition bdmap (s : list nop) (v : vec) : vec := of_idx (flat_map (bd_of s) (support v)).

Definition veq_model (a b : vec) : Prop := forall i, get a i = get b i.

(* V unit upper triangular and homogeneous in dimension, R = d V, R reduced (the lows of the nonzero columns are distinct) *)
Definition hred (s : list nop) (Vm Rm : list vec) : Prop :=
  length Vm = length s /\ length Rm = length s /\
  (forall j, (j < length s)%nat ->
     get (nth j Vm []) j = true /\
     (forall i, get (nth j Vm []) i = true -> (i <= j)%nat /\ dim_of s i = dim_of s j) /\
     veq_model (nth j Rm []) (bdmap s (nth j Vm []))) /\
  (forall i j m, (i < length s)%nat -> (j < length s)%nat -> i <> j ->
     last_one (nth i Rm []) = Some m -> last_one (nth j Rm []) <> Some m).
