(* C07 - the insertion-only clause, end to end: the barcode of the zigzag specification on an insertion-only sequence is the
   ordinary persistence pairing delivered by the certified reduction of coq/ReduceExec.v. *)
From Coq Require Import ZArith List Bool Sorting.Permutation.
Require Import C07_Model C07_ELZdefs.
Require C07_ELZ C07_Bridge ReduceExec.
Import ListNotations.
Open Scope Z_scope.

Theorem insertion_only_is_ordinary_persistence : forall s l, valid s = true -> insertion_only s = true ->
  ordinary_bars s = Some l -> Permutation l (barcode s).
Proof.
  intros s l Hv Hi H. unfold ordinary_bars in H.
  destruct (ReduceExec.certified_lows 2 (boundary_matrix s)) as [lw|] eqn:E; [|discriminate].
  inversion H; subst l.
  destruct (C07_Bridge.certified_gives_hred s lw Hv Hi E) as [Vm [Rm [Hh Hl]]]. rewrite <- Hl.
  exact (C07_ELZ.elz_pairing s Vm Rm Hv Hi Hh).
Qed.
Print Assumptions insertion_only_is_ordinary_persistence.

(* non-vacuity: the filtration vertex, vertex, edge, vertex, edge, edge, triangle *)
Definition triangle_filtration : list nop :=
  [NIns 0 []; NIns 0 []; NIns 1 [0%nat; 1%nat]; NIns 0 []; NIns 1 [0%nat; 3%nat]; NIns 1 [1%nat; 3%nat]; NIns 2 [2%nat; 4%nat; 5%nat]].
Example triangle_filtration_ok : valid triangle_filtration = true /\ insertion_only triangle_filtration = true /\
  ordinary_bars triangle_filtration = Some [(0, 1%nat, Some 2%nat); (0, 3%nat, Some 4%nat); (1, 5%nat, Some 6%nat); (0, 0%nat, None)].
Proof. vm_compute. repeat split; reflexivity. Qed.
