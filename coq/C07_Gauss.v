From Coq Require Import ZArith List Bool Arith Lia.
Require Import C07_Model.
Import ListNotations.
Local Open Scope nat_scope.

(* ------------------------------------------------------------------ extensional equality, get, vxor, first_one *)
Definition veq (a b : vec) : Prop := forall i, get a i = get b i.

Lemma get_nil : forall i, get [] i = false.
Proof. intros [|i]; reflexivity. Qed.

Lemma get_vxor : forall a b i, get (vxor a b) i = xorb (get a i) (get b i).
Proof.
  induction a as [|x a IH]; intros b i.
  - change (vxor [] b) with b. rewrite get_nil. destruct (get b i); reflexivity.
  - destruct b as [|y b].
    + change (vxor (x :: a) []) with (x :: a). rewrite get_nil. rewrite xorb_false_r. reflexivity.
    + change (vxor (x :: a) (y :: b)) with (xorb x y :: vxor a b).
      destruct i as [|i].
      * reflexivity.
      * change (get (vxor a b) i = xorb (get a i) (get b i)). apply IH.
Qed.

Ltac vsolve :=
  let i := fresh "i" in
  intro i;
  repeat match goal with H : veq _ _ |- _ => generalize (H i); clear H end;
  rewrite ?get_vxor, ?get_nil;
  repeat match goal with |- context [get ?v i] => destruct (get v i) end;
  simpl; intros; try congruence; auto.

Lemma veq_refl : forall a, veq a a.
Proof. intros a i; reflexivity. Qed.
Lemma veq_sym : forall a b, veq a b -> veq b a.
Proof. intros a b H i; symmetry; apply H. Qed.
Lemma veq_trans : forall a b c, veq a b -> veq b c -> veq a c.
Proof. intros a b c H1 H2 i; rewrite H1; apply H2. Qed.

Lemma first_one_some : forall v p, first_one v = Some p ->
  get v p = true /\ forall i, i < p -> get v i = false.
Proof.
  induction v as [|x v IH]; intros p H.
  - discriminate H.
  - simpl in H. destruct x.
    + inversion H; subst p. split; [reflexivity | intros i Hi; lia].
    + destruct (first_one v) as [q|] eqn:Eq; [|discriminate H].
      inversion H; subst p.
      destruct (IH q eq_refl) as [H1 H2]. split.
      * exact H1.
      * intros [|i] Hi; [reflexivity|].
        change (get v i = false). apply H2. lia.
Qed.

Lemma first_one_none : forall v, first_one v = None -> forall i, get v i = false.
Proof.
  induction v as [|x v IH]; intros H i.
  - apply get_nil.
  - simpl in H. destruct x; [discriminate H|].
    destruct (first_one v) as [q|] eqn:Eq; [discriminate H|].
    destruct i as [|i]; [reflexivity|].
    change (get v i = false). apply IH. reflexivity.
Qed.

Lemma first_one_intro : forall v p, get v p = true -> (forall i, i < p -> get v i = false) ->
  first_one v = Some p.
Proof.
  intros v p Hp Hlt.
  destruct (first_one v) as [q|] eqn:E.
  - destruct (first_one_some v q E) as [H1 H2].
    destruct (lt_eq_lt_dec p q) as [[Hpq|Hpq]|Hpq].
    + rewrite (H2 p Hpq) in Hp. discriminate Hp.
    + subst q. reflexivity.
    + rewrite (Hlt q Hpq) in H1. discriminate H1.
  - rewrite (first_one_none v E p) in Hp. discriminate Hp.
Qed.

Lemma first_one_veq : forall a b, veq a b -> first_one a = first_one b.
Proof.
  intros a b H.
  destruct (first_one a) as [p|] eqn:Ea.
  - symmetry. destruct (first_one_some a p Ea) as [H1 H2].
    apply first_one_intro.
    + rewrite <- H. exact H1.
    + intros i Hi. rewrite <- H. apply H2. exact Hi.
  - destruct (first_one b) as [q|] eqn:Eb; [|reflexivity].
    destruct (first_one_some b q Eb) as [H1 _].
    rewrite <- H in H1. rewrite (first_one_none a Ea q) in H1. discriminate H1.
Qed.

(* ------------------------------------------------------------------ linear combinations, span, independence *)
Fixpoint lincomb (cs : list bool) (M : list vec) : vec :=
  match cs, M with c :: cs', v :: M' => if c then vxor v (lincomb cs' M') else lincomb cs' M' | _, _ => [] end.
Definition span (M : list vec) (v : vec) : Prop := exists cs, veq v (lincomb cs M).
Definition independent (M : list vec) : Prop :=
  forall cs, length cs = length M -> veq (lincomb cs M) [] -> forall c, In c cs -> c = false.
Definition evecs (E : ebasis) : list vec := map snd E.

Lemma lincomb_nil_l : forall M, lincomb [] M = [].
Proof. reflexivity. Qed.
Lemma lincomb_nil_r : forall cs, lincomb cs [] = [].
Proof. destruct cs; reflexivity. Qed.
Lemma lincomb_cons : forall c cs v M,
  lincomb (c :: cs) (v :: M) = if c then vxor v (lincomb cs M) else lincomb cs M.
Proof. reflexivity. Qed.

Lemma lincomb_xor : forall M cs ds,
  veq (lincomb (vxor cs ds) M) (vxor (lincomb cs M) (lincomb ds M)).
Proof.
  induction M as [|m M IH]; intros cs ds.
  - rewrite !lincomb_nil_r. vsolve.
  - destruct cs as [|c cs].
    + change (vxor [] ds) with ds. rewrite lincomb_nil_l. vsolve.
    + destruct ds as [|d ds].
      * change (vxor (c :: cs) []) with (c :: cs). rewrite lincomb_nil_l. vsolve.
      * change (vxor (c :: cs) (d :: ds)) with (xorb c d :: vxor cs ds).
        rewrite !lincomb_cons. pose proof (IH cs ds) as H.
        destruct c, d; simpl xorb; cbv iota; vsolve.
Qed.

Lemma span_zero : forall M v, veq v [] -> span M v.
Proof. intros M v H. exists []. rewrite lincomb_nil_l. exact H. Qed.

Lemma span_veq : forall M v w, veq v w -> span M v -> span M w.
Proof. intros M v w H [cs Hc]. exists cs. vsolve. Qed.

Lemma span_xor : forall M v w, span M v -> span M w -> span M (vxor v w).
Proof.
  intros M v w [cs Hc] [ds Hd]. exists (vxor cs ds).
  pose proof (lincomb_xor M cs ds) as H. vsolve.
Qed.

Lemma span_nil_inv : forall v, span [] v -> veq v [].
Proof. intros v [cs Hc]. rewrite lincomb_nil_r in Hc. exact Hc. Qed.

Lemma span_cons_iff : forall w M v, span (w :: M) v <-> span M v \/ span M (vxor v w).
Proof.
  intros w M v. split.
  - intros [cs Hc]. destruct cs as [|c cs].
    + left. apply span_zero. exact Hc.
    + rewrite lincomb_cons in Hc. destruct c.
      * right. exists cs. vsolve.
      * left. exists cs. exact Hc.
  - intros [[cs Hc]|[cs Hc]].
    + exists (false :: cs). rewrite lincomb_cons. exact Hc.
    + exists (true :: cs). rewrite lincomb_cons. vsolve.
Qed.

Lemma span_head : forall w M, span (w :: M) w.
Proof. intros w M. apply span_cons_iff. right. apply span_zero. vsolve. Qed.

Lemma span_tail : forall w M v, span M v -> span (w :: M) v.
Proof. intros w M v H. apply span_cons_iff. left. exact H. Qed.

Lemma span_in : forall M v, In v M -> span M v.
Proof.
  induction M as [|m M IH]; intros v H.
  - contradiction.
  - destruct H as [H|H].
    + subst m. apply span_head.
    + apply span_tail. apply IH. exact H.
Qed.

Lemma span_sub : forall M N, (forall w, In w M -> span N w) -> forall v, span M v -> span N v.
Proof.
  induction M as [|m M IH]; intros N Hsub v Hv.
  - apply span_zero. apply span_nil_inv. exact Hv.
  - assert (HM : forall w, In w M -> span N w) by (intros w Hw; apply Hsub; right; exact Hw).
    apply span_cons_iff in Hv. destruct Hv as [Hv|Hv].
    + apply (IH N HM v Hv).
    + pose proof (IH N HM _ Hv) as H1.
      pose proof (Hsub m (or_introl eq_refl)) as H2.
      apply (span_veq N (vxor (vxor v m) m)); [vsolve|].
      apply span_xor; assumption.
Qed.

Lemma span_incl : forall M N, incl M N -> forall v, span M v -> span N v.
Proof.
  intros M N H. apply span_sub. intros w Hw. apply span_in. apply H. exact Hw.
Qed.

Lemma lincomb_vanish : forall p M, (forall u, In u M -> get u p = false) ->
  forall cs, get (lincomb cs M) p = false.
Proof.
  intros p. induction M as [|m M IH]; intros Hz cs.
  - rewrite lincomb_nil_r. apply get_nil.
  - destruct cs as [|c cs].
    + rewrite lincomb_nil_l. apply get_nil.
    + rewrite lincomb_cons.
      assert (HM : forall u, In u M -> get u p = false) by (intros u Hu; apply Hz; right; exact Hu).
      destruct c.
      * rewrite get_vxor, (Hz m (or_introl eq_refl)), (IH HM cs). reflexivity.
      * apply IH. exact HM.
Qed.

Lemma span_vanish : forall p M, (forall u, In u M -> get u p = false) ->
  forall v, span M v -> get v p = false.
Proof. intros p M Hz v [cs Hc]. rewrite Hc. apply lincomb_vanish. exact Hz. Qed.

(* ------------------------------------------------------------------ 1. the echelon basis spans the same space *)
Lemma reduce_cons : forall e E v, reduce (e :: E) v = reduce E (reduce1 v e).
Proof. reflexivity. Qed.

Lemma reduce_span : forall E a, span (evecs E) (vxor (reduce E a) a).
Proof.
  induction E as [|e E IH]; intros a.
  - apply span_zero. change (reduce [] a) with a. vsolve.
  - rewrite reduce_cons. change (evecs (e :: E)) with (snd e :: evecs E).
    pose proof (span_tail (snd e) _ _ (IH (reduce1 a e))) as H1.
    assert (H2 : span (snd e :: evecs E) (vxor (reduce1 a e) a)).
    { unfold reduce1. destruct (get a (fst e)).
      - apply (span_veq _ (snd e)); [vsolve|]. apply span_head.
      - apply span_zero. vsolve. }
    apply (span_veq _ (vxor (vxor (reduce E (reduce1 a e)) (reduce1 a e)) (vxor (reduce1 a e) a))); [vsolve|].
    apply span_xor; assumption.
Qed.

Lemma insert_span : forall E a M v,
  span (evecs (insert_vec E a) ++ M) v <-> span (evecs E ++ a :: M) v.
Proof.
  intros E a M v. pose proof (reduce_span E a) as Hr.
  unfold insert_vec. destruct (first_one (reduce E a)) as [p|] eqn:Ef.
  - unfold evecs in *. rewrite map_app. rewrite <- app_assoc.
    change (map snd [(p, reduce E a)] ++ M) with (reduce E a :: M).
    assert (Hr1 : span (map snd E ++ a :: M) (vxor (reduce E a) a)).
    { apply (span_incl (map snd E)); [|exact Hr]. intros x Hx. apply in_or_app. left. exact Hx. }
    assert (Hr2 : span (map snd E ++ reduce E a :: M) (vxor (reduce E a) a)).
    { apply (span_incl (map snd E)); [|exact Hr]. intros x Hx. apply in_or_app. left. exact Hx. }
    split; apply span_sub; intros w Hw; apply in_app_or in Hw; destruct Hw as [Hw|[Hw|Hw]].
    + apply span_in. apply in_or_app. left. exact Hw.
    + subst w. apply (span_veq _ (vxor (vxor (reduce E a) a) a)); [vsolve|].
      apply span_xor; [exact Hr1|]. apply span_in. apply in_or_app. right. left. reflexivity.
    + apply span_in. apply in_or_app. right. right. exact Hw.
    + apply span_in. apply in_or_app. left. exact Hw.
    + subst w. apply (span_veq _ (vxor (vxor (reduce E a) a) (reduce E a))); [vsolve|].
      apply span_xor; [exact Hr2|]. apply span_in. apply in_or_app. right. left. reflexivity.
    + apply span_in. apply in_or_app. right. right. exact Hw.
  - pose proof (first_one_none _ Ef) as Hz.
    assert (Ha : span (evecs E) a).
    { apply (span_veq _ (vxor (reduce E a) a)); [|exact Hr].
      intro i. rewrite get_vxor, Hz. apply xorb_false_l. }
    split; apply span_sub; intros w Hw; apply in_app_or in Hw.
    + apply span_in. apply in_or_app. destruct Hw as [Hw|Hw]; [left; exact Hw | right; right; exact Hw].
    + destruct Hw as [Hw|[Hw|Hw]].
      * apply span_in. apply in_or_app. left. exact Hw.
      * subst w. apply (span_incl (evecs E)); [|exact Ha].
        intros x Hx. apply in_or_app. left. exact Hx.
      * apply span_in. apply in_or_app. right. exact Hw.
Qed.

Lemma fold_insert_span : forall M E v,
  span (evecs (fold_left insert_vec M E)) v <-> span (evecs E ++ M) v.
Proof.
  induction M as [|a M IH]; intros E v.
  - change (fold_left insert_vec [] E) with E. rewrite app_nil_r. tauto.
  - change (fold_left insert_vec (a :: M) E) with (fold_left insert_vec M (insert_vec E a)).
    pose proof (IH (insert_vec E a) v) as H1.
    pose proof (insert_span E a M v) as H2. tauto.
Qed.

Theorem echelon_span : forall M v, span M v <-> span (evecs (echelon M)) v.
Proof.
  intros M v. unfold echelon. pose proof (fold_insert_span M [] v) as H.
  change (evecs [] ++ M) with M in H. tauto.
Qed.

(* ------------------------------------------------------------------ 2. echelon form *)
Fixpoint ech (E : ebasis) : Prop :=
  match E with
  | [] => True
  | e :: E' => first_one (snd e) = Some (fst e) /\
               (forall q u, In (q, u) E' -> get u (fst e) = false) /\ ech E'
  end.

Lemma ech_snoc : forall E p w, ech E -> first_one w = Some p ->
  (forall q u, In (q, u) E -> get w q = false) -> ech (E ++ [(p, w)]).
Proof.
  induction E as [|[q0 u0] E IH]; intros p w He Hf Hz.
  - simpl. split; [exact Hf|]. split; [|exact I]. intros q u H. contradiction.
  - destruct He as [Hf0 [Hz0 He]]. simpl fst in *. simpl snd in *.
    change (((q0, u0) :: E) ++ [(p, w)]) with ((q0, u0) :: (E ++ [(p, w)])).
    split; [exact Hf0|]. split.
    + simpl fst. intros q u Hin. apply in_app_or in Hin. destruct Hin as [Hin|[Hin|[]]].
      * apply (Hz0 q u Hin).
      * inversion Hin; subst q u. apply (Hz q0 u0). left. reflexivity.
    + apply IH; [exact He | exact Hf |].
      intros q u Hin. apply (Hz q u). right. exact Hin.
Qed.

Lemma reduce_keep : forall p E, (forall q u, In (q, u) E -> get u p = false) ->
  forall v, get (reduce E v) p = get v p.
Proof.
  intros p. induction E as [|[q u] E IH]; intros Hz v.
  - reflexivity.
  - rewrite reduce_cons.
    assert (HE : forall q' u', In (q', u') E -> get u' p = false)
      by (intros q' u' H; apply (Hz q' u'); right; exact H).
    rewrite (IH HE). unfold reduce1. simpl fst. simpl snd.
    destruct (get v q); [|reflexivity].
    rewrite get_vxor, (Hz q u (or_introl eq_refl)). apply xorb_false_r.
Qed.

Lemma reduce_pivots : forall E, ech E -> forall v q u, In (q, u) E -> get (reduce E v) q = false.
Proof.
  induction E as [|[p w] E IH]; intros He v q u Hin.
  - contradiction.
  - destruct He as [Hf [Hz He]]. simpl fst in *. simpl snd in *.
    rewrite reduce_cons. destruct Hin as [Heq|Hin].
    + inversion Heq; subst q u. rewrite (reduce_keep p E Hz).
      unfold reduce1. simpl fst. simpl snd.
      destruct (get v p) eqn:Ev; [|exact Ev].
      destruct (first_one_some w p Hf) as [Hw _].
      rewrite get_vxor, Ev, Hw. reflexivity.
    + apply (IH He _ q u Hin).
Qed.

Lemma insert_ech : forall E v, ech E -> ech (insert_vec E v).
Proof.
  intros E v He. unfold insert_vec. destruct (first_one (reduce E v)) as [p|] eqn:Ef.
  - apply ech_snoc; [exact He | exact Ef |].
    intros q u Hin. apply (reduce_pivots E He v q u Hin).
  - exact He.
Qed.

Lemma fold_insert_ech : forall M E, ech E -> ech (fold_left insert_vec M E).
Proof.
  induction M as [|a M IH]; intros E He.
  - exact He.
  - change (fold_left insert_vec (a :: M) E) with (fold_left insert_vec M (insert_vec E a)).
    apply IH. apply insert_ech. exact He.
Qed.

Lemma echelon_ech : forall M, ech (echelon M).
Proof. intros M. unfold echelon. apply fold_insert_ech. exact I. Qed.

Lemma ech_in : forall E, ech E -> forall q u, In (q, u) E -> first_one u = Some q.
Proof.
  induction E as [|[p w] E IH]; intros He q u Hin.
  - contradiction.
  - destruct He as [Hf [Hz He]]. destruct Hin as [Heq|Hin].
    + inversion Heq; subst q u. exact Hf.
    + apply (IH He q u Hin).
Qed.

Lemma ech_nth_later : forall E, ech E -> forall i j p w q w', i < j ->
  nth_error E i = Some (p, w) -> nth_error E j = Some (q, w') -> get w' p = false.
Proof.
  induction E as [|[p0 w0] E IH]; intros He i j p w q w' Hij Hi Hj.
  - destruct i; discriminate Hi.
  - destruct He as [Hf [Hz He]]. simpl fst in *. simpl snd in *.
    destruct j as [|j]; [lia|]. simpl in Hj.
    destruct i as [|i].
    + simpl in Hi. inversion Hi; subst p0 w0.
      apply nth_error_In in Hj. apply (Hz q w' Hj).
    + simpl in Hi. apply (IH He i j p w q w'); [lia | exact Hi | exact Hj].
Qed.

Lemma ech_pivots_nodup : forall E, ech E -> NoDup (map fst E).
Proof.
  induction E as [|[p w] E IH]; intros He.
  - constructor.
  - destruct He as [Hf [Hz He]]. simpl fst in *. simpl snd in *.
    change (map fst ((p, w) :: E)) with (p :: map fst E). constructor.
    + intro Hin. apply in_map_iff in Hin. destruct Hin as [[q u] [Hq Hin]].
      simpl in Hq. subst q.
      pose proof (Hz p u Hin) as H0.
      destruct (first_one_some u p (ech_in E He p u Hin)) as [H1 _].
      rewrite H0 in H1. discriminate H1.
    + apply IH. exact He.
Qed.

Theorem echelon_form : forall M, let E := echelon M in
  (forall j p w, nth_error E j = Some (p, w) -> first_one w = Some p) /\
  (forall i j p w q w', i < j -> nth_error E i = Some (p, w) -> nth_error E j = Some (q, w') ->
     get w' p = false).
Proof.
  intros M E. pose proof (echelon_ech M) as He. fold E in He. split.
  - intros j p w Hj. apply nth_error_In in Hj. apply (ech_in E He p w Hj).
  - apply ech_nth_later. exact He.
Qed.

Corollary echelon_pivots_nodup : forall M, NoDup (map fst (echelon M)).
Proof. intros M. apply ech_pivots_nodup. apply echelon_ech. Qed.

(* ------------------------------------------------------------------ 3. independence of the echelon basis *)
Lemma ech_independent : forall E, ech E -> independent (evecs E).
Proof.
  induction E as [|[p w] E IH]; intros He cs Hlen Hz c Hin.
  - destruct cs; [contradiction | discriminate Hlen].
  - destruct cs as [|c0 cs]; [contradiction|].
    destruct He as [Hf [Hv He]]. simpl fst in *. simpl snd in *.
    change (evecs ((p, w) :: E)) with (w :: evecs E) in *.
    assert (Hp : get (lincomb cs (evecs E)) p = false).
    { apply lincomb_vanish. intros u Hu. unfold evecs in Hu. apply in_map_iff in Hu.
      destruct Hu as [[q u'] [Hs Hu]]. simpl in Hs. subst u'. apply (Hv q u Hu). }
    assert (Hc0 : c0 = false).
    { destruct c0; [|reflexivity]. pose proof (Hz p) as Hzp.
      rewrite lincomb_cons, get_vxor, Hp, get_nil in Hzp.
      destruct (first_one_some w p Hf) as [Hw _]. rewrite Hw in Hzp. discriminate Hzp. }
    subst c0. destruct Hin as [Heq|Hin]; [symmetry; exact Heq|].
    rewrite lincomb_cons in Hz. simpl in Hlen.
    apply (IH He cs); [lia | exact Hz | exact Hin].
Qed.

Theorem echelon_independent : forall M, independent (evecs (echelon M)).
Proof. intros M. apply ech_independent. apply echelon_ech. Qed.

(* ------------------------------------------------------------------ 4. rank bounds *)
Lemma insert_length : forall E a, length E <= length (insert_vec E a) <= S (length E).
Proof.
  intros E a. unfold insert_vec. destruct (first_one (reduce E a)).
  - rewrite app_length. simpl. lia.
  - lia.
Qed.

Lemma fold_insert_length : forall M E,
  length E <= length (fold_left insert_vec M E) <= length E + length M.
Proof.
  induction M as [|a M IH]; intros E.
  - simpl. lia.
  - change (fold_left insert_vec (a :: M) E) with (fold_left insert_vec M (insert_vec E a)).
    pose proof (IH (insert_vec E a)) as H1. pose proof (insert_length E a) as H2.
    simpl length. lia.
Qed.

Theorem rank_le_length : forall M, (rank M <= Z.of_nat (length M))%Z.
Proof.
  intros M. unfold rank, echelon. pose proof (fold_insert_length M []) as H.
  simpl in H. lia.
Qed.

Theorem rank_nonneg : forall M, (0 <= rank M)%Z.
Proof. intros M. unfold rank. lia. Qed.

(* ------------------------------------------------------------------ 5. the dimension is well defined *)
(* the first one of a non-zero vector of the span of an echelon basis is one of its pivots *)
Lemma pivot_of_span : forall E, ech E -> forall v q,
  span (evecs E) v -> first_one v = Some q -> In q (map fst E).
Proof.
  induction E as [|[p w] E IH]; intros He v q Hs Hf.
  - apply span_nil_inv in Hs. rewrite (first_one_veq _ _ Hs) in Hf. discriminate Hf.
  - destruct He as [Hw [Hz He]]. simpl fst in *. simpl snd in *.
    change (evecs ((p, w) :: E)) with (w :: evecs E) in Hs.
    change (map fst ((p, w) :: E)) with (p :: map fst E).
    apply span_cons_iff in Hs. destruct Hs as [Hs|Hs].
    + right. apply (IH He v q Hs Hf).
    + destruct (first_one_some w p Hw) as [Hwp Hwlt].
      assert (Hvx : forall i, get v i = xorb (get (vxor v w) i) (get w i)).
      { intro i. rewrite get_vxor. destruct (get v i), (get w i); reflexivity. }
      destruct (first_one (vxor v w)) as [r|] eqn:Er.
      * pose proof (IH He _ r Hs Er) as Hr.
        assert (Hup : get (vxor v w) p = false).
        { apply (span_vanish p (evecs E)); [|exact Hs].
          intros u Hu. unfold evecs in Hu. apply in_map_iff in Hu.
          destruct Hu as [[q' u'] [Hq' Hu]]. simpl in Hq'. subst u'. apply (Hz q' u Hu). }
        destruct (first_one_some _ r Er) as [Hur Hult].
        destruct (lt_eq_lt_dec r p) as [[Hrp|Hrp]|Hrp].
        -- assert (Hv : first_one v = Some r).
           { apply first_one_intro.
             - rewrite Hvx, Hur, (Hwlt r Hrp). reflexivity.
             - intros i Hi. rewrite Hvx, (Hult i Hi), (Hwlt i); [reflexivity | lia]. }
           rewrite Hv in Hf. inversion Hf; subst q. right. exact Hr.
        -- subst r. rewrite Hup in Hur. discriminate Hur.
        -- assert (Hv : first_one v = Some p).
           { apply first_one_intro.
             - rewrite Hvx, Hup, Hwp. reflexivity.
             - intros i Hi. rewrite Hvx, (Hwlt i Hi), (Hult i); [reflexivity | lia]. }
           rewrite Hv in Hf. inversion Hf; subst q. left. reflexivity.
      * pose proof (first_one_none _ Er) as H0.
        assert (Hvw : veq v w).
        { intro i. rewrite Hvx, H0. apply xorb_false_l. }
        rewrite (first_one_veq _ _ Hvw), Hw in Hf. inversion Hf; subst q. left. reflexivity.
Qed.

Lemma rank_span_mono : forall M1 M2, (forall v, span M1 v -> span M2 v) -> (rank M1 <= rank M2)%Z.
Proof.
  intros M1 M2 H. unfold rank. apply inj_le.
  rewrite <- (map_length fst (echelon M1)), <- (map_length fst (echelon M2)).
  apply NoDup_incl_length; [apply echelon_pivots_nodup|].
  intros p Hp. apply in_map_iff in Hp. destruct Hp as [[p' w] [Heq Hin]]. simpl in Heq. subst p'.
  apply (pivot_of_span (echelon M2) (echelon_ech M2) w p).
  - apply (proj1 (echelon_span M2 w)). apply H. apply (proj2 (echelon_span M1 w)). apply span_in.
    unfold evecs. apply in_map_iff. exists (p, w). split; [reflexivity | exact Hin].
  - apply (ech_in (echelon M1) (echelon_ech M1) p w Hin).
Qed.

Theorem rank_span_invariant : forall M1 M2, (forall v, span M1 v <-> span M2 v) -> rank M1 = rank M2.
Proof.
  intros M1 M2 H. apply Z.le_antisymm; apply rank_span_mono; intros v Hv; apply H; exact Hv.
Qed.

Lemma rank_snoc : forall L v, ~ span L v -> rank (L ++ [v]) = (rank L + 1)%Z.
Proof.
  intros L v Hn. unfold rank, echelon. rewrite fold_left_app.
  change (fold_left insert_vec [v] (fold_left insert_vec L [])) with (insert_vec (echelon L) v).
  fold (echelon L). unfold insert_vec.
  destruct (first_one (reduce (echelon L) v)) as [p|] eqn:Ef.
  - rewrite app_length. simpl length. lia.
  - exfalso. apply Hn. apply (proj2 (echelon_span L v)).
    pose proof (first_one_none _ Ef) as Hz.
    apply (span_veq _ (vxor (reduce (echelon L) v) v)); [|apply reduce_span].
    intro i. rewrite get_vxor, Hz. apply xorb_false_l.
Qed.

Lemma lincomb_pad : forall M cs, exists cs', length cs' = length M /\ lincomb cs' M = lincomb cs M.
Proof.
  induction M as [|m M IH]; intros cs.
  - exists []. split; [reflexivity|]. rewrite !lincomb_nil_r. reflexivity.
  - destruct cs as [|c cs].
    + destruct (IH []) as [cs' [Hl He]]. exists (false :: cs'). split.
      * simpl. rewrite Hl. reflexivity.
      * rewrite lincomb_cons. rewrite He. reflexivity.
    + destruct (IH cs) as [cs' [Hl He]]. exists (c :: cs'). split.
      * simpl. rewrite Hl. reflexivity.
      * rewrite !lincomb_cons. rewrite He. reflexivity.
Qed.

Lemma independent_cons_inv : forall v L, independent (v :: L) -> independent L /\ ~ span L v.
Proof.
  intros v L H. split.
  - intros cs Hlen Hz c Hin. apply (H (false :: cs)).
    + simpl. rewrite Hlen. reflexivity.
    + rewrite lincomb_cons. exact Hz.
    + right. exact Hin.
  - intros [cs Hv]. destruct (lincomb_pad L cs) as [cs' [Hl He]].
    assert (Habs : true = false).
    { apply (H (true :: cs')).
      - simpl. rewrite Hl. reflexivity.
      - rewrite lincomb_cons, He. vsolve.
      - left. reflexivity. }
    discriminate Habs.
Qed.

Theorem rank_independent : forall M, independent M -> rank M = Z.of_nat (length M).
Proof.
  induction M as [|v L IH]; intros H.
  - reflexivity.
  - apply independent_cons_inv in H. destruct H as [HL Hn].
    rewrite (rank_span_invariant (v :: L) (L ++ [v])).
    + rewrite (rank_snoc L v Hn), (IH HL). simpl length. lia.
    + intros x. split; apply span_incl; intros y Hy.
      * apply in_or_app. destruct Hy as [Hy|Hy]; [right; left; exact Hy | left; exact Hy].
      * apply in_app_or in Hy. destruct Hy as [Hy|[Hy|[]]]; [right; exact Hy | left; exact Hy].
Qed.

Theorem span_independent_le : forall M L, (forall v, In v L -> span M v) -> independent L ->
  (Z.of_nat (length L) <= rank M)%Z.
Proof.
  intros M L Hsub Hind. rewrite <- (rank_independent L Hind).
  apply rank_span_mono. apply span_sub. exact Hsub.
Qed.

(* ------------------------------------------------------------------ 6. restriction to a coordinate hyperplane *)
Lemma partition_spec : forall (f : vec -> bool) M l1 l2, partition f M = (l1, l2) ->
  (forall x, In x l1 -> f x = true) /\ (forall x, In x l2 -> f x = false) /\
  (forall x, In x M <-> In x l1 \/ In x l2).
Proof.
  intros f. induction M as [|a M IH]; intros l1 l2 H.
  - simpl in H. inversion H; subst l1 l2. split; [|split].
    + intros x Hx. contradiction.
    + intros x Hx. contradiction.
    + intros x. simpl. tauto.
  - simpl in H. destruct (partition f M) as [g d] eqn:Ep.
    destruct (IH g d eq_refl) as [H1 [H2 H3]].
    destruct (f a) eqn:Ea; inversion H; subst l1 l2; (split; [|split]).
    + intros x [Hx|Hx]; [subst x; exact Ea | apply H1; exact Hx].
    + exact H2.
    + intros x. pose proof (H3 x) as Hx. simpl. tauto.
    + exact H1.
    + intros x [Hx|Hx]; [subst x; exact Ea | apply H2; exact Hx].
    + intros x. pose proof (H3 x) as Hx. simpl. tauto.
Qed.

Lemma span_app_inv : forall A B v, span (A ++ B) v -> exists a, span A a /\ span B (vxor v a).
Proof.
  induction A as [|a A IH]; intros B v H.
  - exists []. split; [apply span_zero; apply veq_refl|].
    apply (span_veq _ v); [vsolve | exact H].
  - change ((a :: A) ++ B) with (a :: (A ++ B)) in H. apply span_cons_iff in H.
    destruct H as [H|H].
    + destruct (IH B v H) as [a0 [H1 H2]]. exists a0. split; [apply span_tail; exact H1 | exact H2].
    + destruct (IH B _ H) as [a0 [H1 H2]]. exists (vxor a0 a). split.
      * apply span_xor; [apply span_tail; exact H1 | apply span_head].
      * apply (span_veq _ (vxor (vxor v a) a0)); [vsolve | exact H2].
Qed.

Lemma span_pairs : forall c p, get p c = true -> forall hs, (forall h, In h hs -> get h c = true) ->
  forall h, span hs h -> span (map (vxor p) hs) (if get h c then vxor h p else h).
Proof.
  intros c p Hp. induction hs as [|x hs IH]; intros Hall h Hs.
  - apply span_nil_inv in Hs. rewrite (Hs c), get_nil. apply span_zero. exact Hs.
  - assert (Hhs : forall h, In h hs -> get h c = true) by (intros y Hy; apply Hall; right; exact Hy).
    pose proof (Hall x (or_introl eq_refl)) as Hx.
    change (map (vxor p) (x :: hs)) with (vxor p x :: map (vxor p) hs).
    apply span_cons_iff in Hs. destruct Hs as [Hs|Hs].
    + apply span_tail. apply (IH Hhs h Hs).
    + pose proof (IH Hhs _ Hs) as H1. rewrite get_vxor, Hx in H1.
      pose proof (span_head (vxor p x) (map (vxor p) hs)) as H2.
      pose proof (span_tail (vxor p x) _ _ H1) as H3.
      pose proof (span_xor _ _ _ H3 H2) as H4.
      destruct (get h c); simpl in H4; (eapply span_veq; [|exact H4]); vsolve.
Qed.

Theorem restrict_span : forall c M v, span (restrict c M) v <-> (span M v /\ get v c = false).
Proof.
  intros c M v. unfold restrict.
  destruct (partition (fun v => get v c) M) as [hs rest] eqn:Ep.
  destruct (partition_spec _ M hs rest Ep) as [H1 [H2 H3]].
  destruct hs as [|p hs].
  - split.
    + intros Hs. split.
      * apply (span_incl rest); [|exact Hs]. intros x Hx. apply H3. right. exact Hx.
      * apply (span_vanish c rest); [exact H2 | exact Hs].
    + intros [Hs _]. apply (span_incl M); [|exact Hs].
      intros x Hx. apply H3 in Hx. destruct Hx as [[]|Hx]. exact Hx.
  - pose proof (H1 p (or_introl eq_refl)) as Hp.
    assert (Hhs : forall h, In h hs -> get h c = true) by (intros h Hh; apply H1; right; exact Hh).
    split.
    + intros Hs. split.
      * apply (span_sub (map (vxor p) hs ++ rest)); [|exact Hs].
        intros w Hw. apply in_app_or in Hw. destruct Hw as [Hw|Hw].
        -- apply in_map_iff in Hw. destruct Hw as [h [Hw Hh]]. subst w.
           apply span_xor; apply span_in; apply H3; left; [left; reflexivity | right; exact Hh].
        -- apply span_in. apply H3. right. exact Hw.
      * apply (span_vanish c (map (vxor p) hs ++ rest)); [|exact Hs].
        intros w Hw. apply in_app_or in Hw. destruct Hw as [Hw|Hw].
        -- apply in_map_iff in Hw. destruct Hw as [h [Hw Hh]]. subst w.
           rewrite get_vxor, Hp, (Hhs h Hh). reflexivity.
        -- apply H2. exact Hw.
    + intros [Hs Hc].
      assert (Hs' : span ((p :: hs) ++ rest) v).
      { apply (span_incl M); [|exact Hs]. intros x Hx. apply in_or_app. apply H3. exact Hx. }
      destruct (span_app_inv _ _ _ Hs') as [a [Ha Hr]].
      pose proof (span_vanish c rest H2 _ Hr) as Hac. rewrite get_vxor, Hc in Hac.
      assert (Hac' : get a c = false) by (destruct (get a c); [discriminate Hac | reflexivity]).
      assert (Ha' : span (map (vxor p) hs) a).
      { apply span_cons_iff in Ha. destruct Ha as [Ha|Ha].
        - pose proof (span_pairs c p Hp hs Hhs a Ha) as H. rewrite Hac' in H. exact H.
        - pose proof (span_pairs c p Hp hs Hhs _ Ha) as H.
          rewrite get_vxor, Hac', Hp in H. simpl in H.
          apply (span_veq _ (vxor (vxor a p) p)); [vsolve | exact H]. }
      apply (span_veq _ (vxor a (vxor v a))); [vsolve|].
      apply span_xor.
      * apply (span_incl (map (vxor p) hs)); [|exact Ha']. intros x Hx. apply in_or_app. left. exact Hx.
      * apply (span_incl rest); [|exact Hr]. intros x Hx. apply in_or_app. right. exact Hx.
Qed.

Print Assumptions echelon_span.
Print Assumptions echelon_form.
Print Assumptions echelon_independent.
Print Assumptions span_independent_le.
Print Assumptions rank_span_invariant.
Print Assumptions rank_independent.
Print Assumptions restrict_span.
