(* C07 - zigzag persistence.  Identity arrows (NId) of the specification model C07_Model.v change no rank r_k(b,e), hence
   no bar of the specified barcode is born or dies at an identity arrow.  Stdlib only; every theorem is closed under the global context. *)
From Coq Require Import ZArith List Bool Arith Lia.
Require Import C07_Model.
Require Import C07_Gauss.
Import ListNotations.
Open Scope Z_scope.

(* ------------------------------------------------------------------ 1. reading the table *)
Lemma nth_map_seq : forall (f : nat -> list Z) n i, (i < n)%nat -> nth i (map f (seq 0 n)) [] = f i.
Proof.
  intros f n i H.
  rewrite (nth_indep _ [] (f O)) by (rewrite map_length, seq_length; exact H).
  rewrite map_nth. rewrite seq_nth by exact H. reflexivity.
Qed.

Lemma rfun_row : forall s k b e, (b <= e)%nat -> (e < length s)%nat ->
  rfun (length s) (rtab s k) (Z.of_nat b) (Z.of_nat e) = nth (e - b) (rrow s k b) 0.
Proof.
  intros s k b e Hbe He. unfold rfun.
  replace ((0 <=? Z.of_nat b) && (Z.of_nat b <=? Z.of_nat e) && (Z.of_nat e <? Z.of_nat (length s))) with true.
  - replace (Z.to_nat (Z.of_nat e - Z.of_nat b)) with (e - b)%nat by lia.
    rewrite Nat2Z.id. unfold rtab. rewrite nth_map_seq by lia. reflexivity.
  - symmetry. rewrite !andb_true_iff. repeat split; [apply Z.leb_le | apply Z.leb_le | apply Z.ltb_lt]; lia.
Qed.

Lemma rfun_beyond : forall n T b e, (Z.of_nat n <= e) -> rfun n T b e = 0.
Proof.
  intros n T b e H. unfold rfun.
  replace (e <? Z.of_nat n) with false by (symmetry; apply Z.ltb_ge; exact H).
  rewrite andb_false_r. reflexivity.
Qed.

Lemma rfun_before : forall n T e, rfun n T (-1) e = 0.
Proof. intros. unfold rfun. reflexivity. Qed.

Lemma nth_error_lt : forall (s : list nop) j o, nth_error s j = Some o -> (j < length s)%nat.
Proof. intros s j o H. apply nth_error_Some. rewrite H. discriminate. Qed.

Lemma nth_error_skipn_nop : forall m (s : list nop) j, nth_error (skipn m s) j = nth_error s (m + j).
Proof.
  induction m as [|m IH]; intros s j.
  - reflexivity.
  - destruct s as [|a s].
    + simpl. destruct j; reflexivity.
    + simpl. apply IH.
Qed.

Lemma skipn_nth_error_cons : forall (s : list nop) j o, nth_error s j = Some o -> skipn j s = o :: skipn (S j) s.
Proof.
  induction s as [|a s IH]; intros j o H.
  - destruct j; discriminate H.
  - destruct j as [|j].
    + simpl in H. inversion H. reflexivity.
    + simpl in H. apply IH in H. exact H.
Qed.

(* ------------------------------------------------------------------ 2. an identity arrow inside the sweep *)
Lemma sweep_nid : forall s k j R rest, nth_error rest j = Some NId ->
  nth (S j) (rel_rank (length s) R :: sweep s k R rest) 0 = nth j (rel_rank (length s) R :: sweep s k R rest) 0.
Proof.
  intros s k. induction j as [|j IH]; intros R rest H.
  - destruct rest as [|o rest]; [discriminate H|]. simpl in H. inversion H. subst o. reflexivity.
  - destruct rest as [|o rest]; [discriminate H|]. simpl in H.
    change (nth (S j) (rel_rank (length s) (step_rel s k R o) :: sweep s k (step_rel s k R o) rest) 0
            = nth j (rel_rank (length s) (step_rel s k R o) :: sweep s k (step_rel s k R o) rest) 0).
    apply IH. exact H.
Qed.

(* an identity arrow at position e+1 changes no rank: r(b, e+1) = r(b, e) *)
Lemma identity_step_rank : forall s k b e, (b <= e)%nat -> nth_error s (S e) = Some NId ->
  rfun (length s) (rtab s k) (Z.of_nat b) (Z.of_nat (S e)) = rfun (length s) (rtab s k) (Z.of_nat b) (Z.of_nat e).
Proof.
  intros s k b e Hbe H. pose proof (nth_error_lt _ _ _ H) as Hlt.
  rewrite !rfun_row by lia.
  replace (S e - b)%nat with (S (e - b)) by lia.
  unfold rrow. apply sweep_nid.
  rewrite nth_error_skipn_nop. replace (S b + (e - b))%nat with (S e) by lia. exact H.
Qed.

(* ------------------------------------------------------------------ 3. an identity arrow at the start of the interval *)
Lemma present_aux_nid : forall f i cur t, nth_error t f = Some NId ->
  present_aux i cur t (S f) = present_aux i cur t f.
Proof.
  induction f as [|f IH]; intros i cur t H.
  - destruct t as [|o t]; [discriminate H|]. simpl in H. inversion H. subst o.
    simpl. destruct t; reflexivity.
  - destruct t as [|o t]; [discriminate H|]. simpl in H.
    destruct o; simpl; apply IH; exact H.
Qed.

Lemma present_nid : forall s b, nth_error s (S b) = Some NId -> present s (S b) = present s b.
Proof. intros s b H. unfold present. apply present_aux_nid. exact H. Qed.

Lemma init_rel_nid : forall s k b, nth_error s (S b) = Some NId -> init_rel s k (S b) = init_rel s k b.
Proof. intros s k b H. unfold init_rel. rewrite (present_nid s b H). reflexivity. Qed.

Lemma rrow_nid : forall s k b, nth_error s (S b) = Some NId ->
  rrow s k b = rel_rank (length s) (init_rel s k b) :: rrow s k (S b).
Proof.
  intros s k b H. unfold rrow. rewrite (init_rel_nid s k b H).
  rewrite (skipn_nth_error_cons s (S b) NId H). reflexivity.
Qed.

(* an identity arrow at position b (b >= 1): r(b, e) = r(b-1, e) for all e >= b *)
Lemma identity_start_rank : forall s k b e, (1 <= b)%nat -> (b <= e)%nat -> nth_error s b = Some NId ->
  rfun (length s) (rtab s k) (Z.of_nat b) (Z.of_nat e) = rfun (length s) (rtab s k) (Z.of_nat b - 1) (Z.of_nat e).
Proof.
  intros s k b e Hb Hbe H. destruct b as [|b]; [lia|].
  replace (Z.of_nat (S b) - 1) with (Z.of_nat b) by lia.
  destruct (le_lt_dec (length s) e) as [Hge|Hlt].
  - rewrite !rfun_beyond by lia. reflexivity.
  - rewrite !rfun_row by lia. rewrite (rrow_nid s k b H).
    replace (e - b)%nat with (S (e - S b)) by lia. reflexivity.
Qed.

(* ------------------------------------------------------------------ 4. an identity arrow at position 0: K_0 is empty *)
(* 4a. rank is unchanged when every vector gets the same prefix of zeros (or is zero on both sides) *)
Definition zerov (v : vec) : Prop := forall i, get v i = false.
Definition pad (n : nat) (v : vec) : vec := repeat false n ++ v.
Definition padE (n : nat) (E : ebasis) : ebasis := map (fun e => ((n + fst e)%nat, pad n (snd e))) E.
Definition sh (n : nat) (a b : vec) : Prop := b = pad n a \/ (zerov a /\ zerov b).

Lemma get_pad : forall n v p, get (pad n v) (n + p) = get v p.
Proof. induction n as [|n IH]; intros v p; [reflexivity|]. simpl. apply IH. Qed.

Lemma vxor_pad : forall n v w, vxor (pad n v) (pad n w) = pad n (vxor v w).
Proof. induction n as [|n IH]; intros v w; [reflexivity|]. unfold pad. simpl. f_equal. apply IH. Qed.

Lemma first_one_pad : forall n v,
  first_one (pad n v) = match first_one v with Some p => Some (n + p)%nat | None => None end.
Proof.
  induction n as [|n IH]; intros v.
  - unfold pad. simpl. destruct (first_one v); reflexivity.
  - unfold pad. simpl. fold (pad n v). rewrite IH. destruct (first_one v); reflexivity.
Qed.

Lemma reduce_pad : forall n E v, reduce (padE n E) (pad n v) = pad n (reduce E v).
Proof.
  intros n. induction E as [|[p w] E IH]; intros v.
  - reflexivity.
  - change (padE n ((p, w) :: E)) with (((n + p)%nat, pad n w) :: padE n E).
    rewrite !reduce_cons. unfold reduce1. cbn [fst snd].
    rewrite get_pad. destruct (get v p).
    + rewrite vxor_pad. apply IH.
    + apply IH.
Qed.

Lemma reduce_zerov : forall E z, zerov z -> reduce E z = z.
Proof.
  induction E as [|e E IH]; intros z Hz; [reflexivity|].
  rewrite reduce_cons. unfold reduce1. rewrite Hz. apply IH. exact Hz.
Qed.

Lemma first_one_zerov : forall z, zerov z -> first_one z = None.
Proof.
  intros z Hz. destruct (first_one z) as [p|] eqn:E; [|reflexivity].
  apply first_one_some in E. destruct E as [E _]. rewrite Hz in E. discriminate E.
Qed.

Lemma insert_zerov : forall E z, zerov z -> insert_vec E z = E.
Proof. intros E z Hz. unfold insert_vec. rewrite (reduce_zerov E z Hz). rewrite (first_one_zerov z Hz). reflexivity. Qed.

Lemma insert_sh : forall n E a b, sh n a b -> insert_vec (padE n E) b = padE n (insert_vec E a).
Proof.
  intros n E a b [->|[Ha Hb]].
  - unfold insert_vec. rewrite reduce_pad. rewrite first_one_pad.
    destruct (first_one (reduce E a)) as [p|]; [|reflexivity].
    unfold padE. rewrite map_app. reflexivity.
  - rewrite (insert_zerov _ b Hb). rewrite (insert_zerov _ a Ha). reflexivity.
Qed.

Lemma fold_insert_sh : forall n M M', Forall2 (sh n) M M' ->
  forall E, fold_left insert_vec M' (padE n E) = padE n (fold_left insert_vec M E).
Proof.
  intros n M M' H. induction H as [|a b M M' Hab _ IH]; intros E.
  - reflexivity.
  - simpl. rewrite (insert_sh n E a b Hab). apply IH.
Qed.

Lemma rank_sh : forall n M M', Forall2 (sh n) M M' -> rank M' = rank M.
Proof.
  intros n M M' H. unfold rank, echelon. change (@nil (nat * vec)) with (padE n []) at 1.
  rewrite (fold_insert_sh n M M' H). unfold padE. rewrite map_length. reflexivity.
Qed.

Lemma rank_zerov : forall M, (forall v, In v M -> zerov v) -> rank M = 0.
Proof.
  intros M H. unfold rank, echelon.
  assert (E : fold_left insert_vec M [] = []).
  { induction M as [|v M IH]; [reflexivity|]. simpl.
    rewrite (insert_zerov [] v) by (apply H; left; reflexivity).
    apply IH. intros w Hw. apply H. right. exact Hw. }
  rewrite E. reflexivity.
Qed.

(* 4b. vectors whose x-part is zero *)
Definition xz (n : nat) (v : vec) : Prop := forall i, (i < n)%nat -> get v i = false.

Lemma get_firstn : forall n v i, get (firstn n v) i = if (i <? n)%nat then get v i else false.
Proof.
  induction n as [|n IH]; intros v i.
  - simpl. apply get_nil.
  - destruct v as [|x v].
    + simpl firstn. rewrite get_nil. destruct (i <? S n)%nat; reflexivity.
    + destruct i as [|i]; [reflexivity|]. simpl firstn.
      change (get (firstn n v) i = if (S i <? S n)%nat then get v i else false).
      rewrite IH. reflexivity.
Qed.

Lemma xz_xpart : forall n v, xz n v -> zerov (xpart n v).
Proof.
  intros n v H i. unfold xpart. rewrite get_firstn.
  destruct (i <? n)%nat eqn:E; [|reflexivity]. apply H. apply Nat.ltb_lt. exact E.
Qed.

Lemma zerov_cons_false : forall v, zerov v -> zerov (false :: v).
Proof. intros v H [|i]; [reflexivity|]. apply (H i). Qed.

Lemma xz_split : forall n m v, xz n v ->
  sh n (firstn m (skipn n v)) (firstn (n + m) v).
Proof.
  induction n as [|n IH]; intros m v H.
  - left. reflexivity.
  - destruct v as [|x v].
    + right. rewrite skipn_nil, !firstn_nil. split; intro i; apply get_nil.
    + assert (Hx : x = false) by (apply (H O); lia). subst x.
      assert (Hv : xz n v) by (intros i Hi; apply (H (S i)); lia).
      destruct (IH m v Hv) as [E|[Ha Hb]].
      * left. simpl. rewrite E. reflexivity.
      * right. split; [exact Ha|]. simpl. apply zerov_cons_false. exact Hb.
Qed.

Lemma sh_parts : forall n R, (forall v, In v R -> xz n v) ->
  Forall2 (sh n) (map (ypart n) R) (map (firstn (n + n)) R).
Proof.
  intros n. induction R as [|v R IH]; intros H; [constructor|].
  cbn [map]. constructor.
  - unfold ypart. apply xz_split. apply H. left. reflexivity.
  - apply IH. intros w Hw. apply H. right. exact Hw.
Qed.

Lemma rel_rank_xz : forall n R, (forall v, In v R -> xz n v) -> rel_rank n R = 0.
Proof.
  intros n R H. unfold rel_rank.
  assert (E1 : rank (map (xpart n) R) = 0).
  { apply rank_zerov. intros w Hw. apply in_map_iff in Hw. destruct Hw as [v [<- Hv]].
    apply xz_xpart. apply H. exact Hv. }
  assert (E2 : rank (map (firstn (2 * n)) R) = rank (map (ypart n) R)).
  { apply (rank_sh n). replace (2 * n)%nat with (n + n)%nat by lia. apply sh_parts. exact H. }
  rewrite E1, E2. lia.
Qed.

(* 4c. the sweep keeps the x-parts zero *)
Lemma get_unit_vec_ne : forall j i, i <> j -> get (unit_vec j) i = false.
Proof.
  induction j as [|j IH]; intros i H.
  - destruct i as [|i]; [congruence|]. simpl. apply get_nil.
  - destruct i as [|i]; [reflexivity|]. simpl. apply IH. congruence.
Qed.

Lemma xz_of_idx : forall n l, (forall j, In j l -> (n <= j)%nat) -> xz n (of_idx l).
Proof.
  intros n. induction l as [|j l IH]; intros H i Hi.
  - apply get_nil.
  - simpl. rewrite get_vxor. rewrite get_unit_vec_ne.
    + rewrite IH; [reflexivity| |exact Hi]. intros j' Hj'. apply H. right. exact Hj'.
    + assert (n <= j)%nat by (apply H; left; reflexivity). lia.
Qed.

Lemma xz_restrict : forall n c R, (forall v, In v R -> xz n v) -> forall v, In v (restrict c R) -> xz n v.
Proof.
  intros n c R H v Hv. unfold restrict in Hv.
  destruct (partition (fun v => get v c) R) as [l1 l2] eqn:E.
  pose proof (elements_in_partition _ _ E) as P.
  destruct l1 as [|p hs].
  - apply H. apply P. right. exact Hv.
  - apply in_app_or in Hv. destruct Hv as [Hv|Hv].
    + apply in_map_iff in Hv. destruct Hv as [h [<- Hh]]. intros i Hi. rewrite get_vxor.
      rewrite (H p) by (try exact Hi; apply P; left; left; reflexivity).
      rewrite (H h) by (try exact Hi; apply P; left; right; exact Hh). reflexivity.
    + apply H. apply P. right. exact Hv.
Qed.

Lemma xz_step_rel : forall s k R o, (forall v, In v R -> xz (length s) v) ->
  forall v, In v (step_rel s k R o) -> xz (length s) v.
Proof.
  intros s k R o H v Hv. destruct o as [d bd|u|]; simpl in Hv.
  - destruct (d =? k + 1); [|apply H; exact Hv].
    apply in_app_or in Hv. destruct Hv as [Hv|[<-|[]]]; [apply H; exact Hv|].
    apply xz_of_idx. intros j Hj. unfold shift in Hj. apply in_map_iff in Hj. destruct Hj as [u [<- _]]. lia.
  - destruct (dim_of s u =? k); [|apply H; exact Hv].
    apply (xz_restrict (length s) (length s + u)%nat R H). exact Hv.
  - apply H. exact Hv.
Qed.

Lemma sweep_xz : forall s k rest R, (forall v, In v R -> xz (length s) v) ->
  forall j, nth j (rel_rank (length s) R :: sweep s k R rest) 0 = 0.
Proof.
  intros s k. induction rest as [|o rest IH]; intros R H j.
  - destruct j as [|j]; [apply rel_rank_xz; exact H|]. simpl. destruct j; reflexivity.
  - destruct j as [|j]; [apply rel_rank_xz; exact H|].
    change (nth j (rel_rank (length s) (step_rel s k R o) :: sweep s k (step_rel s k R o) rest) 0 = 0).
    apply IH. apply xz_step_rel. exact H.
Qed.

Lemma fold_restrict_nil : forall L, fold_left (fun M c => restrict c M) L ([] : list vec) = [].
Proof. induction L as [|c L IH]; [reflexivity|]. simpl. exact IH. Qed.

Lemma init_rel_first_nid : forall s k, nth_error s O = Some NId -> init_rel s k O = [].
Proof.
  intros s k H. assert (P : present s O = []).
  { destruct s as [|o s]; [discriminate H|]. simpl in H. inversion H. subst o.
    unfold present. simpl. destruct s; reflexivity. }
  unfold init_rel. rewrite P. unfold cells_of_dim. simpl filter. simpl map.
  rewrite fold_restrict_nil. reflexivity.
Qed.

(* for b = 0 with an identity arrow at position 0: K_0 is empty, r(0, e) = 0 *)
Lemma identity_first_rank : forall s k e, nth_error s O = Some NId -> rfun (length s) (rtab s k) 0 (Z.of_nat e) = 0.
Proof.
  intros s k e H. destruct (le_lt_dec (length s) e) as [Hge|Hlt].
  - apply rfun_beyond. lia.
  - change 0 with (Z.of_nat O) at 1. rewrite rfun_row by lia.
    unfold rrow. rewrite (init_rel_first_nid s k H). apply sweep_xz. intros v [].
Qed.

(* ------------------------------------------------------------------ 5. multiplicities *)
Theorem no_death_at_identity : forall s k b e, (b <= e)%nat -> nth_error s (S e) = Some NId ->
  mult (rfun (length s) (rtab s k)) (Z.of_nat b) (Z.of_nat e) = 0.
Proof.
  intros s k b e Hbe H. unfold mult.
  replace (Z.of_nat e + 1) with (Z.of_nat (S e)) by lia.
  rewrite (identity_step_rank s k b e Hbe H).
  destruct b as [|b].
  - change (Z.of_nat O - 1) with (-1). rewrite !rfun_before. lia.
  - replace (Z.of_nat (S b) - 1) with (Z.of_nat b) by lia.
    rewrite (identity_step_rank s k b e) by (try exact H; lia). lia.
Qed.

Theorem no_birth_at_identity : forall s k b e, (b <= e)%nat -> nth_error s b = Some NId ->
  mult (rfun (length s) (rtab s k)) (Z.of_nat b) (Z.of_nat e) = 0.
Proof.
  intros s k b e Hbe H. unfold mult.
  replace (Z.of_nat e + 1) with (Z.of_nat (S e)) by lia.
  destruct b as [|b].
  - change (Z.of_nat O) with 0. rewrite !(identity_first_rank s k _ H).
    change (0 - 1) with (-1). rewrite !rfun_before. lia.
  - rewrite (identity_start_rank s k (S b) e) by (try exact H; lia).
    rewrite (identity_start_rank s k (S b) (S e)) by (try exact H; lia). lia.
Qed.

(* ------------------------------------------------------------------ 6. the bars of the specified barcode *)
Theorem bars_avoid_identity_arrows : forall s k x, In x (bars_of_dim s k) ->
  nth_error s (snd (fst x)) <> Some NId /\ (forall d, snd x = Some d -> nth_error s d <> Some NId).
Proof.
  intros s k x Hx. unfold bars_of_dim in Hx.
  apply in_flat_map in Hx. destruct Hx as [b [Hb Hx]].
  apply in_flat_map in Hx. destruct Hx as [e [He Hx]].
  apply in_seq in He.
  assert (Hm : 0 < mult (rfun (length s) (rtab s k)) (Z.of_nat b) (Z.of_nat e)).
  { destruct (Z.to_nat (mult (rfun (length s) (rtab s k)) (Z.of_nat b) (Z.of_nat e))) eqn:E; [destruct Hx|]. lia. }
  apply repeat_spec in Hx. subst x. cbn [fst snd]. split.
  - intro H. rewrite (no_birth_at_identity s k b e) in Hm by (try exact H; lia). lia.
  - intros d Hd H. destruct (S e =? length s)%nat; [discriminate Hd|]. inversion Hd. subst d.
    rewrite (no_death_at_identity s k b e) in Hm by (try exact H; lia). lia.
Qed.

Print Assumptions identity_step_rank.
Print Assumptions identity_start_rank.
Print Assumptions identity_first_rank.
Print Assumptions no_death_at_identity.
Print Assumptions no_birth_at_identity.
Print Assumptions bars_avoid_identity_arrows.
