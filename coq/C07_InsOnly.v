(* C07 - insertion-only sequences: the numbers r_k(b, e) of the specification are the persistent Betti numbers of the
   filtration, rank (H_k(K_b) -> H_k(K_e)) = dim (Z_k(K_b) + B_k(K_e)) - dim B_k(K_e). *)
From Coq Require Import ZArith List Bool Arith Lia.
Require Import C07_Model C07_Gauss C07_Proofs C07_Betti.
Require C07_Valid C07_Ident.
Import ListNotations.
Open Scope Z_scope.

(* a spanning list of the k-cycles of K_b (x-parts of the cycle part of the start relation) *)
Definition cycles (s : list nop) (k : Z) (b : nat) : list vec :=
  let n := length s in
  map (xpart n) (fold_left (fun M c => restrict c M) (shift (2 * n) (seq 0 n)) (init_gens s k b)).
(* the persistent Betti number of ordinary persistence: rank of H_k(K_b) -> H_k(K_e) = dim Z_k(K_b) - dim (Z_k(K_b) /\ B_k(K_e))
   = dim (Z_k(K_b) + B_k(K_e)) - dim B_k(K_e) *)
Definition pbetti (s : list nop) (k : Z) (b e : nat) : Z :=
  rank (cycles s k b ++ init_bnds s k e) - rank (init_bnds s k e).

Local Open Scope nat_scope.

(* ------------------------------------------------------------------ 1. unrolling the sweep *)
Lemma sweep_unroll : forall s k rest R j, j <= length rest ->
  nth j (rel_rank (length s) R :: sweep s k R rest) 0%Z
  = rel_rank (length s) (fold_left (step_rel s k) (firstn j rest) R).
Proof.
  intros s k. induction rest as [|o rest IH]; intros R j Hj.
  - cbn [length] in Hj. assert (E : j = 0) by lia. subst j. reflexivity.
  - destruct j as [|j]; [reflexivity|]. cbn [sweep firstn fold_left nth]. apply IH. cbn [length] in Hj. lia.
Qed.

Lemma nth_error_firstn_lt : forall (A : Type) m (l : list A) j, j < m -> nth_error (firstn m l) j = nth_error l j.
Proof.
  intros A. induction m as [|m IH]; intros l j H; [lia|].
  destruct l as [|a l]; [reflexivity|]. destruct j as [|j]; [reflexivity|]. cbn [firstn nth_error]. apply IH. lia.
Qed.

(* ------------------------------------------------------------------ 2. insertion-only sequences *)
Lemma insertion_only_nth : forall s t o, insertion_only s = true -> nth_error s t = Some o -> exists d bd, o = NIns d bd.
Proof.
  intros s t o H E. unfold insertion_only in H. rewrite forallb_forall in H. apply nth_error_In in E. specialize (H o E).
  destruct o as [d bd|u|]; try discriminate. exists d, bd. reflexivity.
Qed.

Lemma nth_error_dim_bd : forall s t d bd, nth_error s t = Some (NIns d bd) -> dim_of s t = d /\ bd_of s t = bd.
Proof.
  intros s t d bd H. unfold dim_of, bd_of. rewrite (nth_error_nth s t NId H). split; reflexivity.
Qed.

(* every step of the sweep either appends the shifted boundary of the inserted (k+1)-cell or does nothing *)
Lemma fold_step_ins : forall s k, insertion_only s = true -> forall l a R,
  (forall j, j < length l -> nth_error l j = nth_error s (a + j)) ->
  fold_left (step_rel s k) l R
  = R ++ map (fun t => of_idx (shift (length s) (bd_of s t))) (filter (fun t => (dim_of s t =? k + 1)%Z) (seq a (length l))).
Proof.
  intros s k Hio. induction l as [|o l IH]; intros a R Hn.
  - cbn. rewrite app_nil_r. reflexivity.
  - assert (E : nth_error s a = Some o).
    { specialize (Hn 0). cbn [length nth_error] in Hn. rewrite Nat.add_0_r in Hn. symmetry. apply Hn. lia. }
    destruct (insertion_only_nth s a o Hio E) as [d [bd Eo]]. subst o.
    destruct (nth_error_dim_bd _ _ _ _ E) as [Ed Eb].
    cbn [fold_left length seq filter]. rewrite Ed. cbn [step_rel].
    rewrite (IH (S a)).
    + destruct (d =? k + 1)%Z.
      * cbn [map]. rewrite Eb, <- app_assoc. reflexivity.
      * reflexivity.
    + intros j Hj. specialize (Hn (S j)). cbn [length nth_error] in Hn. rewrite Hn by lia. f_equal. lia.
Qed.

Lemma present_aux_ins : forall fuel j cur t, insertion_only t = true -> fuel <= length t ->
  forall c, In c (present_aux j cur t fuel) <-> In c cur \/ (j <= c < j + fuel).
Proof.
  induction fuel as [|f IH]; intros j cur t Hio Hf c.
  - rewrite C07_Valid.present_aux_0. split; [tauto|]. intros [H|H]; [assumption|lia].
  - destruct t as [|o r]; [cbn [length] in Hf; lia|].
    unfold insertion_only in Hio. cbn [forallb] in Hio. apply andb_prop in Hio. destruct Hio as [Ho Hr].
    destruct o as [d bd|u|]; try discriminate. cbn [present_aux].
    rewrite (IH (S j) (j :: cur) r Hr); [|cbn [length] in Hf; lia]. cbn [In]. split.
    + intros [[H|H]|H]; [right; lia|left; assumption|right; lia].
    + intros [H|H]; [left; right; assumption|].
      destruct (Nat.eq_dec j c) as [E|E]; [left; left; assumption|right; lia].
Qed.

Lemma present_ins : forall s i c, insertion_only s = true -> i < length s -> (In c (present s i) <-> c <= i).
Proof.
  intros s i c Hio Hi. unfold present. rewrite (present_aux_ins (S i) 0 [] s Hio) by lia. cbn [In]. split.
  - intros [[]|H]; lia.
  - intros H. right. lia.
Qed.

(* ------------------------------------------------------------------ 3. the three ranks after the sweep *)
Section Main.
Variables (s : list nop) (k : Z) (b e : nat).
Hypothesis Hv : valid s = true.
Hypothesis Hio : insertion_only s = true.
Hypothesis Hbe : b <= e.
Hypothesis He : e < length s.
Let n := length s.
Let d (c : nat) : vec := of_idx (bd_of s c).
Let ext (c : nat) : vec := of_idx (shift n (bd_of s c)).
Let cyc := fold_left (fun M c => restrict c M) (shift (2 * n) (seq 0 n)) (init_gens s k b).
Let Cb := cells_of_dim s (k + 1) (present s b).
Let Ce := cells_of_dim s (k + 1) (present s e).
Let T := filter (fun t => (dim_of s t =? k + 1)%Z) (seq (S b) (e - b)).

Lemma Hlt : forall i c, In c (present s i) -> c < n.
Proof. intros i c Hc. apply (C07_Valid.present_le s i c Hc). Qed.
Lemma Hcl : forall i t c, In t (present s i) -> In c (bd_of s t) -> In c (present s i) /\ dim_of s c = (dim_of s t - 1)%Z.
Proof. intros i t c Ht Hc. apply (C07_Valid.valid_closed s i t c Hv Ht Hc). Qed.
Lemma bd_lt : forall i t r, In t (present s i) -> In r (bd_of s t) -> r < n.
Proof. intros i t r Ht Hr. apply (K_bd_lt s i (Hlt i) (Hcl i) t r Ht Hr). Qed.

Lemma Cb_in : forall t, In t Cb <-> t <= b /\ dim_of s t = (k + 1)%Z.
Proof. intros t. unfold Cb. rewrite Ck1_in, (present_ins s b t Hio) by lia. tauto. Qed.
Lemma Ce_in : forall t, In t Ce <-> t <= e /\ dim_of s t = (k + 1)%Z.
Proof. intros t. unfold Ce. rewrite Ck1_in, (present_ins s e t Hio) by lia. tauto. Qed.
Lemma T_in : forall t, In t T <-> b < t <= e /\ dim_of s t = (k + 1)%Z.
Proof. intros t. unfold T. rewrite filter_In, in_seq, Z.eqb_eq. split; intros [H1 H2]; (split; [lia|assumption]). Qed.
Lemma Ce_split : forall t, In t Ce <-> In t Cb \/ In t T.
Proof.
  intros t. rewrite Ce_in, Cb_in, T_in. split.
  - intros [H1 H2]. destruct (le_lt_dec t b); [left|right]; (split; [lia|assumption]).
  - intros [[H1 H2]|[H1 H2]]; (split; [lia|assumption]).
Qed.

Lemma d_van : forall t, t <= e -> forall j, n <= j -> get (d t) j = false.
Proof.
  intros t Ht j Hj. apply get_of_idx_notin. intros a Ha.
  assert (a < n) by (apply (bd_lt e t a); [apply (present_ins s e t Hio He); assumption|assumption]). lia.
Qed.

Lemma get_ext : forall t j, get (ext t) j = if j <? n then false else get (d t) (j - n).
Proof.
  intros t j. unfold ext, d. destruct (Nat.ltb_spec j n) as [H|H].
  - apply get_of_idx_shift_low. assumption.
  - remember (j - n) as u eqn:Eu. replace j with (n + u) by lia. apply get_of_idx_shift.
Qed.

Lemma cyc_sym' : forall v j, span cyc v -> j < n -> get v j = get v (n + j).
Proof. exact (cyc_sym s k b (Hlt b) (Hcl b)). Qed.
Lemma cyc_vanish' : forall v j, span cyc v -> 2 * n <= j -> get v j = false.
Proof. exact (cyc_vanish s k b (Hlt b) (Hcl b)). Qed.

(* B_k(K_b) inside Z_k(K_b): the boundary of a (k+1)-cell of K_b is the x-part of a cycle pair *)
Lemma zt : forall t, In t Cb -> exists z, span cyc z /\ forall j, j < n -> get z j = get (d t) j.
Proof.
  intros t Ht. pose proof Ht as Ht'. apply Cb_in in Ht'. destruct Ht' as [Htb Htd].
  assert (Hp : In t (present s b)) by (apply (present_ins s b t Hio); [lia|assumption]).
  assert (Hbd : forall c, In c (bd_of s t) -> c < length s) by (intros c Hc; apply (bd_lt b t c Hp Hc)).
  exists (of_idx (flat_map (fun c => c :: (length s + c) :: shift (2 * length s) (bd_of s c)) (bd_of s t))). split.
  - apply (cyc_spec s k b). split.
    + apply span_of_idx_flat_map. intros c Hc. apply span_in.
      apply (in_map (fun c => of_idx (c :: (length s + c) :: shift (2 * length s) (bd_of s c)))).
      apply (Ck1_bd s k b (Hcl b) t c Ht Hc).
    + intros u Hu. rewrite (z_high s (bd_of s t) Hbd u). apply is_zero_vec_get.
      apply (C07_Valid.valid_dd_zero s b t Hv Hp).
  - intros j Hj. apply (z_low s (bd_of s t) Hbd j Hj).
Qed.

Lemma d_in_Zx : forall t, In t Cb -> span (map (xpart n) cyc) (d t).
Proof.
  intros t Ht. destruct (zt t Ht) as [z [Hz Hl]]. apply Cb_in in Ht. destruct Ht as [Htb _].
  apply (span_veq _ (xpart n z)); [|apply span_map; [apply linear_xpart|exact Hz]].
  intros j. rewrite get_xpart. destruct (Nat.ltb_spec j n) as [H|H]; [apply Hl; assumption|].
  symmetry. apply d_van; [lia|assumption].
Qed.

Let R' := cyc ++ map d Cb ++ map ext T.

Lemma rank_x_R : rank (map (xpart n) R') = rank cyc.
Proof.
  unfold R'. rewrite map_app, rank_app_absorb; [apply (rank_x_cyc s k b (Hlt b) (Hcl b))|].
  intros w Hw. rewrite map_app in Hw. apply in_app_or in Hw.
  destruct Hw as [Hw|Hw]; apply in_map_iff in Hw; destruct Hw as [x [E Hx]]; subst w;
    apply in_map_iff in Hx; destruct Hx as [t [E Ht]]; subst x.
  - apply (span_veq _ (d t)); [|apply d_in_Zx; assumption]. apply Cb_in in Ht. destruct Ht as [Htb _].
    intros j. rewrite get_xpart. destruct (Nat.ltb_spec j n) as [H|H]; [reflexivity|]. apply d_van; [lia|assumption].
  - apply span_zero. intros j. rewrite get_xpart, get_nil, get_ext. destruct (j <? n); reflexivity.
Qed.

Lemma y_cyc_span : forall v, span (map (ypart n) cyc) v <-> span (map (xpart n) cyc) v.
Proof.
  intros v. split; apply span_sub; intros w Hw; apply in_map_iff in Hw; destruct Hw as [c [E Hc]]; subst w.
  - apply (span_veq _ (xpart n c)); [|apply span_in, in_map; assumption].
    intros j. rewrite get_xpart, get_ypart. destruct (Nat.ltb_spec j n) as [H|H]; [|reflexivity].
    apply cyc_sym'; [apply span_in; assumption|assumption].
  - apply (span_veq _ (ypart n c)); [|apply span_in, in_map; assumption].
    intros j. rewrite get_xpart, get_ypart. destruct (Nat.ltb_spec j n) as [H|H]; [|reflexivity].
    symmetry. apply cyc_sym'; [apply span_in; assumption|assumption].
Qed.

Lemma y_ext : forall t, t <= e -> veq (ypart n (ext t)) (d t).
Proof.
  intros t Ht j. rewrite get_ypart, get_ext. destruct (Nat.ltb_spec j n) as [H|H].
  - destruct (Nat.ltb_spec (n + j) n) as [H'|H']; [lia|]. replace (n + j - n) with j by lia. reflexivity.
  - symmetry. apply d_van; assumption.
Qed.

Lemma rank_y_R : rank (map (ypart n) R') = rank (map (xpart n) cyc ++ map d Ce).
Proof.
  apply rank_span_invariant. intros v. unfold R'. rewrite !map_app. split; apply span_sub; intros w Hw; apply in_app_or in Hw.
  - destruct Hw as [Hw|Hw].
    + apply (span_incl (map (xpart n) cyc)); [intros x Hx; apply in_or_app; left; assumption|].
      apply y_cyc_span. apply span_in. assumption.
    + apply in_app_or in Hw. destruct Hw as [Hw|Hw]; apply in_map_iff in Hw; destruct Hw as [x [E Hx]]; subst w;
        apply in_map_iff in Hx; destruct Hx as [t [E Ht]]; subst x.
      * apply span_zero. apply Cb_in in Ht. destruct Ht as [Htb _]. intros j. rewrite get_ypart, get_nil.
        destruct (j <? n); [|reflexivity]. apply d_van; lia.
      * apply (span_veq _ (d t)); [apply veq_sym; apply y_ext; apply T_in in Ht; lia|].
        apply span_in. apply in_or_app. right. apply in_map. apply Ce_split. right. assumption.
  - destruct Hw as [Hw|Hw].
    + apply (span_incl (map (ypart n) cyc)); [intros x Hx; apply in_or_app; left; assumption|].
      apply y_cyc_span. apply span_in. assumption.
    + apply in_map_iff in Hw. destruct Hw as [t [E Ht]]. subst w. apply Ce_split in Ht. destruct Ht as [Ht|Ht].
      * apply (span_incl (map (ypart n) cyc)); [intros x Hx; apply in_or_app; left; assumption|].
        apply y_cyc_span. apply d_in_Zx. assumption.
      * apply (span_veq _ (ypart n (ext t))); [apply y_ext; apply T_in in Ht; lia|].
        apply span_in. apply in_or_app. right. apply in_or_app. right. apply in_map. apply in_map. assumption.
Qed.

(* (bd t, 0) = (bd t, bd t) + (0, bd t) for a (k+1)-cell t of K_b, and (bd t, bd t) is a cycle pair *)
Lemma zt2 : forall t, In t Cb -> exists z, span cyc z /\ veq (firstn (2 * n) (d t)) (vxor (firstn (2 * n) z) (ext t)).
Proof.
  intros t Ht. destruct (zt t Ht) as [z [Hz Hl]]. apply Cb_in in Ht. destruct Ht as [Htb _].
  exists z. split; [assumption|]. intros j. rewrite get_vxor, !get_firstn, get_ext.
  destruct (Nat.ltb_spec j n) as [H1|H1].
  - destruct (Nat.ltb_spec j (2 * n)) as [H2|H2]; [|lia]. rewrite Hl by assumption. rewrite xorb_false_r. reflexivity.
  - destruct (Nat.ltb_spec j (2 * n)) as [H2|H2].
    + rewrite (d_van t) by (lia || assumption).
      assert (E : get z j = get (d t) (j - n)).
      { rewrite <- Hl by lia. rewrite (cyc_sym' z (j - n) Hz) by lia. f_equal. lia. }
      rewrite E. rewrite xorb_nilpotent. reflexivity.
    + rewrite (d_van t) by lia. reflexivity.
Qed.

Lemma ext_firstn : forall t, t <= e -> veq (firstn (2 * n) (ext t)) (ext t).
Proof.
  intros t Ht j. rewrite get_firstn. destruct (Nat.ltb_spec j (2 * n)) as [H|H]; [reflexivity|].
  symmetry. rewrite get_ext. destruct (Nat.ltb_spec j n) as [H'|H']; [reflexivity|]. apply d_van; [assumption|lia].
Qed.

Lemma rank_ext : rank (map ext Ce) = rank (map d Ce).
Proof.
  transitivity (rank (map (skipn n) (map ext Ce))).
  - symmetry. apply rank_map_injective; [apply linear_skipn|]. intros v Hsv Hz j. rewrite get_nil.
    destruct (Nat.lt_ge_cases j n) as [H|H].
    + apply (span_vanish j (map ext Ce)); [|assumption]. intros u Hu. apply in_map_iff in Hu. destruct Hu as [t [E _]]. subst u.
      rewrite get_ext. apply Nat.ltb_lt in H. rewrite H. reflexivity.
    + specialize (Hz (j - n)). rewrite get_skipn, get_nil in Hz. replace (n + (j - n)) with j in Hz by lia. assumption.
  - rewrite map_map. apply rank_ext_map. intros t Ht j. rewrite get_skipn, get_ext.
    destruct (Nat.ltb_spec (n + j) n) as [H|H]; [lia|]. replace (n + j - n) with j by lia. reflexivity.
Qed.

Lemma span_xy_R : forall v, span (map (firstn (2 * n)) R') v <-> span (map (firstn (2 * n)) cyc ++ map ext Ce) v.
Proof.
  intros v. unfold R'. rewrite !map_app. split; apply span_sub; intros w Hw; apply in_app_or in Hw.
  - destruct Hw as [Hw|Hw]; [apply span_in; apply in_or_app; left; assumption|].
    apply in_app_or in Hw. destruct Hw as [Hw|Hw]; apply in_map_iff in Hw; destruct Hw as [x [E Hx]]; subst w;
      apply in_map_iff in Hx; destruct Hx as [t [E Ht]]; subst x.
    + destruct (zt2 t Ht) as [z [Hz Hq]]. apply (span_veq _ _ _ (veq_sym _ _ Hq)). apply span_xor.
      * apply (span_incl (map (firstn (2 * n)) cyc)); [intros x Hx; apply in_or_app; left; assumption|].
        apply span_map; [apply linear_firstn|assumption].
      * apply span_in. apply in_or_app. right. apply in_map. apply Ce_split. left. assumption.
    + apply (span_veq _ (ext t)); [apply veq_sym; apply ext_firstn; apply T_in in Ht; lia|].
      apply span_in. apply in_or_app. right. apply in_map. apply Ce_split. right. assumption.
  - destruct Hw as [Hw|Hw]; [apply span_in; apply in_or_app; left; assumption|].
    apply in_map_iff in Hw. destruct Hw as [t [E Ht]]. subst w. apply Ce_split in Ht. destruct Ht as [Ht|Ht].
    + destruct (zt2 t Ht) as [z [Hz Hq]].
      apply (span_veq _ (vxor (firstn (2 * n) z) (firstn (2 * n) (d t)))).
      { intros j. specialize (Hq j). rewrite get_vxor in *. rewrite Hq.
        destruct (get (firstn (2 * n) z) j), (get (ext t) j); reflexivity. }
      apply span_xor.
      * apply (span_incl (map (firstn (2 * n)) cyc)); [intros x Hx; apply in_or_app; left; assumption|].
        apply span_map; [apply linear_firstn|assumption].
      * apply span_in. apply in_or_app. right. apply in_or_app. left. apply in_map. apply in_map. assumption.
    + apply (span_veq _ (firstn (2 * n) (ext t))); [apply ext_firstn; apply T_in in Ht; lia|].
      apply span_in. apply in_or_app. right. apply in_or_app. right. apply in_map. apply in_map. assumption.
Qed.

Lemma rank_xy_R : rank (map (firstn (2 * n)) R') = (rank cyc + rank (map d Ce))%Z.
Proof.
  rewrite (rank_span_invariant _ _ span_xy_R). rewrite rank_direct_sum.
  - rewrite rank_ext. f_equal. apply (rank_xy_cyc s k b (Hlt b) (Hcl b)).
  - intros v H1 H2.
    destruct (span_map_inv _ (linear_firstn (2 * n)) _ _ H1) as [w [Hw E1]].
    assert (Hlo : forall j, j < n -> get v j = false).
    { intros j Hj. apply (span_vanish j (map ext Ce)); [|assumption]. intros u Hu.
      apply in_map_iff in Hu. destruct Hu as [t [E _]]. subst u.
      rewrite get_ext. apply Nat.ltb_lt in Hj. rewrite Hj. reflexivity. }
    intros j. rewrite get_nil. destruct (Nat.lt_ge_cases j n) as [H|H]; [apply Hlo; assumption|].
    rewrite <- (E1 j), get_firstn. destruct (Nat.ltb_spec j (2 * n)) as [H'|H']; [|reflexivity].
    replace j with (n + (j - n)) by lia. rewrite <- (cyc_sym' w (j - n) Hw) by lia.
    assert (A : (j - n <? 2 * n) = true) by (apply Nat.ltb_lt; lia).
    transitivity (get (firstn (2 * n) w) (j - n)); [rewrite get_firstn, A; reflexivity|].
    rewrite (E1 (j - n)). apply Hlo. lia.
Qed.

Theorem insertion_only_ranks_sec :
  rfun (length s) (rtab s k) (Z.of_nat b) (Z.of_nat e) = pbetti s k b e.
Proof.
  rewrite C07_Ident.rfun_row by assumption. unfold rrow.
  rewrite sweep_unroll by (rewrite skipn_length; lia).
  assert (Hlen : length (firstn (e - b) (skipn (S b) s)) = e - b).
  { rewrite firstn_length, skipn_length. lia. }
  rewrite (fold_step_ins s k Hio _ (S b)).
  - rewrite Hlen. change (init_rel s k b) with (cyc ++ map d Cb). rewrite <- app_assoc.
    change ((rank (map (xpart n) R') + rank (map (ypart n) R') - rank (map (firstn (2 * n)) R'))%Z
            = (rank (map (xpart n) cyc ++ map d Ce) - rank (map d Ce))%Z).
    rewrite rank_x_R, rank_y_R, rank_xy_R. lia.
  - intros j Hj. rewrite Hlen in Hj. rewrite nth_error_firstn_lt by assumption. apply C07_Ident.nth_error_skipn_nop.
Qed.
End Main.

(* ------------------------------------------------------------------ 4. the meaning of [cycles] *)
Lemma span_map_of_idx : forall (h : nat -> list nat) L w, span (map (fun c => of_idx (h c)) L) w ->
  exists cs, (forall c, In c cs -> In c L) /\ veq w (of_idx (flat_map h cs)).
Proof.
  intros h. induction L as [|a L IH]; intros w H.
  - exists []. split; [intros c []|]. apply span_nil_inv in H. exact H.
  - cbn [map] in H. apply span_cons_iff in H. destruct H as [H|H].
    + destruct (IH w H) as [cs [H1 H2]]. exists cs. split; [intros c Hc; right; apply H1; assumption|assumption].
    + destruct (IH _ H) as [cs [H1 H2]]. exists (a :: cs). split.
      * intros c [E|Hc]; [left; assumption|right; apply H1; assumption].
      * intros j. cbn [flat_map]. rewrite get_of_idx_app. specialize (H2 j). rewrite get_vxor in H2. rewrite <- H2.
        destruct (get w j), (get (of_idx (h a)) j); reflexivity.
Qed.

(* the span of [cycles s k b] = the chains of k-cells of K_b (sets of cells, as 0/1 vectors) with zero boundary *)
Theorem cycles_are_the_cycles : forall s k b v, valid s = true -> b < length s ->
  (span (cycles s k b) v <->
   exists cs, (forall c, In c cs -> In c (cells_of_dim s k (present s b))) /\ veq v (of_idx cs) /\
              (forall j, get (of_idx (flat_map (bd_of s) cs)) j = false)).
Proof.
  intros s k b v Hv Hb.
  assert (Hlt : forall c, In c (present s b) -> c < length s) by (intros c Hc; apply (C07_Valid.present_le s b c Hc)).
  assert (Hcl : forall t c, In t (present s b) -> In c (bd_of s t) -> In c (present s b) /\ dim_of s c = (dim_of s t - 1)%Z)
    by (intros t c Ht Hc; apply (C07_Valid.valid_closed s b t c Hv Ht Hc)).
  pose (h := fun c => c :: (length s + c) :: shift (2 * length s) (bd_of s c)).
  assert (Hcs : forall cs, (forall c, In c cs -> In c (cells_of_dim s k (present s b))) -> forall c, In c cs -> c < length s).
  { intros cs H c Hc. apply Hlt. apply (Ck_in s k b c). apply H; assumption. }
  assert (Hbd : forall cs, (forall c, In c cs -> In c (cells_of_dim s k (present s b))) ->
                forall r, In r (flat_map (bd_of s) cs) -> r < length s).
  { intros cs H r Hr. apply in_flat_map in Hr. destruct Hr as [c [Hc Hr]].
    apply (K_bd_lt s b Hlt Hcl c r); [apply (Ck_in s k b c); apply H; assumption|assumption]. }
  unfold cycles. cbv zeta. split.
  - intros H. destruct (span_map_inv _ (linear_xpart (length s)) _ _ H) as [w [Hw Ew]].
    apply (cyc_spec s k b) in Hw. destruct Hw as [Hg Hz].
    destruct (span_map_of_idx h _ w Hg) as [cs [H1 H2]].
    exists cs. split; [assumption|]. split.
    + intros j. rewrite <- (Ew j), get_xpart. destruct (Nat.ltb_spec j (length s)) as [Hj|Hj].
      * rewrite (H2 j). apply (z_low s cs (Hcs cs H1) j Hj).
      * symmetry. apply get_of_idx_notin. intros a Ha. specialize (Hcs cs H1 a Ha). lia.
    + intros j. destruct (Nat.lt_ge_cases j (length s)) as [Hj|Hj].
      * rewrite <- (z_high s cs (Hcs cs H1) j). fold h. rewrite <- (H2 _). apply Hz. assumption.
      * apply get_of_idx_notin. intros a Ha. specialize (Hbd cs H1 a Ha). lia.
  - intros [cs [H1 [H2 H3]]].
    apply (span_veq _ (xpart (length s) (of_idx (flat_map h cs)))).
    + intros j. rewrite get_xpart, (H2 j). destruct (Nat.ltb_spec j (length s)) as [Hj|Hj].
      * apply (z_low s cs (Hcs cs H1) j Hj).
      * symmetry. apply get_of_idx_notin. intros a Ha. specialize (Hcs cs H1 a Ha). lia.
    + apply span_map; [apply linear_xpart|]. apply (cyc_spec s k b). split.
      * apply span_of_idx_flat_map. intros c Hc. apply span_in. apply (in_map (fun c => of_idx (h c))). apply H1. assumption.
      * intros u Hu. unfold h. rewrite (z_high s cs (Hcs cs H1) u). apply H3.
Qed.

Open Scope Z_scope.

Theorem insertion_only_ranks : forall s k b e, valid s = true -> insertion_only s = true ->
  (b <= e)%nat -> (e < length s)%nat ->
  rfun (length s) (rtab s k) (Z.of_nat b) (Z.of_nat e) = pbetti s k b e.
Proof. intros s k b e Hv Hio Hbe He. apply insertion_only_ranks_sec; assumption. Qed.

Print Assumptions cycles_are_the_cycles.
Print Assumptions insertion_only_ranks.
