(* C07 - zigzag persistence.  On well-formed keyed sequences ([keyed_ok]) the run of the front-end that skips the cells
   of dimension > dimmax ([normalize dimmax]) is the full run ([normalize (-1)]) in which the arrows that insert or
   remove a cell of dimension > dimmax are replaced by identity arrows ([skip_high dimmax]). *)
From Coq Require Import ZArith List Bool Arith Lia.
Require Import C07_Model C07_Skip.
Import ListNotations.
Open Scope Z_scope.

(* ------------------------------------------------------------------ 1. environments *)
Lemma lookup_erase : forall e k k',
  lookup (erase e k) k' = if k =? k' then None else lookup e k'.
Proof.
  intros e k k'. induction e as [|[k0 a] e IH]; simpl.
  - destruct (k =? k'); reflexivity.
  - destruct (k =? k0) eqn:E; simpl.
    + apply Z.eqb_eq in E. subst k0. rewrite IH.
      destruct (k =? k') eqn:F; [reflexivity|].
      rewrite Z.eqb_sym, F. reflexivity.
    + rewrite IH. destruct (k =? k') eqn:F; [|reflexivity].
      apply Z.eqb_eq in F. subst k'. rewrite E. reflexivity.
Qed.

Lemma lookupd_erased : forall e k k',
  lookupd (erased e k) k' = if k =? k' then None else lookupd e k'.
Proof.
  intros e k k'. induction e as [|[k0 a] e IH]; simpl.
  - destruct (k =? k'); reflexivity.
  - destruct (k =? k0) eqn:E; simpl.
    + apply Z.eqb_eq in E. subst k0. rewrite IH.
      destruct (k =? k') eqn:F; [reflexivity|].
      rewrite Z.eqb_sym, F. reflexivity.
    + rewrite IH. destruct (k =? k') eqn:F; [|reflexivity].
      apply Z.eqb_eq in F. subst k'. rewrite E. reflexivity.
Qed.

Lemma lookup_cons_erase : forall e k a k',
  lookup ((k, a) :: erase e k) k' = if k' =? k then Some a else lookup e k'.
Proof.
  intros. simpl. destruct (k' =? k) eqn:E; [reflexivity|].
  rewrite lookup_erase. rewrite Z.eqb_sym, E. reflexivity.
Qed.

(* ------------------------------------------------------------------ 2. the oracle version of skip_op *)
Definition skip_op' (dimmax : Z) (D : nat -> Z) (o : nop) : nop :=
  match o with
  | NIns d bd => if dimmax <? d then NId else o
  | NRem u => if dimmax <? D u then NId else o
  | NId => NId
  end.

Lemma skip_op'_dim_of : forall dimmax s o, skip_op' dimmax (dim_of s) o = skip_op dimmax s o.
Proof. intros. destruct o; reflexivity. Qed.

(* invariant relating the environment [e1] of the skipping run, [e2] of the full run and the key -> dimension
   environment [ed] of [keyed_ok_aux] *)
Definition inv (dimmax : Z) (D : nat -> Z) (e1 e2 : env) (ed : list (Z * Z)) : Prop :=
  forall k,
    match lookup e2 k with
    | Some a => lookupd ed k = Some (D a) /\ lookup e1 k = if dimmax <? D a then None else Some a
    | None => lookupd ed k = None /\ lookup e1 k = None
    end.

Lemma tr_bd_agree : forall dimmax D e1 e2 ed d bd, d <= dimmax ->
  inv dimmax D e1 e2 ed ->
  forallb (fun b => match lookupd ed b with Some d' => d' =? d - 1 | None => false end) bd = true ->
  tr_bd e1 bd = tr_bd e2 bd.
Proof.
  intros dimmax D e1 e2 ed d bd Hd Hinv. unfold tr_bd.
  induction bd as [|b bd IH]; simpl; intros H; [reflexivity|].
  apply andb_true_iff in H. destruct H as [Hb H]. rewrite IH by assumption. f_equal.
  specialize (Hinv b). destruct (lookup e2 b) as [a|].
  - destruct Hinv as [H1 H2]. rewrite H1 in Hb. apply Z.eqb_eq in Hb.
    rewrite H2. destruct (dimmax <? D a) eqn:E; [apply Z.ltb_lt in E; lia | reflexivity].
  - destruct Hinv as [H1 _]. rewrite H1 in Hb. discriminate.
Qed.

(* ------------------------------------------------------------------ 3. the generalised statement *)
Lemma normalize_aux_skip : forall dimmax D, 0 <= dimmax -> forall ops i e1 e2 ed,
  inv dimmax D e1 e2 ed ->
  keyed_ok_aux ed ops = true ->
  (forall j d bd, nth_error (normalize_aux (-1) i e2 ops) j = Some (NIns d bd) -> D (i + j)%nat = d) ->
  normalize_aux dimmax i e1 ops = map (skip_op' dimmax D) (normalize_aux (-1) i e2 ops).
Proof.
  intros dimmax D Hdm. induction ops as [|o ops IH]; intros i e1 e2 ed Hinv Hok HD; [reflexivity|].
  assert (Hneq : negb (dimmax =? -1) = true).
  { destruct (dimmax =? -1) eqn:E; [apply Z.eqb_eq in E; lia | reflexivity]. }
  assert (HDtail : forall e2' t, normalize_aux (-1) i e2 (o :: ops) = t :: normalize_aux (-1) (S i) e2' ops ->
            forall j d bd, nth_error (normalize_aux (-1) (S i) e2' ops) j = Some (NIns d bd) -> D (S i + j)%nat = d).
  { intros e2' t Heq j d bd Hj. replace (S i + j)%nat with (i + S j)%nat by lia.
    apply HD with (bd := bd). rewrite Heq. exact Hj. }
  destruct o as [k d fv bd | k fv | ].
  - (* Ins *)
    simpl in Hok. destruct (lookupd ed k) eqn:Hk; [discriminate|].
    apply andb_true_iff in Hok. destruct Hok as [Hbd Hok].
    assert (HDi : D i = d).
    { specialize (HD O d (tr_bd e2 bd)). rewrite Nat.add_0_r in HD. apply HD. reflexivity. }
    assert (He2k : lookup e2 k = None /\ lookup e1 k = None).
    { specialize (Hinv k). destruct (lookup e2 k) as [a|].
      - destruct Hinv as [H1 _]. rewrite H1 in Hk. discriminate.
      - destruct Hinv as [_ H2]. split; [reflexivity | exact H2]. }
    destruct He2k as [He2k He1k].
    simpl. rewrite Hneq. simpl.
    destruct (dimmax <? d) eqn:E.
    + (* skipped *)
      f_equal. apply IH with (ed := (k, d) :: ed).
      * intros k'. rewrite lookup_cons_erase. simpl.
        destruct (k' =? k) eqn:F.
        -- apply Z.eqb_eq in F. subst k'. rewrite HDi, E. split; [reflexivity | exact He1k].
        -- exact (Hinv k').
      * exact Hok.
      * apply HDtail with (t := NIns d (tr_bd e2 bd)). reflexivity.
    + apply Z.ltb_ge in E.
      rewrite (tr_bd_agree dimmax D e1 e2 ed d bd E Hinv Hbd). f_equal.
      apply IH with (ed := (k, d) :: ed).
      * intros k'. rewrite !lookup_cons_erase. simpl.
        destruct (k' =? k) eqn:F.
        -- rewrite HDi. split; [reflexivity|].
           destruct (dimmax <? d) eqn:G; [apply Z.ltb_lt in G; lia | reflexivity].
        -- exact (Hinv k').
      * exact Hok.
      * apply HDtail with (t := NIns d (tr_bd e2 bd)). reflexivity.
  - (* Rem *)
    simpl in Hok. simpl.
    pose proof (Hinv k) as Hk.
    destruct (lookup e2 k) as [a|] eqn:He2k.
    + destruct Hk as [Hdk He1k]. rewrite He1k. simpl.
      destruct (dimmax <? D a) eqn:E.
      * f_equal. apply IH with (ed := erased ed k).
        -- intros k'. rewrite lookup_erase, lookupd_erased.
           destruct (k =? k') eqn:F.
           ++ apply Z.eqb_eq in F. subst k'. split; [reflexivity|]. rewrite He1k. reflexivity.
           ++ exact (Hinv k').
        -- exact Hok.
        -- apply HDtail with (t := NRem a). simpl. rewrite He2k. reflexivity.
      * f_equal. apply IH with (ed := erased ed k).
        -- intros k'. rewrite !lookup_erase, lookupd_erased.
           destruct (k =? k') eqn:F.
           ++ split; reflexivity.
           ++ exact (Hinv k').
        -- exact Hok.
        -- apply HDtail with (t := NRem a). simpl. rewrite He2k. reflexivity.
    + destruct Hk as [Hdk He1k]. rewrite He1k. simpl. f_equal.
      apply IH with (ed := erased ed k).
      * intros k'. rewrite lookupd_erased.
        destruct (k =? k') eqn:F.
        -- apply Z.eqb_eq in F. subst k'. rewrite He2k. split; [reflexivity | exact He1k].
        -- exact (Hinv k').
      * exact Hok.
      * apply HDtail with (t := NId). simpl. rewrite He2k. reflexivity.
  - (* Nop *)
    simpl in Hok. simpl. f_equal. apply IH with (ed := ed); auto.
    apply HDtail with (t := NId). reflexivity.
Qed.

(* ------------------------------------------------------------------ 4. the theorems *)
Theorem normalize_is_skip_high : forall dimmax ops, 0 <= dimmax -> keyed_ok ops = true ->
  normalize dimmax ops = skip_high dimmax (normalize (-1) ops).
Proof.
  intros dimmax ops Hd Hok. unfold skip_high.
  rewrite <- (map_ext _ _ (skip_op'_dim_of dimmax (normalize (-1) ops))).
  unfold normalize at 1 3.
  apply normalize_aux_skip with (ed := []).
  - exact Hd.
  - intros k. simpl. split; reflexivity.
  - exact Hok.
  - intros j d bd Hj. simpl. unfold dim_of, normalize.
    rewrite (nth_error_nth _ _ NId Hj). reflexivity.
Qed.

Corollary ignored_dimensions : forall dimmax ops k, 0 <= k < dimmax -> keyed_ok ops = true ->
  bars_of_dim (normalize dimmax ops) k = bars_of_dim (normalize (-1) ops) k.
Proof.
  intros dimmax ops k Hk Hok. rewrite normalize_is_skip_high by (assumption || lia).
  apply skip_high_bars. exact Hk.
Qed.

Print Assumptions normalize_is_skip_high.
Print Assumptions ignored_dimensions.
