(* C07 - zigzag persistence.  SPECIFICATION model (executable) of the zigzag barcode over Z_2 of a sequence of
   single-cell insertions / removals / identity steps, and models of the filtered front-ends of
   src/Zigzag_persistence/include/gudhi/filtered_zigzag_persistence.h.  No proofs here.

   The diamond / transposition algorithm of zigzag_persistence.h is NOT modelled (see design/C07.md).

   Conventions.  Arrow numbers 0,1,2,... ([nat]); K_i = complex after arrow i.  A cell is identified by the arrow that
   inserted it (its uid) - exactly the identification used by Gudhi::zigzag_persistence::Zigzag_persistence.
   Vectors over Z_2 are dense [list bool]; a missing tail reads as zeros.

   The barcode.  For a dimension k and 0 <= b <= e < n let R(b,e) be the linear RELATION between H_k(K_b) and H_k(K_e)
   obtained by composing the maps induced by the inclusions (forward arrows) and their converses (backward arrows), and
       r_k(b,e) = dim dom R(b,e) - dim ker R(b,e)
   (dom = classes of K_b that extend to a compatible family over [b,e]; ker = those that extend with the zero class at e).
   For an interval-decomposable module this is the number of summands whose support contains [b,e] (a relation along a type-A
   quiver splits along the summands; Carlsson - de Silva, Zigzag persistence, FoCM 2010; it coincides with the generalised
   rank rank(lim -> colim) of Kim - Memoli / Dey - Kim - Memoli).  Hence the multiplicity of [b,e] is
       r(b,e) - r(b-1,e) - r(b,e+1) + r(b-1,e+1)          (r = 0 outside 0 <= b <= e < n).
   R(b,e) is computed at chain level inside the chain complex of ALL cells of the sequence: a subspace of pairs (x, y),
   x a k-cycle of K_b, y a k-cycle of K_e, saturated by the boundaries on both sides:
       start    { (z, z) : z in Z_k(K_b) }  +  B_k(K_b) x 0
       insertion of a (k+1)-cell s : add (0, bd s)            removal of a k-cell s : keep the pairs with y_s = 0
       every other arrow           : unchanged
   and  dim dom - dim ker = rank(x-parts) + rank(y-parts) - rank(pairs). *)
From Coq Require Import ZArith List Bool Arith.
Import ListNotations.
Open Scope Z_scope.

(* ------------------------------------------------------------------ Z_2 vectors and Gaussian elimination *)
Definition vec := list bool.
Definition get (v : vec) (i : nat) : bool := nth i v false.
Fixpoint vxor (a b : vec) : vec :=
  match a, b with
  | [], _ => b
  | _, [] => a
  | x :: a', y :: b' => xorb x y :: vxor a' b'
  end.
Fixpoint first_one (v : vec) : option nat :=
  match v with
  | [] => None
  | true :: _ => Some O
  | false :: v' => match first_one v' with Some p => Some (S p) | None => None end
  end.
Fixpoint unit_vec (i : nat) : vec := match i with O => [true] | S i' => false :: unit_vec i' end.
(* the vector with ones exactly at the indices occurring an odd number of times *)
Definition of_idx (l : list nat) : vec := fold_right (fun i v => vxor (unit_vec i) v) [] l.

(* an echelon basis: list of (pivot, vector); the pivot is the first one of the vector, later vectors are zero at
   earlier pivots *)
Definition ebasis := list (nat * vec).
Definition reduce1 (v : vec) (e : nat * vec) : vec := if get v (fst e) then vxor v (snd e) else v.
Definition reduce (E : ebasis) (v : vec) : vec := fold_left reduce1 E v.
Definition insert_vec (E : ebasis) (v : vec) : ebasis :=
  let v' := reduce E v in
  match first_one v' with None => E | Some p => E ++ [(p, v')] end.
Definition echelon (M : list vec) : ebasis := fold_left insert_vec M [].
Definition rank (M : list vec) : Z := Z.of_nat (length (echelon M)).

(* the subspace of span M of the vectors that vanish at coordinate c *)
Definition restrict (c : nat) (M : list vec) : list vec :=
  match partition (fun v => get v c) M with
  | ([], rest) => rest
  | (p :: hs, rest) => map (vxor p) hs ++ rest
  end.

(* ------------------------------------------------------------------ sequences *)
(* as given to the filtered front-ends: arbitrary keys, filtration values *)
Inductive op :=
| Ins (key : Z) (dim : Z) (fv : Z) (bd : list Z)
| Rem (key : Z) (fv : Z)
| Nop.
(* normalised: cells named by their insertion arrow *)
Inductive nop :=
| NIns (dim : Z) (bd : list nat)
| NRem (uid : nat)
| NId.

Definition env := list (Z * nat).                 (* handleToKey_ : key -> arrow of the last insertion *)
Fixpoint lookup (e : env) (k : Z) : option nat :=
  match e with [] => None | (k', a) :: r => if Z.eqb k k' then Some a else lookup r k end.
Definition erase (e : env) (k : Z) : env := filter (fun p => negb (Z.eqb k (fst p))) e.
Definition tr_bd (e : env) (bd : list Z) : list nat :=
  flat_map (fun k => match lookup e k with Some a => [a] | None => [] end) bd.

(* [dimmax] = -1: nothing skipped (Zigzag_persistence, Filtered_zigzag_persistence).  Otherwise the behaviour of
   Filtered_zigzag_persistence_with_storage: insertion of a cell of dimension > dimmax and removal of an unknown key
   are identity arrows *)
Fixpoint normalize_aux (dimmax : Z) (i : nat) (e : env) (ops : list op) : list nop :=
  match ops with
  | [] => []
  | Ins k d _ bd :: r =>
    if (negb (dimmax =? -1)) && (dimmax <? d) then NId :: normalize_aux dimmax (S i) e r
    else NIns d (tr_bd e bd) :: normalize_aux dimmax (S i) ((k, i) :: erase e k) r
  | Rem k _ :: r =>
    match lookup e k with
    | None => NId :: normalize_aux dimmax (S i) e r
    | Some a => NRem a :: normalize_aux dimmax (S i) (erase e k) r
    end
  | Nop :: r => NId :: normalize_aux dimmax (S i) e r
  end.
Definition normalize (dimmax : Z) (ops : list op) : list nop := normalize_aux dimmax O [] ops.

Definition dim_of (s : list nop) (u : nat) : Z := match nth u s NId with NIns d _ => d | _ => -1 end.
Definition bd_of (s : list nop) (u : nat) : list nat := match nth u s NId with NIns _ bd => bd | _ => [] end.
Definition remove_nat (u : nat) (l : list nat) : list nat := filter (fun x => negb (Nat.eqb x u)) l.
(* cells present after the first i+1 arrows, most recent first *)
Fixpoint present_aux (i : nat) (cur : list nat) (s : list nop) (fuel : nat) : list nat :=
  match fuel, s with
  | O, _ => cur
  | _, [] => cur
  | S f, NIns _ _ :: r => present_aux (S i) (i :: cur) r f
  | S f, NRem u :: r => present_aux (S i) (remove_nat u cur) r f
  | S f, NId :: r => present_aux (S i) cur r f
  end.
Definition present (s : list nop) (i : nat) : list nat := present_aux O [] s (S i).
Definition cells_of_dim (s : list nop) (k : Z) (l : list nat) : list nat := filter (fun u => dim_of s u =? k) l.

(* validity: boundary cells present, of dimension dim-1, pairwise different, boundary of the boundary zero; removed cell
   present and not in the boundary of a present cell *)
Definition memn (x : nat) (l : list nat) : bool := existsb (Nat.eqb x) l.
Fixpoint nodupb (l : list nat) : bool := match l with [] => true | x :: r => negb (memn x r) && nodupb r end.
Definition is_zero_vec (v : vec) : bool := forallb negb v.
Fixpoint valid_aux (s0 : list nop) (i : nat) (cur : list nat) (s : list nop) : bool :=
  match s with
  | [] => true
  | NIns d bd :: r =>
    (0 <=? d) && forallb (fun u => memn u cur && (dim_of s0 u =? d - 1)) bd && nodupb bd
    && is_zero_vec (of_idx (flat_map (bd_of s0) bd))
    && valid_aux s0 (S i) (i :: cur) r
  | NRem u :: r =>
    memn u cur && forallb (fun c => negb (memn u (bd_of s0 c))) cur && valid_aux s0 (S i) (remove_nat u cur) r
  | NId :: r => valid_aux s0 (S i) cur r
  end.
Definition valid (s : list nop) : bool := valid_aux s O [] s.

(* ------------------------------------------------------------------ the relation sweep *)
(* coordinates: x-part u, y-part n+u, boundary-of-y part 2n+u  (n = number of arrows) *)
Definition xpart (n : nat) (v : vec) : vec := firstn n v.
Definition ypart (n : nat) (v : vec) : vec := firstn n (skipn n v).
Definition shift (m : nat) (l : list nat) : list nat := map (fun u => (m + u)%nat) l.

Definition init_rel (s : list nop) (k : Z) (b : nat) : list vec :=
  let n := length s in
  let Kb := present s b in
  let gens := map (fun c => of_idx (c :: (n + c)%nat :: shift (2 * n) (bd_of s c))) (cells_of_dim s k Kb) in
  let cyc := fold_left (fun M c => restrict c M) (shift (2 * n) (seq 0 n)) gens in
  cyc ++ map (fun t => of_idx (bd_of s t)) (cells_of_dim s (k + 1) Kb).

Definition step_rel (s : list nop) (k : Z) (R : list vec) (o : nop) : list vec :=
  let n := length s in
  match o with
  | NIns d bd => if d =? k + 1 then R ++ [of_idx (shift n bd)] else R
  | NRem u => if dim_of s u =? k then restrict (n + u) R else R
  | NId => R
  end.

Definition rel_rank (n : nat) (R : list vec) : Z :=
  rank (map (xpart n) R) + rank (map (ypart n) R) - rank (map (firstn (2 * n)) R).

(* r_k(b, b), r_k(b, b+1), ..., r_k(b, n-1) *)
Fixpoint sweep (s : list nop) (k : Z) (R : list vec) (rest : list nop) : list Z :=
  match rest with
  | [] => []
  | o :: rest' => let R' := step_rel s k R o in rel_rank (length s) R' :: sweep s k R' rest'
  end.
Definition rrow (s : list nop) (k : Z) (b : nat) : list Z :=
  let R := init_rel s k b in rel_rank (length s) R :: sweep s k R (skipn (S b) s).
Definition rtab (s : list nop) (k : Z) : list (list Z) := map (rrow s k) (seq 0 (length s)).

(* r as a total function on Z x Z: 0 outside 0 <= b <= e < n.  Row b of the table starts at e = b *)
Definition rfun (n : nat) (T : list (list Z)) (b e : Z) : Z :=
  if (0 <=? b) && (b <=? e) && (e <? Z.of_nat n)
  then nth (Z.to_nat (e - b)) (nth (Z.to_nat b) T []) 0 else 0.
Definition mult (r : Z -> Z -> Z) (b e : Z) : Z := r b e - r (b - 1) e - r b (e + 1) + r (b - 1) (e + 1).

(* a bar: (dimension, birth arrow, death arrow or None while open).  K_b .. K_e  <->  birth b, death e+1 *)
Definition bar := (Z * nat * option nat)%type.
Definition bars_of_dim (s : list nop) (k : Z) : list bar :=
  let n := length s in
  let r := rfun n (rtab s k) in
  flat_map (fun b => flat_map (fun e =>
     repeat (k, b, if (S e =? n)%nat then None else Some (S e)) (Z.to_nat (mult r (Z.of_nat b) (Z.of_nat e))))
     (seq b (n - b))) (seq 0 n).
Definition max_dim (s : list nop) : Z := fold_left (fun m o => match o with NIns d _ => Z.max m d | _ => m end) s (-1).
Definition dims (s : list nop) : list Z := map Z.of_nat (seq 0 (Z.to_nat (max_dim s + 1))).
Definition barcode (s : list nop) : list bar := flat_map (bars_of_dim s) (dims s).

(* Betti number by ranks of the boundary maps of K_i *)
Definition betti (s : list nop) (k : Z) (i : nat) : Z :=
  let K := present s i in
  Z.of_nat (length (cells_of_dim s k K))
  - rank (map (fun c => of_idx (bd_of s c)) (cells_of_dim s k K))
  - rank (map (fun c => of_idx (bd_of s c)) (cells_of_dim s (k + 1) K)).
Definition alive (i : nat) (x : bar) : bool :=
  let '(_, b, d) := x in (b <=? i)%nat && match d with None => true | Some d' => (i <? d')%nat end.
Definition alive_count (bs : list bar) (k : Z) (i : nat) : Z :=
  Z.of_nat (length (filter (fun x => (fst (fst x) =? k) && alive i x) bs)).

(* ------------------------------------------------------------------ observations of Zigzag_persistence *)
(* intervals handed to the callback during arrow i / reported by get_current_infinite_intervals after arrow i *)
Definition streamed_at (bs : list bar) (i : nat) : list bar :=
  filter (fun x => match snd x with Some d => (d =? i)%nat | None => false end) bs.
Definition open_after (bs : list bar) (i : nat) : list (Z * nat) :=
  map (fun x => (fst (fst x), snd (fst x))) (filter (alive i) bs).
Definition closed_by (bs : list bar) (i : nat) : list bar :=
  filter (fun x => match snd x with Some d => (d <=? i)%nat | None => false end) bs.

(* ------------------------------------------------------------------ filtered front-ends *)
(* which arrows reach the inner Zigzag_persistence as insertion / removal, with their filtration value
   (the others are identities and store nothing) *)
Fixpoint arrow_values_aux (dimmax : Z) (e : env) (i : nat) (ops : list op) : list (option Z) :=
  match ops with
  | [] => []
  | Ins k d f _ :: r =>
    if (negb (dimmax =? -1)) && (dimmax <? d) then None :: arrow_values_aux dimmax e (S i) r
    else Some f :: arrow_values_aux dimmax ((k, i) :: erase e k) (S i) r
  | Rem k f :: r =>
    match lookup e k with
    | None => None :: arrow_values_aux dimmax e (S i) r
    | Some _ => Some f :: arrow_values_aux dimmax (erase e k) (S i) r
    end
  | Nop :: r => None :: arrow_values_aux dimmax e (S i) r
  end.
Definition arrow_values (dimmax : Z) (ops : list op) : list (option Z) := arrow_values_aux dimmax [] O ops.

(* SPECIFICATION of the value of an index: the value given with the last non-identity arrow at or before it *)
Fixpoint value_at_aux (vals : list (option Z)) (idx : nat) (last : option Z) : option Z :=
  match vals with
  | [] => last
  | v :: r =>
    let last' := match v with Some f => Some f | None => last end in
    match idx with O => last' | S idx' => value_at_aux r idx' last' end
  end.
Definition value_at (vals : list (option Z)) (idx : nat) : option Z := value_at_aux vals idx None.

(* ALGORITHM of Filtered_zigzag_persistence_with_storage: _store_filtration_value keeps (arrow, value) only when the
   value differs from the previous one (initially +infinity = None) ... *)
Fixpoint changes_aux (vals : list (option Z)) (i : nat) (prev : option Z) : list (nat * Z) :=
  match vals with
  | [] => []
  | None :: r => changes_aux r (S i) prev
  | Some f :: r =>
    match prev with
    | Some f' => if f =? f' then changes_aux r (S i) prev else (i, f) :: changes_aux r (S i) (Some f)
    | None => (i, f) :: changes_aux r (S i) (Some f)
    end
  end.
Definition changes (vals : list (option Z)) : list (nat * Z) := changes_aux vals O None.
(* ... and get_filtration_value_from_index: std::lower_bound on the arrow, one step back when past the end or beyond idx
   ([None] = the decrement of begin(), undefined behaviour in the C++) *)
Fixpoint fv_lookup (l : list (nat * Z)) (idx : nat) (prev : option Z) : option Z :=
  match l with
  | [] => prev
  | (i, f) :: r => if (i <? idx)%nat then fv_lookup r idx (Some f) else if (i =? idx)%nat then Some f else prev
  end.
Definition fv_from_index (vals : list (option Z)) (idx : nat) : option Z := fv_lookup (changes vals) idx None.

Definition dim_kept (dimmax : Z) (k : Z) : bool := (dimmax =? -1) || (k <? dimmax).
(* value bars: (dim, birth value, death value or None = infinite) *)
Definition vbar := (Z * Z * option Z)%type.
Definition zval (o : option Z) : Z := match o with Some f => f | None => 0 end.

(* with_storage: after the first i+1 arrows.  [bs] = index barcode of the whole (normalised, skipped) sequence *)
Definition S_index_diagram (dimmax : Z) (bs : list bar) (i : nat) : list bar :=
  filter (fun x => dim_kept dimmax (fst (fst x))) (closed_by bs i).
Definition S_finite (vals : list (option Z)) (shortest : Z) (l : list bar) : list vbar :=
  flat_map (fun x => match x with
    | (k, b, Some d) =>
      let fb := zval (fv_from_index vals b) in let fd := zval (fv_from_index vals d) in
      let lo := Z.min fb fd in let hi := Z.max fb fd in
      if shortest <? hi - lo then [(k, lo, Some hi)] else []
    | _ => [] end) l.
Definition S_infinite (dimmax : Z) (vals : list (option Z)) (bs : list bar) (i : nat) : list vbar :=
  map (fun x => (fst x, zval (fv_from_index vals (snd x)), None))
      (filter (fun x => dim_kept dimmax (fst x)) (open_after bs i)).
Definition S_diagram (dimmax : Z) (ops : list op) (bs : list bar) (shortest : Z) (inf : bool) (i : nat) : list vbar :=
  let vals := firstn (S i) (arrow_values dimmax ops) in
  S_finite vals shortest (S_index_diagram dimmax bs i) ++ (if inf then S_infinite dimmax vals bs i else []).

(* streaming front-end: value of an arrow = the value given with it; zero-length bars are not streamed; no swap *)
Definition F_streamed (ops : list op) (bs : list bar) (i : nat) : list (Z * Z * Z) :=
  let vals := arrow_values (-1) ops in
  flat_map (fun x => match x with
    | (k, b, Some d) =>
      let fb := zval (nth b vals None) in let fd := zval (nth d vals None) in
      if fb =? fd then [] else [(k, fb, fd)]
    | _ => [] end) (streamed_at bs i).
Definition F_open (ops : list op) (bs : list bar) (i : nat) : list (Z * Z) :=
  let vals := arrow_values (-1) ops in
  map (fun x => (fst x, zval (nth (snd x) vals None))) (open_after bs i).

(* ------------------------------------------------------------------ insertion-only sequences: the boundary matrix *)
Definition insertion_only (s : list nop) : bool := forallb (fun o => match o with NIns _ _ => true | _ => false end) s.
Definition dense_bd (n : nat) (bd : list nat) : list Z := map (fun i => if memn i bd then 1 else 0) (seq 0 n).
Definition boundary_matrix (s : list nop) : list (list Z) :=
  map (fun o => match o with NIns _ bd => dense_bd (length s) bd | _ => dense_bd (length s) [] end) s.

(* what Filtered_zigzag_persistence_with_storage does with ignore_cycles_above_dim = dimmax, read on normalised sequences:
   arrows that insert or remove a cell of dimension > dimmax become identity arrows *)
Definition skip_op (dimmax : Z) (s : list nop) (o : nop) : nop :=
  match o with
  | NIns d bd => if dimmax <? d then NId else o
  | NRem u => if dimmax <? dim_of s u then NId else o
  | NId => NId
  end.
Definition skip_high (dimmax : Z) (s : list nop) : list nop := map (skip_op dimmax s) s.

(* well-formedness of a keyed sequence: a key is not inserted while it names a present cell, and the boundary keys of an
   inserted cell of dimension d name present cells of dimension d-1.  [e] : key -> dimension of the present cell *)
Fixpoint lookupd (e : list (Z * Z)) (k : Z) : option Z :=
  match e with [] => None | (k', d) :: r => if Z.eqb k k' then Some d else lookupd r k end.
Definition erased (e : list (Z * Z)) (k : Z) : list (Z * Z) := filter (fun p => negb (Z.eqb k (fst p))) e.
Fixpoint keyed_ok_aux (e : list (Z * Z)) (ops : list op) : bool :=
  match ops with
  | [] => true
  | Ins k d _ bd :: r =>
    match lookupd e k with
    | Some _ => false
    | None => forallb (fun b => match lookupd e b with Some d' => d' =? d - 1 | None => false end) bd
              && keyed_ok_aux ((k, d) :: e) r
    end
  | Rem k _ :: r => keyed_ok_aux (erased e k) r
  | Nop :: r => keyed_ok_aux e r
  end.
Definition keyed_ok (ops : list op) : bool := keyed_ok_aux [] ops.

(* hypothesis of the alive-count theorem, decidable: no negative multiplicity *)
Definition mult_nonneg (s : list nop) (k : Z) : bool :=
  let n := length s in
  let r := rfun n (rtab s k) in
  forallb (fun b => forallb (fun e => 0 <=? mult r (Z.of_nat b) (Z.of_nat e)) (seq b (n - b))) (seq 0 n).

(* ordinary persistence of an insertion-only sequence by the certified reduction of coq/ReduceExec.v (Z_2) *)
Require Import ReduceExec.
Definition ordinary_bars (s : list nop) : option (list bar) :=
  match certified_lows 2 (boundary_matrix s) with
  | None => None
  | Some l => Some (map (fun bd => (dim_of s (fst bd), fst bd, snd bd)) (pairs_of_lows l))
  end.
