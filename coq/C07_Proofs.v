(* C07 - proofs about the specification of coq/C07_Model.v other than the Gaussian elimination (C07_Gauss.v):
   the index -> value translation of the with_storage front-end, the zero-length clause, the alive-count identity. *)
From Coq Require Import ZArith List Bool Arith Lia.
Require Import C07_Model.
Import ListNotations.
Open Scope Z_scope.

(* ------------------------------------------------------------------ index -> filtration value *)
Lemma changes_head_ge : forall vals j p i f l, changes_aux vals j p = (i, f) :: l -> (j <= i)%nat.
Proof.
  induction vals as [|v vals IH]; intros j p i f l H; cbn [changes_aux] in H; [discriminate|].
  destruct v as [g|].
  - destruct p as [g'|].
    + destruct (g =? g').
      * apply IH in H. lia.
      * inversion H; subst. lia.
    + inversion H; subst. lia.
  - apply IH in H. lia.
Qed.

Lemma fv_lookup_all_later : forall l idx acc,
  (forall i f l', l = (i, f) :: l' -> (idx < i)%nat) -> fv_lookup l idx acc = acc.
Proof.
  intros l idx acc H. destruct l as [|[i f] l']; [reflexivity|].
  cbn [fv_lookup]. specialize (H i f l' eq_refl).
  destruct (i <? idx)%nat eqn:E1; [apply Nat.ltb_lt in E1; lia|].
  destruct (i =? idx)%nat eqn:E2; [apply Nat.eqb_eq in E2; lia|]. reflexivity.
Qed.

Lemma fv_lookup_changes : forall vals i prev idx, (i <= idx)%nat ->
  fv_lookup (changes_aux vals i prev) idx prev = value_at_aux vals (idx - i) prev.
Proof.
  induction vals as [|v vals IH]; intros i prev idx Hle.
  - reflexivity.
  - assert (Hskip : fv_lookup (changes_aux vals (S i) prev) idx prev =
                    match (idx - i)%nat with O => prev | S idx' => value_at_aux vals idx' prev end).
    { destruct (idx - i)%nat as [|m] eqn:Em.
      - apply fv_lookup_all_later. intros i0 f0 l0 E. apply changes_head_ge in E. lia.
      - rewrite IH by lia. f_equal. lia. }
    cbn [changes_aux value_at_aux]. destruct v as [g|].
    + destruct prev as [g'|].
      * destruct (g =? g') eqn:Eg.
        -- apply Z.eqb_eq in Eg. subst g'. exact Hskip.
        -- cbn [fv_lookup]. destruct (idx - i)%nat as [|m] eqn:Em.
           ++ assert (i = idx) by lia. subst. rewrite Nat.ltb_irrefl, Nat.eqb_refl. reflexivity.
           ++ assert (Hlt : (i <? idx)%nat = true) by (apply Nat.ltb_lt; lia). rewrite Hlt.
              rewrite IH by lia. f_equal. lia.
      * cbn [fv_lookup]. destruct (idx - i)%nat as [|m] eqn:Em.
        -- assert (i = idx) by lia. subst. rewrite Nat.ltb_irrefl, Nat.eqb_refl. reflexivity.
        -- assert (Hlt : (i <? idx)%nat = true) by (apply Nat.ltb_lt; lia). rewrite Hlt.
           rewrite IH by lia. f_equal. lia.
    + exact Hskip.
Qed.

(* the compressed table + lower_bound search of the C++ returns the value given with the last non-identity arrow <= idx *)
Theorem fv_from_index_spec : forall vals idx, fv_from_index vals idx = value_at vals idx.
Proof.
  intros. unfold fv_from_index, value_at, changes. rewrite fv_lookup_changes by lia. f_equal. lia.
Qed.

Lemma value_at_aux_exact : forall vals idx last f, nth_error vals idx = Some (Some f) -> value_at_aux vals idx last = Some f.
Proof.
  induction vals as [|v vals IH]; intros idx last f H.
  - destruct idx; discriminate.
  - destruct idx as [|idx]; cbn [value_at_aux].
    + cbn in H. inversion H; subst. reflexivity.
    + cbn in H. apply IH. exact H.
Qed.

(* births and deaths only happen at non-identity arrows: there the translation is the value supplied with that arrow *)
Theorem fv_from_index_exact : forall vals idx f, nth_error vals idx = Some (Some f) -> fv_from_index vals idx = Some f.
Proof. intros. rewrite fv_from_index_spec. apply value_at_aux_exact. assumption. Qed.

(* None (the undefined decrement of begin() in the C++) happens only before the first stored value *)
Lemma value_at_aux_some : forall vals idx last, last <> None -> value_at_aux vals idx last <> None.
Proof.
  induction vals as [|v vals IH]; intros idx last H; cbn [value_at_aux]; [assumption|].
  destruct v as [g|]; destruct idx as [|idx].
  - discriminate.
  - apply IH. discriminate.
  - assumption.
  - apply IH. assumption.
Qed.
Lemma value_at_aux_defined : forall vals last i idx f, nth_error vals i = Some (Some f) -> (i <= idx)%nat ->
  value_at_aux vals idx last <> None.
Proof.
  induction vals as [|v vals IH]; intros last i idx f H Hle.
  - destruct i; discriminate.
  - destruct i as [|i]; cbn in H.
    + inversion H; subst. cbn [value_at_aux]. destruct idx; [discriminate|]. apply value_at_aux_some. discriminate.
    + destruct idx as [|idx]; [lia|]. cbn [value_at_aux]. apply (IH _ i idx f H). lia.
Qed.
Theorem fv_from_index_defined : forall vals i idx f, nth_error vals i = Some (Some f) -> (i <= idx)%nat ->
  fv_from_index vals idx <> None.
Proof.
  intros vals i idx f H Hle. rewrite fv_from_index_spec. unfold value_at. eapply value_at_aux_defined; eassumption.
Qed.

(* ------------------------------------------------------------------ zero-length intervals / shortest interval *)
Lemma length_test : forall sh a b, (sh <? Z.max a b - Z.min a b) = (sh <? Z.abs (a - b)).
Proof. intros. f_equal. lia. Qed.

Theorem S_finite_spec : forall vals sh l x,
  In x (S_finite vals sh l) <->
  exists k b d, In (k, b, Some d) l /\
    let fb := zval (fv_from_index vals b) in let fd := zval (fv_from_index vals d) in
    sh < Z.abs (fb - fd) /\ x = (k, Z.min fb fd, Some (Z.max fb fd)).
Proof.
  intros vals sh l x. unfold S_finite. rewrite in_flat_map. split.
  - intros [[[k b] [d|]] [Hin Hx]]; [|destruct Hx].
    cbv zeta in Hx. rewrite length_test in Hx.
    destruct (sh <? _) eqn:E; [|destruct Hx]. destruct Hx as [Hx|[]]. subst x.
    exists k, b, d. split; [assumption|]. cbv zeta. split; [apply Z.ltb_lt; assumption|reflexivity].
  - intros [k [b [d [Hin H]]]]. cbv zeta in H. destruct H as [Hlt Hx]. exists (k, b, Some d). split; [assumption|].
    cbv zeta. rewrite length_test. apply Z.ltb_lt in Hlt. rewrite Hlt. left. symmetry. exact Hx.
Qed.

(* with the default threshold 0 exactly the bars whose two values coincide are dropped *)
Corollary S_finite_zero_length : forall vals l x,
  In x (S_finite vals 0 l) <->
  exists k b d, In (k, b, Some d) l /\
    let fb := zval (fv_from_index vals b) in let fd := zval (fv_from_index vals d) in
    fb <> fd /\ x = (k, Z.min fb fd, Some (Z.max fb fd)).
Proof.
  intros. rewrite S_finite_spec. split; intros [k [b [d [Hin H]]]]; exists k, b, d; (split; [assumption|]);
    cbv zeta in *; destruct H as [H1 H2]; (split; [lia|assumption]).
Qed.

(* only the dimensions below ignore_cycles_above_dim are reported, all of them when it is -1 *)
Theorem S_index_diagram_spec : forall dimmax bs i x,
  In x (S_index_diagram dimmax bs i) <->
  (In x bs /\ (exists d, snd x = Some d /\ (d <= i)%nat) /\ (dimmax = -1 \/ fst (fst x) < dimmax)).
Proof.
  intros. unfold S_index_diagram, closed_by, dim_kept. rewrite !filter_In.
  destruct x as [[k b] d]; cbn [fst snd].
  rewrite orb_true_iff, Z.eqb_eq, Z.ltb_lt. split.
  - intros [[Hin Hc] Hk]. split; [assumption|]. split; [|assumption].
    destruct d as [d|]; [|discriminate]. exists d. split; [reflexivity|]. apply Nat.leb_le. assumption.
  - intros [Hin [[d' [Hd Hle]] Hk]]. subst d. split; [|assumption]. split; [assumption|]. apply Nat.leb_le. assumption.
Qed.

(* ------------------------------------------------------------------ bars alive at arrow i  =  r(i, i) *)
Fixpoint zsum (f : nat -> Z) (l : list nat) : Z := match l with [] => 0 | x :: l' => f x + zsum f l' end.
Lemma zsum_app f l1 l2 : zsum f (l1 ++ l2) = zsum f l1 + zsum f l2.
Proof. induction l1 as [|x l1 IH]; cbn [zsum app]; [lia|]. rewrite IH. lia. Qed.
Lemma zsum_ext f g l : (forall x, In x l -> f x = g x) -> zsum f l = zsum g l.
Proof.
  induction l as [|x l IH]; intros H; [reflexivity|]. cbn [zsum].
  rewrite (H x (or_introl eq_refl)), IH; [reflexivity|]. intros y Hy. apply H. right. assumption.
Qed.
Lemma zsum_zero f l : (forall x, In x l -> f x = 0) -> zsum f l = 0.
Proof.
  induction l as [|x l IH]; intros H; [reflexivity|]. cbn [zsum].
  rewrite (H x (or_introl eq_refl)), IH; [reflexivity|]. intros y Hy. apply H. right. assumption.
Qed.
Lemma telescope_up (G : Z -> Z) : forall len a,
  zsum (fun e => G (Z.of_nat e) - G (Z.of_nat e + 1)) (seq a len) = G (Z.of_nat a) - G (Z.of_nat (a + len)).
Proof.
  induction len as [|len IH]; intros a.
  - cbn [seq zsum]. replace (a + 0)%nat with a by lia. lia.
  - cbn [seq zsum].
    rewrite IH. replace (Z.of_nat (S a)) with (Z.of_nat a + 1) by lia. replace (S a + len)%nat with (a + S len)%nat by lia. lia.
Qed.
Lemma telescope_down (H : Z -> Z) : forall len a,
  zsum (fun b => H (Z.of_nat b) - H (Z.of_nat b - 1)) (seq a len) = H (Z.of_nat (a + len) - 1) - H (Z.of_nat a - 1).
Proof.
  induction len as [|len IH]; intros a.
  - cbn [seq zsum]. replace (a + 0)%nat with a by lia. lia.
  - cbn [seq zsum].
    rewrite IH. replace (Z.of_nat (S a) - 1) with (Z.of_nat a) by lia. replace (S a + len)%nat with (a + S len)%nat by lia. lia.
Qed.

Lemma length_filter_repeat {A} (P : A -> bool) a m : length (filter P (repeat a m)) = if P a then m else O.
Proof.
  induction m as [|m IH]; cbn [repeat filter]; [destruct (P a); reflexivity|].
  destruct (P a) eqn:E; cbn [length]; rewrite IH; reflexivity.
Qed.
Lemma length_filter_flat_map {A} (P : A -> bool) (g : nat -> list A) l :
  Z.of_nat (length (filter P (flat_map g l))) = zsum (fun x => Z.of_nat (length (filter P (g x)))) l.
Proof.
  induction l as [|x l IH]; [reflexivity|]. cbn [flat_map zsum].
  rewrite filter_app, app_length, Nat2Z.inj_add, IH. reflexivity.
Qed.

Lemma rfun_right_edge n T b : rfun n T b (Z.of_nat n) = 0.
Proof. unfold rfun. destruct (0 <=? b); destruct (b <=? Z.of_nat n); cbn [andb]; try reflexivity. rewrite Z.ltb_irrefl. reflexivity. Qed.
Lemma rfun_left_edge n T e : rfun n T (-1) e = 0.
Proof. unfold rfun. reflexivity. Qed.

Theorem alive_count_is_rii : forall s k i, (i < length s)%nat ->
  (forall b e, (b <= e < length s)%nat -> 0 <= mult (rfun (length s) (rtab s k)) (Z.of_nat b) (Z.of_nat e)) ->
  alive_count (bars_of_dim s k) k i = rfun (length s) (rtab s k) (Z.of_nat i) (Z.of_nat i).
Proof.
  intros s k i Hi Hnn. unfold alive_count, bars_of_dim. cbv zeta.
  set (n := length s) in *. set (r := rfun n (rtab s k)) in *.
  set (P := fun x : bar => (fst (fst x) =? k) && alive i x).
  rewrite length_filter_flat_map.
  (* the inner sums *)
  assert (Hinner : forall b, In b (seq 0 n) ->
    Z.of_nat (length (filter P (flat_map (fun e => repeat (k, b, if (S e =? n)%nat then None else Some (S e))
                                             (Z.to_nat (mult r (Z.of_nat b) (Z.of_nat e)))) (seq b (n - b))))) =
    if (b <=? i)%nat then r (Z.of_nat b) (Z.of_nat i) - r (Z.of_nat b - 1) (Z.of_nat i) else 0).
  { intros b Hb. apply in_seq in Hb. rewrite length_filter_flat_map.
    rewrite (zsum_ext _ (fun e => if (b <=? i)%nat && (i <=? e)%nat then mult r (Z.of_nat b) (Z.of_nat e) else 0)).
    2:{ intros e He. apply in_seq in He. rewrite length_filter_repeat. unfold P. cbn [fst snd alive].
        rewrite Z.eqb_refl. cbn [andb].
        assert (Hal : (match (if (S e =? n)%nat then None else Some (S e)) with None => true | Some d' => (i <? d')%nat end) = (i <=? e)%nat).
        { destruct (S e =? n)%nat eqn:E.
          - apply Nat.eqb_eq in E. symmetry. apply Nat.leb_le. lia.
          - destruct (i <? S e)%nat eqn:E1; symmetry; [apply Nat.ltb_lt in E1; apply Nat.leb_le; lia|].
            apply Nat.ltb_ge in E1. apply Nat.leb_gt. lia. }
        rewrite Hal. destruct ((b <=? i)%nat && (i <=? e)%nat); [|reflexivity].
        rewrite Z2Nat.id; [reflexivity|apply Hnn; lia]. }
    destruct (b <=? i)%nat eqn:Ebi.
    - apply Nat.leb_le in Ebi. cbn [andb].
      replace (n - b)%nat with ((i - b) + (n - i))%nat by lia. rewrite seq_app, zsum_app.
      replace (b + (i - b))%nat with i by lia.
      rewrite zsum_zero.
      2:{ intros e He. apply in_seq in He. assert (E : (i <=? e)%nat = false) by (apply Nat.leb_gt; lia). rewrite E. reflexivity. }
      rewrite (zsum_ext _ (fun e => (fun z => r (Z.of_nat b) z - r (Z.of_nat b - 1) z) (Z.of_nat e)
                                  - (fun z => r (Z.of_nat b) z - r (Z.of_nat b - 1) z) (Z.of_nat e + 1))).
      2:{ intros e He. apply in_seq in He. assert (E : (i <=? e)%nat = true) by (apply Nat.leb_le; lia). rewrite E.
          unfold mult. cbv beta. lia. }
      rewrite (telescope_up (fun z => r (Z.of_nat b) z - r (Z.of_nat b - 1) z)).
      replace (i + (n - i))%nat with n by lia. cbv beta. unfold r at 3 4. rewrite !rfun_right_edge. lia.
    - cbn [andb]. apply zsum_zero. intros; reflexivity. }
  rewrite (zsum_ext _ (fun b => if (b <=? i)%nat then r (Z.of_nat b) (Z.of_nat i) - r (Z.of_nat b - 1) (Z.of_nat i) else 0)) by exact Hinner.
  replace n with (S i + (n - S i))%nat at 1 by lia. rewrite seq_app, zsum_app.
  rewrite (zsum_zero _ (seq (0 + S i) (n - S i))).
  2:{ intros b Hb. apply in_seq in Hb. assert (E : (b <=? i)%nat = false) by (apply Nat.leb_gt; lia). rewrite E. reflexivity. }
  rewrite (zsum_ext _ (fun b => (fun z => r z (Z.of_nat i)) (Z.of_nat b) - (fun z => r z (Z.of_nat i)) (Z.of_nat b - 1))).
  2:{ intros b Hb. apply in_seq in Hb. assert (E : (b <=? i)%nat = true) by (apply Nat.leb_le; lia). rewrite E. reflexivity. }
  rewrite (telescope_down (fun z => r z (Z.of_nat i))). cbv beta.
  replace (Z.of_nat (0 + S i) - 1) with (Z.of_nat i) by lia. replace (Z.of_nat 0 - 1) with (-1) by lia.
  unfold r at 2. rewrite rfun_left_edge. lia.
Qed.

Lemma mult_nonneg_spec s k : mult_nonneg s k = true ->
  forall b e, (b <= e < length s)%nat -> 0 <= mult (rfun (length s) (rtab s k)) (Z.of_nat b) (Z.of_nat e).
Proof.
  unfold mult_nonneg. cbv zeta. intros H b e Hbe. rewrite forallb_forall in H.
  assert (Hb : In b (seq 0 (length s))) by (apply in_seq; lia). specialize (H b Hb). rewrite forallb_forall in H.
  assert (He : In e (seq b (length s - b))) by (apply in_seq; lia). specialize (H e He). apply Z.leb_le. exact H.
Qed.

Theorem alive_count_is_rii_checked : forall s k i, (i < length s)%nat -> mult_nonneg s k = true ->
  alive_count (bars_of_dim s k) k i = rfun (length s) (rtab s k) (Z.of_nat i) (Z.of_nat i).
Proof. intros s k i Hi H. apply alive_count_is_rii; [assumption|]. apply mult_nonneg_spec. assumption. Qed.

(* non-vacuity: the sequence of the documentation (two vertices, edge, vertex, two edges, two removals) *)
Definition doc_sequence : list nop :=
  [NIns 0 []; NIns 0 []; NIns 1 [0%nat; 1%nat]; NIns 0 []; NIns 1 [0%nat; 3%nat]; NIns 1 [1%nat; 3%nat]; NRem 4; NRem 2].
Example doc_sequence_ok : valid doc_sequence = true /\ mult_nonneg doc_sequence 0 = true /\ mult_nonneg doc_sequence 1 = true /\
  barcode doc_sequence = [(0, 0%nat, None); (0, 1%nat, Some 2%nat); (0, 3%nat, Some 4%nat); (0, 7%nat, None); (1, 5%nat, Some 6%nat)].
Proof. vm_compute. repeat split; reflexivity. Qed.

(* the arrow numbering is kept aligned: skipped insertions / removals count as identity arrows *)
Lemma normalize_aux_length : forall ops dimmax i e, length (normalize_aux dimmax i e ops) = length ops.
Proof.
  induction ops as [|o ops IH]; intros dimmax i e; [reflexivity|].
  destruct o as [k d f bd|k f|]; cbn [normalize_aux].
  - destruct (negb (dimmax =? -1) && (dimmax <? d)); cbn [length]; rewrite IH; reflexivity.
  - destruct (lookup e k); cbn [length]; rewrite IH; reflexivity.
  - cbn [length]. rewrite IH. reflexivity.
Qed.
Theorem normalize_length : forall dimmax ops, length (normalize dimmax ops) = length ops.
Proof. intros. apply normalize_aux_length. Qed.

(* ------------------------------------------------------------------ what the relation sweep computes, step by step *)
Require Import C07_Gauss.

Lemma rank_range : forall M, 0 <= rank M <= Z.of_nat (length M).
Proof. intro M. split; [apply rank_nonneg|apply rank_le_length]. Qed.

Lemma span_snoc : forall R w v, span (R ++ [w]) v <-> span R v \/ span R (vxor v w).
Proof.
  intros R w v. rewrite <- span_cons_iff. split; apply span_sub; intros x Hx; apply span_in.
  - apply in_app_or in Hx. destruct Hx as [Hx|[Hx|[]]]; [right; assumption|left; assumption].
  - apply in_or_app. destruct Hx as [Hx|Hx]; [right; left; assumption|left; assumption].
Qed.

(* removal of a k-cell u: exactly the pairs of the relation whose y-part does not use u survive *)
Theorem step_rel_removal : forall s k R u v, dim_of s u = k ->
  (span (step_rel s k R (NRem u)) v <-> span R v /\ get v (length s + u)%nat = false).
Proof.
  intros s k R u v Hd. cbn [step_rel]. rewrite Hd, Z.eqb_refl. apply restrict_span.
Qed.

(* insertion of a (k+1)-cell with boundary bd: the pair (0, bd) is added to the relation *)
Theorem step_rel_insertion : forall s k R bd v,
  (span (step_rel s k R (NIns (k + 1) bd)) v <-> span R v \/ span R (vxor v (of_idx (shift (length s) bd)))).
Proof.
  intros s k R bd v. cbn [step_rel]. rewrite Z.eqb_refl. apply span_snoc.
Qed.

(* every other arrow (identity, cells of other dimensions) leaves the relation alone *)
Theorem step_rel_other : forall s k R o,
  match o with NIns d _ => d <> k + 1 | NRem u => dim_of s u <> k | NId => True end -> step_rel s k R o = R.
Proof.
  intros s k R o H. destruct o as [d bd|u|]; cbn [step_rel]; [| |reflexivity].
  - destruct (d =? k + 1) eqn:E; [apply Z.eqb_eq in E; contradiction|reflexivity].
  - destruct (dim_of s u =? k) eqn:E; [apply Z.eqb_eq in E; contradiction|reflexivity].
Qed.

(* the cycles of the start: the combinations of the generators (c, c, bd c) whose boundary part vanishes *)
Lemma fold_restrict_span : forall cs M v,
  span (fold_left (fun M c => restrict c M) cs M) v <-> span M v /\ forall c, In c cs -> get v c = false.
Proof.
  induction cs as [|c cs IH]; intros M v; cbn [fold_left].
  - split; [intros H; split; [assumption|intros c []]|intros [H _]; assumption].
  - rewrite IH, restrict_span. split.
    + intros [[H1 H2] H3]. split; [assumption|]. intros c' [E|Hin]; [subst; assumption|apply H3; assumption].
    + intros [H1 H2]. split; [split; [assumption|apply H2; left; reflexivity]|]. intros c' Hin. apply H2. right. assumption.
Qed.

Definition init_gens (s : list nop) (k : Z) (b : nat) : list vec :=
  map (fun c => of_idx (c :: (length s + c)%nat :: shift (2 * length s) (bd_of s c))) (cells_of_dim s k (present s b)).
Definition init_bnds (s : list nop) (k : Z) (b : nat) : list vec :=
  map (fun t => of_idx (bd_of s t)) (cells_of_dim s (k + 1) (present s b)).

(* the start of the sweep: (combinations of the (c, c, bd c), c a k-cell of K_b, with zero boundary part) + (bd t, 0), t a (k+1)-cell of K_b *)
Theorem init_rel_spec : forall s k b v,
  span (init_rel s k b) v <->
  exists z, span (init_gens s k b) z /\ (forall u, (u < length s)%nat -> get z (2 * length s + u)%nat = false) /\
            span (init_bnds s k b) (vxor v z).
Proof.
  intros s k b v. unfold init_rel. cbv zeta. fold (init_gens s k b). fold (init_bnds s k b).
  set (cyc := fold_left _ _ _).
  assert (Hc : forall z, span cyc z <-> span (init_gens s k b) z /\ forall u, (u < length s)%nat -> get z (2 * length s + u)%nat = false).
  { intros z. unfold cyc. rewrite fold_restrict_span. split; intros [H1 H2]; (split; [assumption|]).
    - intros u Hu. apply H2. unfold shift. apply in_map_iff. exists u. split; [reflexivity|]. apply in_seq. lia.
    - intros c Hin. unfold shift in Hin. apply in_map_iff in Hin. destruct Hin as [u [E Hu]]. subst c. apply H2. apply in_seq in Hu. lia. }
  split.
  - intros H. apply span_app_inv in H. destruct H as [a [Ha Hb]]. exists a. apply Hc in Ha. destruct Ha as [Ha1 Ha2].
    split; [assumption|]. split; assumption.
  - intros [z [Hz1 [Hz2 Hz3]]].
    assert (Hz : span cyc z) by (apply Hc; split; assumption).
    apply span_veq with (v := vxor z (vxor v z)).
    + intros i. rewrite !get_vxor. destruct (get z i), (get v i); reflexivity.
    + apply span_xor.
      * revert Hz. apply span_incl. intros x Hx. apply in_or_app. left. assumption.
      * revert Hz3. apply span_incl. intros x Hx. apply in_or_app. right. assumption.
Qed.
