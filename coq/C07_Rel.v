(* C07 - the subspace of pairs built by the relation sweep IS the relation between k-cycles of K_b and k-cycles of K_e
   obtained by composing the inclusion-induced maps and their converses (described with representatives). *)
From Coq Require Import ZArith List Bool Arith Lia.
Require Import C07_Model C07_Gauss C07_Proofs C07_ELZdefs.
Require C07_Valid C07_Betti C07_InsOnly C07_Ident C07_Bridge C07_ELZ.
Import ListNotations.
Open Scope Z_scope.

Definition kcells (s : list nop) (k : Z) (i : nat) : list nat := cells_of_dim s k (present s i).
Definition cycle_of (s : list nop) (k : Z) (i : nat) (z : vec) : Prop :=
  (forall c, get z c = true -> In c (kcells s k i)) /\ (forall j, get (bdmap s z) j = false).
Definition boundary_of (s : list nop) (k : Z) (i : nat) (w : vec) : Prop := span (init_bnds s k i) w.
(* index of the larger of K_t and K_(t+1): arrow t+1 is a removal -> K_t, otherwise K_(t+1) *)
Definition big (s : list nop) (t : nat) : nat := match nth (S t) s NId with NRem _ => t | _ => S t end.
Fixpoint family_ok (s : list nop) (k : Z) (t : nat) (zs : list vec) : Prop :=
  match zs with
  | [] => False
  | z :: rest =>
    cycle_of s k t z /\
    match rest with
    | [] => True
    | z' :: _ => boundary_of s k (big s t) (vxor z z') /\ family_ok s k (S t) rest
    end
  end.
Definition related (s : list nop) (k : Z) (b e : nat) (x y : vec) : Prop :=
  cycle_of s k b x /\ cycle_of s k e y /\
  exists zs, length zs = S (e - b) /\ family_ok s k b zs /\
             boundary_of s k b (vxor x (hd [] zs)) /\ boundary_of s k e (vxor (last zs []) y).
Definition sweep_state (s : list nop) (k : Z) (b e : nat) : list vec :=
  fold_left (step_rel s k) (firstn (e - b) (skipn (S b) s)) (init_rel s k b).
(* v is the pair (x, y): x at coordinates [0,n), y at [n,2n), nothing above *)
Definition is_pair (n : nat) (v x y : vec) : Prop :=
  (forall j, (j < n)%nat -> get v j = get x j /\ get v (n + j)%nat = get y j) /\ (forall j, (2 * n <= j)%nat -> get v j = false).

(* ------------------------------------------------------------------ 1. the table entry is the rank of the sweep state *)
Theorem rfun_is_sweep_state : forall s k b e, (b <= e)%nat -> (e < length s)%nat ->
  rfun (length s) (rtab s k) (Z.of_nat b) (Z.of_nat e) = rel_rank (length s) (sweep_state s k b e).
Proof.
  intros s k b e Hbe He. rewrite C07_Ident.rfun_row by assumption. unfold rrow, sweep_state.
  apply C07_InsOnly.sweep_unroll. rewrite skipn_length. lia.
Qed.

Lemma sweep_state_start : forall s k b, sweep_state s k b b = init_rel s k b.
Proof. intros. unfold sweep_state. rewrite Nat.sub_diag. reflexivity. Qed.

Lemma firstn_S_nth : forall (l : list nop) m o, nth_error l m = Some o -> firstn (S m) l = firstn m l ++ [o].
Proof.
  induction l as [|a l IH]; intros m o H.
  - destruct m; discriminate H.
  - destruct m as [|m].
    + cbn in H. inversion H. reflexivity.
    + cbn [nth_error] in H. change (firstn (S (S m)) (a :: l)) with (a :: firstn (S m) l).
      rewrite (IH m o H). reflexivity.
Qed.

Lemma sweep_state_step : forall s k b e, (b <= e)%nat -> (S e < length s)%nat ->
  sweep_state s k b (S e) = step_rel s k (sweep_state s k b e) (nth (S e) s NId).
Proof.
  intros s k b e Hbe He. unfold sweep_state.
  assert (E : nth_error (skipn (S b) s) (e - b) = Some (nth (S e) s NId)).
  { rewrite C07_Ident.nth_error_skipn_nop. replace (S b + (e - b))%nat with (S e) by lia.
    apply nth_error_nth'. assumption. }
  replace (S e - b)%nat with (S (e - b)) by lia. rewrite (firstn_S_nth _ _ _ E), fold_left_app. reflexivity.
Qed.

(* ------------------------------------------------------------------ 2. one step of [present] *)
Lemma present_aux_snoc : forall f i cur t,
  present_aux i cur t (S f) =
  match nth_error t f with
  | Some (NIns _ _) => (i + f)%nat :: present_aux i cur t f
  | Some (NRem u) => remove_nat u (present_aux i cur t f)
  | _ => present_aux i cur t f
  end.
Proof.
  induction f as [|f IH]; intros i cur t.
  - destruct t as [|[d bd|u|] t]; cbn [present_aux nth_error]; rewrite ?C07_Valid.present_aux_0, ?Nat.add_0_r; reflexivity.
  - destruct t as [|o t]; [reflexivity|].
    change (nth_error (o :: t) (S f)) with (nth_error t f).
    destruct o as [d bd|u|].
    + change (present_aux i cur (NIns d bd :: t) (S (S f))) with (present_aux (S i) (i :: cur) t (S f)).
      change (present_aux i cur (NIns d bd :: t) (S f)) with (present_aux (S i) (i :: cur) t f).
      rewrite IH. replace (S i + f)%nat with (i + S f)%nat by lia. reflexivity.
    + change (present_aux i cur (NRem u :: t) (S (S f))) with (present_aux (S i) (remove_nat u cur) t (S f)).
      change (present_aux i cur (NRem u :: t) (S f)) with (present_aux (S i) (remove_nat u cur) t f).
      rewrite IH. replace (S i + f)%nat with (i + S f)%nat by lia. reflexivity.
    + change (present_aux i cur (NId :: t) (S (S f))) with (present_aux (S i) cur t (S f)).
      change (present_aux i cur (NId :: t) (S f)) with (present_aux (S i) cur t f).
      rewrite IH. replace (S i + f)%nat with (i + S f)%nat by lia. reflexivity.
Qed.

Lemma present_step : forall s e, (S e < length s)%nat ->
  present s (S e) =
  match nth (S e) s NId with
  | NIns _ _ => S e :: present s e
  | NRem u => remove_nat u (present s e)
  | NId => present s e
  end.
Proof.
  intros s e He. unfold present. rewrite present_aux_snoc.
  rewrite (nth_error_nth' s NId He). destruct (nth (S e) s NId); reflexivity.
Qed.

(* ------------------------------------------------------------------ 3. cycles and boundaries *)
Lemma span_closed : forall (P : vec -> Prop) M, P [] -> (forall a b, P a -> P b -> P (vxor a b)) ->
  (forall a b, veq a b -> P a -> P b) -> (forall w, In w M -> P w) -> forall v, span M v -> P v.
Proof.
  intros P M P0 Px Pe. induction M as [|m M IH]; intros HM v [cs Hc].
  - rewrite lincomb_nil_r in Hc. apply (Pe []); [apply veq_sym; assumption|assumption].
  - destruct cs as [|c cs].
    + apply (Pe []); [apply veq_sym; assumption|assumption].
    + rewrite lincomb_cons in Hc.
      assert (Q : P (lincomb cs M)) by (apply IH; [intros w Hw; apply HM; right; assumption|exists cs; apply veq_refl]).
      destruct c.
      * apply (Pe (vxor m (lincomb cs M))); [apply veq_sym; assumption|]. apply Px; [apply HM; left; reflexivity|assumption].
      * apply (Pe (lincomb cs M)); [apply veq_sym; assumption|assumption].
Qed.

Lemma of_idx_support : forall v, veq v (of_idx (support v)).
Proof.
  intros v j. unfold support. rewrite C07_Bridge.get_of_idx_nodup by (apply NoDup_filter, seq_NoDup).
  destruct (get v j) eqn:E; symmetry.
  - apply C07_Valid.memn_In. apply filter_In. split; [|exact E]. apply in_seq. split; [lia|].
    destruct (le_lt_dec (length v) j) as [H|H]; [|lia]. rewrite C07_Bridge.get_beyond in E by assumption. discriminate.
  - apply C07_Valid.memn_false. intros H. apply filter_In in H. destruct H as [_ H]. congruence.
Qed.

Lemma kcells_in : forall s k i c, In c (kcells s k i) <-> In c (present s i) /\ dim_of s c = k.
Proof. intros. unfold kcells, cells_of_dim. rewrite filter_In, Z.eqb_eq. tauto. Qed.

Lemma cycle_of_zero : forall s k i, cycle_of s k i [].
Proof.
  intros s k i. split.
  - intros c H. rewrite get_nil in H. discriminate.
  - intros j. apply get_nil.
Qed.

Lemma cycle_of_xor : forall s k i a b, cycle_of s k i a -> cycle_of s k i b -> cycle_of s k i (vxor a b).
Proof.
  intros s k i a b [A1 A2] [B1 B2]. split.
  - intros c H. rewrite get_vxor in H. destruct (get a c) eqn:E; [apply A1; assumption|]. apply B1.
    destruct (get b c); [reflexivity|discriminate].
  - intros j. rewrite (C07_ELZ.bdmap_xor s a b j), get_vxor, A2, B2. reflexivity.
Qed.

Lemma cycle_of_veq : forall s k i a b, veq a b -> cycle_of s k i a -> cycle_of s k i b.
Proof.
  intros s k i a b Hab [A1 A2]. split.
  - intros c H. apply A1. rewrite (Hab c). assumption.
  - intros j. rewrite <- (C07_ELZ.bdmap_veq s a b Hab j). apply A2.
Qed.

Lemma cycle_of_small : forall s k i z j, cycle_of s k i z -> (length s <= j)%nat -> get z j = false.
Proof.
  intros s k i z j [H _] Hj. destruct (get z j) eqn:E; [|reflexivity].
  apply H in E. apply kcells_in in E. destruct E as [E _]. apply C07_Valid.present_le in E. lia.
Qed.

Lemma boundary_is_cycle : forall s k i w, valid s = true -> boundary_of s k i w -> cycle_of s k i w.
Proof.
  intros s k i w Hv. unfold boundary_of, init_bnds. apply span_closed.
  - apply cycle_of_zero.
  - apply cycle_of_xor.
  - apply cycle_of_veq.
  - intros x Hx. apply in_map_iff in Hx. destruct Hx as [t [E Ht]]. subst x.
    unfold cells_of_dim in Ht. apply filter_In in Ht. destruct Ht as [Ht Hd]. apply Z.eqb_eq in Hd. split.
    + intros c Hc. apply C07_Bridge.get_of_idx_true_In in Hc.
      destruct (C07_Valid.valid_closed s i t c Hv Ht Hc) as [H1 H2]. apply kcells_in. split; [assumption|lia].
    + intros j. rewrite (C07_ELZ.bdmap_of_idx s (bd_of s t) j).
      apply C07_Betti.is_zero_vec_get. apply (C07_Valid.valid_dd_zero s i t Hv Ht).
Qed.

Lemma boundary_zero : forall s k i w, veq w [] -> boundary_of s k i w.
Proof. intros. apply span_zero. assumption. Qed.

Lemma boundary_small : forall s k i w j, valid s = true -> boundary_of s k i w -> (length s <= j)%nat -> get w j = false.
Proof. intros s k i w j Hv H Hj. apply (cycle_of_small s k i w j); [apply boundary_is_cycle; assumption|assumption]. Qed.

Lemma bnds_incl : forall s k i j, (forall c, In c (present s i) -> In c (present s j)) ->
  forall w, boundary_of s k i w -> boundary_of s k j w.
Proof.
  unfold boundary_of, init_bnds. intros s k i j H w Hw. eapply span_incl; [|eassumption].
  intros x Hx. apply in_map_iff in Hx. destruct Hx as [t [E Ht]]. apply in_map_iff. exists t. split; [assumption|].
  unfold cells_of_dim in *. apply filter_In in Ht. destruct Ht as [A B]. apply filter_In. split; [apply H; assumption|assumption].
Qed.

Lemma present_sub_big_l : forall s e, (S e < length s)%nat -> forall c, In c (present s e) -> In c (present s (big s e)).
Proof.
  intros s e He c Hc. unfold big. pose proof (present_step s e He) as P.
  destruct (nth (S e) s NId) as [d bd|u|]; [rewrite P; right; assumption|assumption|rewrite P; assumption].
Qed.

Lemma present_sub_big_r : forall s e, (S e < length s)%nat -> forall c, In c (present s (S e)) -> In c (present s (big s e)).
Proof.
  intros s e He c Hc. unfold big. pose proof (present_step s e He) as P.
  destruct (nth (S e) s NId) as [d bd|u|]; [assumption| |assumption].
  rewrite P in Hc. apply C07_Valid.In_remove_nat in Hc. apply Hc.
Qed.

(* ------------------------------------------------------------------ 4. families *)
Lemma family_ok_snoc : forall s k zs t z', zs <> [] ->
  (family_ok s k t (zs ++ [z']) <->
   family_ok s k t zs /\ cycle_of s k (t + length zs)%nat z' /\
   boundary_of s k (big s (t + length zs - 1)%nat) (vxor (last zs []) z')).
Proof.
  intros s k. induction zs as [|z zs IH]; intros t z' Hne; [congruence|].
  destruct zs as [|z2 r].
  - cbn [app family_ok length last]. replace (t + 1)%nat with (S t) by lia. replace (S t - 1)%nat with t by lia. tauto.
  - assert (Hne' : z2 :: r <> []) by discriminate. specialize (IH (S t) z' Hne').
    change ((z :: z2 :: r) ++ [z']) with (z :: (z2 :: r) ++ [z']).
    change (family_ok s k t (z :: (z2 :: r) ++ [z']))
      with (cycle_of s k t z /\ boundary_of s k (big s t) (vxor z z2) /\ family_ok s k (S t) ((z2 :: r) ++ [z'])).
    change (family_ok s k t (z :: z2 :: r))
      with (cycle_of s k t z /\ boundary_of s k (big s t) (vxor z z2) /\ family_ok s k (S t) (z2 :: r)).
    change (last (z :: z2 :: r) []) with (last (z2 :: r) []).
    replace (t + length (z :: z2 :: r))%nat with (S t + length (z2 :: r))%nat by (cbn [length]; lia).
    rewrite IH. tauto.
Qed.

Lemma family_ok_last : forall s k zs t, family_ok s k t zs -> cycle_of s k (t + length zs - 1)%nat (last zs []).
Proof.
  intros s k. induction zs as [|z zs IH]; intros t H; [destruct H|].
  destruct zs as [|z2 r].
  - cbn [length last]. replace (t + 1 - 1)%nat with t by lia. apply H.
  - destruct H as [_ [_ H]]. apply IH in H. change (last (z :: z2 :: r) []) with (last (z2 :: r) []).
    replace (t + length (z :: z2 :: r) - 1)%nat with (S t + length (z2 :: r) - 1)%nat by (cbn [length]; lia). exact H.
Qed.

Lemma related_add_bnd : forall s k b e x y w, valid s = true ->
  related s k b e x y -> boundary_of s k e w -> related s k b e x (vxor y w).
Proof.
  intros s k b e x y w Hv (Hx & Hy & zs & Hl & Hf & H1 & H2) Hw. split; [assumption|]. split.
  - apply cycle_of_xor; [assumption|apply boundary_is_cycle; assumption].
  - exists zs. repeat split; try assumption.
    unfold boundary_of in *. eapply span_veq; [|apply (span_xor _ _ _ H2 Hw)]. vsolve.
Qed.

Lemma is_pair_veq : forall n v x y y', veq y y' -> is_pair n v x y -> is_pair n v x y'.
Proof.
  intros n v x y y' H [A B]. split; [|assumption]. intros j Hj. destruct (A j Hj) as [A1 A2]. split; [assumption|].
  rewrite A2. apply H.
Qed.

Lemma related_step : forall s k b e x y', valid s = true -> (b <= e)%nat -> (S e < length s)%nat ->
  (related s k b (S e) x y' <->
   cycle_of s k (S e) y' /\ exists y, related s k b e x y /\ boundary_of s k (big s e) (vxor y y')).
Proof.
  intros s k b e x y' Hv Hbe He. split.
  - intros (Hx & Hy & zs & Hl & Hf & H1 & H2). split; [assumption|].
    destruct (exists_last (l := zs)) as [zs0 [z1 E]]; [intros E; subst zs; discriminate Hl|]. subst zs.
    rewrite app_length in Hl. cbn [length] in Hl.
    assert (Hl0 : length zs0 = S (e - b)) by lia.
    assert (Hne : zs0 <> []) by (intros E; subst zs0; discriminate Hl0).
    apply family_ok_snoc in Hf; [|assumption]. destruct Hf as (Hf & Hc1 & Hb1).
    rewrite Hl0 in Hc1, Hb1. replace (b + S (e - b))%nat with (S e) in Hc1, Hb1 by lia.
    replace (S e - 1)%nat with e in Hb1 by lia.
    rewrite last_last in H2.
    assert (Hhd : hd [] (zs0 ++ [z1]) = hd [] zs0) by (destruct zs0; [congruence|reflexivity]). rewrite Hhd in H1.
    exists (last zs0 []). split.
    + split; [assumption|]. split.
      * pose proof (family_ok_last s k zs0 b Hf) as Q. rewrite Hl0 in Q.
        replace (b + S (e - b) - 1)%nat with e in Q by lia. exact Q.
      * exists zs0. repeat split; try assumption. apply boundary_zero. vsolve.
    + apply (bnds_incl s k (S e) (big s e) (present_sub_big_r s e He)) in H2.
      unfold boundary_of in *. eapply span_veq; [|apply (span_xor _ _ _ Hb1 H2)]. vsolve.
  - intros (Hy' & y & (Hx & Hy & zs & Hl & Hf & H1 & H2) & Hb). split; [assumption|]. split; [assumption|].
    assert (Hne : zs <> []) by (intros E; subst zs; discriminate Hl).
    exists (zs ++ [y']). split; [rewrite app_length; cbn [length]; lia|]. split; [|split].
    + apply family_ok_snoc; [assumption|]. split; [assumption|]. rewrite Hl.
      replace (b + S (e - b))%nat with (S e) by lia. replace (S e - 1)%nat with e by lia. split; [assumption|].
      apply (bnds_incl s k e (big s e) (present_sub_big_l s e He)) in H2.
      unfold boundary_of in *. eapply span_veq; [|apply (span_xor _ _ _ H2 Hb)]. vsolve.
    + destruct zs; [congruence|exact H1].
    + rewrite last_last. apply boundary_zero. vsolve.
Qed.

(* ------------------------------------------------------------------ 5. the start of the sweep *)
Lemma cycle_of_cycles : forall s k b c, valid s = true -> (b < length s)%nat ->
  (span (C07_InsOnly.cycles s k b) c <-> cycle_of s k b c).
Proof.
  intros s k b c Hv Hb. rewrite (C07_InsOnly.cycles_are_the_cycles s k b c Hv Hb). split.
  - intros [cs [H1 [H2 H3]]]. split.
    + intros c0 Hc. rewrite (H2 c0) in Hc. apply C07_Bridge.get_of_idx_true_In in Hc. apply H1. assumption.
    + intros j. rewrite (C07_ELZ.bdmap_veq s c (of_idx cs) H2 j), (C07_ELZ.bdmap_of_idx s cs j). apply H3.
  - intros [H1 H2]. exists (support c). split; [|split].
    + intros c0 Hc. apply H1. unfold support in Hc. apply filter_In in Hc. apply Hc.
    + apply of_idx_support.
    + exact H2.
Qed.

Theorem start_is_relation : forall s k b v, valid s = true -> (b < length s)%nat ->
  (span (init_rel s k b) v <-> exists x y, related s k b b x y /\ is_pair (length s) v x y).
Proof.
  intros s k b v Hv Hb.
  assert (Hlt : forall c, In c (present s b) -> (c < length s)%nat) by (intros c Hc; apply (C07_Valid.present_le s b c Hc)).
  assert (Hcl : forall t c, In t (present s b) -> In c (bd_of s t) -> In c (present s b) /\ dim_of s c = (dim_of s t - 1)%Z)
    by (intros t c Ht Hc; apply (C07_Valid.valid_closed s b t c Hv Ht Hc)).
  pose proof (C07_Betti.cyc_sym s k b Hlt Hcl) as Hsym. pose proof (C07_Betti.cyc_vanish s k b Hlt Hcl) as Hvan.
  pose proof (C07_Betti.cyc_spec s k b) as Hspec.
  rewrite init_rel_spec. set (n := length s) in *. split.
  - intros [z [Hg [Hz Hb']]].
    assert (Hcyc : span (fold_left (fun M c => restrict c M) (shift (2 * n) (seq 0 n)) (init_gens s k b)) z).
    { apply Hspec. split; assumption. }
    assert (Hc : cycle_of s k b (xpart n z)).
    { apply cycle_of_cycles; [assumption|lia|]. unfold C07_InsOnly.cycles. cbv zeta. fold n.
      apply C07_Betti.span_map; [apply C07_Betti.linear_xpart|exact Hcyc]. }
    pose proof (fun j => Hsym z j Hcyc) as Hsz. pose proof (fun j => Hvan z j Hcyc) as Hvz. clear Hsym Hvan.
    rename Hsz into Hsym. rename Hvz into Hvan.
    assert (Hbeta : forall j, (n <= j)%nat -> get v j = get z j).
    { intros j Hj. pose proof (boundary_small s k b _ j Hv Hb' ltac:(lia)) as Q. rewrite get_vxor in Q.
      destruct (get v j), (get z j); try reflexivity; discriminate Q. }
    assert (E1 : veq (xpart n z) (ypart n v)).
    { intros j. rewrite C07_Betti.get_xpart, C07_Betti.get_ypart. destruct (Nat.ltb_spec j n) as [Hj|Hj]; [|reflexivity].
      rewrite Hbeta by lia. apply Hsym; assumption. }
    assert (E2 : veq (vxor v z) (vxor (xpart n v) (xpart n z))).
    { intros j. rewrite !get_vxor, !C07_Betti.get_xpart. destruct (Nat.ltb_spec j n) as [Hj|Hj]; [reflexivity|].
      rewrite Hbeta by lia. destruct (get z j); reflexivity. }
    exists (xpart n v), (ypart n v). split.
    + split; [|split].
      * apply (cycle_of_veq _ _ _ (vxor (xpart n z) (vxor v z))).
        -- intros j. rewrite get_vxor, (E2 j), !get_vxor. destruct (get (xpart n z) j), (get (xpart n v) j); reflexivity.
        -- apply cycle_of_xor; [assumption|apply boundary_is_cycle; assumption].
      * apply (cycle_of_veq _ _ _ (xpart n z)); assumption.
      * exists [xpart n z]. split; [rewrite Nat.sub_diag; reflexivity|]. split; [split; [exact Hc|exact I]|].
        cbn [hd last]. split.
        -- unfold boundary_of. eapply span_veq; [exact E2|exact Hb'].
        -- apply boundary_zero. intros j. rewrite get_vxor, (E1 j), get_nil. apply xorb_nilpotent.
    + split.
      * intros j Hj. rewrite C07_Betti.get_xpart, C07_Betti.get_ypart.
        destruct (Nat.ltb_spec j n) as [Hj'|Hj']; [split; reflexivity|lia].
      * intros j Hj. rewrite Hbeta by lia. apply Hvan; lia.
  - intros [x [y [(Hx & Hy & zs & Hl & Hf & H1 & H2) [P1 P2]]]].
    rewrite Nat.sub_diag in Hl. destruct zs as [|z0 [|z1 zs]]; try discriminate Hl. cbn [hd last] in H1, H2.
    assert (Hxy : boundary_of s k b (vxor x y)).
    { unfold boundary_of in *. eapply span_veq; [|apply (span_xor _ _ _ H1 H2)]. vsolve. }
    pose proof Hy as Hy'. apply cycle_of_cycles in Hy'; [|assumption|lia]. unfold C07_InsOnly.cycles in Hy'. cbv zeta in Hy'.
    fold n in Hy'.
    destruct (C07_Betti.span_map_inv _ (C07_Betti.linear_xpart n) _ _ Hy') as [zz [Hzz Ezz]].
    pose proof (proj1 (Hspec zz) Hzz) as [Hg Hhigh].
    pose proof (fun j => Hsym zz j Hzz) as Hsz. pose proof (fun j => Hvan zz j Hzz) as Hvz. clear Hsym Hvan.
    rename Hsz into Hsym. rename Hvz into Hvan.
    exists zz. split; [exact Hg|]. split; [exact Hhigh|].
    apply (span_veq _ (vxor x y)); [|exact Hxy]. intros j. rewrite !get_vxor.
    assert (Ey : forall i, (i < n)%nat -> get zz i = get y i).
    { intros i Hi. pose proof (Ezz i) as Q. rewrite C07_Betti.get_xpart in Q.
      destruct (Nat.ltb_spec i n) as [_|Hc]; [exact Q|lia]. }
    destruct (Nat.lt_ge_cases j n) as [Hj|Hj].
    + destruct (P1 j Hj) as [A _]. rewrite A, Ey by assumption. reflexivity.
    + rewrite (cycle_of_small s k b x j Hx) by lia. rewrite (cycle_of_small s k b y j Hy) by lia.
      destruct (Nat.lt_ge_cases j (2 * n)) as [Hj2|Hj2].
      * replace j with (n + (j - n))%nat by lia. destruct (P1 (j - n)%nat ltac:(lia)) as [_ A]. rewrite A.
        rewrite <- Hsym by lia. rewrite Ey by lia. symmetry. apply xorb_nilpotent.
      * rewrite P2, Hvan by assumption. reflexivity.
Qed.

(* ------------------------------------------------------------------ 6. one arrow *)
Lemma step_unchanged : forall s k b e R, valid s = true -> (b <= e)%nat -> (S e < length s)%nat ->
  (forall v, span R v <-> exists x y, related s k b e x y /\ is_pair (length s) v x y) ->
  (forall c, In c (kcells s k e) -> In c (kcells s k (S e))) ->
  (forall w, boundary_of s k (big s e) w -> boundary_of s k e w) ->
  forall v, span R v <-> exists x y, related s k b (S e) x y /\ is_pair (length s) v x y.
Proof.
  intros s k b e R Hv Hbe He IH Hk HB v. rewrite IH. split.
  - intros [x [y [Hr Hp]]]. exists x, y. split; [|assumption]. apply related_step; try assumption. split.
    + destruct Hr as (_ & [Y1 Y2] & _). split; [intros c Hc; apply Hk, Y1, Hc|exact Y2].
    + exists y. split; [assumption|]. apply boundary_zero. vsolve.
  - intros [x [y' [Hr Hp]]]. apply related_step in Hr; try assumption. destruct Hr as [Hy' [y [Hr Hb]]].
    exists x, (vxor y (vxor y y')). split.
    + apply related_add_bnd; [assumption|assumption|apply HB; assumption].
    + eapply is_pair_veq; [|exact Hp]. vsolve.
Qed.

Lemma step_removal_k : forall s k b e R u, valid s = true -> (b <= e)%nat -> (S e < length s)%nat ->
  nth (S e) s NId = NRem u -> dim_of s u = k ->
  (forall v, span R v <-> exists x y, related s k b e x y /\ is_pair (length s) v x y) ->
  forall v, span (step_rel s k R (NRem u)) v <-> exists x y, related s k b (S e) x y /\ is_pair (length s) v x y.
Proof.
  intros s k b e R u Hv Hbe He Eo Hd IH v. rewrite (step_rel_removal s k R u v Hd), IH.
  assert (Hbig : big s e = e) by (unfold big; rewrite Eo; reflexivity).
  assert (Hk : forall c, In c (kcells s k (S e)) <-> In c (kcells s k e) /\ c <> u).
  { intros c. rewrite !kcells_in, (present_step s e He), Eo, C07_Valid.In_remove_nat. tauto. }
  split.
  - intros [[x [y [Hr [P1 P2]]]] Hg]. exists x, y. split; [|split; assumption]. apply related_step; try assumption. split.
    + destruct Hr as (_ & [Y1 Y2] & _). split; [|exact Y2]. intros c Hc. apply Hk. split; [apply Y1; assumption|].
      intros E. subst c. pose proof (Y1 u Hc) as Q. apply kcells_in in Q. destruct Q as [Q _].
      apply C07_Valid.present_le in Q. destruct (P1 u (proj2 Q)) as [_ A]. congruence.
    + exists y. split; [assumption|]. apply boundary_zero. vsolve.
  - intros [x [y' [Hr [P1 P2]]]]. apply related_step in Hr; try assumption. destruct Hr as [Hy' [y [Hr Hb]]].
    rewrite Hbig in Hb. split.
    + exists x, (vxor y (vxor y y')). split.
      * apply related_add_bnd; assumption.
      * eapply is_pair_veq; [|split; eassumption]. vsolve.
    + destruct (Nat.lt_ge_cases u (length s)) as [Hu|Hu]; [|apply P2; lia].
      destruct (P1 u Hu) as [_ A]. rewrite A. destruct (get y' u) eqn:E; [|reflexivity].
      apply (proj1 Hy') in E. apply Hk in E. destruct E as [_ E]. congruence.
Qed.

Lemma step_insertion_k1 : forall s k b e R bd, valid s = true -> (b <= e)%nat -> (S e < length s)%nat ->
  nth (S e) s NId = NIns (k + 1) bd ->
  (forall v, span R v <-> exists x y, related s k b e x y /\ is_pair (length s) v x y) ->
  forall v, span (step_rel s k R (NIns (k + 1) bd)) v <-> exists x y, related s k b (S e) x y /\ is_pair (length s) v x y.
Proof.
  intros s k b e R bd Hv Hbe He Eo IH v. rewrite (step_rel_insertion s k R bd v), !IH.
  set (n := length s) in *.
  assert (Hbig : big s e = S e) by (unfold big; rewrite Eo; reflexivity).
  assert (Hbd : bd_of s (S e) = bd) by (unfold bd_of; rewrite Eo; reflexivity).
  assert (Hdim : dim_of s (S e) = k + 1) by (unfold dim_of; rewrite Eo; reflexivity).
  pose proof (present_step s e He) as P. rewrite Eo in P.
  assert (Hk : forall c, In c (kcells s k e) -> In c (kcells s k (S e))).
  { intros c. rewrite !kcells_in, P. intros [A B]. split; [right; assumption|assumption]. }
  assert (HB : init_bnds s k (S e) = of_idx bd :: init_bnds s k e).
  { unfold init_bnds. rewrite P. cbn [cells_of_dim filter]. rewrite Hdim, Z.eqb_refl. cbn [map]. rewrite Hbd. reflexivity. }
  assert (Hlt : forall c, In c bd -> (c < n)%nat).
  { intros c Hc. rewrite <- Hbd in Hc.
    assert (Hin : In (S e) (present s (S e))) by (rewrite P; left; reflexivity).
    destruct (C07_Valid.valid_closed s (S e) (S e) c Hv Hin Hc) as [Q _]. apply C07_Valid.present_le in Q. apply Q. }
  assert (Hdb : boundary_of s k (S e) (of_idx bd)) by (unfold boundary_of; rewrite HB; apply span_head).
  assert (X1 : forall j, (j < n)%nat -> get (of_idx (shift n bd)) j = false)
    by (intros j Hj; apply C07_Betti.get_of_idx_shift_low; assumption).
  assert (X2 : forall j, get (of_idx (shift n bd)) (n + j) = get (of_idx bd) j)
    by (intros j; apply C07_Betti.get_of_idx_shift).
  assert (X3 : forall j, (2 * n <= j)%nat -> get (of_idx (shift n bd)) j = false).
  { intros j Hj. apply C07_Betti.get_of_idx_notin. intros a Ha. apply C07_Betti.in_shift in Ha.
    destruct Ha as [c [E Hc]]. specialize (Hlt c Hc). lia. }
  split.
  - intros [[x [y [Hr Hp]]]|[x [y [Hr [P1 P2]]]]].
    + exists x, y. split; [|assumption]. apply related_step; try assumption. split.
      * destruct Hr as (_ & [Y1 Y2] & _). split; [intros c Hc; apply Hk, Y1, Hc|exact Y2].
      * exists y. split; [assumption|]. apply boundary_zero. vsolve.
    + exists x, (vxor y (of_idx bd)). split.
      * apply related_step; try assumption. split.
        -- apply cycle_of_xor; [|apply boundary_is_cycle; assumption].
           destruct Hr as (_ & [Y1 Y2] & _). split; [intros c Hc; apply Hk, Y1, Hc|exact Y2].
        -- exists y. split; [assumption|]. rewrite Hbig. unfold boundary_of in *. eapply span_veq; [|exact Hdb]. vsolve.
      * split.
        -- intros j Hj. destruct (P1 j Hj) as [A1 A2]. rewrite get_vxor in A1, A2. rewrite X1 in A1 by assumption.
           rewrite X2 in A2. rewrite get_vxor. rewrite <- A1, <- A2. split.
           ++ destruct (get v j); reflexivity.
           ++ destruct (get v (n + j)), (get (of_idx bd) j); reflexivity.
        -- intros j Hj. specialize (P2 j Hj). rewrite get_vxor, X3 in P2 by assumption. rewrite <- P2.
           destruct (get v j); reflexivity.
  - intros [x [y' [Hr [P1 P2]]]]. apply related_step in Hr; try assumption. destruct Hr as [Hy' [y [Hr Hb]]].
    rewrite Hbig in Hb. unfold boundary_of in Hb. rewrite HB in Hb. apply span_cons_iff in Hb. destruct Hb as [Hb|Hb].
    + left. exists x, (vxor y (vxor y y')). split.
      * apply related_add_bnd; assumption.
      * eapply is_pair_veq; [|split; eassumption]. vsolve.
    + right. exists x, (vxor y (vxor (vxor y y') (of_idx bd))). split.
      * apply related_add_bnd; assumption.
      * split.
        -- intros j Hj. destruct (P1 j Hj) as [A1 A2]. rewrite !get_vxor, X1, X2, A1, A2 by assumption. split.
           ++ destruct (get x j); reflexivity.
           ++ destruct (get y j), (get y' j), (get (of_idx bd) j); reflexivity.
        -- intros j Hj. rewrite get_vxor, X3, P2 by assumption. reflexivity.
Qed.

Lemma step_is_relation : forall s k b e, valid s = true -> (b <= e)%nat -> (S e < length s)%nat ->
  (forall v, span (sweep_state s k b e) v <-> exists x y, related s k b e x y /\ is_pair (length s) v x y) ->
  forall v, span (sweep_state s k b (S e)) v <-> exists x y, related s k b (S e) x y /\ is_pair (length s) v x y.
Proof.
  intros s k b e Hv Hbe He IH. rewrite (sweep_state_step s k b e Hbe He).
  pose proof (present_step s e He) as P.
  destruct (nth (S e) s NId) as [d bd|u|] eqn:Eo.
  - destruct (Z.eq_dec d (k + 1)) as [Ed|Ed].
    + subst d. apply step_insertion_k1; assumption.
    + rewrite (step_rel_other s k _ (NIns d bd) Ed). apply step_unchanged; try assumption.
      * intros c. rewrite !kcells_in, P. intros [A B]. split; [right; assumption|assumption].
      * assert (Hbig : big s e = S e) by (unfold big; rewrite Eo; reflexivity). rewrite Hbig.
        assert (Hdim : dim_of s (S e) = d) by (unfold dim_of; rewrite Eo; reflexivity).
        unfold boundary_of, init_bnds. rewrite P. cbn [cells_of_dim filter]. rewrite Hdim.
        destruct (Z.eqb_spec d (k + 1)) as [E|_]; [contradiction|]. intros w Hw. exact Hw.
  - destruct (Z.eq_dec (dim_of s u) k) as [Ed|Ed].
    + apply (step_removal_k s k b e _ u); assumption.
    + rewrite (step_rel_other s k _ (NRem u) Ed). apply step_unchanged; try assumption.
      * intros c. rewrite !kcells_in, P, C07_Valid.In_remove_nat. intros [A B]. split; [split; [assumption|]|assumption].
        intros E. subst c. contradiction.
      * assert (Hbig : big s e = e) by (unfold big; rewrite Eo; reflexivity). rewrite Hbig. intros w Hw. exact Hw.
  - rewrite (step_rel_other s k _ NId I). apply step_unchanged; try assumption.
    + intros c. rewrite !kcells_in, P. tauto.
    + assert (Hbig : big s e = S e) by (unfold big; rewrite Eo; reflexivity). rewrite Hbig.
      unfold boundary_of, init_bnds. rewrite P. intros w Hw. exact Hw.
Qed.

(* ------------------------------------------------------------------ 7. the sweep state is the relation *)
Theorem sweep_is_relation_gen : forall s k b e v, valid s = true -> (b <= e)%nat -> (e < length s)%nat ->
  (span (sweep_state s k b e) v <-> exists x y, related s k b e x y /\ is_pair (length s) v x y).
Proof.
  intros s k b e v Hv. revert v. induction e as [|e IHe]; intros v Hbe He.
  - assert (b = O) by lia. subst b. rewrite sweep_state_start. apply start_is_relation; assumption.
  - destruct (Nat.eq_dec b (S e)) as [E|E].
    + subst b. rewrite sweep_state_start. apply start_is_relation; assumption.
    + apply step_is_relation; try assumption; try lia. intros v'. apply IHe; lia.
Qed.

Theorem sweep_is_relation : forall s k b e v, valid s = true -> 0 <= k -> (b <= e)%nat -> (e < length s)%nat ->
  (span (sweep_state s k b e) v <-> exists x y, related s k b e x y /\ is_pair (length s) v x y).
Proof. intros s k b e v Hv _ Hbe He. apply sweep_is_relation_gen; assumption. Qed.

(* r_k(b,e) is the rel_rank of ANY list of vectors spanning the pairs of the relation R(b,e) *)
Lemma rank_map_span_invariant : forall F, C07_Betti.linear F -> forall R R', (forall v, span R v <-> span R' v) ->
  rank (map F R) = rank (map F R').
Proof.
  intros F HF R R' H. apply rank_span_invariant. intros u. split; intros Hu;
    destruct (C07_Betti.span_map_inv F HF _ _ Hu) as [w [Hw Ew]];
    (eapply span_veq; [exact Ew|]; apply C07_Betti.span_map; [assumption|]; apply H; assumption).
Qed.

Lemma rel_rank_span_invariant : forall n R R', (forall v, span R v <-> span R' v) -> rel_rank n R = rel_rank n R'.
Proof.
  intros n R R' H. unfold rel_rank.
  pose proof (rank_map_span_invariant _ (C07_Betti.linear_xpart n) R R' H) as A.
  pose proof (rank_map_span_invariant _ (C07_Betti.linear_ypart n) R R' H) as B.
  pose proof (rank_map_span_invariant _ (C07_Betti.linear_firstn (2 * n)%nat) R R' H) as C.
  rewrite A, B. f_equal. exact C.
Qed.

Corollary rfun_is_relation_rank : forall s k b e R, valid s = true -> (b <= e)%nat -> (e < length s)%nat ->
  (forall v, span R v <-> exists x y, related s k b e x y /\ is_pair (length s) v x y) ->
  rfun (length s) (rtab s k) (Z.of_nat b) (Z.of_nat e) = rel_rank (length s) R.
Proof.
  intros s k b e R Hv Hbe He H. rewrite rfun_is_sweep_state by assumption. apply rel_rank_span_invariant.
  intros v. rewrite H. apply sweep_is_relation_gen; assumption.
Qed.

Print Assumptions rfun_is_sweep_state.
Print Assumptions start_is_relation.
Print Assumptions sweep_is_relation_gen.
Print Assumptions sweep_is_relation.
Print Assumptions rfun_is_relation_rank.
