(* C07 - zigzag persistence.  Dropping the cells of dimension > dimmax (ignore_cycles_above_dim of
   Filtered_zigzag_persistence_with_storage) does not change the bars of dimension < dimmax of the specification
   barcode of C07_Model.v.  Purely syntactic: the relation sweep of dimension k only reads the cells of dimension
   k and k+1. *)
From Coq Require Import ZArith List Bool Arith Lia.
Require Import C07_Model.
Import ListNotations.
Open Scope Z_scope.

(* what Filtered_zigzag_persistence_with_storage does with ignore_cycles_above_dim = dimmax, read on normalised sequences:
   arrows that insert or remove a cell of dimension > dimmax become identity arrows *)

(* ------------------------------------------------------------------ 1. length, nth *)
Lemma skip_high_length : forall dimmax s, length (skip_high dimmax s) = length s.
Proof. intros. unfold skip_high. apply map_length. Qed.

Lemma skip_high_nth : forall dimmax s u,
  nth u (skip_high dimmax s) NId = skip_op dimmax s (nth u s NId).
Proof. intros. unfold skip_high. exact (map_nth (skip_op dimmax s) s NId u). Qed.

(* ------------------------------------------------------------------ 2. dim_of, bd_of, cells_of_dim *)
Lemma skip_high_dim_of : forall dimmax s u,
  dim_of (skip_high dimmax s) u = if dimmax <? dim_of s u then -1 else dim_of s u.
Proof.
  intros. unfold dim_of. rewrite skip_high_nth.
  destruct (nth u s NId) as [d bd | v | ]; simpl;
    repeat match goal with |- context[if ?c then _ else _] => destruct c end; reflexivity.
Qed.

Lemma skip_high_dim_eqb : forall dimmax s u j, 0 <= j <= dimmax ->
  (dim_of (skip_high dimmax s) u =? j) = (dim_of s u =? j).
Proof.
  intros dimmax s u j H. rewrite skip_high_dim_of.
  destruct (dimmax <? dim_of s u) eqn:E; [|reflexivity].
  apply Z.ltb_lt in E.
  transitivity false; [|symmetry]; apply Z.eqb_neq; lia.
Qed.

Lemma skip_high_bd_of : forall dimmax s u, dim_of s u <= dimmax ->
  bd_of (skip_high dimmax s) u = bd_of s u.
Proof.
  intros dimmax s u. unfold dim_of at 1. unfold bd_of. rewrite skip_high_nth.
  destruct (nth u s NId) as [d bd | v | ]; simpl; intros H.
  - destruct (dimmax <? d) eqn:E; [apply Z.ltb_lt in E; lia | reflexivity].
  - destruct (dimmax <? _); reflexivity.
  - reflexivity.
Qed.

Lemma skip_high_cells : forall dimmax s j l, 0 <= j <= dimmax ->
  cells_of_dim (skip_high dimmax s) j l = cells_of_dim s j l.
Proof.
  intros. unfold cells_of_dim. apply filter_ext. intros. apply skip_high_dim_eqb; assumption.
Qed.

(* ------------------------------------------------------------------ 3. present *)
Lemma cells_cons : forall s j i l,
  cells_of_dim s j (i :: l) = if dim_of s i =? j then i :: cells_of_dim s j l else cells_of_dim s j l.
Proof. reflexivity. Qed.

Lemma cells_remove_other : forall s j u l, dim_of s u <> j ->
  cells_of_dim s j (remove_nat u l) = cells_of_dim s j l.
Proof.
  intros s j u l H. unfold cells_of_dim, remove_nat. induction l as [|x l IH]; simpl; [reflexivity|].
  destruct (Nat.eqb x u) eqn:E; simpl.
  - apply Nat.eqb_eq in E. subst x. rewrite IH.
    destruct (dim_of s u =? j) eqn:F; [apply Z.eqb_eq in F; contradiction | reflexivity].
  - rewrite IH. reflexivity.
Qed.

Lemma cells_remove_comm : forall s j u l,
  cells_of_dim s j (remove_nat u l) = remove_nat u (cells_of_dim s j l).
Proof.
  intros. unfold cells_of_dim, remove_nat. induction l as [|x l IH]; simpl; [reflexivity|].
  destruct (Nat.eqb x u) eqn:E; destruct (dim_of s x =? j) eqn:F; simpl; rewrite ?E, ?F, IH; reflexivity.
Qed.

Lemma skipn_cons_nth : forall (s : list nop) i o t,
  skipn i s = o :: t -> nth i s NId = o /\ skipn (S i) s = t.
Proof.
  intros s i; revert s. induction i as [|i IH]; intros s o t H.
  - destruct s; simpl in H; [discriminate|]. injection H as -> ->. split; reflexivity.
  - destruct s as [|a s]; simpl in H; [discriminate|]. apply IH in H. exact H.
Qed.

Lemma present_aux_skip : forall dimmax s, 0 <= dimmax -> forall fuel i cur1 cur2 t,
  skipn i s = t ->
  (forall j, 0 <= j <= dimmax -> cells_of_dim s j cur1 = cells_of_dim s j cur2) ->
  forall j, 0 <= j <= dimmax ->
  cells_of_dim s j (present_aux i cur1 (map (skip_op dimmax s) t) fuel)
  = cells_of_dim s j (present_aux i cur2 t fuel).
Proof.
  intros dimmax s Hd. induction fuel as [|f IH]; intros i cur1 cur2 t Ht Hc j Hj.
  - destruct t; simpl; auto.
  - destruct t as [|o t']; [simpl; auto|].
    apply skipn_cons_nth in Ht. destruct Ht as [Hn Hs].
    destruct o as [d bd | u | ]; simpl.
    + assert (Hdim : dim_of s i = d) by (unfold dim_of; rewrite Hn; reflexivity).
      destruct (dimmax <? d) eqn:E; simpl; apply IH; auto; intros j' Hj'; rewrite !cells_cons, Hdim.
      * apply Z.ltb_lt in E.
        destruct (d =? j') eqn:F; [apply Z.eqb_eq in F; lia|]. auto.
      * rewrite Hc by auto. reflexivity.
    + destruct (dimmax <? dim_of s u) eqn:E; simpl; apply IH; auto; intros j' Hj'.
      * apply Z.ltb_lt in E. rewrite cells_remove_other by lia. auto.
      * rewrite !cells_remove_comm. rewrite Hc by auto. reflexivity.
    + apply IH; auto.
Qed.

Lemma present_skip : forall dimmax s b j, 0 <= j <= dimmax ->
  cells_of_dim s j (present (skip_high dimmax s) b) = cells_of_dim s j (present s b).
Proof.
  intros. unfold present, skip_high. apply present_aux_skip with (dimmax := dimmax); auto. lia.
Qed.

(* ------------------------------------------------------------------ 4. init_rel *)
Lemma init_rel_skip : forall dimmax s k b, 0 <= k < dimmax ->
  init_rel (skip_high dimmax s) k b = init_rel s k b.
Proof.
  intros dimmax s k b H. unfold init_rel. cbv zeta. rewrite skip_high_length.
  rewrite !skip_high_cells by lia. rewrite !present_skip by lia.
  f_equal.
  - f_equal. apply map_ext_in. intros c Hc. unfold cells_of_dim in Hc. apply filter_In in Hc.
    destruct Hc as [_ Hc]. apply Z.eqb_eq in Hc. rewrite skip_high_bd_of by lia. reflexivity.
  - apply map_ext_in. intros c Hc. unfold cells_of_dim in Hc. apply filter_In in Hc.
    destruct Hc as [_ Hc]. apply Z.eqb_eq in Hc. rewrite skip_high_bd_of by lia. reflexivity.
Qed.

(* ------------------------------------------------------------------ 5. step_rel *)
Lemma step_rel_skip : forall dimmax s k R o, 0 <= k < dimmax ->
  step_rel (skip_high dimmax s) k R (skip_op dimmax s o) = step_rel s k R o.
Proof.
  intros dimmax s k R o H. unfold step_rel. cbv zeta. rewrite skip_high_length.
  destruct o as [d bd | u | ]; simpl.
  - destruct (dimmax <? d) eqn:E.
    + apply Z.ltb_lt in E. destruct (d =? k + 1) eqn:F; [apply Z.eqb_eq in F; lia | reflexivity].
    + reflexivity.
  - destruct (dimmax <? dim_of s u) eqn:E.
    + apply Z.ltb_lt in E. destruct (dim_of s u =? k) eqn:F; [apply Z.eqb_eq in F; lia | reflexivity].
    + rewrite skip_high_dim_eqb by lia. reflexivity.
  - reflexivity.
Qed.

(* ------------------------------------------------------------------ 6. sweep, rrow, rtab, bars_of_dim *)
Lemma sweep_skip : forall dimmax s k rest R, 0 <= k < dimmax ->
  sweep (skip_high dimmax s) k R (map (skip_op dimmax s) rest) = sweep s k R rest.
Proof.
  intros dimmax s k rest R H. revert R. induction rest as [|o rest IH]; intros R; simpl; [reflexivity|].
  rewrite step_rel_skip by assumption. rewrite skip_high_length. rewrite IH. reflexivity.
Qed.

Lemma skipn_map_nop : forall (f : nop -> nop) n l, skipn n (map f l) = map f (skipn n l).
Proof.
  intros f n. induction n as [|n IH]; intros l; [reflexivity|].
  destruct l; simpl; [reflexivity | apply IH].
Qed.

Lemma rrow_skip : forall dimmax s k b, 0 <= k < dimmax ->
  rrow (skip_high dimmax s) k b = rrow s k b.
Proof.
  intros dimmax s k b H. unfold rrow. cbv zeta.
  rewrite init_rel_skip by assumption. rewrite skip_high_length.
  f_equal. unfold skip_high at 2. rewrite skipn_map_nop. apply sweep_skip; assumption.
Qed.

Lemma rtab_skip : forall dimmax s k, 0 <= k < dimmax ->
  rtab (skip_high dimmax s) k = rtab s k.
Proof.
  intros dimmax s k H. unfold rtab. rewrite skip_high_length.
  apply map_ext. intros b. apply rrow_skip; assumption.
Qed.

(* MAIN THEOREM: the bars of dimension k < dimmax do not change when all the cells of dimension > dimmax are dropped.
   No hypothesis on the sequence (not even validity). *)
Theorem skip_high_bars : forall dimmax s k, 0 <= k < dimmax ->
  bars_of_dim (skip_high dimmax s) k = bars_of_dim s k.
Proof.
  intros dimmax s k H. unfold bars_of_dim. cbv zeta.
  rewrite rtab_skip by assumption. rewrite skip_high_length. reflexivity.
Qed.

Print Assumptions skip_high_bars.
