(* C07 - zigzag persistence.  Dropping the cells of dimension > dimmax (ignore_cycles_above_dim of
   Filtered_zigzag_persistence_with_storage) does not change the bars of dimension < dimmax of the specification
   barcode of C07_Model.v.  Purely syntactic: the relation sweep of dimension k only reads the cells of dimension
   k and k+1. *)
From Coq Require Import ZArith List Bool Arith Lia.
Require Import C07_Model.
Import ListNotations.
Open Scope Z_scope.

(* what Filtered_zigzag_persistence_with_storage does with ignore_cycles_above_dim = dimmax, read on normalised sequences:
   arrows that insert or remove a cell of dimension > dimmax become identity arrows *)

(* ------------------------------------------------------------------ 1. length, nth *)
Lemma skip_high_length : forall dimmax s, length (skip_high dimmax s) = length s.
Proof. intros. unfold skip_high. apply map_length. Qed.

Lemma skip_high_nth : forall dimmax s u,
  nth u (skip_high dimmax s) NId = skip_op dimmax s (nth u s NId).
Proof. intros. unfold skip_high. exact (map_nth (skip_op dimmax s) s NId u). Qed.

(* ------------------------------------------------------------------ 2. dim_of, bd_of, cells_of_dim *)
Lemma skip_high_dim_of : forall dimmax s u,
  dim_of (skip_high dimmax s) u = if dimmax <? dim_of s u then -1 else dim_of s u.
Proof.
  intros. unfold dim_of. rewrite skip_high_nth.
  destruct (nth u s NId) as [d bd | v | ]; simpl;
    repeat match goal with |- context[if ?c then _ else _] => destruct c end; reflexivity.
Qed.

Lemma skip_high_dim_eqb : forall dimmax s u j, 0 <= j <= dimmax ->
  (dim_of (skip_high dimmax s) u =? j) = (dim_of s u =? j).
Proof.
  intros dimmax s u j H. rewrite skip_high_dim_of.
  destruct (dimmax <? dim_of s u) eqn:E; [|reflexivity].
  apply Z.ltb_lt in E.
  transitivity false; [|symmetry]; apply Z.eqb_neq; lia.
Qed.

Lemma skip_high_bd_of : forall dimmax s u, dim_of s u <= dimmax ->
  bd_of (skip_high dimmax s) u = bd_of s u.
Proof.
  intros dimmax s u. unfold dim_of at 1. unfold bd_of. rewrite skip_high_nth.
  destruct (nth u s NId) as [d bd | v | ]; simpl; intros H.
  - destruct (dimmax <? d) eqn:E; [apply Z.ltb_lt in E; lia | reflexivity].
  - destruct (dimmax <? _); reflexivity.
  - reflexivity.
Qed.

Lemma skip_high_cells : forall dimmax s j l, 0 <= j <= dimmax ->
  cells_of_dim (skip_high dimmax s) j l = cells_of_dim s j l.
Proof.
  intros. unfold cells_of_dim. apply filter_ext. intros. apply skip_high_dim_eqb; assumption.
Qed.

(* ------------------------------------------------------------------ 3. present *)
Lemma cells_cons : forall s j i l,
  cells_of_dim s j (i :: l) = if dim_of s i =? j then i :: cells_of_dim s j l else cells_of_dim s j l.
Proof. reflexivity. Qed.

Lemma cells_remove_other : forall s j u l, dim_of s u <> j ->
  cells_of_dim s j (remove_nat u l) = cells_of_dim s j l.
Proof.
  intros s j u l H. unfold cells_of_dim, remove_nat. induction l as [|x l IH]; simpl; [reflexivity|].
  destruct (Nat.eqb x u) eqn:E; simpl.
  - apply Nat.eqb_eq in E. subst x. rewrite IH.
    destruct (dim_of s u =? j) eqn:F; [apply Z.eqb_eq in F; contradiction | reflexivity].
  - rewrite IH. reflexivity.
Qed.

Lemma cells_remove_comm : forall s j u l,
  cells_of_dim s j (remove_nat u l) = remove_nat u (cells_of_dim s j l).
Proof.
  intros. unfold cells_of_dim, remove_nat. induction l as [|x l IH]; simpl; [reflexivity|].
  destruct (Nat.eqb x u) eqn:E; destruct (dim_of s x =? j) eqn:F; simpl; rewrite ?E, ?F, IH; reflexivity.
Qed.

Lemma skipn_cons_nth : forall (s : list nop) i o t,
  skipn i s = o :: t -> nth i s NId = o /\ skipn (S i) s = t.
Proof.
  intros s i; revert s. induction i as [|i IH]; intros s o t H.
  - destruct s; simpl in H; [discriminate|]. injection H as -> ->. split; reflexivity.
  - destruct s as [|a s]; simpl in H; [discriminate|]. apply IH in H. exact H.
Qed.

Lemma present_aux_skip : forall dimmax s, 0 <= dimmax -> forall fuel i cur1 cur2 t,
  skipn i s = t ->
  (forall j, 0 <= j <= dimmax -> cells_of_dim s j cur1 = cells_of_dim s j cur2) ->
  forall j, 0 <= j <= dimmax ->
  cells_of_dim s j (present_aux i cur1 (map (skip_op dimmax s) t) fuel)
  = cells_of_dim s j (present_aux i cur2 t fuel).
Proof.
  intros dimmax s Hd. induction fuel as [|f IH]; intros i cur1 cur2 t Ht Hc j Hj.
  - destruct t; simpl; auto.
  - destruct t as [|o t']; [simpl; auto|].
    apply skipn_cons_nth in Ht. destruct Ht as [Hn Hs].
    destruct o as [d bd | u | ]; simpl.
    + assert (Hdim : dim_of s i = d) by (unfold dim_of; rewrite Hn; reflexivity).
      destruct (dimmax <? d) eqn:E; simpl; apply IH; auto; intros j' Hj'; rewrite !cells_cons, Hdim.
      * apply Z.ltb_lt in E.
        destruct (d =? j') eqn:F; [apply Z.eqb_eq in F; lia|]. auto.
      * rewrite Hc by auto. reflexivity.
    + destruct (dimmax <? dim_of s u) eqn:E; simpl; apply IH; auto; intros j' Hj'.
      * apply Z.ltb_lt in E. rewrite cells_remove_other by lia. auto.
      * rewrite !cells_remove_comm. rewrite Hc by auto. reflexivity.
    + apply IH; auto.
Qed.

Lemma present_skip : forall dimmax s b j, 0 <= j <= dimmax ->
  cells_of_dim s j (present (skip_high dimmax s) b) = cells_of_dim s j (present s b).
Proof.
  intros. unfold present, skip_high. apply present_aux_skip with (dimmax := dimmax); auto. lia.
Qed.

(* ------------------------------------------------------------------ 4. init_rel *)
Lemma init_rel_skip : forall dimmax s k b, 0 <= k < dimmax ->
  init_rel (skip_high dimmax s) k b = init_rel s k b.
Proof.
  intros dimmax s k b H. unfold init_rel. cbv zeta. rewrite skip_high_length.
  rewrite !skip_high_cells by lia. rewrite !present_skip by lia.
  f_equal.
  - f_equal. apply map_ext_in. intros c Hc. unfold cells_of_dim in Hc. apply filter_In in Hc.
    destruct Hc as [_ Hc]. apply Z.eqb_eq in Hc. rewrite skip_high_bd_of by lia. reflexivity.
  - apply map_ext_in. intros c Hc. unfold cells_of_dim in Hc. apply filter_In in Hc.
    destruct Hc as [_ Hc]. apply Z.eqb_eq in Hc. rewrite skip_high_bd_of by lia. reflexivity.
Qed.

(* ------------------------------------------------------------------ 5. step_rel *)
Lemma step_rel_skip : forall dimmax s k R o, 0 <= k < dimmax ->
  step_rel (skip_high dimmax s) k R (skip_op dimmax s o) = step_rel s k R o.
Proof.
  intros dimmax s k R o H. unfold step_rel. cbv zeta. rewrite skip_high_length.
  destruct o as [d bd | u | ]; simpl.
  - destruct (dimmax <? d) eqn:E.
    + apply Z.ltb_lt in E. destruct (d =? k + 1) eqn:F; [apply Z.eqb_eq in F; lia | reflexivity].
    + reflexivity.
  - destruct (dimmax <? dim_of s u) eqn:E.
    + apply Z.ltb_lt in E. destruct (dim_of s u =? k) eqn:F; [apply Z.eqb_eq in F; lia | reflexivity].
    + rewrite skip_high_dim_eqb by lia. reflexivity.
  - reflexivity.
Qed.

(* ------------------------------------------------------------------ 6. sweep, rrow, rtab, bars_of_dim *)
Lemma sweep_skip : forall dimmax s k rest R, 0 <= k < dimmax ->
  sweep (skip_high dimmax s) k R (map (skip_op dimmax s) rest) = sweep s k R rest.
Proof.
  intros dimmax s k rest R H. revert R. induction rest as [|o rest IH]; intros R; simpl; [reflexivity|].
  rewrite step_rel_skip by assumption. rewrite skip_high_length. rewrite IH. reflexivity.
Qed.

Lemma skipn_map_nop : forall (f : nop -> nop) n l, skipn n (map f l) = map f (skipn n l).
Proof.
  intros f n. induction n as [|n IH]; intros l; [reflexivity|].
  destruct l; simpl; [reflexivity | apply IH].
Qed.

Lemma rrow_skip : forall dimmax s k b, 0 <= k < dimmax ->
  rrow (skip_high dimmax s) k b = rrow s k b.
Proof.
  intros dimmax s k b H. unfold rrow. cbv zeta.
  rewrite init_rel_skip by assumption. rewrite skip_high_length.
  f_equal. unfold skip_high at 2. rewrite skipn_map_nop. apply sweep_skip; assumption.
Qed.

Lemma rtab_skip : forall dimmax s k, 0 <= k < dimmax ->
  rtab (skip_high dimmax s) k = rtab s k.
Proof.
  intros dimmax s k H. unfold rtab. rewrite skip_high_length.
  apply map_ext. intros b. apply rrow_skip; assumption.
Qed.

(* MAIN THEOREM: the bars of dimension k < dimmax do not change when all the cells of dimension > dimmax are dropped.
   No hypothesis on the sequence (not even validity). *)
Theorem skip_high_bars : forall dimmax s k, 0 <= k < dimmax ->
  bars_of_dim (skip_high dimmax s) k = bars_of_dim s k.
Proof.
  intros dimmax s k H. unfold bars_of_dim. cbv zeta.
  rewrite rtab_skip by assumption. rewrite skip_high_length. reflexivity.
Qed.

Print Assumptions skip_high_bars.

(* ================================================================== the keyed level: normalize dimmax = skip_high dimmax . normalize (-1) *)


(* ------------------------------------------------------------------ 1. environments *)
Lemma lookup_erase : forall e k k',
  lookup (erase e k) k' = if k =? k' then None else lookup e k'.
Proof.
  intros e k k'. induction e as [|[k0 a] e IH]; simpl.
  - destruct (k =? k'); reflexivity.
  - destruct (k =? k0) eqn:E; simpl.
    + apply Z.eqb_eq in E. subst k0. rewrite IH.
      destruct (k =? k') eqn:F; [reflexivity|].
      rewrite Z.eqb_sym, F. reflexivity.
    + rewrite IH. destruct (k =? k') eqn:F; [|reflexivity].
      apply Z.eqb_eq in F. subst k'. rewrite E. reflexivity.
Qed.

Lemma lookupd_erased : forall e k k',
  lookupd (erased e k) k' = if k =? k' then None else lookupd e k'.
Proof.
  intros e k k'. induction e as [|[k0 a] e IH]; simpl.
  - destruct (k =? k'); reflexivity.
  - destruct (k =? k0) eqn:E; simpl.
    + apply Z.eqb_eq in E. subst k0. rewrite IH.
      destruct (k =? k') eqn:F; [reflexivity|].
      rewrite Z.eqb_sym, F. reflexivity.
    + rewrite IH. destruct (k =? k') eqn:F; [|reflexivity].
      apply Z.eqb_eq in F. subst k'. rewrite E. reflexivity.
Qed.

Lemma lookup_cons_erase : forall e k a k',
  lookup ((k, a) :: erase e k) k' = if k' =? k then Some a else lookup e k'.
Proof.
  intros. simpl. destruct (k' =? k) eqn:E; [reflexivity|].
  rewrite lookup_erase. rewrite Z.eqb_sym, E. reflexivity.
Qed.

(* ------------------------------------------------------------------ 2. the oracle version of skip_op *)
Definition skip_op' (dimmax : Z) (D : nat -> Z) (o : nop) : nop :=
  match o with
  | NIns d bd => if dimmax <? d then NId else o
  | NRem u => if dimmax <? D u then NId else o
  | NId => NId
  end.

Lemma skip_op'_dim_of : forall dimmax s o, skip_op' dimmax (dim_of s) o = skip_op dimmax s o.
Proof. intros. destruct o; reflexivity. Qed.

(* invariant relating the environment [e1] of the skipping run, [e2] of the full run and the key -> dimension
   environment [ed] of [keyed_ok_aux] *)
Definition inv (dimmax : Z) (D : nat -> Z) (e1 e2 : env) (ed : list (Z * Z)) : Prop :=
  forall k,
    match lookup e2 k with
    | Some a => lookupd ed k = Some (D a) /\ lookup e1 k = if dimmax <? D a then None else Some a
    | None => lookupd ed k = None /\ lookup e1 k = None
    end.

Lemma tr_bd_agree : forall dimmax D e1 e2 ed d bd, d <= dimmax ->
  inv dimmax D e1 e2 ed ->
  forallb (fun b => match lookupd ed b with Some d' => d' =? d - 1 | None => false end) bd = true ->
  tr_bd e1 bd = tr_bd e2 bd.
Proof.
  intros dimmax D e1 e2 ed d bd Hd Hinv. unfold tr_bd.
  induction bd as [|b bd IH]; simpl; intros H; [reflexivity|].
  apply andb_true_iff in H. destruct H as [Hb H]. rewrite IH by assumption. f_equal.
  specialize (Hinv b). destruct (lookup e2 b) as [a|].
  - destruct Hinv as [H1 H2]. rewrite H1 in Hb. apply Z.eqb_eq in Hb.
    rewrite H2. destruct (dimmax <? D a) eqn:E; [apply Z.ltb_lt in E; lia | reflexivity].
  - destruct Hinv as [H1 _]. rewrite H1 in Hb. discriminate.
Qed.

(* ------------------------------------------------------------------ 3. the generalised statement *)
Lemma normalize_aux_skip : forall dimmax D, 0 <= dimmax -> forall ops i e1 e2 ed,
  inv dimmax D e1 e2 ed ->
  keyed_ok_aux ed ops = true ->
  (forall j d bd, nth_error (normalize_aux (-1) i e2 ops) j = Some (NIns d bd) -> D (i + j)%nat = d) ->
  normalize_aux dimmax i e1 ops = map (skip_op' dimmax D) (normalize_aux (-1) i e2 ops).
Proof.
  intros dimmax D Hdm. induction ops as [|o ops IH]; intros i e1 e2 ed Hinv Hok HD; [reflexivity|].
  assert (Hneq : negb (dimmax =? -1) = true).
  { destruct (dimmax =? -1) eqn:E; [apply Z.eqb_eq in E; lia | reflexivity]. }
  assert (HDtail : forall e2' t, normalize_aux (-1) i e2 (o :: ops) = t :: normalize_aux (-1) (S i) e2' ops ->
            forall j d bd, nth_error (normalize_aux (-1) (S i) e2' ops) j = Some (NIns d bd) -> D (S i + j)%nat = d).
  { intros e2' t Heq j d bd Hj. replace (S i + j)%nat with (i + S j)%nat by lia.
    apply HD with (bd := bd). rewrite Heq. exact Hj. }
  destruct o as [k d fv bd | k fv | ].
  - (* Ins *)
    simpl in Hok. destruct (lookupd ed k) eqn:Hk; [discriminate|].
    apply andb_true_iff in Hok. destruct Hok as [Hbd Hok].
    assert (HDi : D i = d).
    { specialize (HD O d (tr_bd e2 bd)). rewrite Nat.add_0_r in HD. apply HD. reflexivity. }
    assert (He2k : lookup e2 k = None /\ lookup e1 k = None).
    { specialize (Hinv k). destruct (lookup e2 k) as [a|].
      - destruct Hinv as [H1 _]. rewrite H1 in Hk. discriminate.
      - destruct Hinv as [_ H2]. split; [reflexivity | exact H2]. }
    destruct He2k as [He2k He1k].
    simpl. rewrite Hneq. simpl.
    destruct (dimmax <? d) eqn:E.
    + (* skipped *)
      f_equal. apply IH with (ed := (k, d) :: ed).
      * intros k'. rewrite lookup_cons_erase. simpl.
        destruct (k' =? k) eqn:F.
        -- apply Z.eqb_eq in F. subst k'. rewrite HDi, E. split; [reflexivity | exact He1k].
        -- exact (Hinv k').
      * exact Hok.
      * apply HDtail with (t := NIns d (tr_bd e2 bd)). reflexivity.
    + apply Z.ltb_ge in E.
      rewrite (tr_bd_agree dimmax D e1 e2 ed d bd E Hinv Hbd). f_equal.
      apply IH with (ed := (k, d) :: ed).
      * intros k'. rewrite !lookup_cons_erase. simpl.
        destruct (k' =? k) eqn:F.
        -- rewrite HDi. split; [reflexivity|].
           destruct (dimmax <? d) eqn:G; [apply Z.ltb_lt in G; lia | reflexivity].
        -- exact (Hinv k').
      * exact Hok.
      * apply HDtail with (t := NIns d (tr_bd e2 bd)). reflexivity.
  - (* Rem *)
    simpl in Hok. simpl.
    pose proof (Hinv k) as Hk.
    destruct (lookup e2 k) as [a|] eqn:He2k.
    + destruct Hk as [Hdk He1k]. rewrite He1k. simpl.
      destruct (dimmax <? D a) eqn:E.
      * f_equal. apply IH with (ed := erased ed k).
        -- intros k'. rewrite lookup_erase, lookupd_erased.
           destruct (k =? k') eqn:F.
           ++ apply Z.eqb_eq in F. subst k'. split; [reflexivity|]. rewrite He1k. reflexivity.
           ++ exact (Hinv k').
        -- exact Hok.
        -- apply HDtail with (t := NRem a). simpl. rewrite He2k. reflexivity.
      * f_equal. apply IH with (ed := erased ed k).
        -- intros k'. rewrite !lookup_erase, lookupd_erased.
           destruct (k =? k') eqn:F.
           ++ split; reflexivity.
           ++ exact (Hinv k').
        -- exact Hok.
        -- apply HDtail with (t := NRem a). simpl. rewrite He2k. reflexivity.
    + destruct Hk as [Hdk He1k]. rewrite He1k. simpl. f_equal.
      apply IH with (ed := erased ed k).
      * intros k'. rewrite lookupd_erased.
        destruct (k =? k') eqn:F.
        -- apply Z.eqb_eq in F. subst k'. rewrite He2k. split; [reflexivity | exact He1k].
        -- exact (Hinv k').
      * exact Hok.
      * apply HDtail with (t := NId). simpl. rewrite He2k. reflexivity.
  - (* Nop *)
    simpl in Hok. simpl. f_equal. apply IH with (ed := ed); auto.
    apply HDtail with (t := NId). reflexivity.
Qed.

(* ------------------------------------------------------------------ 4. the theorems *)
Theorem normalize_is_skip_high : forall dimmax ops, 0 <= dimmax -> keyed_ok ops = true ->
  normalize dimmax ops = skip_high dimmax (normalize (-1) ops).
Proof.
  intros dimmax ops Hd Hok. unfold skip_high.
  rewrite <- (map_ext _ _ (skip_op'_dim_of dimmax (normalize (-1) ops))).
  unfold normalize at 1 3.
  apply normalize_aux_skip with (ed := []).
  - exact Hd.
  - intros k. simpl. split; reflexivity.
  - exact Hok.
  - intros j d bd Hj. simpl. unfold dim_of, normalize.
    rewrite (nth_error_nth _ _ NId Hj). reflexivity.
Qed.

Corollary ignored_dimensions : forall dimmax ops k, 0 <= k < dimmax -> keyed_ok ops = true ->
  bars_of_dim (normalize dimmax ops) k = bars_of_dim (normalize (-1) ops) k.
Proof.
  intros dimmax ops k Hk Hok. rewrite normalize_is_skip_high by (assumption || lia).
  apply skip_high_bars. exact Hk.
Qed.

Print Assumptions normalize_is_skip_high.
Print Assumptions ignored_dimensions.

