(* C07 - zigzag persistence.  Invariants of the specification walk of C07_Model.v: the cells [present s i] are
   insertion arrows <= i without repetition, and on a [valid] sequence they form a complex: closed under boundary,
   dimensions drop by one, boundaries without repetition, boundary of the boundary zero, dimensions >= 0. *)
From Coq Require Import ZArith List Bool Arith Lia.
Require Import C07_Model.
Import ListNotations.
Open Scope Z_scope.

(* ------------------------------------------------------------------ 1. booleans *)
Lemma memn_In : forall x l, memn x l = true <-> In x l.
Proof.
  intros x l. unfold memn. rewrite existsb_exists. split.
  - intros [y [Hy E]]. apply Nat.eqb_eq in E. subst. assumption.
  - intros H. exists x. split; [assumption | apply Nat.eqb_refl].
Qed.

Lemma memn_false : forall x l, memn x l = false <-> ~ In x l.
Proof.
  intros x l. rewrite <- memn_In. destruct (memn x l); split; intros H.
  - discriminate.
  - exfalso. apply H. reflexivity.
  - discriminate.
  - reflexivity.
Qed.

Lemma nodupb_NoDup : forall l, nodupb l = true -> NoDup l.
Proof.
  induction l as [|x r IH]; simpl; intros H.
  - constructor.
  - apply andb_true_iff in H. destruct H as [H1 H2].
    apply negb_true_iff in H1. apply memn_false in H1.
    constructor; [assumption | apply IH; assumption].
Qed.

Lemma In_remove_nat : forall u l x, In x (remove_nat u l) <-> In x l /\ x <> u.
Proof.
  intros u l x. unfold remove_nat. rewrite filter_In. rewrite negb_true_iff, Nat.eqb_neq. tauto.
Qed.

Lemma NoDup_remove_nat : forall u l, NoDup l -> NoDup (remove_nat u l).
Proof. intros. unfold remove_nat. apply NoDup_filter. assumption. Qed.

(* ------------------------------------------------------------------ 2. the suffix at position j *)
Lemma skipn_cons_nth_error : forall (s : list nop) j o t, skipn j s = o :: t ->
  nth_error s j = Some o /\ skipn (S j) s = t.
Proof.
  induction s as [|a s IH]; intros j o t H.
  - destruct j; simpl in H; discriminate.
  - destruct j as [|j].
    + simpl in H. inversion H. subst. split; reflexivity.
    + simpl in H. apply IH in H. exact H.
Qed.

Lemma nth_error_nth_nop : forall (s : list nop) j o, nth_error s j = Some o -> nth j s NId = o.
Proof. intros. apply nth_error_nth. assumption. Qed.

(* ------------------------------------------------------------------ 3. present: insertion arrows, bounded, no repetition *)
Lemma present_aux_0 : forall j cur t, present_aux j cur t 0 = cur.
Proof. intros. destruct t; reflexivity. Qed.
Lemma present_aux_nil : forall j cur f, present_aux j cur [] f = cur.
Proof. intros. destruct f; reflexivity. Qed.

Definition is_ins (s : list nop) (c : nat) : Prop := exists d bd, nth_error s c = Some (NIns d bd).

Lemma present_aux_bound : forall s fuel j cur t, skipn j s = t ->
  (forall c, In c cur -> (c < j)%nat /\ is_ins s c) ->
  forall c, In c (present_aux j cur t fuel) -> (c < j + fuel)%nat /\ is_ins s c.
Proof.
  intros s. induction fuel as [|f IH]; intros j cur t Ht Hc c Hin.
  - rewrite present_aux_0 in Hin. destruct (Hc c Hin). split; [lia | assumption].
  - destruct t as [|o t'].
    + rewrite present_aux_nil in Hin. destruct (Hc c Hin). split; [lia | assumption].
    + destruct (skipn_cons_nth_error _ _ _ _ Ht) as [Hn Hs].
      destruct o as [d bd | u | ]; simpl in Hin.
      * assert (G : (c < S j + f)%nat /\ is_ins s c).
        { apply (IH (S j) (j :: cur) t' Hs); [|assumption].
          intros x [Hx | Hx].
          - subst x. split; [lia | exists d, bd; assumption].
          - destruct (Hc x Hx). split; [lia | assumption]. }
        destruct G. split; [lia | assumption].
      * assert (G : (c < S j + f)%nat /\ is_ins s c).
        { apply (IH (S j) (remove_nat u cur) t' Hs); [|assumption].
          intros x Hx. apply In_remove_nat in Hx. destruct Hx as [Hx _].
          destruct (Hc x Hx). split; [lia | assumption]. }
        destruct G. split; [lia | assumption].
      * assert (G : (c < S j + f)%nat /\ is_ins s c).
        { apply (IH (S j) cur t' Hs); [|assumption].
          intros x Hx. destruct (Hc x Hx). split; [lia | assumption]. }
        destruct G. split; [lia | assumption].
Qed.

Lemma present_aux_nodup : forall s fuel j cur t, skipn j s = t ->
  (forall c, In c cur -> (c < j)%nat) -> NoDup cur -> NoDup (present_aux j cur t fuel).
Proof.
  intros s. induction fuel as [|f IH]; intros j cur t Ht Hc Hnd.
  - rewrite present_aux_0. exact Hnd.
  - destruct t as [|o t'].
    + rewrite present_aux_nil. exact Hnd.
    + destruct (skipn_cons_nth_error _ _ _ _ Ht) as [Hn Hs].
      destruct o as [d bd | u | ]; simpl.
      * apply (IH (S j) (j :: cur) t' Hs).
        -- intros x [Hx | Hx]; [subst; lia | specialize (Hc x Hx); lia].
        -- constructor; [|assumption]. intros Hj. specialize (Hc j Hj). lia.
      * apply (IH (S j) (remove_nat u cur) t' Hs).
        -- intros x Hx. apply In_remove_nat in Hx. destruct Hx as [Hx _]. specialize (Hc x Hx). lia.
        -- apply NoDup_remove_nat. assumption.
      * apply (IH (S j) cur t' Hs).
        -- intros x Hx. specialize (Hc x Hx). lia.
        -- assumption.
Qed.

Theorem present_is_insertion : forall s i c, In c (present s i) -> exists d bd, nth_error s c = Some (NIns d bd).
Proof.
  intros s i c H. unfold present in H.
  apply (present_aux_bound s (S i) O [] s eq_refl) in H.
  - destruct H as [_ H]. exact H.
  - intros x [].
Qed.

Theorem present_le : forall s i c, In c (present s i) -> (c <= i)%nat /\ (c < length s)%nat.
Proof.
  intros s i c H. split.
  - unfold present in H.
    apply (present_aux_bound s (S i) O [] s eq_refl) in H.
    + destruct H as [H _]. lia.
    + intros x [].
  - destruct (present_is_insertion s i c H) as [d [bd E]].
    apply nth_error_Some. rewrite E. discriminate.
Qed.

Theorem present_nodup : forall s i, NoDup (present s i).
Proof.
  intros s i. unfold present. apply (present_aux_nodup s (S i) O [] s eq_refl).
  - intros x [].
  - constructor.
Qed.

(* ------------------------------------------------------------------ 4. valid: the present cells form a complex *)
Definition cell_ok (s : list nop) (cur : list nat) (t : nat) : Prop :=
  0 <= dim_of s t /\ nodupb (bd_of s t) = true /\
  is_zero_vec (of_idx (flat_map (bd_of s) (bd_of s t))) = true /\
  forall c, In c (bd_of s t) -> In c cur /\ dim_of s c = dim_of s t - 1.
Definition complex_ok (s : list nop) (cur : list nat) : Prop := forall t, In t cur -> cell_ok s cur t.

Lemma valid_aux_complex : forall s fuel j cur t, skipn j s = t -> valid_aux s j cur t = true ->
  complex_ok s cur -> complex_ok s (present_aux j cur t fuel).
Proof.
  intros s. induction fuel as [|f IH]; intros j cur t Ht Hv Hq.
  - rewrite present_aux_0. exact Hq.
  - destruct t as [|o t'].
    + rewrite present_aux_nil. exact Hq.
    + destruct (skipn_cons_nth_error _ _ _ _ Ht) as [Hn Hs].
      apply nth_error_nth_nop in Hn.
      destruct o as [d bd | u | ]; simpl in Hv |- *.
      * repeat (apply andb_true_iff in Hv; let H := fresh "V" in destruct Hv as [Hv H]).
        apply (IH (S j) (j :: cur) t' Hs V).
        assert (Ed : dim_of s j = d) by (unfold dim_of; rewrite Hn; reflexivity).
        assert (Eb : bd_of s j = bd) by (unfold bd_of; rewrite Hn; reflexivity).
        intros x [Hx | Hx].
        -- subst x. unfold cell_ok. rewrite Ed, Eb.
           split; [apply Z.leb_le; assumption|].
           split; [assumption|]. split; [assumption|].
           intros c Hc. rewrite forallb_forall in V2. specialize (V2 c Hc).
           apply andb_true_iff in V2. destruct V2 as [M D].
           apply memn_In in M. apply Z.eqb_eq in D.
           split; [right; assumption | assumption].
        -- destruct (Hq x Hx) as [A [B [C D]]].
           split; [assumption|]. split; [assumption|]. split; [assumption|].
           intros c Hc. destruct (D c Hc). split; [right; assumption | assumption].
      * repeat (apply andb_true_iff in Hv; let H := fresh "V" in destruct Hv as [Hv H]).
        apply (IH (S j) (remove_nat u cur) t' Hs V).
        intros x Hx. apply In_remove_nat in Hx. destruct Hx as [Hx Hxu].
        destruct (Hq x Hx) as [A [B [C D]]].
        split; [assumption|]. split; [assumption|]. split; [assumption|].
        intros c Hc. destruct (D c Hc) as [D1 D2]. split; [|assumption].
        apply In_remove_nat. split; [assumption|].
        intros E. subst c.
        rewrite forallb_forall in V0. specialize (V0 x Hx).
        apply negb_true_iff in V0. apply memn_false in V0. contradiction.
      * apply (IH (S j) cur t' Hs Hv Hq).
Qed.

Lemma valid_present_complex : forall s i, valid s = true -> complex_ok s (present s i).
Proof.
  intros s i H. unfold present. apply (valid_aux_complex s (S i) O [] s eq_refl H).
  intros t [].
Qed.

Theorem valid_closed : forall s i t c, valid s = true -> In t (present s i) -> In c (bd_of s t) ->
  In c (present s i) /\ dim_of s c = dim_of s t - 1.
Proof.
  intros s i t c H Ht Hc. destruct (valid_present_complex s i H t Ht) as [_ [_ [_ D]]]. exact (D c Hc).
Qed.

Theorem valid_dd_zero : forall s i t, valid s = true -> In t (present s i) ->
  is_zero_vec (of_idx (flat_map (bd_of s) (bd_of s t))) = true.
Proof.
  intros s i t H Ht. destruct (valid_present_complex s i H t Ht) as [_ [_ [C _]]]. exact C.
Qed.

Theorem valid_bd_nodup : forall s i t, valid s = true -> In t (present s i) -> NoDup (bd_of s t).
Proof.
  intros s i t H Ht. destruct (valid_present_complex s i H t Ht) as [_ [B _]]. apply nodupb_NoDup. exact B.
Qed.

Theorem valid_dim_nonneg : forall s i t, valid s = true -> In t (present s i) -> 0 <= dim_of s t.
Proof.
  intros s i t H Ht. destruct (valid_present_complex s i H t Ht) as [A _]. exact A.
Qed.

Print Assumptions present_le.
Print Assumptions present_nodup.
Print Assumptions present_is_insertion.
Print Assumptions valid_closed.
Print Assumptions valid_dd_zero.
Print Assumptions valid_bd_nodup.
Print Assumptions valid_dim_nonneg.
