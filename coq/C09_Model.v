(* C09 - general matrices behave as dense matrices, whatever the column representation.
   SPECIFICATION model: dense matrices over Z_p (lists of columns of Z) with every Base_matrix operation.
   ALGORITHM models (transcriptions of the C++ of src/Persistence_matrix/include/gudhi/Persistence_matrix):
     - columns/column_utilities.h  _generic_add_to_column and its three specialisations          -> gmerge, sp_add/sp_mta/sp_msa
     - columns/heap_column.h       _pop_pivot/_prune/_add/_multiply_*_and_add/clear(row)/is_empty -> hp_*
     - columns/vector_column.h     erasedValues_, clear(row), is_empty, _generic_add, reorder       -> lz_*
     - base_swap.h                 indexToRow_/rowToIndex_/rowSwapped_, swap_rows, _orderRows       -> a_swap_rows/a_order
     - Base_matrix.h               every public operation                                            -> a_*
     - Base_matrix_with_column_compression.h  union-find over equal columns                          -> k_*
   No proofs in this file (it must keep extracting when a proof breaks). *)
From Coq Require Import ZArith List Bool.
Import ListNotations.
Open Scope Z_scope.

(* ================================================================ specification: dense vectors over Z_p *)
Definition dvec := list Z.
Definition dget (v : dvec) (r : Z) : Z := if r <? 0 then 0 else nth (Z.to_nat r) v 0.
Fixpoint dset_nat (v : dvec) (n : nat) (x : Z) : dvec :=
  match v with
  | [] => []
  | h :: t => match n with O => x :: t | S k => h :: dset_nat t k x end
  end.
Definition dset (v : dvec) (r : Z) (x : Z) : dvec := if r <? 0 then v else dset_nat v (Z.to_nat r) x.
Definition dzero (nr : nat) : dvec := repeat 0 nr.
Definition daxpy (p a : Z) (x : dvec) (b : Z) (y : dvec) : dvec :=
  map (fun uv => (a * fst uv + b * snd uv) mod p) (combine x y).
Definition dis_zero (v : dvec) : bool := forallb (fun x => x =? 0) v.
Definition dswap (v : dvec) (r1 r2 : Z) : dvec := dset (dset v r1 (dget v r2)) r2 (dget v r1).
(* the column given to insert_column: pairs (row, value), value reduced by get_value *)
Definition svec := list (Z * Z).
Fixpoint dense_of_entries (p : Z) (nr : nat) (es : svec) : dvec :=
  match es with
  | [] => dzero nr
  | (r, v) :: t => dset (dense_of_entries p nr t) r (v mod p)
  end.

(* ================================================================ specification: dense matrix with the plumbing of the
   column container (indices, removal) *)
Record dmat := { d_cols : list (option dvec); d_next : Z; d_cls : list Z }.
(* d_cls: only used by the column-compressed variant: label of the class of each column index *)
Definition d_empty : dmat := {| d_cols := []; d_next := 0; d_cls := [] |}.

Fixpoint lset {A} (l : list A) (n : nat) (dflt x : A) : list A :=   (* l[n] := x, padding with dflt *)
  match n with
  | O => match l with [] => [x] | _ :: t => x :: t end
  | S k => match l with [] => dflt :: lset [] k dflt x | h :: t => h :: lset t k dflt x end
  end.
Definition lget {A} (l : list (option A)) (j : Z) : option A := if j <? 0 then None else nth (Z.to_nat j) l None.

Definition d_col (m : dmat) (j : Z) : option dvec := lget (d_cols m) j.
Definition count_some {A} (l : list (option A)) : Z := Z.of_nat (length (filter (fun o => match o with Some _ => true | None => false end) l)).
Definition d_ncols (mapc : bool) (m : dmat) : Z := if mapc then count_some (d_cols m) else d_next m.

(* vector container: the slots [from, to) that were holes become empty columns *)
Fixpoint fill_holes {A} (l : list (option A)) (from : nat) (upto : nat) (z : A) : list (option A) :=
  match upto with
  | O => l
  | S k => if Nat.leb from k then fill_holes (match nth k l None with None => lset l k None (Some z) | Some _ => l end) from k z
           else l
  end.

Definition d_insert_at (mapc : bool) (p : Z) (nr : nat) (m : dmat) (idx : Z) (es : svec) : dmat :=
  let v := dense_of_entries p nr es in
  let nx := if d_next m <=? idx then idx + 1 else d_next m in
  let cols := lset (d_cols m) (Z.to_nat idx) None (Some v) in
  let cols := if mapc then cols else fill_holes cols (Z.to_nat (d_next m)) (Z.to_nat idx) (dzero nr) in
  {| d_cols := cols; d_next := nx; d_cls := d_cls m |}.
Definition d_insert (mapc : bool) (p : Z) (nr : nat) (m : dmat) (es : svec) : dmat := d_insert_at mapc p nr m (d_next m) es.
Definition d_remove_col (m : dmat) (idx : Z) : dmat :=
  {| d_cols := lset (d_cols m) (Z.to_nat idx) None None;
     d_next := if idx =? d_next m - 1 then d_next m - 1 else d_next m; d_cls := d_cls m |}.
Definition d_remove_last (m : dmat) : dmat :=
  if d_next m =? 0 then m
  else {| d_cols := lset (d_cols m) (Z.to_nat (d_next m - 1)) None None; d_next := d_next m - 1; d_cls := d_cls m |}.

(* target := a * target + b * source ; None = one of the columns does not exist (map container: std::out_of_range) *)
Definition d_axpy (p : Z) (m : dmat) (a : Z) (t : Z) (b : Z) (s : Z) : option dmat :=
  match d_col m t, d_col m s with
  | Some vt, Some vs => Some {| d_cols := lset (d_cols m) (Z.to_nat t) None (Some (daxpy p a vt b vs)); d_next := d_next m; d_cls := d_cls m |}
  | _, _ => None
  end.
Definition d_add p m s t := d_axpy p m 1 t 1 s.
Definition d_mta p m s c t := d_axpy p m (c mod p) t 1 s.
Definition d_msa p m c s t := d_axpy p m 1 t (c mod p) s.
Definition d_upd (m : dmat) (c : Z) (f : dvec -> dvec) : option dmat :=
  match d_col m c with
  | Some v => Some {| d_cols := lset (d_cols m) (Z.to_nat c) None (Some (f v)); d_next := d_next m; d_cls := d_cls m |}
  | None => None
  end.
Definition d_zero_entry (m : dmat) (c r : Z) : option dmat := d_upd m c (fun v => dset v r 0).
Definition d_zero_col (nr : nat) (m : dmat) (c : Z) : option dmat := d_upd m c (fun _ => dzero nr).
Definition d_swap_rows (m : dmat) (r1 r2 : Z) : dmat :=
  {| d_cols := map (fun o => match o with Some v => Some (dswap v r1 r2) | None => None end) (d_cols m); d_next := d_next m; d_cls := d_cls m |}.
Definition d_swap_cols (m : dmat) (c1 c2 : Z) : option dmat :=
  match d_col m c1, d_col m c2 with
  | Some v1, Some v2 => Some {| d_cols := lset (lset (d_cols m) (Z.to_nat c1) None (Some v2)) (Z.to_nat c2) None (Some v1);
                                d_next := d_next m; d_cls := d_cls m |}
  | _, _ => None
  end.
(* observations *)
Definition d_is_zero_entry (m : dmat) (c r : Z) : option bool := match d_col m c with Some v => Some (dget v r =? 0) | None => None end.
Definition d_is_zero_col (m : dmat) (c : Z) : option bool := match d_col m c with Some v => Some (dis_zero v) | None => None end.
Fixpoint d_row_aux (cols : list (option dvec)) (j : Z) (r : Z) : list (Z * Z) :=
  match cols with
  | [] => []
  | o :: t => (match o with Some v => if dget v r =? 0 then [] else [(j, dget v r)] | None => [] end) ++ d_row_aux t (j + 1) r
  end.
Definition d_row (m : dmat) (r : Z) : list (Z * Z) := d_row_aux (d_cols m) 0 r.

(* ---- specification of the column-compressed variant: the plain matrix, plus the partition of the column indices into
   classes of identical columns.  An operation on a target acts on its whole class; afterwards the class joins the class
   of an identical non-zero column if there is one (labels: index of the column object that survives = the older one). *)
Definition zget (l : list Z) (j : Z) : Z := if j <? 0 then -1 else nth (Z.to_nat j) l (-1).
Fixpoint find_same (cols : list (option dvec)) (cls : list Z) (v : dvec) (mine : Z) : option Z :=
  match cols, cls with
  | Some w :: ct, k :: kt => if (negb (k =? mine)) && (if list_eq_dec Z.eq_dec w v then true else false) then Some k else find_same ct kt v mine
  | _ :: ct, _ :: kt => find_same ct kt v mine
  | _, _ => None
  end.
Definition relabel (cls : list Z) (from to : Z) : list Z := map (fun k => if k =? from then to else k) cls.
Definition dk_settle (m : dmat) (t : Z) : dmat :=   (* after column t (and its class) changed *)
  match d_col m t with
  | Some v => if dis_zero v then m else
      match find_same (d_cols m) (d_cls m) v (zget (d_cls m) t) with
      | Some k => {| d_cols := d_cols m; d_next := d_next m; d_cls := relabel (d_cls m) (zget (d_cls m) t) k |}
      | None => m
      end
  | None => m
  end.
Definition dk_insert (p : Z) (nr : nat) (m : dmat) (es : svec) : dmat :=
  let idx := d_next m in
  let m1 := d_insert false p nr m es in
  dk_settle {| d_cols := d_cols m1; d_next := d_next m1; d_cls := d_cls m ++ [idx] |} idx.
Fixpoint set_class (cols : list (option dvec)) (cls : list Z) (k : Z) (v : dvec) : list (option dvec) :=
  match cols, cls with
  | c :: ct, k' :: kt => (if k' =? k then Some v else c) :: set_class ct kt k v
  | _, _ => cols
  end.
Definition dk_axpy (p : Z) (m : dmat) (a : Z) (t : Z) (b : Z) (s : Z) : option dmat :=
  match d_col m t, d_col m s with
  | Some vt, Some vs =>
      let v := daxpy p a vt b vs in
      Some (dk_settle {| d_cols := set_class (d_cols m) (d_cls m) (zget (d_cls m) t) v; d_next := d_next m; d_cls := d_cls m |} t)
  | _, _ => None
  end.
(* rows of the compressed matrix: one entry per class of identical columns, reported under the smallest index of the class *)
Fixpoint first_same (cols : list (option dvec)) (j : Z) (v : dvec) : Z :=
  match cols with
  | [] => j
  | Some w :: t => if list_eq_dec Z.eq_dec w v then j else first_same t (j + 1) v
  | None :: t => first_same t (j + 1) v
  end.
Fixpoint dk_row_aux (all cols : list (option dvec)) (j : Z) (r : Z) : list (Z * Z) :=
  match cols with
  | o :: t => (match o with
               | Some v => if (dget v r =? 0) || negb (first_same all 0 v =? j) then [] else [(j, dget v r)]
               | None => [] end) ++ dk_row_aux all t (j + 1) r
  | [] => []
  end.
Definition dk_row (m : dmat) (r : Z) : list (Z * Z) := dk_row_aux (d_cols m) (d_cols m) 0 r.

(* ================================================================ algorithm model 1: ordered sparse columns
   (list, set, naive/small vector, intrusive list/set, and - entry by entry - unordered set) *)
Definition fadd (p a b : Z) := (a + b) mod p.
Definition fmul (p a b : Z) := (a * b) mod p.

(* _generic_add_to_column: ft = process_target on the value, fs = value inserted by process_source,
   fu = update_target1; an updated entry equal to 0 is deleted *)
Fixpoint gmerge (ft fs : Z -> Z) (fu : Z -> Z -> Z) (t : svec) : svec -> svec :=
  fix inner (s : svec) : svec :=
    match t with
    | [] => map (fun e => (fst e, fs (snd e))) s
    | (rt, vt) :: t' =>
        match s with
        | [] => map (fun e => (fst e, ft (snd e))) t
        | (rs, vs) :: s' =>
            if rt <? rs then (rt, ft vt) :: gmerge ft fs fu t' s
            else if rs <? rt then (rs, fs vs) :: inner s'
            else let v := fu vt vs in if v =? 0 then gmerge ft fs fu t' s' else (rt, v) :: gmerge ft fs fu t' s'
        end
    end.
Definition sp_add (p : Z) (t s : svec) : svec := gmerge (fun x => x) (fun x => x) (fadd p) t s.
Definition sp_mta (p val : Z) (t s : svec) : svec :=
  let t := if val =? 0 then [] else t in   (* targetColumn.clear() *)
  gmerge (fun x => fmul p x val) (fun x => x) (fun vt vs => fadd p (fmul p vt val) vs) t s.
Definition sp_msa (p val : Z) (t s : svec) : svec :=
  if val =? 0 then t
  else gmerge (fun x => x) (fun x => fmul p x val) (fun vt vs => fadd p (fmul p vs val) vt) t s.
Fixpoint sget (s : svec) (r : Z) : Z := match s with [] => 0 | (r', v) :: t => if r' =? r then v else sget t r end.
Definition sdel (s : svec) (r : Z) : svec := filter (fun e => negb (fst e =? r)) s.
Fixpoint shas (s : svec) (r : Z) : bool := match s with [] => false | (r', _) :: t => (r' =? r) || shas t r end.
(* insertion sort on the row index (std::sort / re-insertion into an ordered container after reorder) *)
Fixpoint sinsert (e : Z * Z) (s : svec) : svec :=
  match s with [] => [e] | h :: t => if fst e <? fst h then e :: s else h :: sinsert e t end.
Definition ssort (s : svec) : svec := fold_right sinsert [] s.
Definition entries_of (p : Z) (es : svec) : svec := map (fun e => (fst e, snd e mod p)) es.

(* ================================================================ algorithm model 2: heap column = multiset with duplicates *)
Definition hsum (p : Z) (l : svec) (r : Z) : Z := fold_right (fun e acc => if fst e =? r then fadd p (snd e) acc else acc) 0 l.
Fixpoint hmax (l : svec) : Z :=
  match l with
  | [] => -1
  | e :: t => match t with [] => fst e | _ :: _ => Z.max (fst e) (hmax t) end
  end.
(* _pop_pivot: largest row, duplicates summed, zero sums dropped *)
Fixpoint hp_pop (fuel : nat) (p : Z) (l : svec) : option (Z * Z) * svec :=
  match fuel with
  | O => (None, l)
  | S f => match l with
           | [] => (None, [])
           | _ => let r := hmax l in let v := hsum p l r in let rest := sdel l r in
                  if v =? 0 then hp_pop f p rest else (Some (r, v), rest)
           end
  end.
Fixpoint hp_pop_all (fuel : nat) (p : Z) (l : svec) : svec :=   (* _prune body: entries by decreasing row *)
  match fuel with
  | O => []
  | S f => match hp_pop (S (length l)) p l with
           | (Some e, rest) => e :: hp_pop_all f p rest
           | (None, _) => []
           end
  end.
Definition hp_prune (p : Z) (c : svec * Z) : svec * Z :=
  if snd c =? 0 then c else (hp_pop_all (S (length (fst c))) p (fst c), 0).
Definition hp_maybe_prune (p : Z) (c : svec * Z) : svec * Z :=
  if Z.of_nat (length (fst c)) <? 2 * snd c then hp_prune p c else c.
Definition hp_add (p : Z) (c : svec * Z) (s : svec) : svec * Z :=
  match s with
  | [] => c
  | _ => match fst c with
         | [] => (s, Z.of_nat (length s))
         | _ => hp_maybe_prune p (fst c ++ s, snd c + Z.of_nat (length s))
         end
  end.
Definition hp_mta (p val : Z) (c : svec * Z) (s : svec) : svec * Z :=
  let c := if val =? 0 then ([], 0) else c in
  match fst c with
  | [] => (s, Z.of_nat (length s))
  | _ => hp_maybe_prune p (map (fun e => (fst e, fmul p (snd e) val)) (fst c) ++ s, snd c + Z.of_nat (length s))
  end.
(* fixed = true: the repaired code (commit 9d12171ad); false: the code as found, which copied the source unscaled *)
Definition hp_msa (fixed : bool) (p val : Z) (c : svec * Z) (s : svec) : svec * Z :=
  if val =? 0 then c else
  match s with
  | [] => c
  | _ => let scaled := map (fun e => (fst e, fmul p (snd e) val)) s in
         match fst c with
         | [] => ((if fixed then scaled else s), Z.of_nat (length s))
         | _ => hp_maybe_prune p (fst c ++ scaled, snd c + Z.of_nat (length s))
         end
  end.
Definition hp_clear_row (p : Z) (c : svec * Z) (r : Z) : svec * Z :=
  (filter (fun e => negb (fst e =? r)) (hp_pop_all (S (length (fst c))) p (fst c)), 0).
Definition hp_is_empty (p : Z) (c : svec * Z) : bool :=
  match hp_pop (S (length (fst c))) p (fst c) with (None, _) => true | _ => false end.
Definition hp_reorder (p : Z) (perm : Z -> Z) (c : svec * Z) : svec * Z :=
  (map (fun e => (perm (fst e), snd e)) (hp_pop_all (S (length (fst c))) p (fst c)), 0).

(* ================================================================ algorithm model 3: lazy vector column (sorted entries, erased rows) *)
Definition zmem (r : Z) (l : list Z) : bool := existsb (fun x => x =? r) l.
Definition lz_live (c : svec * list Z) : svec := filter (fun e => negb (zmem (fst e) (snd c))) (fst c).
(* fixed = true: repaired clear(row) (commit 1589a1a02) records only stored rows; ra = row access: eager removal *)
Definition lz_clear_row (fixed ra : bool) (c : svec * list Z) (r : Z) : svec * list Z :=
  if ra then (if shas (lz_live c) r then (sdel (fst c) r, snd c) else c)
  else if zmem r (snd c) then c
  else if fixed then (if shas (fst c) r then (fst c, r :: snd c) else c)
  else (fst c, r :: snd c).
Definition lz_is_empty (c : svec * list Z) : bool := Nat.eqb (length (fst c)) (length (snd c)).
Definition lz_nonzero (c : svec * list Z) (r : Z) : bool := negb (zmem r (snd c)) && shas (fst c) r.
Definition lz_get (c : svec * list Z) (r : Z) : Z := if zmem r (snd c) then 0 else sget (fst c) r.
(* _generic_add: erased entries of the target are deleted, erased entries of a lazy source skipped, erasedValues_.clear() *)
Definition lz_add (p : Z) (c s : svec * list Z) : svec * list Z :=
  match fst s with
  | [] => c
  | _ => match fst c with
         | [] => (lz_live s, [])    (* _copy_into_empty: the live entries of the source *)
         | _ => (sp_add p (lz_live c) (lz_live s), [])
         end
  end.
Definition lz_mta (p val : Z) (c s : svec * list Z) : svec * list Z :=
  let c := if val =? 0 then ([], []) else c in
  match fst c with
  | [] => (lz_live s, [])           (* _copy_into_empty *)
  | _ => (sp_mta p val (lz_live c) (lz_live s), [])
  end.
Definition lz_msa (p val : Z) (c s : svec * list Z) : svec * list Z :=
  if val =? 0 then c else
  match fst s with
  | [] => c
  | _ => (sp_msa p val (lz_live c) (lz_live s), [])
  end.
Definition lz_reorder (perm : Z -> Z) (c : svec * list Z) : svec * list Z :=
  (ssort (map (fun e => (perm (fst e), snd e)) (lz_live c)), []).

(* ================================================================ columns of any of the three kinds *)
Inductive acol := ASp (l : svec) | AHeap (c : svec * Z) | ALazy (c : svec * list Z).
Record flags := { f_heap_fix : bool; f_lazy_fix : bool; f_order_fix : bool; f_ra : bool }.
Definition all_fixed (ra : bool) := {| f_heap_fix := true; f_lazy_fix := true; f_order_fix := true; f_ra := ra |}.

Definition c_make (kind : Z) (p : Z) (es : svec) : acol :=
  let l := entries_of p es in
  if kind =? 1 then AHeap (l, 0) else if kind =? 2 then ALazy (l, []) else ASp l.
Definition c_empty (kind : Z) : acol := if kind =? 1 then AHeap ([], 0) else if kind =? 2 then ALazy ([], []) else ASp [].
(* the entries another column sees when this one is the source range (begin()..end()) *)
Definition c_raw (c : acol) : svec := match c with ASp l => l | AHeap c => fst c | ALazy c => fst c end.
Definition c_get (p : Z) (c : acol) (r : Z) : Z :=
  match c with ASp l => sget l r | AHeap c => hsum p (fst c) r | ALazy c => lz_get c r end.
Definition c_nonzero (p : Z) (c : acol) (r : Z) : bool :=
  match c with ASp l => shas l r | AHeap c => negb (hsum p (fst c) r =? 0) | ALazy c => lz_nonzero c r end.
Definition c_is_empty (p : Z) (c : acol) : bool :=
  match c with ASp l => match l with [] => true | _ => false end | AHeap c => hp_is_empty p c | ALazy c => lz_is_empty c end.
Definition c_add (p : Z) (t s : acol) : acol :=
  match t, s with
  | ASp lt, _ => ASp (sp_add p lt (c_raw s))
  | AHeap ct, _ => AHeap (hp_add p ct (c_raw s))
  | ALazy ct, ALazy cs => ALazy (lz_add p ct cs)
  | ALazy ct, _ => ALazy (lz_add p ct (c_raw s, []))
  end.
Definition c_mta (p val : Z) (t s : acol) : acol :=
  match t, s with
  | ASp lt, _ => ASp (sp_mta p val lt (c_raw s))
  | AHeap ct, _ => AHeap (hp_mta p val ct (c_raw s))
  | ALazy ct, ALazy cs => ALazy (lz_mta p val ct cs)
  | ALazy ct, _ => ALazy (lz_mta p val ct (c_raw s, []))
  end.
Definition c_msa (fl : flags) (p val : Z) (t s : acol) : acol :=
  match t, s with
  | ASp lt, _ => ASp (sp_msa p val lt (c_raw s))
  | AHeap ct, _ => AHeap (hp_msa (f_heap_fix fl) p val ct (c_raw s))
  | ALazy ct, ALazy cs => ALazy (lz_msa p val ct cs)
  | ALazy ct, _ => ALazy (lz_msa p val ct (c_raw s, []))
  end.
(* operator*=(v): a zero factor clears the column, otherwise every stored entry is multiplied *)
Definition c_scale (p v : Z) (c : acol) : acol :=
  let v := v mod p in
  let mul := map (fun e => (fst e, fmul p (snd e) v)) in
  match c with
  | ASp l => if v =? 0 then ASp [] else ASp (mul l)
  | AHeap h => if v =? 0 then AHeap ([], 0) else AHeap (mul (fst h), snd h)
  | ALazy z => if v =? 0 then ALazy ([], []) else ALazy (mul (fst z), snd z)
  end.
Definition c_clear (c : acol) : acol := match c with ASp _ => ASp [] | AHeap _ => AHeap ([], 0) | ALazy _ => ALazy ([], []) end.
Definition c_clear_row (fl : flags) (p : Z) (c : acol) (r : Z) : acol :=
  match c with
  | ASp l => ASp (sdel l r)
  | AHeap c => AHeap (hp_clear_row p c r)
  | ALazy c => ALazy (lz_clear_row (f_lazy_fix fl) (f_ra fl) c r)
  end.
Definition c_reorder (p : Z) (perm : Z -> Z) (c : acol) : acol :=
  match c with
  | ASp l => ASp (ssort (map (fun e => (perm (fst e), snd e)) l))
  | AHeap c => AHeap (hp_reorder p perm c)
  | ALazy c => ALazy (lz_reorder perm c)
  end.
(* entries linked into the rows (row access): every stored entry *)
Definition c_linked (c : acol) : svec := c_raw c.

(* ================================================================ algorithm model 4: Base_matrix with Base_swap *)
Record amat := { a_cols : list (option acol); a_next : Z; a_i2r : list Z; a_r2i : list Z; a_sw : bool }.
Definition idperm (nr : nat) : list Z := map Z.of_nat (seq 0 nr).
Definition a_empty (nr : nat) : amat := {| a_cols := []; a_next := 0; a_i2r := idperm nr; a_r2i := idperm nr; a_sw := false |}.
Definition pget (l : list Z) (r : Z) : Z := if r <? 0 then r else nth (Z.to_nat r) l r.
Definition pset (l : list Z) (r : Z) (x : Z) : list Z := dset l r x.
Definition a_col (m : amat) (j : Z) : option acol := lget (a_cols m) j.
Definition a_ncols (mapc : bool) (m : amat) : Z := if mapc then count_some (a_cols m) else a_next m.

(* Base_swap::swap_rows (both rows known to the dictionaries) *)
Definition a_swap_rows (m : amat) (r1 r2 : Z) : amat :=
  let i1 := pget (a_i2r m) r1 in let i2 := pget (a_i2r m) r2 in
  let r2i := pset (pset (a_r2i m) i1 (pget (a_r2i m) i2)) i2 (pget (a_r2i m) i1) in
  let i2r := pset (pset (a_i2r m) r1 i2) r2 i1 in
  {| a_cols := a_cols m; a_next := a_next m; a_i2r := i2r; a_r2i := r2i; a_sw := true |}.
(* reset of the dictionaries: all rows (repaired) / only the rows below the number of columns (as found) *)
Fixpoint reset_below (l : list Z) (i : Z) (n : nat) : list Z :=
  match n with O => l | S k => reset_below (pset l i i) (i + 1) k end.
(* Base_swap::_orderRows *)
Definition a_order (fl : flags) (mapc : bool) (p : Z) (m : amat) : amat :=
  if a_sw m then
    let cols := map (fun o => match o with Some c => Some (c_reorder p (pget (a_r2i m)) c) | None => None end) (a_cols m) in
    let n := if f_order_fix fl then length (a_i2r m) else Z.to_nat (a_ncols mapc m) in
    {| a_cols := cols; a_next := a_next m; a_i2r := reset_below (a_i2r m) 0 n; a_r2i := reset_below (a_r2i m) 0 n; a_sw := false |}
  else m.
Definition a_swap_cols (ra : bool) (m : amat) (c1 c2 : Z) : option amat :=
  match a_col m c1, a_col m c2 with
  | Some v1, Some v2 => Some {| a_cols := lset (lset (a_cols m) (Z.to_nat c1) None (Some v2)) (Z.to_nat c2) None (Some v1);
                                a_next := a_next m; a_i2r := a_i2r m; a_r2i := a_r2i m; a_sw := a_sw m || ra |}
  | _, _ => None
  end.
Definition a_with_cols (m : amat) (cols : list (option acol)) (nx : Z) : amat :=
  {| a_cols := cols; a_next := nx; a_i2r := a_i2r m; a_r2i := a_r2i m; a_sw := a_sw m |}.
Definition a_insert_at (fl : flags) (mapc : bool) (kind p : Z) (m : amat) (idx : Z) (es : svec) : amat :=
  let m := a_order fl mapc p m in
  let nx := if a_next m <=? idx then idx + 1 else a_next m in
  let cols := lset (a_cols m) (Z.to_nat idx) None (Some (c_make kind p es)) in
  let cols := if mapc then cols else fill_holes cols (Z.to_nat (a_next m)) (Z.to_nat idx) (c_empty kind) in
  a_with_cols m cols nx.
Definition a_insert fl mapc kind p m es := a_insert_at fl mapc kind p m (a_next m) es.
Definition a_remove_col (m : amat) (idx : Z) : amat :=
  a_with_cols m (lset (a_cols m) (Z.to_nat idx) None None) (if idx =? a_next m - 1 then a_next m - 1 else a_next m).
Definition a_remove_last (m : amat) : amat :=
  if a_next m =? 0 then m else a_with_cols m (lset (a_cols m) (Z.to_nat (a_next m - 1)) None None) (a_next m - 1).
Definition a_upd2 (m : amat) (s t : Z) (f : acol -> acol -> acol) : option amat :=
  match a_col m t, a_col m s with
  | Some ct, Some cs => Some (a_with_cols m (lset (a_cols m) (Z.to_nat t) None (Some (f ct cs))) (a_next m))
  | _, _ => None
  end.
(* source index = target index (repaired Base_matrix): the column is scaled instead of being merged with itself *)
Definition a_add (p : Z) (m : amat) (s t : Z) :=
  a_upd2 m s t (if s =? t then (fun ct _ => c_scale p 2 ct) else c_add p).
Definition a_mta (p : Z) (m : amat) (s c t : Z) :=
  a_upd2 m s t (if s =? t then (fun ct _ => c_scale p (c mod p + 1) ct) else c_mta p (c mod p)).
Definition a_msa (fl : flags) (p : Z) (m : amat) (c s t : Z) :=
  a_upd2 m s t (if s =? t then (fun ct _ => c_scale p (1 + c mod p) ct) else c_msa fl p (c mod p)).
Definition a_upd1 (m : amat) (c : Z) (f : acol -> acol) : option amat :=
  match a_col m c with
  | Some x => Some (a_with_cols m (lset (a_cols m) (Z.to_nat c) None (Some (f x))) (a_next m))
  | None => None
  end.
Definition a_zero_entry (fl : flags) (p : Z) (m : amat) (c r : Z) := a_upd1 m c (fun x => c_clear_row fl p x (pget (a_i2r m) r)).
Definition a_zero_col (m : amat) (c : Z) := a_upd1 m c c_clear.
(* observations (get_column and get_row order the rows first: the driver applies a_order before reading) *)
Definition a_content (p : Z) (nr : nat) (c : acol) : dvec := map (fun r => c_get p c (Z.of_nat r)) (seq 0 nr).
Definition a_is_zero_entry (p : Z) (m : amat) (c r : Z) : option bool :=
  match a_col m c with Some x => Some (negb (c_nonzero p x (pget (a_i2r m) r))) | None => None end.
Definition a_is_zero_col (p : Z) (m : amat) (c : Z) : option bool :=
  match a_col m c with Some x => Some (c_is_empty p x) | None => None end.
Fixpoint a_row_aux (cols : list (option acol)) (j : Z) (r : Z) : list (Z * Z) :=
  match cols with
  | [] => []
  | o :: t => (match o with Some c => if shas (c_linked c) r then [(j, sget (c_linked c) r)] else [] | None => [] end) ++ a_row_aux t (j + 1) r
  end.
Definition a_row (m : amat) (r : Z) : list (Z * Z) := a_row_aux (a_cols m) 0 r.
(* abstraction to the specification *)
Definition a_abs (p : Z) (nr : nat) (m : amat) : dmat :=
  {| d_cols := map (fun o => match o with
                             | Some c => Some (map (fun r => c_get p c (pget (a_i2r m) (Z.of_nat r))) (seq 0 nr))
                             | None => None end) (a_cols m);
     d_next := a_next m; d_cls := [] |}.

(* ================================================================ algorithm model 5: column compression
   (Base_matrix_with_column_compression: boost::disjoint_sets_with_storage = parents + ranks, repToColumn_,
   columnToRep_ = the set of representative columns ordered by content) *)
Record kmat := { k_par : list Z; k_rank : list Z; k_rep : list (option (Z * acol)); k_next : Z }.
(* k_rep: repToColumn_; an object carries the column index it was constructed with (Row_access::columnIndex_) *)
Definition k_empty : kmat := {| k_par := []; k_rank := []; k_rep := []; k_next := 0 |}.
Fixpoint k_find_f (fuel : nat) (par : list Z) (x : Z) : Z :=
  match fuel with O => x | S f => let q := zget par x in if q =? x then x else k_find_f f par q end.
Definition k_find (m : kmat) (x : Z) : Z := k_find_f (S (length (k_par m))) (k_par m) x.
(* link of two roots by rank (boost: the root of larger rank wins; on a tie y wins and its rank grows) *)
Definition k_link (m : kmat) (x y : Z) : kmat :=
  if x =? y then m else
  let rx := zget (k_rank m) x in let ry := zget (k_rank m) y in
  if ry <? rx then {| k_par := dset (k_par m) y x; k_rank := k_rank m; k_rep := k_rep m; k_next := k_next m |}
  else {| k_par := dset (k_par m) x y; k_rank := if rx =? ry then dset (k_rank m) y (ry + 1) else k_rank m;
          k_rep := k_rep m; k_next := k_next m |}.
Definition k_with_rep (m : kmat) (rep : list (option (Z * acol))) : kmat :=
  {| k_par := k_par m; k_rank := k_rank m; k_rep := rep; k_next := k_next m |}.
Definition acol_eqb (p : Z) (nr : nat) (a b : acol) : bool :=
  if list_eq_dec Z.eq_dec (a_content p nr a) (a_content p nr b) then true else false.
Fixpoint k_lookup (p : Z) (nr : nat) (reps : list (option (Z * acol))) (j : Z) (c : acol) (me : Z) : option Z :=
  match reps with
  | [] => None
  | o :: t => match o with
              | Some (_, c') => if negb (j =? me) && acol_eqb p nr c c' then Some j else k_lookup p nr t (j + 1) c me
              | None => k_lookup p nr t (j + 1) c me
              end
  end.
(* _insert_column(columnIndex): an empty column loses its object; a column equal to another representative is merged *)
Definition k_insert_column (p : Z) (nr : nat) (m : kmat) (idx : Z) : kmat :=
  match lget (k_rep m) idx with
  | None => m
  | Some (_, c) =>
      if c_is_empty p c then k_with_rep m (lset (k_rep m) (Z.to_nat idx) None None)
      else match k_lookup p nr (k_rep m) 0 c idx with
           | None => m
           | Some dbl =>   (* _insert_double_column *)
               let m1 := k_link m idx dbl in
               let newrep := k_find m1 idx in
               let old := lget (k_rep m1) dbl in
               let reps := lset (k_rep m1) (Z.to_nat idx) None None in
               if newrep =? idx then k_with_rep m1 (lset (lset reps (Z.to_nat dbl) None None) (Z.to_nat idx) None old)
               else k_with_rep m1 reps
           end
  end.
Definition k_insert (kind p : Z) (nr : nat) (m : kmat) (es : svec) : kmat :=
  let idx := k_next m in
  let m1 := {| k_par := k_par m ++ [idx]; k_rank := k_rank m ++ [0];
               k_rep := lset (k_rep m) (Z.to_nat idx) None (Some (idx, c_make kind p es)); k_next := idx + 1 |} in
  k_insert_column p nr m1 idx.
Definition k_col (kind : Z) (m : kmat) (j : Z) : acol :=
  match lget (k_rep m) (k_find m j) with Some (_, c) => c | None => c_empty kind end.
(* add_to and friends.  fixed = false (the code as found): None = the class of the target has no column object (null
   dereference in the C++); fixed = true: an empty class gets a new empty column, and a source of the same class as the
   target scales the column (scal) instead of merging it with itself *)
Definition k_upd (fixed : bool) (kind p : Z) (nr : nat) (m : kmat) (s t : Z) (scal : Z) (f : acol -> acol -> acol) : option kmat :=
  let tr := k_find m t in
  let go (lbl : Z) (ct : acol) :=
    let nc := if fixed && (k_find m s =? tr) then c_scale p scal ct else f ct (k_col kind m s) in
    k_insert_column p nr (k_with_rep m (lset (k_rep m) (Z.to_nat tr) None (Some (lbl, nc)))) tr in
  match lget (k_rep m) tr with
  | None => if fixed then Some (go tr (c_empty kind)) else None
  | Some (lbl, ct) => Some (go lbl ct)
  end.
Fixpoint k_row_aux (reps : list (option (Z * acol))) (r : Z) : list (Z * Z) :=
  match reps with
  | [] => []
  | o :: t => (match o with Some (lbl, c) => if shas (c_linked c) r then [(lbl, sget (c_linked c) r)] else [] | None => [] end) ++ k_row_aux t r
  end.
Definition k_row (m : kmat) (r : Z) : list (Z * Z) := k_row_aux (k_rep m) r.
